"""Per property: the Lean obligations, the correspondences that tie the model to /repo, and notes."""

TRUSTED_BASE = [
    "Lean 4.33 kernel (theorems checked by `lake build`; thorough tier re-checks the .olean with leanchecker)",
    "axioms allowed per theorem: propext, Classical.choice, Quot.sound (audited with #print axioms on every run)",
    "correspondence harness: /verif/harness (Rust, links /repo's working tree), /verif/lean/Main.lean (protocol), /verif/check (diff)",
    "Rust std character classes (is_alphanumeric, is_whitespace) are sent by the harness with every character",
]

EVAL_ASSUME = ['library hypotheses (modelled, not verified; compared with the real libraries by K7 on every run): var_pre/pre = one asynchronous step, FixedPoints::symbolic = dead ends of the unit, attractor computation = terminal SCCs, BDD and/exists/iff = point-wise definitions', 'the theorems cover both the cache-free evaluator evalPure and the model of the real eval_node (cache, counters, shortcuts: evalNode_sound, formulaeDirty_correct, extendedDirty_correct); the models are tied to the implementation by running them on the same inputs (requests `eval …` and `eval pure_…`)', 'tree-level theorems take preprocessed formulae (variables named by nesting depth: hypothesis WellNamed/WellScoped, which C07 proves of every accepted input); the string-level theorems have no such hypothesis']

PROPS = {
    "C05": {
        "module": "HctlProofs.Props.C05",
        "theorems": [
            "Hctl.C05.parse_iff_derives",
            "Hctl.C05.reject_iff_not_derivable",
            "Hctl.C05.derives_functional",
            "Hctl.C05.accepted_frontier",
            "Hctl.C05.parse_fuel_sufficient",
            "Hctl.C05.paren_invariant",
            "Hctl.C05.plain_rejects_ext",
            "Hctl.C05.ext_extends_plain",
            "Hctl.C05.parseOne_ext_of_plain",
            "Hctl.C05.lexer_meets_spec",
            "Hctl.C05.accepts_iff",
            "Hctl.Lex.lex_complete",
            "Hctl.Lex.lex_sound_rec",
        ],
        "ks": ["k2", "k1"],
        "spec_tied": ["k2", "k1"],
        "full": True,
        "not_proved": "nothing of the statement on the model: the parser accepts a token list iff it derives in the documented grammar "
                      "(parse_iff_derives), the tokenizer accepts a text with tokens toks iff the text spells toks in the lexical "
                      "specification Sp/Seg (lexer_meets_spec; both directions, every text), hence accepts_iff; nothing is dropped "
                      "(accepted_frontier); plain rejects wild-cards/domains and the extended tokenizer extends the plain one. "
                      "Premise: CharsOK, facts about Rust's character classes (checked against std by K1 on every run)",
        "rule": "K2: exhaustive token sequences by weight over 10 token kinds with groups nested <=2, plus token lists of "
                "random trees (half mutated); non-trivial = accepted by the parser. K1: exhaustive strings over a 34-symbol "
                "alphabet to a length bound, plus spelled random formulae (a third mutated); non-trivial = lexes to a "
                "non-empty token list",
        "assumptions": [
            "the parser model (HctlModel/Parser.lean) is the code's parser: checked by K2 on every run",
            "the lexer model is the code's tokenizer: checked by K1 on every run (and proved to meet the lexical specification Sp/Seg: lexer_meets_spec)",
        ],
    },

    "C01": {
        "module": "HctlProofs.Props.C01",
        "extra_modules": ["HctlProofs.Lemmas.EntryPoints", "HctlProofs.Lemmas.DriverEnv"],
        "theorems": ["Hctl.driver_premises", "Hctl.C01.model_check_correct", "Hctl.C01.invalid_colour_excluded", "Hctl.evalPure_correct",
                     "Hctl.C01.sat_EX", "Hctl.C01.sat_EG", "Hctl.C01.sat_AU", "Hctl.C01.sat_bind", "Hctl.C01.sat_jump",
                     "Hctl.C01.steady_selfloop", "Hctl.formulaeDirty_correct", "Hctl.C04.treesDirty_sound"],
        "ks": ["k7"],
        "spec_tied": ["k7:eval "],
        "full": True,
        "not_proved": "nothing of the statement on the model: formulaeDirty_correct covers the whole plain pipeline (tokenizer, parser, "
                      "preprocessing, support check, mark_duplicates, cached eval_node) for every list of input strings: the outcome is "
                      "the parse/validation error or exactly the satisfaction sets under the path semantics; premises are about the "
                      "environment only (EnvOK, GraphWF, GraphAsync, CharsOK)",
        "rule": "K7: 14 small networks (1-3 variables, 1-64 colours, constrained and unconstrained regulations) exported as explicit "
                "Kripke families x k=0..3 x random batches of 1-3 well-scoped formulae over all operators; results compared "
                "point-wise (every state x colour incl. invalid x valuation); non-trivial = result neither empty nor full",
        "assumptions": EVAL_ASSUME,
    },
    "C02": {
        "module": "HctlProofs.Props.C02",
        "extra_modules": ["HctlProofs.Lemmas.EntryPoints"],
        "theorems": ["Hctl.C02.extended_correct", "Hctl.C02.sat_wild", "Hctl.C02.sat_bind_dom", "Hctl.C02.sat_exists_dom",
                     "Hctl.C02.sat_forall_dom", "Hctl.C02.exists_empty_dom", "Hctl.C02.forall_empty_dom",
                     "Hctl.C02.readme_equiv_1", "Hctl.C02.readme_equiv_2", "Hctl.C02.readme_equiv_3",
                     "Hctl.C02.readme_equiv_2_gen", "Hctl.C02.readme_equiv_3_gen", "Hctl.extendedDirty_correct", "Hctl.C04.extendedDirty_sound"],
        "ks": ["o02", "k7"],
        "spec_tied": ["k7:eval ", "o02:eval "],
        "full": True,
        "not_proved": "nothing of the statement on the model: extendedDirty_correct covers the whole extended pipeline (tokenizer, parser, preprocessing, context lookup, mark_duplicates, extend_context_with_wild_cards, cached eval_node) for every list of input strings and every context of variable-independent sets; the README equivalences are proved for every body formula",
        "rule": "O02: the three README equivalences (and their general forms) with random bodies and context sets that are empty / "
                "full / colour-dependent / empty for some colours only, through the public API; K7 extended leg",
        "assumptions": EVAL_ASSUME + ["context sets are inside the unit set and independent of the spare variables (CtxOK); "
                                       "the harness generates such sets"],
    },
    "C03": {
        "module": "HctlProofs.Props.C03",
        "extra_modules": ["HctlProofs.Lemmas.EntryPoints", "HctlProofs.Lemmas.CliCounts"],
        "theorems": ["Hctl.C03.eval_subset_unit", "Hctl.C03.result_colours_valid", "Hctl.C03.counts_le",
                     "Hctl.C03.closed_indep_spare", "Hctl.formulaeDirty_correct", "Hctl.extendedDirty_correct",
                     "Hctl.C17.reported_counts_le"],
        "ks": ["k7"],
        "spec_tied": ["k7:eval "],
        "full": True,
        "not_proved": "nothing of the statement on the model: by formulaeDirty_correct / extendedDirty_correct every set returned by the entry points is the unit set intersected with a satisfaction set (hence inside the unit, valid colours only, counts bounded), and closed_indep_spare gives independence of spare variables",
        "rule": "K7 on networks whose regulation constraints exclude colours; oracle on the raw result bits: no point with an "
                "invalid colour, no dependence on the spare variables",
        "assumptions": EVAL_ASSUME,
    },
    "C13": {
        "module": "HctlProofs.Props.C13",
        "theorems": ["Hctl.C13.ew_correct", "Hctl.C13.aw_correct", "Hctl.C13.ew_eq_eu_or_eg", "Hctl.C13.aw_eq_not_eu",
                     "Hctl.C13.psi_imp_ew", "Hctl.C13.psi_imp_aw", "Hctl.C13.weak_until_dual"],
        "ks": ["o13"],
        "spec_tied": ["o13:pure_"],
        "full": True,
        "rule": "O13: random operand formulae on all small networks; the defining equivalences evaluated through the tool itself",
        "assumptions": EVAL_ASSUME,
    },
    "C15": {
        "module": "HctlProofs.Props.C15",
        "theorems": ["Hctl.C15.k_irrelevant", "Hctl.C15.sanitize_succeeds", "Hctl.C15.sanitize_eq_raw",
                     "Hctl.C15.sanitize_of_sem", "Hctl.C15.k_irrelevant_sem", "Hctl.C15.formulaeDirty_sanitisable"],
        "ks": ["o15"],
        "spec_tied": ["o15:eval "],
        "full": True,
        "not_proved": "nothing of the statement on the model: sanitize_of_sem / k_irrelevant_sem hold for every semantically exact result "
                      "(plain or extended, cached or not) of a closed formula, formulaeDirty_sanitisable is the entry-point form; "
                      "`transfer_from` of lib-param-bn is MODELLED as 'fails iff the set depends on a spare variable' and the canonical "
                      "encoding as a function of (state, colour) — the library side is compared by O15",
        "rule": "O15: closed formulae x k = depth..depth+2; raw vs sanitised; comparison with SymbolicAsyncGraph::new",
        "assumptions": EVAL_ASSUME,
    },
    "C18": {
        "module": "HctlProofs.Props.C18",
        "extra_modules": ["HctlProofs.Lemmas.UnsafeStrings"],
        "theorems": ["Hctl.C18.unsafeEx_eq_standard",
                     "Hctl.C18.unsafe_ex_eq", "Hctl.C18.unsafe_ex_eq_pure", "Hctl.C18.no_steady_eq",
                     "Hctl.C18.fixedPoint_pattern_excluded"],
        "ks": ["o18"],
        "spec_tied": ["o18:pure_"],
        "full": True,
        "rule": "O18: formulae of the fragment on all networks; arbitrary formulae on the networks without steady states",
        "assumptions": EVAL_ASSUME,
    },
    "C20": {
        "module": "HctlProofs.Props.C20",
        "extra_modules": ["HctlProofs.Lemmas.Instantiate"],
        "theorems": ["Hctl.C20.agree_instantiate", "Hctl.C20.slice_eq_instantiated",
                     "Hctl.C20.colour_slice_eq", "Hctl.C20.sat_colourwise", "Hctl.C20.slice_independent_of_other_colours",
                     "Hctl.C20.colour_slice_sem", "Hctl.C20.colour_slice_entry"],
        "ks": ["o20"],
        "spec_tied": ["o20:eval "],
        "full": False,
        "not_proved": "that pick_witness yields a network whose single colour has the transitions of the chosen colour "
                      "(hypothesis AgreeCol) is a library property; O20 decides the premise itself on every sampled instance "
                      "(transition table of the witness network = table of the chosen colour) besides comparing the results",
        "rule": "O20: every valid colour of every parametrised small network x closed formulae; slice vs pick_witness network; "
                "premise AgreeCol decided per instance",
        "assumptions": EVAL_ASSUME,
    },
    "C10": {
        "module": "HctlProofs.Props.C10",
        "extra_modules": ["HctlProofs.Lemmas.PlainViaExt"],
        "theorems": ["Hctl.C10.plain_through_extended",
                     "Hctl.C10.sat_subst", "Hctl.C10.sat_subst_two", "Hctl.C10.raw_result_as_wild", "Hctl.C10.ext_empty_ctx",
                     "Hctl.C10.sat_subst_on", "Hctl.C10.sat_ctx_congr", "Hctl.C10.substitute_raw_result", "Hctl.extendedDirty_correct"],
        "ks": ["o10"],
        "spec_tied": ["o10:eval "],
        "full": True,
        "not_proved": "nothing of the statement on the model: substitute_raw_result is the set-level statement (every graph, every "
                      "formula, any position of the closed sub-formula, fresh wild-card bound to its raw result), and by "
                      "extendedDirty_correct the cached entry points return exactly these sets; the benchmark-size leg of the "
                      "oracle is testing of the implementation",
        "rule": "O10: random (plain and extended) formulae, 1-3 closed sub-formulae replaced by wild-cards bound to their raw results; "
                "plain formulae through the extended entry point with empty context; thorough: bundled 13/17-variable models",
        "assumptions": EVAL_ASSUME,
    },
    "C11": {
        "module": "HctlProofs.Props.C11",
        "theorems": ["Hctl.C11.ef_unfold", "Hctl.C11.eg_unfold", "Hctl.C11.eu_unfold", "Hctl.C11.au_unfold",
                     "Hctl.C11.ax_dual", "Hctl.C11.af_dual", "Hctl.C11.ag_dual", "Hctl.C11.au_dual",
                     "Hctl.C11.ex_mono", "Hctl.C11.ef_mono", "Hctl.C11.eg_mono", "Hctl.C11.eu_mono", "Hctl.C11.au_mono",
                     "Hctl.C11.ef_eq_reach_bwd", "Hctl.C11.eu_eq_reach_bwd_within", "Hctl.C11.ag_eq_trap_fwd",
                     "Hctl.C11.ex_steady_selfloop", "Hctl.C11.ax_steady_selfloop"],
        "ks": ["o11"],
        "spec_tied": ["o11:pure_"],
        "full": False,
        "not_proved": "partial by nature: the theorems hold for the model at every size; model = code is checked at small sizes; "
                      "at benchmark size (13/17-variable bundled models) the laws are evaluated on the implementation only (testing)",
        "rule": "O11: 15 laws/dualities + monotonicity of 14 operator positions over random wild-card argument sets on all small "
                "networks; EF/AG/EU vs reach_backward/trap_forward/constrained reachability; the laws on bundled benchmark models",
        "assumptions": EVAL_ASSUME,
    },
    "C12": {
        "module": "HctlProofs.Props.C12",
        "theorems": ["Hctl.C12.attractor_pattern_exact", "Hctl.C12.fixedPoint_pattern_exact", "Hctl.C12.steady_shortcut_correct",
                     "Hctl.C12.steady_shortcut_eq_generic", "Hctl.C12.attractor_shortcut_correct",
                     "Hctl.C12.attractor_shortcut_model", "Hctl.C12.attractor_shortcut_eq_generic", "Hctl.attrSpec"],
        "ks": ["o12", "k7"],
        "spec_tied": ["o12:pure_", "k7:pure_"],
        "full": True,
        "not_proved": "nothing of the statement on the model: the model's attractor computation (bounded breadth-first search) is proved "
                      "to return exactly the terminal SCCs (attrSpec), so both shortcuts equal generic evaluation on every graph; that "
                      "the external library (ITGR + Xie-Beerel) computes the same set is compared by K7 (request `attractors`) on every run",
        "rule": "O12: 18 pattern / near-miss formulae vs pattern-defeating rewrites, at top level, under operators, in quantifier and "
                "domain scopes, in batches, on all networks (incl. constrained parameters), random domain sets",
        "assumptions": EVAL_ASSUME,
    },
    "C06": {
        "module": "HctlProofs.Props.C06",
        "theorems": ["Hctl.C06.build_wf", "Hctl.C06.build_str", "Hctl.C06.mkAtom_wf", "Hctl.C06.mkUnary_wf", "Hctl.C06.mkBinary_wf",
                     "Hctl.C06.mkHybrid_wf", "Hctl.C06.canonToks_derives", "Hctl.C06.parse_canonToks",
                     "Hctl.Lex.tokenize_render", "Hctl.C06.print_parse_roundtrip", "Hctl.C06.print_parse_roundtrip_plain",
                     "Hctl.C06.render_injective", "Hctl.C06.asciiClass_ok", "Hctl.C06.parsed_tree_roundtrip",
                     "Hctl.C06.preprocessed_tree_roundtrip", "Hctl.parsed_treeOK", "Hctl.rename_treeOK"],
        "ks": ["k3", "k2", "k4", "k1"],
        "spec_tied": ["k3"],
        "full": True,
        "not_proved": "nothing of the statement on the model: the round trip is proved for every tree over valid identifiers (TreeOK, "
                      "PropNamesOK), every tree the tokenizer+parser produce from any text (parsed_tree_roundtrip) and every "
                      "preprocessed tree (preprocessed_tree_roundtrip), under the character-class facts CharsOK (the 17 special "
                      "characters are neither name characters nor white space except the blank, the letters of the keywords are "
                      "alphanumeric, no white-space character is alphanumeric; an ASCII instance is proved and K1 checks the facts "
                      "against Rust's std for every scalar value on every run)",
        "rule": "K3: all trees with <= 4 (thorough 5) nodes over all node kinds + random deep trees over 18 identifier shapes; every "
                "node's stored text/height vs the independent renderer; oracle: to_string -> parse_extended_formula -> equality",
        "assumptions": ["identifiers are valid names that do not lex as operators/constants (PropNamesOK and the harness' name pool)"],
    },
    "C07": {
        "module": "HctlProofs.Props.C07",
        "theorems": ["Hctl.C07.rename_ok_iff", "Hctl.C07.rename_err_iff", "Hctl.C07.rename_alpha", "Hctl.C07.rename_depth_names",
                     "Hctl.C07.rename_distinct_eq_depth", "Hctl.C07.rename_idem", "Hctl.C07.rename_wellScoped"],
        "ks": ["k4"],
        "spec_tied": ["k4"],
        "full": True,
        "rule": "K4: all trees with <= 4 (thorough 5) nodes over names {x, xx, y} (user names equal to internal ones), jumps anywhere, "
                "bad propositions + random trees over 5 names; accept/reject kind and resulting tree; oracles: scope rules, "
                "de Bruijn equality, names by depth, distinct = depth, idempotence",
        "assumptions": ["the renamer model (HctlModel/Rename.lean) is the code's validate_and_rename_recursive: checked by K4 on every run"],
    },
    "C08": {
        "module": "HctlProofs.Props.C08",
        "extra_modules": ["HctlProofs.Lemmas.SameTree"],
        "theorems": ["Hctl.C08.formulaeDirty_congr", "Hctl.C08.extendedDirty_congr", "Hctl.C08.results_of_same_tokens", "Hctl.C08.results_of_same_tokens_ext", "Hctl.C08.parseOne_of_alpha", "Hctl.C08.parseOne_of_parens", "Hctl.C08.leading_ws_results",
                     "Hctl.C08.alpha_invariant", "Hctl.C08.paren_invariant", "Hctl.C08.paren_invariant_inner",
                     "Hctl.C08.const_spelling_invariant", "Hctl.C08.copy_by_canonical_name", "Hctl.C08.leading_ws_invariant",
                     "Hctl.C08.ws_between_tokens", "Hctl.C08.hybrid_segment_ws", "Hctl.C08.long_short_invariant"],
        "ks": ["o08", "k1"],
        "spec_tied": ["o08:pure_", "k1"],
        "full": True,
        "not_proved": "nothing of the statement on the model: renaming (alpha_invariant), white space before/between tokens and inside "
                      "hybrid segments (leading_ws_invariant, ws_between_tokens, hybrid_segment_ws), redundant parentheses, long versus "
                      "short operator spellings (long_short_invariant) and constant spellings all leave the preprocessed tree unchanged, "
                      "and everything downstream is a function of that tree; premise CharsOK (character classes)",
        "rule": "O08: random closed formulae x (4 consistent renamings incl. internal names permuted, 3 respellings with random "
                "whitespace / long operator names / redundant parentheses / constant spellings, 1 composition); results must be equal",
        "assumptions": EVAL_ASSUME,
    },
    "C16": {
        "module": "HctlProofs.Props.C16",
        "extra_modules": ["HctlProofs.Lemmas.ArchiveCtx"],
        "theorems": ["Hctl.C16.bundle_roundtrip", "Hctl.C16.bdd_entry_reloads", "Hctl.C16.nonbdd_ignored",
                     "Hctl.C16.lines_unlines", "Hctl.C16.formulae_lines", "Hctl.C16.oneLine_ok", "Hctl.C16.oneLine_id",
                     "Hctl.C16.entries_length", "Hctl.C16.reloaded_context_same_effect",
                     "Hctl.C16.reloaded_context_same_effect_tool"],
        "ks": ["k8"],
        "spec_tied": ["k8"],
        "full": False,
        "not_proved": "partial by nature: the zip container, the file system, Bdd (de)serialisation and aeon printing/parsing are "
                      "outside the model (round-trip hypothesis hrt); they are exercised by the K8 oracle on every run. The round trip "
                      "is proved for EVERY label (the former exception — empty labels and labels ending in '/' were written but skipped on "
                      "reload — was a defect of load_bdd_bundle, repaired, see known_findings.json)",
        "rule": "K8: label->set maps (1-4 labels from 13 shapes incl. dotted, leading digit, non-ASCII; empty/full/random/colour-dependent "
                "sets) x networks through aeon/bnet/sbml x formula lists; write -> read with a graph rebuilt from model.aeon; "
                "entry names and formulae.txt vs the model; reloaded sets used as context",
        "assumptions": ["deser (ser s) = s for lib-bdd's string format (checked by the oracle)",
                        ],
    },
    "C17": {
        "module": "HctlProofs.Props.C17",
        "extra_modules": ["HctlProofs.Lemmas.CliModel", "HctlProofs.Lemmas.CliCounts", "HctlProofs.Lemmas.DriverCli"],
        "theorems": ["Hctl.C17.mem_loadFormulae", "Hctl.C17.loadFormulae_order", "Hctl.C17.loadFormulae_idem", "Hctl.C17.trim_trim",
                     "Hctl.C17.analyse_eq_api_ext", "Hctl.C17.analyse_eq_api_plain", "Hctl.C17.analyse_correct",
                     "Hctl.C17.parseAll_of_prep", "Hctl.C17.mem_listed", "Hctl.C17.counts_mono", "Hctl.C17.reported_counts_le",
                     "Hctl.C17.netFamily_driverNet", "Hctl.C17.driverNet_premises", "Hctl.C17.analyse_correct_driver"],
        "ks": ["k9"],
        "spec_tied": ["k9"],
        "bins": True,
        "full": False,
        "not_proved": "partial by nature: the tool's pipeline from the CONTENT of the formula file to the archived sets, the printed counts "
                      "and the listed states is modelled (Cli.analyse: loader, parser choice by -e, validation against the plain "
                      "context, number of variable sets = maximum over the formulae, label lookup per tree, one shared cache, file "
                      "order) and proved equal to the model's library entry points on the graph with that many variable sets "
                      "(analyse_eq_api_ext/_plain), hence, end to end, a message or exactly the satisfaction sets in file order and "
                      "never a panic (analyse_correct); outside the model: reading files, the model-file parsers (aeon/bnet/sbml), "
                      "clap, the zip container, exit codes and the formatting of numbers — exercised by running the binary",
        "rule": "K9: loader on generated file layouts (comments, blanks, CRLF, NBSP, '#' after blanks) vs the model; process runs of the "
                "binary: model formats aeon/bnet/sbml x 4 print options x with/without context archive — archived sets, printed "
                "trees, counts and listed states compared with the MODEL of the tool (requests cli / cliprint) and with the library "
                "API in-process; 10 error scenarios (4 of them also against the model's message kind)",
        "assumptions": ["the sets of a context archive that is USED were written for a graph with the number of spare variable sets the tool "
                        "builds (an archive for another number is reported as a message since the repair D14 — exercised by K9)"],
    },
    "C19": {
        "module": "HctlProofs.Props.C19",
        "theorems": ["Hctl.C19.explode_semantics", "Hctl.C19.flatten_semantics", "Hctl.C19.implicit_semantics",
                     "Hctl.C19.explode_names_injective", "Hctl.C19.fresh_names_injective", "Hctl.C19.every_instantiation_induced",
                     "Hctl.C19.flatten_family", "Hctl.C19.implicit_family", "Hctl.C19.generated_not_variable",
                     "Hctl.C19.specified_always_flattened", "Hctl.C19.implicit_exploded",
                     "Hctl.C19.flatten_specified", "Hctl.C19.no_regulators_untouched"],
        "ks": ["k10"],
        "spec_tied": [],
        "bins": True,
        "full": True,
        "rule": "K10: 8 hand-written + random aeon networks (2-3 variables; implicit functions of arity 0-3; explicit f/2, g/1, k/0, nested "
                "and shared); the binary's stdout re-loaded as bnet; truth table of every target over (variables, fresh constants) vs "
                "the model; oracle: family over the constants = family of instantiations of the input",
        "assumptions": ["zero-arity parameters are not named like network variables (hypothesis SymsOK; lib-param-bn refuses such networks)",
                        "aeon/bnet parsing and printing of lib-param-bn (modelled, not verified)"],
    },
    "C09": {
        "module": "HctlProofs.Props.C09",
        "extra_modules": ["HctlProofs.Lemmas.MarkDups", "HctlProofs.Lemmas.CanonConverse"],
        "theorems": ["Hctl.C09.renaming_injective", "Hctl.C09.renaming_names", "Hctl.C09.renaming_total",
                     "Hctl.C09.canonName_injective", "Hctl.C09.dupIncr_keys", "Hctl.canonChars_render", "Hctl.canon_eq_of_key_eq",
                     "Hctl.canonTreeAux_shape", "Hctl.eq_mapVars_of_canon_eq", "Hctl.canonTreeAux_mapKeys", "Hctl.sat_renameVar",
                     "Hctl.keySem_holds", "Hctl.keyWild_holds", "Hctl.single_name_transfer", "Hctl.dups_le_one", "Hctl.markDups_witness",
                     "Hctl.canonTree_idempotent", "Hctl.canonChars_idempotent", "Hctl.canon_invariant_under_renaming",
                     "Hctl.canon_eq_imp_renaming_single", "Hctl.markDups_count", "Hctl.canon_eq_imp_renaming"],
        "ks": ["k5", "k6"],
        "spec_tied": [],
        "full": True,
        "not_proved": "proved: the character-level pass of the code on a rendering equals the rendering of the tree-level canonical form, with "
                      "the same renaming (canonChars_render, every tree over valid identifiers); the renaming is a total injective function "
                      "onto fresh names var0, var1, …; the canonical form has the shape of the tree (canonTreeAux_shape) and canonisation "
                      "commutes with injective renamings (canonTreeAux_mapKeys); for keys with at most one variable — the only ones the "
                      "cache uses — equal canonical forms mean equal up to renaming and the same semantics after renaming (keySem_holds). "
                      "Also proved: idempotence (canonTree_idempotent, canonChars_idempotent), 'equal up to an injective renaming => same canonical "
                      "form' for any number of variables (canon_invariant_under_renaming), the converse for single-named trees "
                      "(canon_eq_imp_renaming_single), and that mark_duplicates only reports keys of sub-formulae with at most one "
                      "variable (markDups_witness). The counter bound is proved too (markDups_count: counter n >= 1 and at least n+1 occurrences with that key), and so is "
                      "the general converse (canon_eq_imp_renaming: depth-named sub-formulae with the same canonical form are equal up "
                      "to an injective renaming, any number of variables). Nothing of the statement is left unproved on the model",
        "rule": "K5: every sub-formula of all preprocessed trees with <= 4 (5) nodes + random preprocessed trees (propositions such as a3, V_b); "
                "pairwise oracle: same canonical form iff same alpha-normal form. K6: batches of 1-4 formulae with planted overlaps "
                "(renamed, under same/different/nested domains, under jumps); oracle: independent occurrence count",
        "assumptions": ["the canoniser and duplicate-marking models are the code's: checked by K5/K6 on every run"],
    },
    "C04": {
        "module": "HctlProofs.Props.C04",
        "extra_modules": ["HctlProofs.Lemmas.ListIndep"],
        "theorems": ["Hctl.C04.formulae_position_independent", "Hctl.C04.extended_position_independent", "Hctl.C04.cache_transparent", "Hctl.C04.cached_eq_pure", "Hctl.C04.batch_sound", "Hctl.C04.batch_results_agree",
                     "Hctl.C04.init_cacheOK_plain", "Hctl.C04.init_cacheOK_noSharing", "Hctl.evalNode_sound",
                     "Hctl.lookup_spec", "Hctl.store_ok", "Hctl.C04.init_cacheOK_ext", "Hctl.C04.extended_batch_sound",
                     "Hctl.keySem_holds", "Hctl.keyWild_holds", "Hctl.single_name_transfer", "Hctl.dups_le_one",
                     "Hctl.markDups_witness", "Hctl.C04.treesDirty_sound", "Hctl.C04.extendedDirty_sound"],
        "ks": ["o04", "k7"],
        "spec_tied": ["o04:eval ", "k7:eval "],
        "full": True,
        "not_proved": 'the two key facts the cache theorem needs are now DERIVED from the canoniser model (keySem_holds: equal keys => equal canonical trees => the cached set renamed back denotes the other sub-formula; keyWild_holds), via canonChars_render (character-level canoniser = tree-level canonical form), render_injective and sat_renameVar. Remaining hypotheses (definitions, not axioms): CharsOK (facts about Rust character classes, checked against std by K1), CtxSC (context sets do not depend on the variable slots), the top-level unit does not constrain the variable slots, GraphAsync (a transition changes the state). The former hypothesis "keys of the duplicate map have at most one variable" is now a theorem too: mark_duplicates only inserts keys of depth-named, well-scoped sub-formulae with at most one variable (markDups_witness), and "at most one variable" is a property of the KEY (dups_le_one, via single_name_transfer); treesDirty_sound / extendedDirty_sound / no_panic_treesDirty are end-to-end statements with the real duplicate map' + "; the initial context with wild-cards pre-loaded (extend_context_with_wild_cards) is now proved to satisfy "
                      "the invariant (init_cacheOK_ext, extended_batch_sound); the progress callback is not "
                      "an input of the model (it only receives references in Rust) — checked by the oracle",
        "rule": "O04: batches of 2-4 extended formulae with planted overlaps (sub-formulae shared up to renaming, closed under fresh "
                "quantifiers with/without domains, swapped-role two-variable duplicates) on all networks, k=1..3: batch vs each formula "
                "alone vs eval_node with an empty duplicate map, reversed order, repetition, progress observer",
        "assumptions": EVAL_ASSUME,
    },
    "C14": {
        "module": "HctlProofs.Props.C14",
        "extra_modules": ["HctlProofs.Lemmas.EntryPoints", "HctlProofs.Lemmas.ErrorClasses"],
        "theorems": ["Hctl.C14.no_panic_trees", "Hctl.C14.preprocessed_goodQ", "Hctl.C14.error_iff_plain",
                     "Hctl.C14.renameRec_plain", "Hctl.C07.rename_ok_iff", "Hctl.C14.no_panic_treesDirty",
                     "Hctl.formulaeDirty_correct", "Hctl.extendedDirty_correct", "Hctl.C14.parseAll_error_iff",
                     "Hctl.C14.error_iff", "Hctl.C14.extended_outcome", "Hctl.C14.plain_outcome"],
        "ks": ["o14", "k7"],
        "spec_tied": ["o14:eval ", "k7:eval "],
        "full": True,
        "not_proved": 'the two key facts the cache theorem needs are now DERIVED from the canoniser model (keySem_holds: equal keys => equal canonical trees => the cached set renamed back denotes the other sub-formula; keyWild_holds), via canonChars_render (character-level canoniser = tree-level canonical form), render_injective and sat_renameVar. Remaining hypotheses (definitions, not axioms): CharsOK (facts about Rust character classes, checked against std by K1), CtxSC (context sets do not depend on the variable slots), the top-level unit does not constrain the variable slots, GraphAsync (a transition changes the state). The former hypothesis "keys of the duplicate map have at most one variable" is now a theorem too: mark_duplicates only inserts keys of depth-named, well-scoped sub-formulae with at most one variable (markDups_witness), and "at most one variable" is a property of the KEY (dups_le_one, via single_name_transfer); treesDirty_sound / extendedDirty_sound / no_panic_treesDirty are end-to-end statements with the real duplicate map' + "; both string entry points are covered: plain_outcome / extended_outcome say, for every list of strings (and every "
                      "context of variable-independent sets), that the outcome is a result or an error value, and that it is an error "
                      "exactly when some string fails tokenizer/parser/scoping/proposition/support validation or (extended) needs a "
                      "label without a context set (parseAll_error_iff, error_iff); panics inside the BDD / graph libraries "
                      "and stack exhaustion on unbounded nesting are outside the model",
        "rule": "O14: context sets taken from a graph with another number of variable sets must be rejected with an error value; "
                "every string entry point (plain/extended, raw/sanitised, unsafe_ex) under catch_unwind on random, "
                "grammar-mutated and unicode strings, propositions named like spare BDD variables, arbitrary subsets of the context "
                "labels, k=0..2; error kinds compared with the model",
        "assumptions": EVAL_ASSUME,
    },
}

# what MANIFEST.json says per property
MANIFEST_TEXT = {
    "C05": {
        "text": "Machine-checked Lean 4 proof that the parser model accepts a token list (any length, any nesting) exactly when it "
                "derives from the documented stratified grammar, that the tree is unique and that the flattened input is the "
                "tree's frontier (nothing dropped); the model is tied to /repo's parser and tokenizer on every run by exhaustive "
                "(bounded) + random differential runs, and model-free oracles (frontier, plain-vs-extended) run on the implementation.",
        "note": "Trusted: Lean kernel, axioms {propext, Classical.choice, Quot.sound}, the correspondence harness. Modelled, not "
                "verified: Rust std char classes (CharsOK is a hypothesis, checked against std by K1). The tokenizer model is proved "
                "sound and complete for the lexical specification Sp/Seg (every text).",
        "technique": "Lean 4 proof (parser = grammar, by induction on fuel / derivations) + differential correspondence check",
    },
}

def _ev(text, note=None, tech=None):
    return {
        "text": text,
        "note": note or ("Trusted: Lean kernel, axioms {propext, Classical.choice, Quot.sound}, the correspondence harness. Modelled, "
                         "not verified: the BDD/graph/attractor libraries (their assumed behaviour is compared with the real "
                         "libraries on small graphs on every run) and Rust's character classes (CharsOK, checked against std). The "
                         "theorems cover the model of the whole pipeline (tokenizer, parser, preprocessing, duplicate marking, cached "
                         "eval_node); the model is tied to /repo by the correspondence run."),
        "technique": tech or "Lean 4 proof (structural + fixed-point induction against a path semantics) + differential correspondence check",
    }

MANIFEST_TEXT.update({
    "C01": _ev("Lean 4 theorems evalPure_correct and, end to end, formulaeDirty_correct: on every graph (any number of states/colours) and "
               "for every list of input strings, the plain entry point of the model (tokenizer, parser, preprocessing, support check, "
               "mark_duplicates, cached eval_node) returns the validation error or exactly the points of the unit set whose state "
               "satisfies the formula under a path-based reference semantics (self-loops on steady states); the model is compared "
               "point-wise with /repo on explicit small Kripke families on every run."),
    "C02": _ev("Same for extended formulae (extendedDirty_correct: wild-cards, restricted domains incl. colour-dependent/empty/nested, any "
               "context of variable-independent sets), plus Lean proofs of the three README equivalences for every body formula; "
               "oracle runs the equivalences through the public API."),
    "C03": _ev("Lean theorems: every set returned by the entry points is the unit set intersected with a satisfaction set (hence valid "
               "colours only, counts bounded — also the three numbers the command-line tool prints, reported_counts_le), and the raw result of a closed formula is independent of the spare variables; oracle "
               "checks both on the implementation's raw BDDs."),
    "C13": _ev("Lean theorems: eval_ew/eval_aw denote exactly weak until on paths; EW = EU or EG; psi implies both; the defining "
               "equivalences are also evaluated through the tool."),
    "C15": _ev("Lean theorems: every semantically exact result of a closed formula (plain or extended, cached or not, in particular what "
               "the string entry point returns) is independent of the number of spare variable sets, sanitising succeeds and equals "
               "the raw (state, colour) set; transfer_from is modelled; oracle compares raw/sanitised/k-variants and SymbolicAsyncGraph::new."),
    "C18": _ev("Lean theorems: on the fragment, eval_node with steady set empty is literally equal to standard eval_node (any cache state); "
               "without steady states both compute the satisfying points; unsafeEx_eq_standard is the same at the string entry point."),
    "C20": _ev("Lean theorem: satisfaction at a colour mentions only that colour's transition system, hence colour slices agree between (in particular with the one-colour graph `instantiate G c`, slice_eq_instantiated) "
               "graphs agreeing on that colour; oracle compares every valid colour's slice with the pick_witness network."),
})

MANIFEST_TEXT.update({
    "C10": _ev("Lean theorems sat_subst / substitute_raw_result: replacing a closed sub-formula, at any position, by a fresh wild-card "
               "bound to its raw result leaves the evaluated set unchanged on every graph; plain_through_extended: the extended entry point with an empty context returns, outcome for outcome, what the plain entry point returns on every list of plain texts. Oracle substitutes raw results through "
               "the public API, small and benchmark models."),
    "C11": _ev("Lean theorems for arbitrary argument sets on arbitrary graphs: unfolding laws of EF/EG/EU/AU, dualities, monotonicity, "
               "EF/EU = (constrained) backward reachability, AG = forward-closed subset, steady states as self-loops. Oracle "
               "evaluates the laws and the library reachability functions on small and bundled benchmark models."),
    "C12": _ev("Lean theorems: the pattern matchers accept exactly the two patterns; the steady-state shortcut equals the generic "
               "evaluation of !{x}: AX {x} in any admissible universe (incl. domain scopes); the attractor shortcut equals !{x}: AG EF {x} "
               "for the model's attractor computation, which is proved to return exactly the terminal SCCs. Oracle compares patterns "
               "with pattern-defeating rewrites; the external library's result is compared with the model's on every run."),
})

_FRONT_NOTE = ("Trusted: Lean kernel, axioms {propext, Classical.choice, Quot.sound}, the correspondence harness. The model of the "
               "front end mirrors the Rust functions one-to-one and is compared with them exhaustively to a size bound + randomly "
               "beyond on every run.")
MANIFEST_TEXT.update({
    "C06": {"text": "Lean theorems: every node built through the constructors stores exactly the canonical rendering and height of its "
                    "structure; tokenizing the canonical rendering of any tree over valid identifiers yields its canonical token list, which "
                    "derives (hence parses back to) the tree, so print-then-parse is the identity and rendering is injective. Correspondence: stored "
                    "fields of all nodes of all small trees vs the independent renderer; round-trip oracle on constructed, parsed and "
                    "preprocessed trees.",
            "note": _FRONT_NOTE, "technique": "Lean 4 proof (structural induction) + differential correspondence check"},
    "C07": {"text": "Lean theorems, full statement: preprocessing accepts exactly the well-scoped formulae over network propositions, the "
                    "result is alpha-equivalent (equal de Bruijn erasure), names quantifiers by depth, has #names = nesting depth, and "
                    "is a fixed point of preprocessing. Correspondence exhaustive to 4-5 nodes + random; model-free oracles.",
            "note": _FRONT_NOTE, "technique": "Lean 4 proof (induction over the renamer with scope-map invariants) + differential correspondence check"},
    "C08": {"text": "Lean theorems: alpha-equivalent accepted inputs are preprocessed to the same tree; redundant parentheses (outer and "
                    "around any sub-formula) and constant spellings do not change the parse; the evaluator reads variables by canonical "
                    "name; white space, long/short spellings and hybrid-segment spacing keep the token list (lexical specification), and "
                    "the entry points depend on the strings only through tokens / preprocessed trees (results_of_same_tokens, "
                    "formulaeDirty_congr, parseOne_of_alpha), so the RESULTS are invariant. Oracle: results of rewritten texts (renaming, whitespace, parentheses, long names, constants) through the API.",
            "note": _FRONT_NOTE + " Whitespace/long-spelling invariance is proved from the lexical specification the tokenizer model meets.",
            "technique": "Lean 4 proof (corollaries of C05/C07) + differential correspondence check + rewrite oracle"},
})

_GLUE_NOTE = ("Trusted: Lean kernel, axioms {propext, Classical.choice, Quot.sound}, the correspondence harness, and the external "
              "layers named in the evidence (zip, file system, BDD/network (de)serialisation, clap, process behaviour), which are "
              "observed by the correspondence run, not modelled.")
MANIFEST_TEXT.update({
    "C16": {"text": "Lean theorems about the archive model: reading back the entries written for a label->set map yields exactly that map "
                    "(every label: empty, nested, with dots or a trailing '/'; given the BDD string round trip), model.aeon/formulae.txt are never mistaken for sets, and line i of "
                    "formulae.txt is formula i; the reloaded context has the same effect as the in-memory one for the extended entry point and "
                    "for the tool (reloaded_context_same_effect). Correspondence: the real zip entries and reload vs the model; oracle: set equality after "
                    "reload on a graph rebuilt from the archived model, and reloaded sets used as wild-card context.",
            "note": _GLUE_NOTE, "technique": "Lean 4 proof (list lemmas over a model of Path::extension/strip_suffix/lines) + differential correspondence check"},
    "C17": {"text": "Lean theorems: the formula-file loader (what is kept, order, idempotence) and the tool's pipeline as a function of "
                    "the file contents (Cli.analyse) — equal to the model's library entry points on the graph with the maximal needed "
                    "number of variable sets, so a message or exactly the satisfaction sets in file order, never a panic "
                    "(analyse_correct). Correspondence: the binary built from the working tree is run and its archive, printed trees, "
                    "counts and listed states are compared with the model of the tool and with the library in-process.",
            "note": _GLUE_NOTE, "technique": "Lean 4 proof (loader + tool pipeline) + differential correspondence check of the built binary against the model and the library"},
    "C19": {"text": "Lean theorems, full statement on the converter model: the flattened function under a valuation of the fresh constants "
                    "equals the input under the induced instantiation, generated names are unambiguous, every instantiation is induced "
                    "(so the family is exactly preserved), parameter-free functions are unchanged, unregulated variables untouched. "
                    "Correspondence: truth tables of the binary's output vs the model; oracle: the two families as sets.",
            "note": _GLUE_NOTE, "technique": "Lean 4 proof (mutual structural induction over the FnUpdate model) + differential correspondence check of the built binary"},
})

MANIFEST_TEXT.update({
    "C09": {"text": "Lean theorems: the character-level canoniser of the code, on the rendering of any tree over valid identifiers, computes "
                    "the rendering of the tree-level canonical form with the same renaming (canonChars_render); the renaming is a total "
                    "injective function onto fresh names; canonisation is idempotent and invariant under injective renamings; for the "
                    "keys the cache uses (at most one variable) equal canonical forms mean equal up to renaming; mark_duplicates reports "
                    "a key with counter n only if n >= 1 and the key has at least n+1 occurrences; equal canonical forms of depth-named "
                    "sub-formulae imply equality up to an injective renaming for any number of variables (canon_eq_imp_renaming).",
            "note": _FRONT_NOTE,
            "technique": "Lean 4 proof (state invariant of the canonisation pass) + differential correspondence check + independent alpha-equivalence / occurrence-count oracles"},
})

MANIFEST_TEXT.update({
    "C04": _ev("Lean theorem evalNode_sound / cache_transparent: from EVERY evaluation context satisfying an explicit invariant (hence after "
               "any history, with any duplicate counters) the cached evaluator returns exactly the satisfaction set, keeps the invariant "
               "and restores the open scopes; batches are exact position by position, so order, repetition and sharing cannot matter "
               "(formulae_position_independent / extended_position_independent: the same string gets the same set at any position of any "
               "list, alone or repeated). "
               "The facts about canonical keys and the duplicate map this needs are derived from the canoniser / mark_duplicates models "
               "(keySem_holds, keyWild_holds, dups_le_one, markDups_witness), the initial contexts of both entry points satisfy the "
               "invariant, and treesDirty_sound / extendedDirty_sound are end-to-end statements. Oracle: batch vs "
               "single vs sharing disabled vs reordered vs repeated vs observed runs through the public API.",
               tech="Lean 4 proof (invariant over the cache state, induction over eval_node) + differential correspondence check + batch oracles"),
    "C14": _ev("Lean theorems: for EVERY list of input strings (and every context of variable-independent sets) the model's entry points "
               "return the validation error or a result, never a panic (formulaeDirty_correct, extendedDirty_correct, "
               "no_panic_treesDirty: every panic site of the evaluator is an explicit outcome and unreachable under the cache "
               "invariant); the plain entry point errs exactly for ill-scoped formulae / unknown propositions / too few variable "
               "sets (with C07); plain_outcome / extended_outcome give the exact error classes for both entry points, including the label "
               "without a context set. Oracle: every string entry point under catch_unwind on hostile inputs.",
               tech="Lean 4 proof (panic sites as explicit outcomes, unreachable under the invariant) + differential correspondence check + catch_unwind oracle"),
})

ALL_IDS = ["C%02d" % i for i in range(1, 21)]
NOT_APPLICABLE = [
    {"property_id": p, "reason": "machinery for this property is being built (see DESIGN.md §6 for its design); not yet claimed"}
    for p in ALL_IDS if p not in PROPS
]
