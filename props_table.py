"""Per property: the Lean obligations, the correspondences that tie the model to /repo, and notes."""

TRUSTED_BASE = [
    "Lean 4.33 kernel (theorems checked by `lake build`; thorough tier re-checks the .olean with leanchecker)",
    "axioms allowed per theorem: propext, Classical.choice, Quot.sound (audited with #print axioms on every run)",
    "correspondence harness: /verif/harness (Rust, links /repo's working tree), /verif/lean/Main.lean (protocol), /verif/check (diff)",
    "Rust std character classes (is_alphanumeric, is_whitespace) are sent by the harness with every character",
]

PROPS = {
    "C05": {
        "module": "HctlProofs.Props.C05",
        "theorems": [
            "Hctl.C05.parse_iff_derives",
            "Hctl.C05.reject_iff_not_derivable",
            "Hctl.C05.derives_functional",
            "Hctl.C05.accepted_frontier",
            "Hctl.C05.parse_fuel_sufficient",
            "Hctl.C05.paren_invariant",
        ],
        "ks": ["k2", "k1"],
        "spec_tied": ["k2"],
        "full": False,
        "not_proved": "lexer: the model's tokenizer is tied to the code by K1 (exhaustive strings to a length bound + "
                      "structured random) and the plain/extended relation is checked by an oracle on the implementation; "
                      "lex_sound/lex_complete against a spelling specification are not proved",
        "rule": "K2: exhaustive token sequences by weight over 10 token kinds with groups nested <=2, plus token lists of "
                "random trees (half mutated); non-trivial = accepted by the parser. K1: exhaustive strings over a 34-symbol "
                "alphabet to a length bound, plus spelled random formulae (a third mutated); non-trivial = lexes to a "
                "non-empty token list",
        "assumptions": [
            "the parser model (HctlModel/Parser.lean) is the code's parser: checked by K2 on every run",
            "the lexer model is the code's tokenizer: checked by K1 on every run (not proved against a lexical spec)",
        ],
    },
}

# what MANIFEST.json says per property
MANIFEST_TEXT = {
    "C05": {
        "text": "Machine-checked Lean 4 proof that the parser model accepts a token list (any length, any nesting) exactly when it "
                "derives from the documented stratified grammar, that the tree is unique and that the flattened input is the "
                "tree's frontier (nothing dropped); the model is tied to /repo's parser and tokenizer on every run by exhaustive "
                "(bounded) + random differential runs, and model-free oracles (frontier, plain-vs-extended) run on the implementation.",
        "note": "Trusted: Lean kernel, axioms {propext, Classical.choice, Quot.sound}, the correspondence harness. Modelled, not "
                "verified: Rust std char classes. The lexical half (strings -> tokens) is tied by correspondence only, not proved "
                "against a lexical specification.",
        "technique": "Lean 4 proof (parser = grammar, by induction on fuel / derivations) + differential correspondence check",
    },
}

ALL_IDS = ["C%02d" % i for i in range(1, 21)]
NOT_APPLICABLE = [
    {"property_id": p, "reason": "machinery for this property is being built (see DESIGN.md §6 for its design); not yet claimed"}
    for p in ALL_IDS if p not in PROPS
]
