#!/usr/bin/env python3
"""Regenerates MANIFEST.json from props_table.py (keeps the two in step)."""
import json, subprocess
from props_table import PROPS, MANIFEST_TEXT, NOT_APPLICABLE

hooks = subprocess.run(["git", "-C", "/repo", "log", "--format=%H %s"], capture_output=True, text=True).stdout.split("\n")
hook_commits = [l.split()[0] for l in hooks if "verif hook" in l]
checks = []
for pid in sorted(PROPS):
    t = MANIFEST_TEXT[pid]
    checks.append({
        "property_id": pid,
        "quick_cmd": f"./check {pid} --tier quick",
        "thorough_cmd": f"./check {pid} --tier thorough",
        "evidence_file": f"/verif/evidence/{pid}.json",
        "replay_cmd_template": f"./check {pid} --replay {{path}}",
        "engine": "lean4-proof+correspondence",
        "level_claimed": {"category": "proof", "text": t["text"], "design_ref": t.get("design_ref", "DESIGN.md §6")},
        "level_note": t["note"],
        "technique": t["technique"],
    })
m = {
    "version": 1,
    "setup_cmd": "./setup.sh",
    "hooks": {
        "guard": "--cfg hctl_verif",
        "enable": "RUSTFLAGS='--cfg hctl_verif' (set in /verif/harness/.cargo/config.toml); the harness crate has a path dependency on /repo",
        "baseline_off_cmd": "cd /repo && cargo test --workspace --no-fail-fast --offline",
        "source_commits": hook_commits,
        "add_only": True,
    },
    "engines": [{
        "name": "lean4-proof+correspondence",
        "path": "/verif/check",
        "serves_properties": sorted(PROPS),
        "kind_free_text": "Lean 4 theorems about a hand-written executable model (lean/HctlModel, lean/HctlProofs) + differential "
                          "correspondence check of the model's executable definitions against /repo's working tree (harness/, Main.lean) "
                          "+ model-free oracles on the implementation's outputs",
    }],
    "checks": checks,
    "not_applicable": NOT_APPLICABLE,
    "notes": "See DESIGN.md. Fixed defects of /repo are listed in known_findings.json (status=fixed).",
}
json.dump(m, open("MANIFEST.json", "w"), indent=1)
print("MANIFEST.json:", len(checks), "checks,", len(NOT_APPLICABLE), "not applicable")
