//! Output files, PRNG, statistics.
use std::collections::{BTreeMap, HashSet};
use std::fs::File;
use std::io::{BufWriter, Write};

/// SplitMix64: every random choice of a run derives from one seed.
#[derive(Clone)]
pub struct Rng(pub u64);

impl Rng {
    pub fn new(seed: u64) -> Rng {
        Rng(seed.wrapping_mul(0x9E3779B97F4A7C15).wrapping_add(0x1234567))
    }
    pub fn next(&mut self) -> u64 {
        self.0 = self.0.wrapping_add(0x9E3779B97F4A7C15);
        let mut z = self.0;
        z = (z ^ (z >> 30)).wrapping_mul(0xBF58476D1CE4E5B9);
        z = (z ^ (z >> 27)).wrapping_mul(0x94D049BB133111EB);
        z ^ (z >> 31)
    }
    pub fn below(&mut self, n: usize) -> usize {
        (self.next() % (n as u64)) as usize
    }
    pub fn chance(&mut self, num: usize, den: usize) -> bool {
        self.below(den) < num
    }
    pub fn pick<'a, T>(&mut self, xs: &'a [T]) -> &'a T {
        &xs[self.below(xs.len())]
    }
    pub fn fork(&mut self) -> Rng {
        Rng(self.next())
    }
}

pub struct Out {
    pub name: String,
    req: BufWriter<File>,
    imp: BufWriter<File>,
    dir: String,
    pub cases: u64,
    pub distinct: HashSet<u64>,
    pub nontrivial: u64,
    pub hist: BTreeMap<String, u64>,
    pub samples: Vec<String>,
    pub oracle_fail: Vec<(String, String, String)>, // property, what, replay detail
    pub oracle_checks: u64,
    pub panics: Vec<(String, String)>,
}

fn hash_str(s: &str) -> u64 {
    let mut h: u64 = 0xcbf29ce484222325;
    for b in s.bytes() {
        h ^= b as u64;
        h = h.wrapping_mul(0x100000001b3);
    }
    h
}

impl Out {
    pub fn new(dir: &str, name: &str) -> Out {
        std::fs::create_dir_all(dir).unwrap();
        Out {
            name: name.to_string(),
            req: BufWriter::new(File::create(format!("{dir}/{name}.req")).unwrap()),
            imp: BufWriter::new(File::create(format!("{dir}/{name}.impl")).unwrap()),
            dir: dir.to_string(),
            cases: 0,
            distinct: HashSet::new(),
            nontrivial: 0,
            hist: BTreeMap::new(),
            samples: Vec::new(),
            oracle_fail: Vec::new(),
            oracle_checks: 0,
            panics: Vec::new(),
        }
    }

    /// one correspondence case: the request for the model and the implementation's answer.
    /// `nontrivial`: by the rule of the K (stated in the evidence).
    pub fn case(&mut self, req: &str, imp: &str, nontrivial: bool) {
        writeln!(self.req, "{req}").unwrap();
        writeln!(self.imp, "{imp}").unwrap();
        self.cases += 1;
        let fresh = self.distinct.insert(hash_str(req));
        if fresh && nontrivial {
            self.nontrivial += 1;
        }
        if self.samples.len() < 6 && (self.cases % 997 == 1 || self.cases < 3) {
            self.samples.push(format!("{req}  =>  {imp}"));
        }
    }

    pub fn count(&mut self, key: &str) {
        *self.hist.entry(key.to_string()).or_insert(0) += 1;
    }
    pub fn count_n(&mut self, key: &str, n: u64) {
        *self.hist.entry(key.to_string()).or_insert(0) += n;
    }

    pub fn oracle(&mut self, ok: bool, property: &str, what: &str, detail: &str) {
        self.oracle_checks += 1;
        if !ok && self.oracle_fail.len() < 200 {
            self.oracle_fail
                .push((property.to_string(), what.to_string(), detail.to_string()));
        }
    }

    pub fn finish(mut self) {
        self.req.flush().unwrap();
        self.imp.flush().unwrap();
        let mut f = File::create(format!("{}/{}.stats.json", self.dir, self.name)).unwrap();
        let esc = |s: &str| -> String {
            let mut o = String::new();
            for c in s.chars() {
                match c {
                    '"' => o.push_str("\\\""),
                    '\\' => o.push_str("\\\\"),
                    '\n' => o.push_str("\\n"),
                    '\t' => o.push_str("\\t"),
                    c if (c as u32) < 0x20 => o.push_str(&format!("\\u{:04x}", c as u32)),
                    c => o.push(c),
                }
            }
            o
        };
        let hist = self
            .hist
            .iter()
            .map(|(k, v)| format!("\"{}\": {}", esc(k), v))
            .collect::<Vec<_>>()
            .join(", ");
        let samples = self
            .samples
            .iter()
            .map(|s| format!("\"{}\"", esc(s)))
            .collect::<Vec<_>>()
            .join(", ");
        let fails = self
            .oracle_fail
            .iter()
            .map(|(p, w, d)| {
                format!(
                    "{{\"property\": \"{}\", \"what\": \"{}\", \"detail\": \"{}\"}}",
                    esc(p),
                    esc(w),
                    esc(d)
                )
            })
            .collect::<Vec<_>>()
            .join(", ");
        let panics = self
            .panics
            .iter()
            .map(|(w, d)| format!("{{\"what\": \"{}\", \"detail\": \"{}\"}}", esc(w), esc(d)))
            .collect::<Vec<_>>()
            .join(", ");
        writeln!(
            f,
            "{{\"name\": \"{}\", \"cases\": {}, \"distinct\": {}, \"distinct_nontrivial\": {}, \"oracle_checks\": {}, \"hist\": {{{}}}, \"samples\": [{}], \"oracle_fail\": [{}], \"panics\": [{}]}}",
            self.name,
            self.cases,
            self.distinct.len(),
            self.nontrivial,
            self.oracle_checks,
            hist,
            samples,
            fails,
            panics
        )
        .unwrap();
    }
}

/// Run `f` under catch_unwind; panic message is returned as Err.
pub fn guarded<T, F: FnOnce() -> T + std::panic::UnwindSafe>(f: F) -> Result<T, String> {
    match std::panic::catch_unwind(f) {
        Ok(v) => Ok(v),
        Err(e) => {
            let msg = if let Some(s) = e.downcast_ref::<&str>() {
                s.to_string()
            } else if let Some(s) = e.downcast_ref::<String>() {
                s.clone()
            } else {
                "panic".to_string()
            };
            Err(msg)
        }
    }
}
