//! Property-focused legs on the evaluator: each generates cases aimed at one property, records them as K7
//! correspondence cases (so the model is compared on them as well) and evaluates the property's
//! model-free oracle on the implementation's answers.
use crate::common::*;
use crate::eval::*;
use crate::gen::*;
use crate::proto::*;
use biodivine_hctl_model_checker::evaluation::algorithm::{compute_steady_states, eval_node};
use biodivine_hctl_model_checker::evaluation::eval_context::EvalContext;
use biodivine_hctl_model_checker::mc_utils::get_extended_symbolic_graph;
use biodivine_hctl_model_checker::model_checking::*;
use biodivine_hctl_model_checker::postprocessing::sanitizing::sanitize_colored_vertices;
use biodivine_hctl_model_checker::preprocessing::hctl_tree::{HctlTreeNode, NodeType};
use biodivine_hctl_model_checker::preprocessing::operator_enums::*;
use biodivine_hctl_model_checker::preprocessing::parser::parse_and_minimize_extended_formula;
use biodivine_lib_param_bn::biodivine_std::traits::Set;
use biodivine_lib_param_bn::symbolic_async_graph::{GraphColoredVertices, SymbolicAsyncGraph};
use biodivine_lib_param_bn::BooleanNetwork;
use std::collections::HashMap;

fn s(x: &str) -> String {
    x.to_string()
}

/// run a variant, record the correspondence case, return the answer line
fn run_rec(out: &mut Out, xg: &Xg, variant: &str, formulas: &[String], ctx: &Ctx) -> String {
    let ans = run_variant(xg, variant, formulas, ctx);
    let nontrivial = ans.starts_with("ok") && ans.contains('1') && ans.contains('0');
    out.case(&eval_req(variant, formulas), &ans, nontrivial);
    // the same inputs through the proved-correct cache-free evaluator of the model
    if variant.ends_with("dirty") {
        out.case(&eval_req(&format!("pure_{variant}"), formulas), &ans, nontrivial);
    }
    ans
}

fn begin_graph(out: &mut Out, xg: &Xg) {
    out.case(&xg.graph_line(), &format!("graph ok points={} premises=ok", xg.num_points()), true);
}

fn put_ctx(out: &mut Out, xg: &Xg, ctx: &Ctx) {
    for l in ctx_lines(xg, ctx) {
        let imp = if l == "ctxclear" { "ctx cleared" } else { "ctx ok" };
        out.case(&l, imp, false);
    }
}

fn results(ans: &str) -> Option<Vec<String>> {
    if ans.starts_with("ok") {
        Some(ans.split(' ').skip(1).map(|x| x.to_string()).collect())
    } else {
        None
    }
}

/// graphs small enough for point-wise enumeration
fn graphs(thorough: bool, ks: &[usize]) -> Vec<Xg> {
    let mut v = Vec::new();
    for (name, aeon) in NETWORKS {
        for k in ks {
            if let Ok(xg) = Xg::new(name, aeon, *k) {
                if xg.num_points() <= if thorough { 40_000 } else { 9_000 } {
                    v.push(xg);
                }
            }
        }
    }
    v
}

/// a closed, well-scoped formula of quantifier depth <= k over the network's propositions
fn closed_tree(rng: &mut Rng, xg: &Xg, ext: bool, lo: usize, span: usize, ops: Option<(&[UnaryOp], &[BinaryOp])>) -> HctlTreeNode {
    let mut spec = eval_spec(xg, ext);
    spec.vars.truncate(xg.k.min(3));
    if xg.k == 0 {
        spec.hybops.clear();
        spec.vars.clear();
    }
    if let Some((u, b)) = ops {
        spec.unops = u.to_vec();
        spec.binops = b.to_vec();
    }
    for _ in 0..50 {
        let size = lo + rng.below(span);
        let t = rand_tree(rng, &spec, size, &mut Vec::new(), true);
        if parse_and_minimize_extended_formula(xg.graph.symbolic_context(), &t.to_string()).is_ok() {
            return t;
        }
    }
    HctlTreeNode::mk_constant(true)
}

// ---------------------------------------------------------------------------------------------------
// C02: README equivalences for every body
pub fn o02(dir: &str, thorough: bool, seed: u64) {
    let mut out = Out::new(dir, "o02");
    let mut rng = Rng::new(seed ^ 0x202);
    let rounds = if thorough { 30 } else { 2 };
    for _ in 0..rounds {
        for xg in graphs(thorough, &[1, 2]) {
            begin_graph(&mut out, &xg);
            for _ in 0..4 {
                let ctx = rand_ctx(&mut rng, &xg, &["p", "q", "d", "e", "A"]);
                put_ctx(&mut out, &xg, &ctx);
                // body with x free (inside the scope of x, so one variable set is taken)
                let mut spec = eval_spec(&xg, true);
                spec.vars = vec![s("y"), s("z")];
                spec.vars.truncate(xg.k - 1);
                if xg.k == 1 {
                    spec.hybops = vec![HybridOp::Jump];
                }
                let mut scope = vec![s("x")];
                let size = 1 + rng.below(7);
                let body = rand_tree(&mut rng, &spec, size, &mut scope, true).to_string();
                let pairs = vec![
                    (format!("!{{x}} in %A%: {body}"), format!("!{{x}}: (%A% & {body})")),
                    (format!("3{{x}} in %A%: @{{x}}: {body}"), format!("3{{x}}: @{{x}}: (%A% & {body})")),
                    (format!("V{{x}} in %A%: @{{x}}: {body}"), format!("V{{x}}: @{{x}}: (%A% => {body})")),
                    // the general forms, which the documented ones are instances of
                    (format!("3{{x}} in %A%: {body}"), format!("3{{x}}: ((@{{x}}: %A%) & {body})")),
                    (format!("V{{x}} in %A%: {body}"), format!("V{{x}}: ((@{{x}}: %A%) => {body})")),
                ];
                for (l, r) in pairs {
                    let a = run_rec(&mut out, &xg, "ext_dirty", &[l.clone()], &ctx);
                    let b = run_rec(&mut out, &xg, "ext_dirty", &[r.clone()], &ctx);
                    out.count(if a.starts_with("ok") { "pair_ok" } else { "pair_err" });
                    out.oracle(a == b, "C02", "restricted-domain formula differs from its README rewrite",
                        &format!("{} | {l} | {r} | ctx A={}", xg.name, xg.bits(&ctx["A"])));
                }
            }
        }
    }
    out.finish();
}

// ---------------------------------------------------------------------------------------------------
// C04: batch vs single vs sharing disabled; permutations; repetition; progress observer
fn eval_no_sharing(xg: &Xg, formula: &str, ctx: &Ctx) -> Result<String, String> {
    // eval_node driven with a context that marks no duplicates (wild-cards are pre-loaded as the API does)
    let tree = parse_and_minimize_extended_formula(xg.graph.symbolic_context(), formula)?;
    let (props, doms) = biodivine_hctl_model_checker::preprocessing::utils::validate_and_divide_wild_cards(&tree, ctx)?;
    let mut ec = EvalContext::new(HashMap::new());
    ec.extend_context_with_wild_cards(&props, &doms);
    let steady = compute_steady_states(&xg.graph);
    let r = guarded(std::panic::AssertUnwindSafe(|| eval_node(tree, &xg.graph, &mut ec, &steady, &mut |_, _| {})));
    match r {
        Ok(set) => Ok(xg.bits(&set)),
        Err(_) => Err("panic".to_string()),
    }
}

pub fn o04(dir: &str, thorough: bool, seed: u64) {
    let mut out = Out::new(dir, "o04");
    let mut rng = Rng::new(seed ^ 0x404);
    let rounds = if thorough { 25 } else { 2 };
    for _ in 0..rounds {
        for xg in graphs(thorough, &[1, 2, 3]) {
            begin_graph(&mut out, &xg);
            for _ in 0..3 {
                let ctx = rand_ctx(&mut rng, &xg, &["p", "q", "d", "e"]);
                put_ctx(&mut out, &xg, &ctx);
                // a batch with planted overlaps: sub-formulae shared up to renaming, inside/outside domains
                let n = 2 + rng.below(3);
                let base = if xg.k >= 2 && rng.chance(1, 3) {
                    swapped_duplicates(&mut rng, &eval_spec(&xg, true), xg.k >= 3)
                } else if xg.k >= 2 && rng.chance(1, 3) {
                    let three = xg.k >= 3 && rng.chance(1, 2);
                    renamed_duplicates(&mut rng, &eval_spec(&xg, true), three)
                } else {
                    closed_tree(&mut rng, &xg, true, 3, 6, None)
                };
                let subs: Vec<HctlTreeNode> = subtrees(&base).into_iter().cloned().collect();
                let mut batch: Vec<String> = vec![base.to_string()];
                for _ in 1..n {
                    let mut t = closed_tree(&mut rng, &xg, true, 2, 5, None);
                    for _ in 0..(1 + rng.below(2)) {
                        let st = rng.pick(&subs).clone();
                        let (_, free) = crate::front::alpha_norm(&st);
                        if free.len() > xg.k {
                            continue;
                        }
                        let mut closed = st;
                        for f in free.iter() {
                            let d = if rng.chance(1, 2) { Some(s(*rng.pick(&["d", "e"]))) } else { None };
                            let o = rng.pick(&[HybridOp::Bind, HybridOp::Exists, HybridOp::Forall]).clone();
                            closed = HctlTreeNode::mk_hybrid(closed, f, d, o);
                        }
                        t = if rng.chance(1, 2) || crate::front::quant_depth(&t) + 1 > xg.k {
                            HctlTreeNode::mk_binary(t, closed, rng.pick(&BINOPS).clone())
                        } else {
                            let d = if rng.chance(1, 2) { Some(s("d")) } else { None };
                            HctlTreeNode::mk_hybrid(HctlTreeNode::mk_binary(closed, t, BinaryOp::Or), "w", d, HybridOp::Exists)
                        };
                    }
                    batch.push(t.to_string());
                }
                // keep only formulae the graph supports
                let batch: Vec<String> = batch
                    .into_iter()
                    .filter(|f| run_variant(&xg, "ext_dirty", &[f.clone()], &ctx).starts_with("ok"))
                    .collect();
                if batch.is_empty() {
                    continue;
                }
                let together = run_rec(&mut out, &xg, "ext_dirty", &batch, &ctx);
                out.oracle(together != "panic", "C14", "batch evaluation panicked", &format!("{} {batch:?}", xg.name));
                let Some(tr) = results(&together) else { continue };
                out.count(&format!("batch_{}", batch.len()));
                // position by position: alone, and with sharing disabled
                for (i, f) in batch.iter().enumerate() {
                    let alone = run_rec(&mut out, &xg, "ext_dirty", &[f.clone()], &ctx);
                    out.oracle(results(&alone).map(|r| r[0] == tr[i]).unwrap_or(false), "C04",
                        "batch result differs from evaluating the formula alone",
                        &format!("{} k={} batch={batch:?} position={i}", xg.name, xg.k));
                    let ns = eval_no_sharing(&xg, f, &ctx);
                    out.oracle(ns.as_ref().map(|r| *r == tr[i]).unwrap_or(false), "C04",
                        "batch result differs from evaluation with sharing disabled",
                        &format!("{} k={} batch={batch:?} position={i}", xg.name, xg.k));
                }
                // reversed order, and a repeated formula
                let mut rev = batch.clone();
                rev.reverse();
                let r2 = run_rec(&mut out, &xg, "ext_dirty", &rev, &ctx);
                let mut tr_rev = tr.clone();
                tr_rev.reverse();
                out.oracle(results(&r2) == Some(tr_rev), "C04", "reordering the batch does not permute the results",
                    &format!("{} k={} batch={batch:?}", xg.name, xg.k));
                let mut rep = batch.clone();
                rep.push(batch[0].clone());
                rep.insert(0, batch[batch.len() - 1].clone());
                let r3 = run_rec(&mut out, &xg, "ext_dirty", &rep, &ctx);
                let mut tr_rep = tr.clone();
                tr_rep.push(tr[0].clone());
                tr_rep.insert(0, tr[tr.len() - 1].clone());
                out.oracle(results(&r3) == Some(tr_rep), "C04", "repeating formulae in the batch changes results",
                    &format!("{} k={} batch={batch:?}", xg.name, xg.k));
                // repeated run with a progress observer
                let fs: Vec<&str> = batch.iter().map(|x| x.as_str()).collect();
                let mut calls = 0usize;
                let obs = guarded(std::panic::AssertUnwindSafe(|| {
                    _model_check_multiple_extended_formulae_dirty(fs.clone(), &xg.graph, &ctx, &mut |_, _| calls += 1)
                }));
                let same = match obs {
                    Ok(Ok(v)) => v.iter().map(|x| xg.bits(x)).collect::<Vec<_>>() == tr,
                    _ => false,
                };
                out.oracle(same, "C04", "run with a progress observer differs", &format!("{} {batch:?}", xg.name));
                // the sanitised extended entry points (batch and single) agree with the raw results after sanitising
                {
                    let san_batch = guarded(std::panic::AssertUnwindSafe(|| model_check_multiple_extended_formulae(fs.clone(), &xg.graph, &ctx)));
                    let raw_batch = guarded(std::panic::AssertUnwindSafe(|| model_check_multiple_extended_formulae_dirty(fs.clone(), &xg.graph, &ctx)));
                    if let (Ok(Ok(sb)), Ok(Ok(rb))) = (&san_batch, &raw_batch) {
                        let expect: Vec<GraphColoredVertices> = rb.iter().map(|r| sanitize_colored_vertices(&xg.graph, r)).collect();
                        out.oracle(*sb == expect, "C04", "sanitised batch entry point differs from sanitised raw results", &format!("{} {batch:?}", xg.name));
                        for (i, f) in fs.iter().enumerate() {
                            let single = guarded(std::panic::AssertUnwindSafe(|| model_check_extended_formula(f, &xg.graph, &ctx)));
                            out.oracle(matches!(&single, Ok(Ok(x)) if *x == expect[i]), "C04",
                                "sanitised single extended entry point differs from the batch", &format!("{} {f}", xg.name));
                        }
                        out.count("entry_points_ext");
                    }
                }
            }
            // plain formulae: the eight string / tree x single / batch x raw / sanitised entry points agree
            {
                let n = 2 + rng.below(2);
                let plain: Vec<String> = (0..n).map(|_| closed_tree(&mut rng, &xg, false, 2, 6, None).to_string()).collect();
                let fs: Vec<&str> = plain.iter().map(|x| x.as_str()).collect();
                let all = guarded(std::panic::AssertUnwindSafe(|| -> Result<bool, String> {
                    let raw_b = model_check_multiple_formulae_dirty(fs.clone(), &xg.graph)?;
                    let san_b = model_check_multiple_formulae(fs.clone(), &xg.graph)?;
                    let trees: Vec<HctlTreeNode> = fs
                        .iter()
                        .map(|f| biodivine_hctl_model_checker::preprocessing::parser::parse_and_minimize_hctl_formula(xg.graph.symbolic_context(), f))
                        .collect::<Result<Vec<_>, String>>()?;
                    let raw_tb = model_check_multiple_trees_dirty(trees.clone(), &xg.graph)?;
                    let san_tb = model_check_multiple_trees(trees.clone(), &xg.graph)?;
                    let mut ok = raw_tb == raw_b && san_tb == san_b;
                    for (i, f) in fs.iter().enumerate() {
                        let expect_san = sanitize_colored_vertices(&xg.graph, &raw_b[i]);
                        ok = ok
                            && model_check_formula_dirty(f, &xg.graph)? == raw_b[i]
                            && model_check_tree_dirty(trees[i].clone(), &xg.graph)? == raw_b[i]
                            && model_check_formula(f, &xg.graph)? == expect_san
                            && model_check_tree(trees[i].clone(), &xg.graph)? == expect_san
                            && san_b[i] == expect_san;
                    }
                    Ok(ok)
                }));
                match all {
                    Ok(Ok(ok)) => {
                        out.count("entry_points_plain");
                        out.oracle(ok, "C04", "the plain entry points (string/tree, single/batch, raw/sanitised) disagree", &format!("{} k={} {plain:?}", xg.name, xg.k));
                    }
                    Ok(Err(_)) => out.count("entry_points_plain_unsupported"),
                    Err(_) => out.oracle(false, "C14", "a plain entry point panicked", &format!("{} {plain:?}", xg.name)),
                }
            }
        }
    }
    out.finish();
}

// ---------------------------------------------------------------------------------------------------
// C08: meaning-preserving rewrites of the text
fn rename_vars(t: &HctlTreeNode, map: &HashMap<String, String>) -> HctlTreeNode {
    match &t.node_type {
        NodeType::Terminal(Atomic::Var(x)) => HctlTreeNode::mk_variable(map.get(x).unwrap_or(x)),
        NodeType::Terminal(_) => t.clone(),
        NodeType::Unary(o, c) => HctlTreeNode::mk_unary(rename_vars(c, map), o.clone()),
        NodeType::Binary(o, l, r) => HctlTreeNode::mk_binary(rename_vars(l, map), rename_vars(r, map), o.clone()),
        NodeType::Hybrid(o, x, d, c) => {
            HctlTreeNode::mk_hybrid(rename_vars(c, map), map.get(x).unwrap_or(x), d.clone(), o.clone())
        }
    }
}

pub fn o08(dir: &str, thorough: bool, seed: u64) {
    let mut out = Out::new(dir, "o08");
    let mut rng = Rng::new(seed ^ 0x808);
    let rounds = if thorough { 30 } else { 2 };
    // consistent renamings, including the internal names in permuted order
    let renamings: Vec<Vec<(&str, &str)>> = vec![
        vec![("x", "xx"), ("y", "x"), ("z", "xxx")],
        vec![("x", "xxx"), ("y", "xx"), ("z", "x")],
        vec![("x", "v_1"), ("y", "Y"), ("z", "x")],
        vec![("x", "y"), ("y", "z"), ("z", "x")],
    ];
    for _ in 0..rounds {
        for xg in graphs(thorough, &[0, 1, 2, 3]) {
            begin_graph(&mut out, &xg);
            for _ in 0..4 {
                let t = closed_tree(&mut rng, &xg, false, 2, 8, None);
                let base_f = t.to_string();
                let base = run_rec(&mut out, &xg, "plain_dirty", &[base_f.clone()], &Ctx::new());
                if !base.starts_with("ok") {
                    continue;
                }
                let mut variants: Vec<(String, String)> = Vec::new();
                for r in &renamings {
                    let map: HashMap<String, String> = r.iter().map(|(a, b)| (s(a), s(b))).collect();
                    variants.push((s("rename"), rename_vars(&t, &map).to_string()));
                }
                for _ in 0..3 {
                    let toks = tree_tokens(&mut rng, &t, true);
                    variants.push((s("respell"), spell(&mut rng, &toks, false)));
                }
                // composed: rename + respell
                let map: HashMap<String, String> = renamings[rng.below(renamings.len())].iter().map(|(a, b)| (s(a), s(b))).collect();
                let t2 = rename_vars(&t, &map);
                let toks = tree_tokens(&mut rng, &t2, true);
                variants.push((s("rename+respell"), spell(&mut rng, &toks, false)));
                for (kind, f) in variants {
                    let r = run_rec(&mut out, &xg, "plain_dirty", &[f.clone()], &Ctx::new());
                    out.count(&kind);
                    out.oracle(r == base, "C08", "result changes under a meaning-preserving rewrite of the text",
                        &format!("{} k={} [{kind}] {base_f}  ~>  {f}", xg.name, xg.k));
                }
            }
            // every spelling of the two constants, in a few fixed contexts
            {
                let a0 = xg.var_names[0].clone();
                let mut templates = vec![format!("{a0} | C"), format!("~{a0} & (C => {a0})"), format!("EF (C) | AG ({a0} ^ C)")];
                if xg.k >= 1 {
                    templates.push(format!("!{{x}}: AG EF ({{x}} | C)"));
                }
                for tpl in templates {
                    for group in [["true", "True", "1"], ["false", "False", "0"]] {
                        let base = run_rec(&mut out, &xg, "plain_dirty", &[tpl.replace("C", group[0])], &Ctx::new());
                        for sp in &group[1..] {
                            let f = tpl.replace("C", sp);
                            let r = run_rec(&mut out, &xg, "plain_dirty", &[f.clone()], &Ctx::new());
                            out.count("constant_spelling");
                            out.oracle(r == base && base.starts_with("ok"), "C08", "result depends on the spelling of a constant",
                                &format!("{} k={} {}  ~>  {f}", xg.name, xg.k, tpl.replace("C", group[0])));
                        }
                    }
                }
            }
        }
    }
    out.finish();
}

// ---------------------------------------------------------------------------------------------------
// C10: substituting pre-computed results for closed sub-formulae
fn closed_subtrees(t: &HctlTreeNode) -> Vec<HctlTreeNode> {
    subtrees(t)
        .into_iter()
        .filter(|st| crate::front::alpha_norm(st).1.is_empty() && !matches!(st.node_type, NodeType::Terminal(_)))
        .cloned()
        .collect()
}

fn replace_subtree(t: &HctlTreeNode, target: &HctlTreeNode, with: &HctlTreeNode) -> HctlTreeNode {
    if t == target {
        return with.clone();
    }
    match &t.node_type {
        NodeType::Terminal(_) => t.clone(),
        NodeType::Unary(o, c) => HctlTreeNode::mk_unary(replace_subtree(c, target, with), o.clone()),
        NodeType::Binary(o, l, r) => {
            HctlTreeNode::mk_binary(replace_subtree(l, target, with), replace_subtree(r, target, with), o.clone())
        }
        NodeType::Hybrid(o, x, d, c) => HctlTreeNode::mk_hybrid(replace_subtree(c, target, with), x, d.clone(), o.clone()),
    }
}

pub fn o10(dir: &str, thorough: bool, seed: u64) {
    let mut out = Out::new(dir, "o10");
    let mut rng = Rng::new(seed ^ 0x1010);
    let rounds = if thorough { 30 } else { 2 };
    for _ in 0..rounds {
        for xg in graphs(thorough, &[0, 1, 2]) {
            begin_graph(&mut out, &xg);
            for _ in 0..4 {
                let ctx0 = rand_ctx(&mut rng, &xg, &["p", "q", "d", "e"]);
                let ext = rng.chance(1, 2);
                let t = closed_tree(&mut rng, &xg, ext, 4, 8, None);
                let f = t.to_string();
                put_ctx(&mut out, &xg, &ctx0);
                let base = run_rec(&mut out, &xg, "ext_dirty", &[f.clone()], &ctx0);
                if !base.starts_with("ok") {
                    continue;
                }
                if !ext {
                    // plain formula through the extended entry points with an empty context
                    let p = run_rec(&mut out, &xg, "plain_dirty", &[f.clone()], &Ctx::new());
                    out.case("ctxclear", "ctx cleared", false);
                    let e = run_rec(&mut out, &xg, "ext_dirty", &[f.clone()], &Ctx::new());
                    out.oracle(p == e && p == base, "C10", "extended entry point with empty context differs from plain entry point", &f);
                    put_ctx(&mut out, &xg, &ctx0);
                }
                let cs = closed_subtrees(&t);
                if cs.is_empty() {
                    continue;
                }
                // 1..n simultaneous replacements
                let nrep = 1 + rng.below(cs.len().min(3));
                let mut ctx = ctx0.clone();
                let mut t2 = t.clone();
                for i in 0..nrep {
                    let target = rng.pick(&cs).clone();
                    let g = guarded(std::panic::AssertUnwindSafe(|| {
                        model_check_extended_formula_dirty(&target.to_string(), &xg.graph, &ctx0)
                    }));
                    if let Ok(Ok(set)) = g {
                        let label = format!("w{i}");
                        ctx.insert(label.clone(), set);
                        t2 = replace_subtree(&t2, &target, &HctlTreeNode::mk_wild_card(&label));
                    }
                }
                put_ctx(&mut out, &xg, &ctx);
                let r = run_rec(&mut out, &xg, "ext_dirty", &[t2.to_string()], &ctx);
                out.count(&format!("replacements_{nrep}"));
                out.oracle(r == base, "C10", "result changes when closed sub-formulae are replaced by their raw results",
                    &format!("{} k={} {f}  ~>  {}", xg.name, xg.k, t2));
            }
        }
    }
    // planted shapes: the replaced sub-formula occurs several times, inside and outside (restricted) quantifier scopes
    for xg in graphs(thorough, &[1, 2]) {
        begin_graph(&mut out, &xg);
        let a0 = xg.var_names[0].clone();
        let ctx0 = rand_ctx(&mut rng, &xg, &["p", "d"]);
        let subs = [format!("(EF {a0})"), format!("(!{{y}}: AX {{y}})"), format!("(~{a0} EU %p%)"), format!("(AG ({a0} | EX {a0}))")];
        let templates = [
            "3{x} in %d%: ((@{x}: EX (AX G)) & EF ({x} & (AX G)))",
            "(V{x} in %d%: (AX G | {x})) & (AX G)",
            "(AX G) & (!{x} in %d%: ((AX G) | EF {x}))",
            "!{x}: ((EX G) & (3{x2}: @{x2}: (EX G)))",
            "(G EU (AX G)) | (3{x} in %d%: @{x}: (AX G))",
        ];
        for (gi, g) in subs.iter().enumerate() {
            if thorough || gi == (rng.below(subs.len())) || gi == 0 {
                let Ok(Ok(set)) = guarded(std::panic::AssertUnwindSafe(|| model_check_extended_formula_dirty(g, &xg.graph, &ctx0))) else { continue };
                let mut ctx = ctx0.clone();
                ctx.insert(s("w0"), set);
                for tpl in templates.iter() {
                    if tpl.contains("{x2}") && xg.k < 2 {
                        continue;
                    }
                    let tpl = tpl.replace("{x2}", "{z}");
                    let f = tpl.replace("G", g);
                    let f2 = tpl.replace("G", "%w0%");
                    put_ctx(&mut out, &xg, &ctx);
                    let base = run_rec(&mut out, &xg, "ext_dirty", &[f.clone()], &ctx);
                    if !base.starts_with("ok") {
                        continue;
                    }
                    let r = run_rec(&mut out, &xg, "ext_dirty", &[f2.clone()], &ctx);
                    out.count("planted_substitution");
                    out.oracle(r == base, "C10", "result changes when a repeated closed sub-formula is replaced by its raw result",
                        &format!("{} k={} {f}  ~>  {f2}", xg.name, xg.k));
                }
            }
        }
    }
    // benchmark-size models: the laws on the implementation only (no explicit enumeration possible)
    if thorough {
        for path in ["/repo/test/model-010-13var-2in.aeon", "/repo/test/model-022-17var-5in.aeon"] {
            let Ok(text) = std::fs::read_to_string(path) else { continue };
            let Ok(bn) = BooleanNetwork::try_from(text.as_str()) else { continue };
            let Ok(graph) = get_extended_symbolic_graph(&bn, 2) else { continue };
            let names: Vec<String> = bn.variables().map(|v| bn.get_variable_name(v).clone()).collect();
            for _ in 0..6 {
                let a = rng.pick(&names).clone();
                let b = rng.pick(&names).clone();
                let inner = format!("(EF ({a} & ~{b}))");
                let f = format!("!{{x}}: (AX ({{x}} | {inner}))");
                let whole = model_check_formula_dirty(&f, &graph);
                let part = model_check_formula_dirty(&inner, &graph);
                if let (Ok(w), Ok(p)) = (whole, part) {
                    let mut ctx = Ctx::new();
                    ctx.insert(s("w"), p);
                    let sub = model_check_extended_formula_dirty("!{x}: (AX ({x} | %w%))", &graph, &ctx);
                    out.oracle(sub.as_ref() == Ok(&w), "C10", "benchmark model: substitution changes the result", &format!("{path} {f}"));
                    out.count("benchmark_substitution");
                }
            }
        }
    }
    out.finish();
}

// ---------------------------------------------------------------------------------------------------
// C11: fixed-point laws, dualities, monotonicity, library reachability
fn set_bits_subset(a: &str, b: &str) -> bool {
    a.bytes().zip(b.bytes()).all(|(x, y)| x == b'0' || y == b'1')
}

pub fn o11(dir: &str, thorough: bool, seed: u64) {
    let mut out = Out::new(dir, "o11");
    let mut rng = Rng::new(seed ^ 0x1111);
    let rounds = if thorough { 30 } else { 2 };
    let laws: Vec<(&str, &str)> = vec![
        ("EF %S%", "%S% | EX EF %S%"),
        ("EG %S%", "%S% & EX EG %S%"),
        ("AF %S%", "%S% | AX AF %S%"),
        ("AG %S%", "%S% & AX AG %S%"),
        ("%S% EU %T%", "%T% | (%S% & EX (%S% EU %T%))"),
        ("%S% AU %T%", "%T% | (%S% & AX (%S% AU %T%))"),
        ("AX %S%", "~EX ~%S%"),
        ("AF %S%", "~EG ~%S%"),
        ("AG %S%", "~EF ~%S%"),
        ("%S% AU %T%", "~((~%T%) EU (~%S% & ~%T%)) & ~EG ~%T%"),
        ("%S% AW %T%", "~((~%T%) EU (~%S% & ~%T%))"),
        ("%S% EW %T%", "~((~%T%) AU (~%S% & ~%T%))"),
        ("%S% EW %T%", "(%S% EU %T%) | EG %S%"),
        ("EF %S%", "true EU %S%"),
        ("AF %S%", "true AU %S%"),
    ];
    let mono: Vec<&str> = vec!["EX %X%", "AX %X%", "EF %X%", "AF %X%", "EG %X%", "AG %X%", "%X% EU %T%", "%T% EU %X%",
        "%X% AU %T%", "%T% AU %X%", "%X% EW %T%", "%T% EW %X%", "%X% AW %T%", "%T% AW %X%"];
    for _ in 0..rounds {
        for xg in graphs(thorough, &[0]) {
            begin_graph(&mut out, &xg);
            for _ in 0..3 {
                let mut ctx = rand_ctx(&mut rng, &xg, &["S", "T", "X"]);
                // a superset of X for monotonicity
                let y = ctx["X"].union(&rand_ctx(&mut rng, &xg, &["Y"])["Y"]);
                ctx.insert(s("Y"), y);
                put_ctx(&mut out, &xg, &ctx);
                for (l, r) in &laws {
                    let a = run_rec(&mut out, &xg, "ext_dirty", &[s(l)], &ctx);
                    let b = run_rec(&mut out, &xg, "ext_dirty", &[s(r)], &ctx);
                    out.count("law");
                    out.oracle(a == b && a.starts_with("ok"), "C11", "fixed-point law / duality fails",
                        &format!("{} {l} = {r} S={} T={}", xg.name, xg.bits(&ctx["S"]), xg.bits(&ctx["T"])));
                }
                for m in &mono {
                    let a = run_rec(&mut out, &xg, "ext_dirty", &[s(m)], &ctx);
                    let b = run_rec(&mut out, &xg, "ext_dirty", &[m.replace("%X%", "%Y%")], &ctx);
                    out.count("mono");
                    let ok = match (results(&a), results(&b)) {
                        (Some(x), Some(y)) => set_bits_subset(&x[0], &y[0]),
                        _ => false,
                    };
                    out.oracle(ok, "C11", "operator is not monotone", &format!("{} {m}", xg.name));
                }
                // library reachability
                let sset = &ctx["S"];
                let tset = &ctx["T"];
                let ef = model_check_extended_formula_dirty("EF %S%", &xg.graph, &ctx);
                out.oracle(ef.as_ref().ok() == Some(&xg.graph.reach_backward(sset)), "C11",
                    "EF differs from SymbolicAsyncGraph::reach_backward", &xg.name);
                let ag = model_check_extended_formula_dirty("AG %S%", &xg.graph, &ctx);
                out.oracle(ag.as_ref().ok() == Some(&xg.graph.trap_forward(sset)), "C11",
                    "AG differs from SymbolicAsyncGraph::trap_forward", &xg.name);
                let eu = model_check_extended_formula_dirty("%S% EU %T%", &xg.graph, &ctx);
                // constrained backward reachability: predecessors must lie in S, the targets in T
                let mut lfp = tset.clone();
                loop {
                    let next = lfp.union(&xg.graph.pre(&lfp).intersect(sset));
                    if next == lfp {
                        break;
                    }
                    lfp = next;
                }
                out.oracle(eu.as_ref().ok() == Some(&lfp), "C11", "EU differs from constrained backward reachability", &xg.name);
                // EX/AX treat steady states as self-loops
                let steady = compute_steady_states(&xg.graph);
                let ex = model_check_extended_formula_dirty("EX %S%", &xg.graph, &ctx);
                let want = xg.graph.pre(sset).union(&sset.intersect(&steady));
                out.oracle(ex.as_ref().ok() == Some(&want), "C11", "EX does not treat steady states as self-loops", &xg.name);
            }
        }
    }
    // the laws on wide networks (implementation only): a small core plus frozen pad variables, so that the state space
    // exceeds 2^53 and set sizes are no longer exactly representable as f64; one huge and one tiny wild-card set
    let widths: Vec<usize> = if thorough { vec![40, 54, 58, 61] } else { vec![54, 60] };
    for (wi, npad) in widths.iter().enumerate() {
        for (name, aeon) in crate::eval::NETWORKS.iter() {
            if !thorough && (rng.below(3) != 0 && *name != "toggle" && *name != "d6") {
                continue;
            }
            let mut text = String::from(*aeon);
            for i in 0..*npad {
                text.push_str(&format!("p{i:02} -> p{i:02}\n$p{i:02}: p{i:02}\n"));
            }
            let Ok(bn) = BooleanNetwork::try_from(text.as_str()) else { continue };
            let Ok(graph) = get_extended_symbolic_graph(&bn, 0) else { continue };
            let core: Vec<String> = bn.variables().map(|v| bn.get_variable_name(v).clone()).filter(|n| !n.starts_with('p')).collect();
            let pads0: String = (0..*npad).map(|i| format!("~p{i:02}")).collect::<Vec<_>>().join(" & ");
            for round in 0..(if thorough { 4 } else { 2 }) {
                let a = rng.pick(&core).clone();
                let b = rng.pick(&core).clone();
                let lit = |r: &mut Rng, v: &str| if r.below(2) == 0 { v.to_string() } else { format!("~{v}") };
                let huge = match rng.below(3) { 0 => lit(&mut rng, &a), 1 => format!("({} & {})", lit(&mut rng, &a), lit(&mut rng, &b)), _ => format!("({} | {})", lit(&mut rng, &a), lit(&mut rng, &b)) };
                let tiny = match rng.below(3) { 0 => pads0.clone(), 1 => format!("{} & {pads0}", lit(&mut rng, &b)), _ => format!("({} | {}) & {pads0}", lit(&mut rng, &a), lit(&mut rng, &b)) };
                let (fs, ft) = if (round + wi) % 2 == 0 { (tiny.clone(), huge.clone()) } else { (huge.clone(), tiny.clone()) };
                let (Ok(sset), Ok(tset)) = (model_check_formula_dirty(&fs, &graph), model_check_formula_dirty(&ft, &graph)) else { continue };
                let mut ctx = Ctx::new();
                ctx.insert(s("S"), sset);
                ctx.insert(s("T"), tset);
                for (l, r) in laws.iter() {
                    let x = model_check_extended_formula_dirty(l, &graph, &ctx);
                    let y = model_check_extended_formula_dirty(r, &graph, &ctx);
                    out.count("wide_law");
                    out.oracle(x.is_ok() && x == y, "C11", "wide network: fixed-point law / duality fails",
                        &format!("{name}+{npad} frozen variables: {l} = {r} S={fs} T={ft}"));
                }
            }
        }
    }
    // the laws on the bundled benchmark-size models (implementation only)
    let models: Vec<&str> = if thorough {
        vec!["/repo/test/model-010-13var-2in.aeon", "/repo/test/model-022-17var-5in.aeon"]
    } else {
        vec!["/repo/test/model-010-13var-2in.aeon"]
    };
    for path in models {
        let Ok(text) = std::fs::read_to_string(path) else { continue };
        let Ok(bn) = BooleanNetwork::try_from(text.as_str()) else { continue };
        let Ok(graph) = get_extended_symbolic_graph(&bn, 0) else { continue };
        let names: Vec<String> = bn.variables().map(|v| bn.get_variable_name(v).clone()).collect();
        for _ in 0..(if thorough { 6 } else { 2 }) {
            let a = rng.pick(&names).clone();
            let b = rng.pick(&names).clone();
            let c = rng.pick(&names).clone();
            let sset = model_check_formula_dirty(&format!("{a} & ~{b}"), &graph).unwrap();
            let tset = model_check_formula_dirty(&format!("{c} | {a}"), &graph).unwrap();
            let mut ctx = Ctx::new();
            ctx.insert(s("S"), sset.clone());
            ctx.insert(s("T"), tset);
            for (l, r) in laws.iter().take(if thorough { laws.len() } else { 6 }) {
                let x = model_check_extended_formula_dirty(l, &graph, &ctx);
                let y = model_check_extended_formula_dirty(r, &graph, &ctx);
                out.count("benchmark_law");
                out.oracle(x.is_ok() && x == y, "C11", "benchmark model: fixed-point law / duality fails", &format!("{path} {l} = {r} S={a}&~{b}"));
            }
            let ef = model_check_extended_formula_dirty("EF %S%", &graph, &ctx);
            out.oracle(ef.as_ref().ok() == Some(&graph.reach_backward(&sset)), "C11", "benchmark model: EF differs from reach_backward", path);
            let ag = model_check_extended_formula_dirty("AG %S%", &graph, &ctx);
            out.oracle(ag.as_ref().ok() == Some(&graph.trap_forward(&sset)), "C11", "benchmark model: AG differs from trap_forward", path);
        }
    }
    out.finish();
}

// ---------------------------------------------------------------------------------------------------
// C12: attractor / steady-state shortcuts vs generic evaluation
pub fn o12(dir: &str, thorough: bool, seed: u64) {
    let mut out = Out::new(dir, "o12");
    let mut rng = Rng::new(seed ^ 0x1212);
    let rounds = if thorough { 20 } else { 2 };
    // pattern formulae and logically identical formulae that defeat the pattern matcher
    let pats: Vec<(&str, &str)> = vec![
        ("!{x}: AG EF {x}", "!{x}: AG EF ({x} & {x})"),
        ("!{x}: AX {x}", "!{x}: AX ({x} & {x})"),
        ("EF (!{x}: AX {x})", "EF (!{x}: AX ({x} | false))"),
        ("~(!{y}: AG EF {y}) | (!{z}: AX {z})", "~(!{y}: AG (true & EF {y})) | (!{z}: (true & AX {z}))"),
        ("3{x}: @{x}: ((!{y}: AX {y}) & $P)", "3{x}: @{x}: ((!{y}: AX ({y} & true)) & $P)"),
        ("3{x}: @{x}: (!{y}: AG EF {y})", "3{x}: @{x}: (!{y}: AG EF ({y} | false))"),
        ("3{x} in %d%: @{x}: (!{y}: AX {y})", "3{x} in %d%: @{x}: (!{y}: AX ({y} & {y}))"),
        ("3{x} in %d%: (!{y}: AX {y})", "3{x} in %d%: (!{y}: AX ({y} & {y}))"),
        ("V{x} in %d%: (!{y}: AG EF {y})", "V{x} in %d%: (!{y}: AG EF ({y} & {y}))"),
        ("!{x} in %d%: ((!{y}: AX {y}) | EX (!{y}: AG EF {y}))", "!{x} in %d%: ((!{y}: (AX {y} & true)) | EX (!{y}: AG EF ({y} & true)))"),
        // near misses keep their own semantics
        ("!{x}: 3{y}: AX {y}", "!{x}: 3{y}: AX ({y} & {y})"),
        ("!{x}: 3{y}: AG EF {y}", "!{x}: 3{y}: AG (EF ({y} | false))"),
        ("!{x} in %d%: AX {x}", "!{x}: (%d% & AX {x})"),
        ("!{x} in %d%: AG EF {x}", "!{x}: (%d% & AG EF {x})"),
        ("!{x}: AX AX {x}", "!{x}: AX (AX ({x} & true))"),
        ("!{x}: AG EF AX {x}", "!{x}: AG EF (AX {x} & true)"),
        ("3{x}: AX {x}", "3{x}: AX ({x} & {x})"),
        ("!{x}: !{y}: AX {x}", "!{x}: !{y}: AX ({x} & true)"),
        // a different variable under the pattern's operators
        ("3{x}: !{y}: AX {x}", "3{x}: !{y}: AX ({x} & {x})"),
        ("V{x}: !{y}: AX {x}", "V{x}: !{y}: AX ({x} & {x})"),
        ("3{x}: @{x}: EF (!{y}: AX {x})", "3{x}: @{x}: EF (!{y}: AX ({x} | false))"),
        ("!{x}: EX (!{y}: AX {x})", "!{x}: EX (!{y}: AX ({x} & true))"),
        ("3{x}: !{y}: AG EF {x}", "3{x}: !{y}: AG EF ({x} & {x})"),
        ("!{x}: EX (!{y}: AG EF {x})", "!{x}: EX (!{y}: AG (true & EF {x}))"),
        ("V{x}: ($P | (!{y}: AG EF {x}))", "V{x}: ($P | (!{y}: AG EF ({x} | false)))"),
        ("3{x} in %d%: !{y}: AX {x}", "3{x} in %d%: !{y}: AX ({x} & {x})"),
    ];
    for _ in 0..rounds {
        for xg in graphs(thorough, &[2]) {
            begin_graph(&mut out, &xg);
            let ctx = rand_ctx(&mut rng, &xg, &["d", "p"]);
            put_ctx(&mut out, &xg, &ctx);
            let mut batch_l: Vec<String> = Vec::new();
            let mut batch_r: Vec<String> = Vec::new();
            for (l, r) in &pats {
                // `$P` stands for the first network variable
                let (l, r) = (&l.replace("$P", &xg.var_names[0]), &r.replace("$P", &xg.var_names[0]));
                let a = run_rec(&mut out, &xg, "ext_dirty", &[s(l)], &ctx);
                let b = run_rec(&mut out, &xg, "ext_dirty", &[s(r)], &ctx);
                out.count("pattern_pair");
                out.oracle(a == b && a.starts_with("ok"), "C12", "pattern shortcut differs from generic evaluation",
                    &format!("{} {l}  vs  {r} d={}", xg.name, xg.bits(&ctx["d"])));
                batch_l.push(s(l));
                batch_r.push(s(r));
            }
            // in batches
            let a = run_rec(&mut out, &xg, "ext_dirty", &batch_l, &ctx);
            let b = run_rec(&mut out, &xg, "ext_dirty", &batch_r, &ctx);
            out.oracle(a == b && a.starts_with("ok"), "C12", "pattern shortcuts in a batch differ from generic evaluation", &xg.name);
        }
    }
    out.finish();
}

// ---------------------------------------------------------------------------------------------------
// C13: EW / AW
pub fn o13(dir: &str, thorough: bool, seed: u64) {
    let mut out = Out::new(dir, "o13");
    let mut rng = Rng::new(seed ^ 0x1313);
    let rounds = if thorough { 30 } else { 2 };
    for _ in 0..rounds {
        for xg in graphs(thorough, &[0, 1]) {
            begin_graph(&mut out, &xg);
            for _ in 0..4 {
                let phi = closed_tree(&mut rng, &xg, false, 1, 4, None).to_string();
                let psi = closed_tree(&mut rng, &xg, false, 1, 4, None).to_string();
                let checks = vec![
                    (format!("{phi} EW {psi}"), format!("({phi} EU {psi}) | EG {phi}")),
                    (format!("{phi} AW {psi}"), format!("~((~{psi}) EU (~{phi} & ~{psi}))")),
                    (format!("{psi} => ({phi} EW {psi})"), s("true")),
                    (format!("{psi} => ({phi} AW {psi})"), s("true")),
                    (format!("({phi} AW {psi}) => ({phi} EW {psi})"), s("true")),
                    (format!("({phi} AU {psi}) => ({phi} AW {psi})"), s("true")),
                    (format!("(AG {phi}) => ({phi} AW {psi})"), s("true")),
                ];
                for (l, r) in checks {
                    let a = run_rec(&mut out, &xg, "plain_dirty", &[l.clone()], &Ctx::new());
                    let b = run_rec(&mut out, &xg, "plain_dirty", &[r.clone()], &Ctx::new());
                    out.count("weak_until_check");
                    out.oracle(a == b && a.starts_with("ok"), "C13", "EW/AW is not weak until", &format!("{} {l}  vs  {r}", xg.name));
                }
            }
        }
    }
    out.finish();
}

// ---------------------------------------------------------------------------------------------------
// C14: errors, never panics
pub fn o14(dir: &str, thorough: bool, seed: u64) {
    let mut out = Out::new(dir, "o14");
    let mut rng = Rng::new(seed ^ 0x1414);
    let rounds = if thorough { 30 } else { 2 };
    let alphabet: Vec<char> = "abEXUAGFW3V1_in~&|^=<>!@(){}%: \t\u{a0}é٣$\\xy".chars().collect();
    for _ in 0..rounds {
        for xg in graphs(thorough, &[0, 1, 2]) {
            begin_graph(&mut out, &xg);
            let full = rand_ctx(&mut rng, &xg, &["p", "q", "d", "e"]);
            for i in 0..8 {
                // arbitrary subset of the required labels
                let mut ctx = Ctx::new();
                for (k, v) in full.iter() {
                    if rng.chance(3, 4) {
                        ctx.insert(k.clone(), v.clone());
                    }
                }
                put_ctx(&mut out, &xg, &ctx);
                let mut spec = eval_spec(&xg, true);
                spec.props.push(s("nope"));
                for n in xg.var_names.iter().take(2) {
                    spec.props.push(format!("{n}_extra_0"));
                    spec.props.push(format!("{n}_extra_1"));
                }
                let size = 1 + rng.below(9);
                let t = rand_tree(&mut rng, &spec, size, &mut Vec::new(), i % 3 != 0);
                let mut f = if rng.chance(1, 2) {
                    t.to_string()
                } else {
                    let toks = tree_tokens(&mut rng, &t, true);
                    spell(&mut rng, &toks, true)
                };
                if i % 2 == 0 {
                    let mut cs: Vec<char> = f.chars().collect();
                    for _ in 0..(1 + rng.below(3)) {
                        if cs.is_empty() {
                            break;
                        }
                        let p = rng.below(cs.len());
                        match rng.below(3) {
                            0 => {
                                cs.remove(p);
                            }
                            1 => cs.insert(p, *rng.pick(&alphabet)),
                            _ => cs[p] = *rng.pick(&alphabet),
                        }
                    }
                    f = cs.into_iter().collect();
                }
                for variant in ["ext_san", "ext_dirty", "plain_dirty", "plain_san", "unsafe_ex"] {
                    let ans = run_rec(&mut out, &xg, variant, &[f.clone()], &ctx);
                    out.count(&format!("{}_{}", variant, if ans.starts_with("ok") { "ok".to_string() } else { ans.replace(' ', "_") }));
                    out.oracle(ans != "panic", "C14", "string entry point panicked", &format!("{} k={} {variant} `{f}` ctx={:?}", xg.name, xg.k, ctx.keys().collect::<Vec<_>>()));
                }
            }
            // "any context map": sets that belong to a graph of the same network with ANOTHER number of variable sets.
            // A formula that uses such a set must get an error value (not a panic, and not a result computed from an
            // incompatible BDD); a formula that does not use it is unaffected.
            if let Ok(other) = Xg::new(&xg.name, &xg.bn.to_string(), xg.k + 1) {
                let mut foreign = Ctx::new();
                foreign.insert(s("p"), other.graph.mk_unit_colored_vertices());
                foreign.insert(s("d"), other.graph.mk_unit_colored_vertices());
                let a0 = xg.var_names[0].clone();
                let mut using: Vec<String> = vec![s("%p%"), format!("EF (%p% & {a0})")];
                if xg.k >= 1 {
                    using.push(s("3{x} in %d%: @{x}: true"));
                    using.push(format!("!{{x}} in %d%: AX ({{x}} | {a0})"));
                }
                for f in using {
                    for (variant, san) in [("ext_dirty", false), ("ext_san", true)] {
                        let fs = vec![f.as_str()];
                        let r = guarded(std::panic::AssertUnwindSafe(|| {
                            if san {
                                model_check_multiple_extended_formulae(fs.clone(), &xg.graph, &foreign).map(|_| ())
                            } else {
                                model_check_multiple_extended_formulae_dirty(fs.clone(), &xg.graph, &foreign).map(|_| ())
                            }
                        }));
                        out.count("foreign_context");
                        out.oracle(matches!(r, Ok(Err(_))), "C14",
                            "a context set of a graph with another number of variable sets is not rejected with an error value",
                            &format!("{} k={} {variant} `{f}`: {}", xg.name, xg.k, match &r { Ok(Ok(_)) => "returned a result", Ok(Err(_)) => "error", Err(_) => "PANIC" }));
                    }
                }
                // a set of the right graph that depends on a symbolic variable reserved for HCTL variables ("the copy of the first
                // network variable in the first variable set is true") is no coloured set of states: error value, no panic
                if xg.k >= 1 {
                    let c = xg.graph.symbolic_context();
                    let extra = c.get_extra_state_variable(xg.vars[0], 0);
                    let dep = GraphColoredVertices::new(c.bdd_variable_set().mk_var(extra), c).intersect(xg.graph.unit_colored_vertices());
                    let mut bad = Ctx::new();
                    bad.insert(s("p"), dep);
                    for f in ["%p%", "EF %p%", "3{x}: (@{x}: %p%)"] {
                        for san in [false, true] {
                            let fs = vec![f];
                            let r = guarded(std::panic::AssertUnwindSafe(|| {
                                if san {
                                    model_check_multiple_extended_formulae(fs.clone(), &xg.graph, &bad).map(|_| ())
                                } else {
                                    model_check_multiple_extended_formulae_dirty(fs.clone(), &xg.graph, &bad).map(|_| ())
                                }
                            }));
                            out.count("dependent_context");
                            out.oracle(matches!(r, Ok(Err(_))), "C14",
                                "a context set that depends on the symbolic variables of HCTL variables is not rejected with an error value",
                                &format!("{} k={} sanitised={san} `{f}`: {}", xg.name, xg.k, match &r { Ok(Ok(_)) => "returned a result", Ok(Err(_)) => "error", Err(_) => "PANIC" }));
                        }
                    }
                }
                let plain = format!("EF {a0}");
                let fs = vec![plain.as_str()];
                let with = guarded(std::panic::AssertUnwindSafe(|| model_check_multiple_extended_formulae_dirty(fs.clone(), &xg.graph, &foreign)));
                let without = model_check_multiple_formulae_dirty(fs.clone(), &xg.graph);
                out.oracle(matches!((&with, &without), (Ok(Ok(a)), Ok(b)) if a == b), "C14",
                    "an unused incompatible context set changes the outcome", &format!("{} k={}", xg.name, xg.k));
            }
        }
    }
    out.finish();
}

// ---------------------------------------------------------------------------------------------------
// C15: sanitised = raw; independence from k; compatibility with SymbolicAsyncGraph::new
pub fn o15(dir: &str, thorough: bool, seed: u64) {
    let mut out = Out::new(dir, "o15");
    let mut rng = Rng::new(seed ^ 0x1515);
    let rounds = if thorough { 30 } else { 2 };
    for _ in 0..rounds {
        for (name, aeon) in NETWORKS {
            for depth in 0..=2usize {
                let Ok(xg0) = Xg::new(name, aeon, depth) else { continue };
                if xg0.num_points() > 6000 {
                    continue;
                }
                let canonical = SymbolicAsyncGraph::new(&xg0.bn).unwrap();
                for _ in 0..3 {
                    let t = closed_tree(&mut rng, &xg0, false, 2, 7, None);
                    let f = t.to_string();
                    let mut per_k: Vec<String> = Vec::new();
                    for k in depth..=(depth + 2) {
                        let Ok(xg) = Xg::new(name, aeon, k) else { continue };
                        if xg.num_points() > if thorough { 40_000 } else { 9_000 } {
                            continue;
                        }
                        begin_graph(&mut out, &xg);
                        let d = run_rec(&mut out, &xg, "plain_dirty", &[f.clone()], &Ctx::new());
                        let sn = run_rec(&mut out, &xg, "plain_san", &[f.clone()], &Ctx::new());
                        out.count("k_case");
                        let (Some(dr), Some(sr)) = (results(&d), results(&sn)) else {
                            out.oracle(d.starts_with("err") && sn == d, "C15", "sanitised entry point fails where the raw one does not", &format!("{name} k={k} {f}: {d} / {sn}"));
                            continue;
                        };
                        // raw result projected to (state, colour) equals the sanitised one
                        let nv = xg.n_s.pow(xg.k as u32);
                        let proj: String = dr[0].as_bytes().chunks(nv).map(|c| c[0] as char).collect();
                        out.oracle(proj == sr[0], "C15", "sanitised result differs from the raw result", &format!("{name} k={k} {f}"));
                        per_k.push(sr[0].clone());
                        // compatible with a graph built directly from the network
                        let set = model_check_formula(&f, &xg.graph).unwrap();
                        let compat = guarded(std::panic::AssertUnwindSafe(|| {
                            set.is_subset(canonical.unit_colored_vertices())
                                && set.as_bdd().num_vars() == canonical.symbolic_context().bdd_variable_set().num_vars()
                        }));
                        out.oracle(compat == Ok(true), "C15", "sanitised result is not compatible with SymbolicAsyncGraph::new", &format!("{name} k={k} {f}"));
                        let dirty = model_check_formula_dirty(&f, &xg.graph).unwrap();
                        out.oracle(sanitize_colored_vertices(&xg.graph, &dirty) == set, "C15", "sanitize(raw) differs from the sanitising entry point", &f);
                    }
                    out.oracle(per_k.windows(2).all(|w| w[0] == w[1]), "C15", "result depends on the number of spare variable sets", &format!("{name} depth={depth} {f}"));
                }
                // every sanitising entry point, on LISTS of 3..5 formulae (plain, extended, trees) and on single formulae:
                // position by position the sanitised set is the raw set of the same position, sanitised
                {
                    let Ok(xg) = Xg::new(name, aeon, depth.max(1)) else { continue };
                    if xg.num_points() > 9_000 {
                        continue;
                    }
                    let ctx = rand_ctx(&mut rng, &xg, &["p", "q", "d", "e"]);
                    let n = 3 + rng.below(3);
                    let ext: Vec<String> = (0..n).map(|_| closed_tree(&mut rng, &xg, true, 2, 6, None).to_string()).collect();
                    let plain: Vec<String> = (0..n).map(|_| closed_tree(&mut rng, &xg, false, 2, 6, None).to_string()).collect();
                    let fe: Vec<&str> = ext.iter().map(|x| x.as_str()).collect();
                    let fp: Vec<&str> = plain.iter().map(|x| x.as_str()).collect();
                    let all = guarded(std::panic::AssertUnwindSafe(|| -> Result<Vec<String>, String> {
                        let mut bad: Vec<String> = Vec::new();
                        let san = |r: &GraphColoredVertices| sanitize_colored_vertices(&xg.graph, r);
                        let raw_e = model_check_multiple_extended_formulae_dirty(fe.clone(), &xg.graph, &ctx)?;
                        let san_e = model_check_multiple_extended_formulae(fe.clone(), &xg.graph, &ctx)?;
                        let raw_p = model_check_multiple_formulae_dirty(fp.clone(), &xg.graph)?;
                        let san_p = model_check_multiple_formulae(fp.clone(), &xg.graph)?;
                        let trees: Vec<HctlTreeNode> = fp
                            .iter()
                            .map(|f| biodivine_hctl_model_checker::preprocessing::parser::parse_and_minimize_hctl_formula(xg.graph.symbolic_context(), f))
                            .collect::<Result<Vec<_>, String>>()?;
                        let raw_t = model_check_multiple_trees_dirty(trees.clone(), &xg.graph)?;
                        let san_t = model_check_multiple_trees(trees.clone(), &xg.graph)?;
                        if san_e.len() != n || san_p.len() != n || san_t.len() != n {
                            bad.push(s("a sanitising list entry point returns a list of the wrong length"));
                        }
                        for i in 0..n {
                            if san_e.get(i) != Some(&san(&raw_e[i])) {
                                bad.push(format!("model_check_multiple_extended_formulae position {i} of {n}"));
                            }
                            if san_p.get(i) != Some(&san(&raw_p[i])) {
                                bad.push(format!("model_check_multiple_formulae position {i} of {n}"));
                            }
                            if san_t.get(i) != Some(&san(&raw_t[i])) {
                                bad.push(format!("model_check_multiple_trees position {i} of {n}"));
                            }
                            if model_check_extended_formula(fe[i], &xg.graph, &ctx)? != san(&raw_e[i]) {
                                bad.push(format!("model_check_extended_formula {i}"));
                            }
                            if model_check_formula(fp[i], &xg.graph)? != san(&raw_p[i]) {
                                bad.push(format!("model_check_formula {i}"));
                            }
                            if model_check_tree(trees[i].clone(), &xg.graph)? != san(&raw_t[i]) {
                                bad.push(format!("model_check_tree {i}"));
                            }
                        }
                        Ok(bad)
                    }));
                    match all {
                        Ok(Ok(bad)) => {
                            out.count("san_lists");
                            out.oracle(bad.is_empty(), "C15", "a sanitising entry point does not return the raw set of the same position, sanitised",
                                &format!("{name} k={} {bad:?} ext={ext:?} plain={plain:?} ctx={:?}", xg.k, ctx.keys().collect::<Vec<_>>()));
                        }
                        Ok(Err(_)) => out.count("san_lists_rejected"),
                        Err(_) => out.oracle(false, "C15", "a sanitising entry point panicked", &format!("{name} ext={ext:?} plain={plain:?}")),
                    }
                }
            }
        }
    }
    out.finish();
}

// ---------------------------------------------------------------------------------------------------
// C18: the self-loop-free variant
fn has_steady(xg: &Xg) -> bool {
    !compute_steady_states(&xg.graph).is_empty()
}

pub fn o18(dir: &str, thorough: bool, seed: u64) {
    let mut out = Out::new(dir, "o18");
    let mut rng = Rng::new(seed ^ 0x1818);
    let rounds = if thorough { 30 } else { 2 };
    let frag_un = [UnaryOp::Not, UnaryOp::EF, UnaryOp::AG];
    let frag_bin = [BinaryOp::And, BinaryOp::Or, BinaryOp::Xor, BinaryOp::Imp, BinaryOp::Iff, BinaryOp::EU, BinaryOp::AW];
    for _ in 0..rounds {
        for xg in graphs(thorough, &[0, 1, 2]) {
            begin_graph(&mut out, &xg);
            let steady_free = !has_steady(&xg);
            // formulae of the fragment shaped like (or close to) the patterns the evaluator short-cuts
            let mut shaped: Vec<String> = Vec::new();
            if xg.k >= 1 {
                let p0 = xg.var_names[0].clone();
                let us = ["~", "EF", "AG"];
                let u = us[rng.below(3)];
                let u2 = us[rng.below(3)];
                let bs = ["&", "|", "^", "=>", "<=>", "EU", "AW"];
                let b = bs[rng.below(bs.len())];
                shaped.push(format!("!{{x}}: {u} {{x}}"));
                shaped.push(format!("!{{x}}: AG {{x}}"));
                shaped.push(format!("!{{x}}: {u} {u2} {{x}}"));
                shaped.push(format!("3{{x}}: @{{x}}: {u} {{x}}"));
                shaped.push(format!("V{{x}}: @{{x}}: ({{x}} {b} {p0})"));
                shaped.push(format!("!{{x}}: ({p0} {b} {{x}})"));
                shaped.push(format!("EF (!{{x}}: {u} {{x}})"));
                shaped.push(format!("~(!{{x}}: AG {{x}}) {b} {p0}"));
            }
            for i in 0..(6 + shaped.len()) {
                let frag = i >= 6 || !steady_free || i % 2 == 0;
                let f = if i >= 6 {
                    shaped[i - 6].clone()
                } else if frag {
                    closed_tree(&mut rng, &xg, false, 2, 8, Some((&frag_un, &frag_bin))).to_string()
                } else {
                    closed_tree(&mut rng, &xg, false, 2, 8, None).to_string()
                };
                // the attractor pattern contains AG EF only, the steady-state pattern contains AX (excluded)
                let a = run_rec(&mut out, &xg, "unsafe_ex", &[f.clone()], &Ctx::new());
                let b = run_rec(&mut out, &xg, "plain_dirty", &[f.clone()], &Ctx::new());
                out.count(if frag { "fragment" } else { "steady_free_network" });
                out.oracle(a == b, "C18", "self-loop-free variant differs from standard evaluation",
                    &format!("{} k={} steady_free={steady_free} {f}", xg.name, xg.k));
            }
        }
    }
    out.finish();
}

// ---------------------------------------------------------------------------------------------------
// C20: colour slices equal instantiated networks
pub fn o20(dir: &str, thorough: bool, seed: u64) {
    let mut out = Out::new(dir, "o20");
    let mut rng = Rng::new(seed ^ 0x2020);
    let rounds = if thorough { 20 } else { 2 };
    for _ in 0..rounds {
        for xg in graphs(thorough, &[0, 1, 2]) {
            if xg.n_c < 2 {
                continue;
            }
            begin_graph(&mut out, &xg);
            for _ in 0..3 {
                let t = closed_tree(&mut rng, &xg, false, 2, 8, None);
                let f = t.to_string();
                let whole = run_rec(&mut out, &xg, "plain_san", &[f.clone()], &Ctx::new());
                let Some(wr) = results(&whole) else { continue };
                let set = model_check_formula(&f, &xg.graph).unwrap();
                for c in xg.valid_colours() {
                    // the colour as a singleton colour set of the canonical context
                    let canon_graph = SymbolicAsyncGraph::new(&xg.bn).unwrap();
                    let ctx = canon_graph.symbolic_context();
                    let mut pv = biodivine_lib_bdd::BddPartialValuation::empty();
                    for (j, p) in ctx.parameter_variables().iter().enumerate() {
                        pv.set_value(*p, (c >> j) & 1 == 1);
                    }
                    let colour_bdd = ctx.bdd_variable_set().mk_conjunctive_clause(&pv);
                    let colours = biodivine_lib_param_bn::symbolic_async_graph::GraphColors::new(colour_bdd, ctx);
                    let witness = canon_graph.pick_witness(&colours);
                    let Ok(wg) = get_extended_symbolic_graph(&witness, xg.k as u16) else { continue };
                    let Ok(wres) = model_check_formula(&f, &wg) else { continue };
                    // states of the slice
                    let slice: Vec<bool> = (0..xg.n_s).map(|st| wr[0].as_bytes()[st * xg.n_c + c] == b'1').collect();
                    let wxg = Xg { name: s("w"), bn: witness.clone(), graph: wg, k: xg.k, n_v: xg.n_v, n_s: xg.n_s, n_c: 1, params: vec![], vars: xg.vars.clone(), var_names: xg.var_names.clone() };
                    // the premise `AgreeCol` of the theorem, decided on the instance: the instantiated network has
                    // exactly the transitions of colour c
                    out.count("agree_col");
                    out.oracle(wxg.steps_of_colour(0) == xg.steps_of_colour(c), "C20",
                        "pick_witness network does not have the transitions of the chosen colour (premise AgreeCol)",
                        &format!("{} colour={c}", xg.name));
                    let wbits = wxg.san_bits(&wres);
                    let wslice: Vec<bool> = wbits.bytes().map(|b| b == b'1').collect();
                    out.count("colour_slice");
                    out.oracle(slice == wslice, "C20", "colour slice differs from the result on the instantiated network",
                        &format!("{} k={} colour={c} {f}", xg.name, xg.k));
                    let _ = &set;
                }
            }
        }
    }
    out.finish();
}
