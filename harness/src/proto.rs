//! Serialisation shared with the Lean driver (see lean/HctlModel/Proto.lean).
use biodivine_hctl_model_checker::preprocessing::hctl_tree::{HctlTreeNode, NodeType};
use biodivine_hctl_model_checker::preprocessing::operator_enums::*;
use biodivine_hctl_model_checker::preprocessing::tokenizer::HctlToken;

pub fn enc_name(s: &str) -> String {
    if s.is_empty() {
        "-".to_string()
    } else {
        s.chars()
            .map(|c| (c as u32).to_string())
            .collect::<Vec<_>>()
            .join(".")
    }
}

pub fn enc_opt(s: &Option<String>) -> String {
    match s {
        None => "~".to_string(),
        Some(n) => enc_name(n),
    }
}

pub fn un_name(o: &UnaryOp) -> &'static str {
    match o {
        UnaryOp::Not => "not",
        UnaryOp::EX => "ex",
        UnaryOp::AX => "ax",
        UnaryOp::EF => "ef",
        UnaryOp::AF => "af",
        UnaryOp::EG => "eg",
        UnaryOp::AG => "ag",
    }
}

pub fn bin_name(o: &BinaryOp) -> &'static str {
    match o {
        BinaryOp::And => "and",
        BinaryOp::Or => "or",
        BinaryOp::Xor => "xor",
        BinaryOp::Imp => "imp",
        BinaryOp::Iff => "iff",
        BinaryOp::EU => "eu",
        BinaryOp::AU => "au",
        BinaryOp::EW => "ew",
        BinaryOp::AW => "aw",
    }
}

pub fn hyb_name(o: &HybridOp) -> &'static str {
    match o {
        HybridOp::Bind => "bind",
        HybridOp::Jump => "jump",
        HybridOp::Exists => "ex",
        HybridOp::Forall => "all",
    }
}

pub fn enc_atom(a: &Atomic) -> String {
    match a {
        Atomic::Prop(n) => format!("P {}", enc_name(n)),
        Atomic::Var(n) => format!("V {}", enc_name(n)),
        Atomic::WildCardProp(n) => format!("W {}", enc_name(n)),
        Atomic::True => "T".to_string(),
        Atomic::False => "F".to_string(),
    }
}

pub fn enc_tok(t: &HctlToken) -> String {
    match t {
        HctlToken::Unary(o) => format!("U {}", un_name(o)),
        HctlToken::Binary(o) => format!("B {}", bin_name(o)),
        HctlToken::Hybrid(o, v, d) => format!("H {} {} {}", hyb_name(o), enc_name(v), enc_opt(d)),
        HctlToken::Atom(a) => enc_atom(a),
        HctlToken::Tokens(ts) => {
            let mut s = format!("G {}", ts.len());
            for t in ts {
                s.push(' ');
                s.push_str(&enc_tok(t));
            }
            s
        }
    }
}

pub fn enc_toks(ts: &[HctlToken]) -> String {
    let mut s = format!("{}", ts.len());
    for t in ts {
        s.push(' ');
        s.push_str(&enc_tok(t));
    }
    s
}

pub fn enc_tree(t: &HctlTreeNode) -> String {
    match &t.node_type {
        NodeType::Terminal(a) => enc_atom(a),
        NodeType::Unary(o, c) => format!("U {} {}", un_name(o), enc_tree(c)),
        NodeType::Binary(o, l, r) => format!("B {} {} {}", bin_name(o), enc_tree(l), enc_tree(r)),
        NodeType::Hybrid(o, v, d, c) => format!(
            "H {} {} {} {}",
            hyb_name(o),
            enc_name(v),
            enc_opt(d),
            enc_tree(c)
        ),
    }
}

/// stored fields of all nodes in pre-order: `height:formula_str`
pub fn node_info(t: &HctlTreeNode) -> String {
    fn go(t: &HctlTreeNode, out: &mut Vec<String>) {
        out.push(format!("{}:{}", t.height, enc_name(&t.formula_str)));
        match &t.node_type {
            NodeType::Terminal(_) => {}
            NodeType::Unary(_, c) => go(c, out),
            NodeType::Binary(_, l, r) => {
                go(l, out);
                go(r, out);
            }
            NodeType::Hybrid(_, _, _, c) => go(c, out),
        }
    }
    let mut out = Vec::new();
    go(t, &mut out);
    out.join(" ")
}

/// characters with the classes of Rust's std: `cp:a` alphanumeric, `cp:w` whitespace, `cp:o` other
pub fn enc_chars(s: &str) -> String {
    if s.is_empty() {
        return "-".to_string();
    }
    s.chars()
        .map(|c| {
            let cls = if c.is_alphanumeric() {
                'a'
            } else if c.is_whitespace() {
                'w'
            } else {
                'o'
            };
            format!("{}:{}", c as u32, cls)
        })
        .collect::<Vec<_>>()
        .join(",")
}

pub fn subtrees(t: &HctlTreeNode) -> Vec<&HctlTreeNode> {
    fn go<'a>(t: &'a HctlTreeNode, out: &mut Vec<&'a HctlTreeNode>) {
        out.push(t);
        match &t.node_type {
            NodeType::Terminal(_) => {}
            NodeType::Unary(_, c) => go(c, out),
            NodeType::Binary(_, l, r) => {
                go(l, out);
                go(r, out);
            }
            NodeType::Hybrid(_, _, _, c) => go(c, out),
        }
    }
    let mut out = Vec::new();
    go(t, &mut out);
    out
}
