//! `hv`: correspondence harness. Runs the real code of /repo on generated inputs and writes, per
//! correspondence K, the request lines for the Lean driver, the implementation's answers, the verdicts of
//! the model-free oracles and the input statistics.
mod common;
mod eval;
mod front;
mod gen;
mod glue;
mod oracles;
mod proto;

fn main() {
    let args: Vec<String> = std::env::args().collect();
    if args.len() < 5 {
        eprintln!("usage: hv <k1|k2|...> <quick|thorough> <seed> <outdir>");
        std::process::exit(2);
    }
    // keep panic messages of the implementation out of stderr noise; they are reported per case
    std::panic::set_hook(Box::new(|_| {}));
    let thorough = args[2] == "thorough";
    let seed: u64 = args[3].parse().unwrap_or(0);
    let dir = &args[4];
    match args[1].as_str() {
        "k1" => front::k1(dir, thorough, seed),
        "k2" => front::k2(dir, thorough, seed),
        "k3" => front::k3(dir, thorough, seed),
        "k4" => front::k4(dir, thorough, seed),
        "k5" => front::k5(dir, thorough, seed),
        "k6" => front::k6(dir, thorough, seed),
        "k7" => eval::k7(dir, thorough, seed),
        "k8" => glue::k8(dir, thorough, seed),
        "k9" => glue::k9(dir, thorough, seed),
        "k10" => glue::k10(dir, thorough, seed),
        "o02" => oracles::o02(dir, thorough, seed),
        "o04" => oracles::o04(dir, thorough, seed),
        "o08" => oracles::o08(dir, thorough, seed),
        "o10" => oracles::o10(dir, thorough, seed),
        "o11" => oracles::o11(dir, thorough, seed),
        "o12" => oracles::o12(dir, thorough, seed),
        "o13" => oracles::o13(dir, thorough, seed),
        "o14" => oracles::o14(dir, thorough, seed),
        "o15" => oracles::o15(dir, thorough, seed),
        "o18" => oracles::o18(dir, thorough, seed),
        "o20" => oracles::o20(dir, thorough, seed),
        other => {
            eprintln!("unknown correspondence {other}");
            std::process::exit(2);
        }
    }
}
