//! Correspondences K1..K6 (front end: lexer, parser, printer, renamer, canoniser, duplicates) and the
//! model-free oracles of C05..C09.
use crate::common::*;
use crate::gen::*;
use crate::proto::*;
use biodivine_hctl_model_checker::evaluation::mark_duplicates::mark_duplicates_canonized_multiple;
use biodivine_hctl_model_checker::evaluation::{get_canonical, get_canonical_and_renaming};
use biodivine_hctl_model_checker::mc_utils::collect_unique_hctl_vars;
use biodivine_hctl_model_checker::preprocessing::hctl_tree::{HctlTreeNode, NodeType};
use biodivine_hctl_model_checker::preprocessing::operator_enums::*;
use biodivine_hctl_model_checker::preprocessing::parser::*;
use biodivine_hctl_model_checker::preprocessing::tokenizer::*;
use biodivine_hctl_model_checker::preprocessing::utils::validate_props_and_rename_vars;
use biodivine_lib_param_bn::symbolic_async_graph::SymbolicContext;
use biodivine_lib_param_bn::BooleanNetwork;
use std::collections::{BTreeMap, HashMap};

fn s(x: &str) -> String {
    x.to_string()
}

pub const CORPUS_STRINGS: &[&str] = &[
    "(a) ~b",
    "a (b) ~c",
    "EX (a) ~b",
    "!{x}: AG EF {x}",
    "\\bind {x}: AG EF {x}",
    "!{x}: (AX (~{x} & AF {x}))",
    "!{x}: 3{y}: (@{x}: ~{y} & AX {x}) & (@{y}: AX {y})",
    "3{x}: 3{y}: (@{x}: ~{y} & AX {x}) & (@{y}: AX {y}) & EF ({x} & (!{z}: AX {z}))",
    "!{x}: 3{y}: (@{x}: ~{y} & %subst% & True ^ v1)",
    "3{x} in %d%: @{x}: EF {x}",
    "V{x} in %d1%: 3 {y} in%d2%: (a EW b)",
    "\\forall{x}in%d%:\\exists {y}: \\jump{x}: a AU b",
    "EXp & E & 3a & Vx & AUX",
    "a EU b AW c",
    "~~a",
    "a => b => c <=> d",
    "(a & b) | (c ^ d)",
    "a EX b",
    "a ~ b",
    "!{x}: a !{y}: b",
    "a & !{x}: b",
    "()",
    "(",
    ")",
    "{}",
    "%%",
    "{x",
    "%p",
    "a <= b",
    "a = b",
    "a > b",
    "\\foo {x}: a",
    "@{x} in %d%: a",
    "3{x} in d: a",
    "3{x} i %d%: a",
    "true & 1 & False | 0",
    "EX EX a",
    "EXa",
    "EX(a)",
    "AG(EF(a))",
    "3x",
    "3 {x}: a",
    "V{x}:{x}",
    "a\u{a0}&\u{a0}b",
    "é & ٣",
];

fn lex_impl(sx: &str, ext: bool) -> Result<Vec<HctlToken>, String> {
    if ext {
        try_tokenize_extended_formula(sx.to_string())
    } else {
        try_tokenize_formula(sx.to_string())
    }
}

fn toks_have_ext(ts: &[HctlToken]) -> bool {
    ts.iter().any(|t| match t {
        HctlToken::Atom(Atomic::WildCardProp(_)) => true,
        HctlToken::Hybrid(_, _, Some(_)) => true,
        HctlToken::Tokens(inner) => toks_have_ext(inner),
        _ => false,
    })
}

fn k1_case(out: &mut Out, sx: &str) {
    let plain = lex_impl(sx, false);
    let exte = lex_impl(sx, true);
    for (ext, r) in [(false, &plain), (true, &exte)] {
        let imp = match r {
            Ok(ts) => format!("ok {}", enc_toks(ts)),
            Err(_) => s("err"),
        };
        let nontrivial = matches!(r, Ok(ts) if !ts.is_empty());
        out.case(
            &format!("lex {} {}", if ext { 1 } else { 0 }, enc_chars(sx)),
            &imp,
            nontrivial,
        );
        out.count(if r.is_ok() { "lex_ok" } else { "lex_err" });
    }
    // C05 oracles on the implementation alone
    if let Ok(pt) = &plain {
        out.oracle(
            !toks_have_ext(pt),
            "C05",
            "plain tokenizer produced a wild-card or domain",
            sx,
        );
        out.oracle(
            matches!(&exte, Ok(et) if et == pt),
            "C05",
            "extended tokenizer differs from plain tokenizer on a plain formula",
            sx,
        );
        // string-level: plain parser and extended parser agree
        let a = parse_hctl_formula(sx);
        let b = parse_extended_formula(sx);
        out.oracle(
            match (&a, &b) {
                (Ok(x), Ok(y)) => x == y,
                (Err(_), Err(_)) => true,
                _ => false,
            },
            "C05",
            "extended parser differs from plain parser on a plain formula",
            sx,
        );
    }
}

pub fn k1(dir: &str, thorough: bool, seed: u64) {
    let mut out = Out::new(dir, "k1");
    let mut rng = Rng::new(seed ^ 0x11);
    for c in CORPUS_STRINGS {
        k1_case(&mut out, c);
    }
    // the character-class facts the lexer theorems assume (`Lex.CharsOK`), checked against Rust's std for every scalar value
    {
        let specials = ['~', '&', '|', '^', '=', '<', '>', '!', '@', '\\', '(', ')', '{', '}', '%', ':', ' '];
        let letters = ['T', 'r', 'u', 'e', 'F', 'a', 'l', 's', 'X', 'G', 'U', 'W', 'E', 'A', 'i', 'n', 'V', '3', 'x', 'v', 't', 'f', 'o', 'b', 'd', 'j', 'm', 'p'];
        let mut ok = true;
        for u in 0..=0x10FFFFu32 {
            if let Some(c) = char::from_u32(u) {
                if c.is_whitespace() && (c.is_alphanumeric() || c == '_') {
                    ok = false;
                }
            }
        }
        let ok2 = specials.iter().all(|c| !c.is_alphanumeric() && *c != '_' && (*c == ' ' || !c.is_whitespace())) && ' '.is_whitespace();
        let ok3 = letters.iter().all(|c| c.is_alphanumeric()) && ('0'..='9').all(|c| c.is_alphanumeric());
        for pid in ["C05", "C06"] {
            out.oracle(ok, pid, "CharsOK.ws_not_name fails for Rust's character classes", "is_whitespace && is_alphanumeric");
            out.oracle(ok2, pid, "CharsOK.special_* fails for Rust's character classes", "specials");
            out.oracle(ok3, pid, "CharsOK.letters fails for Rust's character classes", "letters");
        }
        out.count("charsok_facts");
    }
    // exhaustive strings over a small alphabet
    let alphabet: Vec<char> = "aEXUAG3V1_in~&|^=<>!@(){}%: \t\u{a0}é٣$\\".chars().collect();
    let maxlen = if thorough { 4 } else { 3 };
    let mut idx: Vec<usize> = Vec::new();
    // enumerate all strings of length 0..=maxlen
    for len in 0..=maxlen {
        idx.clear();
        idx.resize(len, 0);
        loop {
            let sx: String = idx.iter().map(|&i| alphabet[i]).collect();
            k1_case(&mut out, &sx);
            // increment
            let mut p = len;
            loop {
                if p == 0 {
                    break;
                }
                p -= 1;
                idx[p] += 1;
                if idx[p] < alphabet.len() {
                    break;
                }
                idx[p] = 0;
                if p == 0 {
                    p = usize::MAX;
                    break;
                }
            }
            if len == 0 || p == usize::MAX {
                break;
            }
        }
    }
    out.count_n("exhaustive_maxlen", maxlen as u64);
    // structured random strings: spellings of token lists of random trees, some with broken gaps, some mutated
    let spec = TreeSpec {
        props: ["a", "b", "v_1", "EXp", "E", "3a", "Vx", "AUX", "x1", "_", "é", "AF1", "EGG", "in", "i", "n", "A", "AXU"]
            .iter()
            .map(|x| s(x))
            .collect(),
        vars: ["x", "y", "xx", "v1", "_", "3"].iter().map(|x| s(x)).collect(),
        wilds: ["p", "d_1"].iter().map(|x| s(x)).collect(),
        doms: ["d", "in"].iter().map(|x| s(x)).collect(),
        unops: UNOPS.to_vec(),
        binops: BINOPS.to_vec(),
        hybops: HYBOPS.to_vec(),
        consts: true,
    };
    let n = if thorough { 300_000 } else { 15_000 };
    for i in 0..n {
        let size = 1 + rng.below(9);
        let t = rand_tree(&mut rng, &spec, size, &mut Vec::new(), false);
        let toks = tree_tokens(&mut rng, &t, true);
        let mut sx = spell(&mut rng, &toks, i % 5 == 0);
        if i % 3 == 0 {
            // mutate 1..2 characters
            let mut cs: Vec<char> = sx.chars().collect();
            for _ in 0..(1 + rng.below(2)) {
                if cs.is_empty() {
                    break;
                }
                let p = rng.below(cs.len());
                match rng.below(3) {
                    0 => {
                        cs.remove(p);
                    }
                    1 => cs.insert(p, *rng.pick(&alphabet)),
                    _ => cs[p] = *rng.pick(&alphabet),
                }
            }
            sx = cs.into_iter().collect();
            out.count("random_mutated");
        } else {
            out.count("random_spelled");
        }
        k1_case(&mut out, &sx);
    }
    out.finish();
}

fn k2_case(out: &mut Out, ts: &[HctlToken]) {
    let r = parse_hctl_tokens(ts);
    let imp = match &r {
        Ok(t) => format!("ok {} | {} | {}", enc_tree(t), node_info(t), node_info(t)),
        Err(_) => s("err"),
    };
    out.case(&format!("parse {}", enc_toks(ts)), &imp, r.is_ok());
    out.count(if r.is_ok() { "parse_ok" } else { "parse_err" });
    if let Ok(t) = &r {
        // C05: no token of an accepted input is ever ignored
        let mut fr = Vec::new();
        frontier(t, &mut fr);
        let mut fl = Vec::new();
        flatten(ts, &mut fl);
        out.oracle(
            fr == fl,
            "C05",
            "frontier of the parsed tree differs from the input tokens (input dropped)",
            &enc_toks(ts),
        );
        // from_tokens is the same function
        out.oracle(
            HctlTreeNode::from_tokens(ts).as_ref() == Ok(t),
            "C05",
            "from_tokens differs from parse_hctl_tokens",
            &enc_toks(ts),
        );
        // C06: printing and parsing again gives the same tree
        let again = parse_extended_formula(&t.to_string());
        out.oracle(
            again.as_ref() == Ok(t),
            "C06",
            "print->parse round trip of a parsed tree differs",
            &t.to_string(),
        );
    }
}

fn tk_kinds(thorough: bool) -> Vec<HctlToken> {
    let mut v = vec![
        HctlToken::Atom(Atomic::Prop(s("a"))),
        HctlToken::Atom(Atomic::Var(s("x"))),
        HctlToken::Unary(UnaryOp::Not),
        HctlToken::Unary(UnaryOp::EX),
        HctlToken::Binary(BinaryOp::And),
        HctlToken::Binary(BinaryOp::Or),
        HctlToken::Binary(BinaryOp::Iff),
        HctlToken::Binary(BinaryOp::EU),
        HctlToken::Hybrid(HybridOp::Bind, s("x"), None),
        HctlToken::Hybrid(HybridOp::Exists, s("x"), Some(s("d"))),
    ];
    if thorough {
        v.extend(vec![
            HctlToken::Atom(Atomic::Prop(s("true"))),
            HctlToken::Atom(Atomic::WildCardProp(s("p"))),
            HctlToken::Atom(Atomic::True),
            HctlToken::Binary(BinaryOp::Xor),
            HctlToken::Binary(BinaryOp::Imp),
            HctlToken::Binary(BinaryOp::AW),
            HctlToken::Hybrid(HybridOp::Jump, s("x"), None),
        ]);
    }
    v
}

pub fn k2(dir: &str, thorough: bool, seed: u64) {
    let mut out = Out::new(dir, "k2");
    let mut rng = Rng::new(seed ^ 0x22);
    // corpus: D7 witnesses as token lists
    for c in CORPUS_STRINGS {
        if let Ok(ts) = try_tokenize_extended_formula(c.to_string()) {
            k2_case(&mut out, &ts);
        }
    }
    // exhaustive token sequences
    let kinds = tk_kinds(false);
    let maxw = if thorough { 5 } else { 4 };
    let mut memo = HashMap::new();
    for w in 0..=maxw {
        for ts in token_seqs(&kinds, w, 2, &mut memo) {
            k2_case(&mut out, &ts);
        }
    }
    out.count_n("exhaustive_max_weight", maxw as u64);
    if thorough {
        let kinds = tk_kinds(true);
        let mut memo = HashMap::new();
        for w in 0..=4 {
            for ts in token_seqs(&kinds, w, 1, &mut memo) {
                k2_case(&mut out, &ts);
            }
        }
    }
    // random longer sequences: token lists of random trees (valid), and mutated ones
    let spec = TreeSpec {
        props: vec![s("a"), s("b")],
        vars: vec![s("x"), s("y")],
        wilds: vec![s("p")],
        doms: vec![s("d")],
        unops: UNOPS.to_vec(),
        binops: BINOPS.to_vec(),
        hybops: HYBOPS.to_vec(),
        consts: true,
    };
    let all_kinds = tk_kinds(true);
    let n = if thorough { 100_000 } else { 6_000 };
    for i in 0..n {
        let size = 1 + rng.below(14);
        let t = rand_tree(&mut rng, &spec, size, &mut Vec::new(), false);
        let mut ts = tree_tokens(&mut rng, &t, true);
        if i % 2 == 0 {
            // mutate: delete / insert / replace / wrap a token at a random position (top level)
            if !ts.is_empty() {
                let p = rng.below(ts.len());
                match rng.below(4) {
                    0 => {
                        ts.remove(p);
                    }
                    1 => ts.insert(p, rng.pick(&all_kinds).clone()),
                    2 => ts[p] = rng.pick(&all_kinds).clone(),
                    _ => {
                        let q = p + rng.below(ts.len() - p + 1);
                        let inner: Vec<HctlToken> = ts.drain(p..q).collect();
                        ts.insert(p, HctlToken::Tokens(inner));
                    }
                }
            }
            out.count("random_mutated");
        } else {
            out.count("random_valid");
            // a valid token list must parse to the tree it was printed from (independent of the model)
            let got = parse_hctl_tokens(&ts);
            out.oracle(
                got.as_ref() == Ok(&t),
                "C05",
                "precedence-aware printing of a tree does not parse back to the tree",
                &enc_toks(&ts),
            );
        }
        k2_case(&mut out, &ts);
    }
    out.finish();
}

fn valid_name_pool() -> Vec<String> {
    ["a", "b", "v_1", "EXp", "E", "3a", "Vx", "AUX", "x1", "_", "é", "AF1", "in", "٣", "T", "tru", "A", "G"]
        .iter()
        .map(|x| s(x))
        .collect()
}

fn k3_case(out: &mut Out, t: &HctlTreeNode, roundtrip: bool) {
    let imp = format!("| {} | {}", node_info(t), node_info(t));
    out.case(&format!("print {}", enc_tree(t)), &imp, t.height > 0);
    out.count(&format!("height_{}", t.height.min(9)));
    if roundtrip {
        let again = parse_extended_formula(&t.to_string());
        out.oracle(
            again.as_ref() == Ok(t),
            "C06",
            "print->parse round trip of a constructed tree differs",
            &t.to_string(),
        );
    }
    // Display == formula_str == as_str
    out.oracle(
        format!("{t}") == t.formula_str && t.as_str() == t.formula_str,
        "C06",
        "Display/as_str differ from the stored text",
        &t.formula_str,
    );
}

pub fn k3(dir: &str, thorough: bool, seed: u64) {
    let mut out = Out::new(dir, "k3");
    let mut rng = Rng::new(seed ^ 0x33);
    let spec = TreeSpec {
        props: vec![s("a"), s("EXp")],
        vars: vec![s("x"), s("yy")],
        wilds: vec![s("p")],
        doms: vec![s("d")],
        unops: vec![UnaryOp::Not, UnaryOp::EX, UnaryOp::AG],
        binops: vec![BinaryOp::And, BinaryOp::Imp, BinaryOp::EU, BinaryOp::AW],
        hybops: HYBOPS.to_vec(),
        consts: true,
    };
    let maxs = if thorough { 5 } else { 4 };
    let mut memo = Vec::new();
    trees_of_size(&spec, maxs, &mut memo);
    for sz in 1..=maxs {
        for t in &memo[sz] {
            k3_case(&mut out, t, true);
        }
    }
    out.count_n("exhaustive_max_size", maxs as u64);
    // all operators at least once, every name shape
    let names = valid_name_pool();
    let spec2 = TreeSpec {
        props: names.clone(),
        vars: names.clone(),
        wilds: names.clone(),
        doms: names.clone(),
        unops: UNOPS.to_vec(),
        binops: BINOPS.to_vec(),
        hybops: HYBOPS.to_vec(),
        consts: true,
    };
    let n = if thorough { 100_000 } else { 5_000 };
    for _ in 0..n {
        let size = 1 + rng.below(40);
        let t = rand_tree(&mut rng, &spec2, size, &mut Vec::new(), false);
        k3_case(&mut out, &t, true);
    }
    out.finish();
}

// ---------- independent reference functions for C07 / C09 ----------

/// de Bruijn normal form: bound variables by distance to their binder, free variables kept by name.
pub fn de_bruijn(t: &HctlTreeNode, scope: &mut Vec<String>) -> String {
    let var = |x: &str, scope: &Vec<String>| -> String {
        match scope.iter().rposition(|y| y == x) {
            Some(i) => format!("#{}", scope.len() - 1 - i),
            None => format!("free:{x}"),
        }
    };
    match &t.node_type {
        NodeType::Terminal(Atomic::Var(x)) => format!("{{{}}}", var(x, scope)),
        NodeType::Terminal(a) => format!("{a}"),
        NodeType::Unary(o, c) => format!("({o:?} {})", de_bruijn(c, scope)),
        NodeType::Binary(o, l, r) => {
            format!("({} {o:?} {})", de_bruijn(l, scope), de_bruijn(r, scope))
        }
        NodeType::Hybrid(HybridOp::Jump, x, d, c) => {
            format!("(@{} {:?}: {})", var(x, scope), d, de_bruijn(c, scope))
        }
        NodeType::Hybrid(o, x, d, c) => {
            scope.push(x.clone());
            let r = format!("({o:?} {:?}: {})", d, de_bruijn(c, scope));
            scope.pop();
            r
        }
    }
}

/// alpha-normal form of a sub-formula with free variables: bound variables as de Bruijn indices, free
/// variables numbered by first occurrence (reading the text left to right).
pub fn alpha_norm(t: &HctlTreeNode) -> (String, Vec<String>) {
    fn go(t: &HctlTreeNode, scope: &mut Vec<String>, free: &mut Vec<String>) -> String {
        let mut var = |x: &str, scope: &Vec<String>, free: &mut Vec<String>| -> String {
            match scope.iter().rposition(|y| y == x) {
                Some(i) => format!("#{}", scope.len() - 1 - i),
                None => {
                    let i = match free.iter().position(|y| y == x) {
                        Some(i) => i,
                        None => {
                            free.push(x.to_string());
                            free.len() - 1
                        }
                    };
                    format!("f{i}")
                }
            }
        };
        match &t.node_type {
            NodeType::Terminal(Atomic::Var(x)) => format!("{{{}}}", var(x, scope, free)),
            NodeType::Terminal(a) => format!("{a}"),
            NodeType::Unary(o, c) => format!("({o:?} {})", go(c, scope, free)),
            NodeType::Binary(o, l, r) => {
                let a = go(l, scope, free);
                let b = go(r, scope, free);
                format!("({a} {o:?} {b})")
            }
            NodeType::Hybrid(HybridOp::Jump, x, d, c) => {
                let v = var(x, scope, free);
                format!("(@{v} {:?}: {})", d, go(c, scope, free))
            }
            NodeType::Hybrid(o, x, d, c) => {
                scope.push(x.clone());
                let r = format!("({o:?} {:?}: {})", d, go(c, scope, free));
                scope.pop();
                r
            }
        }
    }
    let mut free = Vec::new();
    let s = go(t, &mut Vec::new(), &mut free);
    (s, free)
}

/// independent scope check: None = accepted, Some(kind) = the class of rejection (first in the order the
/// property lists them is not significant: only accept/reject is compared by the oracle)
fn scoped_ok(t: &HctlTreeNode, scope: &mut Vec<String>, props: &[&str]) -> bool {
    match &t.node_type {
        NodeType::Terminal(Atomic::Var(x)) => scope.contains(x),
        NodeType::Terminal(Atomic::Prop(p)) => props.contains(&p.as_str()),
        NodeType::Terminal(_) => true,
        NodeType::Unary(_, c) => scoped_ok(c, scope, props),
        NodeType::Binary(_, l, r) => scoped_ok(l, scope, props) && scoped_ok(r, scope, props),
        NodeType::Hybrid(HybridOp::Jump, x, _, c) => scope.contains(x) && scoped_ok(c, scope, props),
        NodeType::Hybrid(_, x, _, c) => {
            if scope.contains(x) {
                return false;
            }
            scope.push(x.clone());
            let r = scoped_ok(c, scope, props);
            scope.pop();
            r
        }
    }
}

pub fn quant_depth(t: &HctlTreeNode) -> usize {
    match &t.node_type {
        NodeType::Terminal(_) => 0,
        NodeType::Unary(_, c) => quant_depth(c),
        NodeType::Binary(_, l, r) => quant_depth(l).max(quant_depth(r)),
        NodeType::Hybrid(HybridOp::Jump, _, _, c) => quant_depth(c),
        NodeType::Hybrid(_, _, _, c) => quant_depth(c) + 1,
    }
}

fn err_kind(e: &str) -> &'static str {
    if e.contains("quantified several times") {
        "requant"
    } else if e.contains("no network variable") {
        "badprop"
    } else if e.contains("is free") {
        "free"
    } else {
        "other"
    }
}

pub fn ctx_ab() -> SymbolicContext {
    // an extended context (two spare variable sets) of a network with implicit parameters: names of
    // spare BDD variables (`a_extra_0`) and of parameters must not be accepted as propositions
    let bn = BooleanNetwork::try_from("a -> b\nb -| a\n").unwrap();
    let mut m = HashMap::new();
    for v in bn.variables() {
        m.insert(v, 2u16);
    }
    SymbolicContext::with_extra_state_variables(&bn, &m).unwrap()
}

fn k4_case(out: &mut Out, ctx: &SymbolicContext, t: &HctlTreeNode) -> Option<HctlTreeNode> {
    let r = validate_props_and_rename_vars(t.clone(), ctx);
    let imp = match &r {
        Ok(t2) => format!(
            "ok {} nq={} depth={}",
            enc_tree(t2),
            collect_unique_hctl_vars(t2.clone()).len(),
            quant_depth(t2)
        ),
        Err(e) => format!("err {}", err_kind(e)),
    };
    out.case(&format!("ren 97,98 {}", enc_tree(t)), &imp, r.is_ok() && quant_depth(t) > 0);
    out.count(match &r {
        Ok(_) => "ren_ok",
        Err(e) => err_kind(e),
    });
    // C07 oracles, model-free
    let accept = scoped_ok(t, &mut Vec::new(), &["a", "b"]);
    out.oracle(
        accept == r.is_ok(),
        "C07",
        "preprocessing accepts/rejects differently from the scope rules",
        &t.to_string(),
    );
    if let Ok(t2) = &r {
        out.oracle(
            de_bruijn(t, &mut Vec::new()) == de_bruijn(t2, &mut Vec::new()),
            "C07",
            "preprocessed tree is not alpha-equivalent to its input",
            &t.to_string(),
        );
        out.oracle(
            collect_unique_hctl_vars(t2.clone()).len() == quant_depth(t2),
            "C07",
            "number of distinct variable names differs from the quantifier nesting depth",
            &t.to_string(),
        );
        let again = validate_props_and_rename_vars(t2.clone(), ctx);
        out.oracle(
            again.as_ref() == Ok(t2),
            "C07",
            "preprocessing is not idempotent",
            &t.to_string(),
        );
        // names by depth: x, xx, ...
        fn names_ok(t: &HctlTreeNode, d: usize) -> bool {
            match &t.node_type {
                NodeType::Terminal(_) => true,
                NodeType::Unary(_, c) => names_ok(c, d),
                NodeType::Binary(_, l, r) => names_ok(l, d) && names_ok(r, d),
                NodeType::Hybrid(HybridOp::Jump, _, _, c) => names_ok(c, d),
                NodeType::Hybrid(_, x, _, c) => *x == "x".repeat(d + 1) && names_ok(c, d + 1),
            }
        }
        out.oracle(
            names_ok(t2, 0),
            "C07",
            "a quantifier is not named by its nesting depth",
            &t.to_string(),
        );
        // C06: preprocessed trees round-trip
        out.oracle(
            parse_extended_formula(&t2.to_string()).as_ref() == Ok(t2),
            "C06",
            "print->parse round trip of a preprocessed tree differs",
            &t2.to_string(),
        );
        // string path = tree path
        let via_str = parse_and_minimize_extended_formula(ctx, &t.to_string());
        out.oracle(
            via_str.as_ref() == Ok(t2),
            "C07",
            "parse_and_minimize on the printed tree differs from preprocessing the tree",
            &t.to_string(),
        );
    }
    r.ok()
}

fn k4_spec() -> TreeSpec {
    TreeSpec {
        props: vec![s("a"), s("q")],
        vars: vec![s("x"), s("xx"), s("y")],
        wilds: vec![s("p")],
        doms: vec![s("d")],
        unops: vec![UnaryOp::Not, UnaryOp::AX],
        binops: vec![BinaryOp::And, BinaryOp::EU],
        hybops: HYBOPS.to_vec(),
        consts: false,
    }
}

fn k4_rand_spec() -> TreeSpec {
    TreeSpec {
        props: vec![s("a"), s("b"), s("a"), s("b"), s("q"), s("a_extra_0"), s("b_extra_1")],
        vars: vec![s("x"), s("xx"), s("y"), s("z"), s("xxx")],
        wilds: vec![s("p"), s("w")],
        doms: vec![s("d"), s("e")],
        unops: UNOPS.to_vec(),
        binops: BINOPS.to_vec(),
        hybops: HYBOPS.to_vec(),
        consts: true,
    }
}

pub fn k4(dir: &str, thorough: bool, seed: u64) {
    let mut out = Out::new(dir, "k4");
    let mut rng = Rng::new(seed ^ 0x44);
    let ctx = ctx_ab();
    let spec = k4_spec();
    let maxs = if thorough { 5 } else { 4 };
    let mut memo = Vec::new();
    trees_of_size(&spec, maxs, &mut memo);
    for sz in 1..=maxs {
        for t in &memo[sz] {
            k4_case(&mut out, &ctx, t);
        }
    }
    out.count_n("exhaustive_max_size", maxs as u64);
    let rspec = k4_rand_spec();
    let n = if thorough { 200_000 } else { 10_000 };
    for i in 0..n {
        let size = 2 + rng.below(16);
        let t = rand_tree(&mut rng, &rspec, size, &mut Vec::new(), i % 4 != 0);
        k4_case(&mut out, &ctx, &t);
    }
    out.finish();
}

fn ren_str(m: &HashMap<String, String>) -> String {
    let mut v: Vec<String> = m
        .iter()
        .map(|(k, v)| format!("{}={}", enc_name(k), enc_name(v)))
        .collect();
    v.sort();
    v.join(" ")
}

/// preprocessed trees for K5/K6
fn preprocessed_pool(rng: &mut Rng, ctx: &SymbolicContext, n: usize, exhaustive_size: usize) -> Vec<HctlTreeNode> {
    let mut pool = Vec::new();
    let spec = k4_spec();
    let mut memo = Vec::new();
    trees_of_size(&spec, exhaustive_size, &mut memo);
    for sz in 1..=exhaustive_size {
        for t in &memo[sz] {
            if let Ok(t2) = validate_props_and_rename_vars(t.clone(), ctx) {
                pool.push(t2);
            }
        }
    }
    let rspec = TreeSpec {
        props: vec![s("a"), s("b"), s("a3"), s("V_b")],
        ..k4_rand_spec()
    };
    let ctx2 = {
        let bn = BooleanNetwork::try_from("a -> b\nb -| a\na3 -> V_b\nV_b -> a3\n").unwrap();
        SymbolicContext::new(&bn).unwrap()
    };
    let mut tries = 0;
    let target = pool.len() + n;
    while pool.len() < target && tries < 20 * n {
        tries += 1;
        let size = 2 + rng.below(18);
        let t = if tries % 3 == 0 { sibling_tree(rng, &rspec) } else { rand_tree(rng, &rspec, size, &mut Vec::new(), true) };
        if let Ok(t2) = validate_props_and_rename_vars(t, &ctx2) {
            pool.push(t2);
        }
    }
    pool
}

/// sibling quantifiers that reuse a name (preprocessing names by depth), followed by occurrences of outer
/// variables and by further quantifiers: `Q{x}: ((Q{y}: A) op (Q{y}: (B op C)) op …)`
fn sibling_tree(rng: &mut Rng, spec: &TreeSpec) -> HctlTreeNode {
    let quants = [HybridOp::Bind, HybridOp::Exists, HybridOp::Forall];
    let outer: Vec<String> = if rng.chance(2, 3) { vec![s("x")] } else { vec![s("x"), s("w")] };
    let mut scope = outer.clone();
    let nsib = 2 + rng.below(3);
    let mut parts: Vec<HctlTreeNode> = Vec::new();
    for i in 0..nsib {
        let name = if rng.chance(3, 4) { s("y") } else { format!("y{i}") };
        scope.push(name.clone());
        let sz = 1 + rng.below(4);
        let body = rand_tree(rng, spec_no_quant(spec), sz, &mut scope, true);
        // sometimes a quantifier nested inside the sibling
        let body = if rng.chance(1, 3) {
            scope.push(s("v"));
            let isz = 1 + rng.below(3);
            let inner = rand_tree(rng, spec_no_quant(spec), isz, &mut scope, true);
            scope.pop();
            HctlTreeNode::mk_binary(body, HctlTreeNode::mk_hybrid(inner, "v", None, rng.pick(&quants).clone()), rng.pick(&BINOPS).clone())
        } else {
            body
        };
        scope.pop();
        let d = if !spec.doms.is_empty() && rng.chance(1, 4) { Some(rng.pick(&spec.doms).clone()) } else { None };
        parts.push(HctlTreeNode::mk_hybrid(body, &name, d, rng.pick(&quants).clone()));
        if rng.chance(1, 2) {
            // an occurrence of an outer variable (or a jump to it) after the sibling
            let o = rng.pick(&outer).clone();
            parts.push(if rng.chance(1, 2) {
                HctlTreeNode::mk_unary(HctlTreeNode::mk_variable(&o), rng.pick(&UNOPS).clone())
            } else {
                HctlTreeNode::mk_hybrid(HctlTreeNode::mk_proposition(&spec.props[0]), &o, None, HybridOp::Jump)
            });
        }
    }
    let mut t = parts.pop().unwrap();
    while let Some(p) = parts.pop() {
        t = if rng.chance(1, 2) { HctlTreeNode::mk_binary(p, t, rng.pick(&BINOPS).clone()) } else { HctlTreeNode::mk_binary(t, p, rng.pick(&BINOPS).clone()) };
    }
    for o in outer.iter().rev() {
        t = HctlTreeNode::mk_hybrid(t, o, None, rng.pick(&quants).clone());
    }
    t
}

fn spec_no_quant(spec: &TreeSpec) -> &TreeSpec {
    // bodies are generated with the caller's scope; quantifiers inside would need fresh names
    static CELL: std::sync::OnceLock<TreeSpec> = std::sync::OnceLock::new();
    CELL.get_or_init(|| TreeSpec { hybops: vec![HybridOp::Jump], ..spec.clone() })
}

pub fn k5(dir: &str, thorough: bool, seed: u64) {
    let mut out = Out::new(dir, "k5");
    let mut rng = Rng::new(seed ^ 0x55);
    let ctx = ctx_ab();
    let pool = preprocessed_pool(&mut rng, &ctx, if thorough { 60_000 } else { 3_000 }, if thorough { 5 } else { 4 });
    for t in &pool {
        // all sub-trees of one preprocessed formula
        let subs = subtrees(t);
        let mut seen: Vec<(String, String, String)> = Vec::new(); // (canon, alpha_norm, text)
        for st in subs {
            let text = st.to_string();
            let (canon, ren) = get_canonical_and_renaming(text.clone());
            let imp = format!("{} set {}", enc_name(&canon), ren_str(&ren));
            let nontrivial = !ren.is_empty();
            out.case(&format!("canon {}", enc_name(&text)), &imp, nontrivial);
            out.case(&format!("canont {}", enc_tree(st)), &imp, nontrivial);
            out.count(&format!("vars_{}", ren.len().min(4)));
            // C09 oracles
            out.oracle(get_canonical(text.clone()) == canon, "C09", "get_canonical differs from get_canonical_and_renaming", &text);
            out.oracle(get_canonical(canon.clone()) == canon, "C09", "canonisation is not idempotent", &text);
            let (an, free) = alpha_norm(st);
            // renaming maps every free variable, injectively
            let mut targets: Vec<&String> = ren.values().collect();
            targets.sort();
            let len_before = targets.len();
            targets.dedup();
            out.oracle(
                free.iter().all(|f| ren.contains_key(f)) && targets.len() == len_before,
                "C09",
                "renaming is not injective or misses a free variable",
                &text,
            );
            seen.push((canon, an, text));
        }
        // pairwise: same canonical form iff alpha-equivalent
        for i in 0..seen.len() {
            for j in (i + 1)..seen.len() {
                let same_c = seen[i].0 == seen[j].0;
                let same_a = seen[i].1 == seen[j].1;
                out.oracle(
                    same_c == same_a,
                    "C09",
                    "canonical forms agree/differ although the sub-formulae are not/are equal up to renaming",
                    &format!("{}  vs  {}", seen[i].2, seen[j].2),
                );
            }
        }
    }
    out.finish();
}

/// every sub-tree occurrence with the (true) domains of the variables in scope
fn occurrences<'a>(t: &'a HctlTreeNode, scope: &mut Vec<(String, Option<String>)>, out: &mut Vec<(&'a HctlTreeNode, Vec<(String, Option<String>)>)>) {
    out.push((t, scope.clone()));
    match &t.node_type {
        NodeType::Terminal(_) => {}
        NodeType::Unary(_, c) => occurrences(c, scope, out),
        NodeType::Binary(_, l, r) => {
            occurrences(l, scope, out);
            occurrences(r, scope, out);
        }
        NodeType::Hybrid(HybridOp::Jump, _, _, c) => occurrences(c, scope, out),
        NodeType::Hybrid(_, x, d, c) => {
            scope.push((x.clone(), d.clone()));
            occurrences(c, scope, out);
            scope.pop();
        }
    }
}

fn k6_case(out: &mut Out, trees: &Vec<HctlTreeNode>) {
    let dups = mark_duplicates_canonized_multiple(trees);
    let mut items: Vec<String> = dups
        .iter()
        .map(|((c, doms), n)| {
            let d = doms
                .iter()
                .map(|(k, v)| format!("{}={}", enc_name(k), enc_opt(v)))
                .collect::<Vec<_>>()
                .join(",");
            format!("{}[{}]:{}", enc_name(c), d, n)
        })
        .collect();
    items.sort();
    let req = format!(
        "dups {} {}",
        trees.len(),
        trees.iter().map(enc_tree).collect::<Vec<_>>().join(" ")
    );
    out.case(&req, &format!("set {}", items.join(" ")), !dups.is_empty());
    out.count(&format!("dups_{}", dups.len().min(5)));
    // C09 (last sentence): independent occurrence count. Class of an occurrence = alpha-normal form +
    // domains of its free variables in first-occurrence order.
    let mut occ = Vec::new();
    for t in trees {
        occurrences(t, &mut Vec::new(), &mut occ);
    }
    let mut classes: BTreeMap<(String, Vec<Option<String>>), usize> = BTreeMap::new();
    let mut class_of_key: HashMap<(String, BTreeMap<String, Option<String>>), (String, Vec<Option<String>>)> = HashMap::new();
    for (st, scope) in &occ {
        let (an, free) = alpha_norm(st);
        let fdoms: Vec<Option<String>> = free
            .iter()
            .map(|f| scope.iter().rev().find(|(x, _)| x == f).map(|(_, d)| d.clone()).unwrap_or(None))
            .collect();
        *classes.entry((an.clone(), fdoms.clone())).or_insert(0) += 1;
        // the key the implementation would use for this occurrence, with its TRUE domains
        let (canon, ren) = get_canonical_and_renaming(st.to_string());
        let mut kd = BTreeMap::new();
        for (f, d) in free.iter().zip(fdoms.iter()) {
            if let Some(cn) = ren.get(f) {
                kd.insert(cn.clone(), d.clone());
            }
        }
        class_of_key.insert((canon, kd), (an, fdoms));
    }
    for ((c, doms), n) in dups.iter() {
        // domains of bound variables never appear in keys of preprocessed formulae; keys carry the free ones
        match class_of_key.get(&(c.clone(), doms.clone())) {
            Some(cls) => {
                let cnt = classes[cls];
                out.oracle(
                    cnt as i64 >= (*n as i64) + 1,
                    "C09",
                    "duplicate counter exceeds the number of occurrences (up to renaming, identical domains)",
                    &format!("{req} key={c} {doms:?} n={n} occurrences={cnt}"),
                );
            }
            None => out.oracle(
                false,
                "C09",
                "reported duplicate does not occur with these domains at all",
                &format!("{req} key={c} {doms:?}"),
            ),
        }
    }
}

pub fn k6(dir: &str, thorough: bool, seed: u64) {
    let mut out = Out::new(dir, "k6");
    let mut rng = Rng::new(seed ^ 0x66);
    let ctx = {
        let bn = BooleanNetwork::try_from("a -> b\nb -| a\n").unwrap();
        SymbolicContext::new(&bn).unwrap()
    };
    // corpus: the formulas of the unit tests and the D4 witness
    let corpus: Vec<Vec<&str>> = vec![
        vec!["!{x}: 3{y}: (AX {x} & AX {y})"],
        vec!["(!{x}: 3{y}: ((AG EF {x} & AG EF {y}) & (EF {y}))) & (!{z}: EF {z})"],
        vec!["(!{x} in %d%: @{x}: EX ({x} & %p%)) & (!{x}: EX ({x} & %p%))"],
        vec!["!{x} in %d%: (AX {x} & (!{y}: AX {y}))", "3{z} in %d%: AX {z}", "3{z}: AX {z}"],
        vec!["(3{x} in %e%: a) & (!{x}: ({x} & %p%)) & (!{x}: ({x} & %p%))"],
        vec!["(~a) & (!{x} in %d%: ~a)", "~a"],
        vec!["%p% & %p% & EX %p%", "EX %p%"],
    ];
    for c in &corpus {
        let trees: Vec<HctlTreeNode> = c
            .iter()
            .map(|f| parse_and_minimize_extended_formula(&ctx, f).unwrap())
            .collect();
        k6_case(&mut out, &trees);
    }
    let pool = preprocessed_pool(&mut rng, &ctx, if thorough { 30_000 } else { 3_000 }, 3);
    let n = if thorough { 100_000 } else { 5_000 };
    let rspec = TreeSpec {
        props: vec![s("a"), s("b")],
        ..k4_rand_spec()
    };
    for _ in 0..n {
        let k = 1 + rng.below(4);
        let mut raw: Vec<HctlTreeNode> = Vec::new();
        // plant overlaps: take a base formula and embed copies of some of its sub-trees (renamed by being
        // placed under other quantifiers / domains) into the other formulae
        let base = rng.pick(&pool).clone();
        raw.push(base.clone());
        let subs: Vec<HctlTreeNode> = subtrees(&base).into_iter().cloned().collect();
        for _ in 1..k {
            let mut t = if rng.chance(1, 2) {
                rng.pick(&pool).clone()
            } else {
                { let sz = 2 + rng.below(8); rand_tree(&mut rng, &rspec, sz, &mut Vec::new(), true) }
            };
            // combine with planted sub-trees
            for _ in 0..rng.below(3) {
                let st = rng.pick(&subs).clone();
                let (_, free) = alpha_norm(&st);
                // close the planted sub-tree with fresh quantifiers (possibly with domains)
                let mut closed = st;
                for f in free.iter() {
                    let d = if rng.chance(1, 3) { Some(s(*rng.pick(&["d", "e"]))) } else { None };
                    let o = rng.pick(&[HybridOp::Bind, HybridOp::Exists, HybridOp::Forall]).clone();
                    closed = HctlTreeNode::mk_hybrid(closed, f, d, o);
                }
                t = if rng.chance(1, 2) {
                    HctlTreeNode::mk_binary(t, closed, rng.pick(&BINOPS).clone())
                } else {
                    // plant under an extra quantifier so that names shift
                    let d = if rng.chance(1, 3) { Some(s("d")) } else { None };
                    HctlTreeNode::mk_hybrid(
                        HctlTreeNode::mk_binary(closed, t, BinaryOp::And),
                        "q",
                        d,
                        HybridOp::Exists,
                    )
                };
            }
            raw.push(t);
        }
        let trees: Vec<HctlTreeNode> = raw
            .into_iter()
            .filter_map(|t| validate_props_and_rename_vars(t, &ctx).ok())
            .collect();
        if trees.is_empty() {
            continue;
        }
        k6_case(&mut out, &trees);
    }
    out.finish();
}
