//! Generators for strings, token sequences and trees.
use crate::common::Rng;
use biodivine_hctl_model_checker::preprocessing::hctl_tree::{HctlTreeNode, NodeType};
use biodivine_hctl_model_checker::preprocessing::operator_enums::*;
use biodivine_hctl_model_checker::preprocessing::tokenizer::HctlToken;

pub const UNOPS: [UnaryOp; 7] = [
    UnaryOp::Not,
    UnaryOp::EX,
    UnaryOp::AX,
    UnaryOp::EF,
    UnaryOp::AF,
    UnaryOp::EG,
    UnaryOp::AG,
];
pub const BINOPS: [BinaryOp; 9] = [
    BinaryOp::And,
    BinaryOp::Or,
    BinaryOp::Xor,
    BinaryOp::Imp,
    BinaryOp::Iff,
    BinaryOp::EU,
    BinaryOp::AU,
    BinaryOp::EW,
    BinaryOp::AW,
];
pub const HYBOPS: [HybridOp; 4] = [
    HybridOp::Bind,
    HybridOp::Jump,
    HybridOp::Exists,
    HybridOp::Forall,
];

/// Specification of what a random tree may contain.
#[derive(Clone)]
pub struct TreeSpec {
    pub props: Vec<String>,
    pub vars: Vec<String>,
    pub wilds: Vec<String>,
    pub doms: Vec<String>,
    pub unops: Vec<UnaryOp>,
    pub binops: Vec<BinaryOp>,
    pub hybops: Vec<HybridOp>,
    pub consts: bool,
}

impl TreeSpec {
    pub fn atoms(&self) -> Vec<HctlTreeNode> {
        let mut v = Vec::new();
        for p in &self.props {
            v.push(HctlTreeNode::mk_proposition(p));
        }
        for x in &self.vars {
            v.push(HctlTreeNode::mk_variable(x));
        }
        for w in &self.wilds {
            v.push(HctlTreeNode::mk_wild_card(w));
        }
        if self.consts {
            v.push(HctlTreeNode::mk_constant(true));
            v.push(HctlTreeNode::mk_constant(false));
        }
        v
    }

    /// all (op, var, dom) combinations for hybrid nodes
    pub fn hybrids(&self) -> Vec<(HybridOp, String, Option<String>)> {
        let mut v = Vec::new();
        for o in &self.hybops {
            for x in &self.vars {
                v.push((o.clone(), x.clone(), None));
                if !matches!(o, HybridOp::Jump) {
                    for d in &self.doms {
                        v.push((o.clone(), x.clone(), Some(d.clone())));
                    }
                }
            }
        }
        v
    }
}

/// all trees with exactly `size` nodes
pub fn trees_of_size(spec: &TreeSpec, size: usize, memo: &mut Vec<Vec<HctlTreeNode>>) {
    // memo[s] = trees of size s (memo[0] unused)
    while memo.len() <= size {
        let s = memo.len();
        let mut v = Vec::new();
        if s == 0 {
            memo.push(v);
            continue;
        }
        if s == 1 {
            v = spec.atoms();
            memo.push(v);
            continue;
        }
        for c in memo[s - 1].clone() {
            for o in &spec.unops {
                v.push(HctlTreeNode::mk_unary(c.clone(), o.clone()));
            }
            for (o, x, d) in spec.hybrids() {
                v.push(HctlTreeNode::mk_hybrid(c.clone(), &x, d, o));
            }
        }
        for ls in 1..(s - 1) {
            let rs = s - 1 - ls;
            if rs < 1 {
                continue;
            }
            for l in memo[ls].clone() {
                for r in memo[rs].clone() {
                    for o in &spec.binops {
                        v.push(HctlTreeNode::mk_binary(l.clone(), r.clone(), o.clone()));
                    }
                }
            }
        }
        memo.push(v);
    }
}

/// random tree with about `size` nodes; `scope`: variables currently quantified (used to make most
/// trees well-scoped when `scoped` is set)
pub fn rand_tree(rng: &mut Rng, spec: &TreeSpec, size: usize, scope: &mut Vec<String>, scoped: bool) -> HctlTreeNode {
    if size <= 1 {
        // atom
        let mut choices: Vec<HctlTreeNode> = Vec::new();
        for p in &spec.props {
            choices.push(HctlTreeNode::mk_proposition(p));
        }
        if scoped {
            for x in scope.iter() {
                choices.push(HctlTreeNode::mk_variable(x));
                choices.push(HctlTreeNode::mk_variable(x));
            }
            if rng.chance(1, 40) && !spec.vars.is_empty() {
                { let v: &String = rng.pick(&spec.vars); choices.push(HctlTreeNode::mk_variable(v)); }
            }
        } else {
            for x in &spec.vars {
                choices.push(HctlTreeNode::mk_variable(x));
            }
        }
        for w in &spec.wilds {
            choices.push(HctlTreeNode::mk_wild_card(w));
        }
        if spec.consts && rng.chance(1, 6) {
            choices.push(HctlTreeNode::mk_constant(true));
            choices.push(HctlTreeNode::mk_constant(false));
        }
        if choices.is_empty() {
            return HctlTreeNode::mk_constant(true);
        }
        return rng.pick(&choices).clone();
    }
    let r = rng.below(10);
    if r < 3 && !spec.unops.is_empty() {
        let o = rng.pick(&spec.unops).clone();
        let c = rand_tree(rng, spec, size - 1, scope, scoped);
        HctlTreeNode::mk_unary(c, o)
    } else if r < 6 && !spec.hybops.is_empty() && !spec.vars.is_empty() {
        let mut o = rng.pick(&spec.hybops).clone();
        if scoped && !rng.chance(1, 30) {
            // mostly well-scoped: no jump without a variable in scope, no quantifier without a fresh name
            let has_fresh = spec.vars.iter().any(|v| !scope.contains(v));
            if matches!(o, HybridOp::Jump) && scope.is_empty() {
                o = if has_fresh { HybridOp::Bind } else { HybridOp::Jump };
            }
            if !matches!(o, HybridOp::Jump) && !has_fresh {
                if scope.is_empty() {
                    let c = rand_tree(rng, spec, size - 1, scope, scoped);
                    return HctlTreeNode::mk_unary(c, UnaryOp::Not);
                }
                o = HybridOp::Jump;
            }
        }
        if matches!(o, HybridOp::Jump) {
            let x = if scoped && !scope.is_empty() && !rng.chance(1, 40) {
                rng.pick(scope).clone()
            } else {
                rng.pick(&spec.vars).clone()
            };
            let c = rand_tree(rng, spec, size - 1, scope, scoped);
            HctlTreeNode::mk_hybrid(c, &x, None, o)
        } else {
            let free: Vec<String> = spec
                .vars
                .iter()
                .filter(|v| !scope.contains(v))
                .cloned()
                .collect();
            let x = if scoped && !free.is_empty() && !rng.chance(1, 40) {
                rng.pick(&free).clone()
            } else {
                rng.pick(&spec.vars).clone()
            };
            let d = if !spec.doms.is_empty() && rng.chance(1, 3) {
                Some(rng.pick(&spec.doms).clone())
            } else {
                None
            };
            scope.push(x.clone());
            let c = rand_tree(rng, spec, size - 1, scope, scoped);
            scope.pop();
            HctlTreeNode::mk_hybrid(c, &x, d, o)
        }
    } else if !spec.binops.is_empty() && size >= 3 {
        let o = rng.pick(&spec.binops).clone();
        let ls = 1 + rng.below(size - 2);
        let l = rand_tree(rng, spec, ls, scope, scoped);
        let r = rand_tree(rng, spec, size - 1 - ls, scope, scoped);
        HctlTreeNode::mk_binary(l, r, o)
    } else if !spec.unops.is_empty() {
        let o = rng.pick(&spec.unops).clone();
        let c = rand_tree(rng, spec, size - 1, scope, scoped);
        HctlTreeNode::mk_unary(c, o)
    } else {
        rand_tree(rng, spec, 1, scope, scoped)
    }
}

/// in-order frontier of a tree as flat tokens (constants as the tokens the tokenizer produces)
pub fn frontier(t: &HctlTreeNode, out: &mut Vec<HctlToken>) {
    match &t.node_type {
        NodeType::Terminal(a) => out.push(HctlToken::Atom(a.clone())),
        NodeType::Unary(o, c) => {
            out.push(HctlToken::Unary(o.clone()));
            frontier(c, out);
        }
        NodeType::Binary(o, l, r) => {
            frontier(l, out);
            out.push(HctlToken::Binary(o.clone()));
            frontier(r, out);
        }
        NodeType::Hybrid(o, v, d, c) => {
            out.push(HctlToken::Hybrid(o.clone(), v.clone(), d.clone()));
            frontier(c, out);
        }
    }
}

/// flatten nested token groups; proposition tokens spelling a constant become the constant
pub fn flatten(ts: &[HctlToken], out: &mut Vec<HctlToken>) {
    for t in ts {
        match t {
            HctlToken::Tokens(inner) => flatten(inner, out),
            HctlToken::Atom(Atomic::Prop(n)) if n == "true" || n == "True" || n == "1" => {
                out.push(HctlToken::Atom(Atomic::True))
            }
            HctlToken::Atom(Atomic::Prop(n)) if n == "false" || n == "False" || n == "0" => {
                out.push(HctlToken::Atom(Atomic::False))
            }
            t => out.push(t.clone()),
        }
    }
}

pub fn weight(ts: &[HctlToken]) -> usize {
    ts.iter()
        .map(|t| match t {
            HctlToken::Tokens(inner) => 1 + weight(inner),
            _ => 1,
        })
        .sum()
}

/// all token sequences of total weight exactly `w` with groups nested at most `depth` deep
pub fn token_seqs(kinds: &[HctlToken], w: usize, depth: usize, memo: &mut std::collections::HashMap<(usize, usize), Vec<Vec<HctlToken>>>) -> Vec<Vec<HctlToken>> {
    if let Some(v) = memo.get(&(w, depth)) {
        return v.clone();
    }
    let mut res: Vec<Vec<HctlToken>> = Vec::new();
    if w == 0 {
        res.push(Vec::new());
    } else {
        // first token is a flat kind
        let rest = token_seqs(kinds, w - 1, depth, memo);
        for k in kinds {
            for r in &rest {
                let mut v = Vec::with_capacity(r.len() + 1);
                v.push(k.clone());
                v.extend(r.iter().cloned());
                res.push(v);
            }
        }
        // first token is a group of inner weight g (0..=w-1)
        if depth > 0 {
            for g in 0..w {
                let inners = token_seqs(kinds, g, depth - 1, memo);
                let rests = token_seqs(kinds, w - 1 - g, depth, memo);
                for i in &inners {
                    for r in &rests {
                        let mut v = Vec::with_capacity(r.len() + 1);
                        v.push(HctlToken::Tokens(i.clone()));
                        v.extend(r.iter().cloned());
                        res.push(v);
                    }
                }
            }
        }
    }
    memo.insert((w, depth), res.clone());
    res
}

/// one spelling of a token list as text, with random whitespace, long/short hybrid names, and
/// (when `break_gaps`) sometimes without the mandatory gaps.
pub fn spell(rng: &mut Rng, ts: &[HctlToken], break_gaps: bool) -> String {
    fn ws(rng: &mut Rng, mandatory: bool) -> String {
        let kinds = [" ", "  ", "\t", "\n", "\u{a0}", " \t "];
        if mandatory {
            rng.pick(&kinds).to_string()
        } else if rng.chance(1, 2) {
            String::new()
        } else {
            rng.pick(&kinds).to_string()
        }
    }
    fn is_name_end(s: &str) -> bool {
        s.chars().last().map(|c| c.is_alphanumeric() || c == '_').unwrap_or(false)
    }
    fn go(rng: &mut Rng, ts: &[HctlToken], out: &mut String, break_gaps: bool) {
        for t in ts {
            let piece: String = match t {
                HctlToken::Unary(UnaryOp::Not) => "~".to_string(),
                HctlToken::Unary(o) => format!("{o:?}"),
                HctlToken::Binary(o) => format!("{o}"),
                HctlToken::Hybrid(o, v, d) => {
                    let long = rng.chance(1, 3);
                    let name = match (o, long) {
                        (HybridOp::Bind, false) => "!",
                        (HybridOp::Jump, false) => "@",
                        (HybridOp::Exists, false) => "3",
                        (HybridOp::Forall, false) => "V",
                        (HybridOp::Bind, true) => "\\bind",
                        (HybridOp::Jump, true) => "\\jump",
                        (HybridOp::Exists, true) => "\\exists",
                        (HybridOp::Forall, true) => "\\forall",
                    };
                    let mut s = String::from(name);
                    s.push_str(&ws(rng, false));
                    s.push_str(&format!("{{{v}}}"));
                    s.push_str(&ws(rng, false));
                    if let Some(d) = d {
                        s.push_str("in");
                        s.push_str(&ws(rng, false));
                        s.push_str(&format!("%{d}%"));
                        s.push_str(&ws(rng, false));
                    }
                    s.push(':');
                    s
                }
                HctlToken::Atom(Atomic::Prop(n)) => n.clone(),
                HctlToken::Atom(Atomic::Var(n)) => format!("{{{n}}}"),
                HctlToken::Atom(Atomic::WildCardProp(n)) => format!("%{n}%"),
                HctlToken::Atom(Atomic::True) => rng.pick(&["true", "True", "1"]).to_string(),
                HctlToken::Atom(Atomic::False) => rng.pick(&["false", "False", "0"]).to_string(),
                HctlToken::Tokens(inner) => {
                    let mut s = String::from("(");
                    go(rng, inner, &mut s, break_gaps);
                    s.push_str(&ws(rng, false));
                    s.push(')');
                    s
                }
            };
            let starts_name = piece
                .chars()
                .next()
                .map(|c| c.is_alphanumeric() || c == '_')
                .unwrap_or(false);
            let need = is_name_end(out) && starts_name;
            if need && !(break_gaps && rng.chance(1, 4)) {
                out.push_str(&ws(rng, true));
            } else if !need {
                out.push_str(&ws(rng, false));
            }
            out.push_str(&piece);
        }
    }
    let mut s = String::new();
    go(rng, ts, &mut s, break_gaps);
    s.push_str(&ws(rng, false));
    s
}

/// token list of a tree with random redundant parentheses (a complete sub-formula may be wrapped)
pub fn tree_tokens(rng: &mut Rng, t: &HctlTreeNode, top: bool) -> Vec<HctlToken> {
    // precedence-aware printing with mandatory groups where needed, plus random extra groups
    fn level(t: &HctlTreeNode) -> u8 {
        match &t.node_type {
            NodeType::Terminal(_) => 9,
            NodeType::Unary(..) => 8,
            NodeType::Binary(o, ..) => match o {
                BinaryOp::EU | BinaryOp::AU | BinaryOp::EW | BinaryOp::AW => 7,
                BinaryOp::And => 6,
                BinaryOp::Xor => 5,
                BinaryOp::Or => 4,
                BinaryOp::Imp => 3,
                BinaryOp::Iff => 2,
            },
            NodeType::Hybrid(..) => 1,
        }
    }
    // emit `t` in a position that requires at least level `min`
    fn emit(rng: &mut Rng, t: &HctlTreeNode, min: u8, out: &mut Vec<HctlToken>) {
        let need_group = level(t) < min;
        let extra = rng.chance(1, 6);
        let mut inner: Vec<HctlToken> = Vec::new();
        let tgt: &mut Vec<HctlToken> = if need_group || extra { &mut inner } else { out };
        match &t.node_type {
            NodeType::Terminal(Atomic::True) => tgt.push(HctlToken::Atom(Atomic::Prop(
                rng.pick(&["true", "True", "1"]).to_string(),
            ))),
            NodeType::Terminal(Atomic::False) => tgt.push(HctlToken::Atom(Atomic::Prop(
                rng.pick(&["false", "False", "0"]).to_string(),
            ))),
            NodeType::Terminal(a) => tgt.push(HctlToken::Atom(a.clone())),
            NodeType::Unary(o, c) => {
                tgt.push(HctlToken::Unary(o.clone()));
                emit(rng, c, 8, tgt);
            }
            NodeType::Binary(o, l, r) => {
                let lv = level(t);
                emit(rng, l, lv + 1, tgt);
                tgt.push(HctlToken::Binary(o.clone()));
                emit(rng, r, lv, tgt);
            }
            NodeType::Hybrid(o, v, d, c) => {
                tgt.push(HctlToken::Hybrid(o.clone(), v.clone(), d.clone()));
                emit(rng, c, 1, tgt);
            }
        }
        if need_group || extra {
            if rng.chance(1, 8) {
                out.push(HctlToken::Tokens(vec![HctlToken::Tokens(inner)]));
            } else {
                out.push(HctlToken::Tokens(inner));
            }
        }
    }
    let mut out = Vec::new();
    let _ = top;
    emit(rng, t, 1, &mut out);
    // a hybrid operator is only allowed at the start of a formula or group: `emit` with min=1 places a
    // hybrid child of a hybrid node directly, everything else gets a group, which is what the grammar wants.
    out
}


/// rename variables of a tree
pub fn rename_tree_vars(t: &HctlTreeNode, map: &std::collections::HashMap<String, String>) -> HctlTreeNode {
    match &t.node_type {
        NodeType::Terminal(Atomic::Var(x)) => HctlTreeNode::mk_variable(map.get(x).unwrap_or(x)),
        NodeType::Terminal(_) => t.clone(),
        NodeType::Unary(o, c) => HctlTreeNode::mk_unary(rename_tree_vars(c, map), o.clone()),
        NodeType::Binary(o, l, r) => HctlTreeNode::mk_binary(rename_tree_vars(l, map), rename_tree_vars(r, map), o.clone()),
        NodeType::Hybrid(o, x, d, c) => HctlTreeNode::mk_hybrid(rename_tree_vars(c, map), map.get(x).unwrap_or(x), d.clone(), o.clone()),
    }
}

/// a closed formula containing two copies of a sub-formula over two variables with the roles of the
/// variables swapped (or shifted): `Q{x}: Q{y}: body(x,y) OP body(y,x)`; optionally a third variable.
pub fn swapped_duplicates(rng: &mut Rng, spec: &TreeSpec, three: bool) -> HctlTreeNode {
    let mut bspec = spec.clone();
    bspec.hybops = vec![HybridOp::Jump];
    bspec.vars = vec!["x".to_string(), "y".to_string()];
    let mut scope = vec!["x".to_string(), "y".to_string()];
    let size = 2 + rng.below(5);
    let mut body = rand_tree(rng, &bspec, size, &mut scope, true);
    // make sure both variables occur
    body = HctlTreeNode::mk_hybrid(
        HctlTreeNode::mk_binary(body, HctlTreeNode::mk_variable("y"), rng.pick(&[BinaryOp::And, BinaryOp::Or, BinaryOp::EU]).clone()),
        "x",
        None,
        HybridOp::Jump,
    );
    let mut m = std::collections::HashMap::new();
    if three && rng.chance(1, 2) {
        // shifted names: (x,y) vs (y,z)
        m.insert("x".to_string(), "y".to_string());
        m.insert("y".to_string(), "z".to_string());
    } else {
        m.insert("x".to_string(), "y".to_string());
        m.insert("y".to_string(), "x".to_string());
    }
    let other = rename_tree_vars(&body, &m);
    let op = rng.pick(&[BinaryOp::And, BinaryOp::Or, BinaryOp::Xor, BinaryOp::Imp]).clone();
    let mut t = if rng.chance(1, 2) { HctlTreeNode::mk_binary(body, other, op) } else { HctlTreeNode::mk_binary(other, body, op) };
    let quants = [HybridOp::Bind, HybridOp::Exists, HybridOp::Forall];
    let names: Vec<&str> = if m.contains_key("y") && m["y"] == "z" { vec!["z", "y", "x"] } else { vec!["y", "x"] };
    for n in names {
        let d = if !spec.doms.is_empty() && rng.chance(1, 4) { Some(rng.pick(&spec.doms).clone()) } else { None };
        t = HctlTreeNode::mk_hybrid(t, n, d, rng.pick(&quants).clone());
    }
    t
}

/// The same ONE-variable sub-formula under two (or three) different variable names that lie at different quantifier
/// depths, so that after preprocessing the later occurrences are served from the cache and renamed.  The sub-formula
/// reaches its variable through a jump to a variable-free body, i.e. the cached set constrains only some of the
/// variable's bits (or none) — the case in which a renaming that inspects the support of the set goes wrong.
pub fn renamed_duplicates(rng: &mut Rng, spec: &TreeSpec, three: bool) -> HctlTreeNode {
    let mut bspec = spec.clone();
    bspec.hybops.clear();
    bspec.vars.clear();
    bspec.consts = false;
    let phi_size = 1 + rng.below(3);
    let phi = rand_tree(rng, &bspec, phi_size, &mut Vec::new(), true);
    let shape = rng.below(5);
    let un = rng.pick(&[UnaryOp::EX, UnaryOp::AX, UnaryOp::EF, UnaryOp::AG, UnaryOp::Not]).clone();
    let bop = rng.pick(&[BinaryOp::And, BinaryOp::Or, BinaryOp::EU, BinaryOp::Xor]).clone();
    let mk = |v: &str| -> HctlTreeNode {
        let j = HctlTreeNode::mk_hybrid(phi.clone(), v, None, HybridOp::Jump);
        match shape {
            0 | 1 => j,
            2 => HctlTreeNode::mk_unary(j, un.clone()),
            3 => HctlTreeNode::mk_binary(j, HctlTreeNode::mk_unary(HctlTreeNode::mk_variable(v), UnaryOp::EF), bop.clone()),
            _ => HctlTreeNode::mk_hybrid(HctlTreeNode::mk_unary(phi.clone(), un.clone()), v, None, HybridOp::Jump),
        }
    };
    let names: Vec<&str> = if three { vec!["x", "y", "z"] } else { vec!["x", "y"] };
    let mut t = mk(names[names.len() - 1]);
    if rng.chance(1, 2) {
        t = HctlTreeNode::mk_unary(t, UnaryOp::Not);
    }
    let quants = [HybridOp::Bind, HybridOp::Exists, HybridOp::Forall];
    let glue = [BinaryOp::And, BinaryOp::Or, BinaryOp::Xor, BinaryOp::Imp, BinaryOp::Iff];
    // innermost variable first: Q{z}: ..., then (S(y) op Q{z}: ...), Q{y}: ..., and so on outwards
    for i in (0..names.len()).rev() {
        let d = if !spec.doms.is_empty() && rng.chance(1, 3) { Some(rng.pick(&spec.doms).clone()) } else { None };
        t = HctlTreeNode::mk_hybrid(t, names[i], d, rng.pick(&quants).clone());
        if i > 0 {
            let s_outer = mk(names[i - 1]);
            let op = rng.pick(&glue).clone();
            t = if rng.chance(1, 2) { HctlTreeNode::mk_binary(s_outer, t, op) } else { HctlTreeNode::mk_binary(t, s_outer, op) };
        }
    }
    t
}
