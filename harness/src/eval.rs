//! K7: the evaluator. Exports small networks as explicit Kripke families, runs the public model-checking
//! entry points on generated formulae / batches / context sets, and prints results point-wise.
use crate::common::*;
use crate::gen::*;
use crate::proto::*;
use biodivine_hctl_model_checker::mc_utils::get_extended_symbolic_graph;
use biodivine_hctl_model_checker::model_checking::*;
use biodivine_hctl_model_checker::preprocessing::hctl_tree::HctlTreeNode;
use biodivine_hctl_model_checker::preprocessing::operator_enums::*;
use biodivine_lib_bdd::{Bdd, BddPartialValuation, BddValuation, BddVariable};
use biodivine_lib_param_bn::biodivine_std::traits::Set;
use biodivine_lib_param_bn::symbolic_async_graph::{GraphColoredVertices, SymbolicAsyncGraph};
use biodivine_lib_param_bn::{BooleanNetwork, VariableId};
use std::collections::HashMap;

pub const NETWORKS: &[(&str, &str)] = &[
    ("toggle", "a -| b\nb -| a\n$a: !b\n$b: !a\n"),
    ("osc2", "a -> b\nb -| a\n$a: !b\n$b: a\n"),
    ("implicit2", "a -> b\nb -| a\n"),
    ("free2", "a -?? b\nb -?? a\n"),
    ("d6", "a -> b\nb -| a\na -?? a\n"),
    ("explicit2", "a -> b\nb -> a\n$a: f(b)\n$b: a & g\n"),
    ("obs2", "a -? b\nb -? a\n"),
    ("mono2", "a ->? b\nb -|? a\na ->? a\n"),
    ("one", "a -?? a\n"),
    ("one_act", "a -> a\n"),
    ("rep3", "a -> b\nb -> c\nc -| a\n$a: !c\n$b: a\n$c: b\n"),
    ("rep3p", "a -> b\nb -> c\nc -| a\n$b: a\n$c: b\n"),
    ("mixed3", "a -> b\nb -?? c\nc -| a\na -> a\n$a: a & !c\n$b: a\n"),
    ("shared2", "a -> b\nb -> a\n$a: h(b)\n$b: h(a)\n"),
    // network variables named like the auxiliary BDD variables of the extended encoding ("{var}_extra_{i}")
    ("xtra2", "a_extra_0 -> b_extra_1\nb_extra_1 -?? a_extra_0\n"),
    // isolated steady states (no predecessors), an input-like variable
    ("iso2", "a -> a\na -> b\nb -> b\n$a: a\n$b: a & b\n"),
];

pub struct Xg {
    pub name: String,
    pub bn: BooleanNetwork,
    pub graph: SymbolicAsyncGraph,
    pub k: usize,
    pub n_v: usize,
    pub n_s: usize,
    pub n_c: usize,
    pub params: Vec<BddVariable>,
    pub vars: Vec<VariableId>,
    pub var_names: Vec<String>,
}

impl Xg {
    pub fn new(name: &str, aeon: &str, k: usize) -> Result<Xg, String> {
        let bn = BooleanNetwork::try_from(aeon)?;
        let graph = get_extended_symbolic_graph(&bn, k as u16)?;
        let vars: Vec<VariableId> = graph.variables().collect();
        let params = graph.symbolic_context().parameter_variables().clone();
        let var_names = vars.iter().map(|v| graph.get_variable_name(*v).clone()).collect();
        Ok(Xg {
            name: name.to_string(),
            n_v: vars.len(),
            n_s: 1 << vars.len(),
            n_c: 1 << params.len(),
            params,
            vars,
            var_names,
            bn,
            graph,
            k,
        })
    }

    /// The same network with a NON-UNIFORM number of extra symbolic variables per network variable (every variable gets
    /// at least `k`, some get one or two more).  `get_extended_symbolic_graph` never builds such a graph, but the library
    /// accepts it (`check_hctl_var_support` only asks for enough variables), and code that walks the flat list of extra
    /// variables with a stride goes wrong on it.  For the model this is a graph with `k` variable sets.
    pub fn new_skew(name: &str, aeon: &str, k: usize, rot: usize) -> Result<Xg, String> {
        let bn = BooleanNetwork::try_from(aeon)?;
        let mut counts = std::collections::HashMap::new();
        let n = bn.num_vars();
        for (j, v) in bn.variables().enumerate() {
            // at least one variable keeps exactly k
            let extra = if j == rot % n { 0 } else { 1 + (j + rot) % 2 };
            counts.insert(v, (k + extra) as u16);
        }
        let context = biodivine_lib_param_bn::symbolic_async_graph::SymbolicContext::with_extra_state_variables(&bn, &counts)?;
        let unit = context.mk_constant(true);
        let graph = SymbolicAsyncGraph::with_custom_context(&bn, context, unit)?;
        let vars: Vec<VariableId> = graph.variables().collect();
        let params = graph.symbolic_context().parameter_variables().clone();
        let var_names = vars.iter().map(|v| graph.get_variable_name(*v).clone()).collect();
        Ok(Xg {
            name: format!("{name}~skew{rot}"),
            n_v: vars.len(),
            n_s: 1 << vars.len(),
            n_c: 1 << params.len(),
            params,
            vars,
            var_names,
            bn,
            graph,
            k,
        })
    }

    pub fn num_points(&self) -> usize {
        self.n_s * self.n_c * self.n_s.pow(self.k as u32)
    }

    fn fill(&self, val: &mut BddValuation, s: usize, c: usize, v: &[usize]) {
        let ctx = self.graph.symbolic_context();
        for (j, var) in self.vars.iter().enumerate() {
            val.set_value(ctx.get_state_variable(*var), (s >> j) & 1 == 1);
            for (i, vi) in v.iter().enumerate() {
                val.set_value(ctx.get_extra_state_variable(*var, i), (vi >> j) & 1 == 1);
            }
        }
        for (j, p) in self.params.iter().enumerate() {
            val.set_value(*p, (c >> j) & 1 == 1);
        }
    }

    /// all valuations of the k spare variable sets, first index most significant
    pub fn vals(&self) -> Vec<Vec<usize>> {
        let mut res: Vec<Vec<usize>> = vec![vec![]];
        for _ in 0..self.k {
            let mut next = Vec::new();
            for v in &res {
                for t in 0..self.n_s {
                    let mut w = v.clone();
                    w.push(t);
                    next.push(w);
                }
            }
            res = next;
        }
        res
    }

    /// membership bits of a set of this graph's context over all points (state-major, colour, valuations)
    pub fn bits_of_bdd(&self, bdd: &Bdd) -> String {
        let nvars = self.graph.symbolic_context().bdd_variable_set().num_vars();
        let mut val = BddValuation::all_false(nvars);
        let vals = self.vals();
        let mut out = String::with_capacity(self.num_points());
        for s in 0..self.n_s {
            for c in 0..self.n_c {
                for v in &vals {
                    self.fill(&mut val, s, c, v);
                    out.push(if bdd.eval_in(&val) { '1' } else { '0' });
                }
            }
        }
        out
    }

    pub fn bits(&self, set: &GraphColoredVertices) -> String {
        self.bits_of_bdd(set.as_bdd())
    }

    /// bits over (state, colour) of a sanitised set (canonical context: no extra variables)
    pub fn san_bits(&self, set: &GraphColoredVertices) -> String {
        let canon = self.graph.symbolic_context().as_canonical_context();
        let nvars = canon.bdd_variable_set().num_vars();
        let mut val = BddValuation::all_false(nvars);
        let mut out = String::new();
        let cparams = canon.parameter_variables().clone();
        assert_eq!(cparams.len(), self.params.len());
        if set.as_bdd().num_vars() != nvars {
            return "wrong-context".to_string();
        }
        for s in 0..self.n_s {
            for c in 0..self.n_c {
                for (j, var) in self.vars.iter().enumerate() {
                    val.set_value(canon.get_state_variable(*var), (s >> j) & 1 == 1);
                }
                for (j, p) in cparams.iter().enumerate() {
                    val.set_value(*p, (c >> j) & 1 == 1);
                }
                out.push(if set.as_bdd().eval_in(&val) { '1' } else { '0' });
            }
        }
        out
    }

    /// the transition table of one colour: for every variable j and state s the successor, or -1
    pub fn steps_of_colour(&self, c: usize) -> Vec<i64> {
        let ctx = self.graph.symbolic_context();
        let nvars = ctx.bdd_variable_set().num_vars();
        let mut val = BddValuation::all_false(nvars);
        let zero_v: Vec<usize> = vec![0; self.k];
        let mut step = Vec::new();
        for (j, var) in self.vars.iter().enumerate() {
            let f = self.graph.get_symbolic_fn_update(*var);
            for s in 0..self.n_s {
                self.fill(&mut val, s, c, &zero_v);
                let fv = f.eval_in(&val);
                let cur = (s >> j) & 1 == 1;
                step.push(if fv != cur { (s ^ (1 << j)) as i64 } else { -1 });
            }
        }
        step
    }

    /// the explicit family: `graph nV nS nC k valid step labels`
    pub fn graph_line(&self) -> String {
        let ctx = self.graph.symbolic_context();
        let nvars = ctx.bdd_variable_set().num_vars();
        let mut val = BddValuation::all_false(nvars);
        let unit_colors = self.graph.unit_colors();
        let zero_v: Vec<usize> = vec![0; self.k];
        let mut valid = String::new();
        for c in 0..self.n_c {
            self.fill(&mut val, 0, c, &zero_v);
            valid.push(if unit_colors.as_bdd().eval_in(&val) { '1' } else { '0' });
        }
        let mut step: Vec<String> = Vec::new();
        for c in 0..self.n_c {
            step.extend(self.steps_of_colour(c).iter().map(|x| format!("{x}")));
        }
        let mut labels: Vec<String> = Vec::new();
        for (j, name) in self.var_names.iter().enumerate() {
            let bits: String = (0..self.n_s)
                .map(|s| if (s >> j) & 1 == 1 { '1' } else { '0' })
                .collect();
            labels.push(format!("{}:{}", enc_name(name), bits));
        }
        format!(
            "graph {} {} {} {} {} {} {}",
            self.n_v,
            self.n_s,
            self.n_c,
            self.k,
            valid,
            step.join(","),
            if labels.is_empty() { "-".to_string() } else { labels.join(";") }
        )
    }

    /// a coloured set given by a predicate on (state, colour), intersected with the unit set
    pub fn set_from_pred<F: Fn(usize, usize) -> bool>(&self, f: F) -> GraphColoredVertices {
        let ctx = self.graph.symbolic_context();
        let mut bdd = ctx.mk_constant(false);
        for s in 0..self.n_s {
            for c in 0..self.n_c {
                if !f(s, c) {
                    continue;
                }
                let mut pv = BddPartialValuation::empty();
                for (j, var) in self.vars.iter().enumerate() {
                    pv.set_value(ctx.get_state_variable(*var), (s >> j) & 1 == 1);
                }
                for (j, p) in self.params.iter().enumerate() {
                    pv.set_value(*p, (c >> j) & 1 == 1);
                }
                bdd = bdd.or(&ctx.bdd_variable_set().mk_conjunctive_clause(&pv));
            }
        }
        GraphColoredVertices::new(bdd, ctx).intersect(self.graph.unit_colored_vertices())
    }

    pub fn valid_colours(&self) -> Vec<usize> {
        let nvars = self.graph.symbolic_context().bdd_variable_set().num_vars();
        let mut val = BddValuation::all_false(nvars);
        let zero_v: Vec<usize> = vec![0; self.k];
        let uc = self.graph.unit_colors();
        (0..self.n_c)
            .filter(|c| {
                self.fill(&mut val, 0, *c, &zero_v);
                uc.as_bdd().eval_in(&val)
            })
            .collect()
    }
}

pub fn err_kind(e: &str) -> &'static str {
    if e.contains("quantified several times") {
        "requant"
    } else if e.contains("no network variable") {
        "badprop"
    } else if e.contains("is free") {
        "free"
    } else if e.contains("does not support enough") {
        "support"
    } else if e.contains("lacks evaluation context") {
        "nocontext"
    } else {
        "syntax"
    }
}

pub type Ctx = HashMap<String, GraphColoredVertices>;

/// run one entry-point variant; the answer line as the model prints it
pub fn run_variant(xg: &Xg, variant: &str, formulas: &[String], ctx: &Ctx) -> String {
    let fs: Vec<&str> = formulas.iter().map(|s| s.as_str()).collect();
    let g = &xg.graph;
    let r = guarded(std::panic::AssertUnwindSafe(|| -> Result<Vec<String>, String> {
        match variant {
            "plain_dirty" => Ok(model_check_multiple_formulae_dirty(fs.clone(), g)?.iter().map(|s| xg.bits(s)).collect()),
            "plain_san" => Ok(model_check_multiple_formulae(fs.clone(), g)?.iter().map(|s| xg.san_bits(s)).collect()),
            "ext_dirty" => Ok(model_check_multiple_extended_formulae_dirty(fs.clone(), g, ctx)?
                .iter()
                .map(|s| xg.bits(s))
                .collect()),
            "ext_san" => Ok(model_check_multiple_extended_formulae(fs.clone(), g, ctx)?
                .iter()
                .map(|s| xg.san_bits(s))
                .collect()),
            "unsafe_ex" => Ok(vec![xg.bits(&model_check_formula_unsafe_ex(fs[0], g)?)]),
            _ => Err("bad variant".to_string()),
        }
    }));
    match r {
        Err(_) => "panic".to_string(),
        Ok(Err(e)) => format!("err {}", err_kind(&e)),
        Ok(Ok(v)) => format!("ok {}", v.join(" ")),
    }
}

pub fn eval_req(variant: &str, formulas: &[String]) -> String {
    format!(
        "eval {} {} {}",
        variant,
        formulas.len(),
        formulas.iter().map(|f| enc_chars(f)).collect::<Vec<_>>().join(" ")
    )
}

/// context sets of different kinds for the labels p, q (wild-cards) and d, e (domains)
pub fn rand_ctx(rng: &mut Rng, xg: &Xg, labels: &[&str]) -> Ctx {
    let mut ctx = Ctx::new();
    let valid = xg.valid_colours();
    for l in labels {
        let kind = rng.below(9);
        let seed = rng.next();
        let set = match kind {
            0 => xg.set_from_pred(|_, _| false),
            1 => xg.set_from_pred(|_, _| true),
            2 => xg.set_from_pred(|s, _| (seed >> (s % 60)) & 1 == 1),
            3 => xg.set_from_pred(|s, c| ((seed >> ((s * 7 + c * 3) % 61)) & 1) == 1),
            // empty for some (valid) colours only
            4 => {
                let dead: Vec<usize> = valid.iter().cloned().filter(|c| (seed >> (c % 50)) & 1 == 1).collect();
                xg.set_from_pred(|s, c| !dead.contains(&c) && ((seed >> (10 + (s + c) % 40)) & 1) == 1)
            }
            // a single state, colour independent
            5 => {
                let st = (seed as usize) % xg.n_s;
                xg.set_from_pred(|s, _| s == st)
            }
            // a single (state, colour) pair per colour
            6 => xg.set_from_pred(|s, c| s == ((seed as usize).wrapping_add(c * 5)) % xg.n_s),
            // "network variable j holds": constrains one bit of the state only
            7 => {
                let j = (seed as usize) % xg.n_v.max(1);
                xg.set_from_pred(|s, _| (s >> j) & 1 == 1)
            }
            // one bit of the state, polarity depending on the colour
            _ => {
                let j = (seed as usize) % xg.n_v.max(1);
                xg.set_from_pred(|s, c| ((s >> j) & 1 == 1) == (c % 2 == 0))
            }
        };
        ctx.insert(l.to_string(), set);
    }
    ctx
}

pub fn ctx_lines(xg: &Xg, ctx: &Ctx) -> Vec<String> {
    let mut names: Vec<&String> = ctx.keys().collect();
    names.sort();
    let mut v = vec!["ctxclear".to_string()];
    for n in names {
        v.push(format!("ctx {} {}", enc_name(n), xg.bits(&ctx[n])));
    }
    v
}

pub fn eval_spec(xg: &Xg, ext: bool) -> TreeSpec {
    let s = |x: &str| x.to_string();
    TreeSpec {
        props: xg.var_names.clone(),
        vars: vec![s("x"), s("y"), s("z")],
        wilds: if ext { vec![s("p"), s("q")] } else { vec![] },
        doms: if ext { vec![s("d"), s("e")] } else { vec![] },
        unops: UNOPS.to_vec(),
        binops: BINOPS.to_vec(),
        hybops: HYBOPS.to_vec(),
        consts: true,
    }
}

/// check on the point-wise bits of a dirty result: inside the unit; independent of the spare variables
pub fn check_bits_c03(out: &mut Out, xg: &Xg, unit_bits: &str, bits: &str, what: &str) {
    let ub = unit_bits.as_bytes();
    let b = bits.as_bytes();
    if b.len() != ub.len() {
        return;
    }
    let inside = b.iter().zip(ub.iter()).all(|(x, u)| *x == b'0' || *u == b'1');
    out.oracle(inside, "C03", "result contains a point outside the unit set (invalid colour)", what);
    let nv = xg.n_s.pow(xg.k as u32);
    let mut indep = true;
    for blk in b.chunks(nv) {
        if blk.iter().any(|x| *x != blk[0]) {
            indep = false;
            break;
        }
    }
    out.oracle(indep, "C03", "raw result of a closed formula depends on the spare variables", what);
}

pub fn k7(dir: &str, thorough: bool, seed: u64) {
    let mut out = Out::new(dir, "k7");
    let mut rng = Rng::new(seed ^ 0x77);
    let rounds = if thorough { 40 } else { 3 };
    for round in 0..rounds {
        for (name, aeon) in NETWORKS {
            for k in 0..=3usize {
                // every other (round, k): a graph with a non-uniform number of extra variables per network variable
                let made = if k >= 1 && (round + k) % 2 == 1 { Xg::new_skew(name, aeon, k, round) } else { Xg::new(name, aeon, k) };
                let xg = match made {
                    Ok(x) => x,
                    Err(e) => {
                        if round == 0 && k == 0 {
                            eprintln!("network {name} skipped: {e}");
                        }
                        continue;
                    }
                };
                if xg.num_points() > if thorough { 40_000 } else { 9_000 } {
                    continue;
                }
                out.case(&xg.graph_line(), &format!("graph ok points={} premises=ok", xg.num_points()), true);
                out.count(&format!("net_{name}"));
                // library hypotheses: steady states and attractors as the model defines them
                let steady = biodivine_hctl_model_checker::evaluation::algorithm::compute_steady_states(&xg.graph);
                out.case("steady", &format!("ok {}", xg.bits(&steady)), true);
                let attr = biodivine_hctl_model_checker::evaluation::algorithm::compute_attractor_states(
                    &xg.graph,
                    xg.graph.unit_colored_vertices(),
                );
                out.case("attractors", &format!("ok {}", xg.bits(&attr)), true);
                let unit_bits = xg.bits(xg.graph.unit_colored_vertices());
                let ncases = if thorough { 12 } else { 6 };
                for i in 0..ncases {
                    let ext = i % 2 == 1;
                    let spec = eval_spec(&xg, ext);
                    let nform = 1 + rng.below(3);
                    let mut formulas: Vec<String> = Vec::new();
                    for _ in 0..nform {
                        let size = 1 + rng.below(if k == 0 { 5 } else { 9 });
                        let mut spec2 = spec.clone();
                        // keep the nesting depth around k
                        spec2.vars.truncate((k + rng.below(2)).min(3).max(1));
                        if k == 0 && rng.chance(4, 5) {
                            spec2.hybops.clear();
                        }
                        let t = if k >= 2 && rng.chance(1, 5) {
                            // duplicates over two variables with swapped / shifted roles
                            swapped_duplicates(&mut rng, &spec, k >= 3)
                        } else if k >= 2 && rng.chance(1, 5) {
                            // the same one-variable sub-formula under different depth names (cache hit + renaming)
                            let three = k >= 3 && rng.chance(1, 2);
                            renamed_duplicates(&mut rng, &spec, three)
                        } else {
                            rand_tree(&mut rng, &spec2, size, &mut Vec::new(), true)
                        };
                        formulas.push(t.to_string());
                    }
                    let ctx = if ext { rand_ctx(&mut rng, &xg, &["p", "q", "d", "e"]) } else { Ctx::new() };
                    if ext {
                        for l in ctx_lines(&xg, &ctx) {
                            let imp = if l == "ctxclear" { "ctx cleared" } else { "ctx ok" };
                            out.case(&l, imp, false);
                        }
                    }
                    let variant = match (ext, rng.below(4)) {
                        (false, 0) => "plain_san",
                        (false, _) => "plain_dirty",
                        (true, 0) => "ext_san",
                        (true, _) => "ext_dirty",
                    };
                    let ans = run_variant(&xg, variant, &formulas, &ctx);
                    let kind = ans.split(' ').next().unwrap_or("").to_string();
                    out.count(&format!("{variant}_{}", if kind == "err" { ans.clone() } else { kind.clone() }));
                    let nontrivial = kind == "ok" && ans.contains('1') && ans.contains('0');
                    out.case(&eval_req(variant, &formulas), &ans, nontrivial);
                    if variant.ends_with("dirty") {
                        // the same inputs through the proved-correct cache-free evaluator of the model
                        out.case(&eval_req(&format!("pure_{variant}"), &formulas), &ans, nontrivial);
                    }
                    out.oracle(kind != "panic", "C14", "entry point panicked", &format!("{name} k={k} {variant} {formulas:?}"));
                    if kind == "ok" && variant.ends_with("dirty") {
                        for (bits, f) in ans.split(' ').skip(1).zip(formulas.iter()) {
                            check_bits_c03(&mut out, &xg, &unit_bits, bits, &format!("{name} k={k} {variant} {f}"));
                        }
                    }
                }
                // planted shapes: the witnesses of the repaired cache / domain defects (D1-D5, D10), with domains that are
                // non-empty for disjoint sets of colours, an empty domain, and random wild-card sets
                let valid = xg.valid_colours();
                if k >= 1 && valid.len() >= 1 && (!thorough || round % 4 == 0) {
                    let a0 = xg.var_names[0].clone();
                    let half: Vec<usize> = valid.iter().cloned().filter(|c| (c + round) % 2 == 0).collect();
                    let mut ctx = rand_ctx(&mut rng, &xg, &["p", "q"]);
                    ctx.insert("d".to_string(), xg.set_from_pred(|_, c| half.contains(&c)));
                    ctx.insert("e".to_string(), xg.set_from_pred(|_, c| !half.contains(&c)));
                    ctx.insert("z".to_string(), xg.set_from_pred(|_, _| false));
                    // a proper, colour-independent subset of the states
                    ctx.insert("s".to_string(), xg.set_from_pred(|st, _| st % 2 == 1));
                    for l in ctx_lines(&xg, &ctx) {
                        let imp = if l == "ctxclear" { "ctx cleared" } else { "ctx ok" };
                        out.case(&l, imp, false);
                    }
                    let mut planted: Vec<String> = vec![
                        format!("3{{x}} in %d%: %p%"),
                        format!("3{{x}} in %d%: {a0}"),
                        format!("(!{{x}} in %d%: ~{a0}) | (~{a0})"),
                        format!("(3{{x}} in %z%: {a0}) & (!{{x}}: ({{x}} & %p%)) & (!{{x}}: ({{x}} & %p%))"),
                        format!("(!{{x}} in %d%: @{{x}}: EX ({{x}} & %p%)) & (!{{x}}: EX ({{x}} & %p%))"),
                        format!("(V{{x}} in %e%: %q%) & (3{{x}} in %d%: ({{x}} | %q%))"),
                    ];
                    if k >= 2 {
                        planted.push(format!("!{{x}} in %d%: !{{y}} in %e%: {a0}"));
                        planted.push(format!("3{{x}} in %d%: (V{{y}} in %e%: ({{x}} & {{y}}))"));
                        planted.push(format!("(V{{x}}: {a0}) & (3{{x}} in %d%: (V{{y}}: {a0}))"));
                        planted.push(format!("3{{x}} in %d%: (!{{y}}: AX {{y}})"));
                        planted.push(format!("!{{x}} in %e%: 3{{y}} in %d%: (@{{y}}: EF {{x}})"));
                        // the shortcut patterns evaluated first inside a foreign restricted scope, then outside it
                        planted.push(format!("(3{{x}} in %s%: @{{x}}: (!{{y}}: AG EF {{y}})) | (3{{x}}: @{{x}}: (~%s% & (!{{y}}: AG EF {{y}})))"));
                        planted.push(format!("(3{{x}} in %d%: @{{x}}: (!{{y}}: AX {{y}})) | ~(!{{x}}: AX {{x}})"));
                        // near misses of the shortcut patterns (the inner variable is not the bound one)
                        planted.push(format!("3{{x}}: !{{y}}: AX {{x}}"));
                        planted.push(format!("V{{x}}: !{{y}}: AG EF {{x}}"));
                        planted.push(format!("3{{x}}: @{{x}}: (!{{y}}: (AX {{x}} & AG EF {{x}}))"));
                    }
                    let mut batches: Vec<Vec<String>> = planted.iter().map(|f| vec![f.clone()]).collect();
                    batches.push(planted.clone());
                    if k >= 2 {
                        for pat in ["AG EF", "AX"] {
                            for dom in ["s", "d"] {
                                batches.push(vec![
                                    format!("3{{x}} in %{dom}%: @{{x}}: (!{{y}}: {pat} {{y}})"),
                                    format!("~(!{{x}}: {pat} {{x}})"),
                                    format!("!{{x}}: {pat} {{x}}"),
                                ]);
                            }
                        }
                    }
                    // scope interplay: the same sub-formula (patterns, wild-cards, one-variable and closed formulae) evaluated
                    // in two different quantifier / domain contexts, in both orders, in one formula and across a batch
                    if k >= 2 {
                        let subs: Vec<String> = vec![
                            format!("(!{{y}}: AG EF {{y}})"), format!("(!{{y}}: AX {{y}})"), format!("%p%"), format!("(EX {a0})"),
                            format!("({{x}} & %q%)"), format!("(AF {{x}})"), format!("(!{{y}}: ({{y}} & EX {{x}}))"), format!("(~{a0} EU %p%)"),
                        ];
                        let ctxs: Vec<(&str, &str)> = vec![
                            ("(3{x}: @{x}: ", ")"), ("(3{x} in %s%: @{x}: ", ")"), ("(!{x} in %d%: ", ")"), ("(V{x} in %e%: ", ")"),
                            ("(3{x} in %z%: ", ")"), ("(!{x}: ", ")"),
                        ];
                        let n_pairs = if thorough { 16 } else { 6 };
                        for _ in 0..n_pairs {
                            let g = rng.pick(&subs).clone();
                            let (a1, b1) = ctxs[rng.below(ctxs.len())];
                            let (a2, b2) = ctxs[rng.below(ctxs.len())];
                            let f1 = format!("{a1}{g}{b1}");
                            let f2 = format!("{a2}{g}{b2}");
                            if rng.below(2) == 0 {
                                batches.push(vec![f1, f2]);
                            } else {
                                let op = ["&", "|", "EU", "=>"][rng.below(4)];
                                batches.push(vec![format!("({f1} {op} {f2})")]);
                            }
                        }
                    }
                    for formulas in batches {
                        let variant = "ext_dirty";
                        let ans = run_variant(&xg, variant, &formulas, &ctx);
                        let kind = ans.split(' ').next().unwrap_or("").to_string();
                        out.count(&format!("planted_{}", if kind == "err" { ans.clone() } else { kind.clone() }));
                        let nontrivial = kind == "ok" && ans.contains('1') && ans.contains('0');
                        out.case(&eval_req(variant, &formulas), &ans, nontrivial);
                        out.case(&eval_req(&format!("pure_{variant}"), &formulas), &ans, nontrivial);
                        out.oracle(kind != "panic", "C14", "entry point panicked", &format!("{name} k={k} {variant} {formulas:?}"));
                        for pid in ["C01", "C02", "C04"] {
                            out.oracle(kind != "panic", pid, "entry point panicked on a planted formula", &format!("{name} k={k} {formulas:?}"));
                        }
                        if kind == "ok" {
                            for (bits, f) in ans.split(' ').skip(1).zip(formulas.iter()) {
                                check_bits_c03(&mut out, &xg, &unit_bits, bits, &format!("{name} k={k} {variant} {f}"));
                            }
                        }
                    }
                }
            }
        }
    }
    out.finish();
}
