//! K8 (archives), K9 (command-line tool), K10 (aeon→bnet converter) and the oracles of C16, C17, C19.
use crate::common::*;
use crate::eval::*;
use crate::gen::*;
use crate::proto::*;
use biodivine_hctl_model_checker::generate_output::{build_initial_archive, build_result_archive};
use biodivine_hctl_model_checker::load_inputs::{load_bdd_bundle, load_formulae};
use biodivine_hctl_model_checker::mc_utils::{collect_unique_hctl_vars, get_extended_symbolic_graph};
use biodivine_hctl_model_checker::model_checking::*;
use biodivine_hctl_model_checker::preprocessing::parser::parse_and_minimize_extended_formula;
use biodivine_lib_param_bn::biodivine_std::traits::Set;
use biodivine_lib_param_bn::symbolic_async_graph::GraphColoredVertices;
use biodivine_lib_param_bn::{BinaryOp as BnOp, BooleanNetwork, FnUpdate, VariableId};
use std::collections::{BTreeMap, BTreeSet, HashMap};
use std::io::Read;
use std::process::{Command, Stdio};

fn s(x: &str) -> String {
    x.to_string()
}

/// a binary built next to `hv` (the two binaries of /repo are built into the same target directory)
fn sibling_bin(name: &str) -> String {
    let mut p = std::env::current_exe().unwrap();
    p.pop();
    p.push(name);
    p.to_string_lossy().to_string()
}

fn scratch(dir: &str, name: &str) -> String {
    let d = format!("{dir}/scratch");
    std::fs::create_dir_all(&d).unwrap();
    format!("{d}/{name}")
}

fn zip_entries(path: &str) -> Vec<(String, String)> {
    let f = std::fs::File::open(path).unwrap();
    let mut ar = zip::ZipArchive::new(f).unwrap();
    let names: Vec<String> = ar.file_names().map(|x| x.to_string()).collect();
    let mut v = Vec::new();
    for n in names {
        let mut c = String::new();
        ar.by_name(&n).unwrap().read_to_string(&mut c).unwrap();
        v.push((n, c));
    }
    v
}

/// a list of names for the archive requests: `=` is the empty list (so that the list holding only the empty name, `-`, is
/// not mistaken for it)
fn join_enc0(xs: &[String]) -> String {
    if xs.is_empty() {
        "=".to_string()
    } else {
        xs.iter().map(|x| enc_name(x)).collect::<Vec<_>>().join(",")
    }
}

fn join_enc(xs: &[String]) -> String {
    if xs.is_empty() {
        "-".to_string()
    } else {
        xs.iter().map(|x| enc_name(x)).collect::<Vec<_>>().join(",")
    }
}

// ---------------------------------------------------------------------------------------------------
pub fn k8(dir: &str, thorough: bool, seed: u64) {
    let mut out = Out::new(dir, "k8");
    let mut rng = Rng::new(seed ^ 0x88);
    let n = if thorough { 400 } else { 40 };
    // flat labels, labels that look like the archive's own entries, and NESTED labels (entries in a sub-directory), two of
    // them with the same last component
    let label_pool = ["s1", "a.b", "9x-y", "full", "formula-0", "formula-1", "X", "model", "formulae.txt", "d_1", "é", "a.bdd", ".x",
        "formulae", "Apoptosis", "attr", "backup/attr", "grp/only", "x/y/z", "grp/.h",
        // the empty label and a label ending in '/': their entries are `.bdd` and `grp/.bdd`
        "", "grp/"];
    let formats = ["aeon", "bnet", "sbml"];
    for i in 0..n {
        let (name, aeon) = NETWORKS[rng.below(NETWORKS.len())];
        let k = rng.below(3);
        let Ok(xg) = Xg::new(name, aeon, k) else { continue };
        if xg.num_points() > 9000 {
            continue;
        }
        // the network through any supported input format (bnet cannot express parameters; sbml can)
        let fmt = formats[i % 3];
        let model_str = match fmt {
            "bnet" => match xg.bn.to_bnet(false) {
                Ok(t) => match BooleanNetwork::try_from_bnet(&t) {
                    Ok(b) => b.to_string(),
                    Err(_) => xg.bn.to_string(),
                },
                Err(_) => xg.bn.to_string(),
            },
            "sbml" => {
                let t = xg.bn.to_sbml(None);
                match BooleanNetwork::try_from_sbml(&t) {
                    Ok((b, _)) => b.to_string(),
                    Err(_) => xg.bn.to_string(),
                }
            }
            _ => xg.bn.to_string(),
        };
        out.count(&format!("format_{fmt}"));
        // label -> set map
        let nl = 1 + rng.below(4);
        let mut labels: Vec<String> = Vec::new();
        while labels.len() < nl {
            let l = s(*rng.pick(&label_pool));
            if !labels.contains(&l) {
                labels.push(l);
            }
        }
        let ctx = rand_ctx(&mut rng, &xg, &labels.iter().map(|x| x.as_str()).collect::<Vec<_>>());
        let nf = rng.below(4);
        let formulae: Vec<String> = (0..nf)
            .map(|_| {
                let spec = eval_spec(&xg, true);
                let sz = 1 + rng_size(&mut rng);
                rand_tree(&mut rng, &spec, sz, &mut Vec::new(), true).to_string()
            })
            .collect();
        // a formula given as a multi-line string (a line break is white space for the parser): it has to be archived on one line
        let formulae: Vec<String> = formulae
            .into_iter()
            .map(|f| match rng.below(4) {
                0 => f.replacen(' ', "\n", 1),
                1 => f.replacen(' ', "\r\n  ", 1),
                _ => f,
            })
            .collect();
        let path = scratch(dir, &format!("a{i}.zip"));
        let wrote = build_result_archive(ctx.clone(), &path, &model_str, formulae.clone());
        out.oracle(wrote.is_ok(), "C16", "build_result_archive failed", &format!("{labels:?}"));
        if wrote.is_err() {
            continue;
        }
        let entries = zip_entries(&path);
        let mut names: Vec<String> = entries.iter().map(|(n, _)| n.clone()).collect();
        names.sort();
        let ftxt = entries.iter().find(|(n, _)| n == "formulae.txt").map(|(_, c)| c.clone()).unwrap_or_default();
        // model: entry names and formulae.txt content
        let imp = format!("set {} ; F {}", names.iter().map(|x| enc_name(x)).collect::<Vec<_>>().join(" "), enc_name(&ftxt));
        out.case(&format!("archnames {} {}", join_enc0(&labels), join_enc0(&formulae)), &imp, true);
        // model: which labels come back
        let graph2 = {
            let mtxt = entries.iter().find(|(n, _)| n == "model.aeon").map(|(_, c)| c.clone()).unwrap_or_default();
            let bn2 = BooleanNetwork::try_from(mtxt.as_str());
            out.oracle(bn2.is_ok(), "C16", "archived model.aeon does not parse", &model_str);
            match bn2 {
                Ok(b) => get_extended_symbolic_graph(&b, k as u16).ok(),
                Err(_) => None,
            }
        };
        let Some(graph2) = graph2 else { continue };
        let loaded = guarded(std::panic::AssertUnwindSafe(|| load_bdd_bundle(&path, graph2.symbolic_context())));
        let Ok(Ok(loaded)) = loaded else {
            out.oracle(false, "C16", "load_bdd_bundle failed or panicked on an archive written by the library", &format!("{labels:?}"));
            continue;
        };
        let mut got: Vec<String> = loaded.keys().cloned().collect();
        got.sort();
        out.case(
            &format!("archload {}", join_enc0(&names)),
            &format!("set {}", got.iter().map(|x| enc_name(x)).collect::<Vec<_>>().join(" ")),
            true,
        );
        // C16 oracle: same labels (for labels a formula could carry), equal sets, entry i = line i
        for l in &labels {
            let reloadable = !l.is_empty() && !l.ends_with('/');
            if !reloadable {
                continue;
            }
            match loaded.get(l) {
                None => out.oracle(false, "C16", "a written set is missing after reloading", &format!("label `{l}` of {labels:?}")),
                Some(set) => {
                    // rebuilt context: compare as BDD strings in the original context's variable order
                    let same = set.as_bdd().to_string() == ctx[l].as_bdd().to_string();
                    out.oracle(same, "C16", "a reloaded set differs from the set written", &format!("label `{l}` network {name} format {fmt}"));
                    // reloaded sets as wild-card context have the same effect as the in-memory sets
                    if l.chars().all(|c| c.is_alphanumeric() || c == '_') {
                        let f = format!("EF %{l}% | (3{{x}} in %{l}%: @{{x}}: AX {{x}})");
                        let f = if k == 0 { format!("EF %{l}%") } else { f };
                        let a = model_check_extended_formula_dirty(&f, &xg.graph, &ctx);
                        let b = model_check_extended_formula_dirty(&f, &graph2, &loaded);
                        let eq = match (a, b) {
                            (Ok(x), Ok(y)) => x.as_bdd().to_string() == y.as_bdd().to_string(),
                            (Err(_), Err(_)) => true,
                            _ => false,
                        };
                        out.oracle(eq, "C16", "reloaded set used as context behaves differently from the in-memory set", &format!("{name} `{l}` {f}"));
                    }
                }
            }
        }
        out.oracle(got.iter().all(|g| labels.contains(g)), "C16", "reloading invents a set that was not written", &format!("{got:?} vs {labels:?}"));
        let lines: Vec<String> = ftxt.lines().map(|x| x.to_string()).collect();
        // line i is formula i, up to the white space of a formula given as a multi-line string (it must still be ONE line,
        // and the same token sequence)
        let same_formula = |line: &String, f: &String| -> bool { line.split_whitespace().collect::<Vec<_>>() == f.split_whitespace().collect::<Vec<_>>() };
        out.oracle(lines.len() == formulae.len() && lines.iter().zip(formulae.iter()).all(|(l, f)| same_formula(l, f)), "C16",
            "line i of formulae.txt is not formula i", &format!("{formulae:?} archived as {lines:?}"));
        // the symbolic context of the re-parsed model equals the original one
        out.oracle(
            graph2.symbolic_context().bdd_variable_set().to_string() == xg.graph.symbolic_context().bdd_variable_set().to_string(),
            "C16",
            "symbolic context rebuilt from the archived model differs",
            &format!("{name} {fmt}"),
        );
        // initial archive: model and formulae only
        let p2 = scratch(dir, &format!("i{i}.zip"));
        if build_initial_archive(&p2, &model_str, formulae.clone()).is_ok() {
            let e2 = zip_entries(&p2);
            let mut n2: Vec<String> = e2.iter().map(|(n, _)| n.clone()).collect();
            n2.sort();
            out.oracle(n2 == vec![s("formulae.txt"), s("model.aeon")], "C16", "initial archive has unexpected entries", &format!("{n2:?}"));
        }
        let _ = std::fs::remove_file(&path);
        let _ = std::fs::remove_file(&p2);
    }
    // archives written by the library's own analysis routine (`analyse_formulae`, the body of the command-line tool): one
    // entry per formula LINE — also when consecutive lines are equal or preprocess to the same tree — and entry i is the set
    // of line i
    let nr = if thorough { 60 } else { 8 };
    for i in 0..nr {
        let (name, aeon) = NETWORKS[rng.below(NETWORKS.len())];
        let Ok(xg0) = Xg::new(name, aeon, 2) else { continue };
        if xg0.n_v > 3 {
            continue;
        }
        let a0 = xg0.var_names[0].clone();
        let mut formulae: Vec<String> = Vec::new();
        for _ in 0..(1 + rng.below(2)) {
            let mut spec = eval_spec(&xg0, false);
            spec.vars.truncate(2);
            let sz = 2 + rng.below(5);
            let t = rand_tree(&mut rng, &spec, sz, &mut Vec::new(), true);
            if biodivine_hctl_model_checker::preprocessing::parser::parse_and_minimize_hctl_formula(xg0.graph.symbolic_context(), &t.to_string()).is_ok() {
                formulae.push(t.to_string());
            }
        }
        formulae.push(format!("!{{x}}: AX ({{x}} | {a0})"));
        match i % 3 {
            0 => formulae.push(format!("!{{x}}: AX ({{x}} | {a0})")),
            1 => formulae.push(format!("\\bind {{y}}:  (AX ({{y}} | {a0}))")),
            _ => {}
        }
        formulae.push(format!("EF {a0}"));
        let zpath = scratch(dir, &format!("an{i}.zip"));
        let r = guarded(std::panic::AssertUnwindSafe(|| {
            biodivine_hctl_model_checker::analysis::analyse_formulae(&xg0.bn, formulae.clone(), biodivine_hctl_model_checker::result_print::PrintOptions::NoPrint, Some(zpath.clone()), None)
        }));
        out.count("analyse_archive");
        if !matches!(r, Ok(Ok(()))) {
            out.oracle(false, "C16", "analyse_formulae failed on valid formulae", &format!("{name} {formulae:?}"));
            continue;
        }
        let entries = zip_entries(&zpath);
        let bdds = entries.iter().filter(|(n, _)| n.ends_with(".bdd")).count();
        out.oracle(bdds == formulae.len(), "C16", "archive of analyse_formulae does not have one entry per formula", &format!("{name} {formulae:?}: {bdds} entries"));
        let ftxt = entries.iter().find(|(n, _)| n == "formulae.txt").map(|(_, c)| c.clone()).unwrap_or_default();
        let lines: Vec<String> = ftxt.lines().map(|x| x.to_string()).collect();
        out.oracle(lines == formulae, "C16", "formulae.txt of analyse_formulae is not the formula list", &format!("{formulae:?} vs {lines:?}"));
        // the graph the routine used: as many variable sets as the deepest formula needs
        let fs: Vec<&str> = formulae.iter().map(|x| x.as_str()).collect();
        let kmax = fs
            .iter()
            .filter_map(|f| biodivine_hctl_model_checker::preprocessing::parser::parse_and_minimize_hctl_formula(xg0.graph.symbolic_context(), f).ok())
            .map(|t| crate::front::quant_depth(&t))
            .max()
            .unwrap_or(0);
        let Ok(xg) = Xg::new(name, aeon, kmax) else { continue };
        if let (Ok(loaded), Ok(expect)) = (load_bdd_bundle(&zpath, xg.graph.symbolic_context()), model_check_multiple_formulae_dirty(fs.clone(), &xg.graph)) {
            for (j, e) in expect.iter().enumerate() {
                let same = loaded.get(&format!("formula-{j}")).map(|x| x == e).unwrap_or(false);
                out.oracle(same, "C16", "entry formula-i of the archive of analyse_formulae is not the set of line i", &format!("{name} {formulae:?} i={j}"));
            }
        } else {
            out.oracle(false, "C16", "archive of analyse_formulae cannot be reloaded", &format!("{name} {formulae:?}"));
        }
        let _ = std::fs::remove_file(&zpath);
    }
    out.finish();
}

fn rng_size(rng: &mut Rng) -> usize {
    rng.below(6)
}

// ---------------------------------------------------------------------------------------------------
fn run_cli(bin: &str, args: &[&str]) -> (String, String, Option<i32>) {
    let o = Command::new(bin).args(args).stdin(Stdio::null()).output();
    match o {
        Ok(o) => (
            String::from_utf8_lossy(&o.stdout).to_string(),
            String::from_utf8_lossy(&o.stderr).to_string(),
            o.status.code(),
        ),
        Err(e) => (String::new(), format!("spawn failed: {e}"), None),
    }
}

fn strip_ansi(x: &str) -> String {
    let mut out = String::new();
    let mut it = x.chars().peekable();
    while let Some(c) = it.next() {
        if c == '\u{1b}' {
            while let Some(d) = it.next() {
                if d.is_ascii_alphabetic() {
                    break;
                }
            }
        } else {
            out.push(c);
        }
    }
    out
}

/// What the tool printed about its results, read tolerantly (the wording of the lines is not part of any property):
/// a line that starts with a number and mentions results / colours / states contributes that number; in exhaustive mode a
/// line made of `n_v` literals `name` / `~name` joined by `&` is a listed state.  One entry per formula, in print order.
pub struct Printed {
    pub counts: Vec<[String; 3]>,
    pub states: Vec<Vec<usize>>,
}

pub fn parse_printed(clean: &str, n_v: usize) -> Printed {
    let mut counts: Vec<[String; 3]> = Vec::new();
    let mut states: Vec<Vec<usize>> = Vec::new();
    for l in clean.lines() {
        let t = l.trim();
        let first = t.split_whitespace().next().unwrap_or("");
        let is_num = !first.is_empty() && first.chars().all(|c| c.is_ascii_digit() || c == '.' || c == 'e' || c == '+') && first.chars().next().unwrap().is_ascii_digit();
        let low = t.to_lowercase();
        if is_num && low.contains("result") {
            counts.push([first.to_string(), s("?"), s("?")]);
            states.push(Vec::new());
        } else if is_num && (low.contains("color") || low.contains("colour")) {
            if let Some(c) = counts.last_mut() {
                c[1] = first.to_string();
            }
        } else if is_num && low.contains("state") {
            if let Some(c) = counts.last_mut() {
                c[2] = first.to_string();
            }
        } else if t.contains('&') && !counts.is_empty() {
            let lits: Vec<&str> = t.split('&').map(|x| x.trim()).filter(|x| !x.is_empty()).collect();
            let ok = lits.len() == n_v
                && lits.iter().all(|x| {
                    let y = x.strip_prefix('~').unwrap_or(x);
                    !y.is_empty() && y.chars().all(|c| c.is_alphanumeric() || c == '_')
                });
            if ok {
                let mut st = 0usize;
                for (j, lit) in lits.iter().enumerate() {
                    if !lit.starts_with('~') {
                        st |= 1 << j;
                    }
                }
                states.last_mut().unwrap().push(st);
            }
        }
    }
    for v in states.iter_mut() {
        v.sort();
    }
    Printed { counts, states }
}

pub fn k9(dir: &str, thorough: bool, seed: u64) {
    let mut out = Out::new(dir, "k9");
    let mut rng = Rng::new(seed ^ 0x99);
    let bin = std::env::var("HV_CLI_BIN").unwrap_or_else(|_| sibling_bin("hctl-model-checker"));
    // the loader against the model: layouts with comments, blanks, CRLF, surrounding blanks, '#' after spaces
    let pieces = ["a & b", "  EF a  ", "# comment", "", "   ", "\t# indented comment", "!{x}: AX {x}", "a #not a comment", "#", "\u{a0}b\u{a0}", "AG (a | b)\r"];
    let nl = if thorough { 400 } else { 60 };
    for i in 0..nl {
        let k = 1 + rng.below(6);
        let mut text = String::new();
        for j in 0..k {
            let piece: &str = pieces[rng.below(pieces.len())];
            text.push_str(piece);
            if j + 1 < k || rng.chance(1, 2) {
                text.push_str(if rng.chance(1, 4) { "\r\n" } else { "\n" });
            }
        }
        let p = scratch(dir, &format!("f{i}.txt"));
        std::fs::write(&p, &text).unwrap();
        let got = load_formulae(&p).unwrap_or_default();
        out.case(
            &format!("loadf {}", enc_chars(&text)),
            &format!("{} {}", got.len(), got.iter().map(|x| enc_name(x)).collect::<Vec<_>>().join(" ")),
            !got.is_empty(),
        );
        out.count(&format!("loader_lines_{}", got.len().min(5)));
        let _ = std::fs::remove_file(&p);
    }
    out.oracle(load_formulae("/nonexistent/file.txt").is_err(), "C17", "load_formulae on an unreadable file is not an error", "");
    if !std::path::Path::new(&bin).exists() {
        out.oracle(false, "C17", "the command-line binary was not built", &bin);
        out.finish();
        return;
    }
    // process runs
    let runs = if thorough { 120 } else { 14 };
    let opts = ["no-print", "summary", "with-progress", "exhaustive"];
    for i in 0..runs {
        let (name, aeon) = NETWORKS[rng.below(NETWORKS.len())];
        let Ok(bn) = BooleanNetwork::try_from(aeon) else { continue };
        let fmt = ["aeon", "bnet", "sbml"][i % 3];
        let (mpath, bn_used) = match fmt {
            "bnet" => match bn.to_bnet(false) {
                Ok(t) => {
                    let p = scratch(dir, &format!("m{i}.bnet"));
                    std::fs::write(&p, &t).unwrap();
                    (p, BooleanNetwork::try_from_bnet(&t).unwrap())
                }
                Err(_) => {
                    let p = scratch(dir, &format!("m{i}.aeon"));
                    std::fs::write(&p, bn.to_string()).unwrap();
                    (p, bn.clone())
                }
            },
            "sbml" => {
                let t = bn.to_sbml(None);
                let p = scratch(dir, &format!("m{i}.sbml"));
                std::fs::write(&p, &t).unwrap();
                (p, BooleanNetwork::try_from_sbml(&t).unwrap().0)
            }
            _ => {
                let p = scratch(dir, &format!("m{i}.aeon"));
                std::fs::write(&p, bn.to_string()).unwrap();
                (p, bn.clone())
            }
        };
        if bn_used.num_vars() > 3 {
            continue;
        }
        let names: Vec<String> = bn_used.variables().map(|v| bn_used.get_variable_name(v).clone()).collect();
        let use_ctx = (i / 4) % 2 == 1;
        // formulae (some with nesting, some sharing sub-formulae)
        let xg0 = Xg::new(name, &bn_used.to_string(), 2).unwrap();
        let nf = 1 + rng.below(3);
        let mut formulas: Vec<String> = Vec::new();
        for _ in 0..nf {
            let mut spec = eval_spec(&xg0, use_ctx);
            spec.props = names.clone();
            spec.vars.truncate(2);
            let sz = 2 + rng.below(7);
            let t = rand_tree(&mut rng, &spec, sz, &mut Vec::new(), true);
            if parse_and_minimize_extended_formula(xg0.graph.symbolic_context(), &t.to_string()).is_ok() {
                formulas.push(t.to_string());
            }
        }
        if formulas.is_empty() {
            formulas.push(s("true"));
        }
        // planted: sibling scopes of different nesting depth (the shallow one first), so that the number of variable sets the
        // tool allocates must come from the deepest scope
        if i % 3 == 0 && !use_ctx {
            let a0 = names[0].clone();
            formulas.push(format!("(!{{x}}: AX {{x}}) & (!{{x}}: 3{{y}}: (@{{y}}: (~{{x}} & EF ({{x}} | {a0}))))"));
        }
        // planted: a file that contains weak until (and EF/AG/EU) but none of EX, AX, AF, EG, AU — the steady states still
        // matter for EW (a tool that computes them only "when needed" must not forget it)
        if (i % 5 == 2 || i % 5 == 0) && !use_ctx {
            let n0 = names[0].clone();
            let n1 = if names.len() > 1 { names[1].clone() } else { s("false") };
            formulas = vec![
                format!("{n0} EW {n1}"),
                format!("(~{n0}) EW ({n1} & {n0})"),
                format!("true EW false"),
                format!("EF ({n0} AW {n1})"),
            ];
        }
        // planted: the same formula on two consecutive lines, and two consecutive lines that preprocess to the same tree
        // (renamed variable, long spelling): every line must still get its own entry `formula-i`
        if i % 2 == 0 {
            let last = formulas[formulas.len() - 1].clone();
            formulas.push(last);
        }
        if i % 4 == 1 && i % 5 != 2 && i % 5 != 0 {
            formulas.push(s("!{x}: AX {x}"));
            formulas.push(s("\\bind {y}:  (AX {y})"));
            formulas.push(format!("EF {}", names[0]));
        }
        // file layout with comments / blanks / surrounding whitespace
        let mut ftext = String::from("# generated\n\n");
        for f in &formulas {
            ftext.push_str(&format!("  {f}\t\n# c\n\n"));
        }
        let fpath = scratch(dir, &format!("q{i}.txt"));
        std::fs::write(&fpath, &ftext).unwrap();
        // the graph the tool will build: as many variable sets as the deepest formula needs
        let trees: Vec<_> = formulas
            .iter()
            .map(|f| parse_and_minimize_extended_formula(xg0.graph.symbolic_context(), f).unwrap())
            .collect();
        // the nesting depth is computed by the harness itself (not with the library's collector)
        let kmax = trees.iter().map(|t| crate::front::quant_depth(t)).max().unwrap_or(0);
        let Ok(xg) = Xg::new(name, &bn_used.to_string(), kmax) else { continue };
        let ctx = if use_ctx { rand_ctx(&mut rng, &xg, &["p", "q", "d", "e"]) } else { Ctx::new() };
        let cpath = scratch(dir, &format!("c{i}.zip"));
        if use_ctx {
            build_result_archive(ctx.clone(), &cpath, &bn_used.to_string(), vec![]).unwrap();
        }
        let opath = scratch(dir, &format!("o{i}.zip"));
        let opt = opts[i % 4];
        let mut args: Vec<&str> = vec![&mpath, &fpath, "-o", &opath, "-p", opt];
        if use_ctx {
            args.push("-e");
            args.push(&cpath);
        }
        let (stdout, stderr, code) = run_cli(&bin, &args);
        out.count(&format!("cli_{opt}_{fmt}{}", if use_ctx { "_ctx" } else { "" }));
        let what = format!("{name} {fmt} {opt} ctx={use_ctx} {formulas:?}");
        out.oracle(code == Some(0) && !stderr.contains("panicked"), "C17", "the tool crashed on valid input", &format!("{what} :: {stderr}"));
        // library results on the same graph
        let fs: Vec<&str> = formulas.iter().map(|x| x.as_str()).collect();
        let lib = guarded(std::panic::AssertUnwindSafe(|| {
            if use_ctx {
                model_check_multiple_extended_formulae_dirty(fs.clone(), &xg.graph, &ctx)
            } else {
                model_check_multiple_formulae_dirty(fs.clone(), &xg.graph)
            }
        }));
        let Ok(Ok(lib)) = lib else {
            out.oracle(false, "C17", "library failed where the tool was expected to work", &what);
            continue;
        };
        // archived sets
        let loaded = guarded(std::panic::AssertUnwindSafe(|| load_bdd_bundle(&opath, xg.graph.symbolic_context())));
        // the same files through the MODEL of the tool (`Cli.analyse`, proved equal to the model's library entry points):
        // the sets the tool archived, in order, and the trees it printed are the model's
        {
            out.case(&xg.graph_line(), &format!("graph ok points={} premises=ok", xg.num_points()), true);
            for l in ctx_lines(&xg, &ctx) {
                let imp = if l == "ctxclear" { "ctx cleared" } else { "ctx ok" };
                out.case(&l, imp, false);
            }
            let clean = strip_ansi(&stdout);
            let expected = match &loaded {
                Ok(Ok(m)) => {
                    let sets: Vec<String> = (0..m.len())
                        .map(|j| m.get(&format!("formula-{j}")).map(|x| xg.bits(x)).unwrap_or_else(|| s("missing")))
                        .collect();
                    // the preprocessed trees: the library's own preprocessing (how, or whether, the tool prints them is not part
                    // of the property; the sets, their order and the number of variable sets are)
                    let trees_txt: Vec<String> = trees.iter().map(|t| t.to_string()).collect();
                    format!("ok k={} trees={} {}", kmax, trees_txt.iter().map(|t| enc_name(t)).collect::<Vec<_>>().join(";"), sets.join(" "))
                }
                _ => format!("msg {}", err_kind(clean.lines().last().unwrap_or(""))),
            };
            out.count("cli_model");
            out.case(&format!("cli {} {}", if use_ctx { 1 } else { 0 }, enc_chars(&ftext)), &expected, true);
            // what the tool printed per formula (counts; in exhaustive mode also the listed states) against the model
            if opt != "no-print" && matches!(&loaded, Ok(Ok(_))) {
                let pr = parse_printed(&clean, xg.n_v);
                let per_formula: Vec<String> = pr
                    .counts
                    .iter()
                    .zip(pr.states.iter())
                    .map(|(c, st)| {
                        let mut item = format!("{}/{}/{}", c[0], c[1], c[2]);
                        if opt == "exhaustive" {
                            item.push(':');
                            item.push_str(&st.iter().map(|x| x.to_string()).collect::<Vec<_>>().join("."));
                        }
                        item
                    })
                    .collect();
                let mode = if opt == "exhaustive" { "full" } else { "counts" };
                out.count(&format!("cli_model_print_{mode}"));
                out.case(
                    &format!("cliprint {} {mode} {}", if use_ctx { 1 } else { 0 }, enc_chars(&ftext)),
                    &format!("ok {}", per_formula.join(" ")),
                    true,
                );
            }
        }
        match loaded {
            Ok(Ok(m)) => {
                for (j, r) in lib.iter().enumerate() {
                    let same = m.get(&format!("formula-{j}")).map(|x| x.as_bdd().to_string() == r.as_bdd().to_string()).unwrap_or(false);
                    out.oracle(same, "C17", "archived set differs from the library result (or wrong order)", &format!("{what} position {j}"));
                }
                out.oracle(m.len() == lib.len(), "C17", "number of archived sets differs from the number of formulae", &what);
            }
            _ => out.oracle(false, "C17", "result archive of the tool cannot be loaded", &what),
        }
        // printed counts
        let clean = strip_ansi(&stdout);
        if opt == "no-print" {
            out.oracle(clean.trim().is_empty(), "C17", "no-print prints something", &what);
        } else {
            let pr = parse_printed(&clean, xg.n_v);
            out.oracle(pr.counts.len() == lib.len(), "C17", "number of printed results differs from the number of formulae", &format!("{what} printed={}", pr.counts.len()));
            // when the tool echoes the formulae, it echoes them in file order
            let echoed: Vec<&str> = clean.lines().filter_map(|l| l.strip_prefix("Formula: ")).collect();
            if !echoed.is_empty() {
                out.oracle(echoed == formulas.iter().map(|x| x.as_str()).collect::<Vec<_>>(), "C17", "formulae are not evaluated in file order", &what);
            }
            for (idx, r) in lib.iter().enumerate() {
                let Some(got) = pr.counts.get(idx) else { break };
                let want = [
                    format!("{}", r.approx_cardinality()),
                    format!("{}", r.colors().approx_cardinality()),
                    format!("{}", r.vertices().approx_cardinality()),
                ];
                out.oracle(*got == want, "C17", "printed counts differ from the library", &format!("{what} :: {got:?} vs {want:?}"));
                if opt == "exhaustive" {
                    // listed states = vertices of the library result
                    let proj = xg.bits(r);
                    let per = xg.n_c * xg.n_s.pow(xg.k as u32);
                    let want_states: Vec<usize> = (0..xg.n_s)
                        .filter(|st| proj.as_bytes()[st * per..(st + 1) * per].iter().any(|b| *b == b'1'))
                        .collect();
                    out.oracle(pr.states[idx] == want_states, "C17", "states listed in exhaustive mode differ from the library result", &format!("{what} :: {:?} vs {want_states:?}", pr.states[idx]));
                }
            }
        }
        for p in [&mpath, &fpath, &cpath, &opath] {
            let _ = std::fs::remove_file(p);
        }
    }
    // error paths: messages, not crashes
    let good_model = scratch(dir, "ok.aeon");
    std::fs::write(&good_model, "a -> b\nb -| a\n").unwrap();
    let good_f = scratch(dir, "ok.txt");
    std::fs::write(&good_f, "EF a\n").unwrap();
    let bad_model = scratch(dir, "bad.aeon");
    std::fs::write(&bad_model, "a -> \n$$$").unwrap();
    let bad_f = scratch(dir, "bad.txt");
    std::fs::write(&bad_f, "EF a &\n").unwrap();
    let free_f = scratch(dir, "free.txt");
    std::fs::write(&free_f, "AX {x}\n").unwrap();
    let ctx_f = scratch(dir, "ctx.txt");
    std::fs::write(&ctx_f, "EF %missing%\n").unwrap();
    let corrupt = scratch(dir, "corrupt.zip");
    {
        use std::io::Write;
        let f = std::fs::File::create(&corrupt).unwrap();
        let mut zw = zip::ZipWriter::new(f);
        zw.start_file("s0.bdd", zip::write::FileOptions::default()).unwrap();
        zw.write_all(b"garbage").unwrap();
        zw.finish().unwrap();
    }
    let empty_ctx = scratch(dir, "empty.zip");
    build_result_archive(HashMap::new(), &empty_ctx, "a -> b\nb -| a\n", vec![]).unwrap();
    // a readable archive whose sets were computed for ANOTHER number of variable sets (here 2; the formula needs none)
    let other_k = scratch(dir, "otherk.zip");
    {
        let bn = BooleanNetwork::try_from("a -> b\nb -| a\n").unwrap();
        let g2 = get_extended_symbolic_graph(&bn, 2).unwrap();
        let mut m = HashMap::new();
        m.insert(s("s0"), g2.mk_unit_colored_vertices());
        build_result_archive(m, &other_k, "a -> b\nb -| a\n", vec![]).unwrap();
    }
    let s0_f = scratch(dir, "s0.txt");
    std::fs::write(&s0_f, "EF %s0%\n").unwrap();
    let cases: Vec<(&str, Vec<&str>)> = vec![
        ("missing model file", vec!["/nonexistent.aeon", &good_f]),
        ("corrupted model", vec![&bad_model, &good_f]),
        ("missing formula file", vec![&good_model, "/nonexistent.txt"]),
        ("invalid formula", vec![&good_model, &bad_f]),
        ("free variable", vec![&good_model, &free_f]),
        ("missing context label", vec![&good_model, &ctx_f, "-e", &empty_ctx]),
        ("wild-card without context archive", vec![&good_model, &ctx_f]),
        ("missing context archive", vec![&good_model, &ctx_f, "-e", "/nonexistent.zip"]),
        ("corrupted bdd entry", vec![&good_model, &s0_f, "-e", &corrupt]),
        ("context archive computed with another number of variable sets", vec![&good_model, &s0_f, "-e", &other_k]),
    ];
    let xg_ok = Xg::new("okm", "a -> b\nb -| a\n", 0).unwrap();
    out.case(&xg_ok.graph_line(), &format!("graph ok points={} premises=ok", xg_ok.num_points()), true);
    out.case("ctxclear", "ctx cleared", false);
    for (what, args) in cases {
        let (stdout, stderr, code) = run_cli(&bin, &args);
        out.count("cli_error_path");
        // the formula-related messages against the model of the tool: the same kind of message
        let modelled: Option<(&str, bool)> = match what {
            "invalid formula" => Some(("EF a &\n", false)),
            "free variable" => Some(("AX {x}\n", false)),
            "missing context label" => Some(("EF %missing%\n", true)),
            "wild-card without context archive" => Some(("EF %missing%\n", false)),
            _ => None,
        };
        if let Some((ftxt, ext)) = modelled {
            let clean = strip_ansi(&stdout);
            out.case(
                &format!("cli {} {}", if ext { 1 } else { 0 }, enc_chars(ftxt)),
                &format!("msg {}", err_kind(clean.lines().last().unwrap_or(""))),
                true,
            );
        }
        out.oracle(
            !stderr.contains("panicked") && code == Some(0) && !stdout.trim().is_empty(),
            "C17",
            "an input error is not reported as a message",
            &format!("{what}: code={code:?} stdout=`{}` stderr=`{}`", stdout.chars().take(120).collect::<String>(), stderr.chars().take(200).collect::<String>()),
        );
    }
    out.finish();
}

// ---------------------------------------------------------------------------------------------------
fn enc_fn(f: &FnUpdate, bn: &BooleanNetwork) -> String {
    match f {
        FnUpdate::Const(b) => format!("C {}", if *b { 1 } else { 0 }),
        FnUpdate::Var(v) => format!("V {}", v.to_index()),
        FnUpdate::Not(g) => format!("N {}", enc_fn(g, bn)),
        FnUpdate::Param(p, args) => {
            let name = bn.get_parameter(*p).get_name().clone();
            let mut x = format!("P {} {}", enc_name(&name), args.len());
            for a in args {
                x.push(' ');
                x.push_str(&enc_fn(a, bn));
            }
            x
        }
        FnUpdate::Binary(op, l, r) => {
            let o = match op {
                BnOp::And => "and",
                BnOp::Or => "or",
                BnOp::Xor => "xor",
                BnOp::Imp => "imp",
                BnOp::Iff => "iff",
            };
            format!("B {o} {} {}", enc_fn(l, bn), enc_fn(r, bn))
        }
    }
}

fn eval_fn(f: &FnUpdate, env: &dyn Fn(VariableId) -> bool, kappa: &dyn Fn(&str, &[bool]) -> bool, bn: &BooleanNetwork) -> bool {
    match f {
        FnUpdate::Const(b) => *b,
        FnUpdate::Var(v) => env(*v),
        FnUpdate::Not(g) => !eval_fn(g, env, kappa, bn),
        FnUpdate::Param(p, args) => {
            let vals: Vec<bool> = args.iter().map(|a| eval_fn(a, env, kappa, bn)).collect();
            kappa(bn.get_parameter(*p).get_name(), &vals)
        }
        FnUpdate::Binary(op, l, r) => {
            let a = eval_fn(l, env, kappa, bn);
            let b = eval_fn(r, env, kappa, bn);
            match op {
                BnOp::And => a && b,
                BnOp::Or => a || b,
                BnOp::Xor => a != b,
                BnOp::Imp => !a || b,
                BnOp::Iff => a == b,
            }
        }
    }
}

fn rand_fn(rng: &mut Rng, nvars: usize, params: &[(&str, usize)], depth: usize) -> String {
    // aeon syntax
    let vars = ["a", "b", "c"];
    if depth == 0 || rng.chance(1, 3) {
        return match rng.below(4) {
            0 if !params.is_empty() => {
                let (p, ar) = params[rng.below(params.len())];
                if ar == 0 {
                    s(p)
                } else {
                    let args: Vec<String> = (0..ar).map(|_| s(vars[rng.below(nvars)])).collect();
                    format!("{p}({})", args.join(", "))
                }
            }
            1 => s(*rng.pick(&["true", "false"])),
            _ => s(vars[rng.below(nvars)]),
        };
    }
    match rng.below(6) {
        0 => format!("!{}", rand_fn(rng, nvars, params, depth - 1)),
        1 if !params.is_empty() => {
            // nested application
            let (p, ar) = params[rng.below(params.len())];
            if ar == 0 {
                s(p)
            } else {
                let args: Vec<String> = (0..ar).map(|_| rand_fn(rng, nvars, params, depth - 1)).collect();
                format!("{p}({})", args.join(", "))
            }
        }
        k => {
            let op = ["&", "|", "^", "=>", "<=>"][k % 5];
            format!("({} {op} {})", rand_fn(rng, nvars, params, depth - 1), rand_fn(rng, nvars, params, depth - 1))
        }
    }
}

pub fn k10(dir: &str, thorough: bool, seed: u64) {
    let mut out = Out::new(dir, "k10");
    let mut rng = Rng::new(seed ^ 0x1010);
    let bin = std::env::var("HV_CONVERT_BIN").unwrap_or_else(|_| sibling_bin("convert-aeon-to-bnet"));
    if !std::path::Path::new(&bin).exists() {
        out.oracle(false, "C19", "the converter binary was not built", &bin);
        out.finish();
        return;
    }
    let mut nets: Vec<String> = vec![
        s("a -> b\nb -> a\n$a: f(g(b))\n$b: a\n"),
        s("a -> b\nb -| a\n"),
        s("a -?? b\nb -?? a\na -?? a\n"),
        s("a -> b\nb -> a\n$a: h(b)\n$b: h(a)\n"),
        s("a -> b\nb -> a\n$a: f(b)\n$b: a & g\n"),
        s("a -> b\n$b: a\n"),
        s("a -?? b\nb -?? c\nc -?? a\n$a: !c\n$b: f(a, a) | g\n"),
        s("a -?? a\nb -?? a\nc -?? a\n"),
        // zero-arity parameters named like generated table constants
        s("a -?? b\nb -?? a\n$a: f(b) & !f_1\n$b: a\n"),
        s("a -?? c\nb -?? c\nc -?? a\n$c: g(a, b) | g_10\n$a: c\n"),
        s("a -?? b\nb -?? a\n$a: h(b) ^ h_0\n$b: h(a) & k\n"),
        // variables WITHOUT regulators but with an update function that mentions parameters (D16)
        s("$a: k\na -> b\n$b: a & k\n"),
        s("$a: f(true)\na -> b\n$b: f(a)\n"),
        s("$a: g(false) | k\na -> b\nb -> b\n$b: g(a) & !g(b)\n"),
        s("$a: true\na -> b\n$b: a\n"),
        // VARIABLES named like generated constants (D13): f(0) would be `f_0`, the implicit function of b at 1 `b_1`,
        // the constant of the zero-arity k `k_`; twice in a row (`f_0` and `f_0_` both taken)
        s("a -> x\n$x: f(a)\nx -> f_0\n$f_0: x\nf_0 -> a\n$a: f_0\n"),
        s("a -?? b\nb -> b_1\n$b_1: b\nb_1 -> a\n$a: b_1\n"),
        s("k_ -> a\n$a: k & k_\na -> k_\n$k_: a | k\n"),
        s("a -> x\n$x: f(a) ^ f(!a)\nx -> f_0\n$f_0: x\nf_0 -> f_0_\n$f_0_: f_0\nf_0_ -> a\n$a: f_0_\n"),
        s("a -> x\nf_1 -> x\n$x: f(a) | g(f_1)\nx -> f_1\n$f_1: x\nx -> a\n$a: x\n"),
        // constant arguments of uninterpreted functions, next to other uses of the same function
        s("a -?? b\nb -?? a\n$a: g(false) => g(b)\n$b: a\n"),
        s("a -?? b\nb -?? a\n$a: g(true) & !g(b)\n$b: g(false) | a\n"),
        s("a -?? c\nb -?? c\nc -?? a\n$c: f(true, a) & !f(b, a)\n$a: c\n"),
        s("a -?? c\nb -?? c\nc -?? a\n$c: f(a, false) ^ f(b, true)\n$a: f(true, false) | c\n"),
        s("a -?? b\nb -?? a\n$a: g(g(true)) <=> g(b)\n$b: g(!a)\n"),
    ];
    let n = if thorough { 400 } else { 40 };
    for _ in 0..n {
        // random network: 2-3 variables, every variable regulated by a random subset; explicit functions use f/2, g/1, k/0
        let nv = 2 + rng.below(2);
        let vars = ["a", "b", "c"];
        let mut text = String::new();
        let params = [("f", 2usize), ("g", 1usize), ("k", 0usize), ("g_1", 0usize), ("f_10", 0usize), ("g_0", 0usize)];
        for t in 0..nv {
            for r in 0..nv {
                text.push_str(&format!("{} -?? {}\n", vars[r], vars[t]));
            }
        }
        for t in 0..nv {
            match rng.below(4) {
                0 => {}
                _ => text.push_str(&format!("${}: {}\n", vars[t], rand_fn(&mut rng, nv, &params, 2))),
            }
        }
        nets.push(text);
    }
    for text in nets {
        // regulations not used by an explicit function are rejected by the parser: drop such networks silently
        let Ok(bn) = BooleanNetwork::try_from(text.as_str()) else { out.count("rejected_by_aeon_parser"); continue };
        out.count("network");
        let mut child = Command::new(&bin).stdin(Stdio::piped()).stdout(Stdio::piped()).stderr(Stdio::piped()).spawn().unwrap();
        {
            use std::io::Write;
            child.stdin.take().unwrap().write_all(text.as_bytes()).unwrap();
        }
        let o = child.wait_with_output().unwrap();
        let stderr = String::from_utf8_lossy(&o.stderr).to_string();
        out.oracle(o.status.success() && !stderr.contains("panicked"), "C19", "the converter crashed", &format!("{text} :: {}", stderr.chars().take(200).collect::<String>()));
        if !o.status.success() {
            continue;
        }
        let bnet = String::from_utf8_lossy(&o.stdout).to_string();
        let Ok(res) = BooleanNetwork::try_from_bnet(&bnet) else {
            out.oracle(false, "C19", "the converter's output is not a valid bnet network", &format!("{text} :: {bnet}"));
            continue;
        };
        let orig_names: Vec<String> = bn.variables().map(|v| bn.get_variable_name(v).clone()).collect();
        // request for the model: variables, regulators, optional function
        let mut req = format!("conv {}", orig_names.len());
        for v in bn.variables() {
            let regs: Vec<String> = bn.regulators(v).iter().map(|r| r.to_index().to_string()).collect();
            req.push_str(&format!(
                " | {} {} {}",
                enc_name(bn.get_variable_name(v)),
                if regs.is_empty() { s("-") } else { regs.join(",") },
                match bn.get_update_function(v) {
                    Some(f) => enc_fn(f, &bn),
                    None => s("~"),
                }
            ));
        }
        // truth tables of the converter's output: per original variable, over (original variables, constants sorted)
        let mut answer: Vec<String> = Vec::new();
        let mut too_big = false;
        for name in &orig_names {
            let Some(v) = res.as_graph().find_variable(name) else {
                answer.push(format!("{}:missing", enc_name(name)));
                continue;
            };
            match res.get_update_function(v) {
                None => answer.push(format!("{}:free", enc_name(name))),
                Some(f) => {
                    let mut consts: BTreeSet<String> = BTreeSet::new();
                    for a in f.collect_arguments() {
                        let an = res.get_variable_name(a).clone();
                        if !orig_names.contains(&an) {
                            consts.insert(an);
                        }
                    }
                    let consts: Vec<String> = consts.into_iter().collect();
                    let ninputs = orig_names.len() + consts.len();
                    if ninputs > 14 {
                        too_big = true;
                        break;
                    }
                    let mut bits = String::new();
                    for val in 0..(1usize << ninputs) {
                        let env = |x: VariableId| -> bool {
                            let xn = res.get_variable_name(x);
                            if let Some(i) = orig_names.iter().position(|y| y == xn) {
                                (val >> i) & 1 == 1
                            } else if let Some(i) = consts.iter().position(|y| y == xn) {
                                (val >> (orig_names.len() + i)) & 1 == 1
                            } else {
                                false
                            }
                        };
                        bits.push(if eval_fn(f, &env, &|_, _| false, &res) { '1' } else { '0' });
                    }
                    answer.push(format!("{}:{}={}", enc_name(name), join_enc(&consts), bits));
                    // C19 oracle: the family over the fresh constants = the family of instantiations of the input
                    if let Some(of) = bn.get_update_function(bn.as_graph().find_variable(name).unwrap()).clone() {
                        c19_family_oracle(&mut out, &bn, name, &of, f, &res, &orig_names, &consts, &text);
                    } else if !bn.regulators(bn.as_graph().find_variable(name).unwrap()).is_empty() {
                        c19_implicit_oracle(&mut out, &bn, name, f, &res, &orig_names, &consts, &text);
                    }
                }
            }
        }
        if too_big {
            continue;
        }
        // no other targets are introduced
        let mut extra_targets = Vec::new();
        for v in res.variables() {
            let n = res.get_variable_name(v);
            if !orig_names.contains(n) && res.get_update_function(v).is_some() {
                extra_targets.push(n.clone());
            }
        }
        out.oracle(extra_targets.is_empty(), "C19", "the converter introduces new targets", &format!("{text} :: {extra_targets:?}"));
        for v in bn.variables() {
            if bn.regulators(v).is_empty() && bn.get_update_function(v).is_none() {
                let n = bn.get_variable_name(v);
                let still_free = res.as_graph().find_variable(n).map(|x| res.get_update_function(x).is_none()).unwrap_or(true);
                out.oracle(still_free, "C19", "a variable without regulators and function does not stay a free input", &text);
            }
        }
        out.case(&req, &format!("set {}", answer.join(" ")), answer.iter().any(|a| a.contains('=')));
    }
    out.finish();
}

/// truth table over the original variables of `f` under a valuation of the constants
fn table_with_consts(f: &FnUpdate, res: &BooleanNetwork, orig: &[String], consts: &[String], cval: usize) -> String {
    let mut bits = String::new();
    for val in 0..(1usize << orig.len()) {
        let env = |x: VariableId| -> bool {
            let xn = res.get_variable_name(x);
            if let Some(i) = orig.iter().position(|y| y == xn) {
                (val >> i) & 1 == 1
            } else if let Some(i) = consts.iter().position(|y| y == xn) {
                (cval >> i) & 1 == 1
            } else {
                false
            }
        };
        bits.push(if eval_fn(f, &env, &|_, _| false, res) { '1' } else { '0' });
    }
    bits
}

fn c19_family_oracle(out: &mut Out, bn: &BooleanNetwork, name: &str, of: &FnUpdate, f: &FnUpdate, res: &BooleanNetwork, orig: &[String], consts: &[String], text: &str) {
    // parameters of the original function with their arities
    let mut params: BTreeMap<String, usize> = BTreeMap::new();
    for p in of.collect_parameters() {
        let par = bn.get_parameter(p);
        params.insert(par.get_name().clone(), par.get_arity() as usize);
    }
    let total_bits: usize = params.values().map(|a| 1usize << a).sum();
    if total_bits > 12 || consts.len() > 12 {
        return;
    }
    let mut fam_out: BTreeSet<String> = BTreeSet::new();
    for cval in 0..(1usize << consts.len()) {
        fam_out.insert(table_with_consts(f, res, orig, consts, cval));
    }
    let mut fam_in: BTreeSet<String> = BTreeSet::new();
    let pnames: Vec<String> = params.keys().cloned().collect();
    for inst in 0..(1usize << total_bits) {
        // slice `inst` into one truth table per parameter
        let mut offs: HashMap<String, usize> = HashMap::new();
        let mut o = 0;
        for p in &pnames {
            offs.insert(p.clone(), o);
            o += 1usize << params[p];
        }
        let kappa = |p: &str, args: &[bool]| -> bool {
            let mut idx = 0;
            for (i, a) in args.iter().enumerate() {
                if *a {
                    idx |= 1 << i;
                }
            }
            (inst >> (offs[p] + idx)) & 1 == 1
        };
        let mut bits = String::new();
        for val in 0..(1usize << orig.len()) {
            let env = |x: VariableId| -> bool { (val >> x.to_index()) & 1 == 1 };
            bits.push(if eval_fn(of, &env, &kappa, bn) { '1' } else { '0' });
        }
        fam_in.insert(bits);
    }
    out.oracle(fam_in == fam_out, "C19", "family of the converted function differs from the instantiations of the input function",
        &format!("{text} :: variable {name}: {} vs {} functions", fam_in.len(), fam_out.len()));
    if params.is_empty() {
        out.count("fully_specified");
    } else {
        out.count("with_uninterpreted");
    }
}

fn c19_implicit_oracle(out: &mut Out, bn: &BooleanNetwork, name: &str, f: &FnUpdate, res: &BooleanNetwork, orig: &[String], consts: &[String], text: &str) {
    let v = bn.as_graph().find_variable(name).unwrap();
    let regs = bn.regulators(v);
    if regs.len() > 3 || consts.len() > 12 {
        return;
    }
    let mut fam_out: BTreeSet<String> = BTreeSet::new();
    for cval in 0..(1usize << consts.len()) {
        fam_out.insert(table_with_consts(f, res, orig, consts, cval));
    }
    // all functions of the regulators (regulation constraints dropped)
    let mut fam_in: BTreeSet<String> = BTreeSet::new();
    for inst in 0..(1usize << (1usize << regs.len())) {
        let mut bits = String::new();
        for val in 0..(1usize << orig.len()) {
            let mut idx = 0;
            for (i, r) in regs.iter().enumerate() {
                if (val >> r.to_index()) & 1 == 1 {
                    idx |= 1 << i;
                }
            }
            bits.push(if (inst >> idx) & 1 == 1 { '1' } else { '0' });
        }
        fam_in.insert(bits);
    }
    out.count("implicit");
    out.oracle(fam_in == fam_out, "C19", "family of the converted implicit function differs from all functions of the regulators",
        &format!("{text} :: variable {name}: {} vs {} functions", fam_in.len(), fam_out.len()));
}

#[allow(dead_code)]
fn unused(_: &GraphColoredVertices) {}
