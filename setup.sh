#!/bin/sh
# Build the framework from files on disk only (offline).
set -e
cd "$(dirname "$0")"
export CARGO_NET_OFFLINE=true
(cd lean && lake build HctlModel HctlProofs hctl_driver)
(cd harness && cargo build --release --offline && cargo build --release --offline --manifest-path /repo/Cargo.toml --target-dir "$PWD/target" --bins)
echo "setup ok"
