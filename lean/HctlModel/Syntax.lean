/-
  Syntax of HCTL formulae: operators, atoms, nested tokens, trees.
  Mirrors src/preprocessing/operator_enums.rs, tokenizer.rs (HctlToken), hctl_tree.rs (NodeType).
  Text is `List Char` everywhere (the Rust code iterates `chars()`).
-/
namespace Hctl

abbrev Name := List Char

inductive UnOp | not | ex | ax | ef | af | eg | ag
  deriving DecidableEq, Repr, Inhabited

inductive BinOp | and | or | xor | imp | iff | eu | au | ew | aw
  deriving DecidableEq, Repr, Inhabited

inductive HybOp | bind | jump | ex | all
  deriving DecidableEq, Repr, Inhabited

inductive Atom
  | prop (n : Name)
  | var (n : Name)
  | tt
  | ff
  | wild (n : Name)
  deriving DecidableEq, Repr, Inhabited

/-- `HctlToken`: nested token groups. -/
inductive Tok
  | un (o : UnOp)
  | bin (o : BinOp)
  | hyb (o : HybOp) (v : Name) (d : Option Name)
  | atom (a : Atom)
  | group (ts : List Tok)
  deriving Repr, Inhabited

/-- The structure of `HctlTreeNode` (without the stored `formula_str` and `height`). -/
inductive Tree
  | atom (a : Atom)
  | un (o : UnOp) (c : Tree)
  | bin (o : BinOp) (l r : Tree)
  | hyb (o : HybOp) (v : Name) (d : Option Name) (c : Tree)
  deriving DecidableEq, Repr, Inhabited

def BinOp.isTemporal : BinOp → Bool
  | .eu | .au | .ew | .aw => true
  | _ => false

def Tok.isHybrid : Tok → Bool
  | .hyb .. => true
  | _ => false

def Tok.isUnary : Tok → Bool
  | .un _ => true
  | _ => false

def Tok.isBinTemporal : Tok → Bool
  | .bin o => o.isTemporal
  | _ => false

/-- `*t == HctlToken::Binary(op)` -/
def Tok.isBin (op : BinOp) : Tok → Bool
  | .bin o => o == op
  | _ => false

def Tree.size : Tree → Nat
  | .atom _ => 1
  | .un _ c => c.size + 1
  | .bin _ l r => l.size + r.size + 1
  | .hyb _ _ _ c => c.size + 1

def Tree.height : Tree → Nat
  | .atom _ => 0
  | .un _ c => c.height + 1
  | .bin _ l r => max l.height r.height + 1
  | .hyb _ _ _ c => c.height + 1

deriving instance DecidableEq for Except

end Hctl
