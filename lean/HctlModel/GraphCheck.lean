/-
  Run-time validation of the graph the harness exports from the library: the premises the theorems place
  on the environment (`GraphWF`, `GraphAsync`, `EnvOK`) are decided on every exported graph, and
  `HctlProofs/Lemmas/DriverEnv.lean` proves that a positive answer implies the premises.
-/
import HctlModel.Sets
import Std.Data.HashSet
namespace Hctl

/-- the transition table restricted to the declared ranges (outside them the library offers nothing) -/
def Graph.restrict (G : Graph) : Graph :=
  { G with step := fun c j s => if c < G.nC ∧ j < G.nV ∧ s < G.nS then G.step c j s else none }

/-- every listed transition stays inside the state space and changes the state -/
def Graph.stepsOK (G : Graph) : Bool :=
  (List.range G.nC).all fun c => (List.range G.nV).all fun j => (List.range G.nS).all fun s =>
    match G.step c j s with
    | none => true
    | some t => decide (t < G.nS) && (t != s)

/-- tabulation used by the driver: a hash set of the points of the universe where `f` holds -/
def hashTab (pts : List Point) (f : CSet) : CSet :=
  let s : Std.HashSet Point := pts.foldl (fun acc p => if f p then acc.insert p else acc) {}
  ⟨fun p => s.contains p⟩

/-- the environment the driver evaluates in -/
def driverEnv (G : Graph) : Env :=
  let G' := G.restrict
  let pts := G'.points
  { G := G', tab := hashTab pts, pts := pts }

/-- the graphs of the exported network for the various numbers of variable sets, as the driver builds them for the
`cli` requests: the exported graph itself for its own `k`, the same table with the field `k` replaced otherwise -/
def driverNet (G : Graph) : Nat → Env :=
  fun k' => if k' = G.k then driverEnv G else driverEnv { G with k := k' }

end Hctl
