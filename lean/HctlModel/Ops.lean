/-
  Operators on coloured sets: mirrors src/evaluation/hctl_operators_eval.rs and
  src/evaluation/low_level_operations.rs, on the explicit-state denotation of Sets.lean.
  `U` is always the unit set of the graph object the Rust function receives.
-/
import HctlModel.Sets
namespace Hctl
namespace Ops
variable (E : Env)

/-! ### library operations (biodivine-lib-param-bn), modelled not verified -/

/-- `SymbolicAsyncGraph::var_pre(var, set)`: points with a `var`-successor in `set` (no unit intersection). -/
def varPre (j : Nat) (X : CSet) : CSet := ⟨fun p =>
  match E.G.step p.c j p.s with
  | some t => X (p.setS t)
  | none => false⟩

/-- `SymbolicAsyncGraph::pre(set)` -/
def pre (X : CSet) : CSet := ⟨fun p => (List.range E.G.nV).any (fun j => varPre E j X p)⟩

/-- `FixedPoints::symbolic(graph, unit)`: points of the unit without any successor -/
def steadyOf (U : CSet) : CSet := ⟨fun p =>
  U p && (List.range E.G.nV).all (fun j => (E.G.step p.c j p.s).isNone)⟩

/-- states reachable from `s` in colour `c` (breadth first, at most `n` rounds) -/
def reachFrom (c : Nat) : Nat → List Nat → List Nat
  | 0, acc => acc
  | n+1, acc =>
    let next := acc.flatMap (fun s => (List.range E.G.nV).filterMap (fun j => E.G.step c j s))
    let acc' := next.foldl (fun a t => if a.contains t then a else a ++ [t]) acc
    if acc'.length = acc.length then acc else reachFrom c n acc'

def reach (c s : Nat) : List Nat := reachFrom E c E.G.nS [s]

/-- SPECIFICATION of the attractor computation (ITGR + Xie-Beerel of biodivine-algo-bdd-scc, applied to the
unit set): the points of the unit that lie in a terminal strongly connected component of their colour. -/
def attractorsOf (U : CSet) : CSet := ⟨fun p =>
  U p && (reach E p.c p.s).all (fun q => (reach E p.c q).contains p.s)⟩

/-! ### low_level_operations.rs -/

/-- `create_comparator_var_state`: unit ∧ (HCTL variable i = current state) -/
def comparatorVarState (U : CSet) (i : Nat) : CSet := ⟨fun p => U p && (p.getV i == p.s)⟩

/-- `create_comparator_two_vars` (after repair D10: a pure equality of the two copies) -/
def comparatorTwoVars (i j : Nat) : CSet := ⟨fun p => p.getV i == p.getV j⟩

/-- `project_out_hctl_var`: BDD `exists` over the copy `i` -/
def projectOutVar (i : Nat) (a : CSet) : CSet := ⟨fun p => (List.range E.G.nS).any (fun t => a (p.setV i t))⟩

/-- `project_out_bn_vars`: BDD `exists` over the state variables -/
def projectOutState (a : CSet) : CSet := ⟨fun p => (List.range E.G.nS).any (fun t => a (p.setS t))⟩

/-- `substitute_hctl_var` (indices of two different variable names) -/
def substituteVar (U : CSet) (a : CSet) (i j : Nat) : CSet :=
  (projectOutVar E i (a.inter (comparatorTwoVars i j))).inter U

/-- `compute_valid_domain_for_var` -/
def validDomain (U : CSet) (dom : CSet) (i : Nat) : CSet :=
  projectOutState E (dom.inter (comparatorVarState U i))

/-! ### hctl_operators_eval.rs -/

def evalNeg (U a : CSet) : CSet := U.minus a
def evalImp (U a b : CSet) : CSet := (evalNeg U a).union b
def evalEquiv (U a b : CSet) : CSet := (a.inter b).union ((evalNeg U a).inter (evalNeg U b))
def evalXor (U a b : CSet) : CSet := evalNeg U (evalEquiv U a b)

/-- `eval_prop` (after repair D6: intersected with the unit) -/
def evalProp (U : CSet) (f : Nat → Bool) : CSet := ⟨fun p => f p.s && U p⟩

def evalBind (U phi : CSet) (i : Nat) : CSet := projectOutVar E i ((comparatorVarState U i).inter phi)
def evalExists (phi : CSet) (i : Nat) : CSet := projectOutVar E i phi
def evalJump (U phi : CSet) (i : Nat) : CSet := projectOutState E ((comparatorVarState U i).inter phi)

/-- `eval_ex`: predecessors, plus phi-states that are steady (explicit self-loops) -/
def evalEx (phi steady : CSet) : CSet := (pre E phi).union (phi.inter steady)

/-- one round of `eval_eu_saturated`: the first variable (in reversed order) with a non-empty update -/
def euStep (phi1 res : CSet) : Option CSet :=
  (List.range E.G.nV).reverse.findSome? fun j =>
    let upd := (phi1.inter (varPre E j res)).minus res
    if isEmptyOn E.pts upd then none else some (E.tab (res.union upd))

def euLoop : Nat → CSet → CSet → CSet
  | 0, _, res => res
  | n+1, phi1, res =>
    match euStep E phi1 res with
    | none => res
    | some r => euLoop n phi1 r

/-- `eval_eu_saturated` -/
def evalEuSat (phi1 phi2 : CSet) : CSet := euLoop E (E.pts.length + 1) phi1 phi2

/-- `eval_ef_saturated` -/
def evalEfSat (U phi : CSet) : CSet := evalEuSat E U phi

/-- `while old_set != new_set { new_set = old_set; old_set = f(old_set) }` -/
def whileNe (f : CSet → CSet) : Nat → CSet → CSet → CSet
  | 0, old, _ => old
  | n+1, old, new => if eqOn E.pts old new then old else whileNe f n (E.tab (f old)) old

/-- `eval_eg` -/
def evalEg (phi steady : CSet) : CSet :=
  whileNe E (fun old => old.inter (evalEx E old steady)) (E.pts.length + 2) phi CSet.empty

def evalAx (U phi steady : CSet) : CSet := evalNeg U (evalEx E (evalNeg U phi) steady)
def evalAf (U phi steady : CSet) : CSet := evalNeg U (evalEg E (evalNeg U phi) steady)
def evalAg (U phi : CSet) : CSet := evalNeg U (evalEfSat E U (evalNeg U phi))

/-- `eval_au` -/
def evalAu (U phi1 phi2 steady : CSet) : CSet :=
  whileNe E (fun old => old.union (phi1.inter (evalAx E U old steady))) (E.pts.length + 2) phi2 CSet.empty

/-- `eval_ew` (after repair D9): E[φ W ψ] = ¬A[¬ψ U (¬φ ∧ ¬ψ)] -/
def evalEw (U phi1 phi2 steady : CSet) : CSet :=
  evalNeg U (evalAu E U (evalNeg U phi2) ((evalNeg U phi1).inter (evalNeg U phi2)) steady)

/-- `eval_aw` (after repair D9): A[φ W ψ] = ¬E[¬ψ U (¬φ ∧ ¬ψ)] -/
def evalAw (U phi1 phi2 : CSet) : CSet :=
  evalNeg U (evalEuSat E (evalNeg U phi2) ((evalNeg U phi1).inter (evalNeg U phi2)))

end Ops
end Hctl
