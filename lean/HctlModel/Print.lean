/-
  Printing: the `Display` impls of operator_enums.rs and the `formula_str` computed by the
  `mk_*` constructors of hctl_tree.rs.  `Node` mirrors `HctlTreeNode` *with* its stored fields.
-/
import HctlModel.Syntax
namespace Hctl

def UnOp.str : UnOp → List Char
  | .not => "~".toList
  | .ex => "EX".toList
  | .ax => "AX".toList
  | .ef => "EF".toList
  | .af => "AF".toList
  | .eg => "EG".toList
  | .ag => "AG".toList

def BinOp.str : BinOp → List Char
  | .and => "&".toList
  | .or => "|".toList
  | .xor => "^".toList
  | .imp => "=>".toList
  | .iff => "<=>".toList
  | .eu => "EU".toList
  | .au => "AU".toList
  | .ew => "EW".toList
  | .aw => "AW".toList

def HybOp.str : HybOp → List Char
  | .bind => "!".toList
  | .jump => "@".toList
  | .ex => "3".toList
  | .all => "V".toList

def Atom.str : Atom → List Char
  | .var n => '{' :: n ++ ['}']
  | .prop n => n
  | .tt => "True".toList
  | .ff => "False".toList
  | .wild n => '%' :: n ++ ['%']

def domStr : Option Name → List Char
  | none => []
  | some d => " in %".toList ++ d ++ ['%']

/-- Independent recursive renderer: the canonical fully parenthesised text of a tree. -/
def Tree.render : Tree → List Char
  | .atom a => a.str
  | .un .not c => '(' :: '~' :: c.render ++ [')']
  | .un o c => '(' :: o.str ++ ' ' :: c.render ++ [')']
  | .bin o l r => '(' :: l.render ++ ' ' :: o.str ++ ' ' :: r.render ++ [')']
  | .hyb o v d c => '(' :: o.str ++ '{' :: v ++ '}' :: domStr d ++ ':' :: ' ' :: c.render ++ [')']

/-- `HctlTreeNode` with its stored `formula_str` and `height`. -/
inductive Node
  | atom (str : List Char) (h : Nat) (a : Atom)
  | un (str : List Char) (h : Nat) (o : UnOp) (c : Node)
  | bin (str : List Char) (h : Nat) (o : BinOp) (l r : Node)
  | hyb (str : List Char) (h : Nat) (o : HybOp) (v : Name) (d : Option Name) (c : Node)
  deriving DecidableEq, Repr, Inhabited

def Node.str : Node → List Char
  | .atom s .. | .un s .. | .bin s .. | .hyb s .. => s

def Node.height : Node → Nat
  | .atom _ h .. | .un _ h .. | .bin _ h .. | .hyb _ h .. => h

def Node.erase : Node → Tree
  | .atom _ _ a => .atom a
  | .un _ _ o c => .un o c.erase
  | .bin _ _ o l r => .bin o l.erase r.erase
  | .hyb _ _ o v d c => .hyb o v d c.erase

/-- `HctlTreeNode::mk_atom` -/
def mkAtom (a : Atom) : Node := .atom a.str 0 a

/-- `HctlTreeNode::mk_unary`: `"({op}{child})"` for negation, `"({op} {child})"` otherwise. -/
def mkUnary (c : Node) (o : UnOp) : Node :=
  let s := if o = .not then '(' :: o.str ++ c.str ++ [')'] else '(' :: o.str ++ ' ' :: c.str ++ [')']
  .un s (c.height + 1) o c

/-- `HctlTreeNode::mk_binary`: `"({left} {op} {right})"`. -/
def mkBinary (l r : Node) (o : BinOp) : Node :=
  .bin ('(' :: l.str ++ ' ' :: o.str ++ ' ' :: r.str ++ [')']) (max l.height r.height + 1) o l r

/-- `HctlTreeNode::mk_hybrid`: `"({op}{{{var}}}{domain_string}: {child})"`. -/
def mkHybrid (c : Node) (v : Name) (d : Option Name) (o : HybOp) : Node :=
  .hyb ('(' :: o.str ++ '{' :: v ++ '}' :: domStr d ++ ':' :: ' ' :: c.str ++ [')']) (c.height + 1) o v d c

/-- Build a node bottom-up through the constructors (what parser and preprocessing do). -/
def Tree.build : Tree → Node
  | .atom a => mkAtom a
  | .un o c => mkUnary c.build o
  | .bin o l r => mkBinary l.build r.build o
  | .hyb o v d c => mkHybrid c.build v d o

/-- All sub-trees in pre-order. -/
def Tree.subtrees : Tree → List Tree
  | t@(.atom _) => [t]
  | t@(.un _ c) => t :: c.subtrees
  | t@(.bin _ l r) => t :: (l.subtrees ++ r.subtrees)
  | t@(.hyb _ _ _ c) => t :: c.subtrees

end Hctl
