/-
  Entry points: mirrors src/model_checking.rs (plain / extended, single / multiple, dirty / sanitised,
  unsafe_ex) and src/postprocessing/sanitizing.rs on the explicit-state denotation.
-/
import HctlModel.EvalPure
import HctlModel.Lexer
import HctlModel.Parser
import HctlModel.Rename
namespace Hctl

inductive UserErr | syntax' | free | requant | badprop | support | nocontext
  deriving DecidableEq, Repr, Inhabited

inductive Outcome (α : Type)
  | ok (r : α)
  | userError (e : UserErr)
  | panic (site : String)
  deriving Repr

namespace Api
variable (E : Env) (K : CharClass)

/-- `parse_and_minimize_(extended_)formula` followed by `check_hctl_var_support` -/
def parseOne (ext : Bool) (cs : List Char) : Except UserErr Tree :=
  match Lex.tokenize K ext cs with
  | .error _ => .error .syntax'
  | .ok toks =>
    match parseToks toks with
    | .error _ => .error .syntax'
    | .ok t =>
      match rename (fun n => (E.G.label n).isSome) t with
      | .error .free => .error .free
      | .error .requant => .error .requant
      | .error .badprop => .error .badprop
      | .ok t' => if t'.numQuantVars > E.G.k then .error .support else .ok t'

def lookupAll (ctxSets : List (Name × CSet)) : List Name → Option (List (Name × CSet))
  | [] => some []
  | n :: ns =>
    match ctxSets.lookup n, lookupAll ctxSets ns with
    | some s, some rest => some ((n, s) :: rest)
    | _, _ => none

/-- `parse_and_validate` / `parse_and_validate_extended`: formulae in order, the first error wins.
Returns the trees and the (props, domains) contexts collected over all formulae. -/
def parseAll (ext : Bool) (ctxSets : List (Name × CSet)) :
    List (List Char) → Except UserErr (List Tree × List (Name × CSet) × List (Name × CSet))
  | [] => .ok ([], [], [])
  | f :: fs =>
    match parseOne E K ext f with
    | .error e => .error e
    | .ok t =>
      let (ps, ds) := t.wildCards ([], [])
      let found : Option (List (Name × CSet) × List (Name × CSet)) :=
        if ext then
          match lookupAll ctxSets ps, lookupAll ctxSets ds with
          | some p, some d => some (p, d)
          | _, _ => none
        else some ([], [])
      match found with
      | none => .error .nocontext
      | some (p, d) =>
        match parseAll ext ctxSets fs with
        | .error e => .error e
        | .ok (ts, p', d') => .ok (t :: ts, p ++ p', d ++ d')

/-- the context maps are `HashMap`s: one entry per label -/
def dedupNames (l : List (Name × CSet)) : List (Name × CSet) :=
  l.foldl (fun acc e => if acc.any (fun x => x.1 == e.1) then acc else acc ++ [e]) []

/-- fold `eval_node` over the trees with one threaded context -/
def evalAll (steady U : CSet) : List Tree → ECtx → Res (List CSet)
  | [], _ => .ok []
  | t :: ts, ctx =>
    match Eval.evalNode E steady t U ctx with
    | .error f => .error f
    | .ok (r, ctx') =>
      match evalAll steady U ts ctx' with
      | .error f => .error f
      | .ok rs => .ok (r :: rs)

/-- `_model_check_multiple_trees_dirty` -/
def treesDirty (U : CSet) (trees : List Tree) : Res (List CSet) :=
  evalAll E (Ops.steadyOf E U) U trees { dups := markDups trees }

/-- `model_check_multiple_formulae_dirty` -/
def formulaeDirty (U : CSet) (fs : List (List Char)) : Outcome (List CSet) :=
  match parseAll E K false [] fs with
  | .error e => .userError e
  | .ok (trees, _, _) =>
    match treesDirty E U trees with
    | .error (.panic s) => .panic s
    | .ok rs => .ok rs

/-- `model_check_multiple_extended_formulae_dirty` -/
def extendedDirty (U : CSet) (ctxSets : List (Name × CSet)) (fs : List (List Char)) : Outcome (List CSet) :=
  match parseAll E K true ctxSets fs with
  | .error e => .userError e
  | .ok (trees, props, doms) =>
    let ctx : ECtx := ({ dups := markDups trees } : ECtx).extendWithWildCards (dedupNames props) (dedupNames doms)
    match evalAll E (Ops.steadyOf E U) U trees ctx with
    | .error (.panic s) => .panic s
    | .ok rs => .ok rs

/-- the same entry points through the cache-free evaluator `evalPure` (what C01/C02 are proved about) -/
def pureDirty (ext : Bool) (U : CSet) (ctxSets : List (Name × CSet)) (fs : List (List Char)) : Outcome (List CSet) :=
  match parseAll E K ext ctxSets fs with
  | .error e => .userError e
  | .ok (trees, props, doms) =>
    .ok (trees.map (fun t =>
      Eval.evalPure E (Ops.steadyOf E U) (fun n => props.lookup n) (fun n => doms.lookup n) t U))

/-- `model_check_formula_unsafe_ex`: self-loops are ignored (steady set = ∅) -/
def unsafeEx (U : CSet) (f : List Char) : Outcome CSet :=
  match parseAll E K false [] [f] with
  | .error e => .userError e
  | .ok (trees, _, _) =>
    match trees with
    | [t] =>
      match Eval.evalNode E CSet.empty t U { dups := markDups [t] } with
      | .error (.panic s) => .panic s
      | .ok (r, _) => .ok r
    | _ => .panic "index"

/-- does the set depend on a spare variable set?  (then `transfer_from(..).unwrap()` panics) -/
def dependsOnSpare (a : CSet) : Bool :=
  E.pts.any (fun p => (List.range E.G.k).any (fun i => (List.range E.G.nS).any (fun t => a p != a (p.setV i t))))

/-- `sanitize_colored_vertices`: the (state, colour) set in the canonical encoding -/
def sanitize (a : CSet) : Option (Nat → Nat → Bool) :=
  if dependsOnSpare E a then none
  else some (fun s c => a { s := s, c := c, v := List.replicate E.G.k 0 })

end Api
end Hctl
