/-
  Canonisation of variable names: mirrors src/evaluation/canonization.rs `canonize_subform`
  (character level, `canonChars`) together with the tree-level statement of the same pass (`canonTree`).
-/
import HctlModel.Print
namespace Hctl

/-- `HashMap<String,String>::insert` (overwrites). -/
def mapInsert (k v : Name) (m : List (Name × Name)) : List (Name × Name) :=
  (k, v) :: m.filter (fun e => e.1 != k)

/-- `format!("var{n}")` -/
def canonName (n : Nat) : Name := "var".toList ++ (Nat.repr n).toList

/-- read up to (and consume) the closing `}` : `for name_char in chars.by_ref() { if '}' break; push }` -/
def readVar : List Char → List Char × List Char
  | [] => ([], [])
  | c :: cs =>
    if c = '}' then ([], cs)
    else
      let (n, r) := readVar cs
      (c :: n, r)

structure CanonSt where
  map : List (Name × Name) := []
  out : List Char := []          -- the canonical string (in order)
  stack : Nat := 0               -- `stack_len`
  deriving Repr

/-- The loop of `canonize_subform`.  The Rust function recurses on `(` and returns on `)`, threading its
whole state through; that is a flat loop with a depth counter which stops at a `)` on depth 0. -/
def canonLoop : Nat → Nat → List Char → CanonSt → CanonSt
  | 0, _, _, st => st
  | _+1, _, [], st => st
  | n+1, depth, ch :: cs, st =>
    if ch = '(' then canonLoop n (depth + 1) cs { st with out := st.out ++ [ch] }
    else if ch = ')' then
      let st' := { st with out := st.out ++ [ch] }
      if depth = 0 then st' else canonLoop n (depth - 1) cs st'
    else if (ch = '!' || ch = '3' || ch = 'V') && cs.head? = some '{' then
      let (v, rest) := readVar (cs.drop 1)
      let cn := canonName st.stack
      canonLoop n depth rest
        { map := mapInsert v cn st.map, out := st.out ++ ch :: '{' :: cn ++ ['}'], stack := st.stack + 1 }
    else if ch = '{' then
      let (v, rest) := readVar cs
      match st.map.lookup v with
      | some cn => canonLoop n depth rest { st with out := st.out ++ '{' :: cn ++ ['}'] }
      | none =>
        let cn := canonName st.stack
        canonLoop n depth rest
          { map := mapInsert v cn st.map, out := st.out ++ '{' :: cn ++ ['}'], stack := st.stack + 1 }
    else canonLoop n depth cs { st with out := st.out ++ [ch] }

/-- `get_canonical_and_renaming` -/
def canonChars (cs : List Char) : List Char × List (Name × Name) :=
  let st := canonLoop (cs.length + 1) 0 cs {}
  (st.out, st.map)

/-! Tree-level canonisation: the same pass, read off the structure instead of the text. -/

structure CanonT where
  map : List (Name × Name) := []
  stack : Nat := 0

def canonVar (v : Name) (st : CanonT) : Name × CanonT :=
  match st.map.lookup v with
  | some cn => (cn, st)
  | none =>
    let cn := canonName st.stack
    (cn, { map := mapInsert v cn st.map, stack := st.stack + 1 })

def canonTreeAux : Tree → CanonT → Tree × CanonT
  | .atom (.var v), st =>
    let (cn, st') := canonVar v st
    (.atom (.var cn), st')
  | .atom a, st => (.atom a, st)
  | .un o c, st =>
    let (c', st') := canonTreeAux c st
    (.un o c', st')
  | .bin o l r, st =>
    let (l', st1) := canonTreeAux l st
    let (r', st2) := canonTreeAux r st1
    (.bin o l' r', st2)
  | .hyb o v d c, st =>
    if o = .jump then
      let (cn, st1) := canonVar v st
      let (c', st2) := canonTreeAux c st1
      (.hyb o cn d c', st2)
    else
      let cn := canonName st.stack
      let st1 : CanonT := { map := mapInsert v cn st.map, stack := st.stack + 1 }
      let (c', st2) := canonTreeAux c st1
      (.hyb o cn d c', st2)

def canonTree (t : Tree) : Tree × List (Name × Name) :=
  let (t', st) := canonTreeAux t {}
  (t', st.map)

end Hctl
