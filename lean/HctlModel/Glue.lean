/-
  Glue around the evaluator:
  * result archives (src/generate_output.rs `build_result_archive`, src/load_inputs.rs `load_bdd_bundle`)
  * the formula-file loader (src/load_inputs.rs `load_formulae`)
  * the aeon→bnet converter (src/bin/convert_aeon_to_bnet.rs)
-/
import HctlModel.Syntax
namespace Hctl

/-! ### archives -/

namespace Archive

/-- `str::strip_suffix(".bdd")` -/
def stripBdd (p : List Char) : Option (List Char) :=
  let suf := ['.', 'b', 'd', 'd']
  if p.length ≥ suf.length ∧ p.drop (p.length - suf.length) = suf then some (p.take (p.length - suf.length)) else none

/-- a formula on one line: line breaks are written as blanks (repair D17) -/
def oneLine (f : List Char) : List Char := f.map (fun c => if c = '\n' ∨ c = '\r' then ' ' else c)

/-- the entries `build_result_archive` writes: one `<label>.bdd` per result, the model, the formula list -/
def entries {α : Type} (ser : α → List Char) (results : List (List Char × α)) (model : List Char)
    (formulae : List (List Char)) : List (List Char × List Char) :=
  results.map (fun e => (e.1 ++ ['.', 'b', 'd', 'd'], ser e.2)) ++
  [(['m', 'o', 'd', 'e', 'l', '.', 'a', 'e', 'o', 'n'], model), (['f', 'o', 'r', 'm', 'u', 'l', 'a', 'e', '.', 't', 'x', 't'], (formulae.map (fun f => oneLine f ++ ['\n'])).flatten)]

/-- `load_bdd_bundle`: the entries whose name ends in `.bdd`, keyed by the name without the suffix -/
def load {α : Type} (deser : List Char → α) (es : List (List Char × List Char)) : List (List Char × α) :=
  es.filterMap (fun e =>
    match stripBdd e.1 with
    | some l => some (l, deser e.2)
    | none => none)

end Archive

/-! ### the formula file loader -/

namespace Loader

/-- Rust `str::lines`: split at '\n', a trailing '\r' of a line is removed, a final empty line is dropped -/
def linesAux : List Char → List Char → List (List Char)
  | [], cur => if cur.isEmpty then [] else [cur.reverse]
  | c :: cs, cur => if c = '\n' then cur.reverse :: linesAux cs [] else linesAux cs (c :: cur)

def stripCr (l : List Char) : List Char :=
  match l.reverse with
  | '\r' :: r => r.reverse
  | _ => l

def lines (s : List Char) : List (List Char) := (linesAux s []).map stripCr

/-- `str::trim` for a given whitespace predicate -/
def trim (isWs : Char → Bool) (l : List Char) : List Char :=
  ((l.dropWhile isWs).reverse.dropWhile isWs).reverse

/-- `load_formulae` -/
def loadFormulae (isWs : Char → Bool) (text : List Char) : List (List Char) :=
  ((lines text).map (trim isWs)).filter (fun l => !l.isEmpty && l.head? != some '#')

end Loader

/-! ### the aeon → bnet converter -/

namespace Convert

inductive BOp | and | or | xor | imp | iff
  deriving DecidableEq, Repr

/-- `FnUpdate` of biodivine-lib-param-bn -/
inductive Fn
  | const (b : Bool)
  | var (i : Nat)
  | param (name : List Char) (args : List Fn)
  | not (f : Fn)
  | bin (o : BOp) (l r : Fn)
  deriving Repr

def BOp.eval : BOp → Bool → Bool → Bool
  | .and, a, b => a && b
  | .or, a, b => a || b
  | .xor, a, b => a != b
  | .imp, a, b => !a || b
  | .iff, a, b => a == b

/-- an upper bound of the lengths of the variable names -/
def maxLen : List (List Char) → Nat
  | [] => 0
  | n :: ns => max n.length (maxLen ns)

theorem le_maxLen {taken : List (List Char)} {n : List Char} (h : n ∈ taken) : n.length ≤ maxLen taken := by
  induction taken with
  | nil => cases h
  | cons m ms ih =>
    simp only [maxLen]
    rcases List.mem_cons.mp h with rfl | h
    · omega
    · have := ih h; omega

/-- the name of a generated constant, extended by underscores until it is not the name of a network variable
(repair D13: `add_parameter` refuses a name that is already a variable) -/
def fresh (taken : List (List Char)) (n : List Char) : List Char :=
  if h : n ∈ taken then fresh taken (n ++ ['_']) else n
termination_by maxLen taken + 1 - n.length
decreasing_by
  have := le_maxLen h
  simp only [List.length_append, List.length_cons, List.length_nil]
  omega

/-- `explode_function`: a decision tree over the arguments with a fresh zero-arity parameter per row;
`taken` are the names of the network's variables -/
def explode (taken : List (List Char)) : List Fn → List Char → Fn
  | [], pre => .param (fresh taken pre) []
  | a :: as, pre =>
    .bin .and (.bin .imp a (explode taken as (pre ++ ['1']))) (.bin .imp (.not a) (explode taken as (pre ++ ['0'])))

mutual
/-- `flatten_fn_update` (after repair D8: arguments are flattened first) -/
def flatten (taken : List (List Char)) : Fn → Fn
  | .const b => .const b
  | .var i => .var i
  | .not f => .not (flatten taken f)
  | .param name args => explode taken (flattenList taken args) (name ++ ['_'])
  | .bin o l r => .bin o (flatten taken l) (flatten taken r)
def flattenList (taken : List (List Char)) : List Fn → List Fn
  | [] => []
  | f :: fs => flatten taken f :: flattenList taken fs
end

/-- `flatten_update_function` for one variable: an explicit function is flattened (also when the variable has no
regulator — repair D16: `$a: k`, `$a: f(true)`); without a function, the implicit function of the regulators is
exploded, and a variable with neither is skipped (it stays a free input) -/
def flattenVar (taken : List (List Char)) (varName : List Char) (regulators : List Nat) (update : Option Fn) : Option Fn :=
  match update with
  | some f => some (flatten taken f)
  | none => if regulators.isEmpty then none else some (explode taken (regulators.map Fn.var) (varName ++ ['_']))

def bitsOf (bs : List Bool) : List Char := bs.map (fun b => if b then '1' else '0')

mutual
/-- evaluation under a state `env` and an interpretation `κ` of the uninterpreted functions -/
def eval (env : Nat → Bool) (κ : List Char → List Bool → Bool) : Fn → Bool
  | .const b => b
  | .var i => env i
  | .not f => !(eval env κ f)
  | .param name args => κ name (evalList env κ args)
  | .bin o l r => o.eval (eval env κ l) (eval env κ r)
def evalList (env : Nat → Bool) (κ : List Char → List Bool → Bool) : List Fn → List Bool
  | [] => []
  | f :: fs => eval env κ f :: evalList env κ fs
end

/-- interpretation of the original symbols induced by the fresh constants: `f(b₁…bₙ) = f_b₁…bₙ` (made fresh) -/
def induced (taken : List (List Char)) (κ0 : List Char → Bool) : List Char → List Bool → Bool :=
  fun name bs => κ0 (fresh taken (name ++ '_' :: bitsOf bs))

/-- interpretation that reads only zero-arity constants -/
def constsOnly (κ0 : List Char → Bool) : List Char → List Bool → Bool := fun name _ => κ0 name

end Convert
end Hctl
