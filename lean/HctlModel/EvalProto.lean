/- Protocol handlers for the evaluator (graphs are exported once and referenced later). -/
import HctlModel.Proto
namespace Hctl.EvalProto

structure DriverState where
  dummy : Nat := 0

def handle? (_st : DriverState) (_line : String) : Option (DriverState × String) := none

end Hctl.EvalProto
