/- Protocol handlers for the evaluator (graphs are exported once and referenced by later requests). -/
import HctlModel.Proto
import HctlModel.Api
import HctlModel.GraphCheck
import HctlModel.Cli
namespace Hctl.EvalProto
open Hctl Hctl.Proto

structure DriverState where
  env : Option Env := none
  ctxSets : List (Name × CSet) := []

def classOf (table : List (Char × Char)) : CharClass :=
  { isAlnum := fun c => table.lookup c == some 'a'
    isWs := fun c => table.lookup c == some 'w' }

/-- `cp:cls,cp:cls,...` or `-` -/
def decChars (s : String) : List Char × List (Char × Char) :=
  if s == "-" then ([], []) else
  let items := (s.splitOn ",").map (fun it =>
    match it.splitOn ":" with
    | [cp, cls] => (Char.ofNat cp.toNat!, (cls.toList.headD 'o'))
    | _ => ('?', 'o'))
  (items.map (·.1), items)

def bitsOf (s : String) : Array Bool := (s.toList.map (· == '1')).toArray

def mkGraph (nV nS nC k : Nat) (valid : String) (step : String) (labels : String) : Graph :=
  let validA := bitsOf valid
  let stepA : Array Int := ((step.splitOn ",").map (fun w => w.toInt!)).toArray
  let labs : List (Name × Array Bool) :=
    if labels == "-" then [] else
    (labels.splitOn ";").filterMap (fun it =>
      match it.splitOn ":" with
      | [n, b] => some (decName n, bitsOf b)
      | _ => none)
  { nS := nS, nC := nC, nV := nV, k := k
    valid := fun c => validA.getD c false
    step := fun c j s =>
      let x := stepA.getD ((c * nV + j) * nS + s) (-1)
      if x < 0 then none else some x.toNat
    label := fun n => (labs.lookup n).map (fun a => fun s => a.getD s false) }

def showSet (pts : List Point) (a : CSet) : String := String.ofList (pts.map (fun p => if a p then '1' else '0'))

def showSan (G : Graph) (f : Nat → Nat → Bool) : String :=
  String.ofList ((List.range G.nS).flatMap (fun s => (List.range G.nC).map (fun c => if f s c then '1' else '0')))

def errName : UserErr → String
  | .syntax' => "syntax" | .free => "free" | .requant => "requant" | .badprop => "badprop"
  | .support => "support" | .nocontext => "nocontext"

def showOutcome (E : Env) (san : Bool) : Outcome (List CSet) → String
  | .userError e => "err " ++ errName e
  | .panic _ => "panic"
  | .ok rs =>
    if san then
      match rs.mapM (fun r => Api.sanitize E r) with
      | none => "panic"
      | some fs => "ok " ++ " ".intercalate (fs.map (showSan E.G))
    else "ok " ++ " ".intercalate (rs.map (showSet E.pts))

def handle? (st : DriverState) (line : String) : Option (DriverState × String) :=
  match words line with
  | ["graph", nV, nS, nC, k, valid, step, labels] =>
    let G := mkGraph nV.toNat! nS.toNat! nC.toNat! k.toNat! valid step labels
    let E : Env := driverEnv G
    let prem := if G.stepsOK then "ok" else "bad"
    some ({ env := some E, ctxSets := [] }, s!"graph ok points={E.pts.length} premises={prem}")
  | ["ctx", name, bits] =>
    match st.env with
    | none => some (st, "no-graph")
    | some E =>
      let a := bitsOf bits
      -- the set as a function of the point's position in the universe
      let idx : Std.HashSet Point := (E.pts.zip (List.range E.pts.length)).foldl
        (fun acc (p, i) => if a.getD i false then acc.insert p else acc) {}
      let f : CSet := ⟨fun p => idx.contains p⟩
      some ({ st with ctxSets := (decName name, f) :: st.ctxSets.filter (fun e => e.1 != decName name) }, "ctx ok")
  | ["ctxclear"] => some ({ st with ctxSets := [] }, "ctx cleared")
  | "eval" :: variant :: _n :: fs =>
    match st.env with
    | none => some (st, "no-graph")
    | some E =>
      let decoded := fs.map decChars
      let table := decoded.flatMap (·.2)
      let K := classOf table
      let strs := decoded.map (·.1)
      let U := E.G.unit0
      let out := match variant with
        | "plain_dirty" => showOutcome E false (Api.formulaeDirty E K U strs)
        | "plain_san" => showOutcome E true (Api.formulaeDirty E K U strs)
        | "ext_dirty" => showOutcome E false (Api.extendedDirty E K U st.ctxSets strs)
        | "ext_san" => showOutcome E true (Api.extendedDirty E K U st.ctxSets strs)
        | "pure_plain_dirty" => showOutcome E false (Api.pureDirty E K false U [] strs)
        | "pure_ext_dirty" => showOutcome E false (Api.pureDirty E K true U st.ctxSets strs)
        | "unsafe_ex" =>
          match strs with
          | [f] => match Api.unsafeEx E K U f with
            | .ok r => showOutcome E false (.ok [r])
            | .userError e => showOutcome E false (.userError e)
            | .panic s => showOutcome E false (.panic s)
          | _ => "bad-request"
        | _ => "bad-request"
      some (st, out)
  | ["cli", ext, chars] =>
    -- the command-line tool on a formula file (the model `Cli.analyse`); the graphs of the network for the various
    -- numbers of variable sets are the exported graph with the field `k` replaced
    match st.env with
    | none => some (st, "no-graph")
    | some E =>
      let (cs, table) := decChars chars
      let K := classOf table
      let net : Nat → Env := driverNet E.G
      let out := match Cli.analyse net K (ext == "1") st.ctxSets cs with
        | .message e => "msg " ++ errName e
        | .panic _ => "panic"
        | .results k trees rs =>
          s!"ok k={k} trees=" ++ ";".intercalate (trees.map (fun t => encName t.render)) ++ " " ++
            " ".intercalate (rs.map (showSet (net k).pts))
      some (st, out)
  | ["cliprint", ext, mode, chars] =>
    -- what the tool prints per formula: the three counts, and (exhaustive mode) the listed states
    match st.env with
    | none => some (st, "no-graph")
    | some E =>
      let (cs, table) := decChars chars
      let K := classOf table
      let net : Nat → Env := driverNet E.G
      let out := match Cli.analyse net K (ext == "1") st.ctxSets cs with
        | .message e => "msg " ++ errName e
        | .panic _ => "panic"
        | .results k _ rs =>
          "ok " ++ " ".intercalate (rs.map (fun r =>
            let (a, b, c) := Cli.counts (net k).G r
            if mode == "full" then s!"{a}/{b}/{c}:" ++ ".".intercalate ((Cli.listed (net k).G r).map toString)
            else s!"{a}/{b}/{c}"))
      some (st, out)
  | ["steady"] =>
    match st.env with
    | none => some (st, "no-graph")
    | some E => some (st, "ok " ++ showSet E.pts (Ops.steadyOf E E.G.unit0))
  | ["attractors"] =>
    match st.env with
    | none => some (st, "no-graph")
    | some E => some (st, "ok " ++ showSet E.pts (Ops.attractorsOf E E.G.unit0))
  | _ => none

end Hctl.EvalProto
