/- Protocol handlers for the glue models (archives, loader, converter). -/
import HctlModel.Proto
import HctlModel.Glue
import HctlModel.EvalProto
namespace Hctl.GlueProto
open Hctl Hctl.Proto

def decList (s : String) : List Name := if s == "-" then [] else (s.splitOn ",").map decName
/-- archive requests: `=` is the empty list, `-` the list holding the empty name -/
def decList0 (s : String) : List Name := if s == "=" then [] else (s.splitOn ",").map decName

def insertSortedName (n : Name) : List Name → List Name
  | [] => [n]
  | x :: xs => if n = x then x :: xs else if nameLt n x then n :: x :: xs else x :: insertSortedName n xs

open Convert in
partial def decFn : List String → Option (Fn × List String)
  | "C" :: b :: r => some (.const (b == "1"), r)
  | "V" :: i :: r => some (.var i.toNat!, r)
  | "N" :: r => match decFn r with
    | some (f, r') => some (.not f, r')
    | none => none
  | "P" :: name :: n :: r =>
    let rec go : Nat → List String → List Fn → Option (List Fn × List String)
      | 0, r, acc => some (acc.reverse, r)
      | k+1, r, acc => match decFn r with
        | some (f, r') => go k r' (f :: acc)
        | none => none
    match go n.toNat! r [] with
    | some (args, r') => some (.param (decName name) args, r')
    | none => none
  | "B" :: o :: r =>
    let op : Option BOp := match o with
      | "and" => some .and | "or" => some .or | "xor" => some .xor | "imp" => some .imp | "iff" => some .iff | _ => none
    match op, decFn r with
    | some op, some (l, r1) => match decFn r1 with
      | some (rt, r2) => some (.bin op l rt, r2)
      | none => none
    | _, _ => none
  | _ => none

open Convert in
/-- names of the zero-arity parameters (the fresh constants) of a flattened function -/
partial def constsOf : Fn → List Name → List Name
  | .const _, acc => acc
  | .var _, acc => acc
  | .not f, acc => constsOf f acc
  | .bin _ l r, acc => constsOf r (constsOf l acc)
  | .param n args, acc => args.foldl (fun a f => constsOf f a) (if args.isEmpty then insertSortedName n acc else acc)

def splitBar (ws : List String) : List (List String) :=
  let rec go : List String → List String → List (List String) → List (List String)
    | [], cur, acc => (cur.reverse :: acc).reverse
    | w :: ws, cur, acc => if w == "|" then go ws [] (cur.reverse :: acc) else go ws (w :: cur) acc
  go ws [] []

open Convert in
def convVar (taken : List Name) (nv : Nat) (seg : List String) : String :=
  match seg with
  | name :: regs :: fnWords =>
    let regList : List Nat := if regs == "-" then [] else (regs.splitOn ",").map (·.toNat!)
    let upd : Option Fn := match fnWords with
      | ["~"] => none
      | ws => (decFn ws).map (·.1)
    match flattenVar taken (decName name) regList upd with
    | none => s!"{name}:free"
    | some f =>
      let consts := constsOf f []
      let n := nv + consts.length
      let bits := (List.range (2 ^ n)).map (fun val =>
        let env : Nat → Bool := fun i => (val >>> i) % 2 == 1
        let κ0 : List Char → Bool := fun c =>
          match consts.idxOf? c with
          | some i => (val >>> (nv + i)) % 2 == 1
          | none => false
        if eval env (constsOnly κ0) f then '1' else '0')
      let cs := if consts.isEmpty then "-" else ",".intercalate (consts.map encName)
      s!"{name}:{cs}={String.ofList bits}"
  | _ => "bad-segment"

def handle? (line : String) : Option String :=
  match words line with
  | ["archnames", labels, formulae] =>
    let ls := decList0 labels
    let fs := decList0 formulae
    let es := Archive.entries (fun (_ : Unit) => ([] : List Char)) (ls.map (fun l => (l, ()))) [] fs
    let names := es.map (·.1)
    let ftxt := (es.find? (fun e => e.1 == "formulae.txt".toList)).map (·.2) |>.getD []
    some ("set " ++ " ".intercalate (names.map encName) ++ " ; F " ++ encName ftxt)
  | ["archload", names] =>
    let es := (decList0 names).map (fun n => (n, ([] : List Char)))
    let loaded := Archive.load (fun _ => ()) es
    some ("set " ++ " ".intercalate (loaded.map (fun e => encName e.1)))
  | ["loadf", chars] =>
    let (cs, table) := EvalProto.decChars chars
    let K := EvalProto.classOf table
    let fs := Loader.loadFormulae K.isWs cs
    some (s!"{fs.length} " ++ " ".intercalate (fs.map encName))
  | "conv" :: nv :: rest =>
    let segs := (splitBar rest).filter (fun s => !s.isEmpty)
    -- the names of the network's variables (every variable has a segment)
    let taken : List Name := segs.filterMap (fun seg => seg.head?.map decName)
    some ("set " ++ " ".intercalate (segs.map (convVar taken nv.toNat!)))
  | _ => none

end Hctl.GlueProto
