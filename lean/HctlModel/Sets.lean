/-
  Explicit-state denotation of symbolic sets.
  A coloured set over a graph with `k` spare variable sets is a Boolean function on points
  `(state, colour, v₀ … v_{k-1})`; `colour` ranges over ALL parameter valuations (valid or not), each
  `vᵢ` is a state.  The graph library's transition structure is a field of `Graph`.
-/
import HctlModel.Dups
namespace Hctl

structure Point where
  s : Nat
  c : Nat
  v : List Nat
  deriving DecidableEq, Hashable, Repr, Inhabited

/-- A coloured set: a Boolean function on points.  (A structure rather than a bare function type so that
compiled definitions returning a set are not eta-expanded over the point: tabulations are computed once.) -/
structure CSet where
  mem : Point → Bool

instance : CoeFun CSet (fun _ => Point → Bool) := ⟨CSet.mem⟩

def Point.setS (p : Point) (t : Nat) : Point := { p with s := t }
def Point.setV (p : Point) (i t : Nat) : Point := { p with v := p.v.set i t }
def Point.getV (p : Point) (i : Nat) : Nat := p.v.getD i 0

/-- What the graph library provides, made explicit (biodivine-lib-param-bn: `SymbolicAsyncGraph`). -/
structure Graph where
  nS : Nat                                  -- number of states
  nC : Nat                                  -- number of colours = ALL parameter valuations
  nV : Nat                                  -- number of network variables
  k : Nat                                   -- number of spare variable sets (HCTL variables supported)
  valid : Nat → Bool                        -- colour satisfies the regulation constraints (unit colours)
  step : Nat → Nat → Nat → Option Nat       -- colour → variable → state ↦ successor (one variable flips)
  label : Name → Option (Nat → Bool)        -- proposition name → network variable as a state predicate

namespace Graph
variable (G : Graph)

/-- all valuations of `n` spare variable sets -/
def vals : Nat → List (List Nat)
  | 0 => [[]]
  | n+1 => (List.range G.nS).flatMap (fun t => (vals n).map (fun v => t :: v))

/-- all points, in the order shared with the harness: state-major, then colour, then valuations -/
def points : List Point :=
  (List.range G.nS).flatMap fun s =>
    (List.range G.nC).flatMap fun c =>
      (G.vals G.k).map fun v => { s := s, c := c, v := v }

/-- the initial unit set: valid colours (`get_extended_symbolic_graph` applies the regulation constraints to `true`) -/
def unit0 : CSet := ⟨fun p => G.valid p.c⟩

end Graph

namespace CSet
def empty : CSet := ⟨fun _ => false⟩
def inter (a b : CSet) : CSet := ⟨fun p => a p && b p⟩
def union (a b : CSet) : CSet := ⟨fun p => a p || b p⟩
def minus (a b : CSet) : CSet := ⟨fun p => a p && !b p⟩
end CSet

/-- `is_empty` on the symbolic set = no point of the universe -/
def isEmptyOn (pts : List Point) (a : CSet) : Bool := pts.all (fun p => !a p)
/-- BDD equality = equality on every point of the universe -/
def eqOn (pts : List Point) (a b : CSet) : Bool := pts.all (fun p => a p == b p)

/-- Execution environment: the graph and a tabulation function.  `tab f` must agree with `f` on the
points of the graph (hypothesis `TabOK` of the theorems; `id` satisfies it trivially).  The driver uses a
hash-set tabulation so that iterated operators do not build towers of closures. -/
structure Env where
  G : Graph
  tab : CSet → CSet
  pts : List Point          -- cached `G.points`

def Env.pure (G : Graph) : Env := { G := G, tab := id, pts := G.points }

end Hctl
