/-
  Parser: mirrors src/preprocessing/parser.rs `parse_1_hybrid` … `parse_9_terminal_and_parentheses`
  (split at the *first* operator of each level).  Recursion is on a fuel argument; `parseFuel ts`
  is proved sufficient in HctlProofs (so `PErr.fuel` is never a silent default).
-/
import HctlModel.Print
namespace Hctl

inductive PErr | fuel | bad
  deriving DecidableEq, Repr, Inhabited

/-- `tokens.iter().position(p)` together with the three pieces `tokens[..i]`, `tokens[i]`, `tokens[i+1..]`. -/
def splitFirst (p : Tok → Bool) : List Tok → Option (List Tok × Tok × List Tok)
  | [] => none
  | t :: ts =>
    if p t then some ([], t, ts)
    else match splitFirst p ts with
      | some (pre, x, post) => some (t :: pre, x, post)
      | none => none

def constOrProp (n : Name) : Tree :=
  if n = "true".toList ∨ n = "True".toList ∨ n = "1".toList then .atom .tt
  else if n = "false".toList ∨ n = "False".toList ∨ n = "0".toList then .atom .ff
  else .atom (.prop n)

def bin? (o : BinOp) : Except PErr Tree → Except PErr Tree → Except PErr Tree
  | .ok a, .ok b => .ok (.bin o a b)
  | .error e, _ => .error e
  | _, .error e => .error e

def lastIsHybrid (pre : List Tok) : Bool :=
  match pre.getLast? with
  | some t => t.isHybrid
  | none => false

/-- what `parse_9_terminal_and_parentheses` does with its token list: a finished result, or recursion into a group -/
inductive T9
  | done (r : Except PErr Tree)
  | inner (ts : List Tok)

def classify9 : List Tok → T9
  | [.atom (.prop name)] => .done (.ok (constOrProp name))
  | [.atom (.var name)] => .done (.ok (.atom (.var name)))
  | [.atom (.wild name)] => .done (.ok (.atom (.wild name)))
  | [.group inner] => .inner inner
  | _ => .done (.error .bad)

mutual
def parse1 : Nat → List Tok → Except PErr Tree
  | 0, _ => .error .fuel
  | n+1, ts =>
    match splitFirst Tok.isHybrid ts with
    | some (pre, .hyb o v d, post) =>
      -- `if i > 0 && !matches!(&tokens[i - 1], HctlToken::Hybrid(..))`
      if !pre.isEmpty && !lastIsHybrid pre then .error .bad
      else match parse1 n post with
        | .ok c => .ok (.hyb o v d c)
        | .error e => .error e
    | some _ => .error .bad   -- unreachable!()
    | none => parse2 n ts

def parse2 : Nat → List Tok → Except PErr Tree
  | 0, _ => .error .fuel
  | n+1, ts =>
    match splitFirst (Tok.isBin .iff) ts with
    | some (pre, _, post) => bin? .iff (parse3 n pre) (parse2 n post)
    | none => parse3 n ts

def parse3 : Nat → List Tok → Except PErr Tree
  | 0, _ => .error .fuel
  | n+1, ts =>
    match splitFirst (Tok.isBin .imp) ts with
    | some (pre, _, post) => bin? .imp (parse4 n pre) (parse3 n post)
    | none => parse4 n ts

def parse4 : Nat → List Tok → Except PErr Tree
  | 0, _ => .error .fuel
  | n+1, ts =>
    match splitFirst (Tok.isBin .or) ts with
    | some (pre, _, post) => bin? .or (parse5 n pre) (parse4 n post)
    | none => parse5 n ts

def parse5 : Nat → List Tok → Except PErr Tree
  | 0, _ => .error .fuel
  | n+1, ts =>
    match splitFirst (Tok.isBin .xor) ts with
    | some (pre, _, post) => bin? .xor (parse6 n pre) (parse5 n post)
    | none => parse6 n ts

def parse6 : Nat → List Tok → Except PErr Tree
  | 0, _ => .error .fuel
  | n+1, ts =>
    match splitFirst (Tok.isBin .and) ts with
    | some (pre, _, post) => bin? .and (parse7 n pre) (parse6 n post)
    | none => parse7 n ts

def parse7 : Nat → List Tok → Except PErr Tree
  | 0, _ => .error .fuel
  | n+1, ts =>
    match splitFirst Tok.isBinTemporal ts with
    | some (pre, .bin o, post) => bin? o (parse8 n pre) (parse7 n post)
    | some _ => .error .bad   -- unreachable!()
    | none => parse8 n ts

def parse8 : Nat → List Tok → Except PErr Tree
  | 0, _ => .error .fuel
  | n+1, ts =>
    match splitFirst Tok.isUnary ts with
    | some (pre, .un o, post) =>
      -- `if i > 0` : nothing may precede the first unary operator at this level
      if !pre.isEmpty then .error .bad
      else match parse8 n post with
        | .ok c => .ok (.un o c)
        | .error e => .error e
    | some _ => .error .bad   -- unreachable!()
    | none => parse9 n ts

def parse9 : Nat → List Tok → Except PErr Tree
  | 0, _ => .error .fuel
  | n+1, ts =>
    match classify9 ts with
    | .done r => r
    | .inner inner => parse1 n inner
end

mutual
def Tok.weight : Tok → Nat
  | .group ts => Tok.weightList ts + 1
  | _ => 1
def Tok.weightList : List Tok → Nat
  | [] => 0
  | t :: ts => t.weight + Tok.weightList ts
end

/-- Fuel that is always sufficient (proved): nine levels per token (groups counted with their content). -/
def parseFuel (ts : List Tok) : Nat := 10 * (Tok.weightList ts + 1)

/-- `parse_hctl_tokens` -/
def parseToks (ts : List Tok) : Except PErr Tree := parse1 (parseFuel ts) ts

end Hctl
