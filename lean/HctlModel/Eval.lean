/-
  The evaluator: mirrors src/evaluation/algorithm.rs `eval_node` with the full `EvalContext`
  (`duplicates`, `cache`, `domain_raw_sets`, `free_var_domains`) threaded as state, and
  src/evaluation/eval_context.rs.  Every `unwrap` / `unreachable!` / index site of the Rust code that the
  model can reach is an explicit `Fault.panic site`.
-/
import HctlModel.Ops
namespace Hctl

inductive Fault
  | panic (site : String)
  deriving DecidableEq, Repr, Inhabited

abbrev Res (α : Type) := Except Fault α

/-- `EvalContext` -/
structure ECtx where
  dups : DupMap := []
  cache : List (Key × (CSet × List (Name × Name))) := []
  domRaw : List (Name × CSet) := []
  fvd : DomMap := []

def dupGet (k : Key) (m : DupMap) : Option Int := m.lookup k
def dupSet (k : Key) (n : Int) : DupMap → DupMap
  | [] => [(k, n)]
  | (k', n') :: rest => if k = k' then (k, n) :: rest else (k', n') :: dupSet k n rest
def dupRemove (k : Key) (m : DupMap) : DupMap := m.filter (fun e => e.1 != k)

def cacheGet (k : Key) (c : List (Key × (CSet × List (Name × Name)))) : Option (CSet × List (Name × Name)) :=
  match c.find? (fun e => e.1 == k) with
  | some e => some e.2
  | none => none
def cacheInsert (k : Key) (v : CSet × List (Name × Name)) (c : List (Key × (CSet × List (Name × Name)))) :=
  (k, v) :: c.filter (fun e => e.1 != k)
def cacheRemove (k : Key) (c : List (Key × (CSet × List (Name × Name)))) := c.filter (fun e => e.1 != k)

/-- `hctl_var_name.len() - 1`: HCTL variables are named x, xx, xxx, … -/
def varId (n : Name) : Nat := n.length - 1

/-- `is_attractor_pattern`: `!{x}: AG EF {x}` -/
def isAttractorPattern : Tree → Bool
  | .hyb .bind v1 none (.un .ag (.un .ef (.atom (.var v2)))) => v1 == v2
  | _ => false

/-- `is_fixed_point_pattern`: `!{x}: AX {x}` -/
def isFixedPointPattern : Tree → Bool
  | .hyb .bind v1 none (.un .ax (.atom (.var v2))) => v1 == v2
  | _ => false

/-- sort the stored renaming so that the model is deterministic where the Rust code iterates a HashMap
(with at most one variable per cached formula — which `mark_duplicates` guarantees — the order is irrelevant) -/
def sortRen (m : List (Name × Name)) : List (Name × Name) :=
  m.foldl (fun acc e =>
    let rec ins : List (Name × Name) → List (Name × Name)
      | [] => [e]
      | x :: xs => if nameLt e.1 x.1 then e :: x :: xs else x :: ins xs
    ins acc) []

namespace Eval
variable (E : Env)

/-- cache-hit path: rename the variables of the cached set back (`substitute_hctl_var` along the reversed renaming) -/
def renameBack (U : CSet) (ren : List (Name × Name)) : List (Name × Name) → CSet → Res CSet
  | [], r => .ok r
  | (varRes, varCanon) :: rest, r =>
    -- `reverse_renaming.get(var_canon).unwrap()`
    match ren.find? (fun e => e.2 == varCanon) with
    | none => .error (.panic "reverse_renaming.unwrap")
    | some (varCurr, _) =>
      if varRes = varCurr then renameBack U ren rest r
      else if varId varRes ≥ E.G.k ∨ varId varCurr ≥ E.G.k then .error (.panic "mk_var_by_name")
      else renameBack U ren rest (E.tab (Ops.substituteVar E U r (varId varRes) (varId varCurr)))

/-- `eval_hybrid_quantifier` -/
def hybridQuantifier (U Uprop : CSet) (op : HybOp) (i : Nat) (child : CSet) : CSet :=
  match op with
  | .bind => Ops.evalBind E U child i
  | .ex => Ops.evalExists E child i
  | .all => Ops.evalNeg U (Ops.evalExists E (Ops.evalNeg Uprop child) i)
  | .jump => CSet.empty   -- unreachable!()

def evalUn (U steady : CSet) (o : UnOp) (c : CSet) : CSet :=
  match o with
  | .not => Ops.evalNeg U c
  | .ex => Ops.evalEx E c steady
  | .ax => Ops.evalAx E U c steady
  | .ef => Ops.evalEfSat E U c
  | .af => Ops.evalAf E U c steady
  | .eg => Ops.evalEg E c steady
  | .ag => Ops.evalAg E U c

def evalBin (U steady : CSet) (o : BinOp) (l r : CSet) : CSet :=
  match o with
  | .and => l.inter r
  | .or => l.union r
  | .xor => Ops.evalXor U l r
  | .imp => Ops.evalImp U l r
  | .iff => Ops.evalEquiv U l r
  | .eu => Ops.evalEuSat E l r
  | .au => Ops.evalAu E U l r steady
  | .ew => Ops.evalEw E U l r steady
  | .aw => Ops.evalAw E U l r

/-- the lookup phase at the start of `eval_node` -/
inductive Lookup
  | hit (r : CSet) (ctx : ECtx)
  | miss (save : Bool) (key : Key) (ren : List (Name × Name))
  | fault (f : Fault)

def lookup (t : Tree) (U : CSet) (ctx : ECtx) : Lookup :=
  let (canon, ren) := canonChars t.render
  let key : Key := (canon, canonDoms ren ctx.fvd)
  -- repair D5: a result is a function of the key only if no foreign restricted domain is open
  let foreign := ctx.fvd.any (fun e => e.2.isSome && (ren.lookup e.1).isNone)
  match dupGet key ctx.dups with
  | none => .miss false key ren
  | some n =>
    match cacheGet key ctx.cache with
    | none => .miss (!foreign) key ren
    | some (r, rren) =>
      let n' := n - 1
      let ctx1 := { ctx with dups := dupSet key n' ctx.dups }
      let ctx2 :=
        if !t.isWild && n' ≤ 0 then
          { ctx1 with dups := dupRemove key ctx1.dups, cache := cacheRemove key ctx1.cache }
        else ctx1
      match renameBack E U ren (sortRen rren) r with
      | .error f => .fault f
      | .ok r' => .hit (E.tab (r'.inter U)) ctx2    -- repair D1: intersect with the current unit

def store (save : Bool) (key : Key) (ren : List (Name × Name)) (r : CSet) (ctx : ECtx) : ECtx :=
  if save then { ctx with cache := cacheInsert key (r, ren) ctx.cache } else ctx

/-- `eval_node` -/
def evalNode (steady : CSet) : Tree → CSet → ECtx → Res (CSet × ECtx)
  | t, U, ctx =>
    match lookup E t U ctx with
    | .fault f => .error f
    | .hit r ctx' => .ok (r, ctx')
    | .miss save key ren =>
      if isAttractorPattern t then
        let r := E.tab (Ops.attractorsOf E U)
        .ok (r, store save key ren r ctx)
      else if isFixedPointPattern t then
        .ok (E.tab (steady.inter U), ctx)       -- returns without saving; repair D1: ∩ unit
      else
      match t with
      | .atom .tt => .ok (U, store save key ren U ctx)
      | .atom .ff => .ok (CSet.empty, store save key ren CSet.empty ctx)
      | .atom (.var n) =>
        if varId n ≥ E.G.k then .error (.panic "mk_var_by_name")
        else
          let r := E.tab (Ops.comparatorVarState U (varId n))
          .ok (r, store save key ren r ctx)
      | .atom (.prop n) =>
        match E.G.label n with
        | none => .error (.panic "find_network_variable.unwrap")
        | some f =>
          let r := E.tab (Ops.evalProp U f)
          .ok (r, store save key ren r ctx)
      | .atom (.wild _) => .error (.panic "unreachable: wild-card not in cache")
      | .un o c =>
        match evalNode steady c U ctx with
        | .error f => .error f
        | .ok (cr, ctx1) =>
          let r := E.tab (evalUn E U steady o cr)
          .ok (r, store save key ren r ctx1)
      | .bin o l r =>
        match evalNode steady l U ctx with
        | .error f => .error f
        | .ok (lr, ctx1) =>
          match evalNode steady r U ctx1 with
          | .error f => .error f
          | .ok (rr, ctx2) =>
            let res := E.tab (evalBin E U steady o lr rr)
            .ok (res, store save key ren res ctx2)
      | .hyb op v dom c =>
        if op = .jump then
          match evalNode steady c U ctx with
          | .error f => .error f
          | .ok (cr, ctx1) =>
            if varId v ≥ E.G.k then .error (.panic "mk_var_by_name")
            else
              let r := E.tab (Ops.evalJump E U cr (varId v))
              .ok (r, store save key ren r ctx1)
        else
          let ctxIn := { ctx with fvd := domInsert v dom ctx.fvd }
          match dom with
          | none =>
            match evalNode steady c U ctxIn with
            | .error f => .error f
            | .ok (cr, ctx1) =>
              if varId v ≥ E.G.k then .error (.panic "extra_vars.get.unwrap")
              else
                let r := E.tab (hybridQuantifier E U U op (varId v) cr)
                let ctx2 := { ctx1 with fvd := domRemove v ctx1.fvd }
                .ok (r, store save key ren r ctx2)
          | some d =>
            match ctxIn.domRaw.lookup d with
            | none => .error (.panic "domain_raw_sets.get.unwrap")
            | some domSet =>
              if varId v ≥ E.G.k then .error (.panic "mk_var_by_name")
              else
              let varDomain := E.tab (Ops.validDomain E U domSet (varId v))
              let U' := E.tab (U.inter varDomain)
              -- repairs D2/D3: empty restricted unit; the variable leaves the scope before returning
              if isEmptyOn E.pts U' then
                let ctxOut := { ctxIn with fvd := domRemove v ctxIn.fvd }
                match op with
                | .all => .ok (U, ctxOut)
                | _ => .ok (CSet.empty, ctxOut)
              else
                match evalNode steady c U' ctxIn with
                | .error f => .error f
                | .ok (cr, ctx1) =>
                  let r := E.tab (hybridQuantifier E U U' op (varId v) cr)
                  let ctx2 := { ctx1 with fvd := domRemove v ctx1.fvd }
                  .ok (r, store save key ren r ctx2)

end Eval

/-- `EvalContext::extend_context_with_wild_cards` -/
def ECtx.extendWithWildCards (ctx : ECtx) (props : List (Name × CSet)) (doms : List (Name × CSet)) : ECtx :=
  let ctx1 := props.foldl (fun (c : ECtx) (e : Name × CSet) =>
    let key : Key := ('%' :: e.1 ++ ['%'], [])
    let dups := match dupGet key c.dups with
      | some n => dupSet key (n + 1) c.dups
      | none => dupSet key 1 c.dups
    { c with dups := dups, cache := cacheInsert key (e.2, []) c.cache }) ctx
  { ctx1 with domRaw := doms.foldl (fun acc e => (e.1, e.2) :: acc.filter (fun x => x.1 != e.1)) ctx1.domRaw }

end Hctl
