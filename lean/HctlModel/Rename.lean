/-
  Preprocessing: mirrors src/preprocessing/utils.rs `validate_and_rename_recursive`
  and src/mc_utils.rs `collect_unique_hctl_vars`, `collect_unique_wild_cards`.
-/
import HctlModel.Print
namespace Hctl

inductive RErr | free | requant | badprop
  deriving DecidableEq, Repr, Inhabited

abbrev RenMap := List (Name × Name)

/-- `validate_and_rename_recursive`: `m` is the scope map, `last` the last used name (`x…x`). -/
def renameRec (isNetVar : Name → Bool) : Tree → RenMap → Name → Except RErr Tree
  | .atom (.var n), m, _ =>
    match m.lookup n with
    | some r => .ok (.atom (.var r))
    | none => .error .free
  | .atom (.prop n), _, _ => if isNetVar n then .ok (.atom (.prop n)) else .error .badprop
  | .atom a, _, _ => .ok (.atom a)
  | .un o c, m, last =>
    match renameRec isNetVar c m last with
    | .ok c' => .ok (.un o c')
    | .error e => .error e
  | .bin o l r, m, last =>
    match renameRec isNetVar l m last with
    | .error e => .error e
    | .ok l' =>
      match renameRec isNetVar r m last with
      | .error e => .error e
      | .ok r' => .ok (.bin o l' r')
  | .hyb o v d c, m, last =>
    if o = .jump then
      match renameRec isNetVar c m last with
      | .error e => .error e
      | .ok c' =>
        match m.lookup v with
        | none => .error .free
        | some r => .ok (.hyb .jump r d c')
    else if (m.lookup v).isSome then .error .requant
    else
      let last' := last ++ ['x']
      match renameRec isNetVar c ((v, last') :: m) last' with
      | .error e => .error e
      | .ok c' => .ok (.hyb o last' d c')

/-- `validate_props_and_rename_vars` -/
def rename (isNetVar : Name → Bool) (t : Tree) : Except RErr Tree := renameRec isNetVar t [] []

def insertUniq (n : Name) (l : List Name) : List Name := if l.contains n then l else l ++ [n]

/-- `collect_unique_hctl_vars` (names of quantifiers; jump is not a quantifier), in first-seen order. -/
def Tree.quantVars : Tree → List Name → List Name
  | .atom _, acc => acc
  | .un _ c, acc => c.quantVars acc
  | .bin _ l r, acc => r.quantVars (l.quantVars acc)
  | .hyb o v _ c, acc => if o = .jump then c.quantVars acc else c.quantVars (insertUniq v acc)

def Tree.numQuantVars (t : Tree) : Nat := (t.quantVars []).length

/-- `collect_unique_wild_cards`: (wild-card proposition names, domain names). -/
def Tree.wildCards : Tree → List Name × List Name → List Name × List Name
  | .atom (.wild n), (ps, ds) => (insertUniq n ps, ds)
  | .atom _, acc => acc
  | .un _ c, acc => c.wildCards acc
  | .bin _ l r, acc => r.wildCards (l.wildCards acc)
  | .hyb _ _ (some d) c, (ps, ds) => c.wildCards (ps, insertUniq d ds)
  | .hyb _ _ none c, acc => c.wildCards acc

/-- Maximal nesting depth of quantifiers. -/
def Tree.depth : Tree → Nat
  | .atom _ => 0
  | .un _ c => c.depth
  | .bin _ l r => max l.depth r.depth
  | .hyb o _ _ c => if o = .jump then c.depth else c.depth + 1

end Hctl
