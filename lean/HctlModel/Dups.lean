/-
  Duplicate marking: mirrors src/evaluation/mark_duplicates.rs `mark_duplicates_canonized_multiple`.
  The binary heap (max-height first) is modelled as "process all pending nodes of the maximal height,
  in insertion order"; the result does not depend on the order among nodes of equal height.
-/
import HctlModel.Canon
namespace Hctl

/-- lexicographic comparison of names by code point (the order of Rust `String`s in a `BTreeMap`). -/
def nameLt : Name → Name → Bool
  | [], [] => false
  | [], _ :: _ => true
  | _ :: _, [] => false
  | a :: as, b :: bs => if a.toNat < b.toNat then true else if a.toNat > b.toNat then false else nameLt as bs

/-- `BTreeMap<String, Option<String>>` as a list sorted by key. -/
abbrev DomMap := List (Name × Option Name)

def domInsert (k : Name) (v : Option Name) : DomMap → DomMap
  | [] => [(k, v)]
  | (k', v') :: rest =>
    if k = k' then (k, v) :: rest
    else if nameLt k k' then (k, v) :: (k', v') :: rest
    else (k', v') :: domInsert k v rest

def domRemove (k : Name) (m : DomMap) : DomMap := m.filter (fun e => e.1 != k)

/-- `FormulaWithDomains` -/
abbrev Key := List Char × DomMap

/-- canonical domains: for every variable of the scope that occurs in the renaming, its canonical name ↦ its domain -/
def canonDoms (ren : List (Name × Name)) (doms : DomMap) : DomMap :=
  doms.foldl (fun acc (e : Name × Option Name) =>
    match ren.lookup e.1 with
    | some cn => domInsert cn e.2 acc
    | none => acc) []

def keyOf (t : Tree) (doms : DomMap) : Key × List (Name × Name) :=
  let (canon, ren) := canonChars t.render
  ((canon, canonDoms ren doms), ren)

abbrev DupMap := List (Key × Int)

def dupIncr (k : Key) : DupMap → DupMap
  | [] => [(k, 1)]
  | (k', n) :: rest => if k = k' then (k', n + 1) :: rest else (k', n) :: dupIncr k rest

def Tree.isWild : Tree → Bool
  | .atom (.wild _) => true
  | _ => false

def Tree.isTerminal : Tree → Bool
  | .atom _ => true
  | _ => false

/-- children of a traversed node with the domain map they inherit (after the jump fix: `@` records nothing) -/
def childrenWithDoms : Tree → DomMap → List (Tree × DomMap)
  | .atom _, _ => []
  | .un _ c, d => [(c, d)]
  | .bin _ l r, d => [(l, d), (r, d)]
  | .hyb o v dom c, d => if o = .jump then [(c, d)] else [(c, domInsert v dom d)]

/-- one level of the traversal: `seen` = `same_height_formulae`; returns new duplicates and the pushed children -/
def processLevel : List (Tree × DomMap) → List Key → DupMap → List (Tree × DomMap) → DupMap × List (Tree × DomMap)
  | [], _, dups, kids => (dups, kids)
  | (t, doms) :: rest, seen, dups, kids =>
    if t.isTerminal && !t.isWild then processLevel rest seen dups kids
    else
      let (key, ren) := keyOf t doms
      if ren.length ≤ 1 && seen.contains key then
        processLevel rest seen (dupIncr key dups) kids
      else
        processLevel rest (key :: seen) dups (kids ++ childrenWithDoms t doms)

def maxHeight (l : List (Tree × DomMap)) : Nat := l.foldl (fun m e => max m e.1.height) 0

def markLoop : Nat → List (Tree × DomMap) → DupMap → DupMap
  | 0, _, dups => dups
  | n+1, pending, dups =>
    if pending.isEmpty then dups else
    let h := maxHeight pending
    let cur := pending.filter (fun e => e.1.height == h)
    let rest := pending.filter (fun e => e.1.height != h)
    let (dups', kids) := processLevel cur [] dups []
    markLoop n (rest ++ kids) dups'

/-- `mark_duplicates_canonized_multiple` -/
def markDups (roots : List Tree) : DupMap :=
  let pending := roots.map (fun t => (t, ([] : DomMap)))
  markLoop (maxHeight pending + 2) pending []

end Hctl
