/-
  Line protocol shared with the Rust harness: serialisation of names, tokens, trees.
  Names are lists of decimal code points joined by '.', the empty name is "-".
-/
import HctlModel.Dups
import HctlModel.Parser
import HctlModel.Lexer
import HctlModel.Rename
namespace Hctl.Proto

def encName (n : Name) : String :=
  if n.isEmpty then "-" else ".".intercalate (n.map (fun c => toString c.toNat))

def decName (s : String) : Name :=
  if s == "-" then [] else (s.splitOn ".").map (fun w => Char.ofNat w.toNat!)

def encOpt : Option Name → String
  | none => "~"
  | some n => encName n

def decOpt (s : String) : Option Name := if s == "~" then none else some (decName s)

def unName : UnOp → String
  | .not => "not" | .ex => "ex" | .ax => "ax" | .ef => "ef" | .af => "af" | .eg => "eg" | .ag => "ag"
def binName : BinOp → String
  | .and => "and" | .or => "or" | .xor => "xor" | .imp => "imp" | .iff => "iff"
  | .eu => "eu" | .au => "au" | .ew => "ew" | .aw => "aw"
def hybName : HybOp → String
  | .bind => "bind" | .jump => "jump" | .ex => "ex" | .all => "all"

def unOf : String → Option UnOp
  | "not" => some .not | "ex" => some .ex | "ax" => some .ax | "ef" => some .ef
  | "af" => some .af | "eg" => some .eg | "ag" => some .ag | _ => none
def binOf : String → Option BinOp
  | "and" => some .and | "or" => some .or | "xor" => some .xor | "imp" => some .imp | "iff" => some .iff
  | "eu" => some .eu | "au" => some .au | "ew" => some .ew | "aw" => some .aw | _ => none
def hybOf : String → Option HybOp
  | "bind" => some .bind | "jump" => some .jump | "ex" => some .ex | "all" => some .all | _ => none

def encAtom : Atom → String
  | .prop n => s!"P {encName n}"
  | .var n => s!"V {encName n}"
  | .wild n => s!"W {encName n}"
  | .tt => "T"
  | .ff => "F"

partial def encTok : Tok → String
  | .un o => s!"U {unName o}"
  | .bin o => s!"B {binName o}"
  | .hyb o v d => s!"H {hybName o} {encName v} {encOpt d}"
  | .atom a => encAtom a
  | .group ts => s!"G {ts.length}" ++ String.join (ts.map (fun t => " " ++ encTok t))

def encToks (ts : List Tok) : String :=
  toString ts.length ++ String.join (ts.map (fun t => " " ++ encTok t))

def encTree : Tree → String
  | .atom a => encAtom a
  | .un o c => s!"U {unName o} {encTree c}"
  | .bin o l r => s!"B {binName o} {encTree l} {encTree r}"
  | .hyb o v d c => s!"H {hybName o} {encName v} {encOpt d} {encTree c}"

/-- decode one token from a word list -/
partial def decTok : List String → Option (Tok × List String)
  | "U" :: o :: r => (unOf o).map (fun o => (.un o, r))
  | "B" :: o :: r => (binOf o).map (fun o => (.bin o, r))
  | "H" :: o :: v :: d :: r => (hybOf o).map (fun o => (.hyb o (decName v) (decOpt d), r))
  | "P" :: n :: r => some (.atom (.prop (decName n)), r)
  | "V" :: n :: r => some (.atom (.var (decName n)), r)
  | "W" :: n :: r => some (.atom (.wild (decName n)), r)
  | "T" :: r => some (.atom .tt, r)
  | "F" :: r => some (.atom .ff, r)
  | "G" :: n :: r =>
    let rec go : Nat → List String → List Tok → Option (List Tok × List String)
      | 0, r, acc => some (acc.reverse, r)
      | k+1, r, acc => match decTok r with
        | some (t, r') => go k r' (t :: acc)
        | none => none
    (go n.toNat! r []).map (fun (ts, r') => (.group ts, r'))
  | _ => none

def decToks : List String → Option (List Tok × List String)
  | n :: r =>
    let rec go : Nat → List String → List Tok → Option (List Tok × List String)
      | 0, r, acc => some (acc.reverse, r)
      | k+1, r, acc => match decTok r with
        | some (t, r') => go k r' (t :: acc)
        | none => none
    go n.toNat! r []
  | [] => none

partial def decTree : List String → Option (Tree × List String)
  | "P" :: n :: r => some (.atom (.prop (decName n)), r)
  | "V" :: n :: r => some (.atom (.var (decName n)), r)
  | "W" :: n :: r => some (.atom (.wild (decName n)), r)
  | "T" :: r => some (.atom .tt, r)
  | "F" :: r => some (.atom .ff, r)
  | "U" :: o :: r =>
    match unOf o, decTree r with
    | some o, some (c, r') => some (.un o c, r')
    | _, _ => none
  | "B" :: o :: r =>
    match binOf o, decTree r with
    | some o, some (l, r1) =>
      match decTree r1 with
      | some (rt, r2) => some (.bin o l rt, r2)
      | none => none
    | _, _ => none
  | "H" :: o :: v :: d :: r =>
    match hybOf o, decTree r with
    | some o, some (c, r') => some (.hyb o (decName v) (decOpt d) c, r')
    | _, _ => none
  | _ => none

def words (s : String) : List String := (s.splitOn " ").filter (fun w => w != "")

end Hctl.Proto
