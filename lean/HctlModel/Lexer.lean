/-
  Lexer: mirrors src/preprocessing/tokenizer.rs (`try_tokenize_recursive`, `collect_name`,
  `collect_var_and_dom_from_operator`, `skip_whitespaces`).
  Generic in the two character classes of Rust's `std` (`char::is_alphanumeric`, `char::is_whitespace`);
  the correspondence harness sends the class of every character it uses.
-/
import HctlModel.Syntax
namespace Hctl

inductive LErr | fuel | lex
  deriving DecidableEq, Repr, Inhabited

structure CharClass where
  isAlnum : Char → Bool
  isWs : Char → Bool

namespace Lex
variable (K : CharClass)

/-- `is_valid_in_name` -/
def isName (c : Char) : Bool := K.isAlnum c || c == '_'

/-- `is_valid_temp_op` (on the peeked character) -/
def isTempOp : Option Char → Bool
  | some c => c == 'X' || c == 'F' || c == 'G' || c == 'U' || c == 'W'
  | none => false

/-- `collect_name`: the longest prefix of name characters and the rest. -/
def collectName : List Char → List Char × List Char
  | [] => ([], [])
  | c :: cs =>
    if isName K c then
      let (n, r) := collectName cs
      (c :: n, r)
    else ([], c :: cs)

/-- `skip_whitespaces` -/
def skipWs : List Char → List Char
  | [] => []
  | c :: cs => if K.isWs c then skipWs cs else c :: cs

/-- `Some(ch) != input_chars.next()` → error; otherwise the rest. -/
def expect (ch : Char) : List Char → Option (List Char)
  | c :: cs => if c = ch then some cs else none
  | [] => none

/-- the optional `in %domain%` segment (after white space was skipped) -/
def domPart (cs4 : List Char) : Option (Option Name × List Char) :=
  match cs4 with
  | 'i' :: cs5 =>
    match expect 'n' cs5 with
    | none => none
    | some cs6 =>
      match expect '%' (skipWs K cs6) with
      | none => none
      | some cs7 =>
        let (dom, cs8) := collectName K cs7
        if dom.isEmpty then none else
        match expect '%' cs8 with
        | none => none
        | some cs9 => some (some dom, skipWs K cs9)
  | _ => some (none, cs4)

/-- `collect_var_and_dom_from_operator` -/
def collectVarDom (parseDomains : Bool) (cs : List Char) : Option (Name × Option Name × List Char) :=
  match expect '{' (skipWs K cs) with
  | none => none
  | some cs1 =>
    let (name, cs2) := collectName K cs1
    if name.isEmpty then none else
    match expect '}' cs2 with
    | none => none
    | some cs3 =>
      let cs4 := skipWs K cs3
      match (if parseDomains then domPart K cs4 else some (none, cs4)) with
      | none => none
      | some (dom, cs10) =>
        match expect ':' cs10 with
        | none => none
        | some cs11 => some (name, dom, cs11)

/-- the peeked next character is a name character (`3`/`V` then start a proposition name) -/
def nextIsName (cs : List Char) : Bool :=
  match cs.head? with | some c' => isName K c' | none => false

def cons (t : Tok) : Except LErr (List Tok × List Char) → Except LErr (List Tok × List Char)
  | .ok (ts, r) => .ok (t :: ts, r)
  | .error e => .error e

def tempUn : Char → Char → Option Tok
  | 'E', 'X' => some (.un .ex) | 'E', 'F' => some (.un .ef) | 'E', 'G' => some (.un .eg)
  | 'E', 'U' => some (.bin .eu) | 'E', 'W' => some (.bin .ew)
  | 'A', 'X' => some (.un .ax) | 'A', 'F' => some (.un .af) | 'A', 'G' => some (.un .ag)
  | 'A', 'U' => some (.bin .au) | 'A', 'W' => some (.bin .aw)
  | _, _ => none

def hybOfLong (n : Name) : Option HybOp :=
  if n = "exists".toList then some .ex
  else if n = "forall".toList then some .all
  else if n = "bind".toList then some .bind
  else if n = "jump".toList then some .jump
  else none

/-- `try_tokenize_recursive`.  Returns the tokens of the current group and the unread rest. -/
def lexRec (ext : Bool) : Nat → Bool → List Char → Except LErr (List Tok × List Char)
  | 0, _, _ => .error .fuel
  | _+1, top, [] => if top then .ok ([], []) else .error .lex
  | n+1, top, c :: cs =>
    -- hybrid operator followed by its `{var} [in %dom%] :` segment
    let hybrid (o : HybOp) (parseDomains : Bool) (rest : List Char) :=
      match collectVarDom K parseDomains rest with
      | some (v, d, rest') => cons (.hyb o v d) (lexRec ext n top rest')
      | none => .error .lex
    -- proposition name / constant starting with the already consumed `pre`
    let name (pre : List Char) (rest : List Char) :=
      let (nm, rest') := collectName K rest
      cons (.atom (.prop (pre ++ nm))) (lexRec ext n top rest')
    if K.isWs c then lexRec ext n top cs
    else if c = '~' then cons (.un .not) (lexRec ext n top cs)
    else if c = '&' then cons (.bin .and) (lexRec ext n top cs)
    else if c = '|' then cons (.bin .or) (lexRec ext n top cs)
    else if c = '^' then cons (.bin .xor) (lexRec ext n top cs)
    else if c = '=' then
      match cs with
      | '>' :: cs' => cons (.bin .imp) (lexRec ext n top cs')
      | _ => .error .lex
    else if c = '<' then
      match cs with
      | '=' :: '>' :: cs' => cons (.bin .iff) (lexRec ext n top cs')
      | _ => .error .lex
    else if c = '>' then .error .lex
    else if (c = 'E' || c = 'A') && isTempOp cs.head? then
      match cs with
      | c2 :: cs' =>
        match cs' with
        | c3 :: _ =>
          if isName K c3 then name [c, c2] cs'
          else match tempUn c c2 with
            | some t => cons t (lexRec ext n top cs')
            | none => .error .lex
        | [] =>
          match tempUn c c2 with
          | some t => cons t (lexRec ext n top cs')
          | none => .error .lex
      | [] => .error .lex
    else if c = '!' then hybrid .bind ext cs
    else if c = '3' && !nextIsName K cs then hybrid .ex ext cs
    else if c = 'V' && !nextIsName K cs then hybrid .all ext cs
    else if c = '@' then hybrid .jump false cs
    else if c = '\\' then
      let (opName, rest) := collectName K cs
      match hybOfLong opName with
      | some .jump => hybrid .jump false rest
      | some o => hybrid o ext rest
      | none => .error .lex
    else if c = ')' then (if !top then .ok ([], cs) else .error .lex)
    else if c = '(' then
      match lexRec ext n false cs with
      | .ok (grp, rest) => cons (.group grp) (lexRec ext n top rest)
      | .error e => .error e
    else if c = '{' then
      let (nm, rest) := collectName K cs
      if nm.isEmpty then .error .lex else
      match expect '}' rest with
      | some rest' => cons (.atom (.var nm)) (lexRec ext n top rest')
      | none => .error .lex
    else if c = '%' && ext then
      let (nm, rest) := collectName K cs
      if nm.isEmpty then .error .lex else
      match expect '%' rest with
      | some rest' => cons (.atom (.wild nm)) (lexRec ext n top rest')
      | none => .error .lex
    else if isName K c then name [c] cs
    else .error .lex

/-- `try_tokenize_formula` (ext = false) / `try_tokenize_extended_formula` (ext = true). -/
def tokenize (ext : Bool) (cs : List Char) : Except LErr (List Tok) :=
  match lexRec K ext (cs.length + 1) true cs with
  | .ok (ts, _) => .ok ts
  | .error e => .error e

end Lex
end Hctl
