/-
  The cache-free compositional evaluator: what `eval_node` computes when nothing is shared.
  This is the function whose correctness against the HCTL semantics is proved (C01/C02); the cached
  evaluator `Eval.evalNode` is related to it separately (C04).
-/
import HctlModel.Eval
namespace Hctl
namespace Eval
variable (E : Env)

/-- `W`: sets of the wild-card propositions, `D`: sets of the domains (the evaluation context). -/
def evalPure (steady : CSet) (W D : Name → Option CSet) : Tree → CSet → CSet
  | .atom .tt, U => U
  | .atom .ff, _ => CSet.empty
  | .atom (.var n), U => Ops.comparatorVarState U (varId n)
  | .atom (.prop n), U =>
    match E.G.label n with
    | some f => Ops.evalProp U f
    | none => CSet.empty
  | .atom (.wild w), U =>
    match W w with
    | some a => a.inter U
    | none => CSet.empty
  | .un o c, U => E.tab (evalUn E U steady o (evalPure steady W D c U))
  | .bin o l r, U => E.tab (evalBin E U steady o (evalPure steady W D l U) (evalPure steady W D r U))
  | .hyb op v dom c, U =>
    if op = .jump then E.tab (Ops.evalJump E U (evalPure steady W D c U) (varId v))
    else
      match dom with
      | none => E.tab (hybridQuantifier E U U op (varId v) (evalPure steady W D c U))
      | some d =>
        match D d with
        | none => CSet.empty
        | some domSet =>
          let U' := E.tab (U.inter (Ops.validDomain E U domSet (varId v)))
          E.tab (hybridQuantifier E U U' op (varId v) (evalPure steady W D c U'))

end Eval
end Hctl
