/-
  The command-line tool (`main.rs` + `analysis.rs: analyse_formulae`) as a function of the file contents:
  formula file → `load_formulae` → parse every formula (extended parser iff a context archive was given) →
  validate / rename against the network → number of variable sets = the maximum over the formulae →
  graph with that many sets → (extended) look the labels of every tree up in the archive → evaluate in file order
  with ONE shared cache → sets `formula-0 …` in order.  Failures of the first three stages are messages.
-/
import HctlModel.Api
import HctlModel.Glue
namespace Hctl.Cli

/-- first loop of `analyse_formulae` for one formula: parse, validate propositions, rename variables
(`validate_props_and_rename_vars` with the PLAIN context of the network) -/
def prepOne (isNetVar : Name → Bool) (K : CharClass) (ext : Bool) (cs : List Char) : Except UserErr Tree :=
  match Lex.tokenize K ext cs with
  | .error _ => .error .syntax'
  | .ok toks =>
    match parseToks toks with
    | .error _ => .error .syntax'
    | .ok t =>
      match rename isNetVar t with
      | .error .free => .error .free
      | .error .requant => .error .requant
      | .error .badprop => .error .badprop
      | .ok t' => .ok t'

/-- all formulae in file order; the first failure wins (`?` in the loop) -/
def prepAll (isNetVar : Name → Bool) (K : CharClass) (ext : Bool) : List (List Char) → Except UserErr (List Tree)
  | [] => .ok []
  | f :: fs =>
    match prepOne isNetVar K ext f with
    | .error e => .error e
    | .ok t =>
      match prepAll isNetVar K ext fs with
      | .error e => .error e
      | .ok ts => .ok (t :: ts)

/-- `max_num_hctl_vars`: the graph gets as many variable sets as the most demanding formula needs -/
def kOf (trees : List Tree) : Nat := trees.foldl (fun m t => max m t.numQuantVars) 0

/-- `validate_and_divide_wild_cards` over all trees (only when a context archive was given) -/
def collectCtx (ext : Bool) (ctxSets : List (Name × CSet)) :
    List Tree → Option (List (Name × CSet) × List (Name × CSet))
  | [] => some ([], [])
  | t :: ts =>
    let (ps, ds) := t.wildCards ([], [])
    let found : Option (List (Name × CSet) × List (Name × CSet)) :=
      if ext then
        match Api.lookupAll ctxSets ps, Api.lookupAll ctxSets ds with
        | some p, some d => some (p, d)
        | _, _ => none
      else some ([], [])
    match found with
    | none => none
    | some (p, d) =>
      match collectCtx ext ctxSets ts with
      | none => none
      | some (p', d') => some (p ++ p', d ++ d')

inductive Out
  | message (e : UserErr)            -- printed, exit code 0
  | panic (site : String)
  | results (k : Nat) (trees : List Tree) (rs : List CSet)   -- archived as formula-0, formula-1, … in this order

/-- `analyse_formulae`; `net k` is the graph of the network with `k` variable sets, `ctxSets` the sets of the context
archive (`ext` = an archive was given), `text` the content of the formula file -/
def analyse (net : Nat → Env) (K : CharClass) (ext : Bool) (ctxSets : List (Name × CSet)) (text : List Char) : Out :=
  let fs := Loader.loadFormulae K.isWs text
  match prepAll (fun n => (((net 0).G.label n).isSome)) K ext fs with
  | .error e => .message e
  | .ok trees =>
    let k := kOf trees
    let E := net k
    match collectCtx ext ctxSets trees with
    | none => .message .nocontext
    | some (props, doms) =>
      let ctx0 : ECtx := { dups := markDups trees }
      let ctx : ECtx := if ext then ctx0.extendWithWildCards (Api.dedupNames props) (Api.dedupNames doms) else ctx0
      match Api.evalAll E (Ops.steadyOf E E.G.unit0) E.G.unit0 trees ctx with
      | .error (.panic s) => .panic s
      | .ok rs => .results k trees rs

/-! ### what the tool prints about a result (`summarize_results`, `print_results_full`) -/

/-- the point of `(state, colour)` with all variable slots at state 0 (results of closed formulae do not depend on them) -/
def zeroPt (G : Graph) (s c : Nat) : Point := ⟨s, c, List.replicate G.k 0⟩

def allPairs (G : Graph) : List (Nat × Nat) :=
  (List.range G.nS).flatMap fun s => (List.range G.nC).map fun c => (s, c)

def pairsOf (G : Graph) (r : CSet) : List (Nat × Nat) :=
  (allPairs G).filter fun sc => r (zeroPt G sc.1 sc.2)

/-- "N results in total", "N unique colors", "N unique states" -/
def counts (G : Graph) (r : CSet) : Nat × Nat × Nat :=
  ((pairsOf G r).length,
   ((List.range G.nC).filter fun c => (List.range G.nS).any fun s => r (zeroPt G s c)).length,
   ((List.range G.nS).filter fun s => (List.range G.nC).any fun c => r (zeroPt G s c)).length)

/-- the states listed in exhaustive mode: those in the result for at least one colour -/
def listed (G : Graph) (r : CSet) : List Nat :=
  (List.range G.nS).filter fun s => (List.range G.nC).any fun c => r (zeroPt G s c)

end Hctl.Cli
