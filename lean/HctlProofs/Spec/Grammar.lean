/-
  SPECIFICATION of the documented grammar (README, parser.rs header), independent of the parser's
  "split at the first operator" strategy: the textbook stratified, right-recursive grammar

    H   ::= hyb H | Iff                      hybrid operators: weakest, only at the start of a formula/group
    Iff ::= Imp '<=>' Iff | Imp
    Imp ::= Or  '=>'  Imp | Or
    Or  ::= Xor '|'   Or  | Xor
    Xor ::= And '^'   Xor | And
    And ::= BT  '&'   And | BT
    BT  ::= U (EU|AU|EW|AW) BT | U           binary temporal operators
    U   ::= unop U | T                       unary operators bind tightest
    T   ::= prop | {var} | %wild% | '(' H ')'

  as ONE inductive family indexed by the level (so that `induction` applies).
-/
import HctlModel.Parser
namespace Hctl

inductive Lvl | hyb | iff | imp | or | xor | and | bt | un | term
  deriving DecidableEq, Repr

/-- the next tighter level -/
def Lvl.next : Lvl → Lvl
  | .hyb => .iff | .iff => .imp | .imp => .or | .or => .xor | .xor => .and
  | .and => .bt | .bt => .un | .un => .term | .term => .term

/-- the binary operators that are split at a level -/
def Lvl.hasOp : Lvl → BinOp → Bool
  | .iff, .iff => true
  | .imp, .imp => true
  | .or, .or => true
  | .xor, .xor => true
  | .and, .and => true
  | .bt, o => o.isTemporal
  | _, _ => false

/-- `D k ts t`: the token list `ts` derives the tree `t` at level `k` of the grammar. -/
inductive D : Lvl → List Tok → Tree → Prop
  | hyb {o v d r c} : D .hyb r c → D .hyb (.hyb o v d :: r) (.hyb o v d c)
  | bin {k o l r a b} : k.hasOp o = true → D k.next l a → D k r b → D k (l ++ .bin o :: r) (.bin o a b)
  | un {o r c} : D .un r c → D .un (.un o :: r) (.un o c)
  | up {k ts t} : k ≠ .term → D k.next ts t → D k ts t
  | prop {n} : D .term [.atom (.prop n)] (constOrProp n)
  | var {n} : D .term [.atom (.var n)] (.atom (.var n))
  | wild {n} : D .term [.atom (.wild n)] (.atom (.wild n))
  | group {ts t} : D .hyb ts t → D .term [.group ts] t

/-- "derivable from the documented grammar" -/
abbrev Derives (ts : List Tok) (t : Tree) : Prop := D .hyb ts t

/-! The frontier of a tree and the flattening of a token list (for "no token is ever ignored"). -/

inductive Leaf
  | un (o : UnOp) | bin (o : BinOp) | hyb (o : HybOp) (v : Name) (d : Option Name) | atom (a : Atom)
  deriving DecidableEq, Repr

def Tree.frontier : Tree → List Leaf
  | .atom a => [.atom a]
  | .un o c => .un o :: c.frontier
  | .bin o l r => l.frontier ++ .bin o :: r.frontier
  | .hyb o v d c => .hyb o v d :: c.frontier

/-- the atom a terminal token stands for (constants are spelled as proposition tokens) -/
def atomOfTok (a : Atom) : Atom :=
  match a with
  | .prop n => match constOrProp n with
    | .atom a' => a'
    | _ => .prop n
  | a => a

mutual
def Tok.flat : Tok → List Leaf
  | .un o => [.un o]
  | .bin o => [.bin o]
  | .hyb o v d => [.hyb o v d]
  | .atom a => [.atom (atomOfTok a)]
  | .group ts => Tok.flatList ts
def Tok.flatList : List Tok → List Leaf
  | [] => []
  | t :: ts => t.flat ++ Tok.flatList ts
end

end Hctl
