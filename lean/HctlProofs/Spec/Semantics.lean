/-
  REFERENCE SEMANTICS of (extended) HCTL over the asynchronous transition system of one colour,
  where a state without outgoing transition carries a self-loop.  Prop-valued, never executed.

  A point `p = (s, c, v)` bundles the current state `s`, the colour `c` and the valuation `v` of the
  state variables (variable `x…x` of length n+1 is stored at index n — preprocessing names variables so).
-/
import HctlModel.EvalPure
import HctlProofs.Lemmas.Kripke
namespace Hctl
open Kripke

/-- a state without successors in colour `c` -/
def Graph.isSteady (G : Graph) (c s : Nat) : Prop := ∀ j, j < G.nV → G.step c j s = none

/-- asynchronous update of one variable -/
def Graph.stepRel (G : Graph) (c s t : Nat) : Prop := ∃ j, j < G.nV ∧ G.step c j s = some t

/-- the transition relation of colour `c`, made total by self-loops on steady states -/
def Graph.R (G : Graph) (c s t : Nat) : Prop := G.stepRel c s t ∨ (G.isSteady c s ∧ t = s)

/-- the evaluation context: sets of the wild-card propositions and of the domains -/
structure SemCtx where
  wild : Name → Option CSet
  dom : Name → Option CSet

/-- is the state of `p` inside the (optional) domain, for `p`'s colour -/
def inDom (K : SemCtx) (d : Option Name) (p : Point) : Prop :=
  match d with
  | none => True
  | some l => ∃ a, K.dom l = some a ∧ a p = true

def untilOn (φ ψ : Nat → Prop) (π : Nat → Nat) : Prop := ∃ i, ψ (π i) ∧ ∀ j, j < i → φ (π j)

/-- Satisfaction.  Path quantifiers range over the infinite paths of `G.R c`. -/
def sat (G : Graph) (K : SemCtx) : Tree → Point → Prop
  | .atom .tt, _ => True
  | .atom .ff, _ => False
  | .atom (.prop n), p => ∃ f, G.label n = some f ∧ f p.s = true
  | .atom (.var x), p => p.getV (varId x) = p.s
  | .atom (.wild w), p => ∃ a, K.wild w = some a ∧ a p = true
  | .un .not φ, p => ¬ sat G K φ p
  | .un .ex φ, p => ∃ t, G.R p.c p.s t ∧ sat G K φ (p.setS t)
  | .un .ax φ, p => ∀ t, G.R p.c p.s t → sat G K φ (p.setS t)
  | .un .ef φ, p => ∃ π : Path (G.R p.c) p.s, ∃ i, sat G K φ (p.setS (π.π i))
  | .un .af φ, p => ∀ π : Path (G.R p.c) p.s, ∃ i, sat G K φ (p.setS (π.π i))
  | .un .eg φ, p => ∃ π : Path (G.R p.c) p.s, ∀ i, sat G K φ (p.setS (π.π i))
  | .un .ag φ, p => ∀ π : Path (G.R p.c) p.s, ∀ i, sat G K φ (p.setS (π.π i))
  | .bin .and φ ψ, p => sat G K φ p ∧ sat G K ψ p
  | .bin .or φ ψ, p => sat G K φ p ∨ sat G K ψ p
  | .bin .xor φ ψ, p => ¬ (sat G K φ p ↔ sat G K ψ p)
  | .bin .imp φ ψ, p => sat G K φ p → sat G K ψ p
  | .bin .iff φ ψ, p => (sat G K φ p ↔ sat G K ψ p)
  | .bin .eu φ ψ, p => ∃ π : Path (G.R p.c) p.s,
      untilOn (fun t => sat G K φ (p.setS t)) (fun t => sat G K ψ (p.setS t)) π.π
  | .bin .au φ ψ, p => ∀ π : Path (G.R p.c) p.s,
      untilOn (fun t => sat G K φ (p.setS t)) (fun t => sat G K ψ (p.setS t)) π.π
  | .bin .ew φ ψ, p => ∃ π : Path (G.R p.c) p.s,
      untilOn (fun t => sat G K φ (p.setS t)) (fun t => sat G K ψ (p.setS t)) π.π ∨
      ∀ i, sat G K φ (p.setS (π.π i))
  | .bin .aw φ ψ, p => ∀ π : Path (G.R p.c) p.s,
      untilOn (fun t => sat G K φ (p.setS t)) (fun t => sat G K ψ (p.setS t)) π.π ∨
      ∀ i, sat G K φ (p.setS (π.π i))
  | .hyb .bind x d φ, p => inDom K d p ∧ sat G K φ (p.setV (varId x) p.s)
  | .hyb .jump x _ φ, p => sat G K φ (p.setS (p.getV (varId x)))
  | .hyb .ex x d φ, p => ∃ t, t < G.nS ∧ inDom K d (p.setS t) ∧ sat G K φ (p.setV (varId x) t)
  | .hyb .all x d φ, p => ∀ t, t < G.nS → inDom K d (p.setS t) → sat G K φ (p.setV (varId x) t)

end Hctl
