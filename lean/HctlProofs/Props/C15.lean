/-
  C15 — sanitised results equal raw results and do not depend on the number of spare variable sets.
-/
import HctlProofs.Lemmas.Corollaries
import HctlModel.Api
import HctlProofs.Lemmas.EntryPoints
namespace Hctl.C15
open Hctl Kripke

/-- two graphs that differ in the number of spare variable sets only -/
structure SameButK (G G' : Graph) : Prop where
  nV : G.nV = G'.nV
  nS : G.nS = G'.nS
  nC : G.nC = G'.nC
  valid : G.valid = G'.valid
  step : G.step = G'.step
  label : G.label = G'.label

/-- MAIN: for a closed plain formula, the (state, colour) set is the same whatever number of spare variable
sets (at least the required number `k0`) the graph was built with. -/
theorem k_irrelevant {E E' : Env} (hE : EnvOK E) (hG : GraphWF E.G) (hE' : EnvOK E') (hG' : GraphWF E'.G)
    (hsame : SameButK E.G E'.G) (k0 : Nat) (hk : k0 ≤ E.G.k) (hk' : k0 ≤ E'.G.k)
    (t : Tree) (hw : WellScoped k0 0 t) (hwk : WellNamed E.G.k 0 t) (hwk' : WellNamed E'.G.k 0 t) (hp : Plain t)
    (s c : Nat) (v v' : List Nat) (hmem : (⟨s, c, v⟩ : Point) ∈ E.pts) (hmem' : (⟨s, c, v'⟩ : Point) ∈ E'.pts) :
    evalTop E noCtx t ⟨s, c, v⟩ = evalTop E' noCtx t ⟨s, c, v'⟩ := by
  have h1 := evalTop_correct hE hG noCtx (ctxOK_noCtx E) t hwk (hp.domsIn noCtx) _ hmem
  have h2 := evalTop_correct hE' hG' noCtx (ctxOK_noCtx E') t hwk' (hp.domsIn noCtx) _ hmem'
  have hl : k0 ≤ v.length := by have := len_v hE hG hmem; simp at this; omega
  have hl' : k0 ≤ v'.length := by have := len_v hE' hG' hmem'; simp at this; omega
  have hg : sat E.G noCtx t ⟨s, c, v⟩ ↔ sat E'.G noCtx t ⟨s, c, v⟩ :=
    sat_graph_congr noCtx t ⟨s, c, v⟩ ⟨hsame.nV, hsame.nS, fun j s' => by rw [hsame.step], hsame.label⟩
  have hv := sat_congr E'.G noCtx ctxSC_noCtx k0 t 0 s c v v' hw hl hl' (fun i hi => absurd hi (Nat.not_lt_zero i))
  apply Bool.eq_iff_iff.mpr
  rw [h1, h2, hsame.valid]
  exact and_congr Iff.rfl (hg.trans hv)

/-- the raw result of a closed formula does not depend on the spare variables, so sanitising succeeds … -/
theorem sanitize_succeeds {E : Env} (hE : EnvOK E) (hG : GraphWF E.G) (t : Tree)
    (hw : WellScoped E.G.k 0 t) (hp : Plain t) :
    Api.dependsOnSpare E (evalTop E noCtx t) = false := by
  apply Bool.eq_false_iff.mpr
  intro h
  simp only [Api.dependsOnSpare, List.any_eq_true, List.mem_range] at h
  obtain ⟨p, hpm, i, _, x, hx, hne⟩ := h
  have hq : p.setV i x ∈ E.pts := setV_mem' hE hG hpm hx
  have h1 := evalTop_correct hE hG noCtx (ctxOK_noCtx E) t hw.wellNamed (hp.domsIn noCtx) _ hpm
  have h2 := evalTop_correct hE hG noCtx (ctxOK_noCtx E) t hw.wellNamed (hp.domsIn noCtx) _ hq
  have hl : E.G.k ≤ p.v.length := by rw [len_v hE hG hpm]; exact Nat.le_refl _
  have hl' : E.G.k ≤ (p.setV i x).v.length := by rw [len_v hE hG hq]; exact Nat.le_refl _
  have hs := sat_congr E.G noCtx ctxSC_noCtx E.G.k t 0 p.s p.c p.v (p.setV i x).v hw hl hl'
    (fun j hj => absurd hj (Nat.not_lt_zero j))
  have : evalTop E noCtx t p = evalTop E noCtx t (p.setV i x) :=
    Bool.eq_iff_iff.mpr (h1.trans ((and_congr Iff.rfl hs).trans h2.symm))
  simp [this] at hne

/-- … and the sanitised set is the raw set read at any valuation of the spare variables -/
theorem sanitize_eq_raw {E : Env} (hE : EnvOK E) (hG : GraphWF E.G) (t : Tree)
    (hw : WellScoped E.G.k 0 t) (hp : Plain t) :
    ∃ f, Api.sanitize E (evalTop E noCtx t) = some f ∧
      ∀ s c v, (⟨s, c, v⟩ : Point) ∈ E.pts → f s c = evalTop E noCtx t ⟨s, c, v⟩ := by
  refine ⟨fun s c => evalTop E noCtx t ⟨s, c, List.replicate E.G.k 0⟩,
    by simp [Api.sanitize, sanitize_succeeds hE hG t hw hp], ?_⟩
  intro s c v hmem
  have hz : (⟨s, c, List.replicate E.G.k 0⟩ : Point) ∈ E.pts := by
    rw [hE.pts_eq] at hmem ⊢
    rw [mem_points] at hmem ⊢
    refine ⟨hmem.1, hmem.2.1, by simp, ?_⟩
    intro x hx
    simp [List.mem_replicate] at hx
    rw [hx.2]; exact Nat.lt_of_le_of_lt (Nat.zero_le _) hmem.1
  have h1 := evalTop_correct hE hG noCtx (ctxOK_noCtx E) t hw.wellNamed (hp.domsIn noCtx) _ hz
  have h2 := evalTop_correct hE hG noCtx (ctxOK_noCtx E) t hw.wellNamed (hp.domsIn noCtx) _ hmem
  have hl : E.G.k ≤ (List.replicate E.G.k 0).length := by simp
  have hl' : E.G.k ≤ v.length := by have := len_v hE hG hmem; simp at this; omega
  have hs := sat_congr E.G noCtx ctxSC_noCtx E.G.k t 0 s c (List.replicate E.G.k 0) v hw hl hl'
    (fun j hj => absurd hj (Nat.not_lt_zero j))
  exact Bool.eq_iff_iff.mpr (h1.trans ((and_congr Iff.rfl hs).trans h2.symm))

/-- GENERAL FORM (any evaluator, plain or extended, cached or not): a set that is semantically exact for a closed
formula in a context of variable-independent sets does not depend on the spare variables; sanitising succeeds and
returns the raw set read at any valuation. -/
theorem sanitize_of_sem {E : Env} (hE : EnvOK E) (hG : GraphWF E.G) (K : SemCtx) (hSC : CtxSC K) (t : Tree)
    (hw : WellScoped E.G.k 0 t) (r : CSet) (hr : Sem E r E.G.unit0 (sat E.G K t)) :
    Api.dependsOnSpare E r = false ∧
    ∃ f, Api.sanitize E r = some f ∧ ∀ s c v, (⟨s, c, v⟩ : Point) ∈ E.pts → f s c = r ⟨s, c, v⟩ := by
  have hU := unitOK_unit0 E
  have key : ∀ p q : Point, p ∈ E.pts → q ∈ E.pts → p.s = q.s → p.c = q.c → r p = r q := by
    intro p q hp hq hs hc
    obtain ⟨s, c, v⟩ := p
    obtain ⟨s', c', v'⟩ := q
    simp only at hs hc
    subst hs hc
    have hl : E.G.k ≤ v.length := by have := len_v hE hG hp; simp at this; omega
    have hl' : E.G.k ≤ v'.length := by have := len_v hE hG hq; simp at this; omega
    have hs := sat_congr E.G K hSC E.G.k t 0 s c v v' hw hl hl' (fun j hj => absurd hj (Nat.not_lt_zero j))
    have hu : E.G.unit0 ⟨s, c, v⟩ = E.G.unit0 ⟨s, c, v'⟩ := by simp [Graph.unit0]
    apply Bool.eq_iff_iff.mpr
    rw [hr _ hp, hr _ hq, hu]
    exact and_congr Iff.rfl hs
  have hdep : Api.dependsOnSpare E r = false := by
    apply Bool.eq_false_iff.mpr
    intro h
    simp only [Api.dependsOnSpare, List.any_eq_true, List.mem_range] at h
    obtain ⟨p, hpm, i, _, x, hx, hne⟩ := h
    have := key p (p.setV i x) hpm (setV_mem' hE hG hpm hx) rfl rfl
    simp [this] at hne
  refine ⟨hdep, fun s c => r ⟨s, c, List.replicate E.G.k 0⟩, by simp [Api.sanitize, hdep], ?_⟩
  intro s c v hmem
  have hz : (⟨s, c, List.replicate E.G.k 0⟩ : Point) ∈ E.pts := by
    rw [hE.pts_eq] at hmem ⊢
    rw [mem_points] at hmem ⊢
    refine ⟨hmem.1, hmem.2.1, by simp, ?_⟩
    intro x hx
    simp [List.mem_replicate] at hx
    rw [hx.2]; exact Nat.lt_of_le_of_lt (Nat.zero_le _) hmem.1
  exact key _ _ hz hmem rfl rfl

/-- END TO END: every set the plain string entry point returns can be sanitised, and the sanitised set is the raw one -/
theorem formulaeDirty_sanitisable {C : CharClass} (hC : Lex.CharsOK C) {E : Env} (hE : EnvOK E) (hG : GraphWF E.G)
    (hA : C12.GraphAsync E.G) (fs : List (List Char)) (rs : List CSet)
    (h : Api.formulaeDirty E C E.G.unit0 fs = .ok rs) :
    ∀ r ∈ rs, ∃ f, Api.sanitize E r = some f ∧ ∀ s c v, (⟨s, c, v⟩ : Point) ∈ E.pts → f s c = r ⟨s, c, v⟩ := by
  rcases formulaeDirty_correct hC hE hG hA fs with ⟨e, _, he⟩ | ⟨trees, ps, ds, rs', hp, hrs, hlen, hall⟩
  · rw [he] at h; cases h
  · rw [hrs] at h
    simp only [Outcome.ok.injEq] at h
    subst h
    intro r hr
    obtain ⟨i, hi, rfl⟩ := List.getElem_of_mem hr
    have hi' : i < trees.length := by omega
    have hq := parseAll_goodQ hC E fs trees ps ds hp trees[i] (List.getElem_mem hi')
    exact (sanitize_of_sem hE hG noCtx ctxSC_noCtx trees[i] hq.wscoped rs'[i] (fun p hpp => hall i hi' hi p hpp)).2

/-- GENERAL FORM of `k_irrelevant`: two semantically exact results for the same closed formula on graphs that differ
in the number of spare variable sets only coincide as (state, colour) sets -/
theorem k_irrelevant_sem {E E' : Env} (hE : EnvOK E) (hG : GraphWF E.G) (hE' : EnvOK E') (hG' : GraphWF E'.G)
    (hsame : SameButK E.G E'.G) (K : SemCtx) (hSC : CtxSC K) (k0 : Nat) (hk : k0 ≤ E.G.k) (hk' : k0 ≤ E'.G.k)
    (t : Tree) (hw : WellScoped k0 0 t) (r r' : CSet) (hr : Sem E r E.G.unit0 (sat E.G K t))
    (hr' : Sem E' r' E'.G.unit0 (sat E'.G K t))
    (s c : Nat) (v v' : List Nat) (hmem : (⟨s, c, v⟩ : Point) ∈ E.pts) (hmem' : (⟨s, c, v'⟩ : Point) ∈ E'.pts) :
    r ⟨s, c, v⟩ = r' ⟨s, c, v'⟩ := by
  have hl : k0 ≤ v.length := by have := len_v hE hG hmem; simp at this; omega
  have hl' : k0 ≤ v'.length := by have := len_v hE' hG' hmem'; simp at this; omega
  have hg : sat E.G K t ⟨s, c, v⟩ ↔ sat E'.G K t ⟨s, c, v⟩ :=
    sat_graph_congr K t ⟨s, c, v⟩ ⟨hsame.nV, hsame.nS, fun j s' => by rw [hsame.step], hsame.label⟩
  have hv := sat_congr E'.G K hSC k0 t 0 s c v v' hw hl hl' (fun i hi => absurd hi (Nat.not_lt_zero i))
  have hu : E.G.unit0 ⟨s, c, v⟩ = E'.G.unit0 ⟨s, c, v'⟩ := by simp [Graph.unit0, hsame.valid]
  apply Bool.eq_iff_iff.mpr
  rw [hr _ hmem, hr' _ hmem', hu]
  exact and_congr Iff.rfl (hg.trans hv)

end Hctl.C15
