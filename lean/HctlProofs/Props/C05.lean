/-
  C05 — the parser accepts exactly the documented grammar and never drops input.
  ONLY property theorems and non-vacuity examples live here; lemmas are in HctlProofs/Lemmas.
-/
import HctlProofs.Lemmas.ParserCorrect
import HctlProofs.Lemmas.LexerLemmas
import HctlProofs.Lemmas.LexSpec
import HctlModel.Api
namespace Hctl.C05

/-- The fuel the model passes is always sufficient: fuel exhaustion is never an answer. -/
theorem parse_fuel_sufficient (ts : List Tok) : parseToks ts ≠ .error .fuel := by
  have h := (parse_no_fuel (parseFuel ts)).1 ts
  apply h
  simp [need, parseFuel, Lvl.rank]; omega

/-- MAIN: a token list (of any length and nesting) is accepted with tree `t` exactly when it derives `t`
in the documented stratified grammar. -/
theorem parse_iff_derives (ts : List Tok) (t : Tree) : parseToks ts = .ok t ↔ Derives ts t := by
  constructor
  · intro h
    exact (parse_sound _).1 ts t h
  · intro h
    have := parse_complete h (parseFuel ts) (by simp [need, parseFuel, Lvl.rank]; omega)
    simpa [parseAt, parseToks] using this

/-- Rejection is exactly non-derivability. -/
theorem reject_iff_not_derivable (ts : List Tok) :
    parseToks ts = .error .bad ↔ ¬ ∃ t, Derives ts t := by
  constructor
  · intro h ⟨t, ht⟩
    rw [(parse_iff_derives ts t).mpr ht] at h
    cases h
  · intro h
    cases hp : parseToks ts with
    | ok t => exact absurd ⟨t, (parse_iff_derives ts t).mp hp⟩ h
    | error e =>
      cases e with
      | bad => rfl
      | fuel => exact absurd hp (parse_fuel_sufficient ts)

/-- The grammar dictates a unique tree. -/
theorem derives_functional (ts : List Tok) (t t' : Tree) (h : Derives ts t) (h' : Derives ts t') : t = t' := by
  have a := (parse_iff_derives ts t).mpr h
  have b := (parse_iff_derives ts t').mpr h'
  rw [a] at b
  cases b
  rfl

/-- No token of an accepted input is ever ignored: the flattened input (groups opened, constants resolved)
is exactly the frontier of the produced tree. -/
theorem accepted_frontier (ts : List Tok) (t : Tree) (h : parseToks ts = .ok t) :
    Tok.flatList ts = t.frontier :=
  ((parse_iff_derives ts t).mp h).frontier_eq

/-- Redundant parentheses around a complete formula do not change the tree. -/
theorem paren_invariant (ts : List Tok) (t : Tree) (h : parseToks ts = .ok t) :
    parseToks [.group ts] = .ok t := by
  rw [parse_iff_derives] at h ⊢
  exact D.up (by decide) (D.up (by decide) (D.up (by decide) (D.up (by decide) (D.up (by decide)
    (D.up (by decide) (D.up (by decide) (D.up (by decide) (D.group h))))))))

/-- The plain parser rejects wild-cards and domains: whatever text it accepts yields a tree without
wild-card propositions and without domains (for every text, of any length and nesting). -/
theorem plain_rejects_ext (K : CharClass) (hK : Lex.CharOK K) (cs : List Char) (ts : List Tok) (t : Tree)
    (hl : Lex.tokenize K false cs = .ok ts) (hp : parseToks ts = .ok t) : Plain t := by
  apply plain_of_frontier
  rw [← accepted_frontier ts t hp]
  exact (Lex.tokenize_ext_of_plain K hK cs ts hl).2

/-- The extended parser yields the same tree as the plain one on every text the plain parser accepts. -/
theorem ext_extends_plain (K : CharClass) (hK : Lex.CharOK K) (cs : List Char) (ts : List Tok)
    (hl : Lex.tokenize K false cs = .ok ts) : Lex.tokenize K true cs = .ok ts :=
  (Lex.tokenize_ext_of_plain K hK cs ts hl).1

/-- The same two statements at the level of the entry point `parse_and_minimize_(extended_)formula`. -/
theorem parseOne_ext_of_plain (E : Env) (K : CharClass) (hK : Lex.CharOK K) (cs : List Char) (t : Tree)
    (h : Api.parseOne E K false cs = .ok t) : Api.parseOne E K true cs = .ok t := by
  unfold Api.parseOne at h ⊢
  cases hl : Lex.tokenize K false cs with
  | error e => simp [hl] at h
  | ok ts =>
    rw [ext_extends_plain K hK cs ts hl]
    simpa [hl] using h

/-- THE TOKENIZER MEETS ITS SPECIFICATION (`Lemmas/LexSpec.lean`: `Sp`, `Seg` — which texts spell which token lists):
a text is tokenized to `toks` exactly when it spells `toks`. -/
theorem lexer_meets_spec (K : CharClass) (hK : Lex.CharsOK K) (ext : Bool) (cs : List Char) (toks : List Tok) :
    Lex.tokenize K ext cs = .ok toks ↔ Lex.Sp K ext cs toks := Lex.tokenize_iff_spells hK ext cs toks

/-- FULL STATEMENT (text level): a text is accepted with tree `t` exactly when it spells a token list that derives `t`
in the documented grammar — tokenizer and parser together accept exactly the documented language. -/
theorem accepts_iff (K : CharClass) (hK : Lex.CharsOK K) (ext : Bool) (cs : List Char) (t : Tree) :
    (∃ toks, Lex.tokenize K ext cs = .ok toks ∧ parseToks toks = .ok t) ↔ ∃ toks, Lex.Sp K ext cs toks ∧ Derives toks t := by
  constructor
  · rintro ⟨toks, h1, h2⟩
    exact ⟨toks, (lexer_meets_spec K hK ext cs toks).mp h1, (parse_iff_derives toks t).mp h2⟩
  · rintro ⟨toks, h1, h2⟩
    exact ⟨toks, (lexer_meets_spec K hK ext cs toks).mpr h1, (parse_iff_derives toks t).mpr h2⟩

/-! Non-vacuity: concrete accepted inputs, priorities and associativity, and the repaired defect D7. -/

private def a : Tok := .atom (.prop "a".toList)
private def b : Tok := .atom (.prop "b".toList)
private def c : Tok := .atom (.prop "c".toList)
private def A : Tree := .atom (.prop "a".toList)
private def B : Tree := .atom (.prop "b".toList)
private def C : Tree := .atom (.prop "c".toList)

-- `a & b | c`  parses as  `(a & b) | c`;  `a | b & c`  as  `a | (b & c)`
example : parseToks [a, .bin .and, b, .bin .or, c] = .ok (.bin .or (.bin .and A B) C) := by decide
example : parseToks [a, .bin .or, b, .bin .and, c] = .ok (.bin .or A (.bin .and B C)) := by decide
-- right associativity, also of the binary temporal operators
example : parseToks [a, .bin .imp, b, .bin .imp, c] = .ok (.bin .imp A (.bin .imp B C)) := by decide
example : parseToks [a, .bin .eu, b, .bin .aw, c] = .ok (.bin .eu A (.bin .aw B C)) := by decide
-- unary binds tighter than binary temporal
example : parseToks [.un .ex, a, .bin .eu, b] = .ok (.bin .eu (.un .ex A) B) := by decide
-- hybrid operators only at the start of a formula or group
example : parseToks [a, .bin .and, .hyb .bind "x".toList none, b] = .error .bad := by decide
example : parseToks [a, .bin .and, .group [.hyb .bind "x".toList none, b]]
    = .ok (.bin .and A (.hyb .bind "x".toList none B)) := by decide
-- D7 (repaired in /repo): `(a) ~b` must be rejected, not parsed as `~b`
example : parseToks [.group [a], .un .not, b] = .error .bad := by decide
example : Derives [a, .bin .and, b] (.bin .and A B) :=
  (parse_iff_derives _ _).mp (by decide)

end Hctl.C05
