/-
  C04 — sub-formula caching and batch evaluation are observationally transparent.
-/
import HctlProofs.Lemmas.CacheMain
import HctlProofs.Lemmas.KeyProof
import HctlProofs.Lemmas.MarkDups
import HctlModel.Api
namespace Hctl.C04
open Hctl Kripke

section main
variable {C : CharClass} {E : Env} (hE : EnvOK E) (hG : GraphWF E.G) {K : SemCtx} (hK : CtxOK E K) {U0 : CSet}
  (hC : Lex.CharsOK C) (hSC : CtxSC K) (hU0 : ∀ p ∈ E.pts, ∀ i t, t < E.G.nS → U0 (p.setV i t) = U0 p)
  (hA : C12.GraphAsync E.G)
include hE hG hK hC hSC hU0 hA

/-- MAIN (one call, any history): from EVERY context satisfying the cache invariant — i.e. after any sequence of
previous evaluations, with any duplicate counters — `eval_node` returns exactly the satisfaction set of its
formula, leaves the invariant intact and restores `free_var_domains`. -/
theorem cache_transparent (t : Tree) (U : CSet) (ds : List (Option Name)) (ctx : ECtx)
    (hq : GoodQ C E K U0 t U ds) (hf : ctx.fvd = fvdOf ds) (hc : CacheOK C E K U0 ctx) :
    ∃ r ctx', Eval.evalNode E (Ops.steadyOf E U0) t U ctx = .ok (r, ctx') ∧
      Sem E r U (sat E.G K t) ∧ CacheOK C E K U0 ctx' ∧ ctx'.fvd = ctx.fvd :=
  evalNode_sound hC hE hG hK (keySem_holds hC hE hG hK hSC hU0) (keyWild_holds hC E K U0) hA t U ds ctx hq hf hc

/-- … hence it equals the cache-free evaluator (sharing disabled) -/
theorem cached_eq_pure (t : Tree) (U : CSet) (ds : List (Option Name)) (ctx : ECtx)
    (hq : GoodQ C E K U0 t U ds) (hf : ctx.fvd = fvdOf ds) (hc : CacheOK C E K U0 ctx) :
    ∃ r ctx', Eval.evalNode E (Ops.steadyOf E U0) t U ctx = .ok (r, ctx') ∧
      EqOn E.pts r (Eval.evalPure E (Ops.steadyOf E U0) K.wild K.dom t U) := by
  obtain ⟨r, ctx', he, hs, _, _⟩ := cache_transparent hE hG hK hC hSC hU0 hA t U ds ctx hq hf hc
  exact ⟨r, ctx', he, hs.eqOn (evalPure_correct hE hG K hK U0 _ t ds.length U hq.wscoped.wellNamed hq.domsIn hq.unit)⟩

/-- MAIN (batches): folding `eval_node` over a list of formulae with ONE threaded context returns, position by
position, the exact satisfaction sets — whatever the initial invariant-satisfying context was. -/
theorem batch_sound : ∀ (trees : List Tree) (ctx : ECtx), (∀ t ∈ trees, GoodQ C E K U0 t U0 []) → ctx.fvd = [] →
    CacheOK C E K U0 ctx →
    ∃ rs, Api.evalAll E (Ops.steadyOf E U0) U0 trees ctx = .ok rs ∧ rs.length = trees.length ∧
      ∀ i (hi : i < trees.length) (hi' : i < rs.length), Sem E rs[i] U0 (sat E.G K trees[i]) := by
  intro trees
  induction trees with
  | nil => intro ctx _ _ _; exact ⟨[], rfl, rfl, fun i hi => absurd hi (Nat.not_lt_zero i)⟩
  | cons t ts ih =>
    intro ctx hq hf hc
    obtain ⟨r, ctx', he, hs, hc', hf'⟩ :=
      evalNode_sound hC hE hG hK (keySem_holds hC hE hG hK hSC hU0) (keyWild_holds hC E K U0) hA t U0 [] ctx (hq t (by simp)) (by simpa [fvdOf, fvdFrom] using hf) hc
    obtain ⟨rs, hev, hlen, hall⟩ := ih ctx' (fun t' ht' => hq t' (by simp [ht'])) (hf'.trans hf) hc'
    refine ⟨r :: rs, by simp [Api.evalAll, he, hev], by simp [hlen], ?_⟩
    intro i hi hi'
    cases i with
    | zero => simpa using hs
    | succ i => simpa using hall i (by simpa using hi) (by simpa using hi')

/-- two batch evaluations (different orders, repetitions, different duplicate counters, different initial
caches) agree on every formula they have in common -/
theorem batch_results_agree (trees1 trees2 : List Tree) (ctx1 ctx2 : ECtx)
    (hq1 : ∀ t ∈ trees1, GoodQ C E K U0 t U0 []) (hq2 : ∀ t ∈ trees2, GoodQ C E K U0 t U0 [])
    (hf1 : ctx1.fvd = []) (hf2 : ctx2.fvd = []) (hc1 : CacheOK C E K U0 ctx1) (hc2 : CacheOK C E K U0 ctx2) :
    ∃ rs1 rs2, Api.evalAll E (Ops.steadyOf E U0) U0 trees1 ctx1 = .ok rs1 ∧
      Api.evalAll E (Ops.steadyOf E U0) U0 trees2 ctx2 = .ok rs2 ∧
      ∀ i j (hi : i < trees1.length) (hj : j < trees2.length) (hi' : i < rs1.length) (hj' : j < rs2.length),
        trees1[i] = trees2[j] → EqOn E.pts rs1[i] rs2[j] := by
  obtain ⟨rs1, he1, _, h1⟩ := batch_sound hE hG hK hC hSC hU0 hA trees1 ctx1 hq1 hf1 hc1
  obtain ⟨rs2, he2, _, h2⟩ := batch_sound hE hG hK hC hSC hU0 hA trees2 ctx2 hq2 hf2 hc2
  refine ⟨rs1, rs2, he1, he2, ?_⟩
  intro i j hi hj hi' hj' heq
  have a := h1 i hi hi'
  have b := h2 j hj hj'
  rw [heq] at a
  exact a.eqOn b

omit hK hC hSC hU0 hA in
/-- with an empty context (no wild-cards) ANY duplicate map whose keys have at most one variable gives an
invariant-satisfying initial context; the empty map (sharing disabled) trivially so -/
theorem init_cacheOK_plain (D : DupMap)
    (hD : ∀ key n, dupGet key D = some n → KeyWitness C E key) :
    CacheOK C E noCtx U0 { dups := D } :=
  ⟨fun _ _ _ h => by simp [cacheGet] at h, fun _ _ h => by simp [noCtx, noCtx'] at h,
   fun _ _ h => by simp [noCtx, noCtx'] at h, hD⟩

omit hK hC hSC hU0 hA in
theorem init_cacheOK_noSharing : CacheOK C E noCtx U0 { dups := [] } :=
  init_cacheOK_plain hE hG [] (fun _ _ h => by simp [dupGet] at h)

end main

/-- the context of the extended entry points: wild-card and domain sets looked up by name -/
def ctxOf (props doms : List (Name × CSet)) : SemCtx := ⟨fun n => props.lookup n, fun n => doms.lookup n⟩

theorem lookup_of_mem_nodup {α : Type} : ∀ (l : List (Name × α)) (e : Name × α), (l.map Prod.fst).Nodup → e ∈ l →
    l.lookup e.1 = some e.2 := by
  intro l
  induction l with
  | nil => intro e _ h; simp at h
  | cons x l ih =>
    intro e hn he
    obtain ⟨k, v⟩ := x
    simp only [List.map_cons, List.nodup_cons] at hn
    simp only [List.mem_cons] at he
    simp only [List.lookup]
    rcases he with rfl | he
    · simp
    · have hne : e.1 ≠ k := by
        intro h
        apply hn.1
        rw [← h]
        exact List.mem_map.mpr ⟨e, he, rfl⟩
      have : (e.1 == k) = false := beq_eq_false_iff_ne.mpr hne
      simp only [this]
      exact ih e hn.2 he

theorem lookup_mem_gen {α : Type} {w : Name} {a : α} : ∀ (l : List (Name × α)), l.lookup w = some a → (w, a) ∈ l := by
  intro l
  induction l with
  | nil => intro h; simp at h
  | cons x ps ih =>
    intro h
    obtain ⟨k, v⟩ := x
    simp only [List.lookup] at h
    by_cases hk : w = k
    · subst hk; simp at h; subst h; simp
    · have hb : (w == k) = false := beq_eq_false_iff_ne.mpr hk
      simp only [hb] at h
      exact List.mem_cons_of_mem _ (ih h)

theorem wkey_inj {a b : Name} (h : wkey a = wkey b) : a = b := by
  simp only [wkey, Prod.mk.injEq, and_true] at h
  have := List.append_cancel_right h
  simpa using this

/-- one step of the wild-card loop of `extend_context_with_wild_cards` -/
def wildStep (c : ECtx) (e : Name × CSet) : ECtx :=
  let key : Key := ('%' :: e.1 ++ ['%'], [])
  let dups := match dupGet key c.dups with
    | some n => dupSet key (n + 1) c.dups
    | none => dupSet key 1 c.dups
  { c with dups := dups, cache := cacheInsert key (e.2, []) c.cache }

structure WInv (D : DupMap) (done : List (Name × CSet)) (c : ECtx) : Prop where
  i1 : ∀ key R rren, cacheGet key c.cache = some (R, rren) → ∃ e ∈ done, key = wkey e.1 ∧ R = e.2 ∧ rren = []
  i2 : ∀ e ∈ done, cacheGet (wkey e.1) c.cache = some (e.2, []) ∧ (dupGet (wkey e.1) c.dups).isSome = true
  i3 : ∀ key n, dupGet key c.dups = some n → (∃ e ∈ done, key = wkey e.1) ∨ (dupGet key D).isSome = true

theorem winv_step {D : DupMap} {done : List (Name × CSet)} {c : ECtx} (h : WInv D done c) (e : Name × CSet)
    (hnew : ∀ e' ∈ done, e'.1 ≠ e.1) : WInv D (done ++ [e]) (wildStep c e) := by
  have hk : (('%' :: e.1 ++ ['%'], []) : Key) = wkey e.1 := rfl
  refine ⟨?_, ?_, ?_⟩
  · intro key R rren hg
    simp only [wildStep, hk] at hg
    by_cases hkey : key = wkey e.1
    · subst hkey
      rw [cacheGet_insert_same] at hg
      cases hg
      exact ⟨e, by simp, rfl, rfl, rfl⟩
    · rw [cacheGet_insert_ne _ _ _ _ hkey] at hg
      obtain ⟨e', he', h1, h2, h3⟩ := h.i1 key R rren hg
      exact ⟨e', by simp [he'], h1, h2, h3⟩
  · intro e' he'
    simp only [List.mem_append, List.mem_singleton] at he'
    simp only [wildStep, hk]
    have hd : ∀ k, (dupGet k c.dups).isSome = true ∨ k = wkey e.1 →
        (dupGet k (match dupGet (wkey e.1) c.dups with
          | some n => dupSet (wkey e.1) (n + 1) c.dups
          | none => dupSet (wkey e.1) 1 c.dups)).isSome = true := by
      intro k hk'
      cases hdg : dupGet (wkey e.1) c.dups with
      | some n =>
        simp only
        rcases hk' with h' | rfl
        · exact dupGet_set_isSome _ _ _ _ h'
        · simp [dupGet_set_same]
      | none =>
        simp only
        rcases hk' with h' | rfl
        · exact dupGet_set_isSome _ _ _ _ h'
        · simp [dupGet_set_same]
    rcases he' with he' | rfl
    · have hne : wkey e'.1 ≠ wkey e.1 := fun hh => hnew e' he' (wkey_inj hh)
      rw [cacheGet_insert_ne _ _ _ _ hne]
      exact ⟨(h.i2 e' he').1, hd _ (Or.inl (h.i2 e' he').2)⟩
    · rw [cacheGet_insert_same]
      exact ⟨rfl, hd _ (Or.inr rfl)⟩
  · intro key n hg
    simp only [wildStep, hk] at hg
    by_cases hkey : key = wkey e.1
    · exact Or.inl ⟨e, by simp, hkey⟩
    · have : dupGet key c.dups = some n := by
        cases hdg : dupGet (wkey e.1) c.dups with
        | some m => simp only [hdg] at hg; rwa [dupGet_set_ne _ _ _ _ hkey] at hg
        | none => simp only [hdg] at hg; rwa [dupGet_set_ne _ _ _ _ hkey] at hg
      rcases h.i3 key n this with ⟨e', he', h1⟩ | h1
      · exact Or.inl ⟨e', by simp [he'], h1⟩
      · exact Or.inr h1

theorem winv_fold {D : DupMap} : ∀ (todo done : List (Name × CSet)) (c : ECtx), WInv D done c →
    ((done ++ todo).map Prod.fst).Nodup → WInv D (done ++ todo) (todo.foldl wildStep c) := by
  intro todo
  induction todo with
  | nil => intro done c h _; simpa using h
  | cons e todo ih =>
    intro done c h hn
    have hnew : ∀ e' ∈ done, e'.1 ≠ e.1 := by
      intro e' he' heq
      simp only [List.map_append, List.map_cons] at hn
      rw [List.nodup_append] at hn
      exact hn.2.2 e'.1 (List.mem_map.mpr ⟨e', he', rfl⟩) e.1 (by simp) heq
    have := ih (done ++ [e]) (wildStep c e) (winv_step h e hnew) (by simpa using hn)
    simpa using this

theorem lookup_filter_ne (l k : Name) (hlk : l ≠ k) : ∀ (acc : List (Name × CSet)),
    (acc.filter (fun x => x.1 != k)).lookup l = acc.lookup l := by
  intro acc
  induction acc with
  | nil => rfl
  | cons x acc ih =>
    obtain ⟨k', v'⟩ := x
    simp only [List.filter_cons]
    by_cases hd' : k' = k
    · have h1 : ((k', v').1 != k) = false := by simp [hd']
      have hb' : (l == k') = false := beq_eq_false_iff_ne.mpr (by rw [hd']; exact hlk)
      simp only [h1, Bool.false_eq_true, if_false, List.lookup, hb']
      exact ih
    · have h1 : ((k', v').1 != k) = true := by simpa using hd'
      simp only [h1, if_true, List.lookup]
      rw [ih]

theorem domFold_keep (l : Name) (a : CSet) : ∀ (ds : List (Name × CSet)) (acc : List (Name × CSet)),
    l ∉ ds.map Prod.fst → acc.lookup l = some a →
    (ds.foldl (fun acc e => (e.1, e.2) :: acc.filter (fun x => x.1 != e.1)) acc).lookup l = some a := by
  intro ds
  induction ds with
  | nil => intro acc _ h; exact h
  | cons d ds ih =>
    intro acc hnot hacc
    simp only [List.map_cons, List.mem_cons, not_or] at hnot
    simp only [List.foldl_cons]
    apply ih _ hnot.2
    have hb : (l == d.1) = false := beq_eq_false_iff_ne.mpr hnot.1
    simp only [List.lookup, hb]
    rw [lookup_filter_ne l d.1 hnot.1]
    exact hacc

theorem domFold_lookup : ∀ (doms : List (Name × CSet)) (acc : List (Name × CSet)), (doms.map Prod.fst).Nodup →
    ∀ l a, doms.lookup l = some a →
      (doms.foldl (fun acc e => (e.1, e.2) :: acc.filter (fun x => x.1 != e.1)) acc).lookup l = some a := by
  intro doms
  induction doms with
  | nil => intro acc _ l a h; simp at h
  | cons e doms ih =>
    intro acc hn l a h
    obtain ⟨k, v⟩ := e
    simp only [List.map_cons, List.nodup_cons] at hn
    simp only [List.foldl_cons]
    simp only [List.lookup] at h
    by_cases hl : l = k
    · subst hl
      simp at h
      subst h
      exact domFold_keep l v doms _ hn.1 (by simp [List.lookup])
    · have hb : (l == k) = false := beq_eq_false_iff_ne.mpr hl
      simp only [hb] at h
      exact ih _ hn.2 l a h

theorem extend_eq (ctx : ECtx) (props doms : List (Name × CSet)) :
    ctx.extendWithWildCards props doms =
      { props.foldl wildStep ctx with
        domRaw := doms.foldl (fun acc e => (e.1, e.2) :: acc.filter (fun x => x.1 != e.1)) (props.foldl wildStep ctx).domRaw } := rfl

/-- MAIN (initial context of the extended entry points): the context built by `extend_context_with_wild_cards` from
ANY duplicate map whose keys have at most one variable satisfies the cache invariant for the evaluation context given
by the (deduplicated) wild-card and domain sets — so `cache_transparent` / `batch_sound` apply to the extended entry
points from their very first call. -/
theorem init_cacheOK_ext {C : CharClass} (hC : Lex.CharsOK C) {E : Env} {U0 : CSet} (D : DupMap)
    (props doms : List (Name × CSet)) (hp : (props.map Prod.fst).Nodup) (hd : (doms.map Prod.fst).Nodup)
    (hpv : ∀ e ∈ props, Lex.ValidId C e.1) (hD : ∀ key n, dupGet key D = some n → KeyWitness C E key) :
    CacheOK C E (ctxOf props doms) U0 (({ dups := D } : ECtx).extendWithWildCards props doms) := by
  have h0 : WInv D [] ({ dups := D } : ECtx) :=
    ⟨fun _ _ _ h => by simp [cacheGet] at h, fun _ h => by simp at h, fun key n h => Or.inr (by simp [h])⟩
  have hw := winv_fold props [] _ h0 (by simpa using hp)
  simp only [List.nil_append] at hw
  have hKW := keyWild_holds hC E (ctxOf props doms) U0
  rw [extend_eq]
  refine ⟨?_, ?_, ?_, ?_⟩
  · intro key R rren hg
    left
    obtain ⟨e, he, h1, h2, h3⟩ := hw.i1 key R rren hg
    exact ⟨e.1, e.2, h1, lookup_of_mem_nodup props e hp he, h2, h3⟩
  · intro w a hwa
    have hmem : (w, a) ∈ props := lookup_mem_gen props hwa
    exact hw.i2 (w, a) hmem
  · intro l a hla
    exact domFold_lookup doms _ hd l a hla
  · intro key n hg
    rcases hw.i3 key n hg with ⟨e, he, h1⟩ | h1
    · subst h1
      refine ⟨.atom (.wild e.1), 0, [], [], ?_, by simp, by simp [DepthNamed], by simp [WellScoped],
        by simpa [Lex.TreeOK] using hpv e he, by simp [PropNamesOK]⟩
      have := hKW.wild_key e.1 [] (hpv e he)
      simpa [fvdOf, fvdFrom] using this
    · cases hdg : dupGet key D with
      | none => simp [hdg] at h1
      | some m => exact hD key m hdg

end Hctl.C04

namespace Hctl.C04
open Hctl Kripke

theorem dedupNames_nodup (l : List (Name × CSet)) : ((Api.dedupNames l).map Prod.fst).Nodup := by
  unfold Api.dedupNames
  have key : ∀ (l acc : List (Name × CSet)), (acc.map Prod.fst).Nodup →
      ((l.foldl (fun acc e => if acc.any (fun x => x.1 == e.1) then acc else acc ++ [e]) acc).map Prod.fst).Nodup := by
    intro l
    induction l with
    | nil => intro acc h; exact h
    | cons e l ih =>
      intro acc h
      simp only [List.foldl_cons]
      apply ih
      by_cases ha : acc.any (fun x => x.1 == e.1) = true
      · simp only [ha, if_true]; exact h
      · simp only [ha, if_false, Bool.false_eq_true, List.map_append, List.map_cons, List.map_nil]
        rw [List.nodup_append]
        refine ⟨h, by simp, ?_⟩
        intro a haa b hb
        simp only [List.mem_singleton] at hb
        subst hb
        intro hab
        subst hab
        apply ha
        obtain ⟨x, hx, hxe⟩ := List.mem_map.mp haa
        exact List.any_eq_true.mpr ⟨x, hx, by simp [hxe]⟩
  exact key l [] (by simp)

theorem wildFold_fvd : ∀ (l : List (Name × CSet)) (c : ECtx), (l.foldl wildStep c).fvd = c.fvd := by
  intro l
  induction l with
  | nil => intro c; rfl
  | cons e l ih => intro c; simp only [List.foldl_cons]; rw [ih]; rfl

section
variable {C : CharClass} (hC : Lex.CharsOK C) {E : Env} (hE : EnvOK E) (hG : GraphWF E.G) (hA : C12.GraphAsync E.G)
include hC hE hG hA

/-- END TO END, extended entry points (`model_check_multiple_extended_formulae_dirty` after parsing): evaluating the
preprocessed trees in the context built from the duplicate map and the wild-card / domain sets returns, position by
position, exactly the satisfaction sets under the reference semantics. -/
theorem extended_batch_sound (U0 : CSet) (trees : List Tree) (D : DupMap) (props doms : List (Name × CSet))
    (hK : CtxOK E (ctxOf (Api.dedupNames props) (Api.dedupNames doms)))
    (hSC : CtxSC (ctxOf (Api.dedupNames props) (Api.dedupNames doms)))
    (hU0 : ∀ p ∈ E.pts, ∀ i t, t < E.G.nS → U0 (p.setV i t) = U0 p)
    (hq : ∀ t ∈ trees, GoodQ C E (ctxOf (Api.dedupNames props) (Api.dedupNames doms)) U0 t U0 [])
    (hpv : ∀ e ∈ Api.dedupNames props, Lex.ValidId C e.1)
    (hD : ∀ key n, dupGet key D = some n → KeyWitness C E key) :
    ∃ rs, Api.evalAll E (Ops.steadyOf E U0) U0 trees
        (({ dups := D } : ECtx).extendWithWildCards (Api.dedupNames props) (Api.dedupNames doms)) = .ok rs ∧
      rs.length = trees.length ∧
      ∀ i (hi : i < trees.length) (hi' : i < rs.length),
        Sem E rs[i] U0 (sat E.G (ctxOf (Api.dedupNames props) (Api.dedupNames doms)) trees[i]) := by
  have hc := init_cacheOK_ext hC (E := E) (U0 := U0) D _ _ (dedupNames_nodup props) (dedupNames_nodup doms) hpv hD
  exact batch_sound hE hG hK hC hSC hU0 hA trees _ hq (by simp [extend_eq, wildFold_fvd]) hc

end
section
variable {C : CharClass} (hC : Lex.CharsOK C) {E : Env} (hE : EnvOK E) (hG : GraphWF E.G) (hA : C12.GraphAsync E.G)
include hC hE hG hA

omit hC hE hG hA in
theorem goodQ_roots {K : SemCtx} {U0 : CSet} (trees : List Tree) (hq : ∀ t ∈ trees, GoodQ C E K U0 t U0 []) :
    ∀ t ∈ trees, DepthNamed 0 t ∧ WellScoped E.G.k 0 t ∧ Lex.TreeOK C t ∧ PropNamesOK t :=
  fun t ht => ⟨(hq t ht).named, (hq t ht).wscoped, (hq t ht).valid.1, (hq t ht).valid.2⟩

/-- END TO END, plain batch entry point (`_model_check_multiple_trees_dirty`): with the duplicate map computed by
`mark_duplicates` ITSELF, the results are exactly the satisfaction sets — no hypothesis about keys or duplicates is
left. -/
theorem treesDirty_sound (U0 : CSet) (trees : List Tree)
    (hU0 : ∀ p ∈ E.pts, ∀ i t, t < E.G.nS → U0 (p.setV i t) = U0 p)
    (hq : ∀ t ∈ trees, GoodQ C E noCtx U0 t U0 []) :
    ∃ rs, Api.treesDirty E U0 trees = .ok rs ∧ rs.length = trees.length ∧
      ∀ i (hi : i < trees.length) (hi' : i < rs.length), Sem E rs[i] U0 (sat E.G noCtx trees[i]) := by
  have hc : CacheOK C E noCtx U0 { dups := markDups trees } :=
    init_cacheOK_plain hE hG _ (markDups_witness trees (goodQ_roots trees hq))
  exact batch_sound hE hG (ctxOK_noCtx E) hC ctxSC_noCtx hU0 hA trees _ hq rfl hc

/-- END TO END, extended batch entry point: the context is built from `mark_duplicates` and
`extend_context_with_wild_cards`, nothing else is assumed about it. -/
theorem extendedDirty_sound (U0 : CSet) (trees : List Tree) (props doms : List (Name × CSet))
    (hK : CtxOK E (ctxOf (Api.dedupNames props) (Api.dedupNames doms)))
    (hSC : CtxSC (ctxOf (Api.dedupNames props) (Api.dedupNames doms)))
    (hU0 : ∀ p ∈ E.pts, ∀ i t, t < E.G.nS → U0 (p.setV i t) = U0 p)
    (hpv : ∀ e ∈ Api.dedupNames props, Lex.ValidId C e.1)
    (hq : ∀ t ∈ trees, GoodQ C E (ctxOf (Api.dedupNames props) (Api.dedupNames doms)) U0 t U0 []) :
    ∃ rs, Api.evalAll E (Ops.steadyOf E U0) U0 trees
        (({ dups := markDups trees } : ECtx).extendWithWildCards (Api.dedupNames props) (Api.dedupNames doms)) = .ok rs ∧
      rs.length = trees.length ∧
      ∀ i (hi : i < trees.length) (hi' : i < rs.length),
        Sem E rs[i] U0 (sat E.G (ctxOf (Api.dedupNames props) (Api.dedupNames doms)) trees[i]) :=
  extended_batch_sound hC hE hG hA U0 trees _ props doms hK hSC hU0 hq hpv
    (markDups_witness trees (goodQ_roots trees hq))

end
end Hctl.C04
