/-
  C04 — sub-formula caching and batch evaluation are observationally transparent.
-/
import HctlProofs.Lemmas.CacheMain
import HctlProofs.Lemmas.KeyProof
import HctlModel.Api
namespace Hctl.C04
open Hctl Kripke

variable {C : CharClass} {E : Env} (hE : EnvOK E) (hG : GraphWF E.G) {K : SemCtx} (hK : CtxOK E K) {U0 : CSet}
  (hC : Lex.CharsOK C) (hSC : CtxSC K) (hU0 : ∀ p ∈ E.pts, ∀ i t, t < E.G.nS → U0 (p.setV i t) = U0 p)
  (hA : C12.GraphAsync E.G)
include hE hG hK hC hSC hU0 hA

/-- MAIN (one call, any history): from EVERY context satisfying the cache invariant — i.e. after any sequence of
previous evaluations, with any duplicate counters — `eval_node` returns exactly the satisfaction set of its
formula, leaves the invariant intact and restores `free_var_domains`. -/
theorem cache_transparent (t : Tree) (U : CSet) (ds : List (Option Name)) (ctx : ECtx)
    (hq : GoodQ C E K U0 t U ds) (hf : ctx.fvd = fvdOf ds) (hc : CacheOK C E K U0 ctx) :
    ∃ r ctx', Eval.evalNode E (Ops.steadyOf E U0) t U ctx = .ok (r, ctx') ∧
      Sem E r U (sat E.G K t) ∧ CacheOK C E K U0 ctx' ∧ ctx'.fvd = ctx.fvd :=
  evalNode_sound hE hG hK (keySem_holds hC hE hG hK hSC hU0) (keyWild_holds hC E K U0) hA t U ds ctx hq hf hc

/-- … hence it equals the cache-free evaluator (sharing disabled) -/
theorem cached_eq_pure (t : Tree) (U : CSet) (ds : List (Option Name)) (ctx : ECtx)
    (hq : GoodQ C E K U0 t U ds) (hf : ctx.fvd = fvdOf ds) (hc : CacheOK C E K U0 ctx) :
    ∃ r ctx', Eval.evalNode E (Ops.steadyOf E U0) t U ctx = .ok (r, ctx') ∧
      EqOn E.pts r (Eval.evalPure E (Ops.steadyOf E U0) K.wild K.dom t U) := by
  obtain ⟨r, ctx', he, hs, _, _⟩ := cache_transparent hE hG hK hC hSC hU0 hA t U ds ctx hq hf hc
  exact ⟨r, ctx', he, hs.eqOn (evalPure_correct hE hG K hK U0 _ t ds.length U hq.wscoped.wellNamed hq.domsIn hq.unit)⟩

/-- MAIN (batches): folding `eval_node` over a list of formulae with ONE threaded context returns, position by
position, the exact satisfaction sets — whatever the initial invariant-satisfying context was. -/
theorem batch_sound : ∀ (trees : List Tree) (ctx : ECtx), (∀ t ∈ trees, GoodQ C E K U0 t U0 []) → ctx.fvd = [] →
    CacheOK C E K U0 ctx →
    ∃ rs, Api.evalAll E (Ops.steadyOf E U0) U0 trees ctx = .ok rs ∧ rs.length = trees.length ∧
      ∀ i (hi : i < trees.length) (hi' : i < rs.length), Sem E rs[i] U0 (sat E.G K trees[i]) := by
  intro trees
  induction trees with
  | nil => intro ctx _ _ _; exact ⟨[], rfl, rfl, fun i hi => absurd hi (Nat.not_lt_zero i)⟩
  | cons t ts ih =>
    intro ctx hq hf hc
    obtain ⟨r, ctx', he, hs, hc', hf'⟩ :=
      evalNode_sound hE hG hK (keySem_holds hC hE hG hK hSC hU0) (keyWild_holds hC E K U0) hA t U0 [] ctx (hq t (by simp)) (by simpa [fvdOf, fvdFrom] using hf) hc
    obtain ⟨rs, hev, hlen, hall⟩ := ih ctx' (fun t' ht' => hq t' (by simp [ht'])) (hf'.trans hf) hc'
    refine ⟨r :: rs, by simp [Api.evalAll, he, hev], by simp [hlen], ?_⟩
    intro i hi hi'
    cases i with
    | zero => simpa using hs
    | succ i => simpa using hall i (by simpa using hi) (by simpa using hi')

/-- two batch evaluations (different orders, repetitions, different duplicate counters, different initial
caches) agree on every formula they have in common -/
theorem batch_results_agree (trees1 trees2 : List Tree) (ctx1 ctx2 : ECtx)
    (hq1 : ∀ t ∈ trees1, GoodQ C E K U0 t U0 []) (hq2 : ∀ t ∈ trees2, GoodQ C E K U0 t U0 [])
    (hf1 : ctx1.fvd = []) (hf2 : ctx2.fvd = []) (hc1 : CacheOK C E K U0 ctx1) (hc2 : CacheOK C E K U0 ctx2) :
    ∃ rs1 rs2, Api.evalAll E (Ops.steadyOf E U0) U0 trees1 ctx1 = .ok rs1 ∧
      Api.evalAll E (Ops.steadyOf E U0) U0 trees2 ctx2 = .ok rs2 ∧
      ∀ i j (hi : i < trees1.length) (hj : j < trees2.length) (hi' : i < rs1.length) (hj' : j < rs2.length),
        trees1[i] = trees2[j] → EqOn E.pts rs1[i] rs2[j] := by
  obtain ⟨rs1, he1, _, h1⟩ := batch_sound hE hG hK hC hSC hU0 hA trees1 ctx1 hq1 hf1 hc1
  obtain ⟨rs2, he2, _, h2⟩ := batch_sound hE hG hK hC hSC hU0 hA trees2 ctx2 hq2 hf2 hc2
  refine ⟨rs1, rs2, he1, he2, ?_⟩
  intro i j hi hj hi' hj' heq
  have a := h1 i hi hi'
  have b := h2 j hj hj'
  rw [heq] at a
  exact a.eqOn b

omit hK hC hSC hU0 hA in
/-- with an empty context (no wild-cards) ANY duplicate map whose keys have at most one variable gives an
invariant-satisfying initial context; the empty map (sharing disabled) trivially so -/
theorem init_cacheOK_plain (D : DupMap)
    (hD : ∀ key n, dupGet key D = some n → ∀ t U ds ren, GoodQ C E noCtx U0 t U ds →
      keyOf t (fvdOf ds) = (key, ren) → ren.length ≤ 1) :
    CacheOK C E noCtx U0 { dups := D } :=
  ⟨fun _ _ _ h => by simp [cacheGet] at h, fun _ _ h => by simp [noCtx, noCtx'] at h,
   fun _ _ h => by simp [noCtx, noCtx'] at h, hD⟩

omit hK hC hSC hU0 hA in
theorem init_cacheOK_noSharing : CacheOK C E noCtx U0 { dups := [] } :=
  init_cacheOK_plain hE hG [] (fun _ _ h => by simp [dupGet] at h)

end Hctl.C04
