/-
  C07 — preprocessing validates binding and renames variables without changing meaning.
-/
import HctlProofs.Lemmas.RenameLemmas
namespace Hctl.C07
open Hctl

/-- every proposition names a network variable -/
def PropsOK (isNetVar : Name → Bool) : Tree → Prop
  | .atom (.prop n) => isNetVar n = true
  | .atom _ => True
  | .un _ c => PropsOK isNetVar c
  | .bin _ l r => PropsOK isNetVar l ∧ PropsOK isNetVar r
  | .hyb _ _ _ c => PropsOK isNetVar c

/-- MAIN (acceptance): preprocessing accepts a parsed formula exactly when every variable occurrence (jump
targets included) lies in the scope of a quantifier for it, no variable is re-quantified inside its own
scope, and every proposition names a network variable. -/
theorem rename_ok_iff (isNetVar : Name → Bool) (t : Tree) :
    (∃ t', rename isNetVar t = .ok t') ↔ Scoped isNetVar [] t := by
  have := rename_ok_iff_aux isNetVar t [] []
  simpa [rename] using this

/-- otherwise it returns an error -/
theorem rename_err_iff (isNetVar : Name → Bool) (t : Tree) :
    (∃ e, rename isNetVar t = .error e) ↔ ¬ Scoped isNetVar [] t := by
  rw [← rename_ok_iff]
  cases rename isNetVar t <;> simp

/-- the accepted result is alpha-equivalent to the input -/
theorem rename_alpha (isNetVar : Name → Bool) (t t' : Tree) (h : rename isNetVar t = .ok t') :
    toDB [] t = toDB [] t' := by
  have := rename_alpha_aux isNetVar t [] 0 t' (by simpa [rename, xs] using h)
    (fun r hr => by simp at hr) (by simp)
  simpa using this

/-- every quantifier's variable is named by its nesting depth (`x`, `xx`, `xxx`, …) -/
theorem rename_depth_names (isNetVar : Name → Bool) (t t' : Tree) (h : rename isNetVar t = .ok t') :
    DepthNamed 0 t' :=
  rename_depthNamed isNetVar t [] 0 t' (by simpa [rename, xs] using h) (fun x r hl => by simp [List.lookup] at hl)

/-- so the number of distinct names equals the maximal quantifier nesting depth -/
theorem rename_distinct_eq_depth (isNetVar : Name → Bool) (t t' : Tree) (h : rename isNetVar t = .ok t') :
    t'.numQuantVars = t'.depth :=
  numQuantVars_eq_depth t' (rename_depth_names isNetVar t t' h)

/-- and the result satisfies the naming hypothesis of the evaluator theorems (C01/C02/…) for every graph
that passes the support check (`numQuantVars ≤ k`) -/
theorem rename_wellScoped (isNetVar : Name → Bool) (t t' : Tree) (h : rename isNetVar t = .ok t')
    (k : Nat) (hk : t'.numQuantVars ≤ k) : WellScoped k 0 t' := by
  have h1 := (rename_depth_names isNetVar t t' h).wellScoped
  rw [rename_distinct_eq_depth isNetVar t t' h] at hk
  exact h1.mono (by omega)

theorem renameRec_propsOK (isNetVar : Name → Bool) :
    ∀ t m last t', renameRec isNetVar t m last = .ok t' → PropsOK isNetVar t' := by
  intro t
  induction t with
  | atom a =>
    intro m last t' h
    cases a with
    | var x =>
      simp only [renameRec] at h
      cases hl : m.lookup x <;> simp [hl] at h
      subst h; simp [PropsOK]
    | prop n =>
      simp only [renameRec] at h
      split at h <;> simp at h
      subst h; simpa [PropsOK]
    | tt => simp [renameRec] at h; subst h; simp [PropsOK]
    | ff => simp [renameRec] at h; subst h; simp [PropsOK]
    | wild w => simp [renameRec] at h; subst h; simp [PropsOK]
  | un o c ih =>
    intro m last t' h
    simp only [renameRec] at h
    cases hc : renameRec isNetVar c m last <;> simp [hc] at h
    subst h; simp only [PropsOK]; exact ih _ _ _ hc
  | bin o l r ihl ihr =>
    intro m last t' h
    simp only [renameRec] at h
    cases hl : renameRec isNetVar l m last <;> cases hr : renameRec isNetVar r m last <;> simp [hl, hr] at h
    subst h; exact ⟨ihl _ _ _ hl, ihr _ _ _ hr⟩
  | hyb o x d c ih =>
    intro m last t' h
    simp only [renameRec] at h
    by_cases hj : o = .jump
    · simp only [hj, if_true] at h
      cases hc : renameRec isNetVar c m last <;> cases hl : m.lookup x <;> simp [hc, hl] at h
      subst h; simp only [PropsOK]; exact ih _ _ _ hc
    · simp only [hj, if_false] at h
      cases hl : m.lookup x with
      | some r => simp [hl] at h
      | none =>
        simp only [hl, Option.isSome_none, Bool.false_eq_true, if_false] at h
        cases hc : renameRec isNetVar c ((x, last ++ ['x']) :: m) (last ++ ['x']) <;> simp [hc] at h
        subst h; simp only [PropsOK]; exact ih _ _ _ hc

theorem idMap_keys (d : Nat) (y : Name) : y ∈ (idMap d).map Prod.fst ↔ ∃ i, i < d ∧ y = xs (i + 1) := by
  induction d with
  | zero => simp [idMap]
  | succ d ih =>
    simp only [idMap, List.map_cons, List.mem_cons, ih]
    constructor
    · rintro (rfl | ⟨i, hi, rfl⟩)
      · exact ⟨d, Nat.lt_succ_self d, rfl⟩
      · exact ⟨i, Nat.lt_succ_of_lt hi, rfl⟩
    · rintro ⟨i, hi, rfl⟩
      by_cases h : i = d
      · subst h; exact Or.inl rfl
      · exact Or.inr ⟨i, by omega, rfl⟩

theorem depthNamed_scoped (isNetVar : Name → Bool) :
    ∀ t d, DepthNamed d t → PropsOK isNetVar t → Scoped isNetVar ((idMap d).map Prod.fst) t := by
  intro t
  induction t with
  | atom a =>
    intro d hn hp
    cases a with
    | var x => simp only [Scoped]; exact (idMap_keys d x).mpr hn
    | prop n => simpa [Scoped, PropsOK] using hp
    | tt => simp [Scoped]
    | ff => simp [Scoped]
    | wild w => simp [Scoped]
  | un o c ih => intro d hn hp; exact ih d hn hp
  | bin o l r ihl ihr => intro d hn hp; exact ⟨ihl d hn.1 hp.1, ihr d hn.2 hp.2⟩
  | hyb o x dom c ih =>
    intro d hn hp
    simp only [DepthNamed, Scoped, PropsOK] at hn hp ⊢
    by_cases hj : o = .jump
    · simp only [hj, if_true] at hn ⊢
      exact ⟨(idMap_keys d x).mpr hn.1, ih d hn.2 hp⟩
    · simp only [hj, if_false] at hn ⊢
      obtain ⟨rfl, hc⟩ := hn
      refine ⟨?_, ?_⟩
      · intro hmem
        obtain ⟨i, hi, hx⟩ := (idMap_keys d _).mp hmem
        have := xs_inj hx
        omega
      · have := ih (d + 1) hc hp
        simpa [idMap] using this

/-- preprocessing an already preprocessed tree changes nothing -/
theorem rename_idem (isNetVar : Name → Bool) (t t' : Tree) (h : rename isNetVar t = .ok t') :
    rename isNetVar t' = .ok t' := by
  have hn := rename_depth_names isNetVar t t' h
  have hp := renameRec_propsOK isNetVar t [] [] t' h
  have hs := depthNamed_scoped isNetVar t' 0 hn hp
  have := rename_idem_aux isNetVar t' 0 hn hs
  simpa [rename, idMap, xs] using this

/-! Non-vacuity: sibling reuse of a name, user names equal to internal ones in permuted order. -/
private def isAB (n : Name) : Bool := n = ['a'] ∨ n = ['b']
private def t1 : Tree :=  -- (!{xx}: {xx}) & (3{x}: @{x}: a)   with user names xx and x
  .bin .and (.hyb .bind ['x','x'] none (.atom (.var ['x','x'])))
            (.hyb .ex ['x'] none (.hyb .jump ['x'] none (.atom (.prop ['a']))))
example : rename isAB t1 = .ok
  (.bin .and (.hyb .bind ['x'] none (.atom (.var ['x'])))
             (.hyb .ex ['x'] none (.hyb .jump ['x'] none (.atom (.prop ['a']))))) := by decide
example : Scoped isAB [] t1 := by simp [Scoped, t1, isAB]
-- a free variable, a re-quantified variable and an unknown proposition are rejected
example : rename isAB (.atom (.var ['x'])) = .error .free := by decide
example : rename isAB (.hyb .bind ['x'] none (.hyb .ex ['x'] none (.atom .tt))) = .error .requant := by decide
example : rename isAB (.atom (.prop ['q'])) = .error .badprop := by decide

end Hctl.C07
