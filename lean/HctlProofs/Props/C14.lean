/-
  C14 — invalid input is rejected with an error, never a panic or a silent answer.
  In the model every `unwrap` / `unreachable!` / index site of the evaluator is an explicit `Fault.panic`
  outcome; the theorems show that no such outcome is reachable from validated input.
-/
import HctlProofs.Props.C04
namespace Hctl.C14
open Hctl Kripke

/-- preprocessing keeps a plain formula plain -/
theorem renameRec_plain (isNetVar : Name → Bool) :
    ∀ t m last t', renameRec isNetVar t m last = .ok t' → Plain t → Plain t' := by
  intro t
  induction t with
  | atom a =>
    intro m last t' h hp
    cases a with
    | var x =>
      simp only [renameRec] at h
      cases hl : m.lookup x <;> simp [hl] at h
      subst h; simp [Plain]
    | prop n =>
      simp only [renameRec] at h
      split at h <;> simp at h
      subst h; simp [Plain]
    | tt => simp [renameRec] at h; subst h; simp [Plain]
    | ff => simp [renameRec] at h; subst h; simp [Plain]
    | wild w => simp [Plain] at hp
  | un o c ih =>
    intro m last t' h hp
    simp only [renameRec] at h
    cases hc : renameRec isNetVar c m last <;> simp [hc] at h
    subst h; simp only [Plain]; exact ih _ _ _ hc hp
  | bin o l r ihl ihr =>
    intro m last t' h hp
    simp only [renameRec] at h
    cases hl : renameRec isNetVar l m last <;> cases hr : renameRec isNetVar r m last <;> simp [hl, hr] at h
    subst h; exact ⟨ihl _ _ _ hl hp.1, ihr _ _ _ hr hp.2⟩
  | hyb o x d c ih =>
    intro m last t' h hp
    simp only [renameRec] at h
    by_cases hj : o = .jump
    · simp only [hj, if_true] at h
      cases hc : renameRec isNetVar c m last <;> cases hl : m.lookup x <;> simp [hc, hl] at h
      subst h; exact ⟨hp.1, ih _ _ _ hc hp.2⟩
    · simp only [hj, if_false] at h
      cases hl : m.lookup x with
      | some r => simp [hl] at h
      | none =>
        simp only [hl, Option.isSome_none, Bool.false_eq_true, if_false] at h
        cases hc : renameRec isNetVar c ((x, last ++ ['x']) :: m) (last ++ ['x']) <;> simp [hc] at h
        subst h; exact ⟨hp.1, ih _ _ _ hc hp.2⟩

theorem plain_wildsIn : ∀ {t : Tree}, Plain t → WildsIn noCtx t := by
  intro t
  induction t with
  | atom a => intro h; cases a <;> simp_all [Plain, WildsIn]
  | un o c ih => intro h; exact ih h
  | bin o l r ihl ihr => intro h; exact ⟨ihl h.1, ihr h.2⟩
  | hyb o x d c ih => intro h; exact ih h.2

/-- a preprocessed plain formula that passes the support check is a legitimate top-level query -/
theorem preprocessed_goodQ (C : CharClass) (hC : Lex.CharsOK C) (E : Env) (t t' : Tree)
    (h : rename (fun n => (E.G.label n).isSome) t = .ok t') (hp : Plain t) (hk : t'.numQuantVars ≤ E.G.k)
    (hv : Lex.TreeOK C t ∧ PropNamesOK t) :
    GoodQ C E noCtx E.G.unit0 t' E.G.unit0 [] := by
  have hp' := renameRec_plain _ t [] [] t' h hp
  refine ⟨C07.rename_wellScoped _ t t' h _ hk, C07.rename_depth_names _ t t' h, Nat.zero_le _,
    hp'.domsIn noCtx, fun i l hil => by simp at hil, plain_wildsIn hp', C07.renameRec_propsOK _ t [] [] t' h,
    unitOK_unit0 E, ?_, rename_treeOK hC _ t t' hv h⟩
  intro p _
  simp

variable {C : CharClass} {E : Env} (hE : EnvOK E) (hG : GraphWF E.G)
  (hC : Lex.CharsOK C) (hA : C12.GraphAsync E.G)
include hE hG hC hA

/-- MAIN: evaluating any list of preprocessed plain formulae the graph supports — with ANY duplicate map whose
keys have at most one variable (as `mark_duplicates` produces), in particular with the real one — returns a
result: none of the evaluator's panic sites (missing cache entry for a wild-card, missing domain set, symbolic
variable out of range, empty restricted unit, reverse renaming) is reachable. -/
theorem no_panic_trees (trees : List Tree) (D : DupMap)
    (hq : ∀ t ∈ trees, GoodQ C E noCtx E.G.unit0 t E.G.unit0 [])
    (hD : ∀ key n, dupGet key D = some n → KeyWitness C E key) :
    ∃ rs, Api.evalAll E (Ops.steadyOf E E.G.unit0) E.G.unit0 trees { dups := D } = .ok rs :=
  let ⟨rs, h, _, _⟩ := C04.batch_sound hE hG (ctxOK_noCtx E) hC ctxSC_noCtx
    (fun p hp i t ht => (unitOK_unit0 E).indepFrom p hp i t (Nat.zero_le _) ht) hA trees { dups := D } hq rfl
    (C04.init_cacheOK_plain hE hG D hD)
  ⟨rs, h⟩

/-- … in particular with the duplicate map `mark_duplicates` computes: `_model_check_multiple_trees_dirty` never panics -/
theorem no_panic_treesDirty (trees : List Tree) (hq : ∀ t ∈ trees, GoodQ C E noCtx E.G.unit0 t E.G.unit0 []) :
    ∃ rs, Api.treesDirty E E.G.unit0 trees = .ok rs :=
  no_panic_trees hE hG hC hA trees _ hq (markDups_witness trees (C04.goodQ_roots trees hq))

omit hE hG hC hA in
/-- the error classes of the model's string entry point, for inputs that tokenize and parse: an error is
returned exactly when the formula is not well scoped over the network's propositions (a free or re-quantified
variable, an unknown proposition), or needs more variable sets than the graph offers -/
theorem error_iff_plain (K : CharClass) (cs : List Char) (toks : List Tok) (t : Tree)
    (h1 : Lex.tokenize K false cs = .ok toks) (h2 : parseToks toks = .ok t) :
    (∃ e, Api.parseOne E K false cs = .error e) ↔
      (¬ Scoped (fun n => (E.G.label n).isSome) [] t ∨
        ∃ t', rename (fun n => (E.G.label n).isSome) t = .ok t' ∧ E.G.k < t'.numQuantVars) := by
  simp only [Api.parseOne, h1, h2]
  rw [← C07.rename_ok_iff]
  cases hr : rename (fun n => (E.G.label n).isSome) t with
  | error e => cases e <;> simp
  | ok t' =>
    simp only
    by_cases hk : t'.numQuantVars > E.G.k
    · simp [hk]
    · simp [hk]

end Hctl.C14
