/-
  C17 — the command-line tool computes the same sets as the library.
  Modelled here: the formula-file loader.  Argument parsing (clap), printing and process behaviour are
  observed by the correspondence K9, not modelled.
-/
import HctlProofs.Props.C16
namespace Hctl.C17
open Hctl Hctl.Loader

/-- what the loader keeps: the trimmed, non-blank, non-comment lines -/
theorem mem_loadFormulae (isWs : Char → Bool) (text l : List Char) :
    l ∈ loadFormulae isWs text ↔
      ∃ ln ∈ lines text, l = trim isWs ln ∧ l ≠ [] ∧ l.head? ≠ some '#' := by
  simp only [loadFormulae, List.mem_filter, List.mem_map, Bool.and_eq_true, Bool.not_eq_true',
    List.isEmpty_eq_false_iff, bne_iff_ne, ne_eq]
  constructor
  · rintro ⟨⟨ln, hln, rfl⟩, h1, h2⟩; exact ⟨ln, hln, rfl, h1, h2⟩
  · rintro ⟨ln, hln, rfl, h1, h2⟩; exact ⟨⟨ln, hln, rfl⟩, h1, h2⟩

/-- in file order: the result is a sub-list of the trimmed lines -/
theorem loadFormulae_order (isWs : Char → Bool) (text : List Char) :
    (loadFormulae isWs text).Sublist ((lines text).map (trim isWs)) :=
  List.filter_sublist

theorem head_dropWhile {p : Char → Bool} : ∀ (l : List Char) (c : Char), (l.dropWhile p).head? = some c → p c = false := by
  intro l
  induction l with
  | nil => intro c h; simp at h
  | cons x xs ih =>
    intro c h
    simp only [List.dropWhile_cons] at h
    by_cases hx : p x = true
    · simp only [hx, if_true] at h; exact ih c h
    · simp only [hx] at h
      simp at h
      subst h
      simpa using hx

theorem dropWhile_id {p : Char → Bool} {l : List Char} (h : ∀ c, l.head? = some c → p c = false) :
    l.dropWhile p = l := by
  cases l with
  | nil => rfl
  | cons x xs => simp [List.dropWhile_cons, h x rfl]

/-- trimming is idempotent -/
theorem trim_trim (isWs : Char → Bool) (l : List Char) : trim isWs (trim isWs l) = trim isWs l := by
  unfold trim
  generalize ha : l.dropWhile isWs = a
  have hah : ∀ c, a.head? = some c → isWs c = false := by rw [← ha]; exact head_dropWhile l
  generalize hb : a.reverse.dropWhile isWs = b
  have hbh : ∀ c, b.head? = some c → isWs c = false := by rw [← hb]; exact head_dropWhile a.reverse
  -- b.reverse is a prefix of a
  have hsuf : b <:+ a.reverse := by rw [← hb]; exact List.dropWhile_suffix _
  have hpre : b.reverse <+: a := by
    have := List.reverse_prefix.mpr hsuf
    simpa using this
  have hrh : ∀ c, b.reverse.head? = some c → isWs c = false := by
    intro c hc
    obtain ⟨t, ht⟩ := hpre
    apply hah c
    rw [← ht]
    cases hbr : b.reverse with
    | nil => rw [hbr] at hc; simp at hc
    | cons y ys => rw [hbr] at hc; simpa using hc
  rw [dropWhile_id hrh, List.reverse_reverse, dropWhile_id hbh]

/-- a trimmed line has no trailing whitespace -/
theorem trim_getLast (isWs : Char → Bool) (l : List Char) (c : Char) (h : (trim isWs l).getLast? = some c) :
    isWs c = false := by
  unfold trim at h
  rw [List.getLast?_reverse] at h
  exact head_dropWhile _ c h

theorem lines_no_newline : ∀ (s cur : List Char), '\n' ∉ cur → ∀ ln ∈ linesAux s cur, '\n' ∉ ln := by
  intro s
  induction s with
  | nil =>
    intro cur hc ln hln
    simp only [linesAux] at hln
    split at hln
    · simp at hln
    · simp at hln; subst hln; simpa using hc
  | cons c cs ih =>
    intro cur hc ln hln
    simp only [linesAux] at hln
    split at hln
    · simp only [List.mem_cons] at hln
      cases hln with
      | inl h => subst h; simpa using hc
      | inr h => exact ih [] (by simp) ln h
    · rename_i hne
      exact ih (c :: cur) (by simp [hc]; exact fun e => hne e.symm) ln hln

theorem trim_subset (isWs : Char → Bool) (l : List Char) (c : Char) (h : c ∈ trim isWs l) : c ∈ l := by
  unfold trim at h
  have h1 := List.mem_reverse.mp h
  have h2 := (List.dropWhile_sublist _).subset h1
  have h3 := List.mem_reverse.mp h2
  exact (List.dropWhile_sublist _).subset h3

/-- MAIN (loader): writing the loaded formulae one per line and loading again changes nothing — so the archived
`formulae.txt` reloads to the formula list the tool evaluated, in the same order. -/
theorem loadFormulae_idem (isWs : Char → Bool) (hcr : isWs '\r' = true) (text : List Char) :
    loadFormulae isWs (((loadFormulae isWs text).map (· ++ ['\n'])).flatten) = loadFormulae isWs text := by
  have hprop : ∀ f ∈ loadFormulae isWs text, '\n' ∉ f ∧ f.getLast? ≠ some '\r' := by
    intro f hf
    obtain ⟨ln, hln, rfl, _, _⟩ := (mem_loadFormulae isWs text _).mp hf
    constructor
    · intro hmem
      have := trim_subset isWs ln _ hmem
      unfold lines at hln
      obtain ⟨raw, hraw, rfl⟩ := List.mem_map.mp hln
      have hnl := lines_no_newline text [] (by simp) raw hraw
      apply hnl
      -- stripCr only removes a trailing '\r'
      unfold stripCr at this
      split at this
      · rename_i r heq
        have : '\n' ∈ raw.reverse := by rw [heq]; simp [List.mem_reverse.mp this]
        exact List.mem_reverse.mp this
      · exact this
    · intro hl
      have := trim_getLast isWs ln '\r' hl
      rw [hcr] at this; cases this
  have hl := C16.lines_unlines (loadFormulae isWs text) hprop
  unfold loadFormulae at hl ⊢
  rw [hl]
  -- trimming and filtering the already trimmed, filtered lines is the identity
  have hmap : ∀ (ls : List (List Char)), (∀ f ∈ ls, trim isWs f = f) → ls.map (trim isWs) = ls := by
    intro ls h
    induction ls with
    | nil => rfl
    | cons f fs ih => rw [List.map_cons, h f (by simp), ih (fun g hg => h g (by simp [hg]))]
  rw [hmap]
  · rw [List.filter_filter]; simp
  · intro f hf
    obtain ⟨hf1, _⟩ := List.mem_filter.mp hf
    obtain ⟨ln, _, rfl⟩ := List.mem_map.mp hf1
    exact trim_trim isWs ln

/-! Non-vacuity: comments, blank lines, surrounding blanks, CRLF -/
private def ws (c : Char) : Bool := c = ' ' || c = '\t' || c = '\r' || c = '\n'
example : loadFormulae ws ['#',' ','c','\n',' ','a',' ','\r','\n','\n',' ','#','x','\n','b'] = [['a'], ['b']] := by decide

end Hctl.C17
