/-
  C20 — the answer for a colour equals the answer on the network instantiated by it.
-/
import HctlProofs.Lemmas.Corollaries
namespace Hctl.C20
open Hctl

/-- Satisfaction at a point of colour `c` mentions only colour `c`'s transition system. -/
theorem sat_colourwise {G G' : Graph} {c c' : Nat} (h : AgreeCol G G' c c') (t : Tree) (s : Nat) (v : List Nat) :
    sat G noCtx t ⟨s, c, v⟩ ↔ sat G' noCtx t ⟨s, c', v⟩ :=
  sat_colour_congr h t s v

/-- MAIN: let colour `c'` of graph `E'.G` (e.g. the single colour of the network instantiated by `c`) have the
same transitions, variables and labels as colour `c` of `E.G`.  Then for every plain formula the states the
result associates with `c` in `E` are exactly those associated with `c'` in `E'` — whatever other colours
either graph admits. -/
theorem colour_slice_eq {E E' : Env} (hE : EnvOK E) (hG : GraphWF E.G) (hE' : EnvOK E') (hG' : GraphWF E'.G)
    {c c' : Nat} (h : AgreeCol E.G E'.G c c') (hv : E.G.valid c = true) (hv' : E'.G.valid c' = true)
    (t : Tree) (hw : WellNamed E.G.k 0 t) (hw' : WellNamed E'.G.k 0 t) (hp : Plain t)
    (s : Nat) (v : List Nat) (hmem : (⟨s, c, v⟩ : Point) ∈ E.pts) (hmem' : (⟨s, c', v⟩ : Point) ∈ E'.pts) :
    evalTop E noCtx t ⟨s, c, v⟩ = evalTop E' noCtx t ⟨s, c', v⟩ := by
  have h1 := evalTop_correct hE hG noCtx (ctxOK_noCtx E) t hw (hp.domsIn noCtx) _ hmem
  have h2 := evalTop_correct hE' hG' noCtx (ctxOK_noCtx E') t hw' (hp.domsIn noCtx) _ hmem'
  apply Bool.eq_iff_iff.mpr
  rw [h1, h2]
  simp only [hv, hv', true_and]
  exact sat_colourwise h t s v

/-- In particular the answer for one colour never depends on which other colours the model admits: two
graphs that agree on colour `c` give the same slice. -/
theorem slice_independent_of_other_colours {E E' : Env} (hE : EnvOK E) (hG : GraphWF E.G) (hE' : EnvOK E')
    (hG' : GraphWF E'.G) {c : Nat} (h : AgreeCol E.G E'.G c c) (hv : E.G.valid c = true) (hv' : E'.G.valid c = true)
    (t : Tree) (hw : WellNamed E.G.k 0 t) (hw' : WellNamed E'.G.k 0 t) (hp : Plain t)
    (s : Nat) (v : List Nat) (hmem : (⟨s, c, v⟩ : Point) ∈ E.pts) (hmem' : (⟨s, c, v⟩ : Point) ∈ E'.pts) :
    evalTop E noCtx t ⟨s, c, v⟩ = evalTop E' noCtx t ⟨s, c, v⟩ :=
  colour_slice_eq hE hG hE' hG' h hv hv' t hw hw' hp s v hmem hmem'

/-! Non-vacuity: a two-colour graph and its instantiation by colour 1. -/
private def G2 : Graph :=
  { nS := 2, nC := 2, nV := 1, k := 0, valid := fun _ => true
    step := fun c _ s => if c = 0 then none else some (1 - s)
    label := fun _ => none }
private def G2w : Graph :=
  { nS := 2, nC := 1, nV := 1, k := 0, valid := fun _ => true
    step := fun _ _ s => some (1 - s)
    label := fun _ => none }
example : AgreeCol G2 G2w 1 0 := ⟨rfl, rfl, fun _ _ => by simp [G2, G2w], rfl⟩

end Hctl.C20
