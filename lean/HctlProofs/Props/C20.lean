/-
  C20 — the answer for a colour equals the answer on the network instantiated by it.
-/
import HctlProofs.Lemmas.Corollaries
import HctlProofs.Lemmas.EntryPoints
namespace Hctl.C20
open Hctl Kripke

/-- Satisfaction at a point of colour `c` mentions only colour `c`'s transition system. -/
theorem sat_colourwise {G G' : Graph} {c c' : Nat} (h : AgreeCol G G' c c') (t : Tree) (s : Nat) (v : List Nat) :
    sat G noCtx t ⟨s, c, v⟩ ↔ sat G' noCtx t ⟨s, c', v⟩ :=
  sat_colour_congr h t s v

/-- MAIN: let colour `c'` of graph `E'.G` (e.g. the single colour of the network instantiated by `c`) have the
same transitions, variables and labels as colour `c` of `E.G`.  Then for every plain formula the states the
result associates with `c` in `E` are exactly those associated with `c'` in `E'` — whatever other colours
either graph admits. -/
theorem colour_slice_eq {E E' : Env} (hE : EnvOK E) (hG : GraphWF E.G) (hE' : EnvOK E') (hG' : GraphWF E'.G)
    {c c' : Nat} (h : AgreeCol E.G E'.G c c') (hv : E.G.valid c = true) (hv' : E'.G.valid c' = true)
    (t : Tree) (hw : WellNamed E.G.k 0 t) (hw' : WellNamed E'.G.k 0 t) (hp : Plain t)
    (s : Nat) (v : List Nat) (hmem : (⟨s, c, v⟩ : Point) ∈ E.pts) (hmem' : (⟨s, c', v⟩ : Point) ∈ E'.pts) :
    evalTop E noCtx t ⟨s, c, v⟩ = evalTop E' noCtx t ⟨s, c', v⟩ := by
  have h1 := evalTop_correct hE hG noCtx (ctxOK_noCtx E) t hw (hp.domsIn noCtx) _ hmem
  have h2 := evalTop_correct hE' hG' noCtx (ctxOK_noCtx E') t hw' (hp.domsIn noCtx) _ hmem'
  apply Bool.eq_iff_iff.mpr
  rw [h1, h2]
  simp only [hv, hv', true_and]
  exact sat_colourwise h t s v

/-- In particular the answer for one colour never depends on which other colours the model admits: two
graphs that agree on colour `c` give the same slice. -/
theorem slice_independent_of_other_colours {E E' : Env} (hE : EnvOK E) (hG : GraphWF E.G) (hE' : EnvOK E')
    (hG' : GraphWF E'.G) {c : Nat} (h : AgreeCol E.G E'.G c c) (hv : E.G.valid c = true) (hv' : E'.G.valid c = true)
    (t : Tree) (hw : WellNamed E.G.k 0 t) (hw' : WellNamed E'.G.k 0 t) (hp : Plain t)
    (s : Nat) (v : List Nat) (hmem : (⟨s, c, v⟩ : Point) ∈ E.pts) (hmem' : (⟨s, c, v⟩ : Point) ∈ E'.pts) :
    evalTop E noCtx t ⟨s, c, v⟩ = evalTop E' noCtx t ⟨s, c, v⟩ :=
  colour_slice_eq hE hG hE' hG' h hv hv' t hw hw' hp s v hmem hmem'

/-! Non-vacuity: a two-colour graph and its instantiation by colour 1. -/
private def G2 : Graph :=
  { nS := 2, nC := 2, nV := 1, k := 0, valid := fun _ => true
    step := fun c _ s => if c = 0 then none else some (1 - s)
    label := fun _ => none }
private def G2w : Graph :=
  { nS := 2, nC := 1, nV := 1, k := 0, valid := fun _ => true
    step := fun _ _ s => some (1 - s)
    label := fun _ => none }
example : AgreeCol G2 G2w 1 0 := ⟨rfl, rfl, fun _ _ => by simp [G2, G2w], rfl⟩

/-- GENERAL FORM: any two semantically exact results (cached or not) for the same plain formula, on a family and on a
graph whose colour `c'` has the transitions of the family's colour `c`, have the same slice -/
theorem colour_slice_sem {E E' : Env} {c c' : Nat} (h : AgreeCol E.G E'.G c c') (hv : E.G.valid c = true)
    (hv' : E'.G.valid c' = true) (t : Tree) (r r' : CSet) (hr : Sem E r E.G.unit0 (sat E.G noCtx t))
    (hr' : Sem E' r' E'.G.unit0 (sat E'.G noCtx t))
    (s : Nat) (v : List Nat) (hmem : (⟨s, c, v⟩ : Point) ∈ E.pts) (hmem' : (⟨s, c', v⟩ : Point) ∈ E'.pts) :
    r ⟨s, c, v⟩ = r' ⟨s, c', v⟩ := by
  apply Bool.eq_iff_iff.mpr
  rw [hr _ hmem, hr' _ hmem']
  simp only [Graph.unit0, hv, hv', true_and]
  exact sat_colourwise h t s v

/-- END TO END: the plain batch entry point on the family and on the instantiated network — the slices coincide -/
theorem colour_slice_entry {C : CharClass} (hC : Lex.CharsOK C) {E E' : Env} (hE : EnvOK E) (hG : GraphWF E.G)
    (hA : C12.GraphAsync E.G) (hE' : EnvOK E') (hG' : GraphWF E'.G) (hA' : C12.GraphAsync E'.G)
    {c c' : Nat} (h : AgreeCol E.G E'.G c c') (hv : E.G.valid c = true) (hv' : E'.G.valid c' = true)
    (trees : List Tree) (hq : ∀ t ∈ trees, GoodQ C E noCtx E.G.unit0 t E.G.unit0 [])
    (hq' : ∀ t ∈ trees, GoodQ C E' noCtx E'.G.unit0 t E'.G.unit0 []) :
    ∃ rs rs', Api.treesDirty E E.G.unit0 trees = .ok rs ∧ Api.treesDirty E' E'.G.unit0 trees = .ok rs' ∧
      ∀ i (hi : i < rs.length) (hi' : i < rs'.length) s v, (⟨s, c, v⟩ : Point) ∈ E.pts → (⟨s, c', v⟩ : Point) ∈ E'.pts →
        rs[i] ⟨s, c, v⟩ = rs'[i] ⟨s, c', v⟩ := by
  obtain ⟨rs, h1, hl1, a1⟩ := C04.treesDirty_sound hC hE hG hA E.G.unit0 trees
    (fun p hp i t ht => (unitOK_unit0 E).indepFrom p hp i t (Nat.zero_le _) ht) hq
  obtain ⟨rs', h2, hl2, a2⟩ := C04.treesDirty_sound hC hE' hG' hA' E'.G.unit0 trees
    (fun p hp i t ht => (unitOK_unit0 E').indepFrom p hp i t (Nat.zero_le _) ht) hq'
  refine ⟨rs, rs', h1, h2, ?_⟩
  intro i hi hi' s v hm hm'
  have ht : i < trees.length := by omega
  exact colour_slice_sem h hv hv' trees[i] rs[i] rs'[i] (a1 i ht hi) (a2 i ht hi') s v hm hm'

end Hctl.C20
