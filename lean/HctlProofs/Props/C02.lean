/-
  C02 — wild-card propositions and restricted domains have the documented meaning.
-/
import HctlProofs.Lemmas.Corollaries
namespace Hctl.C02
open Hctl

/-- MAIN: the extended evaluator returns exactly the satisfying points, for every context `K` whose domain
sets do not depend on the spare variables; colour-dependent, empty and nested domains included. -/
theorem extended_correct {E : Env} (hE : EnvOK E) (hG : GraphWF E.G) (K : SemCtx) (hK : CtxOK E K)
    (t : Tree) (hw : WellNamed E.G.k 0 t) (hd : DomsIn K t) :
    ∀ p ∈ E.pts, (evalTop E K t p = true ↔ (E.G.valid p.c = true ∧ sat E.G K t p)) :=
  evalTop_correct hE hG K hK t hw hd

/-- a wild-card proposition holds exactly in the supplied set -/
theorem sat_wild (G : Graph) (K : SemCtx) (w : Name) (a : CSet) (h : K.wild w = some a) (p : Point) :
    sat G K (.atom (.wild w)) p ↔ a p = true := by
  simp only [sat, h]
  constructor
  · rintro ⟨a', ha', hp⟩; cases ha'; exact hp
  · intro hp; exact ⟨a, rfl, hp⟩

/-- bind with a domain additionally requires the current state to lie in the domain -/
theorem sat_bind_dom (G : Graph) (K : SemCtx) (x l : Name) (a : CSet) (h : K.dom l = some a) (φ : Tree) (p : Point) :
    sat G K (.hyb .bind x (some l) φ) p ↔ (a p = true ∧ sat G K φ (p.setV (varId x) p.s)) := by
  simp only [sat, inDom, h]
  constructor
  · rintro ⟨⟨a', ha', hp⟩, hs⟩; cases ha'; exact ⟨hp, hs⟩
  · rintro ⟨hp, hs⟩; exact ⟨⟨a, rfl, hp⟩, hs⟩

/-- exists/forall with a domain quantify over the domain's states (for the colour in question) only -/
theorem sat_exists_dom (G : Graph) (K : SemCtx) (x l : Name) (a : CSet) (h : K.dom l = some a) (φ : Tree) (p : Point) :
    sat G K (.hyb .ex x (some l) φ) p ↔ ∃ t, t < G.nS ∧ a (p.setS t) = true ∧ sat G K φ (p.setV (varId x) t) := by
  simp only [sat, inDom, h]
  constructor
  · rintro ⟨t, ht, ⟨a', ha', hp⟩, hs⟩; cases ha'; exact ⟨t, ht, hp, hs⟩
  · rintro ⟨t, ht, hp, hs⟩; exact ⟨t, ht, ⟨a, rfl, hp⟩, hs⟩

theorem sat_forall_dom (G : Graph) (K : SemCtx) (x l : Name) (a : CSet) (h : K.dom l = some a) (φ : Tree) (p : Point) :
    sat G K (.hyb .all x (some l) φ) p ↔ ∀ t, t < G.nS → a (p.setS t) = true → sat G K φ (p.setV (varId x) t) := by
  simp only [sat, inDom, h]
  constructor
  · intro hh t ht hp; exact hh t ht ⟨a, rfl, hp⟩
  · rintro hh t ht ⟨a', ha', hp⟩; cases ha'; exact hh t ht hp

/-- over an empty domain `exists` is false and `forall` is true -/
theorem exists_empty_dom (G : Graph) (K : SemCtx) (x l : Name) (a : CSet) (h : K.dom l = some a) (φ : Tree) (p : Point)
    (hempty : ∀ t, a (p.setS t) = false) : ¬ sat G K (.hyb .ex x (some l) φ) p := by
  rw [sat_exists_dom G K x l a h]
  rintro ⟨t, _, hp, _⟩
  rw [hempty t] at hp
  cases hp

theorem forall_empty_dom (G : Graph) (K : SemCtx) (x l : Name) (a : CSet) (h : K.dom l = some a) (φ : Tree) (p : Point)
    (hempty : ∀ t, a (p.setS t) = false) : sat G K (.hyb .all x (some l) φ) p := by
  rw [sat_forall_dom G K x l a h]
  intro t _ hp
  rw [hempty t] at hp
  cases hp

/-! The three README equivalences, for EVERY body formula φ.  One context map binds the label `A` both as a
wild-card proposition and as a domain, to a set that depends on state and colour only. -/

section readme
variable (G : Graph) (K : SemCtx) (A x : Name) (a : CSet)
  (hw : K.wild A = some a) (hd : K.dom A = some a)
  (hsc : ∀ q q' : Point, q.s = q'.s → q.c = q'.c → a q = a q')
include hw hd hsc

/-- `!{x} in %A%: φ`  =  `!{x}: (%A% & φ)` -/
theorem readme_equiv_1 (φ : Tree) (p : Point) :
    sat G K (.hyb .bind x (some A) φ) p ↔ sat G K (.hyb .bind x none (.bin .and (.atom (.wild A)) φ)) p := by
  rw [sat_bind_dom G K x A a hd]
  simp only [sat, inDom, true_and, hw]
  rw [hsc p (p.setV (varId x) p.s) rfl rfl]
  constructor
  · rintro ⟨h1, h2⟩; exact ⟨⟨a, rfl, h1⟩, h2⟩
  · rintro ⟨⟨a', ha', h1⟩, h2⟩; cases ha'; exact ⟨h1, h2⟩

/-- `3{x} in %A%: φ`  =  `3{x}: ((@{x}: %A%) & φ)`   (general form) -/
theorem readme_equiv_2_gen (φ : Tree) (p : Point) (hx : varId x < p.v.length) :
    sat G K (.hyb .ex x (some A) φ) p ↔
      sat G K (.hyb .ex x none (.bin .and (.hyb .jump x none (.atom (.wild A))) φ)) p := by
  rw [sat_exists_dom G K x A a hd]
  simp only [sat, inDom, true_and, hw]
  have hA : ∀ t, a ((p.setV (varId x) t).setS t) = a (p.setS t) :=
    fun t => hsc ((p.setV (varId x) t).setS t) (p.setS t) rfl rfl
  constructor
  · rintro ⟨t, ht, h1, h2⟩
    refine ⟨t, ht, ⟨a, rfl, ?_⟩, h2⟩
    rw [setV_getV_same p _ t hx, hA t]; exact h1
  · rintro ⟨t, ht, ⟨a', ha', h1⟩, h2⟩
    cases ha'
    refine ⟨t, ht, ?_, h2⟩
    rw [setV_getV_same p _ t hx, hA t] at h1; exact h1

/-- `V{x} in %A%: φ`  =  `V{x}: ((@{x}: %A%) => φ)`   (general form) -/
theorem readme_equiv_3_gen (φ : Tree) (p : Point) (hx : varId x < p.v.length) :
    sat G K (.hyb .all x (some A) φ) p ↔
      sat G K (.hyb .all x none (.bin .imp (.hyb .jump x none (.atom (.wild A))) φ)) p := by
  rw [sat_forall_dom G K x A a hd]
  simp only [sat, inDom, true_implies, hw]
  have hA : ∀ t, a ((p.setV (varId x) t).setS t) = a (p.setS t) :=
    fun t => hsc ((p.setV (varId x) t).setS t) (p.setS t) rfl rfl
  constructor
  · rintro hh t ht ⟨a', ha', h1⟩
    cases ha'
    rw [setV_getV_same p _ t hx, hA t] at h1
    exact hh t ht h1
  · intro hh t ht h1
    apply hh t ht
    refine ⟨a, rfl, ?_⟩
    rw [setV_getV_same p _ t hx, hA t]; exact h1

/-- `3{x} in %A%: @{x}: φ`  =  `3{x}: @{x}: (%A% & φ)`   (as stated in the README) -/
theorem readme_equiv_2 (φ : Tree) (p : Point) (hx : varId x < p.v.length) :
    sat G K (.hyb .ex x (some A) (.hyb .jump x none φ)) p ↔
      sat G K (.hyb .ex x none (.hyb .jump x none (.bin .and (.atom (.wild A)) φ))) p := by
  rw [readme_equiv_2_gen G K A x a hw hd hsc _ p hx]
  simp only [sat]

/-- `V{x} in %A%: @{x}: φ`  =  `V{x}: @{x}: (%A% => φ)`   (as stated in the README) -/
theorem readme_equiv_3 (φ : Tree) (p : Point) (hx : varId x < p.v.length) :
    sat G K (.hyb .all x (some A) (.hyb .jump x none φ)) p ↔
      sat G K (.hyb .all x none (.hyb .jump x none (.bin .imp (.atom (.wild A)) φ))) p := by
  rw [readme_equiv_3_gen G K A x a hw hd hsc _ p hx]
  simp only [sat]

end readme

end Hctl.C02
