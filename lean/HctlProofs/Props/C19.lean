/-
  C19 — the aeon-to-bnet converter preserves the family of update functions.
-/
import HctlModel.Glue
namespace Hctl.C19
open Hctl Hctl.Convert

/-- the decision tree built by `explode_function` selects the fresh constant named by the argument values -/
theorem explode_semantics (env : Nat → Bool) (κ : List Char → List Bool → Bool) :
    ∀ (as : List Fn) (pre : List Char),
      eval env κ (explode as pre) = κ (pre ++ bitsOf (evalList env κ as)) [] := by
  intro as
  induction as with
  | nil => intro pre; simp [explode, eval, evalList, bitsOf]
  | cons a as ih =>
    intro pre
    simp only [explode, eval, evalList, BOp.eval, ih]
    cases h : eval env κ a <;> simp [bitsOf, List.append_assoc]

mutual
/-- MAIN (semantics): under any valuation `κ0` of the fresh constants, the flattened function computes what the
original computes when every uninterpreted symbol `f` is instantiated by `f(b₁…bₙ) := κ0 "f_b₁…bₙ"`. -/
theorem flatten_semantics (env : Nat → Bool) (κ0 : List Char → Bool) :
    ∀ f : Fn, eval env (constsOnly κ0) (flatten f) = eval env (induced κ0) f
  | .const b => by simp [flatten, eval]
  | .var i => by simp [flatten, eval]
  | .not f => by simp [flatten, eval, flatten_semantics env κ0 f]
  | .bin o l r => by simp [flatten, eval, flatten_semantics env κ0 l, flatten_semantics env κ0 r]
  | .param name args => by
    simp only [flatten, eval, explode_semantics, flattenList_semantics env κ0 args]
    simp [constsOnly, induced, List.append_assoc]
theorem flattenList_semantics (env : Nat → Bool) (κ0 : List Char → Bool) :
    ∀ fs : List Fn, evalList env (constsOnly κ0) (flattenList fs) = evalList env (induced κ0) fs
  | [] => by simp [flattenList, evalList]
  | f :: fs => by simp [flattenList, evalList, flatten_semantics env κ0 f, flattenList_semantics env κ0 fs]
end

/-- implicit update functions: prefix `<variable>_`, arguments are the regulators -/
theorem implicit_semantics (env : Nat → Bool) (κ0 : List Char → Bool) (varName : List Char) (regs : List Nat) :
    eval env (constsOnly κ0) (explode (regs.map Fn.var) (varName ++ ['_']))
      = induced κ0 varName (regs.map env) := by
  rw [explode_semantics]
  have : evalList env (constsOnly κ0) (regs.map Fn.var) = regs.map env := by
    induction regs with
    | nil => rfl
    | cons r rs ih => simp [evalList, eval, ih]
  simp [this, constsOnly, induced, List.append_assoc]

/-! the names of the generated constants are unambiguous -/

theorem bitsOf_no_underscore (bs : List Bool) : '_' ∉ bitsOf bs := by
  induction bs with
  | nil => simp [bitsOf]
  | cons b bs ih =>
    simp only [bitsOf, List.map_cons, List.mem_cons, not_or] at ih ⊢
    exact ⟨by cases b <;> decide, ih⟩

theorem bitsOf_inj {a b : List Bool} (h : bitsOf a = bitsOf b) : a = b := by
  induction a generalizing b with
  | nil => cases b <;> simp_all [bitsOf]
  | cons x a ih =>
    cases b with
    | nil => simp [bitsOf] at h
    | cons y b =>
      simp only [bitsOf, List.map_cons, List.cons.injEq] at h
      have hxy : x = y := by cases x <;> cases y <;> simp_all
      rw [hxy, ih (by simpa [bitsOf] using h.2)]

/-- splitting at the LAST underscore: the suffix after it contains none -/
theorem split_last_underscore {n1 n2 s1 s2 : List Char} (h1 : '_' ∉ s1) (h2 : '_' ∉ s2)
    (h : n1 ++ '_' :: s1 = n2 ++ '_' :: s2) : n1 = n2 ∧ s1 = s2 := by
  have hr := congrArg List.reverse h
  simp only [List.reverse_append, List.reverse_cons, List.append_assoc, List.singleton_append] at hr
  -- s1.reverse ++ '_' :: n1.reverse = s2.reverse ++ '_' :: n2.reverse, with no '_' in the prefixes
  have key : ∀ (a b c d : List Char), '_' ∉ a → '_' ∉ b → a ++ '_' :: c = b ++ '_' :: d → a = b ∧ c = d := by
    intro a
    induction a with
    | nil =>
      intro b c d _ hb hh
      cases b with
      | nil => simpa using hh
      | cons y b =>
        simp only [List.nil_append, List.cons_append, List.cons.injEq] at hh
        exact absurd hh.1.symm (by intro e; exact hb (by simp [e]))
    | cons x a ih =>
      intro b c d ha hb hh
      cases b with
      | nil =>
        simp only [List.nil_append, List.cons_append, List.cons.injEq] at hh
        exact absurd hh.1 (by intro e; exact ha (by simp [e]))
      | cons y b =>
        simp only [List.cons_append, List.cons.injEq] at hh
        obtain ⟨rfl, hh⟩ := hh
        have := ih b c d (fun hm => ha (by simp [hm])) (fun hm => hb (by simp [hm])) hh
        exact ⟨by rw [this.1], this.2⟩
  have := key s1.reverse s2.reverse n1.reverse n2.reverse (by simpa using h1) (by simpa using h2) hr
  exact ⟨by simpa using congrArg List.reverse this.2, by simpa using congrArg List.reverse this.1⟩

/-- `P_b₁ = Q_b₂ → P = Q ∧ b₁ = b₂` -/
theorem explode_names_injective {n1 n2 : List Char} {b1 b2 : List Bool}
    (h : n1 ++ '_' :: bitsOf b1 = n2 ++ '_' :: bitsOf b2) : n1 = n2 ∧ b1 = b2 := by
  have := split_last_underscore (bitsOf_no_underscore b1) (bitsOf_no_underscore b2) h
  exact ⟨this.1, bitsOf_inj this.2⟩

/-- SURJECTIVITY: every instantiation of the uninterpreted symbols is induced by some valuation of the fresh
constants.  Together with `flatten_semantics`: as the constants range over all Booleans, the flattened function
ranges over exactly the instantiations of the input function — no spurious functions, none missing. -/
theorem every_instantiation_induced (κ : List Char → List Bool → Bool) :
    ∃ κ0 : List Char → Bool, ∀ n bs, induced κ0 n bs = κ n bs := by
  classical
  refine ⟨fun s => if h : ∃ p : List Char × List Bool, s = p.1 ++ '_' :: bitsOf p.2
    then κ (Classical.choose h).1 (Classical.choose h).2 else false, ?_⟩
  intro n bs
  have hex : ∃ p : List Char × List Bool, n ++ '_' :: bitsOf bs = p.1 ++ '_' :: bitsOf p.2 := ⟨(n, bs), rfl⟩
  simp only [induced, dif_pos hex]
  have hs := Classical.choose_spec hex
  obtain ⟨h1, h2⟩ := explode_names_injective hs
  rw [← h1, ← h2]

theorem flatten_family (f : Fn) (env : Nat → Bool) :
    (∀ κ0, ∃ κ, eval env (constsOnly κ0) (flatten f) = eval env κ f) ∧
    (∀ κ, ∃ κ0, eval env (constsOnly κ0) (flatten f) = eval env κ f) := by
  refine ⟨fun κ0 => ⟨induced κ0, flatten_semantics env κ0 f⟩, fun κ => ?_⟩
  obtain ⟨κ0, h⟩ := every_instantiation_induced κ
  refine ⟨κ0, ?_⟩
  rw [flatten_semantics]
  have : induced κ0 = κ := by funext n bs; exact h n bs
  rw [this]

/-! fully specified functions are reproduced -/

mutual
def NoParams : Fn → Prop
  | .const _ => True
  | .var _ => True
  | .not f => NoParams f
  | .bin _ l r => NoParams l ∧ NoParams r
  | .param _ _ => False
end

theorem flatten_specified : ∀ f : Fn, NoParams f → flatten f = f
  | .const b, _ => by simp [flatten]
  | .var i, _ => by simp [flatten]
  | .not f, h => by simp [flatten, flatten_specified f h]
  | .bin o l r, h => by simp [flatten, flatten_specified l h.1, flatten_specified r h.2]
  | .param _ _, h => by cases h

/-- variables with neither regulators nor a function remain free inputs; no other targets are introduced:
the converter maps over the existing variables only -/
theorem no_regulators_untouched (varName : List Char) (update : Option Fn) :
    flattenVar varName [] update = update := by simp [flattenVar]

/-! Non-vacuity: the repaired defect D8, `f(g(b))` -/
example : flatten (.param ['f'] [.param ['g'] [.var 1]]) =
    explode [explode [.var 1] "g_".toList] "f_".toList := by
  simp [flatten, flattenList]

end Hctl.C19
