/-
  C19 — the aeon-to-bnet converter preserves the family of update functions.
-/
import HctlModel.Glue
namespace Hctl.C19
open Hctl Hctl.Convert

/-- the decision tree built by `explode_function` selects the fresh constant named by the argument values -/
theorem explode_semantics (taken : List (List Char)) (env : Nat → Bool) (κ : List Char → List Bool → Bool) :
    ∀ (as : List Fn) (pre : List Char),
      eval env κ (explode taken as pre) = κ (fresh taken (pre ++ bitsOf (evalList env κ as))) [] := by
  intro as
  induction as with
  | nil => intro pre; simp [explode, eval, evalList, bitsOf]
  | cons a as ih =>
    intro pre
    simp only [explode, eval, evalList, BOp.eval, ih]
    cases h : eval env κ a <;> simp [bitsOf, List.append_assoc]

mutual
/-- MAIN (semantics): under any valuation `κ0` of the fresh constants, the flattened function computes what the
original computes when every uninterpreted symbol `f` is instantiated by `f(b₁…bₙ) := κ0 "f_b₁…bₙ"`. -/
theorem flatten_semantics (taken : List (List Char)) (env : Nat → Bool) (κ0 : List Char → Bool) :
    ∀ f : Fn, eval env (constsOnly κ0) (flatten taken f) = eval env (induced taken κ0) f
  | .const b => by simp [flatten, eval]
  | .var i => by simp [flatten, eval]
  | .not f => by simp [flatten, eval, flatten_semantics taken env κ0 f]
  | .bin o l r => by simp [flatten, eval, flatten_semantics taken env κ0 l, flatten_semantics taken env κ0 r]
  | .param name args => by
    simp only [flatten, eval, explode_semantics, flattenList_semantics taken env κ0 args]
    simp [constsOnly, induced, List.append_assoc]
theorem flattenList_semantics (taken : List (List Char)) (env : Nat → Bool) (κ0 : List Char → Bool) :
    ∀ fs : List Fn, evalList env (constsOnly κ0) (flattenList taken fs) = evalList env (induced taken κ0) fs
  | [] => by simp [flattenList, evalList]
  | f :: fs => by simp [flattenList, evalList, flatten_semantics taken env κ0 f, flattenList_semantics taken env κ0 fs]
end

/-- implicit update functions: prefix `<variable>_`, arguments are the regulators -/
theorem implicit_semantics (taken : List (List Char)) (env : Nat → Bool) (κ0 : List Char → Bool) (varName : List Char)
    (regs : List Nat) :
    eval env (constsOnly κ0) (explode taken (regs.map Fn.var) (varName ++ ['_']))
      = induced taken κ0 varName (regs.map env) := by
  rw [explode_semantics]
  have : evalList env (constsOnly κ0) (regs.map Fn.var) = regs.map env := by
    induction regs with
    | nil => rfl
    | cons r rs ih => simp [evalList, eval, ih]
  simp [this, constsOnly, induced, List.append_assoc]

/-! the names of the generated constants are unambiguous -/

theorem bitsOf_no_underscore (bs : List Bool) : '_' ∉ bitsOf bs := by
  induction bs with
  | nil => simp [bitsOf]
  | cons b bs ih =>
    simp only [bitsOf, List.map_cons, List.mem_cons, not_or] at ih ⊢
    exact ⟨by cases b <;> decide, ih⟩

theorem bitsOf_inj {a b : List Bool} (h : bitsOf a = bitsOf b) : a = b := by
  induction a generalizing b with
  | nil => cases b <;> simp_all [bitsOf]
  | cons x a ih =>
    cases b with
    | nil => simp [bitsOf] at h
    | cons y b =>
      simp only [bitsOf, List.map_cons, List.cons.injEq] at h
      have hxy : x = y := by cases x <;> cases y <;> simp_all
      rw [hxy, ih (by simpa [bitsOf] using h.2)]

/-- splitting at the LAST underscore: the suffix after it contains none -/
theorem split_last_underscore {n1 n2 s1 s2 : List Char} (h1 : '_' ∉ s1) (h2 : '_' ∉ s2)
    (h : n1 ++ '_' :: s1 = n2 ++ '_' :: s2) : n1 = n2 ∧ s1 = s2 := by
  have hr := congrArg List.reverse h
  simp only [List.reverse_append, List.reverse_cons, List.append_assoc, List.singleton_append] at hr
  -- s1.reverse ++ '_' :: n1.reverse = s2.reverse ++ '_' :: n2.reverse, with no '_' in the prefixes
  have key : ∀ (a b c d : List Char), '_' ∉ a → '_' ∉ b → a ++ '_' :: c = b ++ '_' :: d → a = b ∧ c = d := by
    intro a
    induction a with
    | nil =>
      intro b c d _ hb hh
      cases b with
      | nil => simpa using hh
      | cons y b =>
        simp only [List.nil_append, List.cons_append, List.cons.injEq] at hh
        exact absurd hh.1.symm (by intro e; exact hb (by simp [e]))
    | cons x a ih =>
      intro b c d ha hb hh
      cases b with
      | nil =>
        simp only [List.nil_append, List.cons_append, List.cons.injEq] at hh
        exact absurd hh.1 (by intro e; exact ha (by simp [e]))
      | cons y b =>
        simp only [List.cons_append, List.cons.injEq] at hh
        obtain ⟨rfl, hh⟩ := hh
        have := ih b c d (fun hm => ha (by simp [hm])) (fun hm => hb (by simp [hm])) hh
        exact ⟨by rw [this.1], this.2⟩
  have := key s1.reverse s2.reverse n1.reverse n2.reverse (by simpa using h1) (by simpa using h2) hr
  exact ⟨by simpa using congrArg List.reverse this.2, by simpa using congrArg List.reverse this.1⟩

/-- `P_b₁ = Q_b₂ → P = Q ∧ b₁ = b₂` -/
theorem explode_names_injective {n1 n2 : List Char} {b1 b2 : List Bool}
    (h : n1 ++ '_' :: bitsOf b1 = n2 ++ '_' :: bitsOf b2) : n1 = n2 ∧ b1 = b2 := by
  have := split_last_underscore (bitsOf_no_underscore b1) (bitsOf_no_underscore b2) h
  exact ⟨this.1, bitsOf_inj this.2⟩

/-! ### the renaming of constants that would clash with a variable name (repair D13) -/

def us (k : Nat) : List Char := List.replicate k '_'

theorem us_succ (k : Nat) (x : List Char) : x ++ us (k + 1) = (x ++ ['_']) ++ us k := by
  simp [us, List.replicate_succ]

/-- what `fresh` returns: the name with the least number of appended underscores that is not a variable name -/
theorem fresh_spec (taken : List (List Char)) (x : List Char) :
    ∃ k, fresh taken x = x ++ us k ∧ (∀ i, i < k → x ++ us i ∈ taken) ∧ x ++ us k ∉ taken := by
  induction x using fresh.induct taken with
  | case1 x h ih =>
    obtain ⟨k, h1, h2, h3⟩ := ih
    refine ⟨k + 1, ?_, ?_, ?_⟩
    · rw [fresh, dif_pos h, h1, us_succ]
    · intro i hi
      cases i with
      | zero => simpa [us] using h
      | succ j => rw [us_succ]; exact h2 j (by omega)
    · rw [us_succ]; exact h3
  | case2 x h =>
    refine ⟨0, ?_, ?_, ?_⟩
    · rw [fresh, dif_neg h]; simp [us]
    · intro i hi; omega
    · simpa [us] using h

theorem fresh_not_taken (taken : List (List Char)) (x : List Char) : fresh taken x ∉ taken := by
  obtain ⟨k, h1, _, h3⟩ := fresh_spec taken x
  rw [h1]; exact h3

/-- a name that is no variable name is kept -/
theorem fresh_id {taken : List (List Char)} {x : List Char} (h : x ∉ taken) : fresh taken x = x := by
  rw [fresh, dif_neg h]

theorem us_add (a b : Nat) : us (a + b) = us a ++ us b := by simp [us, List.replicate_append_replicate]

theorem append_us_cancel (x y : List Char) (k : Nat) (h : x ++ us k = y ++ us k) : x = y :=
  List.append_cancel_right h

/-- a symbol of the input network: a zero-arity parameter is not named like a variable (the library's name space
rule); symbols with arguments, and the implicit functions `<variable>_…`, are unrestricted -/
def Sym (taken : List (List Char)) (n : List Char) (bs : List Bool) : Prop := bs = [] → n ∉ taken

/-- generated constants of two different legitimate symbols never coincide, also after the renaming -/
theorem fresh_names_injective (taken : List (List Char)) {n1 n2 : List Char} {b1 b2 : List Bool}
    (s1 : Sym taken n1 b1) (s2 : Sym taken n2 b2)
    (h : fresh taken (n1 ++ '_' :: bitsOf b1) = fresh taken (n2 ++ '_' :: bitsOf b2)) : n1 = n2 ∧ b1 = b2 := by
  obtain ⟨k1, e1, t1, _⟩ := fresh_spec taken (n1 ++ '_' :: bitsOf b1)
  obtain ⟨k2, e2, t2, _⟩ := fresh_spec taken (n2 ++ '_' :: bitsOf b2)
  rw [e1, e2] at h
  -- one of the two names is the other one followed by underscores
  have key : ∀ (m1 m2 : List Char) (c1 c2 : List Bool) (j1 j2 : Nat), Sym taken m2 c2 →
      (∀ i, i < j1 → (m1 ++ '_' :: bitsOf c1) ++ us i ∈ taken) → j2 ≤ j1 →
      (m1 ++ '_' :: bitsOf c1) ++ us j1 = (m2 ++ '_' :: bitsOf c2) ++ us j2 → m1 = m2 ∧ c1 = c2 := by
    intro m1 m2 c1 c2 j1 j2 hs ht hle hh
    obtain ⟨d, rfl⟩ := Nat.exists_eq_add_of_le hle
    rw [Nat.add_comm, us_add, ← List.append_assoc] at hh
    have hx : (m1 ++ '_' :: bitsOf c1) ++ us d = m2 ++ '_' :: bitsOf c2 := append_us_cancel _ _ _ hh
    cases d with
    | zero =>
      simp only [us, List.replicate_zero, List.append_nil] at hx
      exact explode_names_injective hx
    | succ d =>
      -- the right-hand name ends in '_': it is a zero-arity symbol whose name is a variable name — excluded
      exfalso
      have hx' : ((m1 ++ '_' :: bitsOf c1) ++ us d) ++ '_' :: [] = m2 ++ '_' :: bitsOf c2 := by
        rw [← hx]; simp [us, List.replicate_succ', List.append_assoc]
      have hsplit := split_last_underscore (s1 := []) (s2 := bitsOf c2) (by simp) (bitsOf_no_underscore c2) hx'
      have hc2 : c2 = [] := by
        have := hsplit.2.symm
        cases c2 with
        | nil => rfl
        | cons b bs => simp [bitsOf] at this
      have hm2 : m2 = (m1 ++ '_' :: bitsOf c1) ++ us d := hsplit.1.symm
      exact hs hc2 (by rw [hm2]; exact ht d (by omega))
  rcases Nat.le_total k2 k1 with hle | hle
  · exact key n1 n2 b1 b2 k1 k2 s2 t1 hle h
  · have := key n2 n1 b2 b1 k2 k1 s1 t2 hle h.symm
    exact ⟨this.1.symm, this.2.symm⟩

/-- SURJECTIVITY: every instantiation of the (legitimate) uninterpreted symbols is induced by some valuation of the fresh
constants.  Together with `flatten_semantics`: as the constants range over all Booleans, the flattened function
ranges over exactly the instantiations of the input function — no spurious functions, none missing. -/
theorem every_instantiation_induced (taken : List (List Char)) (κ : List Char → List Bool → Bool) :
    ∃ κ0 : List Char → Bool, ∀ n bs, Sym taken n bs → induced taken κ0 n bs = κ n bs := by
  classical
  refine ⟨fun s => if h : ∃ p : List Char × List Bool, Sym taken p.1 p.2 ∧ s = fresh taken (p.1 ++ '_' :: bitsOf p.2)
    then κ (Classical.choose h).1 (Classical.choose h).2 else false, ?_⟩
  intro n bs hsym
  have hex : ∃ p : List Char × List Bool, Sym taken p.1 p.2 ∧
      fresh taken (n ++ '_' :: bitsOf bs) = fresh taken (p.1 ++ '_' :: bitsOf p.2) := ⟨(n, bs), hsym, rfl⟩
  simp only [induced, dif_pos hex]
  have hs := Classical.choose_spec hex
  obtain ⟨h1, h2⟩ := fresh_names_injective taken hsym hs.1 hs.2
  rw [← h1, ← h2]

mutual
/-- the zero-arity parameters of a function are not named like variables -/
def SymsOK (taken : List (List Char)) : Fn → Prop
  | .const _ => True
  | .var _ => True
  | .not f => SymsOK taken f
  | .bin _ l r => SymsOK taken l ∧ SymsOK taken r
  | .param n args => (args = [] → n ∉ taken) ∧ SymsOKList taken args
def SymsOKList (taken : List (List Char)) : List Fn → Prop
  | [] => True
  | f :: fs => SymsOK taken f ∧ SymsOKList taken fs
end

theorem evalList_nil_iff (env : Nat → Bool) (κ : List Char → List Bool → Bool) (args : List Fn) :
    evalList env κ args = [] ↔ args = [] := by
  cases args <;> simp [evalList]

mutual
theorem eval_congr (taken : List (List Char)) (env : Nat → Bool) (κ1 κ2 : List Char → List Bool → Bool)
    (h : ∀ n bs, Sym taken n bs → κ1 n bs = κ2 n bs) : ∀ f : Fn, SymsOK taken f → eval env κ1 f = eval env κ2 f
  | .const b, _ => by simp [eval]
  | .var i, _ => by simp [eval]
  | .not f, hf => by simp [eval, eval_congr taken env κ1 κ2 h f hf]
  | .bin o l r, hf => by simp [eval, eval_congr taken env κ1 κ2 h l hf.1, eval_congr taken env κ1 κ2 h r hf.2]
  | .param n args, hf => by
    simp only [eval, evalList_congr taken env κ1 κ2 h args hf.2]
    apply h
    intro hnil
    exact hf.1 ((evalList_nil_iff env κ2 args).mp hnil)
theorem evalList_congr (taken : List (List Char)) (env : Nat → Bool) (κ1 κ2 : List Char → List Bool → Bool)
    (h : ∀ n bs, Sym taken n bs → κ1 n bs = κ2 n bs) : ∀ fs : List Fn, SymsOKList taken fs → evalList env κ1 fs = evalList env κ2 fs
  | [], _ => by simp [evalList]
  | f :: fs, hf => by simp [evalList, eval_congr taken env κ1 κ2 h f hf.1, evalList_congr taken env κ1 κ2 h fs hf.2]
end

/-- MAIN (family): for a function whose zero-arity parameters are not named like variables (always the case for a network
the library accepted), the flattened function ranges over exactly the instantiations of the input function -/
theorem flatten_family (taken : List (List Char)) (f : Fn) (hf : SymsOK taken f) (env : Nat → Bool) :
    (∀ κ0, ∃ κ, eval env (constsOnly κ0) (flatten taken f) = eval env κ f) ∧
    (∀ κ, ∃ κ0, eval env (constsOnly κ0) (flatten taken f) = eval env κ f) := by
  refine ⟨fun κ0 => ⟨induced taken κ0, flatten_semantics taken env κ0 f⟩, fun κ => ?_⟩
  obtain ⟨κ0, h⟩ := every_instantiation_induced taken κ
  refine ⟨κ0, ?_⟩
  rw [flatten_semantics]
  exact eval_congr taken env _ _ h f hf

/-- the same for an implicit update function (its symbol `<variable>` always has arguments: the regulators) -/
theorem implicit_family (taken : List (List Char)) (varName : List Char) (regs : List Nat) (hr : regs ≠ []) (env : Nat → Bool) :
    ∀ κ : List Bool → Bool, ∃ κ0, eval env (constsOnly κ0) (explode taken (regs.map Fn.var) (varName ++ ['_']))
      = κ (regs.map env) := by
  intro κ
  obtain ⟨κ0, h⟩ := every_instantiation_induced taken (fun n bs => if n = varName then κ bs else false)
  refine ⟨κ0, ?_⟩
  rw [implicit_semantics, h varName (regs.map env) (by intro hnil; cases regs <;> simp_all)]
  simp

/-! fully specified functions are reproduced -/

mutual
def NoParams : Fn → Prop
  | .const _ => True
  | .var _ => True
  | .not f => NoParams f
  | .bin _ l r => NoParams l ∧ NoParams r
  | .param _ _ => False
end

theorem flatten_specified (taken : List (List Char)) : ∀ f : Fn, NoParams f → flatten taken f = f
  | .const b, _ => by simp [flatten]
  | .var i, _ => by simp [flatten]
  | .not f, h => by simp [flatten, flatten_specified taken f h]
  | .bin o l r, h => by simp [flatten, flatten_specified taken l h.1, flatten_specified taken r h.2]
  | .param _ _, h => by cases h

/-- variables with neither regulators nor a function remain free inputs; no other targets are introduced:
the converter maps over the existing variables only -/
theorem no_regulators_untouched (taken : List (List Char)) (varName : List Char) :
    flattenVar taken varName [] none = none := by simp [flattenVar]

/-- every variable WITH an update function gets the flattened function, whatever its regulators (also none: D16) -/
theorem specified_always_flattened (taken : List (List Char)) (varName : List Char) (regs : List Nat) (f : Fn) :
    flattenVar taken varName regs (some f) = some (flatten taken f) := by simp [flattenVar]

/-- a variable with regulators and no function gets the exploded implicit function -/
theorem implicit_exploded (taken : List (List Char)) (varName : List Char) (regs : List Nat) (hr : regs ≠ []) :
    flattenVar taken varName regs none = some (explode taken (regs.map Fn.var) (varName ++ ['_'])) := by
  cases regs with
  | nil => exact absurd rfl hr
  | cons r rs => simp [flattenVar]

/-- the generated constants are never named like a variable (so `add_parameter` cannot refuse them — the panic of D13) -/
theorem generated_not_variable (taken : List (List Char)) (x : List Char) : fresh taken x ∉ taken :=
  fresh_not_taken taken x

/-! Non-vacuity: the repaired defect D8, `f(g(b))`, and D13, a variable named like a constant -/
example : flatten [] (.param ['f'] [.param ['g'] [.var 1]]) =
    explode [] [explode [] [.var 1] "g_".toList] "f_".toList := by
  simp [flatten, flattenList]
example : fresh ["f_0".toList] "f_0".toList = "f_0_".toList := by
  rw [fresh, dif_pos (by decide), fresh, dif_neg (by decide)]; rfl

end Hctl.C19
