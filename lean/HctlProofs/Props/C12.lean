/-
  C12 — attractor and steady-state shortcuts agree with generic evaluation everywhere.
-/
import HctlProofs.Lemmas.Reach
namespace Hctl.C12
open Hctl Kripke

/-- the shortcuts are taken for exactly the two patterns (near misses keep their own semantics) -/
theorem attractor_pattern_exact (t : Tree) :
    isAttractorPattern t = true ↔ ∃ x, t = .hyb .bind x none (.un .ag (.un .ef (.atom (.var x)))) := by
  constructor
  · intro h
    unfold isAttractorPattern at h
    split at h
    · rename_i v1 v2
      have : v1 = v2 := by simpa using h
      subst this
      exact ⟨v1, rfl⟩
    · cases h
  · rintro ⟨x, rfl⟩
    simp [isAttractorPattern]

theorem fixedPoint_pattern_exact (t : Tree) :
    isFixedPointPattern t = true ↔ ∃ x, t = .hyb .bind x none (.un .ax (.atom (.var x))) := by
  constructor
  · intro h
    unfold isFixedPointPattern at h
    split at h
    · rename_i v1 v2
      have : v1 = v2 := by simpa using h
      subst this
      exact ⟨v1, rfl⟩
    · cases h
  · rintro ⟨x, rfl⟩
    simp [isFixedPointPattern]

/-- asynchronous update: a transition changes the state -/
structure GraphAsync (G : Graph) : Prop where
  step_ne : ∀ c j s t, G.step c j s = some t → t ≠ s

variable {E : Env} (hE : EnvOK E) (hG : GraphWF E.G) (hA : GraphAsync E.G)
include hE hG hA

/-- The steady-state shortcut (pre-computed steady set ∩ current unit) is exactly the satisfaction set of
`!{x}: AX {x}` in ANY admissible universe: at top level, under other operators, inside domain scopes. -/
theorem steady_shortcut_correct {U0 st U : CSet} {d : Nat} (hU : UnitOK E U0 st U d) (x : Name)
    (hx : varId x = d) (hdk : d < E.G.k) (K : SemCtx) :
    Sem E (st.inter U) U (sat E.G K (.hyb .bind x none (.un .ax (.atom (.var x))))) := by
  intro p hp
  have hlen : varId x < p.v.length := by rw [len_v hE hG hp, hx]; exact hdk
  simp only [CSet.inter, Bool.and_eq_true, sat, inDom, true_and, setV_c, setV_s]
  rw [hU.steady p hp]
  constructor
  · rintro ⟨⟨_, hst⟩, hu⟩
    refine ⟨hu, ?_⟩
    rintro t (⟨j, hj, hs⟩ | ⟨_, rfl⟩)
    · rw [hst j hj] at hs; cases hs
    · simp [setV_getV_same p _ _ hlen]
  · rintro ⟨hu, hall⟩
    refine ⟨⟨hU.sub0 p hp hu, ?_⟩, hu⟩
    intro j hj
    cases hs : E.G.step p.c j p.s with
    | none => rfl
    | some t =>
      exfalso
      have := hall t (Or.inl ⟨j, hj, hs⟩)
      simp only [setS_getV, setV_getV_same p _ _ hlen, setS_s] at this
      exact hA.step_ne _ _ _ _ hs this.symm

/-- hence it equals the generic evaluation of the pattern formula -/
theorem steady_shortcut_eq_generic {U0 st U : CSet} {d : Nat} (hU : UnitOK E U0 st U d) (x : Name)
    (hx : varId x = d) (hdk : d < E.G.k) (K : SemCtx) (hK : CtxOK E K) :
    EqOn E.pts (st.inter U)
      (Eval.evalPure E st K.wild K.dom (.hyb .bind x none (.un .ax (.atom (.var x)))) U) := by
  intro p hp
  have h1 := steady_shortcut_correct hE hG hA hU x hx hdk K p hp
  have h2 := evalPure_correct hE hG K hK U0 st (.hyb .bind x none (.un .ax (.atom (.var x)))) d U
    (by simp [WellNamed, hx, hdk]) (by simp [DomsIn]) hU p hp
  exact Bool.eq_iff_iff.mpr (h1.trans h2.symm)

omit hA in
/-- The attractor shortcut.  `AttrSpec`: the (external, modelled) attractor computation returns the points of
the unit lying in a terminal strongly connected component of their colour. -/
theorem attractor_shortcut_correct {U0 st U : CSet} {d : Nat} (hU : UnitOK E U0 st U d) (x : Name)
    (hx : varId x = d) (hdk : d < E.G.k) (K : SemCtx) (attr : CSet)
    (hattr : ∀ p ∈ E.pts, (attr p = true ↔ (U p = true ∧
      ∀ u, StarIn (E.G.stepRel p.c) (fun _ => True) p.s u → StarIn (E.G.stepRel p.c) (fun _ => True) u p.s))) :
    Sem E attr U (sat E.G K (.hyb .bind x none (.un .ag (.un .ef (.atom (.var x)))))) := by
  intro p hp
  have hlen : varId x < p.v.length := by rw [len_v hE hG hp, hx]; exact hdk
  rw [hattr p hp]
  apply and_congr Iff.rfl
  simp only [sat, inDom, true_and, setV_c, setV_s, setS_c, setS_s, setS_setS, setS_getV,
    setV_getV_same p _ _ hlen]
  -- AG EF {x} at s: every reachable state can reach s
  rw [ag_path_iff E.G p.c (fun t => ∃ π : Path (E.G.R p.c) t, ∃ i, p.s = π.π i) p.s]
  constructor
  · intro hall hex
    obtain ⟨u, hsu, hnu⟩ := (EUi_iff_starIn _ _ _).mp ((EUi_R_iff_step E.G p.c _ _ p.s).mp hex)
    apply hnu
    have hback := hall u hsu
    have : EUi (E.G.stepRel p.c) (fun _ => True) (fun t => p.s = t) u :=
      (EUi_iff_starIn _ _ _).mpr ⟨p.s, hback, rfl⟩
    exact (ef_path_iff E.G p.c (fun t => p.s = t) u).mpr ((EUi_R_iff_step E.G p.c _ _ u).mpr this)
  · intro hn u hsu
    apply Classical.byContradiction
    intro hnb
    apply hn
    refine (EUi_R_iff_step E.G p.c _ _ p.s).mpr ((EUi_iff_starIn _ _ _).mpr ⟨u, hsu, ?_⟩)
    intro hpath
    have := (EUi_R_iff_step E.G p.c _ _ u).mp ((ef_path_iff E.G p.c (fun t => p.s = t) u).mp hpath)
    obtain ⟨w, hw, rfl⟩ := (EUi_iff_starIn _ _ _).mp this
    exact hnb hw

omit hA in
/-- The attractor shortcut, for the model's own attractor computation (breadth-first reachability, proved to
meet the terminal-SCC specification in `Lemmas/Reach.lean`): no hypothesis about the computation is left. -/
theorem attractor_shortcut_model {U0 st U : CSet} {d : Nat} (hU : UnitOK E U0 st U d) (x : Name)
    (hx : varId x = d) (hdk : d < E.G.k) (K : SemCtx) :
    Sem E (Ops.attractorsOf E U) U (sat E.G K (.hyb .bind x none (.un .ag (.un .ef (.atom (.var x)))))) :=
  attractor_shortcut_correct hE hG hU x hx hdk K _ (attrSpec hE hG U)

omit hA in
/-- … and therefore equals generic evaluation of `!{x}: AG EF {x}` on the universe. -/
theorem attractor_shortcut_eq_generic {U0 st U : CSet} {d : Nat} (hU : UnitOK E U0 st U d) (x : Name)
    (hx : varId x = d) (hdk : d < E.G.k) (K : SemCtx) (hK : CtxOK E K) :
    EqOn E.pts (Ops.attractorsOf E U)
      (Eval.evalPure E st K.wild K.dom (.hyb .bind x none (.un .ag (.un .ef (.atom (.var x))))) U) := by
  intro p hp
  have h1 := attractor_shortcut_model hE hG hU x hx hdk K p hp
  have h2 := evalPure_correct hE hG K hK U0 st (.hyb .bind x none (.un .ag (.un .ef (.atom (.var x))))) d U
    (by simp [WellNamed, hx, hdk]) (by simp [DomsIn]) hU p hp
  exact Bool.eq_iff_iff.mpr (h1.trans h2.symm)

end Hctl.C12
