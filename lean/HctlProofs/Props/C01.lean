/-
  C01 — model checking returns exactly the (state, colour) pairs satisfying the formula.
-/
import HctlProofs.Lemmas.Corollaries
namespace Hctl.C01
open Hctl Kripke

/-- MAIN (cache-free evaluator): for every graph satisfying the library hypotheses (`GraphWF`), every plain
formula whose variables are named by nesting depth (what preprocessing produces) and every point with a
valid colour: the point is in the result exactly when its state satisfies the formula in that colour's
asynchronous transition system with self-loops on steady states.  No bound on the size of the graph, the
number of colours, or the formula. -/
theorem model_check_correct {E : Env} (hE : EnvOK E) (hG : GraphWF E.G) (t : Tree)
    (hw : WellNamed E.G.k 0 t) (hp : Plain t) :
    ∀ p ∈ E.pts, E.G.valid p.c = true → (evalTop E noCtx t p = true ↔ sat E.G noCtx t p) := by
  intro p hpp hv
  rw [evalTop_correct hE hG noCtx (ctxOK_noCtx E) t hw (hp.domsIn noCtx) p hpp]
  simp [hv]

/-- invalid colours never appear -/
theorem invalid_colour_excluded {E : Env} (hE : EnvOK E) (hG : GraphWF E.G) (t : Tree)
    (hw : WellNamed E.G.k 0 t) (hp : Plain t) :
    ∀ p ∈ E.pts, E.G.valid p.c = false → evalTop E noCtx t p = false := by
  intro p hpp hv
  cases h : evalTop E noCtx t p with
  | false => rfl
  | true =>
    have := (evalTop_correct hE hG noCtx (ctxOK_noCtx E) t hw (hp.domsIn noCtx) p hpp).mp h
    simp [hv] at this

/-- The operators have their standard meaning (the reference semantics `sat` is by paths; these unfold it). -/
theorem sat_EX (G : Graph) (K : SemCtx) (φ : Tree) (p : Point) :
    sat G K (.un .ex φ) p ↔ ∃ t, G.R p.c p.s t ∧ sat G K φ (p.setS t) := Iff.rfl
theorem sat_EG (G : Graph) (K : SemCtx) (φ : Tree) (p : Point) :
    sat G K (.un .eg φ) p ↔ ∃ π : Path (G.R p.c) p.s, ∀ i, sat G K φ (p.setS (π.π i)) := Iff.rfl
theorem sat_AU (G : Graph) (K : SemCtx) (φ ψ : Tree) (p : Point) :
    sat G K (.bin .au φ ψ) p ↔ ∀ π : Path (G.R p.c) p.s,
      ∃ i, sat G K ψ (p.setS (π.π i)) ∧ ∀ j, j < i → sat G K φ (p.setS (π.π j)) := Iff.rfl
theorem sat_bind (G : Graph) (K : SemCtx) (x : Name) (φ : Tree) (p : Point) :
    sat G K (.hyb .bind x none φ) p ↔ sat G K φ (p.setV (varId x) p.s) := by simp [sat, inDom]
theorem sat_jump (G : Graph) (K : SemCtx) (x : Name) (φ : Tree) (p : Point) :
    sat G K (.hyb .jump x none φ) p ↔ sat G K φ (p.setS (p.getV (varId x))) := Iff.rfl
/-- a steady state carries a self-loop -/
theorem steady_selfloop (G : Graph) (c s : Nat) (h : G.isSteady c s) : G.R c s s := Or.inr ⟨h, rfl⟩

/-! Non-vacuity: a concrete two-state oscillator with one valid and one invalid colour. -/

private def G1 : Graph :=
  { nS := 2, nC := 2, nV := 1, k := 1
    valid := fun c => c == 0
    step := fun _ _ s => some (1 - s)
    label := fun n => if n = ['a'] then some (fun s => s == 1) else none }

private theorem G1_wf : GraphWF G1 := ⟨by
  intro c j s t h _
  simp [G1] at h
  subst h
  show 1 - s < 2
  omega⟩

private def x : Name := ['x']
private def fEFa : Tree := .un .ef (.atom (.prop ['a']))
private def fBind : Tree := .hyb .bind x none (.un .ef (.atom (.var x)))

example : EnvOK (Env.pure G1) ∧ GraphWF G1 ∧ WellNamed G1.k 0 fBind ∧ Plain fBind :=
  ⟨envOK_pure G1, G1_wf, by simp [WellNamed, fBind, varId, x, G1], by simp [Plain, fBind]⟩
example : (⟨0, 0, [0]⟩ : Point) ∈ (Env.pure G1).pts := by decide
-- hence, by the theorem, state 0 satisfies `EF a` in colour 0 (it steps to state 1 where `a` holds)
example : sat G1 noCtx fEFa ⟨0, 0, [0]⟩ :=
  (model_check_correct (envOK_pure G1) G1_wf fEFa (by simp [WellNamed, fEFa]) (by simp [Plain, fEFa])
    ⟨0, 0, [0]⟩ (by decide) (by decide)).mp (by decide)

end Hctl.C01
