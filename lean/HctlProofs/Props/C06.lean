/-
  C06 — printing and parsing are inverse; syntax trees are internally consistent.
-/
import HctlProofs.Props.C05
import HctlProofs.Lemmas.LexRender
import HctlProofs.Lemmas.LexValid
namespace Hctl.C06
open Hctl

/-- a node is internally consistent: stored text = canonical rendering of its structure, stored height =
1 + max child height (atoms 0), recursively -/
def NodeWF : Node → Prop
  | .atom s h a => s = (Tree.atom a).render ∧ h = 0
  | .un s h o c => s = (Tree.un o c.erase).render ∧ h = c.erase.height + 1 ∧ NodeWF c
  | .bin s h o l r => s = (Tree.bin o l.erase r.erase).render ∧ h = max l.erase.height r.erase.height + 1 ∧ NodeWF l ∧ NodeWF r
  | .hyb s h o v d c => s = (Tree.hyb o v d c.erase).render ∧ h = c.erase.height + 1 ∧ NodeWF c

theorem wf_str : ∀ n, NodeWF n → n.str = n.erase.render ∧ n.height = n.erase.height := by
  intro n h
  cases n <;> simp_all [NodeWF, Node.str, Node.height, Node.erase, Tree.height]

/-- the constructors preserve consistency -/
theorem mkAtom_wf (a : Atom) : NodeWF (mkAtom a) := by simp [mkAtom, NodeWF, Tree.render]

theorem mkUnary_wf (c : Node) (o : UnOp) (h : NodeWF c) : NodeWF (mkUnary c o) := by
  have := wf_str c h
  cases o <;> simp [mkUnary, NodeWF, Tree.render, UnOp.str, this.1, this.2, h]

theorem mkBinary_wf (l r : Node) (o : BinOp) (hl : NodeWF l) (hr : NodeWF r) : NodeWF (mkBinary l r o) := by
  have h1 := wf_str l hl
  have h2 := wf_str r hr
  simp [mkBinary, NodeWF, Tree.render, h1.1, h1.2, h2.1, h2.2, hl, hr]

theorem mkHybrid_wf (c : Node) (v : Name) (d : Option Name) (o : HybOp) (h : NodeWF c) :
    NodeWF (mkHybrid c v d o) := by
  have := wf_str c h
  simp [mkHybrid, NodeWF, Tree.render, this.1, this.2, h]

/-- every tree assembled bottom-up through the constructors (parsers, preprocessing, public API) is
consistent, and its structure is the tree it was built from -/
theorem build_wf : ∀ t : Tree, NodeWF t.build ∧ t.build.erase = t := by
  intro t
  induction t with
  | atom a => exact ⟨mkAtom_wf a, rfl⟩
  | un o c ih => exact ⟨mkUnary_wf _ o ih.1, by simp [Tree.build, mkUnary, Node.erase, ih.2]⟩
  | bin o l r ihl ihr =>
    exact ⟨mkBinary_wf _ _ o ihl.1 ihr.1, by simp [Tree.build, mkBinary, Node.erase, ihl.2, ihr.2]⟩
  | hyb o v d c ih => exact ⟨mkHybrid_wf _ v d o ih.1, by simp [Tree.build, mkHybrid, Node.erase, ih.2]⟩

theorem build_str (t : Tree) : t.build.str = t.render ∧ t.build.height = t.height := by
  have := build_wf t
  have h := wf_str _ this.1
  rw [this.2] at h
  exact h

/-! the parsing half of the round trip: the canonical token list of a tree parses back to the tree -/

theorem D_lift {ts t} (h : D .term ts t) : ∀ k : Lvl, D k ts t := by
  intro k
  have h8 := D.up (k := .un) (by decide) h
  have h7 := D.up (k := .bt) (by decide) h8
  have h6 := D.up (k := .and) (by decide) h7
  have h5 := D.up (k := .xor) (by decide) h6
  have h4 := D.up (k := .or) (by decide) h5
  have h3 := D.up (k := .imp) (by decide) h4
  have h2 := D.up (k := .iff) (by decide) h3
  have h1 := D.up (k := .hyb) (by decide) h2
  cases k <;> assumption

/-- a derivation at any level is a derivation at the weakest (hybrid) level -/
theorem D_to_hyb {ts t} : ∀ k : Lvl, D k ts t → D .hyb ts t := by
  intro k hb
  cases k
  · exact hb
  · exact D.up (by decide) hb
  · exact D.up (by decide) (D.up (by decide) hb)
  · exact D.up (by decide) (D.up (by decide) (D.up (by decide) hb))
  · exact D.up (by decide) (D.up (by decide) (D.up (by decide) (D.up (by decide) hb)))
  · exact D.up (by decide) (D.up (by decide) (D.up (by decide) (D.up (by decide) (D.up (by decide) hb))))
  · exact D.up (by decide) (D.up (by decide) (D.up (by decide) (D.up (by decide) (D.up (by decide) (D.up (by decide) hb)))))
  · exact D.up (by decide) (D.up (by decide) (D.up (by decide) (D.up (by decide) (D.up (by decide) (D.up (by decide) (D.up (by decide) hb))))))
  · exact D_lift hb .hyb

theorem level_of_op (o : BinOp) : ∃ k : Lvl, k.hasOp o = true := by
  cases o
  · exact ⟨.and, rfl⟩
  · exact ⟨.or, rfl⟩
  · exact ⟨.xor, rfl⟩
  · exact ⟨.imp, rfl⟩
  · exact ⟨.iff, rfl⟩
  · exact ⟨.bt, rfl⟩
  · exact ⟨.bt, rfl⟩
  · exact ⟨.bt, rfl⟩
  · exact ⟨.bt, rfl⟩

theorem canonToks_derives : ∀ t, PropNamesOK t → D .term (canonToks t) t := by
  intro t
  induction t with
  | atom a =>
    intro h
    cases a with
    | prop n =>
      simp only [PropNamesOK] at h
      have := @D.prop n
      rw [h] at this
      exact this
    | var n => exact D.var
    | wild n => exact D.wild
    | tt => exact D.prop (n := ['T','r','u','e'])
    | ff => exact D.prop (n := ['F','a','l','s','e'])
  | un o c ih =>
    intro h
    exact D.group (D_to_hyb .un (D.un (D_lift (ih h) .un)))
  | bin o l r ihl ihr =>
    intro h
    obtain ⟨k, hk⟩ := level_of_op o
    exact D.group (D_to_hyb k (D.bin hk (D_lift (ihl h.1) k.next) (D_lift (ihr h.2) k)))
  | hyb o v d c ih =>
    intro h
    exact D.group (D.hyb (D_lift (ih h) .hyb))

/-- parsing the canonical tokens of a tree yields the tree -/
theorem parse_canonToks (t : Tree) (h : PropNamesOK t) : parseToks (canonToks t) = .ok t := by
  rw [C05.parse_iff_derives]
  exact D_lift (canonToks_derives t h) .hyb

/-- MAIN (round trip, lexing and parsing, every tree of any size): printing a tree over valid identifiers with the
canonical renderer and running tokenizer and parser on the text yields the tree again. `TreeOK`: identifiers are
non-empty words of name characters, propositions are not spelled like an operator (`EX`, `3`, …), `@` carries no
domain; `PropNamesOK`: a proposition is not spelled like a constant. -/
theorem print_parse_roundtrip (K : CharClass) (hK : Lex.CharsOK K) (t : Tree) (ht : Lex.TreeOK K t)
    (hp : PropNamesOK t) :
    ∃ toks, Lex.tokenize K true t.render = .ok toks ∧ parseToks toks = .ok t :=
  ⟨canonToks t, Lex.tokenize_render hK true t ht (Or.inl rfl), parse_canonToks t hp⟩

/-- the same through the plain entry point, for trees without wild-cards and domains -/
theorem print_parse_roundtrip_plain (K : CharClass) (hK : Lex.CharsOK K) (t : Tree) (ht : Lex.TreeOK K t)
    (hp : PropNamesOK t) (hpl : Plain t) :
    ∃ toks, Lex.tokenize K false t.render = .ok toks ∧ parseToks toks = .ok t :=
  ⟨canonToks t, Lex.tokenize_render hK false t ht (Or.inr hpl), parse_canonToks t hp⟩

/-- hence the canonical rendering determines the tree (stored texts identify structures) -/
theorem render_injective (K : CharClass) (hK : Lex.CharsOK K) (t1 t2 : Tree) (h1 : Lex.TreeOK K t1) (h2 : Lex.TreeOK K t2)
    (p1 : PropNamesOK t1) (p2 : PropNamesOK t2) (h : t1.render = t2.render) : t1 = t2 := by
  have a := Lex.tokenize_render hK true t1 h1 (Or.inl rfl)
  have b := Lex.tokenize_render hK true t2 h2 (Or.inl rfl)
  rw [h, b] at a
  have hc : canonToks t2 = canonToks t1 := by injection a
  have c1 := parse_canonToks t1 p1
  have c2 := parse_canonToks t2 p2
  rw [hc, c1] at c2
  cases c2
  rfl

/-! Non-vacuity, and a name that really breaks the round trip (so the guard is the real one). -/
example : PropNamesOK (.bin .and (.atom (.prop ['a'])) (.atom .tt)) := by
  simp [PropNamesOK, constOrProp]
example : ¬ PropNamesOK (.atom (.prop "true".toList)) := by
  simp [PropNamesOK, constOrProp]
example : (Tree.un .not (.atom (.prop ['a']))).build.str = "(~a)".toList := by decide
example : (Tree.hyb .ex ['x'] (some ['d']) (.un .ag (.atom (.var ['x'])))).build.str
    = "(3{x} in %d%: (AG {x}))".toList := by decide

/-- FULL STATEMENT, parser output: every tree the (plain or extended) tokenizer + parser produce from ANY text
round-trips: printing it and parsing the text again (extended entry) yields an equal tree. -/
theorem parsed_tree_roundtrip (K : CharClass) (hK : Lex.CharsOK K) (ext : Bool) (cs : List Char) (ts : List Tok) (t : Tree)
    (hl : Lex.tokenize K ext cs = .ok ts) (hp : parseToks ts = .ok t) :
    ∃ toks, Lex.tokenize K true t.render = .ok toks ∧ parseToks toks = .ok t := by
  obtain ⟨h1, h2⟩ := parsed_treeOK hK ext cs ts t hl hp
  exact print_parse_roundtrip K hK t h1 h2

/-- FULL STATEMENT, preprocessing output: the tree after `validate_props_and_rename_vars` round-trips as well. -/
theorem preprocessed_tree_roundtrip (K : CharClass) (hK : Lex.CharsOK K) (ext : Bool) (f : Name → Bool) (cs : List Char)
    (ts : List Tok) (t t' : Tree) (hl : Lex.tokenize K ext cs = .ok ts) (hp : parseToks ts = .ok t)
    (hr : rename f t = .ok t') :
    ∃ toks, Lex.tokenize K true t'.render = .ok toks ∧ parseToks toks = .ok t' := by
  obtain ⟨h1, h2⟩ := rename_treeOK hK f t t' (parsed_treeOK hK ext cs ts t hl hp) hr
  exact print_parse_roundtrip K hK t' h1 h2

/-! Non-vacuity of the round trip: a character class that satisfies `CharsOK`, and a tree that satisfies the premises. -/
section
open Lex
/-- the ASCII restriction of Rust's character classes -/
def asciiClass : CharClass := ⟨fun c => c.isAlphanum, fun c => c.isWhitespace⟩

theorem asciiClass_ok : CharsOK asciiClass := by
  constructor
  · intro c h
    simp only [asciiClass, Char.isWhitespace, Bool.or_eq_true, decide_eq_true_eq] at h
    rcases h with ((rfl | rfl) | rfl) | rfl <;> decide
  · intro c hc
    simp only [specials, List.mem_cons, List.not_mem_nil, or_false] at hc
    rcases hc with rfl | rfl | rfl | rfl | rfl | rfl | rfl | rfl | rfl | rfl | rfl | rfl | rfl | rfl | rfl | rfl | rfl <;> decide
  · intro c hc hne
    simp only [specials, List.mem_cons, List.not_mem_nil, or_false] at hc
    rcases hc with rfl | rfl | rfl | rfl | rfl | rfl | rfl | rfl | rfl | rfl | rfl | rfl | rfl | rfl | rfl | rfl | rfl <;>
      first | decide | exact absurd rfl hne
  · decide
  · intro c hc
    simp only [List.mem_cons, List.not_mem_nil, or_false] at hc
    rcases hc with rfl | rfl | rfl | rfl | rfl | rfl | rfl | rfl | rfl | rfl | rfl | rfl | rfl | rfl | rfl | rfl | rfl | rfl | rfl | rfl | rfl | rfl | rfl | rfl | rfl | rfl | rfl | rfl <;> decide
  · intro c hc
    simp [asciiClass, Char.isAlphanum, hc]

-- `(!{x} in %d%: (AX ({x} & (~EF_a))))` round-trips
example : TreeOK asciiClass (.hyb .bind ['x'] (some ['d']) (.un .ax (.bin .and (.atom (.var ['x'])) (.un .not (.atom (.prop ['E','F','_','a']))))))
    ∧ PropNamesOK (.hyb .bind ['x'] (some ['d']) (.un .ax (.bin .and (.atom (.var ['x'])) (.un .not (.atom (.prop ['E','F','_','a'])))))) := by
  refine ⟨?_, ?_⟩
  · simp [TreeOK, ValidId, ValidName, isName, asciiClass]
  · simp [PropNamesOK, constOrProp]
end

end Hctl.C06
