/-
  C03 — results never leave the graph's valid universe; closed results ignore the spare variables.
-/
import HctlProofs.Lemmas.Corollaries
namespace Hctl.C03
open Hctl

/-- every set produced by the evaluator in a universe `U` is a subset of `U` (any nesting depth, any context) -/
theorem eval_subset_unit {E : Env} (hE : EnvOK E) (hG : GraphWF E.G) (K : SemCtx) (hK : CtxOK E K)
    (U0 st : CSet) (t : Tree) (d : Nat) (U : CSet) (hw : WellNamed E.G.k d t) (hd : DomsIn K t)
    (hU : UnitOK E U0 st U d) :
    ∀ p ∈ E.pts, Eval.evalPure E st K.wild K.dom t U p = true → U p = true :=
  fun p hp h => ((evalPure_correct hE hG K hK U0 st t d U hw hd hU p hp).mp h).1

/-- at top level: a result never contains a colour that violates the regulation constraints -/
theorem result_colours_valid {E : Env} (hE : EnvOK E) (hG : GraphWF E.G) (K : SemCtx) (hK : CtxOK E K)
    (t : Tree) (hw : WellNamed E.G.k 0 t) (hd : DomsIn K t) :
    ∀ p ∈ E.pts, evalTop E K t p = true → E.G.valid p.c = true :=
  fun p hp h => ((evalTop_correct hE hG K hK t hw hd p hp).mp h).1

/-- hence the number of results never exceeds that of the unit set -/
theorem counts_le {E : Env} (hE : EnvOK E) (hG : GraphWF E.G) (K : SemCtx) (hK : CtxOK E K)
    (t : Tree) (hw : WellNamed E.G.k 0 t) (hd : DomsIn K t) :
    card E.pts (evalTop E K t) ≤ card E.pts E.G.unit0 :=
  card_mono (fun p hp h => result_colours_valid hE hG K hK t hw hd p hp h)

/-- for a closed formula the raw result does not depend on the symbolic variables encoding HCTL variables -/
theorem closed_indep_spare {E : Env} (hE : EnvOK E) (hG : GraphWF E.G) (K : SemCtx) (hK : CtxOK E K)
    (hSC : CtxSC K) (t : Tree) (hw : WellScoped E.G.k 0 t) (hd : DomsIn K t) (s c : Nat) (v v' : List Nat)
    (hp : (⟨s, c, v⟩ : Point) ∈ E.pts) (hp' : (⟨s, c, v'⟩ : Point) ∈ E.pts) :
    evalTop E K t ⟨s, c, v⟩ = evalTop E K t ⟨s, c, v'⟩ := by
  have h1 := evalTop_correct hE hG K hK t hw.wellNamed hd _ hp
  have h2 := evalTop_correct hE hG K hK t hw.wellNamed hd _ hp'
  have hl : E.G.k ≤ v.length := by rw [← len_v hE hG hp]; exact Nat.le_refl _
  have hl' : E.G.k ≤ v'.length := by rw [← len_v hE hG hp']; exact Nat.le_refl _
  have hs := sat_congr E.G K hSC E.G.k t 0 s c v v' hw hl hl' (fun i hi => absurd hi (Nat.not_lt_zero i))
  exact Bool.eq_iff_iff.mpr (h1.trans ((and_congr Iff.rfl hs).trans h2.symm))

end Hctl.C03
