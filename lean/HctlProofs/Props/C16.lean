/-
  C16 — result archives reload to the sets that were written.
  The zip container, the file system and the BDD (de)serialisation are outside the model: `ser`/`deser`
  are parameters with the round-trip hypothesis `deser (ser s) = s` (exercised by K8 on every run).
-/
import HctlModel.Glue
namespace Hctl.C16
open Hctl Hctl.Archive

/-- labels that can be reloaded: the last path component is not empty (the label is neither empty nor ends in '/');
labels with inner separators (`dir/name`) are fine — they become entries in a sub-directory of the archive -/
def ValidLabel (l : List Char) : Prop := l ≠ [] ∧ l.getLast? ≠ some '/'

theorem splitLastDot_none {b : List Char} (h : '.' ∉ b) : splitLastDot b = none := by
  induction b with
  | nil => rfl
  | cons c cs ih =>
    simp only [List.mem_cons, not_or] at h
    simp [splitLastDot, ih h.2, Ne.symm h.1]

theorem splitLastDot_app (a b : List Char) (h : '.' ∉ b) : splitLastDot (a ++ '.' :: b) = some (a, b) := by
  induction a with
  | nil => simp [splitLastDot, splitLastDot_none h]
  | cons x a ih => simp [splitLastDot, ih]

theorem takeWhile_app_all {p : Char → Bool} : ∀ (a b : List Char), (∀ x ∈ a, p x = true) →
    (a ++ b).takeWhile p = a ++ b.takeWhile p := by
  intro a
  induction a with
  | nil => intro b _; rfl
  | cons c cs ih =>
    intro b h
    simp only [List.cons_append, List.takeWhile_cons, h c (by simp), if_true]
    rw [ih b (fun x hx => h x (by simp [hx]))]

/-- the file name of `<label>.bdd` is the last component of the label followed by `.bdd` -/
theorem fileName_bdd (l : List Char) : fileName (l ++ ['.', 'b', 'd', 'd']) = fileName l ++ ['.', 'b', 'd', 'd'] := by
  unfold fileName
  have : (l ++ ['.', 'b', 'd', 'd']).reverse = ['d', 'd', 'b', '.'] ++ l.reverse := by simp
  rw [this, takeWhile_app_all _ _ (by decide)]
  simp

theorem fileName_nonempty (l : List Char) (h : ValidLabel l) : fileName l ≠ [] := by
  unfold fileName
  obtain ⟨h1, h2⟩ := h
  cases hr : l.reverse with
  | nil => simp at hr; exact absurd hr h1
  | cons c cs =>
    have hl : l.getLast? = some c := by
      have : l = (c :: cs).reverse := by rw [← hr, List.reverse_reverse]
      rw [this]; simp
    have hc : c ≠ '/' := fun e => h2 (by rw [hl, e])
    simp [List.takeWhile_cons, hc]

/-- an entry `<label>.bdd` with a valid label has extension `bdd` and strips back to the label -/
theorem bdd_entry_reloads (l : List Char) (h : ValidLabel l) :
    extension (l ++ ['.', 'b', 'd', 'd']) = some ['b', 'd', 'd'] ∧ stripBdd (l ++ ['.', 'b', 'd', 'd']) = some l := by
  constructor
  · unfold extension
    rw [fileName_bdd]
    have hf := fileName_nonempty l h
    have hne : (fileName l ++ ['.', 'b', 'd', 'd']).isEmpty = false := by cases fileName l <;> simp
    have hsp : splitLastDot (fileName l ++ ['.', 'b', 'd', 'd']) = some (fileName l, ['b', 'd', 'd']) :=
      splitLastDot_app (fileName l) ['b', 'd', 'd'] (by decide)
    have hl : (fileName l).isEmpty = false := by
      cases hfl : fileName l with
      | nil => exact absurd hfl hf
      | cons _ _ => rfl
    dsimp only
    rw [hsp]
    simp only [hne, hl, Bool.false_eq_true, if_false]
  · unfold stripBdd
    simp

/-- nested labels are valid: `backup/attr` reloads as `backup/attr` -/
example : ValidLabel "backup/attr".toList := by unfold ValidLabel; decide

/-- the empty label and labels ending in '/' are written but never reloaded (see known findings) -/
theorem empty_label_not_reloaded : extension ([] ++ ['.', 'b', 'd', 'd']) = none := by decide
theorem slash_label_not_reloaded : extension (['a', '/'] ++ ['.', 'b', 'd', 'd']) = none := by decide

/-- the other two entries are never mistaken for sets -/
theorem nonbdd_ignored :
    extension ['m', 'o', 'd', 'e', 'l', '.', 'a', 'e', 'o', 'n'] ≠ some ['b', 'd', 'd'] ∧ extension ['f', 'o', 'r', 'm', 'u', 'l', 'a', 'e', '.', 't', 'x', 't'] ≠ some ['b', 'd', 'd'] := by
  decide

theorem load_cons {α : Type} (deser : List Char → α) (e : List Char × List Char) (es : List (List Char × List Char)) :
    load deser (e :: es) = load deser [e] ++ load deser es := by
  unfold load
  rw [show e :: es = [e] ++ es from rfl, List.filterMap_append]

theorem load_append {α : Type} (deser : List Char → α) (a b : List (List Char × List Char)) :
    load deser (a ++ b) = load deser a ++ load deser b := by
  unfold load; exact List.filterMap_append

theorem load_nonbdd {α : Type} (deser : List Char → α) (n c : List Char) (h : extension n ≠ some ['b', 'd', 'd']) :
    load deser [(n, c)] = [] := by
  unfold load; simp [List.filterMap_cons, h]

theorem load_bdd {α : Type} (deser : List Char → α) (l c : List Char) (h : ValidLabel l) :
    load deser [(l ++ ['.', 'b', 'd', 'd'], c)] = [(l, deser c)] := by
  have hl := bdd_entry_reloads l h
  unfold load; simp [List.filterMap_cons, hl.1, hl.2]

/-- MAIN: reading back what `build_result_archive` wrote yields, under the same labels, the sets written -/
theorem bundle_roundtrip {α : Type} (ser : α → List Char) (deser : List Char → α)
    (hrt : ∀ s, deser (ser s) = s) (results : List (List Char × α)) (model : List Char) (formulae : List (List Char))
    (hv : ∀ e ∈ results, ValidLabel e.1) :
    load deser (entries ser results model formulae) = results := by
  unfold entries
  rw [load_append, load_cons, load_nonbdd deser _ _ nonbdd_ignored.1, load_nonbdd deser _ _ nonbdd_ignored.2]
  simp only [List.append_nil]
  induction results with
  | nil => rfl
  | cons e rs ih =>
    rw [List.map_cons, load_cons, load_bdd deser e.1 _ (hv e (by simp)), hrt,
      ih (fun e' he => hv e' (by simp [he]))]
    rfl

/-! the formula list: entry i corresponds to line i -/

theorem linesAux_app (f : List Char) (rest cur : List Char) (h : '\n' ∉ f) :
    Loader.linesAux (f ++ '\n' :: rest) cur = (cur.reverse ++ f) :: Loader.linesAux rest [] := by
  induction f generalizing cur with
  | nil => simp [Loader.linesAux]
  | cons c f ih =>
    simp only [List.mem_cons, not_or] at h
    have hc : c ≠ '\n' := fun e => h.1 e.symm
    simp [Loader.linesAux, hc, ih (c :: cur) h.2]

theorem lines_unlines (fs : List (List Char)) (h : ∀ f ∈ fs, '\n' ∉ f ∧ f.getLast? ≠ some '\r') :
    Loader.lines ((fs.map (· ++ ['\n'])).flatten) = fs := by
  unfold Loader.lines
  have h1 : Loader.linesAux ((fs.map (· ++ ['\n'])).flatten) [] = fs := by
    induction fs with
    | nil => rfl
    | cons f fs ih =>
      simp only [List.map_cons, List.flatten_cons, List.append_assoc, List.singleton_append]
      rw [linesAux_app f _ [] (h f (by simp)).1]
      simp [ih (fun g hg => h g (by simp [hg]))]
  rw [h1]
  have hcr : ∀ f : List Char, f.getLast? ≠ some '\r' → Loader.stripCr f = f := by
    intro f hf
    unfold Loader.stripCr
    cases hr : f.reverse with
    | nil => rfl
    | cons c r =>
      have hl : f.getLast? = some c := by
        rw [List.getLast?_eq_head?_reverse, hr]; rfl
      by_cases hc : c = '\r'
      · subst hc; exact absurd hl hf
      · split
        · rename_i heq; simp only [List.cons.injEq] at heq; exact absurd heq.1 hc
        · rfl
  clear h1
  induction fs with
  | nil => rfl
  | cons f fs ih =>
    rw [List.map_cons, hcr f (h f (by simp)).2, ih (fun g hg => h g (by simp [hg]))]

/-- line i of the archived `formulae.txt` is formula i (so entry `formula-i` corresponds to line i) -/
theorem formulae_lines (fs : List (List Char)) (h : ∀ f ∈ fs, '\n' ∉ f ∧ f.getLast? ≠ some '\r') (i : Nat) :
    (Loader.lines ((fs.map (· ++ ['\n'])).flatten))[i]? = fs[i]? := by
  rw [lines_unlines fs h]

/-! Non-vacuity -/
example : ValidLabel ['f', 'o', 'r', 'm', 'u', 'l', 'a', '-', '0'] ∧ ValidLabel ['a', '.', 'b'] ∧ ValidLabel ['9', 'x', '-', 'y'] := by
  refine ⟨⟨by decide, by decide⟩, ⟨by decide, by decide⟩, ⟨by decide, by decide⟩⟩
example : load (α := List Char) id (entries id [(['s', '1'], ['X'])] ['m'] [['f']])
    = [(['s', '1'], ['X'])] := by decide

end Hctl.C16
