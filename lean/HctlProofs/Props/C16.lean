/-
  C16 — result archives reload to the sets that were written.
  The zip container, the file system and the BDD (de)serialisation are outside the model: `ser`/`deser`
  are parameters with the round-trip hypothesis `deser (ser s) = s` (exercised by K8 on every run).
-/
import HctlModel.Glue
namespace Hctl.C16
open Hctl Hctl.Archive

/-- an entry `<label>.bdd` strips back to the label — for EVERY label (empty, nested, ending in '/', containing dots) -/
theorem bdd_entry_reloads (l : List Char) : stripBdd (l ++ ['.', 'b', 'd', 'd']) = some l := by
  unfold stripBdd
  simp

/-- the other two entries are never mistaken for sets -/
theorem nonbdd_ignored :
    stripBdd ['m', 'o', 'd', 'e', 'l', '.', 'a', 'e', 'o', 'n'] = none ∧
    stripBdd ['f', 'o', 'r', 'm', 'u', 'l', 'a', 'e', '.', 't', 'x', 't'] = none := by
  decide

theorem load_cons {α : Type} (deser : List Char → α) (e : List Char × List Char) (es : List (List Char × List Char)) :
    load deser (e :: es) = load deser [e] ++ load deser es := by
  unfold load
  rw [show e :: es = [e] ++ es from rfl, List.filterMap_append]

theorem load_append {α : Type} (deser : List Char → α) (a b : List (List Char × List Char)) :
    load deser (a ++ b) = load deser a ++ load deser b := by
  unfold load; exact List.filterMap_append

theorem load_nonbdd {α : Type} (deser : List Char → α) (n c : List Char) (h : stripBdd n = none) :
    load deser [(n, c)] = [] := by
  unfold load; simp [h]

theorem load_bdd {α : Type} (deser : List Char → α) (l c : List Char) :
    load deser [(l ++ ['.', 'b', 'd', 'd'], c)] = [(l, deser c)] := by
  unfold load; simp [bdd_entry_reloads l]

/-- MAIN: reading back what `build_result_archive` wrote yields, under the same labels, the sets written — for every
label → set list, whatever the labels look like (since the repair of `load_bdd_bundle`, see known_findings.json) -/
theorem bundle_roundtrip {α : Type} (ser : α → List Char) (deser : List Char → α)
    (hrt : ∀ s, deser (ser s) = s) (results : List (List Char × α)) (model : List Char) (formulae : List (List Char)) :
    load deser (entries ser results model formulae) = results := by
  unfold entries
  rw [load_append, load_cons, load_nonbdd deser _ _ nonbdd_ignored.1, load_nonbdd deser _ _ nonbdd_ignored.2]
  simp only [List.append_nil]
  induction results with
  | nil => rfl
  | cons e rs ih =>
    rw [List.map_cons, load_cons, load_bdd deser e.1 _, hrt, ih]
    rfl

/-- non-vacuity of the hard cases: the empty label and a label ending in '/' come back -/
example : load (fun c => c) (entries (fun c => c) [([], ['x']), (['a', '/'], ['y'])] [] []) = [([], ['x']), (['a', '/'], ['y'])] := by
  decide

/-! the formula list: entry i corresponds to line i -/

theorem linesAux_app (f : List Char) (rest cur : List Char) (h : '\n' ∉ f) :
    Loader.linesAux (f ++ '\n' :: rest) cur = (cur.reverse ++ f) :: Loader.linesAux rest [] := by
  induction f generalizing cur with
  | nil => simp [Loader.linesAux]
  | cons c f ih =>
    simp only [List.mem_cons, not_or] at h
    have hc : c ≠ '\n' := fun e => h.1 e.symm
    simp [Loader.linesAux, hc, ih (c :: cur) h.2]

theorem lines_unlines (fs : List (List Char)) (h : ∀ f ∈ fs, '\n' ∉ f ∧ f.getLast? ≠ some '\r') :
    Loader.lines ((fs.map (· ++ ['\n'])).flatten) = fs := by
  unfold Loader.lines
  have h1 : Loader.linesAux ((fs.map (· ++ ['\n'])).flatten) [] = fs := by
    induction fs with
    | nil => rfl
    | cons f fs ih =>
      simp only [List.map_cons, List.flatten_cons, List.append_assoc, List.singleton_append]
      rw [linesAux_app f _ [] (h f (by simp)).1]
      simp [ih (fun g hg => h g (by simp [hg]))]
  rw [h1]
  have hcr : ∀ f : List Char, f.getLast? ≠ some '\r' → Loader.stripCr f = f := by
    intro f hf
    unfold Loader.stripCr
    cases hr : f.reverse with
    | nil => rfl
    | cons c r =>
      have hl : f.getLast? = some c := by
        rw [List.getLast?_eq_head?_reverse, hr]; rfl
      by_cases hc : c = '\r'
      · subst hc; exact absurd hl hf
      · split
        · rename_i heq; simp only [List.cons.injEq] at heq; exact absurd heq.1 hc
        · rfl
  clear h1
  induction fs with
  | nil => rfl
  | cons f fs ih =>
    rw [List.map_cons, hcr f (h f (by simp)).2, ih (fun g hg => h g (by simp [hg]))]

theorem oneLine_ok (f : List Char) : '\n' ∉ oneLine f ∧ (oneLine f).getLast? ≠ some '\r' := by
  have hno : ∀ c ∈ oneLine f, c ≠ '\n' ∧ c ≠ '\r' := by
    intro c hc
    simp only [oneLine, List.mem_map] at hc
    obtain ⟨d, _, rfl⟩ := hc
    by_cases h : d = '\n' ∨ d = '\r'
    · rw [if_pos h]; decide
    · rw [if_neg h]; exact ⟨fun e => h (Or.inl e), fun e => h (Or.inr e)⟩
  refine ⟨fun hm => (hno _ hm).1 rfl, fun hl => ?_⟩
  exact (hno _ (List.mem_of_getLast? hl)).2 rfl

/-- a formula without line breaks is archived as it is -/
theorem oneLine_id (f : List Char) (h : '\n' ∉ f ∧ '\r' ∉ f) : oneLine f = f := by
  unfold oneLine
  induction f with
  | nil => rfl
  | cons c cs ih =>
    simp only [List.mem_cons, not_or] at h
    have hc : ¬ (c = '\n' ∨ c = '\r') := fun e => e.elim (fun e => h.1.1 e.symm) (fun e => h.2.1 e.symm)
    simp only [List.map_cons, if_neg hc, List.cons.injEq, true_and]
    exact ih ⟨h.1.2, h.2.2⟩

/-- line i of the archived `formulae.txt` is formula i written on one line (so entry `formula-i` corresponds to line i) —
for EVERY list of formula strings (since the repair D17; before it a line break inside a formula shifted the lines) -/
theorem formulae_lines (fs : List (List Char)) (i : Nat) :
    (Loader.lines ((fs.map (fun f => oneLine f ++ ['\n'])).flatten))[i]? = (fs.map oneLine)[i]? := by
  have := lines_unlines (fs.map oneLine) (by
    intro f hf
    simp only [List.mem_map] at hf
    obtain ⟨g, _, rfl⟩ := hf
    exact oneLine_ok g)
  simp only [List.map_map] at this
  have e : (fs.map (fun f => oneLine f ++ ['\n'])) = fs.map ((fun x => x ++ ['\n']) ∘ oneLine) := rfl
  rw [e, this]

/-! Non-vacuity -/
example : load (α := List Char) id (entries id [(['s', '1'], ['X'])] ['m'] [['f']])
    = [(['s', '1'], ['X'])] := by decide

end Hctl.C16
