/-
  C08 — results are invariant under meaning-preserving rewrites of the formula text.
  Everything downstream of preprocessing is a function of the preprocessed tree, so it suffices that the
  rewrites do not change that tree.
-/
import HctlProofs.Props.C07
import HctlProofs.Props.C06
import HctlProofs.Lemmas.LexSpec
namespace Hctl.C08
open Hctl

/-- consistent renaming of state variables (alpha-equivalent inputs, including names that coincide with the
internal ones in a different order): if both are accepted, preprocessing yields the SAME tree -/
theorem alpha_invariant (isNetVar : Name → Bool) (t1 t2 a b : Tree)
    (h1 : rename isNetVar t1 = .ok a) (h2 : rename isNetVar t2 = .ok b) (hα : toDB [] t1 = toDB [] t2) :
    a = b := by
  have ha := C07.rename_alpha isNetVar t1 a h1
  have hb := C07.rename_alpha isNetVar t2 b h2
  have hn1 := C07.rename_depth_names isNetVar t1 a h1
  have hn2 := C07.rename_depth_names isNetVar t2 b h2
  exact depthNamed_db_inj a b 0 hn1 hn2 (by simpa [idMap] using (ha.symm.trans (hα.trans hb)))

/-- redundant parentheses around a complete formula -/
theorem paren_invariant (ts : List Tok) (t : Tree) (h : parseToks ts = .ok t) :
    parseToks [.group ts] = .ok t := C05.paren_invariant ts t h

/-- redundant parentheses around a complete sub-formula: any context that derives with the sub-formula's
tokens as a group keeps deriving when the group is doubled -/
theorem paren_invariant_inner (pre post inner : List Tok) (t : Tree) :
    Derives (pre ++ .group inner :: post) t → Derives (pre ++ .group [.group inner] :: post) t := by
  -- a group is a terminal: replacing `(inner)` by `((inner))` keeps every derivation
  generalize hk : Lvl.hyb = k
  intro h
  clear hk
  -- induction on the derivation, generalised over the position of the group
  suffices H : ∀ k ts t, D k ts t → ∀ pre post, ts = pre ++ Tok.group inner :: post →
      D k (pre ++ Tok.group [Tok.group inner] :: post) t from H _ _ _ h pre post rfl
  intro k ts t hd
  induction hd with
  | @hyb o v d r c _ ih =>
    intro pre post he
    cases pre with
    | nil => simp at he
    | cons p pre' =>
      simp only [List.cons_append, List.cons.injEq] at he
      obtain ⟨rfl, he⟩ := he
      exact D.hyb (ih pre' post he)
  | @bin k o l r a b hop _ _ ihl ihr =>
    intro pre post he
    -- the group lies in the left or in the right operand
    rcases List.append_eq_append_iff.mp he with ⟨m, hm1, hm2⟩ | ⟨m, hm1, hm2⟩
    · -- pre = l ++ m, bin o :: r = m ++ group :: post
      cases m with
      | nil =>
        simp at hm2
      | cons x m' =>
        simp only [List.cons_append, List.cons.injEq] at hm2
        obtain ⟨rfl, hm2⟩ := hm2
        subst hm1
        have := ihr m' post hm2
        have e : l ++ Tok.bin o :: m' ++ Tok.group [Tok.group inner] :: post
            = l ++ Tok.bin o :: (m' ++ Tok.group [Tok.group inner] :: post) := by simp
        rw [e]
        exact D.bin hop ‹_› this
    · -- l = pre ++ m, m ++ bin o :: r = group :: post
      cases m with
      | nil =>
        simp at hm2
      | cons x m' =>
        simp only [List.cons_append, List.cons.injEq] at hm2
        obtain ⟨rfl, hm2⟩ := hm2
        subst hm2
        have := ihl pre m' hm1
        have e : pre ++ Tok.group [Tok.group inner] :: (m' ++ Tok.bin o :: r)
            = (pre ++ Tok.group [Tok.group inner] :: m') ++ Tok.bin o :: r := by simp
        rw [e]
        exact D.bin hop this ‹_›
  | @un o r c _ ih =>
    intro pre post he
    cases pre with
    | nil => simp at he
    | cons p pre' =>
      simp only [List.cons_append, List.cons.injEq] at he
      obtain ⟨rfl, he⟩ := he
      exact D.un (ih pre' post he)
  | up hk _ ih => intro pre post he; exact D.up hk (ih pre post he)
  | prop => intro pre post he; cases pre <;> simp at he
  | var => intro pre post he; cases pre <;> simp at he
  | wild => intro pre post he; cases pre <;> simp at he
  | @group ts t hd _ =>
    intro pre post he
    cases pre with
    | nil =>
      simp only [List.nil_append, List.cons.injEq] at he
      obtain ⟨he1, rfl⟩ := he
      cases he1
      simp only [List.nil_append]
      exact D.group (C06.D_to_hyb .term (D.group hd))
    | cons p pre' =>
      simp only [List.cons_append, List.cons.injEq] at he
      have := he.2
      cases pre' <;> simp at this

/-- alternative spellings of the constants -/
theorem const_spelling_invariant :
    constOrProp "true".toList = constOrProp "True".toList ∧ constOrProp "True".toList = constOrProp "1".toList ∧
    constOrProp "false".toList = constOrProp "False".toList ∧ constOrProp "False".toList = constOrProp "0".toList := by
  decide

/-- the symbolic copy of a variable is chosen by its canonical (depth-based) name -/
theorem copy_by_canonical_name (n : Nat) : varId (xs (n + 1)) = n := varId_xs n

/-! ### white space and operator spellings (statements about the tokenizer, via its specification) -/

/-- a white-space character in front of a text does not change its tokens -/
theorem leading_ws_invariant (K : CharClass) (ext : Bool) (c : Char) (hc : K.isWs c = true) (cs : List Char) :
    Lex.tokenize K ext (c :: cs) = Lex.tokenize K ext cs := by
  simp [Lex.tokenize, Lex.lex_wsc ext c hc]

/-- EXTRA WHITE SPACE BETWEEN TOKENS: if `a` tokenizes to `t1` and `b` to `t2`, then `a`, any white space, `b`
tokenizes to `t1 ++ t2` (a separator is only required where two names would merge) -/
theorem ws_between_tokens (K : CharClass) (hK : Lex.CharsOK K) (ext : Bool) (a b w : List Char) (t1 t2 : List Tok)
    (ha : Lex.tokenize K ext a = .ok t1) (hb : Lex.tokenize K ext b = .ok t2) (hw : Lex.AllWs K w)
    (hne : w ≠ [] ∨ Lex.Sep K b) : Lex.tokenize K ext (a ++ (w ++ b)) = .ok (t1 ++ t2) := by
  rw [Lex.tokenize_iff_spells hK] at ha hb ⊢
  exact Lex.ws_between hK ha hb hw hne

/-- white space inside the segment of a hybrid operator (`{x}`, `in`, `%d%`, `:`) is ignored: all spellings of a
segment yield the same token -/
theorem hybrid_segment_ws (K : CharClass) (hK : Lex.CharsOK K) (ext : Bool) (o : HybOp) (seg seg' : List Char) (v : Name)
    (d : Option Name) (cs : List Char) (ts : List Tok)
    (h1 : Lex.Seg K (if o = .jump then false else ext) seg v d) (h2 : Lex.Seg K (if o = .jump then false else ext) seg' v d)
    (hcs : Lex.tokenize K ext cs = .ok ts) :
    Lex.tokenize K ext (o.str ++ (seg ++ cs)) = .ok (.hyb o v d :: ts) ∧
    Lex.tokenize K ext (o.str ++ (seg' ++ cs)) = .ok (.hyb o v d :: ts) := by
  rw [Lex.tokenize_iff_spells hK] at hcs ⊢
  rw [Lex.tokenize_iff_spells hK]
  exact ⟨Lex.Sp.hybShort o seg v d cs ts h1 hcs, Lex.Sp.hybShort o seg' v d cs ts h2 hcs⟩

/-- the long name of a hybrid operator -/
def longName : HybOp → List Char
  | .bind => ['b','i','n','d'] | .jump => ['j','u','m','p'] | .ex => ['e','x','i','s','t','s'] | .all => ['f','o','r','a','l','l']

/-- LONG VERSUS SHORT OPERATOR SPELLINGS: `\bind`, `\jump`, `\exists`, `\forall` yield the same token as `!`, `@`, `3`, `V` -/
theorem long_short_invariant (K : CharClass) (hK : Lex.CharsOK K) (ext : Bool) (o : HybOp) (seg : List Char) (v : Name)
    (d : Option Name) (cs : List Char) (ts : List Tok)
    (hs : Lex.Seg K (if o = .jump then false else ext) seg v d) (hcs : Lex.tokenize K ext cs = .ok ts) :
    Lex.tokenize K ext (o.str ++ (seg ++ cs)) = .ok (.hyb o v d :: ts) ∧
    Lex.tokenize K ext ('\\' :: (longName o ++ (seg ++ cs))) = .ok (.hyb o v d :: ts) := by
  rw [Lex.tokenize_iff_spells hK] at hcs ⊢
  rw [Lex.tokenize_iff_spells hK]
  refine ⟨Lex.Sp.hybShort o seg v d cs ts hs hcs, Lex.Sp.hybLong o (longName o) seg v d cs ts ?_ hs hcs⟩
  cases o <;> simp [longName, Lex.hybOfLong]

end Hctl.C08
