/-
  C13 — EW and AW are weak until.
-/
import HctlProofs.Lemmas.Corollaries
namespace Hctl.C13
open Hctl Kripke

variable {E : Env} (hE : EnvOK E) (hG : GraphWF E.G)
include hE hG

/-- `eval_ew`: some path satisfies φ until ψ, or φ forever -/
theorem ew_correct {U0 st U a b : CSet} {d : Nat} {φ ψ : Point → Prop} (hU : UnitOK E U0 st U d)
    (ha : Sem E a U φ) (hb : Sem E b U ψ) :
    Sem E (Ops.evalEw E U a b st) U (fun p => ∃ π : Path (E.G.R p.c) p.s,
      untilOn (fun t => φ (p.setS t)) (fun t => ψ (p.setS t)) π.π ∨ ∀ i, φ (p.setS (π.π i))) :=
  sem_ew hE hG hU ha hb

/-- `eval_aw`: every path satisfies φ until ψ, or φ forever -/
theorem aw_correct {U0 st U a b : CSet} {d : Nat} {φ ψ : Point → Prop} (hU : UnitOK E U0 st U d)
    (ha : Sem E a U φ) (hb : Sem E b U ψ) :
    Sem E (Ops.evalAw E U a b) U (fun p => ∀ π : Path (E.G.R p.c) p.s,
      untilOn (fun t => φ (p.setS t)) (fun t => ψ (p.setS t)) π.π ∨ ∀ i, φ (p.setS (π.π i))) :=
  sem_aw hE hG hU ha hb

/-- E[φ W ψ] = E[φ U ψ] ∨ EG φ, as sets -/
theorem ew_eq_eu_or_eg {U0 st U a b : CSet} {d : Nat} {φ ψ : Point → Prop} (hU : UnitOK E U0 st U d)
    (ha : Sem E a U φ) (hb : Sem E b U ψ) :
    EqOn E.pts (Ops.evalEw E U a b st) ((Ops.evalEuSat E a b).union (Ops.evalEg E a st)) := by
  intro p hp
  have h1 := sem_ew hE hG hU ha hb p hp
  have h2 := sem_or (sem_eu' hE hG hU ha hb) (sem_eg' hE hG hU ha) p hp
  apply Bool.eq_iff_iff.mpr
  rw [h1, h2]
  constructor
  · rintro ⟨hu, π, h | h⟩
    · exact ⟨hu, Or.inl ⟨π, h⟩⟩
    · exact ⟨hu, Or.inr ⟨π, h⟩⟩
  · rintro ⟨hu, ⟨π, h⟩ | ⟨π, h⟩⟩
    · exact ⟨hu, π, Or.inl h⟩
    · exact ⟨hu, π, Or.inr h⟩

omit hE hG in
/-- A[φ W ψ] = ¬E[¬ψ U (¬φ ∧ ¬ψ)] is how it is computed -/
theorem aw_eq_not_eu (U a b : CSet) :
    Ops.evalAw E U a b = Ops.evalNeg U (Ops.evalEuSat E (Ops.evalNeg U b) ((Ops.evalNeg U a).inter (Ops.evalNeg U b))) := rfl

/-- every ψ-state satisfies φ EW ψ and φ AW ψ -/
theorem psi_imp_ew {U0 st U a b : CSet} {d : Nat} {φ ψ : Point → Prop} (hU : UnitOK E U0 st U d)
    (ha : Sem E a U φ) (hb : Sem E b U ψ) : SubOn E.pts b (Ops.evalEw E U a b st) := by
  intro p hp hbp
  have h := (hb p hp).mp hbp
  obtain ⟨π⟩ := exists_path (total_R E.G p.c) p.s
  refine (sem_ew hE hG hU ha hb p hp).mpr ⟨h.1, π, Or.inl ⟨0, ?_, fun j hj => absurd hj (Nat.not_lt_zero j)⟩⟩
  rw [π.h0]; exact h.2

theorem psi_imp_aw {U0 st U a b : CSet} {d : Nat} {φ ψ : Point → Prop} (hU : UnitOK E U0 st U d)
    (ha : Sem E a U φ) (hb : Sem E b U ψ) : SubOn E.pts b (Ops.evalAw E U a b) := by
  intro p hp hbp
  have h := (hb p hp).mp hbp
  refine (sem_aw hE hG hU ha hb p hp).mpr ⟨h.1, fun π => Or.inl ⟨0, ?_, fun j hj => absurd hj (Nat.not_lt_zero j)⟩⟩
  rw [π.h0]; exact h.2

omit hE hG in
/-- weak until on a single path: `φ W ψ ≡ ¬(¬ψ U (¬φ ∧ ¬ψ))` -/
theorem weak_until_dual (φ ψ : Nat → Prop) (π : Nat → Nat) :
    (untilOn φ ψ π ∨ ∀ i, φ (π i)) ↔ ¬ untilOn (fun t => ¬ ψ t) (fun t => ¬ φ t ∧ ¬ ψ t) π :=
  wuntil_dual φ ψ π

/-! Non-vacuity: the formula-level statement for `a EW b` at top level. -/
omit hE hG in
example (G : Graph) (K : SemCtx) (φ ψ : Tree) (p : Point) :
    sat G K (.bin .ew φ ψ) p ↔ ∃ π : Path (G.R p.c) p.s,
      untilOn (fun t => sat G K φ (p.setS t)) (fun t => sat G K ψ (p.setS t)) π.π ∨
      ∀ i, sat G K φ (p.setS (π.π i)) := Iff.rfl

end Hctl.C13
