/-
  C11 — temporal operators obey their fixed-point laws on models of any size.
  All statements are about arbitrary argument sets `a`, `b` inside an admissible unit set `U`
  (arbitrary graph, any number of states and colours).
-/
import HctlProofs.Lemmas.Laws
namespace Hctl.C11
open Hctl Kripke

variable {E : Env} (hE : EnvOK E) (hG : GraphWF E.G)
include hE hG

omit hE hG in
/-- an arbitrary set inside the unit, seen semantically -/
theorem sem_self {U a : CSet} (h : SubOn E.pts a U) : Sem E a U (fun p => a p = true) := by
  intro p hp
  exact ⟨fun ha => ⟨h p hp ha, ha⟩, fun ha => ha.2⟩

/-- EF S = S ∪ EX (EF S) -/
theorem ef_unfold {U0 st U a : CSet} {d : Nat} (hU : UnitOK E U0 st U d) (ha : SubOn E.pts a U) :
    EqOn E.pts (Ops.evalEfSat E U a) (a.union (Ops.evalEx E (Ops.evalEfSat E U a) st)) := by
  intro p hp
  have hef := sem_eu hE hG hU sem_unit (sem_self ha)
  have h1 := hef p hp
  have h2 := sem_or (sem_self ha) (sem_ex hE hG hU hef) p hp
  apply Bool.eq_iff_iff.mpr
  show Ops.evalEuSat E U a p = true ↔ _
  rw [h1]
  show _ ↔ (a.union (Ops.evalEx E (Ops.evalEuSat E U a) st)) p = true
  rw [h2]
  dsimp only [setS_c, setS_s, setS_setS]
  rw [EUi_unfold]
  simp only [setS_self, true_and]

/-- EG S = S ∩ EX (EG S) -/
theorem eg_unfold {U0 st U a : CSet} {d : Nat} (hU : UnitOK E U0 st U d) (ha : SubOn E.pts a U) :
    EqOn E.pts (Ops.evalEg E a st) (a.inter (Ops.evalEx E (Ops.evalEg E a st) st)) := by
  intro p hp
  have heg := sem_eg hE hG hU (sem_self ha)
  have h1 := heg p hp
  have h2 := sem_and (sem_self ha) (sem_ex hE hG hU heg) p hp
  apply Bool.eq_iff_iff.mpr
  rw [h1, h2]
  dsimp only [setS_c, setS_s, setS_setS]
  rw [EGc_unfold]
  simp only [setS_self]

/-- E[S U T] = T ∪ (S ∩ EX E[S U T]) -/
theorem eu_unfold {U0 st U a b : CSet} {d : Nat} (hU : UnitOK E U0 st U d)
    (ha : SubOn E.pts a U) (hb : SubOn E.pts b U) :
    EqOn E.pts (Ops.evalEuSat E a b) (b.union (a.inter (Ops.evalEx E (Ops.evalEuSat E a b) st))) := by
  intro p hp
  have heu := sem_eu hE hG hU (sem_self ha) (sem_self hb)
  have h1 := heu p hp
  have h2 := sem_or (sem_self hb) (sem_and (sem_self ha) (sem_ex hE hG hU heu)) p hp
  apply Bool.eq_iff_iff.mpr
  rw [h1, h2]
  dsimp only [setS_c, setS_s, setS_setS]
  rw [EUi_unfold]
  simp only [setS_self]

/-- A[S U T] = T ∪ (S ∩ AX A[S U T]) -/
theorem au_unfold {U0 st U a b : CSet} {d : Nat} (hU : UnitOK E U0 st U d)
    (ha : SubOn E.pts a U) (hb : SubOn E.pts b U) :
    EqOn E.pts (Ops.evalAu E U a b st) (b.union (a.inter (Ops.evalAx E U (Ops.evalAu E U a b st) st))) := by
  intro p hp
  have hau := sem_au hE hG hU (sem_self ha) (sem_self hb)
  have h1 := hau p hp
  have h2 := sem_or (sem_self hb) (sem_and (sem_self ha) (sem_ax hE hG hU hau)) p hp
  apply Bool.eq_iff_iff.mpr
  rw [h1, h2]
  dsimp only [setS_c, setS_s, setS_setS]
  rw [AUi_unfold]
  simp only [setS_self]

/-! dualities between A- and E-operators -/

omit hE hG in
theorem ax_dual (U a st : CSet) : Ops.evalAx E U a st = Ops.evalNeg U (Ops.evalEx E (Ops.evalNeg U a) st) := rfl
omit hE hG in
theorem af_dual (U a st : CSet) : Ops.evalAf E U a st = Ops.evalNeg U (Ops.evalEg E (Ops.evalNeg U a) st) := rfl
omit hE hG in
theorem ag_dual (U a : CSet) : Ops.evalAg E U a = Ops.evalNeg U (Ops.evalEfSat E U (Ops.evalNeg U a)) := rfl

/-- A[S U T] = ¬(E[¬T U (¬S ∧ ¬T)] ∨ EG ¬T) -/
theorem au_dual {U0 st U a b : CSet} {d : Nat} (hU : UnitOK E U0 st U d)
    (ha : SubOn E.pts a U) (hb : SubOn E.pts b U) :
    EqOn E.pts (Ops.evalAu E U a b st)
      (Ops.evalNeg U ((Ops.evalEuSat E (Ops.evalNeg U b) ((Ops.evalNeg U a).inter (Ops.evalNeg U b))).union
        (Ops.evalEg E (Ops.evalNeg U b) st))) := by
  intro p hp
  have sa := sem_self (E := E) ha
  have sb := sem_self (E := E) hb
  have h1 := sem_au' hE hG hU sa sb p hp
  have h2 := sem_neg (sem_or (sem_eu' hE hG hU (sem_neg sb) (sem_and (sem_neg sa) (sem_neg sb)))
    (sem_eg' hE hG hU (sem_neg sb))) p hp
  apply Bool.eq_iff_iff.mpr
  rw [h1, h2]
  apply and_congr Iff.rfl
  constructor
  · rintro hall (⟨π, hu⟩ | ⟨π, hg⟩)
    · exact ((until_dual _ _ π.π).mp (hall π)).1 hu
    · exact ((until_dual _ _ π.π).mp (hall π)).2 hg
  · intro hn π
    apply (until_dual _ _ π.π).mpr
    exact ⟨fun hu => hn (Or.inl ⟨π, hu⟩), fun hg => hn (Or.inr ⟨π, hg⟩)⟩

/-! monotonicity in every argument -/

theorem ex_mono {U0 st U a a' : CSet} {d : Nat} (hU : UnitOK E U0 st U d)
    (ha : SubOn E.pts a U) (ha' : SubOn E.pts a' U) (h : SubOn E.pts a a') :
    SubOn E.pts (Ops.evalEx E a st) (Ops.evalEx E a' st) := by
  intro p hp hx
  obtain ⟨hu, t, hR, hat⟩ := (sem_ex hE hG hU (sem_self ha) p hp).mp hx
  exact (sem_ex hE hG hU (sem_self ha') p hp).mpr
    ⟨hu, t, hR, h _ (setS_mem' hE hG hp (R_lt hE hG hp hR)) hat⟩

theorem eu_mono {U0 st U a a' b b' : CSet} {d : Nat} (hU : UnitOK E U0 st U d)
    (ha : SubOn E.pts a U) (ha' : SubOn E.pts a' U) (hb : SubOn E.pts b U) (hb' : SubOn E.pts b' U)
    (h1 : SubOn E.pts a a') (h2 : SubOn E.pts b b') :
    SubOn E.pts (Ops.evalEuSat E a b) (Ops.evalEuSat E a' b') := by
  intro p hp hx
  obtain ⟨hu, heu⟩ := (sem_eu hE hG hU (sem_self ha) (sem_self hb) p hp).mp hx
  rw [EUi_R_iff_step] at heu
  refine (sem_eu hE hG hU (sem_self ha') (sem_self hb') p hp).mpr ⟨hu, ?_⟩
  show EUi _ _ _ _
  rw [EUi_R_iff_step]
  -- restrict to states inside the state space, where the sets are compared
  have key : ∀ s, EUi (E.G.stepRel p.c) (fun t => a (p.setS t) = true) (fun t => b (p.setS t) = true) s →
      s < E.G.nS → EUi (E.G.stepRel p.c) (fun t => a' (p.setS t) = true) (fun t => b' (p.setS t) = true) s := by
    intro s hs
    induction hs with
    | @here s hψ => intro hlt; exact EUi.here (h2 _ (setS_mem' hE hG hp hlt) hψ)
    | @step s t hφ hR _ ih =>
      intro hlt
      obtain ⟨j, _, hj⟩ := hR
      exact EUi.step (h1 _ (setS_mem' hE hG hp hlt) hφ) ⟨j, ‹_›, hj⟩ (ih (hG.step_lt _ _ _ _ hj hlt))
  exact key p.s heu (s_lt' hE hG hp)

theorem ef_mono {U0 st U a a' : CSet} {d : Nat} (hU : UnitOK E U0 st U d)
    (ha : SubOn E.pts a U) (ha' : SubOn E.pts a' U) (h : SubOn E.pts a a') :
    SubOn E.pts (Ops.evalEfSat E U a) (Ops.evalEfSat E U a') :=
  eu_mono hE hG hU (SubOn.refl U) (SubOn.refl U) ha ha' (SubOn.refl U) h

theorem eg_mono {U0 st U a a' : CSet} {d : Nat} (hU : UnitOK E U0 st U d)
    (ha : SubOn E.pts a U) (ha' : SubOn E.pts a' U) (h : SubOn E.pts a a') :
    SubOn E.pts (Ops.evalEg E a st) (Ops.evalEg E a' st) := by
  intro p hp hx
  obtain ⟨hu, X, hXs, hX⟩ := (sem_eg hE hG hU (sem_self ha) p hp).mp hx
  refine (sem_eg hE hG hU (sem_self ha') p hp).mpr ⟨hu, fun t => X t ∧ t < E.G.nS, ⟨hXs, s_lt' hE hG hp⟩, ?_⟩
  rintro x ⟨hx1, hx2⟩
  obtain ⟨h3, y, hR, hy⟩ := hX x hx1
  have hq := setS_mem' hE hG hp hx2
  exact ⟨h _ hq h3, y, hR, hy, R_lt hE hG hq hR⟩

theorem au_mono {U0 st U a a' b b' : CSet} {d : Nat} (hU : UnitOK E U0 st U d)
    (ha : SubOn E.pts a U) (ha' : SubOn E.pts a' U) (hb : SubOn E.pts b U) (hb' : SubOn E.pts b' U)
    (h1 : SubOn E.pts a a') (h2 : SubOn E.pts b b') :
    SubOn E.pts (Ops.evalAu E U a b st) (Ops.evalAu E U a' b' st) := by
  intro p hp hx
  obtain ⟨hu, hau⟩ := (sem_au hE hG hU (sem_self ha) (sem_self hb) p hp).mp hx
  refine (sem_au hE hG hU (sem_self ha') (sem_self hb') p hp).mpr ⟨hu, ?_⟩
  have key : ∀ s, AUi (E.G.R p.c) (fun t => a (p.setS t) = true) (fun t => b (p.setS t) = true) s →
      s < E.G.nS → AUi (E.G.R p.c) (fun t => a' (p.setS t) = true) (fun t => b' (p.setS t) = true) s := by
    intro s hs
    induction hs with
    | @here s hψ => intro hlt; exact AUi.here (h2 _ (setS_mem' hE hG hp hlt) hψ)
    | @step s hφ _ ih =>
      intro hlt
      have hq := setS_mem' hE hG hp hlt
      exact AUi.step (h1 _ hq hφ) (fun t hR => ih t hR (R_lt hE hG hq hR))
  exact key p.s hau (s_lt' hE hG hp)

/-! EF, AG, EU versus reachability -/

/-- EF S = the points from which S is reachable (backward reachability) -/
theorem ef_eq_reach_bwd {U0 st U a : CSet} {d : Nat} (hU : UnitOK E U0 st U d) (ha : SubOn E.pts a U) :
    ∀ p ∈ E.pts, (Ops.evalEfSat E U a p = true ↔
      (U p = true ∧ ∃ u, StarIn (E.G.stepRel p.c) (fun _ => True) p.s u ∧ a (p.setS u) = true)) := by
  intro p hp
  have := sem_eu hE hG hU sem_unit (sem_self ha) p hp
  dsimp only at this
  rw [EUi_R_iff_step, EUi_iff_starIn] at this
  exact this

/-- E[S U T] = the points from which T is reachable through S (constrained backward reachability) -/
theorem eu_eq_reach_bwd_within {U0 st U a b : CSet} {d : Nat} (hU : UnitOK E U0 st U d)
    (ha : SubOn E.pts a U) (hb : SubOn E.pts b U) :
    ∀ p ∈ E.pts, (Ops.evalEuSat E a b p = true ↔
      (U p = true ∧ ∃ u, StarIn (E.G.stepRel p.c) (fun t => a (p.setS t) = true) p.s u ∧ b (p.setS u) = true)) := by
  intro p hp
  have := sem_eu hE hG hU (sem_self ha) (sem_self hb) p hp
  dsimp only at this
  rw [EUi_R_iff_step, EUi_iff_starIn] at this
  exact this

/-- AG S = the largest forward-closed subset of S: every reachable point is in S -/
theorem ag_eq_trap_fwd {U0 st U a : CSet} {d : Nat} (hU : UnitOK E U0 st U d) (ha : SubOn E.pts a U) :
    ∀ p ∈ E.pts, (Ops.evalAg E U a p = true ↔
      (U p = true ∧ ∀ u, StarIn (E.G.stepRel p.c) (fun _ => True) p.s u → u < E.G.nS → a (p.setS u) = true)) := by
  intro p hp
  have h := sem_neg (sem_eu hE hG hU sem_unit (sem_neg (sem_self ha))) p hp
  show Ops.evalNeg U (Ops.evalEuSat E U (Ops.evalNeg U a)) p = true ↔ _
  rw [h]
  dsimp only
  rw [EUi_R_iff_step, EUi_iff_starIn]
  apply and_congr Iff.rfl
  constructor
  · intro hn u hs _
    apply Classical.byContradiction
    intro hne
    exact hn ⟨u, hs, by simpa using hne⟩
  · rintro hall ⟨u, hs, hne⟩
    -- states reachable from a state of the state space stay inside it
    have hlt : ∀ s u, StarIn (E.G.stepRel p.c) (fun _ => True) s u → s < E.G.nS → u < E.G.nS := by
      intro s u h
      induction h with
      | refl s => exact id
      | step _ hR _ ih =>
        intro hl
        obtain ⟨j, _, hj⟩ := hR
        exact ih (hG.step_lt _ _ _ _ hj hl)
    exact hne (hall u hs (hlt _ _ hs (s_lt' hE hG hp)))

/-- EX treats steady states as self-loops -/
theorem ex_steady_selfloop {U0 st U a : CSet} {d : Nat} (hU : UnitOK E U0 st U d) (ha : SubOn E.pts a U) :
    ∀ p ∈ E.pts, E.G.isSteady p.c p.s → a p = true → Ops.evalEx E a st p = true := by
  intro p hp hs hap
  exact (sem_ex hE hG hU (sem_self ha) p hp).mpr ⟨ha p hp hap, p.s, Or.inr ⟨hs, rfl⟩, by simpa using hap⟩

/-- … and AX of a set containing a steady point contains it -/
theorem ax_steady_selfloop {U0 st U a : CSet} {d : Nat} (hU : UnitOK E U0 st U d) (ha : SubOn E.pts a U) :
    ∀ p ∈ E.pts, E.G.isSteady p.c p.s → a p = true → Ops.evalAx E U a st p = true := by
  intro p hp hs hap
  refine (sem_ax hE hG hU (sem_self ha) p hp).mpr ⟨ha p hp hap, ?_⟩
  rintro t (⟨j, hj, hst⟩ | ⟨_, rfl⟩)
  · rw [hs j hj] at hst; cases hst
  · simpa using hap

end Hctl.C11
