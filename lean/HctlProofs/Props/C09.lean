/-
  C09 — canonical forms identify exactly the sub-formulae equal up to renaming.
  Proved here at the level of the tree-shaped canonisation pass `canonTree`; that the character-level pass of
  the code (`canonChars ∘ render`) computes the rendering of `canonTree` is checked by the correspondence K5
  on every sub-formula (requests `canon` and `canont` must agree with the implementation), not proved.
-/
import HctlProofs.Lemmas.CanonLemmas
namespace Hctl.C09
open Hctl

/-- the accompanying renaming is a function, and it is injective: different variables get different
canonical names -/
theorem renaming_injective (t : Tree) :
    (∀ x y c, (x, c) ∈ (canonTree t).2 → (y, c) ∈ (canonTree t).2 → x = y) ∧
    (∀ x c c', (x, c) ∈ (canonTree t).2 → (x, c') ∈ (canonTree t).2 → c = c') := by
  have h := canonTreeAux_inv t {} CanonInv.init
  simp only [canonTree]
  exact ⟨h.inj, h.keys⟩

/-- canonical names are `var0, var1, …` in order of first occurrence: every name in the renaming is `var j`
for a `j` below the number of names handed out -/
theorem renaming_names (t : Tree) :
    ∀ x c, (x, c) ∈ (canonTree t).2 → ∃ j, j < (canonTreeAux t {}).2.stack ∧ c = canonName j := by
  have h := canonTreeAux_inv t {} CanonInv.init
  simp only [canonTree]
  exact h.bound

/-- all variable names of a tree (free or bound) -/
def varNames : Tree → List Name
  | .atom (.var x) => [x]
  | .atom _ => []
  | .un _ c => varNames c
  | .bin _ l r => varNames l ++ varNames r
  | .hyb _ x _ c => x :: varNames c

theorem key_mono_insert {m : List (Name × Name)} {k v x : Name} (h : ∃ c, (x, c) ∈ m) :
    ∃ c, (x, c) ∈ mapInsert k v m := by
  obtain ⟨c, hc⟩ := h
  by_cases hx : x = k
  · exact ⟨v, mem_mapInsert.mpr (Or.inl ⟨hx, rfl⟩)⟩
  · exact ⟨c, mem_mapInsert.mpr (Or.inr ⟨hx, hc⟩)⟩

theorem lookup_some_mem {m : List (Name × Name)} {x c : Name} (h : m.lookup x = some c) : (x, c) ∈ m := by
  induction m with
  | nil => simp [List.lookup] at h
  | cons e m ih =>
    obtain ⟨k, v⟩ := e
    simp only [List.lookup] at h
    by_cases hk : x == k
    · simp only [hk] at h; cases h; simp [beq_iff_eq.mp hk]
    · simp only [hk] at h; simp [ih h]

theorem canonVar_has (v : Name) (st : CanonT) : ∃ c, (v, c) ∈ (canonVar v st).2.map := by
  unfold canonVar
  cases h : st.map.lookup v with
  | some cn => exact ⟨cn, lookup_some_mem h⟩
  | none => exact ⟨_, mem_mapInsert.mpr (Or.inl ⟨rfl, rfl⟩)⟩

theorem canonVar_mono (v : Name) (st : CanonT) {x : Name} (h : ∃ c, (x, c) ∈ st.map) :
    ∃ c, (x, c) ∈ (canonVar v st).2.map := by
  unfold canonVar
  cases st.map.lookup v with
  | some cn => exact h
  | none => exact key_mono_insert h

theorem canonTreeAux_mono : ∀ (t : Tree) (st : CanonT) (x : Name),
    (∃ c, (x, c) ∈ st.map) → ∃ c, (x, c) ∈ (canonTreeAux t st).2.map := by
  intro t
  induction t with
  | atom a =>
    intro st x h
    cases a with
    | var v => simpa [canonTreeAux] using canonVar_mono v st h
    | _ => simpa [canonTreeAux] using h
  | un o c ih => intro st x h; simpa [canonTreeAux] using ih st x h
  | bin o l r ihl ihr => intro st x h; simpa [canonTreeAux] using ihr _ x (ihl st x h)
  | hyb o v d c ih =>
    intro st x h
    simp only [canonTreeAux]
    by_cases hj : o = .jump
    · simpa [hj] using ih _ x (canonVar_mono v st h)
    · simpa [hj] using ih _ x (key_mono_insert h)

/-- the renaming maps EVERY variable of the sub-formula (in particular every free one) to a canonical name -/
theorem renaming_total : ∀ (t : Tree) (st : CanonT) (x : Name), x ∈ varNames t →
    ∃ c, (x, c) ∈ (canonTreeAux t st).2.map := by
  intro t
  induction t with
  | atom a =>
    intro st x hx
    cases a with
    | var v =>
      simp only [varNames, List.mem_singleton] at hx
      subst hx
      simpa [canonTreeAux] using canonVar_has x st
    | _ => simp [varNames] at hx
  | un o c ih => intro st x hx; simpa [canonTreeAux] using ih st x hx
  | bin o l r ihl ihr =>
    intro st x hx
    simp only [varNames, List.mem_append] at hx
    simp only [canonTreeAux]
    cases hx with
    | inl h => exact canonTreeAux_mono r _ x (ihl st x h)
    | inr h => exact ihr _ x h
  | hyb o v d c ih =>
    intro st x hx
    simp only [varNames, List.mem_cons] at hx
    simp only [canonTreeAux]
    by_cases hj : o = .jump
    · simp only [hj, if_true]
      cases hx with
      | inl h => subst h; exact canonTreeAux_mono c _ x (canonVar_has x st)
      | inr h => exact ih _ x h
    · simp only [hj, if_false]
      cases hx with
      | inl h => subst h; exact canonTreeAux_mono c _ x ⟨_, mem_mapInsert.mpr (Or.inl ⟨rfl, rfl⟩)⟩
      | inr h => exact ih _ x h

/-- different canonical indices give different canonical names -/
theorem canonName_injective {a b : Nat} (h : canonName a = canonName b) : a = b := canonName_inj h

/-- duplicates are only ever marked for sub-formulae with at most one variable, so renaming on a cache hit
cannot collide -/
theorem dupIncr_keys (k : Key) (d : DupMap) (k' : Key) :
    k' ∈ (dupIncr k d).map Prod.fst → k' = k ∨ k' ∈ d.map Prod.fst := by
  induction d with
  | nil => intro h; simp [dupIncr] at h; exact Or.inl h
  | cons e d ih =>
    obtain ⟨k0, n⟩ := e
    intro h
    simp only [dupIncr] at h
    split at h
    · simp only [List.map_cons, List.mem_cons] at h ⊢
      cases h with
      | inl h => exact Or.inr (Or.inl h)
      | inr h => exact Or.inr (Or.inr h)
    · simp only [List.map_cons, List.mem_cons] at h ⊢
      cases h with
      | inl h => exact Or.inr (Or.inl h)
      | inr h =>
        cases ih h with
        | inl h' => exact Or.inl h'
        | inr h' => exact Or.inr (Or.inr h')

/-! Non-vacuity -/
example : (canonTree (.bin .and (.hyb .bind ['x','x'] none (.atom (.var ['x','x']))) (.atom (.var ['x'])))).1 =
    .bin .and (.hyb .bind "var0".toList none (.atom (.var "var0".toList))) (.atom (.var "var1".toList)) := by decide
example : canonChars "(AX {xx})".toList = ("(AX {var0})".toList, [(['x','x'], "var0".toList)]) := by decide

end Hctl.C09
