/-
  C18 — the self-loop-free variant agrees with standard evaluation where loops cannot matter.
-/
import HctlProofs.Lemmas.Corollaries
namespace Hctl.C18
open Hctl

/-- none of EX, AX, AF, EG, AU, EW occurs -/
def NoLoopOps : Tree → Prop
  | .atom _ => True
  | .un o c => (o = .not ∨ o = .ef ∨ o = .ag) ∧ NoLoopOps c
  | .bin o l r => (o ≠ .au ∧ o ≠ .ew) ∧ NoLoopOps l ∧ NoLoopOps r
  | .hyb _ _ _ c => NoLoopOps c

/-- For formulae of the fragment the steady set is never consulted: the cache-free evaluator returns
literally the same set whatever steady set it is given (in particular ∅ = `unsafe_ex`). -/
theorem unsafe_ex_eq_pure (E : Env) (s1 s2 : CSet) (W D : Name → Option CSet) :
    ∀ t U, NoLoopOps t → Eval.evalPure E s1 W D t U = Eval.evalPure E s2 W D t U := by
  intro t
  induction t with
  | atom a => intro U _; cases a <;> simp [Eval.evalPure]
  | un o c ih =>
    intro U h
    obtain ⟨ho, hc⟩ := h
    simp only [Eval.evalPure, ih U hc]
    rcases ho with rfl | rfl | rfl <;> simp [Eval.evalUn]
  | bin o l r ihl ihr =>
    intro U h
    obtain ⟨⟨h1, h2⟩, hl, hr⟩ := h
    simp only [Eval.evalPure, ihl U hl, ihr U hr]
    cases o <;> simp_all [Eval.evalBin]
  | hyb o x d c ih =>
    intro U h
    simp only [NoLoopOps] at h
    simp only [Eval.evalPure]
    by_cases hj : o = .jump
    · simp [hj, ih U h]
    · simp only [hj, if_false]
      cases d with
      | none => simp [ih U h]
      | some l =>
        simp only
        cases D l with
        | none => rfl
        | some ds => simp [ih _ h]

/-- The same for the evaluator WITH its cache, duplicate counters and pattern shortcuts: on the fragment,
`eval_node` with steady set ∅ (= `model_check_formula_unsafe_ex`) returns the same set and the same
context as with the real steady set, for every context state. -/
theorem fixedPoint_pattern_excluded : ∀ t, NoLoopOps t → isFixedPointPattern t = false := by
  intro t h
  unfold isFixedPointPattern
  split
  · rename_i v1 v2
    simp [NoLoopOps] at h
  · rfl

theorem unsafe_ex_eq (E : Env) (s1 s2 : CSet) :
    ∀ t U ctx, NoLoopOps t → Eval.evalNode E s1 t U ctx = Eval.evalNode E s2 t U ctx := by
  intro t
  induction t with
  | atom a =>
    intro U ctx h
    cases a <;> simp [Eval.evalNode, isFixedPointPattern]
  | un o c ih =>
    intro U ctx h
    have hc := h.2
    have hfp := fixedPoint_pattern_excluded _ h
    unfold Eval.evalNode
    simp only [hfp, Bool.false_eq_true, if_false, ih U ctx hc]
    rcases h.1 with rfl | rfl | rfl <;> simp [Eval.evalUn]
  | bin o l r ihl ihr =>
    intro U ctx h
    obtain ⟨⟨h1, h2⟩, hl, hr⟩ := h
    have hfp := fixedPoint_pattern_excluded (.bin o l r) ⟨⟨h1, h2⟩, hl, hr⟩
    have : ∀ ctx1, Eval.evalNode E s1 r U ctx1 = Eval.evalNode E s2 r U ctx1 := fun ctx1 => ihr U ctx1 hr
    unfold Eval.evalNode
    simp only [hfp, Bool.false_eq_true, if_false, ihl U ctx hl, this]
    cases o <;> simp_all [Eval.evalBin]
  | hyb o x d c ih =>
    intro U ctx h
    have hfp := fixedPoint_pattern_excluded (.hyb o x d c) h
    simp only [NoLoopOps] at h
    have ih' : ∀ U' ctx', Eval.evalNode E s1 c U' ctx' = Eval.evalNode E s2 c U' ctx' := fun U' ctx' => ih U' ctx' h
    unfold Eval.evalNode
    simp only [hfp, Bool.false_eq_true, if_false, ih']

/-- If no colour has a steady state, ∅ IS the steady set, and the two variants agree on every formula:
both compute the satisfying points. -/
theorem no_steady_eq {E : Env} (hE : EnvOK E) (hG : GraphWF E.G) (K : SemCtx) (hK : CtxOK E K)
    (hns : ∀ p ∈ E.pts, ¬ E.G.isSteady p.c p.s)
    (t : Tree) (hw : WellNamed E.G.k 0 t) (hd : DomsIn K t) :
    EqOn E.pts (Eval.evalPure E CSet.empty K.wild K.dom t E.G.unit0) (evalTop E K t) := by
  have hst : SteadyOK E E.G.unit0 CSet.empty := by
    intro p hp
    simp only [CSet.empty]
    constructor
    · intro h; cases h
    · rintro ⟨_, h⟩; exact absurd h (hns p hp)
  have hU : UnitOK E E.G.unit0 CSet.empty E.G.unit0 0 :=
    ⟨hst, fun _ _ _ _ => rfl, fun _ _ _ _ _ _ => rfl, fun _ _ h => h⟩
  intro p hp
  have h1 := evalPure_correct hE hG K hK E.G.unit0 CSet.empty t 0 E.G.unit0 hw hd hU p hp
  have h2 := evalTop_correct hE hG K hK t hw hd p hp
  exact Bool.eq_iff_iff.mpr (h1.trans h2.symm)

/-! Non-vacuity -/
example : NoLoopOps (.hyb .bind ['x'] none (.un .ag (.un .ef (.atom (.var ['x']))))) := by
  simp [NoLoopOps]
example : ¬ NoLoopOps (.hyb .bind ['x'] none (.un .ax (.atom (.var ['x'])))) := by
  simp [NoLoopOps]

end Hctl.C18
