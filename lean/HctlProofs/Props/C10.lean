/-
  C10 — pre-computed results can be substituted for closed sub-formulae.
-/
import HctlProofs.Lemmas.Laws
import HctlProofs.Lemmas.EntryPoints
namespace Hctl.C10
open Hctl Kripke

/-- replace every occurrence of the sub-formula `g` by the wild-card proposition `%w%` -/
def substAll (g : Tree) (w : Name) : Tree → Tree
  | .atom a => if Tree.atom a = g then .atom (.wild w) else .atom a
  | .un o c => if Tree.un o c = g then .atom (.wild w) else .un o (substAll g w c)
  | .bin o l r => if Tree.bin o l r = g then .atom (.wild w) else .bin o (substAll g w l) (substAll g w r)
  | .hyb o x d c => if Tree.hyb o x d c = g then .atom (.wild w) else .hyb o x d (substAll g w c)

/-- SEMANTIC SUBSTITUTION, for any surrounding formula `f` and any position (inside quantifier and domain
scopes too): if, on the colour of `p`, the wild-card `%w%` holds exactly where `g` holds, then replacing `g`
by `%w%` anywhere in `f` does not change satisfaction at `p`. -/
theorem sat_subst (G : Graph) (K : SemCtx) (g : Tree) (w : Name) :
    ∀ f p, (∀ q : Point, q.c = p.c → (sat G K (.atom (.wild w)) q ↔ sat G K g q)) →
      (sat G K (substAll g w f) p ↔ sat G K f p) := by
  intro f
  induction f with
  | atom a =>
    intro p h
    simp only [substAll]
    split
    · rename_i heq; rw [heq]; exact h p rfl
    · exact Iff.rfl
  | un o c ih =>
    intro p h
    simp only [substAll]
    split
    · rename_i heq; rw [heq]; exact h p rfl
    · have ih' : ∀ t, sat G K (substAll g w c) (p.setS t) ↔ sat G K c (p.setS t) := fun t => ih (p.setS t) h
      cases o <;> simp only [sat, ih', ih p h]
  | bin o l r ihl ihr =>
    intro p h
    simp only [substAll]
    split
    · rename_i heq; rw [heq]; exact h p rfl
    · have il : ∀ t, sat G K (substAll g w l) (p.setS t) ↔ sat G K l (p.setS t) := fun t => ihl (p.setS t) h
      have ir : ∀ t, sat G K (substAll g w r) (p.setS t) ↔ sat G K r (p.setS t) := fun t => ihr (p.setS t) h
      cases o <;> simp only [sat, il, ir, ihl p h, ihr p h]
  | hyb o x d c ih =>
    intro p h
    simp only [substAll]
    split
    · rename_i heq; rw [heq]; exact h p rfl
    · cases o with
      | bind => simp only [sat]; rw [ih (p.setV (varId x) p.s) h]
      | jump => simp only [sat]; rw [ih (p.setS (p.getV (varId x))) h]
      | ex =>
        simp only [sat]
        constructor
        · rintro ⟨t, ht, h1, h2⟩; exact ⟨t, ht, h1, (ih (p.setV (varId x) t) h).mp h2⟩
        · rintro ⟨t, ht, h1, h2⟩; exact ⟨t, ht, h1, (ih (p.setV (varId x) t) h).mpr h2⟩
      | all =>
        simp only [sat]
        constructor
        · intro hh t ht h1; exact (ih (p.setV (varId x) t) h).mp (hh t ht h1)
        · intro hh t ht h1; exact (ih (p.setV (varId x) t) h).mpr (hh t ht h1)

/-- any number of simultaneous replacements: one after the other -/
theorem sat_subst_two (G : Graph) (K : SemCtx) (g1 g2 : Tree) (w1 w2 : Name) (f : Tree) (p : Point)
    (h1 : ∀ q : Point, q.c = p.c → (sat G K (.atom (.wild w1)) q ↔ sat G K g1 q))
    (h2 : ∀ q : Point, q.c = p.c → (sat G K (.atom (.wild w2)) q ↔ sat G K g2 q)) :
    sat G K (substAll g2 w2 (substAll g1 w1 f)) p ↔ sat G K f p :=
  (sat_subst G K g2 w2 _ p h2).trans (sat_subst G K g1 w1 f p h1)

/-- A wild-card bound to the raw result of a closed formula `g` holds, on valid colours, exactly where `g` does:
this is the premise of `sat_subst` as produced by `model_check_formula_dirty`. -/
theorem raw_result_as_wild {E : Env} (hE : EnvOK E) (hG : GraphWF E.G) (K : SemCtx) (hK : CtxOK E K)
    (g : Tree) (hw : WellNamed E.G.k 0 g) (hd : DomsIn K g) (w : Name)
    (hbound : K.wild w = some (evalTop E K g)) :
    ∀ q ∈ E.pts, E.G.valid q.c = true → (sat E.G K (.atom (.wild w)) q ↔ sat E.G K g q) := by
  intro q hq hv
  simp only [sat, hbound]
  have := evalTop_correct hE hG K hK g hw hd q hq
  constructor
  · rintro ⟨a, ha, h⟩
    cases ha
    exact (this.mp h).2
  · intro h
    exact ⟨_, rfl, this.mpr ⟨hv, h⟩⟩

/-- evaluating a plain formula with an empty context: the context extension is the identity -/
theorem ext_empty_ctx (ctx : ECtx) : ctx.extendWithWildCards [] [] = ctx := by
  simp [ECtx.extendWithWildCards]

/-! Non-vacuity -/
example : substAll (.un .ef (.atom (.prop ['a']))) ['w']
    (.bin .and (.un .ef (.atom (.prop ['a']))) (.un .ax (.un .ef (.atom (.prop ['a'])))))
    = .bin .and (.atom (.wild ['w'])) (.un .ax (.atom (.wild ['w']))) := by decide

section
variable {E : Env} (hE : EnvOK E) (hG : GraphWF E.G)
include hE hG

theorem R_lt {c s t : Nat} (hs : s < E.G.nS) (h : E.G.R c s t) : t < E.G.nS := by
  rcases h with ⟨j, _, hj⟩ | ⟨_, rfl⟩
  · exact hG.step_lt c j s t hj hs
  · exact hs

theorem path_lt {c s : Nat} (hs : s < E.G.nS) (π : Path (E.G.R c) s) : ∀ i, π.π i < E.G.nS := by
  intro i
  induction i with
  | zero => rw [π.h0]; exact hs
  | succ i ih => exact R_lt hE hG ih (π.hstep i)

/-- SEMANTIC SUBSTITUTION ON THE UNIVERSE: it suffices that the wild-card agrees with the sub-formula on the points of
the universe with the colour in question -/
theorem sat_subst_on (K : SemCtx) (g : Tree) (w : Name) (c0 : Nat)
    (h : ∀ q ∈ E.pts, q.c = c0 → (sat E.G K (.atom (.wild w)) q ↔ sat E.G K g q)) :
    ∀ f p, p ∈ E.pts → p.c = c0 → (sat E.G K (substAll g w f) p ↔ sat E.G K f p) := by
  intro f
  induction f with
  | atom a =>
    intro p hp hc
    simp only [substAll]
    split
    · rename_i heq; rw [heq]; exact h p hp hc
    · exact Iff.rfl
  | un o c ih =>
    intro p hp hc
    simp only [substAll]
    split
    · rename_i heq; rw [heq]; exact h p hp hc
    · have hs := s_lt' hE hG hp
      have ihp : ∀ (π : Path (E.G.R p.c) p.s) i,
          sat E.G K (substAll g w c) (p.setS (π.π i)) ↔ sat E.G K c (p.setS (π.π i)) :=
        fun π i => ih _ (setS_mem' hE hG hp (path_lt hE hG hs π i)) hc
      have ihr : ∀ t, E.G.R p.c p.s t → (sat E.G K (substAll g w c) (p.setS t) ↔ sat E.G K c (p.setS t)) :=
        fun t ht => ih _ (setS_mem' hE hG hp (R_lt hE hG hs ht)) hc
      cases o with
      | not => simp only [sat, ih p hp hc]
      | ex =>
        simp only [sat]
        constructor
        · rintro ⟨t, ht, h1⟩; exact ⟨t, ht, (ihr t ht).mp h1⟩
        · rintro ⟨t, ht, h1⟩; exact ⟨t, ht, (ihr t ht).mpr h1⟩
      | ax =>
        simp only [sat]
        constructor
        · intro hh t ht; exact (ihr t ht).mp (hh t ht)
        · intro hh t ht; exact (ihr t ht).mpr (hh t ht)
      | ef => simp only [sat, ihp]
      | af => simp only [sat, ihp]
      | eg => simp only [sat, ihp]
      | ag => simp only [sat, ihp]
  | bin o l r ihl ihr =>
    intro p hp hc
    simp only [substAll]
    split
    · rename_i heq; rw [heq]; exact h p hp hc
    · have hs := s_lt' hE hG hp
      have il : ∀ (π : Path (E.G.R p.c) p.s) i,
          sat E.G K (substAll g w l) (p.setS (π.π i)) ↔ sat E.G K l (p.setS (π.π i)) :=
        fun π i => ihl _ (setS_mem' hE hG hp (path_lt hE hG hs π i)) hc
      have ir : ∀ (π : Path (E.G.R p.c) p.s) i,
          sat E.G K (substAll g w r) (p.setS (π.π i)) ↔ sat E.G K r (p.setS (π.π i)) :=
        fun π i => ihr _ (setS_mem' hE hG hp (path_lt hE hG hs π i)) hc
      cases o <;> simp only [sat, untilOn, il, ir, ihl p hp hc, ihr p hp hc]
  | hyb o x d c ih =>
    intro p hp hc
    simp only [substAll]
    split
    · rename_i heq; rw [heq]; exact h p hp hc
    · have hs := s_lt' hE hG hp
      cases o with
      | bind => simp only [sat]; rw [ih _ (setV_mem' hE hG hp hs) hc]
      | jump => simp only [sat]; rw [ih _ (setS_mem' hE hG hp (getV_lt' hE hG _ hp)) hc]
      | ex =>
        simp only [sat]
        constructor
        · rintro ⟨t, ht, h1, h2⟩; exact ⟨t, ht, h1, (ih _ (setV_mem' hE hG hp ht) hc).mp h2⟩
        · rintro ⟨t, ht, h1, h2⟩; exact ⟨t, ht, h1, (ih _ (setV_mem' hE hG hp ht) hc).mpr h2⟩
      | all =>
        simp only [sat]
        constructor
        · intro hh t ht h1; exact (ih _ (setV_mem' hE hG hp ht) hc).mp (hh t ht h1)
        · intro hh t ht h1; exact (ih _ (setV_mem' hE hG hp ht) hc).mpr (hh t ht h1)

end

/-- satisfaction depends on the context only through the labels that occur -/
theorem sat_ctx_congr (G : Graph) (K1 K2 : SemCtx) (hd : K1.dom = K2.dom) :
    ∀ t, (∀ w ∈ wildLabels t, K1.wild w = K2.wild w) → ∀ p, (sat G K1 t p ↔ sat G K2 t p) := by
  have hin : ∀ d q, inDom K1 d q ↔ inDom K2 d q := by
    intro d q; cases d <;> simp [inDom, hd]
  intro t
  induction t with
  | atom a =>
    intro h p
    cases a with
    | wild w => simp only [sat, h w (by simp [wildLabels])]
    | _ => simp only [sat]
  | un o c ih =>
    intro h p
    have ih' : ∀ q, sat G K1 c q ↔ sat G K2 c q := ih (by simpa [wildLabels] using h)
    cases o <;> simp only [sat, ih']
  | bin o l r ihl ihr =>
    intro h p
    simp only [wildLabels, List.mem_append] at h
    have il : ∀ q, sat G K1 l q ↔ sat G K2 l q := ihl (fun w hw => h w (Or.inl hw))
    have ir : ∀ q, sat G K1 r q ↔ sat G K2 r q := ihr (fun w hw => h w (Or.inr hw))
    cases o <;> simp only [sat, il, ir]
  | hyb o x d c ih =>
    intro h p
    have ih' : ∀ q, sat G K1 c q ↔ sat G K2 c q := ih (by simpa [wildLabels] using h)
    cases o <;> simp only [sat, ih', hin]

/-- the context in which the wild-card `w` is bound to the set `a` -/
def setWild (K : SemCtx) (w : Name) (a : CSet) : SemCtx := ⟨fun n => if n = w then some a else K.wild n, K.dom⟩

theorem wellNamed_subst (k : Nat) (g : Tree) (w : Name) : ∀ (f : Tree) (d : Nat), WellNamed k d f → WellNamed k d (substAll g w f) := by
  intro f
  induction f with
  | atom a => intro d h; simp only [substAll]; split <;> simp_all [WellNamed]
  | un o c ih => intro d h; simp only [substAll]; split; simp [WellNamed]; exact ih d h
  | bin o l r ihl ihr => intro d h; simp only [substAll]; split; simp [WellNamed]; exact ⟨ihl d h.1, ihr d h.2⟩
  | hyb o x dom c ih =>
    intro d h
    simp only [substAll]
    split
    · simp [WellNamed]
    · by_cases hj : o = .jump
      · simp only [WellNamed, hj, if_true] at h ⊢; exact ih d h
      · simp only [WellNamed, hj, if_false] at h ⊢; exact ⟨h.1, h.2.1, ih (d + 1) h.2.2⟩

theorem domsIn_subst (K : SemCtx) (g : Tree) (w : Name) : ∀ (f : Tree), DomsIn K f → DomsIn K (substAll g w f) := by
  intro f
  induction f with
  | atom a => intro h; simp only [substAll]; split <;> simp [DomsIn]
  | un o c ih => intro h; simp only [substAll]; split; simp [DomsIn]; exact ih h
  | bin o l r ihl ihr => intro h; simp only [substAll]; split; simp [DomsIn]; exact ⟨ihl h.1, ihr h.2⟩
  | hyb o x dom c ih =>
    intro h
    simp only [substAll]
    split
    · simp [DomsIn]
    · cases dom with
      | none => simp only [DomsIn] at h ⊢; exact ih h
      | some l => simp only [DomsIn] at h ⊢; exact ⟨h.1, ih h.2⟩

/-- MAIN (set level): evaluating `f` with the closed sub-formula `g` replaced by a fresh wild-card bound to the RAW
RESULT of `g` gives, on every point of the universe, the same result as evaluating `f` itself. -/
theorem substitute_raw_result {E : Env} (hE : EnvOK E) (hG : GraphWF E.G) (K : SemCtx) (hK : CtxOK E K) (f g : Tree)
    (w : Name) (hwf : WellNamed E.G.k 0 f) (hdf : DomsIn K f) (hwg : WellNamed E.G.k 0 g) (hdg : DomsIn K g)
    (hfresh_f : w ∉ wildLabels f) (hfresh_g : w ∉ wildLabels g) :
    ∀ p ∈ E.pts, evalTop E (setWild K w (evalTop E K g)) (substAll g w f) p = evalTop E K f p := by
  intro p hp
  have hK' : CtxOK E (setWild K w (evalTop E K g)) := ⟨hK.domIndep⟩
  have e1 := evalTop_correct hE hG _ hK' (substAll g w f) (wellNamed_subst _ g w f 0 hwf)
    (domsIn_subst _ g w f ((domsIn_iff _ f).mpr (fun d hd => (domsIn_iff K f).mp hdf d hd))) p hp
  have e2 := evalTop_correct hE hG K hK f hwf hdf p hp
  apply Bool.eq_iff_iff.mpr
  rw [e1, e2]
  apply and_congr_right
  intro hv
  have hagree : ∀ t, w ∉ wildLabels t → ∀ q, (sat E.G (setWild K w (evalTop E K g)) t q ↔ sat E.G K t q) := by
    intro t ht q
    apply sat_ctx_congr E.G (setWild K w (evalTop E K g)) K rfl t
    intro x hx
    have : x ≠ w := fun h => ht (h ▸ hx)
    simp [setWild, this]
  rw [sat_subst_on hE hG _ g w p.c ?_ f p hp rfl]
  · exact hagree f hfresh_f p
  · intro q hq hqc
    rw [hagree g hfresh_g q]
    simp only [sat, setWild, if_true]
    have := evalTop_correct hE hG K hK g hwg hdg q hq
    constructor
    · rintro ⟨a, ha, h⟩; cases ha; exact (this.mp h).2
    · intro h; exact ⟨_, rfl, this.mpr ⟨by rw [hqc]; exact hv, h⟩⟩

end Hctl.C10
