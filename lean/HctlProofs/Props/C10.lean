/-
  C10 — pre-computed results can be substituted for closed sub-formulae.
-/
import HctlProofs.Lemmas.Laws
namespace Hctl.C10
open Hctl Kripke

/-- replace every occurrence of the sub-formula `g` by the wild-card proposition `%w%` -/
def substAll (g : Tree) (w : Name) : Tree → Tree
  | .atom a => if Tree.atom a = g then .atom (.wild w) else .atom a
  | .un o c => if Tree.un o c = g then .atom (.wild w) else .un o (substAll g w c)
  | .bin o l r => if Tree.bin o l r = g then .atom (.wild w) else .bin o (substAll g w l) (substAll g w r)
  | .hyb o x d c => if Tree.hyb o x d c = g then .atom (.wild w) else .hyb o x d (substAll g w c)

/-- SEMANTIC SUBSTITUTION, for any surrounding formula `f` and any position (inside quantifier and domain
scopes too): if, on the colour of `p`, the wild-card `%w%` holds exactly where `g` holds, then replacing `g`
by `%w%` anywhere in `f` does not change satisfaction at `p`. -/
theorem sat_subst (G : Graph) (K : SemCtx) (g : Tree) (w : Name) :
    ∀ f p, (∀ q : Point, q.c = p.c → (sat G K (.atom (.wild w)) q ↔ sat G K g q)) →
      (sat G K (substAll g w f) p ↔ sat G K f p) := by
  intro f
  induction f with
  | atom a =>
    intro p h
    simp only [substAll]
    split
    · rename_i heq; rw [heq]; exact h p rfl
    · exact Iff.rfl
  | un o c ih =>
    intro p h
    simp only [substAll]
    split
    · rename_i heq; rw [heq]; exact h p rfl
    · have ih' : ∀ t, sat G K (substAll g w c) (p.setS t) ↔ sat G K c (p.setS t) := fun t => ih (p.setS t) h
      cases o <;> simp only [sat, ih', ih p h]
  | bin o l r ihl ihr =>
    intro p h
    simp only [substAll]
    split
    · rename_i heq; rw [heq]; exact h p rfl
    · have il : ∀ t, sat G K (substAll g w l) (p.setS t) ↔ sat G K l (p.setS t) := fun t => ihl (p.setS t) h
      have ir : ∀ t, sat G K (substAll g w r) (p.setS t) ↔ sat G K r (p.setS t) := fun t => ihr (p.setS t) h
      cases o <;> simp only [sat, il, ir, ihl p h, ihr p h]
  | hyb o x d c ih =>
    intro p h
    simp only [substAll]
    split
    · rename_i heq; rw [heq]; exact h p rfl
    · cases o with
      | bind => simp only [sat]; rw [ih (p.setV (varId x) p.s) h]
      | jump => simp only [sat]; rw [ih (p.setS (p.getV (varId x))) h]
      | ex =>
        simp only [sat]
        constructor
        · rintro ⟨t, ht, h1, h2⟩; exact ⟨t, ht, h1, (ih (p.setV (varId x) t) h).mp h2⟩
        · rintro ⟨t, ht, h1, h2⟩; exact ⟨t, ht, h1, (ih (p.setV (varId x) t) h).mpr h2⟩
      | all =>
        simp only [sat]
        constructor
        · intro hh t ht h1; exact (ih (p.setV (varId x) t) h).mp (hh t ht h1)
        · intro hh t ht h1; exact (ih (p.setV (varId x) t) h).mpr (hh t ht h1)

/-- any number of simultaneous replacements: one after the other -/
theorem sat_subst_two (G : Graph) (K : SemCtx) (g1 g2 : Tree) (w1 w2 : Name) (f : Tree) (p : Point)
    (h1 : ∀ q : Point, q.c = p.c → (sat G K (.atom (.wild w1)) q ↔ sat G K g1 q))
    (h2 : ∀ q : Point, q.c = p.c → (sat G K (.atom (.wild w2)) q ↔ sat G K g2 q)) :
    sat G K (substAll g2 w2 (substAll g1 w1 f)) p ↔ sat G K f p :=
  (sat_subst G K g2 w2 _ p h2).trans (sat_subst G K g1 w1 f p h1)

/-- A wild-card bound to the raw result of a closed formula `g` holds, on valid colours, exactly where `g` does:
this is the premise of `sat_subst` as produced by `model_check_formula_dirty`. -/
theorem raw_result_as_wild {E : Env} (hE : EnvOK E) (hG : GraphWF E.G) (K : SemCtx) (hK : CtxOK E K)
    (g : Tree) (hw : WellNamed E.G.k 0 g) (hd : DomsIn K g) (w : Name)
    (hbound : K.wild w = some (evalTop E K g)) :
    ∀ q ∈ E.pts, E.G.valid q.c = true → (sat E.G K (.atom (.wild w)) q ↔ sat E.G K g q) := by
  intro q hq hv
  simp only [sat, hbound]
  have := evalTop_correct hE hG K hK g hw hd q hq
  constructor
  · rintro ⟨a, ha, h⟩
    cases ha
    exact (this.mp h).2
  · intro h
    exact ⟨_, rfl, this.mpr ⟨hv, h⟩⟩

/-- evaluating a plain formula with an empty context: the context extension is the identity -/
theorem ext_empty_ctx (ctx : ECtx) : ctx.extendWithWildCards [] [] = ctx := by
  simp [ECtx.extendWithWildCards]

/-! Non-vacuity -/
example : substAll (.un .ef (.atom (.prop ['a']))) ['w']
    (.bin .and (.un .ef (.atom (.prop ['a']))) (.un .ax (.un .ef (.atom (.prop ['a'])))))
    = .bin .and (.atom (.wild ['w'])) (.un .ax (.atom (.wild ['w']))) := by decide

end Hctl.C10
