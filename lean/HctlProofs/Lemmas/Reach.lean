/-
  The executable specification of the attractor computation (`Ops.reach`, `Ops.attractorsOf`: breadth-first
  search with a round bound) meets its declarative reading: `reach c s` lists exactly the states reachable
  from `s` in colour `c`, and `attractorsOf U` is the set of unit points in a terminal strongly connected
  component.  This discharges the former hypothesis `AttrSpec`.
-/
import HctlProofs.Lemmas.Laws
namespace Hctl
open Kripke

/-- SPECIFICATION of the attractor computation: the points of the unit in terminal SCCs of their colour -/
def AttrSpec (E : Env) : Prop :=
  ∀ U : CSet, ∀ p ∈ E.pts, (Ops.attractorsOf E U p = true ↔ (U p = true ∧
    ∀ u, StarIn (E.G.stepRel p.c) (fun _ => True) p.s u → StarIn (E.G.stepRel p.c) (fun _ => True) u p.s))

namespace ReachProof
variable (E : Env)

def succs (c s : Nat) : List Nat := (List.range E.G.nV).filterMap (fun j => E.G.step c j s)

theorem mem_succs {c s t : Nat} : t ∈ succs E c s ↔ E.G.stepRel c s t := by
  simp only [succs, List.mem_filterMap, List.mem_range, Graph.stepRel]

/-- `next.foldl (fun a t => if a.contains t then a else a ++ [t]) acc` -/
def addNew (acc next : List Nat) : List Nat :=
  next.foldl (fun a t => if a.contains t then a else a ++ [t]) acc

theorem mem_addNew (acc next : List Nat) (x : Nat) : x ∈ addNew acc next ↔ x ∈ acc ∨ x ∈ next := by
  induction next generalizing acc with
  | nil => simp [addNew]
  | cons t ts ih =>
    simp only [addNew, List.foldl_cons] at ih ⊢
    rw [ih]
    by_cases h : acc.contains t = true
    · simp only [h, if_true, List.mem_cons]
      have : t ∈ acc := by simpa using h
      constructor
      · rintro (h1 | h1)
        · exact Or.inl h1
        · exact Or.inr (Or.inr h1)
      · rintro (h1 | h1 | h1)
        · exact Or.inl h1
        · subst h1; exact Or.inl this
        · exact Or.inr h1
    · simp only [h, if_false, List.mem_append, List.mem_singleton, List.mem_cons, Bool.false_eq_true]
      simp only [List.not_mem_nil, or_false]
      constructor
      · rintro ((h1 | h1) | h1)
        · exact Or.inl h1
        · exact Or.inr (Or.inl h1)
        · exact Or.inr (Or.inr h1)
      · rintro (h1 | h1 | h1)
        · exact Or.inl (Or.inl h1)
        · exact Or.inl (Or.inr h1)
        · exact Or.inr h1

theorem nodup_addNew (acc next : List Nat) (h : acc.Nodup) : (addNew acc next).Nodup := by
  induction next generalizing acc with
  | nil => simpa [addNew]
  | cons t ts ih =>
    simp only [addNew, List.foldl_cons] at ih ⊢
    apply ih
    by_cases hc : acc.contains t = true
    · rw [if_pos hc]; exact h
    · rw [if_neg hc]
      rw [List.nodup_append]
      refine ⟨h, by simp, ?_⟩
      intro a ha b hb
      simp only [List.mem_singleton] at hb
      subst hb
      intro hab
      subst hab
      exact hc (by simpa using ha)

theorem length_addNew (acc next : List Nat) : acc.length ≤ (addNew acc next).length := by
  induction next generalizing acc with
  | nil => simp [addNew]
  | cons t ts ih =>
    simp only [addNew, List.foldl_cons] at ih ⊢
    refine Nat.le_trans ?_ (ih _)
    split <;> simp

/-- if nothing was added, everything offered was already there -/
theorem addNew_stable (acc next : List Nat) (h : (addNew acc next).length = acc.length) : ∀ x ∈ next, x ∈ acc := by
  induction next generalizing acc with
  | nil => simp
  | cons t ts ih =>
    simp only [addNew, List.foldl_cons] at ih h
    by_cases hc : acc.contains t = true
    · simp only [hc, if_true] at h
      intro x hx
      cases hx with
      | head => simpa using hc
      | tail _ hx => exact ih acc h x hx
    · exfalso
      simp only [hc, if_false, Bool.false_eq_true] at h
      have := length_addNew (acc ++ [t]) ts
      simp only [addNew, List.length_append, List.length_singleton] at this
      omega

theorem reachFrom_eq (c : Nat) (n : Nat) (acc : List Nat) :
    Ops.reachFrom E c (n + 1) acc =
      (if (addNew acc (acc.flatMap (succs E c))).length = acc.length then acc
       else Ops.reachFrom E c n (addNew acc (acc.flatMap (succs E c)))) := by
  rfl

abbrev Star (c : Nat) := StarIn (E.G.stepRel c) (fun _ => True)

theorem star_trans {c s t u : Nat} (h1 : Star E c s t) (h2 : Star E c t u) : Star E c s u := by
  induction h1 with
  | refl s => exact h2
  | step hφ hR _ ih => exact StarIn.step hφ hR (ih h2)

theorem star_snoc {c s t u : Nat} (h1 : Star E c s t) (h2 : E.G.stepRel c t u) : Star E c s u :=
  star_trans E h1 (StarIn.step trivial h2 (StarIn.refl u))

/-- closed under successors -/
def Closed (c : Nat) (l : List Nat) : Prop := ∀ x ∈ l, ∀ t, E.G.stepRel c x t → t ∈ l

theorem reachFrom_spec (hG : GraphWF E.G) (c s : Nat) :
    ∀ (n : Nat) (acc : List Nat), acc.Nodup → (∀ x ∈ acc, x < E.G.nS) → (∀ x ∈ acc, Star E c s x) →
      E.G.nS + 1 ≤ n + acc.length →
      Closed E c (Ops.reachFrom E c n acc) ∧ (∀ x ∈ Ops.reachFrom E c n acc, Star E c s x) ∧
        (∀ x ∈ acc, x ∈ Ops.reachFrom E c n acc) := by
  intro n
  induction n with
  | zero =>
    intro acc hnd hlt _ hfuel
    exfalso
    have : acc.length ≤ (List.range E.G.nS).length :=
      List.Nodup.length_le_of_subset hnd (fun x hx => List.mem_range.mpr (hlt x hx))
    simp at this
    omega
  | succ n ih =>
    intro acc hnd hlt hsound hfuel
    rw [reachFrom_eq]
    have hmem := mem_addNew acc (acc.flatMap (succs E c))
    by_cases hst : (addNew acc (acc.flatMap (succs E c))).length = acc.length
    · rw [if_pos hst]
      refine ⟨?_, hsound, fun x hx => hx⟩
      intro x hx t hxt
      exact addNew_stable _ _ hst t (List.mem_flatMap.mpr ⟨x, hx, (mem_succs E).mpr hxt⟩)
    · rw [if_neg hst]
      have hlen := length_addNew acc (acc.flatMap (succs E c))
      have hnext : ∀ x ∈ acc.flatMap (succs E c), x < E.G.nS ∧ Star E c s x := by
        intro x hx
        obtain ⟨y, hy, hyx⟩ := List.mem_flatMap.mp hx
        have hstep := (mem_succs E).mp hyx
        obtain ⟨j, _, hj⟩ := hstep
        exact ⟨hG.step_lt c j y x hj (hlt y hy), star_snoc E (hsound y hy) ⟨j, ‹_›, hj⟩⟩
      obtain ⟨h1, h2, h3⟩ := ih (addNew acc (acc.flatMap (succs E c))) (nodup_addNew _ _ hnd)
        (fun x hx => by
          rcases (hmem x).mp hx with h | h
          · exact hlt x h
          · exact (hnext x h).1)
        (fun x hx => by
          rcases (hmem x).mp hx with h | h
          · exact hsound x h
          · exact (hnext x h).2)
        (by omega)
      exact ⟨h1, h2, fun x hx => h3 x ((hmem x).mpr (Or.inl hx))⟩

theorem mem_reach (hG : GraphWF E.G) (c s t : Nat) (hs : s < E.G.nS) :
    t ∈ Ops.reach E c s ↔ Star E c s t := by
  have h := reachFrom_spec E hG c s E.G.nS [s] (by simp) (by simpa using hs)
    (by intro x hx; simp only [List.mem_singleton] at hx; subst hx; exact StarIn.refl _) (by simp)
  obtain ⟨hcl, hsound, hinit⟩ := h
  constructor
  · exact hsound t
  · intro hst
    have hs0 : s ∈ Ops.reach E c s := hinit s (by simp)
    have key : ∀ a b, Star E c a b → a ∈ Ops.reach E c s → b ∈ Ops.reach E c s := by
      intro a b hab
      induction hab with
      | refl _ => exact id
      | step _ hR _ ih => intro ha; exact ih (hcl _ ha _ hR)
    exact key s t hst hs0

theorem star_lt (hG : GraphWF E.G) {c s t : Nat} (h : Star E c s t) (hs : s < E.G.nS) : t < E.G.nS := by
  induction h with
  | refl _ => exact hs
  | step _ hR _ ih =>
    obtain ⟨j, _, hj⟩ := hR
    exact ih (hG.step_lt _ _ _ _ hj hs)

end ReachProof

/-- The model's attractor computation returns exactly the unit points whose state lies in a terminal strongly
connected component of its colour (every reachable state reaches back). -/
theorem attrSpec {E : Env} (hE : EnvOK E) (hG : GraphWF E.G) : AttrSpec E := by
  intro U p hp
  have hs : p.s < E.G.nS := s_lt' hE hG hp
  simp only [Ops.attractorsOf, Bool.and_eq_true, List.all_eq_true, List.contains_iff_mem]
  constructor
  · rintro ⟨hu, h⟩
    refine ⟨hu, fun u hu' => ?_⟩
    have hmem := (ReachProof.mem_reach E hG p.c p.s u hs).mpr hu'
    exact (ReachProof.mem_reach E hG p.c u p.s (ReachProof.star_lt E hG hu' hs)).mp (h u hmem)
  · rintro ⟨hu, h⟩
    refine ⟨hu, fun u hmem => ?_⟩
    have hst := (ReachProof.mem_reach E hG p.c p.s u hs).mp hmem
    exact (ReachProof.mem_reach E hG p.c u p.s (ReachProof.star_lt E hG hst hs)).mpr (h u hst)

end Hctl
