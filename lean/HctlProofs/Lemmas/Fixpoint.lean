/-
  Finite iteration: sets over a list of points, cardinality, and the `while old != new` loop.
-/
import HctlModel.Ops
namespace Hctl

def SubOn (pts : List Point) (a b : CSet) : Prop := ∀ p ∈ pts, a p = true → b p = true
def EqOn (pts : List Point) (a b : CSet) : Prop := ∀ p ∈ pts, a p = b p

theorem eqOn_iff {pts : List Point} {a b : CSet} : eqOn pts a b = true ↔ EqOn pts a b := by
  simp [eqOn, EqOn, List.all_eq_true]

theorem isEmptyOn_iff {pts : List Point} {a : CSet} : isEmptyOn pts a = true ↔ ∀ p ∈ pts, a p = false := by
  simp [isEmptyOn, List.all_eq_true]

theorem EqOn.refl {pts} (a : CSet) : EqOn pts a a := fun _ _ => rfl
theorem EqOn.symm {pts} {a b : CSet} (h : EqOn pts a b) : EqOn pts b a := fun p hp => (h p hp).symm
theorem EqOn.trans {pts} {a b c : CSet} (h1 : EqOn pts a b) (h2 : EqOn pts b c) : EqOn pts a c :=
  fun p hp => (h1 p hp).trans (h2 p hp)
theorem EqOn.sub {pts} {a b : CSet} (h : EqOn pts a b) : SubOn pts a b := fun p hp ha => by rw [← h p hp]; exact ha
theorem SubOn.refl {pts} (a : CSet) : SubOn pts a a := fun _ _ h => h
theorem SubOn.trans {pts} {a b c : CSet} (h1 : SubOn pts a b) (h2 : SubOn pts b c) : SubOn pts a c :=
  fun p hp h => h2 p hp (h1 p hp h)
theorem SubOn.antisymm {pts} {a b : CSet} (h1 : SubOn pts a b) (h2 : SubOn pts b a) : EqOn pts a b := by
  intro p hp
  cases ha : a p <;> cases hb : b p
  · rfl
  · have := h2 p hp hb; simp_all
  · have := h1 p hp ha; simp_all
  · rfl

/-- number of points of the universe in a set -/
def card (pts : List Point) (a : CSet) : Nat := pts.countP (fun p => a p)

theorem card_le_length (pts : List Point) (a : CSet) : card pts a ≤ pts.length := List.countP_le_length

theorem card_mono {pts : List Point} {a b : CSet} (h : SubOn pts a b) : card pts a ≤ card pts b := by
  induction pts with
  | nil => simp [card]
  | cons p ps ih =>
    have ih' := ih (fun q hq => h q (List.mem_cons_of_mem _ hq))
    have hp := h p (List.mem_cons_self ..)
    simp only [card, List.countP_cons] at ih' ⊢
    cases ha : a p <;> cases hb : b p <;> simp_all <;> omega

theorem card_lt {pts : List Point} {a b : CSet} (h : SubOn pts a b) (hne : ¬ EqOn pts a b) :
    card pts a < card pts b := by
  induction pts with
  | nil => exact absurd (fun p hp => by cases hp) hne
  | cons p ps ih =>
    have hsub : SubOn ps a b := fun q hq => h q (List.mem_cons_of_mem _ hq)
    have hp := h p (List.mem_cons_self ..)
    have hm := card_mono hsub
    simp only [card, List.countP_cons] at hm ⊢
    by_cases heq : EqOn ps a b
    · -- the difference is at p
      have hpne : a p ≠ b p := by
        intro hab
        apply hne
        intro q hq
        cases hq with
        | head => exact hab
        | tail _ hq => exact heq q hq
      cases ha : a p <;> cases hb : b p <;> simp_all <;> omega
    · have := ih hsub heq
      simp only [card] at this
      cases ha : a p <;> cases hb : b p <;> simp_all <;> omega

theorem card_empty (pts : List Point) : card pts CSet.empty = 0 := by
  simp [card, CSet.empty]

/-- the tabulation agrees with the set on the universe, and `pts` is the graph's point list -/
structure EnvOK (E : Env) : Prop where
  tab_ok : ∀ (f : CSet) p, p ∈ E.pts → E.tab f p = f p
  pts_eq : E.pts = E.G.points

theorem EnvOK.tab_eq {E : Env} (h : EnvOK E) (f : CSet) : EqOn E.pts (E.tab f) f := fun p hp => h.tab_ok f p hp

theorem envOK_pure (G : Graph) : EnvOK (Env.pure G) := ⟨fun _ _ _ => rfl, rfl⟩

/-! ### the `while old != new` loop -/

namespace Ops
variable (E : Env)

/-- `g = tab ∘ f` iterated -/
def iterG (f : CSet → CSet) : Nat → CSet → CSet
  | 0, a => a
  | n+1, a => iterG f n (E.tab (f a))

/-- Generic result of `whileNe` for a loop whose iterates form a chain on which a bounded measure grows
strictly at every unequal step: the result is an iterate `x_m` of `g` from `old` which equals its
predecessor (`new` when `m = 0`). -/
theorem whileNe_spec (f : CSet → CSet) (Chain : CSet → CSet → Prop) (μ : CSet → Nat) (B : Nat)
    (hμB : ∀ a, μ a ≤ B)
    (hstep : ∀ a b, Chain a b → Chain b (E.tab (f b)))
    (hgrow : ∀ a b, Chain a b → ¬ EqOn E.pts b a → μ a < μ b) :
    ∀ n old new, Chain new old → B + 1 ≤ n + μ new →
      ∃ m, whileNe E f n old new = iterG E f m old ∧
        (m = 0 → EqOn E.pts old new) ∧
        (∀ m', m = m' + 1 → EqOn E.pts (iterG E f (m' + 1) old) (iterG E f m' old)) := by
  intro n
  induction n with
  | zero =>
    intro old new _ hn
    have := hμB new
    omega
  | succ n ih =>
    intro old new hc hn
    unfold whileNe
    by_cases heq : eqOn E.pts old new = true
    · simp only [heq, if_true]
      exact ⟨0, rfl, fun _ => eqOn_iff.mp heq, fun m' h => by omega⟩
    · simp only [heq]
      have hne : ¬ EqOn E.pts old new := fun h => heq (eqOn_iff.mpr h)
      have hlt := hgrow new old hc hne
      obtain ⟨m, hm, h0, hS⟩ := ih (E.tab (f old)) old (hstep new old hc) (by omega)
      refine ⟨m + 1, by simpa [iterG] using hm, fun h => by omega, ?_⟩
      intro m' hm'
      have hmm : m = m' := by omega
      subst hmm
      cases m with
      | zero =>
        simp only [iterG]
        exact h0 rfl
      | succ m' =>
        have := hS m' rfl
        simpa [iterG] using this

end Ops
end Hctl
