/-
  The `while old != new` loops: `eval_eg` computes the greatest fixed point (E-globally), `eval_au` the
  least fixed point (A-until); both terminate by equality, never by exhausting the fuel.
-/
import HctlProofs.Lemmas.EuSem
namespace Hctl
open Kripke

namespace Ops
variable (E : Env)

theorem iterG_succ' (f : CSet → CSet) (m : Nat) (a : CSet) :
    iterG E f (m + 1) a = E.tab (f (iterG E f m a)) := by
  induction m generalizing a with
  | zero => rfl
  | succ m ih => simp only [iterG] at ih ⊢; exact ih _

theorem iterG_inv (f : CSet → CSet) (P : CSet → Prop) (hP : ∀ a, P a → P (E.tab (f a))) :
    ∀ m a, P a → P (iterG E f m a) := by
  intro m
  induction m with
  | zero => intro a h; exact h
  | succ m ih => intro a h; exact ih _ (hP a h)

end Ops

/-- the body of the `eval_eg` loop -/
def egF (E : Env) (steady : CSet) : CSet → CSet := fun old => old.inter (Ops.evalEx E old steady)

theorem evalEg_eq (E : Env) (phi steady : CSet) :
    Ops.evalEg E phi steady = Ops.whileNe E (egF E steady) (E.pts.length + 2) phi CSet.empty := rfl

section eg
variable {E : Env} (hE : EnvOK E) (hG : GraphWF E.G)
include hE hG

/-- shape of the result of `eval_eg`: an iterate; either `phi` is empty, or the iterate is a fixed point -/
theorem evalEg_shape (phi steady : CSet) :
    (EqOn E.pts phi CSet.empty ∧ Ops.evalEg E phi steady = phi) ∨
    (∃ k, Ops.evalEg E phi steady = E.tab (egF E steady (Ops.iterG E (egF E steady) k phi)) ∧
          EqOn E.pts (E.tab (egF E steady (Ops.iterG E (egF E steady) k phi))) (Ops.iterG E (egF E steady) k phi)) := by
  rw [evalEg_eq]
  generalize hf : egF E steady = f
  rw [show E.pts.length + 2 = (E.pts.length + 1) + 1 from rfl]
  unfold Ops.whileNe
  by_cases heq : eqOn E.pts phi CSet.empty = true
  · left
    simp only [heq, if_true]
    exact ⟨eqOn_iff.mp heq, trivial⟩
  · right
    have heq' : eqOn E.pts phi CSet.empty = false := by simpa using heq
    simp only [heq', Bool.false_eq_true, if_false]
    have hsubg : ∀ b : CSet, SubOn E.pts (E.tab (f b)) b := by
      intro b q hq h
      rw [hE.tab_ok _ q hq] at h
      subst hf
      simp only [egF, CSet.inter, Bool.and_eq_true] at h
      exact h.1
    obtain ⟨m, hm, h0, hS⟩ := Ops.whileNe_spec E f (fun a b => SubOn E.pts b a)
      (fun a => E.pts.length - card E.pts a) E.pts.length (fun a => Nat.sub_le _ _)
      (fun a b _ => hsubg b)
      (fun a b hc hne => by
        have h1 := card_lt hc hne
        have h2 := card_le_length E.pts a
        omega)
      (E.pts.length + 1) (E.tab (f phi)) phi (hsubg phi) (by omega)
    cases m with
    | zero =>
      refine ⟨0, by simpa [Ops.iterG] using hm, ?_⟩
      simpa [Ops.iterG] using h0 rfl
    | succ m' =>
      refine ⟨m' + 1, ?_, ?_⟩
      · rw [hm]
        have : Ops.iterG E f (m' + 1) (E.tab (f phi)) = Ops.iterG E f (m' + 2) phi := rfl
        rw [this, Ops.iterG_succ']
      · have := hS m' rfl
        have e1 : Ops.iterG E f (m' + 1) (E.tab (f phi)) = E.tab (f (Ops.iterG E f (m' + 1) phi)) := by
          have : Ops.iterG E f (m' + 1) (E.tab (f phi)) = Ops.iterG E f (m' + 2) phi := rfl
          rw [this, Ops.iterG_succ']
        have e2 : Ops.iterG E f m' (E.tab (f phi)) = Ops.iterG E f (m' + 1) phi := rfl
        rw [e1, e2] at this
        exact this

theorem sem_eg {U0 st U a : CSet} {d : Nat} {φ : Point → Prop} (hU : UnitOK E U0 st U d) (ha : Sem E a U φ) :
    Sem E (Ops.evalEg E a st) U
      (fun p => EGc (E.G.R p.c) (fun t => φ (p.setS t)) p.s) := by
  intro p hp
  have hps : p.s < E.G.nS := by rw [hE.pts_eq] at hp; exact s_lt hp
  generalize hf : egF E st = f
  have hfdef : ∀ x : CSet, f x = x.inter (Ops.evalEx E x st) := by
    intro x; rw [← hf]; rfl
  -- every iterate stays inside `a`
  have hsubA : ∀ k, SubOn E.pts (Ops.iterG E f k a) a :=
    fun k => Ops.iterG_inv E f (fun x => SubOn E.pts x a)
      (fun x hx q hq h => by
        rw [hE.tab_ok _ q hq, hfdef] at h
        simp only [CSet.inter, Bool.and_eq_true] at h
        exact hx q hq h.1) k a (SubOn.refl a)
  have hsub0 : ∀ y : CSet, SubOn E.pts y a → ∀ q ∈ E.pts, y q = true → U0 q = true :=
    fun y hy q hq h => hU.sub0 q hq (ha.sub q hq (hy q hq h))
  constructor
  · intro hr
    have hshape := evalEg_shape hE hG a st
    rw [hf] at hshape
    rcases hshape with ⟨hempty, hres⟩ | ⟨k, hres, hfix⟩
    · rw [hres] at hr
      have := hempty p hp
      rw [hr] at this
      simp [CSet.empty] at this
    · -- y is a fixed point of f inside a
      generalize hy' : Ops.iterG E f k a = y at hres hfix
      have hy : y p = true := by
        rw [hres] at hr
        rw [← hfix p hp]; exact hr
      have hya : SubOn E.pts y a := by rw [← hy']; exact hsubA k
      have hpost : ∀ q ∈ E.pts, y q = true → Ops.evalEx E y st q = true := by
        intro q hq h
        have := hfix q hq
        rw [hE.tab_ok _ q hq, h, hfdef] at this
        simp only [CSet.inter, Bool.and_eq_true] at this
        exact this.2
      refine ⟨(ha.sub p hp (hya p hp hy)), ?_⟩
      refine ⟨fun t => t < E.G.nS ∧ y (p.setS t) = true, ⟨hps, by simpa using hy⟩, ?_⟩
      rintro x ⟨hx, hyx⟩
      have hq := setS_mem' hE hG hp hx
      refine ⟨((ha _ hq).mp (hya _ hq hyx)).2, ?_⟩
      obtain ⟨t, hR, hyt⟩ := (mem_evalEx hE hG hU.steady (hsub0 y hya) hq).mp (hpost _ hq hyx)
      exact ⟨t, hR, R_lt hE hG hq hR, by simpa using hyt⟩
  · rintro ⟨hu, X, hXs, hX⟩
    -- every iterate contains the slice of X
    have hinv : ∀ k, SubOn E.pts (Ops.iterG E f k a) a ∧
        ∀ t, t < E.G.nS → X t → Ops.iterG E f k a (p.setS t) = true := by
      intro k
      refine Ops.iterG_inv E f
        (fun x => SubOn E.pts x a ∧ ∀ t, t < E.G.nS → X t → x (p.setS t) = true) ?_ k a ?_
      · rintro x ⟨hxa, hx⟩
        refine ⟨fun q hq h => ?_, fun t ht hXt => ?_⟩
        · rw [hE.tab_ok _ q hq, hfdef] at h
          simp only [CSet.inter, Bool.and_eq_true] at h
          exact hxa q hq h.1
        · have hq := setS_mem' hE hG hp ht
          rw [hE.tab_ok _ _ hq, hfdef]
          simp only [CSet.inter, Bool.and_eq_true]
          refine ⟨hx t ht hXt, ?_⟩
          obtain ⟨_, t', hR, hXt'⟩ := hX t hXt
          have ht' := R_lt hE hG hq hR
          exact (mem_evalEx hE hG hU.steady (hsub0 x hxa) hq).mpr ⟨t', hR, by simpa using hx t' ht' hXt'⟩
      · refine ⟨SubOn.refl a, fun t ht hXt => ?_⟩
        have hq := setS_mem' hE hG hp ht
        exact (ha _ hq).mpr ⟨by rw [hU.stateIndep p hp t ht]; exact hu, (hX t hXt).1⟩
    have hshape := evalEg_shape hE hG a st
    rw [hf] at hshape
    rcases hshape with ⟨_, hres⟩ | ⟨k, hres, _⟩
    · rw [hres]
      exact (hinv 0).2 p.s hps hXs
    · rw [hres, ← Ops.iterG_succ']
      exact (hinv (k + 1)).2 p.s hps hXs

end eg
end Hctl

namespace Hctl
open Kripke

/-- the body of the `eval_au` loop -/
def auF (E : Env) (U phi1 steady : CSet) : CSet → CSet :=
  fun old => old.union (phi1.inter (Ops.evalAx E U old steady))

theorem evalAu_eq (E : Env) (U phi1 phi2 steady : CSet) :
    Ops.evalAu E U phi1 phi2 steady =
      Ops.whileNe E (auF E U phi1 steady) (E.pts.length + 2) phi2 CSet.empty := rfl

section au
variable {E : Env} (hE : EnvOK E) (hG : GraphWF E.G)
include hE hG

theorem evalAu_shape (U phi1 phi2 steady : CSet) :
    (EqOn E.pts phi2 CSet.empty ∧ Ops.evalAu E U phi1 phi2 steady = phi2) ∨
    (∃ k, Ops.evalAu E U phi1 phi2 steady =
            E.tab (auF E U phi1 steady (Ops.iterG E (auF E U phi1 steady) k phi2)) ∧
          EqOn E.pts (E.tab (auF E U phi1 steady (Ops.iterG E (auF E U phi1 steady) k phi2)))
            (Ops.iterG E (auF E U phi1 steady) k phi2)) := by
  rw [evalAu_eq]
  generalize hf : auF E U phi1 steady = f
  have hinfl : ∀ b : CSet, SubOn E.pts b (E.tab (f b)) := by
    intro b q hq h
    rw [hE.tab_ok _ q hq]
    subst hf
    simp [auF, CSet.union, h]
  obtain ⟨m, hm, h0, hS⟩ := Ops.whileNe_spec E f (fun a b => SubOn E.pts a b)
    (fun a => card E.pts a) E.pts.length (fun a => card_le_length _ _)
    (fun a b _ => hinfl b)
    (fun a b hc hne => card_lt hc (fun h => hne h.symm))
    (E.pts.length + 2) phi2 CSet.empty (fun q _ h => by simp [CSet.empty] at h) (by omega)
  cases m with
  | zero =>
    left
    exact ⟨h0 rfl, by simpa [Ops.iterG] using hm⟩
  | succ m' =>
    right
    refine ⟨m', ?_, ?_⟩
    · rw [hm, Ops.iterG_succ']
    · have := hS m' rfl
      rw [Ops.iterG_succ'] at this
      exact this

/-- membership in `eval_ax` for sets inside the unit -/
theorem mem_evalAx {U0 st U y : CSet} {d : Nat} (hU : UnitOK E U0 st U d) (hy : SubOn E.pts y U)
    {q : Point} (hq : q ∈ E.pts) :
    Ops.evalAx E U y st q = true ↔
      (U q = true ∧ ∀ t, E.G.R q.c q.s t → y (q.setS t) = true) := by
  have hs : Sem E y U (fun p => y p = true) := by
    intro p hp
    constructor
    · intro h; exact ⟨hy p hp h, h⟩
    · intro h; exact h.2
  exact sem_ax hE hG hU hs q hq

theorem AUi_false {c : Nat} {φ' ψ' : Nat → Prop} (hψ : ∀ t, t < E.G.nS → ¬ ψ' t) :
    ∀ s, AUi (E.G.R c) φ' ψ' s → s < E.G.nS → False := by
  intro s h
  induction h with
  | @here s h => intro hs; exact hψ s hs h
  | @step s _ _ ih =>
    intro hs
    obtain ⟨t, hR⟩ := total_R E.G c s
    have ht : t < E.G.nS := by
      cases hR with
      | inl h => obtain ⟨j, _, hj⟩ := h; exact hG.step_lt _ _ _ _ hj hs
      | inr h => rw [h.2]; exact hs
    exact ih t hR ht

theorem sem_au {U0 st U a b : CSet} {d : Nat} {φ ψ : Point → Prop} (hU : UnitOK E U0 st U d)
    (ha : Sem E a U φ) (hb : Sem E b U ψ) :
    Sem E (Ops.evalAu E U a b st) U
      (fun p => AUi (E.G.R p.c) (fun t => φ (p.setS t)) (fun t => ψ (p.setS t)) p.s) := by
  intro p hp
  have hps : p.s < E.G.nS := by rw [hE.pts_eq] at hp; exact s_lt hp
  have hshape := evalAu_shape hE hG U a b st
  generalize hf : auF E U a st = f at hshape
  have hfdef : ∀ x : CSet, f x = x.union (a.inter (Ops.evalAx E U x st)) := by
    intro x; rw [← hf]; rfl
  -- soundness invariant for all iterates
  have hsound : ∀ k, ∀ q ∈ E.pts, Ops.iterG E f k b q = true →
      U q = true ∧ AUi (E.G.R q.c) (fun t => φ (q.setS t)) (fun t => ψ (q.setS t)) q.s := by
    intro k
    refine Ops.iterG_inv E f (fun x => ∀ q ∈ E.pts, x q = true →
      U q = true ∧ AUi (E.G.R q.c) (fun t => φ (q.setS t)) (fun t => ψ (q.setS t)) q.s) ?_ k b ?_
    · intro x hx q hq h
      rw [hE.tab_ok _ q hq, hfdef] at h
      simp only [CSet.union, CSet.inter, Bool.or_eq_true, Bool.and_eq_true] at h
      cases h with
      | inl h => exact hx q hq h
      | inr h =>
        have haq := (ha q hq).mp h.1
        have hax := (mem_evalAx hE hG hU (fun r hr hh => (hx r hr hh).1) hq).mp h.2
        refine ⟨haq.1, AUi.step (by simpa using haq.2) (fun t hR => ?_)⟩
        have hqt := setS_mem' hE hG hq (R_lt hE hG hq hR)
        exact (hx _ hqt (hax.2 t hR)).2
    · intro q hq h
      have := (hb q hq).mp h
      exact ⟨this.1, AUi.here (by simpa using this.2)⟩
  constructor
  · intro hr
    rcases hshape with ⟨_, hres⟩ | ⟨k, hres, _⟩
    · rw [hres] at hr; exact hsound 0 p hp hr
    · rw [hres, ← Ops.iterG_succ'] at hr; exact hsound (k + 1) p hp hr
  · rintro ⟨hu, hau⟩
    rcases hshape with ⟨hempty, _⟩ | ⟨k, hres, hfix⟩
    · exfalso
      refine AUi_false hE hG (c := p.c) (φ' := fun t => φ (p.setS t)) (ψ' := fun t => ψ (p.setS t)) ?_ p.s hau hps
      intro t ht hψ
      have hq := setS_mem' hE hG hp ht
      have := (hb _ hq).mpr ⟨by rw [hU.stateIndep p hp t ht]; exact hu, hψ⟩
      rw [hempty _ hq] at this
      simp [CSet.empty] at this
    · generalize hy' : Ops.iterG E f k b = y at hres hfix
      have hby : SubOn E.pts b y := by
        rw [← hy']
        exact Ops.iterG_inv E f (fun x => SubOn E.pts b x)
          (fun x hx q hq h => by
            rw [hE.tab_ok _ q hq, hfdef]; simp [CSet.union, hx q hq h]) k b (SubOn.refl b)
      have hyU : SubOn E.pts y U := by
        rw [← hy']; exact fun q hq h => (hsound k q hq h).1
      have key : ∀ s, AUi (E.G.R p.c) (fun t => φ (p.setS t)) (fun t => ψ (p.setS t)) s →
          s < E.G.nS → y (p.setS s) = true := by
        intro s h
        induction h with
        | @here s hψ =>
          intro hs
          have hq := setS_mem' hE hG hp hs
          exact hby _ hq ((hb _ hq).mpr ⟨by rw [hU.stateIndep p hp s hs]; exact hu, hψ⟩)
        | @step s hφ _ ih =>
          intro hs
          have hq := setS_mem' hE hG hp hs
          have huq : U (p.setS s) = true := by rw [hU.stateIndep p hp s hs]; exact hu
          have haq : a (p.setS s) = true := (ha _ hq).mpr ⟨huq, hφ⟩
          have hax : Ops.evalAx E U y st (p.setS s) = true :=
            (mem_evalAx hE hG hU hyU hq).mpr ⟨huq, fun t hR => by
              have := ih t hR (R_lt hE hG hq hR)
              simpa using this⟩
          rw [← hfix _ hq, hE.tab_ok _ _ hq, hfdef]
          simp [CSet.union, CSet.inter, haq, hax]
      rw [hres, hfix p hp]
      simpa using key p.s hau hps

end au
end Hctl
