/-
  C16, last clause: reloaded sets used as wild-card context have the same effect as the in-memory sets — for the
  library's extended entry point and for the command-line tool — and the archive has one entry per result plus two.
-/
import HctlProofs.Props.C16
import HctlModel.Cli
namespace Hctl.C16
open Hctl Hctl.Archive

theorem entries_length {α : Type} (ser : α → List Char) (results : List (List Char × α)) (model : List Char)
    (formulae : List (List Char)) : (entries ser results model formulae).length = results.length + 2 := by
  simp [entries]

variable (ser : CSet → List Char) (deser : List Char → CSet) (hrt : ∀ s, deser (ser s) = s)
include hrt

/-- the extended entry point with the context read back from an archive = with the context that was written -/
theorem reloaded_context_same_effect (E : Env) (K : CharClass) (ctx : List (Name × CSet)) (model : List Char)
    (archived : List (List Char)) (formulas : List (List Char)) :
    Api.extendedDirty E K E.G.unit0 (load deser (entries ser ctx model archived)) formulas
      = Api.extendedDirty E K E.G.unit0 ctx formulas := by
  rw [bundle_roundtrip ser deser hrt ctx model archived]

/-- the same for the tool run with `-e <archive>` -/
theorem reloaded_context_same_effect_tool (net : Nat → Env) (K : CharClass) (ctx : List (Name × CSet)) (model : List Char)
    (archived : List (List Char)) (text : List Char) :
    Cli.analyse net K true (load deser (entries ser ctx model archived)) text = Cli.analyse net K true ctx text := by
  rw [bundle_roundtrip ser deser hrt ctx model archived]

end Hctl.C16
