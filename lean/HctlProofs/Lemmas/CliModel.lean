/-
  C17 on the model: what the command-line tool computes (`Cli.analyse`) is what the library's string entry points
  compute on the graph with `kOf trees` variable sets — and hence (end-to-end theorems) the exact satisfaction sets,
  in file order, or a message; never a panic.
-/
import HctlModel.Cli
import HctlProofs.Lemmas.EntryPoints
namespace Hctl.C17
open Hctl Kripke Cli

/-- the graphs of one network for the various numbers of variable sets -/
structure NetFamily (net : Nat → Env) : Prop where
  k_eq : ∀ k, (net k).G.k = k
  label_eq : ∀ k n, ((net k).G.label n).isSome = ((net 0).G.label n).isSome

theorem parseOne_of_prep (E : Env) (K : CharClass) (ext : Bool) (isNetVar : Name → Bool)
    (hl : ∀ n, (E.G.label n).isSome = isNetVar n) (cs : List Char) :
    (∀ e, prepOne isNetVar K ext cs = .error e → Api.parseOne E K ext cs = .error e) ∧
    (∀ t, prepOne isNetVar K ext cs = .ok t → t.numQuantVars ≤ E.G.k → Api.parseOne E K ext cs = .ok t) := by
  have hf : (fun n => (E.G.label n).isSome) = isNetVar := funext hl
  unfold prepOne Api.parseOne
  rw [hf]
  cases Lex.tokenize K ext cs with
  | error e => simp
  | ok toks =>
    simp only
    cases parseToks toks with
    | error e => simp
    | ok t =>
      simp only
      cases rename isNetVar t with
      | error e => cases e <;> simp
      | ok t' =>
        simp only
        refine ⟨by simp, ?_⟩
        intro t h hk
        simp only [Except.ok.injEq] at h
        subst h
        have : ¬ t'.numQuantVars > E.G.k := by omega
        simp [this]

theorem foldl_max_ge (trees : List Tree) : ∀ (m : Nat),
    m ≤ trees.foldl (fun m t => max m t.numQuantVars) m ∧
    ∀ t ∈ trees, t.numQuantVars ≤ trees.foldl (fun m t => max m t.numQuantVars) m := by
  induction trees with
  | nil => intro m; simp
  | cons a as ih =>
    intro m
    simp only [List.foldl_cons, List.mem_cons, forall_eq_or_imp]
    obtain ⟨h1, h2⟩ := ih (max m a.numQuantVars)
    exact ⟨by omega, by omega, h2⟩

theorem kOf_ge (trees : List Tree) : ∀ t ∈ trees, t.numQuantVars ≤ kOf trees := (foldl_max_ge trees 0).2

theorem parseAll_of_prep (E : Env) (K : CharClass) (ext : Bool) (ctxSets : List (Name × CSet)) (isNetVar : Name → Bool)
    (hl : ∀ n, (E.G.label n).isSome = isNetVar n) : ∀ (fs : List (List Char)),
    (∀ e, prepAll isNetVar K ext fs = .error e → ∃ e', Api.parseAll E K ext ctxSets fs = .error e') ∧
    (∀ trees, prepAll isNetVar K ext fs = .ok trees → (∀ t ∈ trees, t.numQuantVars ≤ E.G.k) →
      Api.parseAll E K ext ctxSets fs =
        match collectCtx ext ctxSets trees with
        | none => .error .nocontext
        | some (p, d) => .ok (trees, p, d)) := by
  intro fs
  induction fs with
  | nil =>
    refine ⟨by simp [prepAll], ?_⟩
    intro trees h _
    simp only [prepAll, Except.ok.injEq] at h
    subst h
    simp [Api.parseAll, collectCtx]
  | cons f fs ih =>
    obtain ⟨p1, p2⟩ := parseOne_of_prep E K ext isNetVar hl f
    constructor
    · intro e h
      simp only [prepAll] at h
      cases hp : prepOne isNetVar K ext f with
      | error e1 =>
        refine ⟨e1, ?_⟩
        simp [Api.parseAll, p1 e1 hp]
      | ok t =>
        simp only [hp] at h
        cases hr : prepAll isNetVar K ext fs with
        | ok ts => simp [hr] at h
        | error e2 =>
          obtain ⟨e', he'⟩ := ih.1 e2 hr
          simp only [Api.parseAll]
          cases hq : Api.parseOne E K ext f with
          | error e3 => exact ⟨e3, rfl⟩
          | ok t2 =>
            simp only [he']
            split <;> exact ⟨_, rfl⟩
    · intro trees h hk
      simp only [prepAll] at h
      cases hp : prepOne isNetVar K ext f with
      | error e1 => simp [hp] at h
      | ok t =>
        simp only [hp] at h
        cases hr : prepAll isNetVar K ext fs with
        | error e2 => simp [hr] at h
        | ok ts =>
          simp only [hr, Except.ok.injEq] at h
          subst h
          have hk1 : t.numQuantVars ≤ E.G.k := hk t (by simp)
          have hk2 : ∀ t' ∈ ts, t'.numQuantVars ≤ E.G.k := fun t' ht' => hk t' (by simp [ht'])
          have ih2 := ih.2 ts hr hk2
          simp only [Api.parseAll, p2 t hp hk1, collectCtx, ih2]
          cases ext with
          | false =>
            simp only [Bool.false_eq_true, if_false]
            cases collectCtx false ctxSets ts with
            | none => rfl
            | some r => obtain ⟨p', d'⟩ := r; rfl
          | true =>
            simp only [if_true]
            cases Api.lookupAll ctxSets (t.wildCards ([], [])).1 with
            | none => rfl
            | some p =>
              cases Api.lookupAll ctxSets (t.wildCards ([], [])).2 with
              | none => rfl
              | some d =>
                simp only
                cases collectCtx true ctxSets ts with
                | none => rfl
                | some r => obtain ⟨p', d'⟩ := r; rfl

theorem collectCtx_plain (ctxSets : List (Name × CSet)) : ∀ (trees : List Tree),
    collectCtx false ctxSets trees = some ([], []) := by
  intro trees
  induction trees with
  | nil => rfl
  | cons t ts ih => simp [collectCtx, ih]

variable {net : Nat → Env} (hN : NetFamily net) (K : CharClass)
include hN

/-- the tool with a context archive = `model_check_multiple_extended_formulae_dirty` on the graph with `kOf trees` sets -/
theorem analyse_eq_api_ext (ctxSets : List (Name × CSet)) (text : List Char) :
    analyse net K true ctxSets text =
      match prepAll (fun n => ((net 0).G.label n).isSome) K true (Loader.loadFormulae K.isWs text) with
      | .error e => .message e
      | .ok trees =>
        match Api.extendedDirty (net (kOf trees)) K (net (kOf trees)).G.unit0 ctxSets (Loader.loadFormulae K.isWs text) with
        | .ok rs => .results (kOf trees) trees rs
        | .userError e => .message e
        | .panic s => .panic s := by
  unfold analyse
  simp only
  cases hp : prepAll (fun n => ((net 0).G.label n).isSome) K true (Loader.loadFormulae K.isWs text) with
  | error e => rfl
  | ok trees =>
    simp only
    have hpa := (parseAll_of_prep (net (kOf trees)) K true ctxSets _ (fun n => hN.label_eq (kOf trees) n) _).2 trees hp
      (fun t ht => by rw [hN.k_eq]; exact kOf_ge trees t ht)
    unfold Api.extendedDirty
    rw [hpa]
    cases collectCtx true ctxSets trees with
    | none => rfl
    | some r =>
      obtain ⟨p, d⟩ := r
      simp only [if_true]
      cases Api.evalAll (net (kOf trees)) (Ops.steadyOf (net (kOf trees)) (net (kOf trees)).G.unit0) (net (kOf trees)).G.unit0 trees
        (({ dups := markDups trees } : ECtx).extendWithWildCards (Api.dedupNames p) (Api.dedupNames d)) with
      | error f => cases f; rfl
      | ok rs => rfl

/-- the tool without a context archive = `model_check_multiple_formulae_dirty` on the graph with `kOf trees` sets -/
theorem analyse_eq_api_plain (ctxSets : List (Name × CSet)) (text : List Char) :
    analyse net K false ctxSets text =
      match prepAll (fun n => ((net 0).G.label n).isSome) K false (Loader.loadFormulae K.isWs text) with
      | .error e => .message e
      | .ok trees =>
        match Api.formulaeDirty (net (kOf trees)) K (net (kOf trees)).G.unit0 (Loader.loadFormulae K.isWs text) with
        | .ok rs => .results (kOf trees) trees rs
        | .userError e => .message e
        | .panic s => .panic s := by
  unfold analyse
  simp only
  cases hp : prepAll (fun n => ((net 0).G.label n).isSome) K false (Loader.loadFormulae K.isWs text) with
  | error e => rfl
  | ok trees =>
    simp only
    have hpa := (parseAll_of_prep (net (kOf trees)) K false [] _ (fun n => hN.label_eq (kOf trees) n) _).2 trees hp
      (fun t ht => by rw [hN.k_eq]; exact kOf_ge trees t ht)
    unfold Api.formulaeDirty Api.treesDirty
    rw [hpa, collectCtx_plain, collectCtx_plain]
    simp only [Bool.false_eq_true, if_false]
    cases Api.evalAll (net (kOf trees)) (Ops.steadyOf (net (kOf trees)) (net (kOf trees)).G.unit0) (net (kOf trees)).G.unit0 trees
      ({ dups := markDups trees } : ECtx) with
    | error f => cases f; rfl
    | ok rs => rfl

end Hctl.C17

namespace Hctl.C17
open Hctl Kripke Cli

variable {net : Nat → Env} (hN : NetFamily net) {C : CharClass} (hC : Lex.CharsOK C)
  (hE : ∀ k, EnvOK (net k)) (hG : ∀ k, GraphWF (net k).G) (hA : ∀ k, C12.GraphAsync (net k).G)
include hN hC hE hG hA

/-- C17 on the model, end to end: for EVERY formula file, with or without a context archive (of variable-independent
sets), the tool prints a message, or archives — in file order, one per formula line — exactly the satisfaction sets of
the preprocessed formulae on the graph with `kOf trees` variable sets.  It never panics. -/
theorem analyse_correct (ext : Bool) (ctxSets : List (Name × CSet)) (hctx : ∀ e ∈ ctxSets, SetSC e.2) (text : List Char) :
    (∃ e, analyse net C ext ctxSets text = .message e) ∨
    (∃ trees rs ps ds, analyse net C ext ctxSets text = .results (kOf trees) trees rs ∧
      prepAll (fun n => ((net 0).G.label n).isSome) C ext (Loader.loadFormulae C.isWs text) = .ok trees ∧
      collectCtx ext ctxSets trees = some (ps, ds) ∧
      rs.length = trees.length ∧
      ∀ i (hi : i < trees.length) (hi' : i < rs.length), ∀ p ∈ (net (kOf trees)).pts,
        (rs[i] p = true ↔ ((net (kOf trees)).G.unit0 p = true ∧
          sat (net (kOf trees)).G (C04.ctxOf (Api.dedupNames ps) (Api.dedupNames ds)) trees[i] p))) := by
  cases ext with
  | true =>
    rw [analyse_eq_api_ext hN C ctxSets text]
    cases hp : prepAll (fun n => ((net 0).G.label n).isSome) C true (Loader.loadFormulae C.isWs text) with
    | error e => exact Or.inl ⟨e, rfl⟩
    | ok trees =>
      simp only
      have hpa := (parseAll_of_prep (net (kOf trees)) C true ctxSets _ (fun n => hN.label_eq (kOf trees) n) _).2 trees hp
        (fun t ht => by rw [hN.k_eq]; exact kOf_ge trees t ht)
      rcases extendedDirty_correct hC (hE _) (hG _) (hA _) ctxSets hctx (Loader.loadFormulae C.isWs text) with
        ⟨e, _, h2⟩ | ⟨trees', ps, ds, rs, h1, h2, h3, h4⟩
      · rw [h2]; exact Or.inl ⟨e, rfl⟩
      · rw [h2]
        have : trees' = trees ∧ collectCtx true ctxSets trees = some (ps, ds) := by
          rw [hpa] at h1
          cases hc : collectCtx true ctxSets trees with
          | none => rw [hc] at h1; cases h1
          | some r =>
            obtain ⟨p, d⟩ := r; rw [hc] at h1; simp only [Except.ok.injEq, Prod.mk.injEq] at h1
            obtain ⟨h11, h12, h13⟩ := h1
            subst h11 h12 h13
            exact ⟨rfl, rfl⟩
        obtain ⟨this, hcc⟩ := this
        subst this
        exact Or.inr ⟨trees', rs, ps, ds, rfl, rfl, hcc, h3, h4⟩
  | false =>
    rw [analyse_eq_api_plain hN C ctxSets text]
    cases hp : prepAll (fun n => ((net 0).G.label n).isSome) C false (Loader.loadFormulae C.isWs text) with
    | error e => exact Or.inl ⟨e, rfl⟩
    | ok trees =>
      simp only
      have hpa := (parseAll_of_prep (net (kOf trees)) C false [] _ (fun n => hN.label_eq (kOf trees) n) _).2 trees hp
        (fun t ht => by rw [hN.k_eq]; exact kOf_ge trees t ht)
      rcases formulaeDirty_correct hC (hE _) (hG _) (hA _) (Loader.loadFormulae C.isWs text) with
        ⟨e, _, h2⟩ | ⟨trees', ps, ds, rs, h1, h2, h3, h4⟩
      · rw [h2]; exact Or.inl ⟨e, rfl⟩
      · rw [h2]
        have : trees' = trees := by
          rw [hpa, collectCtx_plain] at h1
          simp only [Except.ok.injEq, Prod.mk.injEq] at h1; exact h1.1.symm
        subst this
        refine Or.inr ⟨trees', rs, [], [], rfl, rfl, collectCtx_plain _ _, h3, ?_⟩
        intro i hi hi' p hp'
        rw [h4 i hi hi' p hp']
        have : C04.ctxOf (Api.dedupNames []) (Api.dedupNames []) = noCtx := rfl
        rw [this]

end Hctl.C17

namespace Hctl.C17
open Hctl Cli

/-- exhaustive mode lists exactly the states that are in the result for at least one colour -/
theorem mem_listed (G : Graph) (r : CSet) (s : Nat) :
    s ∈ listed G r ↔ s < G.nS ∧ ∃ c, c < G.nC ∧ r (zeroPt G s c) = true := by
  simp [listed]

theorem counts_states_eq_listed (G : Graph) (r : CSet) : (counts G r).2.2 = (listed G r).length := rfl

theorem length_filter_mono {α : Type} (p q : α → Bool) (h : ∀ a, p a = true → q a = true) :
    ∀ l : List α, (l.filter p).length ≤ (l.filter q).length := by
  intro l
  induction l with
  | nil => simp
  | cons a l ih =>
    simp only [List.filter_cons]
    by_cases hp : p a = true
    · rw [if_pos hp, if_pos (h a hp)]; simp only [List.length_cons]; omega
    · rw [if_neg hp]
      by_cases hq : q a = true
      · rw [if_pos hq]; simp only [List.length_cons]; omega
      · rw [if_neg hq]; exact ih

/-- the three printed numbers are monotone in the set; in particular (C03) the numbers reported for a formula never
exceed those of the graph's unit set -/
theorem counts_mono (G : Graph) (r U : CSet) (h : ∀ p, r p = true → U p = true) :
    (counts G r).1 ≤ (counts G U).1 ∧ (counts G r).2.1 ≤ (counts G U).2.1 ∧ (counts G r).2.2 ≤ (counts G U).2.2 := by
  refine ⟨?_, ?_, ?_⟩
  · exact length_filter_mono _ _ (fun sc hsc => h _ hsc) _
  · refine length_filter_mono _ _ (fun c hc => ?_) _
    simp only [List.any_eq_true] at hc ⊢
    obtain ⟨s, hs, hr⟩ := hc
    exact ⟨s, hs, h _ hr⟩
  · refine length_filter_mono _ _ (fun s hs => ?_) _
    simp only [List.any_eq_true] at hs ⊢
    obtain ⟨c, hc, hr⟩ := hs
    exact ⟨c, hc, h _ hr⟩

end Hctl.C17
