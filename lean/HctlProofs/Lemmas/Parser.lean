/-
  Lemmas relating the split-at-first-operator parser (HctlModel/Parser.lean) to the grammar
  (HctlProofs/Spec/Grammar.lean).
-/
import HctlProofs.Spec.Grammar
namespace Hctl

/-! ### splitFirst -/

theorem splitFirst_some {p : Tok → Bool} {ts pre post : List Tok} {x : Tok}
    (h : splitFirst p ts = some (pre, x, post)) :
    ts = pre ++ x :: post ∧ p x = true ∧ ∀ y ∈ pre, p y = false := by
  induction ts generalizing pre with
  | nil => simp [splitFirst] at h
  | cons t ts ih =>
    unfold splitFirst at h
    by_cases hp : p t = true
    · simp [hp] at h
      obtain ⟨rfl, rfl, rfl⟩ := h
      simp [hp]
    · simp [hp] at h
      cases hs : splitFirst p ts with
      | none => simp [hs] at h
      | some r =>
        obtain ⟨pre', x', post'⟩ := r
        simp [hs] at h
        obtain ⟨rfl, rfl, rfl⟩ := h
        obtain ⟨h1, h2, h3⟩ := ih hs
        refine ⟨by simp [h1], h2, ?_⟩
        intro y hy
        cases hy with
        | head => simpa using hp
        | tail _ hy => exact h3 y hy

theorem splitFirst_none {p : Tok → Bool} {ts : List Tok} :
    splitFirst p ts = none ↔ ∀ y ∈ ts, p y = false := by
  induction ts with
  | nil => simp [splitFirst]
  | cons t ts ih =>
    unfold splitFirst
    by_cases hp : p t = true
    · simp [hp]
    · simp [hp]
      cases hs : splitFirst p ts with
      | none => simpa [hs] using ih.mp hs
      | some r =>
        obtain ⟨pre', x', post'⟩ := r
        simp
        have h3 := splitFirst_some hs
        exact ⟨x', by rw [h3.1]; simp, h3.2.1⟩

theorem splitFirst_append {p : Tok → Bool} {pre post : List Tok} {x : Tok}
    (hpre : ∀ y ∈ pre, p y = false) (hx : p x = true) :
    splitFirst p (pre ++ x :: post) = some (pre, x, post) := by
  induction pre with
  | nil => simp [splitFirst, hx]
  | cons t pre ih =>
    have ht : p t = false := hpre t (by simp)
    have := ih (fun y hy => hpre y (by simp [hy]))
    simp [splitFirst, ht, this]

/-! ### ranks: which level a token is an operator of -/

def Lvl.rank : Lvl → Nat
  | .hyb => 1 | .iff => 2 | .imp => 3 | .or => 4 | .xor => 5 | .and => 6 | .bt => 7 | .un => 8 | .term => 9

def Tok.rank : Tok → Nat
  | .hyb .. => 1
  | .bin .iff => 2 | .bin .imp => 3 | .bin .or => 4 | .bin .xor => 5 | .bin .and => 6
  | .bin _ => 7
  | .un _ => 8
  | .atom _ => 9 | .group _ => 9

theorem Lvl.rank_next_ge (k : Lvl) : k.rank ≤ k.next.rank := by cases k <;> simp [Lvl.rank, Lvl.next]

theorem Lvl.rank_next_gt {k : Lvl} (h : k ≠ .term) : k.rank < k.next.rank := by
  cases k <;> simp_all [Lvl.rank, Lvl.next]

theorem hasOp_rank {k : Lvl} {o : BinOp} (h : k.hasOp o = true) : (Tok.bin o).rank = k.rank := by
  cases k <;> cases o <;> simp_all [Lvl.hasOp, BinOp.isTemporal, Tok.rank, Lvl.rank]

/-- every top-level token of a list derivable at level `k` is an operator of level `k` or tighter -/
theorem D.rank_le {k ts t} (h : D k ts t) : ∀ y ∈ ts, k.rank ≤ y.rank := by
  induction h with
  | hyb _ ih =>
    intro y hy
    cases hy with
    | head => simp [Tok.rank, Lvl.rank]
    | tail _ hy => exact ih y hy
  | @bin k o l r a b hop _ _ ihl ihr =>
    intro y hy
    rw [List.mem_append] at hy
    cases hy with
    | inl hy => exact Nat.le_trans (Lvl.rank_next_ge k) (ihl y hy)
    | inr hy =>
      cases hy with
      | head => rw [hasOp_rank hop]; exact Nat.le_refl _
      | tail _ hy => exact ihr y hy
  | un _ ih =>
    intro y hy
    cases hy with
    | head => simp [Tok.rank, Lvl.rank]
    | tail _ hy => exact ih y hy
  | @up k _ _ _ _ ih =>
    intro y hy
    exact Nat.le_trans (Lvl.rank_next_ge k) (ih y hy)
  | prop => intro y hy; simp at hy; subst hy; simp [Tok.rank, Lvl.rank]
  | var => intro y hy; simp at hy; subst hy; simp [Tok.rank, Lvl.rank]
  | wild => intro y hy; simp at hy; subst hy; simp [Tok.rank, Lvl.rank]
  | group _ _ => intro y hy; simp at hy; subst hy; simp [Tok.rank, Lvl.rank]

/-- the predicate the parser splits on at a level -/
def Lvl.splitPred : Lvl → Tok → Bool
  | .hyb => Tok.isHybrid
  | .iff => Tok.isBin .iff
  | .imp => Tok.isBin .imp
  | .or => Tok.isBin .or
  | .xor => Tok.isBin .xor
  | .and => Tok.isBin .and
  | .bt => Tok.isBinTemporal
  | .un => Tok.isUnary
  | .term => fun _ => false

theorem splitPred_rank {k : Lvl} {y : Tok} (h : k.splitPred y = true) : y.rank = k.rank := by
  cases k <;> cases y <;> simp_all [Lvl.splitPred, Tok.isHybrid, Tok.isBin, Tok.isBinTemporal, Tok.isUnary, Tok.rank, Lvl.rank]
  all_goals (rename_i o; cases o <;> simp_all [BinOp.isTemporal])

/-- a list derivable at the next tighter level contains no top-level operator of this level -/
theorem D.no_split {k : Lvl} {ts t} (hk : k ≠ Lvl.term) (h : D k.next ts t) : ∀ y ∈ ts, k.splitPred y = false := by
  intro y hy
  have h1 := h.rank_le y hy
  have h2 := Lvl.rank_next_gt hk
  cases hp : k.splitPred y with
  | false => rfl
  | true =>
    have := splitPred_rank hp
    omega

theorem isBin_eq {o : BinOp} {x : Tok} (h : Tok.isBin o x = true) : x = .bin o := by
  cases x <;> simp_all [Tok.isBin]

theorem bin?_ok {o : BinOp} {x y : Except PErr Tree} {t : Tree} (h : bin? o x y = .ok t) :
    ∃ a b, x = .ok a ∧ y = .ok b ∧ t = .bin o a b := by
  cases x <;> cases y <;> simp_all [bin?]

theorem bin?_fuel {o : BinOp} {x y : Except PErr Tree} (h : bin? o x y = .error .fuel) :
    x = .error .fuel ∨ y = .error .fuel := by
  cases x <;> cases y <;> simp_all [bin?]

/-! ### weights -/

theorem weightList_append (a b : List Tok) : Tok.weightList (a ++ b) = Tok.weightList a + Tok.weightList b := by
  induction a with
  | nil => simp [Tok.weightList]
  | cons t a ih => simp [Tok.weightList, ih]; omega

theorem weight_pos (t : Tok) : 0 < t.weight := by
  cases t <;> simp [Tok.weight]

theorem weightList_cons (t : Tok) (ts : List Tok) : Tok.weightList (t :: ts) = t.weight + Tok.weightList ts := by
  simp [Tok.weightList]

end Hctl
