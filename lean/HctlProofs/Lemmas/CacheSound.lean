/-
  The cached evaluator `Eval.evalNode` (duplicate counters, cache with renaming, foreign-restriction flag,
  free_var_domains, pattern shortcuts, empty-domain shortcut) returns — for EVERY state of the cache that
  satisfies the invariant `CacheOK`, hence for every evaluation history — a set that is semantically exact,
  and re-establishes the invariant.

  Two facts about canonical keys are HYPOTHESES of the theorem (`KeySem`, `KeyWild`): that equal keys imply
  that the cached set, renamed back, denotes the other sub-formula.  They are the semantic content of C09
  and are checked by the correspondences K5/K6/K7, not proved here.
-/
import HctlProofs.Lemmas.CacheBasics
import HctlProofs.Props.C12
import HctlProofs.Props.C07
import HctlProofs.Lemmas.CanonRender
namespace Hctl
open Kripke

/-- every wild-card proposition of the formula has a context set -/
def WildsIn (K : SemCtx) : Tree → Prop
  | .atom (.wild w) => ∃ a, K.wild w = some a
  | .atom _ => True
  | .un _ c => WildsIn K c
  | .bin _ l r => WildsIn K l ∧ WildsIn K r
  | .hyb _ _ _ c => WildsIn K c

/-- the unit set is the top-level unit restricted by the domains of the open quantifiers -/
def UnitDesc (E : Env) (K : SemCtx) (U0 U : CSet) (ds : List (Option Name)) : Prop :=
  ∀ p ∈ E.pts, (U p = true ↔ (U0 p = true ∧
    ∀ i l a, ds[i]? = some (some l) → K.dom l = some a → a (p.setS (p.getV i)) = true))

/-- a legitimate call of `eval_node`: preprocessed sub-formula `t` at quantifier depth `ds.length`, in the
unit set `U` described by the open domains `ds` -/
structure GoodQ (C : CharClass) (E : Env) (K : SemCtx) (U0 : CSet) (t : Tree) (U : CSet) (ds : List (Option Name)) : Prop where
  wscoped : WellScoped E.G.k ds.length t
  named : DepthNamed ds.length t
  dk : ds.length ≤ E.G.k
  domsIn : DomsIn K t
  domsDs : ∀ (i : Nat) l, ds[i]? = some (some l) → ∃ a, K.dom l = some a
  wildsIn : WildsIn K t
  labelled : C07.PropsOK (fun n => (E.G.label n).isSome) t
  unit : UnitOK E U0 (Ops.steadyOf E U0) U ds.length
  desc : UnitDesc E K U0 U ds
  valid : Lex.TreeOK C t ∧ PropNamesOK t

/-- no quantifier with a restricted domain is open whose variable does not occur in the sub-formula -/
def NoForeign (ren : List (Name × Name)) (ds : List (Option Name)) : Prop :=
  ∀ i l, ds[i]? = some (some l) → (ren.lookup (xs (i + 1))).isSome = true

/-- key of a wild-card proposition -/
def wkey (w : Name) : Key := ('%' :: w ++ ['%'], [])

/-- HYPOTHESIS (semantic key soundness, the content of C09): if two legitimate sub-formula occurrences have the
same key (canonical text + canonical domains), at most one variable, and the first was evaluated without
foreign restriction, then renaming the first one's set back along the renamings and intersecting with the
second one's unit yields exactly the second one's satisfaction set — and the renaming does not fault. -/
def KeySem (C : CharClass) (E : Env) (K : SemCtx) (U0 : CSet) : Prop :=
  ∀ t1 U1 ds1 t2 U2 ds2 key ren1 ren2 R,
    GoodQ C E K U0 t1 U1 ds1 → GoodQ C E K U0 t2 U2 ds2 →
    keyOf t1 (fvdOf ds1) = (key, ren1) → keyOf t2 (fvdOf ds2) = (key, ren2) →
    ren1.length ≤ 1 → ren2.length ≤ 1 → NoForeign ren1 ds1 → t1.isWild = false →
    Sem E R U1 (sat E.G K t1) →
    ∃ r', Eval.renameBack E U2 ren2 (sortRen ren1) R = .ok r' ∧ Sem E (r'.inter U2) U2 (sat E.G K t2)

/-- HYPOTHESIS (keys of wild-card propositions): the key of `%w%` is `("%w%", ∅)`, and only `%w%` has it -/
structure KeyWild (C : CharClass) (E : Env) (K : SemCtx) (U0 : CSet) : Prop where
  wild_key : ∀ w ds, Lex.ValidId C w → keyOf (.atom (.wild w)) (fvdOf ds) = (wkey w, [])
  key_wild : ∀ t U ds w ren, GoodQ C E K U0 t U ds → keyOf t (fvdOf ds) = (wkey w, ren) → t = .atom (.wild w)

/-- the invariant of the evaluation context -/
structure CacheOK (C : CharClass) (E : Env) (K : SemCtx) (U0 : CSet) (ctx : ECtx) : Prop where
  entries : ∀ key R rren, cacheGet key ctx.cache = some (R, rren) →
    (∃ w a, key = wkey w ∧ K.wild w = some a ∧ R = a ∧ rren = []) ∨
    (∃ t1 U1 ds1, GoodQ C E K U0 t1 U1 ds1 ∧ keyOf t1 (fvdOf ds1) = (key, rren) ∧ rren.length ≤ 1 ∧
      NoForeign rren ds1 ∧ t1.isWild = false ∧ Sem E R U1 (sat E.G K t1))
  wilds : ∀ w a, K.wild w = some a →
    cacheGet (wkey w) ctx.cache = some (a, []) ∧ (dupGet (wkey w) ctx.dups).isSome = true
  domRaw : ∀ l a, K.dom l = some a → ctx.domRaw.lookup l = some a
  dupsOK : ∀ key n, dupGet key ctx.dups = some n → ∀ t U ds ren, GoodQ C E K U0 t U ds →
    keyOf t (fvdOf ds) = (key, ren) → ren.length ≤ 1

section
variable {C : CharClass} {E : Env} (hE : EnvOK E) (hG : GraphWF E.G) {K : SemCtx} (hK : CtxOK E K) {U0 : CSet}
  (hKS : KeySem C E K U0) (hKW : KeyWild C E K U0)
include hE hG hK hKS hKW

omit hE hG hK hKS hKW in
theorem Sem.eqOn {a b U : CSet} {φ : Point → Prop} (ha : Sem E a U φ) (hb : Sem E b U φ) : EqOn E.pts a b :=
  fun p hp => Bool.eq_iff_iff.mpr ((ha p hp).trans (hb p hp).symm)

omit hE hG hK hKS hKW in
theorem sem_inter_unit {a U : CSet} {φ : Point → Prop} (ha : Sem E a U φ) : Sem E (a.inter U) U φ := by
  intro p hp
  simp only [CSet.inter, Bool.and_eq_true]
  rw [ha p hp]
  constructor
  · rintro ⟨h, _⟩; exact h
  · intro h; exact ⟨h, h.1⟩

/-- storing a freshly computed, semantically exact result keeps the invariant -/
theorem store_ok {t : Tree} {U : CSet} {ds : List (Option Name)} {key : Key} {ren : List (Name × Name)}
    {save : Bool} {r : CSet} {ctx1 : ECtx}
    (hq : GoodQ C E K U0 t U ds) (hkey : keyOf t (fvdOf ds) = (key, ren)) (hnw : t.isWild = false)
    (hsave : save = true → ren.length ≤ 1 ∧ NoForeign ren ds)
    (hr : Sem E r U (sat E.G K t)) (hc1 : CacheOK C E K U0 ctx1) :
    CacheOK C E K U0 (Eval.store save key ren r ctx1) ∧ (Eval.store save key ren r ctx1).fvd = ctx1.fvd := by
  unfold Eval.store
  cases hs : save with
  | false => simpa using hc1
  | true =>
    obtain ⟨hlen, hnf⟩ := hsave hs
    simp only [if_true]
    refine ⟨⟨?_, ?_, hc1.domRaw, hc1.dupsOK⟩, by first | rfl | trivial⟩
    · intro k R rren hget
      by_cases hk : k = key
      · subst hk
        rw [cacheGet_insert_same] at hget
        cases hget
        exact Or.inr ⟨t, U, ds, hq, hkey, hlen, hnf, hnw, hr⟩
      · rw [cacheGet_insert_ne k key _ _ hk] at hget
        exact hc1.entries k R rren hget
    · intro w a hw
      have hne : wkey w ≠ key := by
        intro he
        have := hKW.key_wild t U ds w ren hq (by rw [he]; exact hkey)
        rw [this] at hnw
        simp [Tree.isWild] at hnw
      rw [cacheGet_insert_ne (wkey w) key _ _ hne]
      exact hc1.wilds w a hw

/-- the lookup phase: a hit returns an exact set and keeps the invariant; a miss reports the key -/
theorem lookup_spec {t : Tree} {U : CSet} {ds : List (Option Name)} {ctx : ECtx}
    (hq : GoodQ C E K U0 t U ds) (hfvd : ctx.fvd = fvdOf ds) (hc : CacheOK C E K U0 ctx) :
    (∃ r ctx', Eval.lookup E t U ctx = .hit r ctx' ∧ Sem E r U (sat E.G K t) ∧ CacheOK C E K U0 ctx' ∧
        ctx'.fvd = ctx.fvd) ∨
    (∃ save key ren, Eval.lookup E t U ctx = .miss save key ren ∧ keyOf t (fvdOf ds) = (key, ren) ∧
        t.isWild = false ∧ (save = true → ren.length ≤ 1 ∧ NoForeign ren ds)) := by
  unfold Eval.lookup
  -- the key
  cases hkc : canonChars t.render with
  | mk canon ren =>
  have hkey : keyOf t (fvdOf ds) = ((canon, canonDoms ren (fvdOf ds)), ren) := by
    simp [keyOf, hkc]
  simp only [hfvd]
  generalize hk : (canon, canonDoms ren (fvdOf ds)) = key at hkey
  cases hd : dupGet key ctx.dups with
  | none =>
    right
    refine ⟨false, key, ren, rfl, hkey, ?_, fun h => by cases h⟩
    -- a wild-card is always in the duplicates
    cases hw : t.isWild with
    | false => rfl
    | true =>
      exfalso
      cases t with
      | atom a =>
        cases a with
        | wild w =>
          obtain ⟨a', ha'⟩ := hq.wildsIn
          have := (hc.wilds w a' ha').2
          have hkw := hKW.wild_key w ds (by simpa [Lex.TreeOK] using hq.valid.1)
          rw [hkey] at hkw
          have : key = wkey w := (Prod.mk.inj hkw).1
          rw [this] at hd
          simp [hd] at *
        | _ => simp [Tree.isWild] at hw
      | _ => simp [Tree.isWild] at hw
  | some n =>
    cases hcg : cacheGet key ctx.cache with
    | none =>
      right
      -- not a wild-card (those are always cached)
      have hnw : t.isWild = false := by
        cases hw : t.isWild with
        | false => rfl
        | true =>
          exfalso
          cases t with
          | atom a =>
            cases a with
            | wild w =>
              obtain ⟨a', ha'⟩ := hq.wildsIn
              have h1 := (hc.wilds w a' ha').1
              have hkw := hKW.wild_key w ds (by simpa [Lex.TreeOK] using hq.valid.1)
              rw [hkey] at hkw
              have : key = wkey w := (Prod.mk.inj hkw).1
              rw [this] at hcg
              rw [h1] at hcg
              cases hcg
            | _ => simp [Tree.isWild] at hw
          | _ => simp [Tree.isWild] at hw
      refine ⟨_, key, ren, rfl, hkey, hnw, ?_⟩
      intro hsave
      refine ⟨hc.dupsOK key n hd t U ds ren hq hkey, ?_⟩
      -- the flag `foreign` is false
      intro i l hil
      have hmem : (xs (i + 1), some l) ∈ fvdOf ds := (fvdOf_get ds i (some l)).mpr hil
      simp only [Bool.not_eq_true', List.any_eq_false] at hsave
      have := hsave _ hmem
      simp only [Option.isSome_some, Bool.true_and] at this
      cases hl : ren.lookup (xs (i + 1)) with
      | none => simp [hl] at this
      | some _ => rfl
    | some e =>
      obtain ⟨R, rren⟩ := e
      left
      simp only
      rcases hc.entries key R rren hcg with ⟨w, a, hkw, hwa, hRa, hrr⟩ | ⟨t1, U1, ds1, hq1, hk1, hlen1, hnf1, hnw1, hs1⟩
      · -- a wild-card entry: the node is that wild-card
        have ht := hKW.key_wild t U ds w ren hq (by rw [← hkw]; exact hkey)
        subst ht hRa hrr
        simp only [Tree.isWild, Bool.not_true, Bool.false_and, sortRen, List.foldl_nil, Eval.renameBack,
          Bool.false_eq_true, if_false]
        refine ⟨_, _, rfl, ?_, ?_, rfl⟩
        · apply Sem.tab hE
          intro p hp
          simp only [CSet.inter, Bool.and_eq_true, sat, hwa]
          constructor
          · rintro ⟨h1, h2⟩; exact ⟨h2, R, rfl, h1⟩
          · rintro ⟨h2, a', ha', h1⟩; cases ha'; exact ⟨h1, h2⟩
        · refine ⟨hc.entries, ?_, hc.domRaw, ?_⟩
          · intro w' a' hw'
            exact ⟨(hc.wilds w' a' hw').1, dupGet_set_isSome _ _ _ _ (hc.wilds w' a' hw').2⟩
          · intro k' n' hk' t' U' ds' ren' hq' hkey'
            by_cases hkk : k' = key
            · subst hkk; exact hc.dupsOK k' n hd t' U' ds' ren' hq' hkey'
            · rw [dupGet_set_ne k' key _ _ hkk] at hk'
              exact hc.dupsOK k' n' hk' t' U' ds' ren' hq' hkey'
      · -- an ordinary entry: key soundness
        have hnw : t.isWild = false := by
          cases hw : t.isWild with
          | false => rfl
          | true =>
            exfalso
            cases t with
            | atom a =>
              cases a with
              | wild w =>
                have hkw := hKW.wild_key w ds (by simpa [Lex.TreeOK] using hq.valid.1)
                rw [hkey] at hkw
                have hkeq : key = wkey w := (Prod.mk.inj hkw).1
                have := hKW.key_wild t1 U1 ds1 w rren hq1 (by rw [← hkeq]; exact hk1)
                rw [this] at hnw1
                simp [Tree.isWild] at hnw1
              | _ => simp [Tree.isWild] at hw
            | _ => simp [Tree.isWild] at hw
        obtain ⟨r', hrb, hsem⟩ := hKS t1 U1 ds1 t U ds key rren ren R hq1 hq hk1 hkey hlen1 (hc.dupsOK key n hd t U ds ren hq hkey) hnf1 hnw1 hs1
        rw [hrb]
        simp only [hnw, Bool.not_false, Bool.true_and]
        refine ⟨_, _, rfl, Sem.tab hE hsem, ?_, ?_⟩
        · -- the invariant after decrementing / evicting
          have hwne : ∀ w, wkey w ≠ key := by
            intro w he
            have := hKW.key_wild t U ds w ren hq (by rw [he]; exact hkey)
            rw [this] at hnw
            simp [Tree.isWild] at hnw
          split
          · -- evicted
            refine ⟨?_, ?_, hc.domRaw, ?_⟩
            · intro k' R' rren' hget
              exact hc.entries k' R' rren' (cacheGet_remove_sub k' key _ _ hget)
            · intro w a hw
              rw [cacheGet_remove_ne _ _ _ (hwne w), dupGet_remove_ne _ _ _ (hwne w)]
              exact ⟨(hc.wilds w a hw).1, dupGet_set_isSome _ _ _ _ (hc.wilds w a hw).2⟩
            · intro k' n' hk' t' U' ds' ren' hq' hkey'
              have := dupGet_remove_sub k' key _ n' hk'
              by_cases hkk : k' = key
              · subst hkk; exact hc.dupsOK k' n hd t' U' ds' ren' hq' hkey'
              · rw [dupGet_set_ne k' key _ _ hkk] at this
                exact hc.dupsOK k' n' this t' U' ds' ren' hq' hkey'
          · refine ⟨hc.entries, ?_, hc.domRaw, ?_⟩
            · intro w a hw
              exact ⟨(hc.wilds w a hw).1, dupGet_set_isSome _ _ _ _ (hc.wilds w a hw).2⟩
            · intro k' n' hk' t' U' ds' ren' hq' hkey'
              by_cases hkk : k' = key
              · subst hkk; exact hc.dupsOK k' n hd t' U' ds' ren' hq' hkey'
              · rw [dupGet_set_ne k' key _ _ hkk] at hk'
                exact hc.dupsOK k' n' hk' t' U' ds' ren' hq' hkey'
        · split <;> rfl


/-! ### the main induction -/

omit hE hG hK hKS hKW in
theorem CacheOK.fvd_irrel {ctx : ECtx} (f : DomMap) (h : CacheOK C E K U0 ctx) : CacheOK C E K U0 { ctx with fvd := f } :=
  ⟨h.entries, h.wilds, h.domRaw, h.dupsOK⟩

omit hE hG hK hKS hKW in
theorem getElem?_snoc_lt {α} (l : List α) (a : α) (i : Nat) (h : i < l.length) : (l ++ [a])[i]? = l[i]? := by
  rw [List.getElem?_append_left h]

omit hE hG hK hKS hKW in
theorem unitDesc_snoc_none {U : CSet} {ds : List (Option Name)} (h : UnitDesc E K U0 U ds) :
    UnitDesc E K U0 U (ds ++ [none]) := by
  intro p hp
  rw [h p hp]
  apply and_congr Iff.rfl
  constructor
  · intro hh i l a hil hl
    by_cases hi : i < ds.length
    · rw [getElem?_snoc_lt ds none i hi] at hil; exact hh i l a hil hl
    · have : i = ds.length ∨ ds.length < i := by omega
      rcases this with rfl | hgt
      · simp at hil
      · rw [List.getElem?_eq_none (by simp; omega)] at hil; cases hil
  · intro hh i l a hil hl
    have hi : i < ds.length := by
      apply Classical.byContradiction
      intro hn
      rw [List.getElem?_eq_none (by omega)] at hil; cases hil
    exact hh i l a (by rw [getElem?_snoc_lt ds none i hi]; exact hil) hl

omit hG hK hKS hKW in
theorem unitDesc_snoc_some {U U' dsl : CSet} {ds : List (Option Name)} {l : Name} (hl : K.dom l = some dsl)
    (h : UnitDesc E K U0 U ds)
    (hmem : ∀ q ∈ E.pts, (U' q = true ↔ (U q = true ∧ dsl (q.setS (q.getV ds.length)) = true))) :
    UnitDesc E K U0 U' (ds ++ [some l]) := by
  intro p hp
  rw [hmem p hp, h p hp]
  constructor
  · rintro ⟨⟨h0, hh⟩, hd⟩
    refine ⟨h0, ?_⟩
    intro i l' a hil hl'
    by_cases hi : i < ds.length
    · rw [getElem?_snoc_lt ds _ i hi] at hil; exact hh i l' a hil hl'
    · have : i = ds.length ∨ ds.length < i := by omega
      rcases this with rfl | hgt
      · simp at hil
        subst hil
        rw [hl] at hl'
        cases hl'
        exact hd
      · rw [List.getElem?_eq_none (by simp; omega)] at hil; cases hil
  · rintro ⟨h0, hh⟩
    refine ⟨⟨h0, ?_⟩, ?_⟩
    · intro i l' a hil hl'
      have hi : i < ds.length := by
        apply Classical.byContradiction
        intro hn
        rw [List.getElem?_eq_none (by omega)] at hil; cases hil
      exact hh i l' a (by rw [getElem?_snoc_lt ds _ i hi]; exact hil) hl'
    · exact hh ds.length l dsl (by simp) hl

/-- an admissible unit restricted by a domain on the next variable is admissible one level deeper -/
theorem unitOK_restricted {st U U' dsl : CSet} {d : Nat} {l : Name} (hl : K.dom l = some dsl)
    (hU : UnitOK E U0 st U d)
    (hmem : ∀ q ∈ E.pts, (U' q = true ↔ (U q = true ∧ dsl (q.setS (q.getV d)) = true))) :
    UnitOK E U0 st U' (d + 1) := by
  refine ⟨hU.steady, ?_, ?_, ?_⟩
  · intro p hp t ht
    have hq := setS_mem' hE hG hp ht
    have h1 := hmem _ hq
    have h2 := hmem _ hp
    rw [hU.stateIndep p hp t ht] at h1
    simp only [setS_getV, setS_setS] at h1
    exact Bool.eq_iff_iff.mpr (h1.trans h2.symm)
  · intro p hp i t hi ht
    have hq := setV_mem' hE hG hp (i := i) ht
    have h1 := hmem _ hq
    have h2 := hmem _ hp
    have hne : i ≠ d := by omega
    rw [hU.indepFrom p hp i t (by omega) ht, setV_getV_ne p i d t hne] at h1
    have hx := getV_lt' hE hG d hp
    have : dsl ((p.setV i t).setS (p.getV d)) = dsl (p.setS (p.getV d)) := by
      rw [setV_setS]
      exact hK.domIndep l dsl hl _ (setS_mem' hE hG hp hx) i t ht
    rw [this] at h1
    exact Bool.eq_iff_iff.mpr (h1.trans h2.symm)
  · intro p hp h
    exact hU.sub0 p hp ((hmem p hp).mp h).1

end
end Hctl
