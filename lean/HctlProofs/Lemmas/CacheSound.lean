/-
  The cached evaluator `Eval.evalNode`: lookup and store phases (see CacheDefs.lean for the invariant).
-/
import HctlProofs.Lemmas.CacheDefs
import HctlProofs.Lemmas.SingleName
namespace Hctl
open Kripke

section
variable {C : CharClass} (hC : Lex.CharsOK C) {E : Env} (hE : EnvOK E) (hG : GraphWF E.G) {K : SemCtx} (hK : CtxOK E K) {U0 : CSet}
  (hKS : KeySem C E K U0) (hKW : KeyWild C E K U0)
include hC hE hG hK hKS hKW

omit hC hE hG hK hKS hKW in
theorem Sem.eqOn {a b U : CSet} {φ : Point → Prop} (ha : Sem E a U φ) (hb : Sem E b U φ) : EqOn E.pts a b :=
  fun p hp => Bool.eq_iff_iff.mpr ((ha p hp).trans (hb p hp).symm)

omit hC hE hG hK hKS hKW in
theorem sem_inter_unit {a U : CSet} {φ : Point → Prop} (ha : Sem E a U φ) : Sem E (a.inter U) U φ := by
  intro p hp
  simp only [CSet.inter, Bool.and_eq_true]
  rw [ha p hp]
  constructor
  · rintro ⟨h, _⟩; exact h
  · intro h; exact ⟨h, h.1⟩

/-- storing a freshly computed, semantically exact result keeps the invariant -/
theorem store_ok {t : Tree} {U : CSet} {ds : List (Option Name)} {key : Key} {ren : List (Name × Name)}
    {save : Bool} {r : CSet} {ctx1 : ECtx}
    (hq : GoodQ C E K U0 t U ds) (hkey : keyOf t (fvdOf ds) = (key, ren)) (hnw : t.isWild = false)
    (hsave : save = true → ren.length ≤ 1 ∧ NoForeign ren ds)
    (hr : Sem E r U (sat E.G K t)) (hc1 : CacheOK C E K U0 ctx1) :
    CacheOK C E K U0 (Eval.store save key ren r ctx1) ∧ (Eval.store save key ren r ctx1).fvd = ctx1.fvd := by
  unfold Eval.store
  cases hs : save with
  | false => simpa using hc1
  | true =>
    obtain ⟨hlen, hnf⟩ := hsave hs
    simp only [if_true]
    refine ⟨⟨?_, ?_, hc1.domRaw, hc1.dupsOK⟩, by first | rfl | trivial⟩
    · intro k R rren hget
      by_cases hk : k = key
      · subst hk
        rw [cacheGet_insert_same] at hget
        cases hget
        exact Or.inr ⟨t, U, ds, hq, hkey, hlen, hnf, hnw, hr⟩
      · rw [cacheGet_insert_ne k key _ _ hk] at hget
        exact hc1.entries k R rren hget
    · intro w a hw
      have hne : wkey w ≠ key := by
        intro he
        have := hKW.key_wild t U ds w ren hq (by rw [he]; exact hkey)
        rw [this] at hnw
        simp [Tree.isWild] at hnw
      rw [cacheGet_insert_ne (wkey w) key _ _ hne]
      exact hc1.wilds w a hw

/-- the lookup phase: a hit returns an exact set and keeps the invariant; a miss reports the key -/
theorem lookup_spec {t : Tree} {U : CSet} {ds : List (Option Name)} {ctx : ECtx}
    (hq : GoodQ C E K U0 t U ds) (hfvd : ctx.fvd = fvdOf ds) (hc : CacheOK C E K U0 ctx) :
    (∃ r ctx', Eval.lookup E t U ctx = .hit r ctx' ∧ Sem E r U (sat E.G K t) ∧ CacheOK C E K U0 ctx' ∧
        ctx'.fvd = ctx.fvd) ∨
    (∃ save key ren, Eval.lookup E t U ctx = .miss save key ren ∧ keyOf t (fvdOf ds) = (key, ren) ∧
        t.isWild = false ∧ (save = true → ren.length ≤ 1 ∧ NoForeign ren ds)) := by
  unfold Eval.lookup
  -- the key
  cases hkc : canonChars t.render with
  | mk canon ren =>
  have hkey : keyOf t (fvdOf ds) = ((canon, canonDoms ren (fvdOf ds)), ren) := by
    simp [keyOf, hkc]
  simp only [hfvd]
  generalize hk : (canon, canonDoms ren (fvdOf ds)) = key at hkey
  cases hd : dupGet key ctx.dups with
  | none =>
    right
    refine ⟨false, key, ren, rfl, hkey, ?_, fun h => by cases h⟩
    -- a wild-card is always in the duplicates
    cases hw : t.isWild with
    | false => rfl
    | true =>
      exfalso
      cases t with
      | atom a =>
        cases a with
        | wild w =>
          obtain ⟨a', ha'⟩ := hq.wildsIn
          have := (hc.wilds w a' ha').2
          have hkw := hKW.wild_key w ds (by simpa [Lex.TreeOK] using hq.valid.1)
          rw [hkey] at hkw
          have : key = wkey w := (Prod.mk.inj hkw).1
          rw [this] at hd
          simp [hd] at *
        | _ => simp [Tree.isWild] at hw
      | _ => simp [Tree.isWild] at hw
  | some n =>
    cases hcg : cacheGet key ctx.cache with
    | none =>
      right
      -- not a wild-card (those are always cached)
      have hnw : t.isWild = false := by
        cases hw : t.isWild with
        | false => rfl
        | true =>
          exfalso
          cases t with
          | atom a =>
            cases a with
            | wild w =>
              obtain ⟨a', ha'⟩ := hq.wildsIn
              have h1 := (hc.wilds w a' ha').1
              have hkw := hKW.wild_key w ds (by simpa [Lex.TreeOK] using hq.valid.1)
              rw [hkey] at hkw
              have : key = wkey w := (Prod.mk.inj hkw).1
              rw [this] at hcg
              rw [h1] at hcg
              cases hcg
            | _ => simp [Tree.isWild] at hw
          | _ => simp [Tree.isWild] at hw
      refine ⟨_, key, ren, rfl, hkey, hnw, ?_⟩
      intro hsave
      refine ⟨dups_le_one hC (hc.dupsOK key n hd) hq hkey, ?_⟩
      -- the flag `foreign` is false
      intro i l hil
      have hmem : (xs (i + 1), some l) ∈ fvdOf ds := (fvdOf_get ds i (some l)).mpr hil
      simp only [Bool.not_eq_true', List.any_eq_false] at hsave
      have := hsave _ hmem
      simp only [Option.isSome_some, Bool.true_and] at this
      cases hl : ren.lookup (xs (i + 1)) with
      | none => simp [hl] at this
      | some _ => rfl
    | some e =>
      obtain ⟨R, rren⟩ := e
      left
      simp only
      rcases hc.entries key R rren hcg with ⟨w, a, hkw, hwa, hRa, hrr⟩ | ⟨t1, U1, ds1, hq1, hk1, hlen1, hnf1, hnw1, hs1⟩
      · -- a wild-card entry: the node is that wild-card
        have ht := hKW.key_wild t U ds w ren hq (by rw [← hkw]; exact hkey)
        subst ht hRa hrr
        simp only [Tree.isWild, Bool.not_true, Bool.false_and, sortRen, List.foldl_nil, Eval.renameBack,
          Bool.false_eq_true, if_false]
        refine ⟨_, _, rfl, ?_, ?_, rfl⟩
        · apply Sem.tab hE
          intro p hp
          simp only [CSet.inter, Bool.and_eq_true, sat, hwa]
          constructor
          · rintro ⟨h1, h2⟩; exact ⟨h2, R, rfl, h1⟩
          · rintro ⟨h2, a', ha', h1⟩; cases ha'; exact ⟨h1, h2⟩
        · refine ⟨hc.entries, ?_, hc.domRaw, ?_⟩
          · intro w' a' hw'
            exact ⟨(hc.wilds w' a' hw').1, dupGet_set_isSome _ _ _ _ (hc.wilds w' a' hw').2⟩
          · intro k' n' hk'
            by_cases hkk : k' = key
            · subst hkk; exact hc.dupsOK k' n hd
            · rw [dupGet_set_ne k' key _ _ hkk] at hk'
              exact hc.dupsOK k' n' hk'
      · -- an ordinary entry: key soundness
        have hnw : t.isWild = false := by
          cases hw : t.isWild with
          | false => rfl
          | true =>
            exfalso
            cases t with
            | atom a =>
              cases a with
              | wild w =>
                have hkw := hKW.wild_key w ds (by simpa [Lex.TreeOK] using hq.valid.1)
                rw [hkey] at hkw
                have hkeq : key = wkey w := (Prod.mk.inj hkw).1
                have := hKW.key_wild t1 U1 ds1 w rren hq1 (by rw [← hkeq]; exact hk1)
                rw [this] at hnw1
                simp [Tree.isWild] at hnw1
              | _ => simp [Tree.isWild] at hw
            | _ => simp [Tree.isWild] at hw
        obtain ⟨r', hrb, hsem⟩ := hKS t1 U1 ds1 t U ds key rren ren R hq1 hq hk1 hkey hlen1 (dups_le_one hC (hc.dupsOK key n hd) hq hkey) hnf1 hnw1 hs1
        rw [hrb]
        simp only [hnw, Bool.not_false, Bool.true_and]
        refine ⟨_, _, rfl, Sem.tab hE hsem, ?_, ?_⟩
        · -- the invariant after decrementing / evicting
          have hwne : ∀ w, wkey w ≠ key := by
            intro w he
            have := hKW.key_wild t U ds w ren hq (by rw [he]; exact hkey)
            rw [this] at hnw
            simp [Tree.isWild] at hnw
          split
          · -- evicted
            refine ⟨?_, ?_, hc.domRaw, ?_⟩
            · intro k' R' rren' hget
              exact hc.entries k' R' rren' (cacheGet_remove_sub k' key _ _ hget)
            · intro w a hw
              rw [cacheGet_remove_ne _ _ _ (hwne w), dupGet_remove_ne _ _ _ (hwne w)]
              exact ⟨(hc.wilds w a hw).1, dupGet_set_isSome _ _ _ _ (hc.wilds w a hw).2⟩
            · intro k' n' hk'
              have := dupGet_remove_sub k' key _ n' hk'
              by_cases hkk : k' = key
              · subst hkk; exact hc.dupsOK k' n hd
              · rw [dupGet_set_ne k' key _ _ hkk] at this
                exact hc.dupsOK k' n' this
          · refine ⟨hc.entries, ?_, hc.domRaw, ?_⟩
            · intro w a hw
              exact ⟨(hc.wilds w a hw).1, dupGet_set_isSome _ _ _ _ (hc.wilds w a hw).2⟩
            · intro k' n' hk'
              by_cases hkk : k' = key
              · subst hkk; exact hc.dupsOK k' n hd
              · rw [dupGet_set_ne k' key _ _ hkk] at hk'
                exact hc.dupsOK k' n' hk'
        · split <;> rfl


/-! ### the main induction -/

omit hC hE hG hK hKS hKW in
theorem CacheOK.fvd_irrel {ctx : ECtx} (f : DomMap) (h : CacheOK C E K U0 ctx) : CacheOK C E K U0 { ctx with fvd := f } :=
  ⟨h.entries, h.wilds, h.domRaw, h.dupsOK⟩

omit hC hE hG hK hKS hKW in
theorem getElem?_snoc_lt {α} (l : List α) (a : α) (i : Nat) (h : i < l.length) : (l ++ [a])[i]? = l[i]? := by
  rw [List.getElem?_append_left h]

omit hC hE hG hK hKS hKW in
theorem unitDesc_snoc_none {U : CSet} {ds : List (Option Name)} (h : UnitDesc E K U0 U ds) :
    UnitDesc E K U0 U (ds ++ [none]) := by
  intro p hp
  rw [h p hp]
  apply and_congr Iff.rfl
  constructor
  · intro hh i l a hil hl
    by_cases hi : i < ds.length
    · rw [getElem?_snoc_lt ds none i hi] at hil; exact hh i l a hil hl
    · have : i = ds.length ∨ ds.length < i := by omega
      rcases this with rfl | hgt
      · simp at hil
      · rw [List.getElem?_eq_none (by simp; omega)] at hil; cases hil
  · intro hh i l a hil hl
    have hi : i < ds.length := by
      apply Classical.byContradiction
      intro hn
      rw [List.getElem?_eq_none (by omega)] at hil; cases hil
    exact hh i l a (by rw [getElem?_snoc_lt ds none i hi]; exact hil) hl

omit hC hG hK hKS hKW in
theorem unitDesc_snoc_some {U U' dsl : CSet} {ds : List (Option Name)} {l : Name} (hl : K.dom l = some dsl)
    (h : UnitDesc E K U0 U ds)
    (hmem : ∀ q ∈ E.pts, (U' q = true ↔ (U q = true ∧ dsl (q.setS (q.getV ds.length)) = true))) :
    UnitDesc E K U0 U' (ds ++ [some l]) := by
  intro p hp
  rw [hmem p hp, h p hp]
  constructor
  · rintro ⟨⟨h0, hh⟩, hd⟩
    refine ⟨h0, ?_⟩
    intro i l' a hil hl'
    by_cases hi : i < ds.length
    · rw [getElem?_snoc_lt ds _ i hi] at hil; exact hh i l' a hil hl'
    · have : i = ds.length ∨ ds.length < i := by omega
      rcases this with rfl | hgt
      · simp at hil
        subst hil
        rw [hl] at hl'
        cases hl'
        exact hd
      · rw [List.getElem?_eq_none (by simp; omega)] at hil; cases hil
  · rintro ⟨h0, hh⟩
    refine ⟨⟨h0, ?_⟩, ?_⟩
    · intro i l' a hil hl'
      have hi : i < ds.length := by
        apply Classical.byContradiction
        intro hn
        rw [List.getElem?_eq_none (by omega)] at hil; cases hil
      exact hh i l' a (by rw [getElem?_snoc_lt ds _ i hi]; exact hil) hl'
    · exact hh ds.length l dsl (by simp) hl

/-- an admissible unit restricted by a domain on the next variable is admissible one level deeper -/
theorem unitOK_restricted {st U U' dsl : CSet} {d : Nat} {l : Name} (hl : K.dom l = some dsl)
    (hU : UnitOK E U0 st U d)
    (hmem : ∀ q ∈ E.pts, (U' q = true ↔ (U q = true ∧ dsl (q.setS (q.getV d)) = true))) :
    UnitOK E U0 st U' (d + 1) := by
  refine ⟨hU.steady, ?_, ?_, ?_⟩
  · intro p hp t ht
    have hq := setS_mem' hE hG hp ht
    have h1 := hmem _ hq
    have h2 := hmem _ hp
    rw [hU.stateIndep p hp t ht] at h1
    simp only [setS_getV, setS_setS] at h1
    exact Bool.eq_iff_iff.mpr (h1.trans h2.symm)
  · intro p hp i t hi ht
    have hq := setV_mem' hE hG hp (i := i) ht
    have h1 := hmem _ hq
    have h2 := hmem _ hp
    have hne : i ≠ d := by omega
    rw [hU.indepFrom p hp i t (by omega) ht, setV_getV_ne p i d t hne] at h1
    have hx := getV_lt' hE hG d hp
    have : dsl ((p.setV i t).setS (p.getV d)) = dsl (p.setS (p.getV d)) := by
      rw [setV_setS]
      exact hK.domIndep l dsl hl _ (setS_mem' hE hG hp hx) i t ht
    rw [this] at h1
    exact Bool.eq_iff_iff.mpr (h1.trans h2.symm)
  · intro p hp h
    exact hU.sub0 p hp ((hmem p hp).mp h).1

end
end Hctl
