/-
  The theorem about the command-line tool (`analyse_correct`) instantiated for the environments the driver evaluates the
  `cli` requests in: no hypothesis about the environment is left except the run-time check `stepsOK` (answered
  `premises=ok`) and the character-class facts.
-/
import HctlProofs.Lemmas.DriverEnv
import HctlProofs.Lemmas.CliModel
namespace Hctl.C17
open Hctl Kripke Cli

theorem stepsOK_k (G : Graph) (k' : Nat) : ({ G with k := k' } : Graph).stepsOK = G.stepsOK := rfl

theorem netFamily_driverNet (G : Graph) : NetFamily (driverNet G) := by
  constructor
  · intro k
    unfold driverNet
    by_cases h : k = G.k
    · rw [if_pos h]; simp [driverEnv, Graph.restrict, h]
    · rw [if_neg h]; simp [driverEnv, Graph.restrict]
  · intro k n
    unfold driverNet
    by_cases h : k = G.k <;> by_cases h0 : 0 = G.k <;> simp [h, h0, driverEnv, Graph.restrict]

theorem driverNet_premises (G : Graph) (h : G.stepsOK = true) (k : Nat) :
    EnvOK (driverNet G k) ∧ GraphWF (driverNet G k).G ∧ C12.GraphAsync (driverNet G k).G := by
  unfold driverNet
  by_cases hk : k = G.k
  · rw [if_pos hk]; exact driver_premises G h
  · rw [if_neg hk]; exact driver_premises _ (by rw [stepsOK_k]; exact h)

/-- the graph the driver keeps after a `graph` request (the restricted table) passes the check when the exported one does -/
theorem stepsOK_restrict (G : Graph) (h : G.stepsOK = true) : G.restrict.stepsOK = true := by
  simp only [Graph.stepsOK, List.all_eq_true, List.mem_range] at h ⊢
  intro c hc j hj s hs
  have := h c hc j hj s hs
  have hr : G.restrict.step c j s = G.step c j s := by
    simp only [Graph.restrict]
    rw [if_pos ⟨hc, hj, hs⟩]
  have e1 : G.restrict.nC = G.nC := rfl
  have e2 : G.restrict.nV = G.nV := rfl
  have e3 : G.restrict.nS = G.nS := rfl
  rw [e1] at hc; rw [e2] at hj; rw [e3] at hs
  have := h c hc j hj s hs
  rw [hr]
  exact this

/-- `analyse_correct` for the driver's environments -/
theorem analyse_correct_driver {C : CharClass} (hC : Lex.CharsOK C) (G : Graph) (h : G.stepsOK = true)
    (ext : Bool) (ctxSets : List (Name × CSet)) (hctx : ∀ e ∈ ctxSets, SetSC e.2) (text : List Char) :
    (∃ e, analyse (driverNet G) C ext ctxSets text = .message e) ∨
    (∃ trees rs ps ds, analyse (driverNet G) C ext ctxSets text = .results (kOf trees) trees rs ∧
      prepAll (fun n => ((driverNet G 0).G.label n).isSome) C ext (Loader.loadFormulae C.isWs text) = .ok trees ∧
      collectCtx ext ctxSets trees = some (ps, ds) ∧
      rs.length = trees.length ∧
      ∀ i (hi : i < trees.length) (hi' : i < rs.length), ∀ p ∈ (driverNet G (kOf trees)).pts,
        (rs[i] p = true ↔ ((driverNet G (kOf trees)).G.unit0 p = true ∧
          sat (driverNet G (kOf trees)).G (C04.ctxOf (Api.dedupNames ps) (Api.dedupNames ds)) trees[i] p))) :=
  analyse_correct (netFamily_driverNet G) hC (fun k => (driverNet_premises G h k).1)
    (fun k => (driverNet_premises G h k).2.1) (fun k => (driverNet_premises G h k).2.2) ext ctxSets hctx text

end Hctl.C17
