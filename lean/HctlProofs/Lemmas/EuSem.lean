/-
  `eval_eu_saturated`: the saturation loop computes exactly E[φ U ψ] (least fixed point), for all
  graphs and sizes.  Termination: every productive round adds a point of the finite universe.
-/
import HctlProofs.Lemmas.OpsSem
namespace Hctl
open Kripke

/-- E-until through real transitions only is the same as through the relation with self-loops -/
theorem EUi_R_iff_step (G : Graph) (c : Nat) (φ ψ : Nat → Prop) (s : Nat) :
    EUi (G.R c) φ ψ s ↔ EUi (G.stepRel c) φ ψ s := by
  constructor
  · intro h
    induction h with
    | here h => exact EUi.here h
    | step hφ hR _ ih =>
      cases hR with
      | inl hs => exact EUi.step hφ hs ih
      | inr hs => rw [hs.2] at ih; exact ih
  · intro h
    induction h with
    | here h => exact EUi.here h
    | step hφ hR _ ih => exact EUi.step hφ (Or.inl hR) ih

theorem total_R (G : Graph) (c : Nat) : Total (G.R c) := by
  intro s
  classical
  by_cases h : ∃ t, G.stepRel c s t
  · obtain ⟨t, ht⟩ := h; exact ⟨t, Or.inl ht⟩
  · refine ⟨s, Or.inr ⟨?_, rfl⟩⟩
    intro j hj
    cases hs : G.step c j s with
    | none => rfl
    | some t => exact absurd ⟨t, j, hj, hs⟩ h

section eu
variable {E : Env} (hE : EnvOK E) (hG : GraphWF E.G)
include hE hG

/-- the update of one variable in one round -/
def euUpd (E : Env) (phi1 res : CSet) (j : Nat) : CSet := (phi1.inter (Ops.varPre E j res)).minus res

theorem euStep_none {phi1 res : CSet} (h : Ops.euStep E phi1 res = none) :
    ∀ j, j < E.G.nV → ∀ p ∈ E.pts, euUpd E phi1 res j p = false := by
  intro j hj p hp
  simp only [Ops.euStep, List.findSome?_eq_none_iff, List.mem_reverse, List.mem_range] at h
  have := h j hj
  by_cases hem : isEmptyOn E.pts ((phi1.inter (Ops.varPre E j res)).minus res) = true
  · exact isEmptyOn_iff.mp hem p hp
  · simp [hem] at this

theorem euStep_some {phi1 res r : CSet} (h : Ops.euStep E phi1 res = some r) :
    ∃ j, j < E.G.nV ∧ r = E.tab (res.union (euUpd E phi1 res j)) ∧ ∃ p ∈ E.pts, euUpd E phi1 res j p = true := by
  simp only [Ops.euStep] at h
  obtain ⟨j, hj, hh⟩ := List.exists_of_findSome?_eq_some h
  simp only [List.mem_reverse, List.mem_range] at hj
  by_cases hem : isEmptyOn E.pts ((phi1.inter (Ops.varPre E j res)).minus res) = true
  · simp [hem] at hh
  · simp only [hem] at hh
    simp at hh
    refine ⟨j, hj, hh.symm, ?_⟩
    have hf : isEmptyOn E.pts ((phi1.inter (Ops.varPre E j res)).minus res) = false := by
      simpa using hem
    simp only [isEmptyOn, List.all_eq_false] at hf
    obtain ⟨p, hp, hne⟩ := hf
    exact ⟨p, hp, by simpa [euUpd] using hne⟩

theorem euStep_card {phi1 res r : CSet} (h : Ops.euStep E phi1 res = some r) :
    SubOn E.pts res r ∧ card E.pts res < card E.pts r := by
  obtain ⟨j, _, rfl, p, hp, hup⟩ := euStep_some hE hG h
  have hsub : SubOn E.pts res (E.tab (res.union (euUpd E phi1 res j))) := by
    intro q hq hr
    rw [hE.tab_ok _ q hq]; simp [CSet.union, hr]
  refine ⟨hsub, card_lt hsub ?_⟩
  intro heq
  have := heq p hp
  rw [hE.tab_ok _ p hp] at this
  simp only [euUpd, CSet.minus, CSet.inter, Bool.and_eq_true, Bool.not_eq_true'] at hup
  simp [CSet.union, euUpd, CSet.minus, CSet.inter, hup.1.1, hup.1.2, hup.2] at this

/-- invariants of the loop are preserved -/
theorem euLoop_inv (P : CSet → Prop) {phi1 : CSet}
    (hstep : ∀ res j, j < E.G.nV → P res → P (E.tab (res.union (euUpd E phi1 res j)))) :
    ∀ n res, P res → P (Ops.euLoop E n phi1 res) := by
  intro n
  induction n with
  | zero => intro res h; simpa [Ops.euLoop] using h
  | succ n ih =>
    intro res h
    unfold Ops.euLoop
    cases hs : Ops.euStep E phi1 res with
    | none => simpa using h
    | some r =>
      obtain ⟨j, hj, rfl, _⟩ := euStep_some hE hG hs
      exact ih _ (hstep res j hj h)

/-- with enough fuel the loop stops only when no variable can add a point -/
theorem euLoop_closed {phi1 : CSet} :
    ∀ n res, E.pts.length < n + card E.pts res →
      ∀ j, j < E.G.nV → ∀ p ∈ E.pts, euUpd E phi1 (Ops.euLoop E n phi1 res) j p = false := by
  intro n
  induction n with
  | zero =>
    intro res hn
    have := card_le_length E.pts res
    omega
  | succ n ih =>
    intro res hn
    unfold Ops.euLoop
    cases hs : Ops.euStep E phi1 res with
    | none => simpa using euStep_none hE hG hs
    | some r =>
      have := (euStep_card hE hG hs).2
      exact ih r (by omega)

theorem sem_eu {U0 st U a b : CSet} {d : Nat} {φ ψ : Point → Prop} (hU : UnitOK E U0 st U d)
    (ha : Sem E a U φ) (hb : Sem E b U ψ) :
    Sem E (Ops.evalEuSat E a b) U
      (fun p => EUi (E.G.R p.c) (fun t => φ (p.setS t)) (fun t => ψ (p.setS t)) p.s) := by
  intro p hp
  constructor
  · -- soundness: an invariant of the loop
    have hinv := euLoop_inv hE hG
      (fun res => ∀ q ∈ E.pts, res q = true →
        U q = true ∧ EUi (E.G.stepRel q.c) (fun t => φ (q.setS t)) (fun t => ψ (q.setS t)) q.s)
      (phi1 := a) (by
        intro res j hj hres q hq hr
        rw [hE.tab_ok _ q hq] at hr
        simp only [CSet.union, Bool.or_eq_true] at hr
        cases hr with
        | inl h => exact hres q hq h
        | inr h =>
          simp only [euUpd, CSet.minus, CSet.inter, Bool.and_eq_true, Ops.varPre] at h
          obtain ⟨⟨haq, hpre⟩, _⟩ := h
          have hq' := (ha q hq).mp haq
          cases hs : E.G.step q.c j q.s with
          | none => simp [hs] at hpre
          | some t =>
            simp [hs] at hpre
            have hqt : q.setS t ∈ E.pts :=
              setS_mem' hE hG hq (hG.step_lt _ _ _ _ hs (by rw [hE.pts_eq] at hq; exact s_lt hq))
            have := hres _ hqt hpre
            exact ⟨hq'.1, EUi.step (by simpa using hq'.2) ⟨j, hj, hs⟩ this.2⟩)
      (E.pts.length + 1) b (by
        intro q hq hbq
        have := (hb q hq).mp hbq
        exact ⟨this.1, EUi.here (by simpa using this.2)⟩)
    intro h
    have := hinv p hp h
    exact ⟨this.1, (EUi_R_iff_step E.G p.c _ _ p.s).mpr this.2⟩
  · rintro ⟨hu, heu⟩
    rw [EUi_R_iff_step] at heu
    have hsubb : SubOn E.pts b (Ops.evalEuSat E a b) :=
      euLoop_inv hE hG (fun res => SubOn E.pts b res) (phi1 := a)
        (by
          intro res j _ hres q hq hbq
          rw [hE.tab_ok _ q hq]
          simp [CSet.union, hres q hq hbq])
        (E.pts.length + 1) b (SubOn.refl b)
    have hclosed := euLoop_closed hE hG (phi1 := a) (E.pts.length + 1) b (by omega)
    have key : ∀ s, EUi (E.G.stepRel p.c) (fun t => φ (p.setS t)) (fun t => ψ (p.setS t)) s →
        s < E.G.nS → Ops.evalEuSat E a b (p.setS s) = true := by
      intro s h
      induction h with
      | @here s hψ =>
        intro hs
        have hq := setS_mem' hE hG hp hs
        exact hsubb _ hq ((hb _ hq).mpr ⟨by rw [hU.stateIndep p hp s hs]; exact hu, hψ⟩)
      | @step s t hφ hR _ ih =>
        intro hs
        obtain ⟨j, hj, hst⟩ := hR
        have ht := hG.step_lt _ _ _ _ hst hs
        have hq := setS_mem' hE hG hp hs
        have hrt := ih ht
        have hcl := hclosed j hj _ hq
        have haq : a (p.setS s) = true := (ha _ hq).mpr ⟨by rw [hU.stateIndep p hp s hs]; exact hu, hφ⟩
        simp only [euUpd, CSet.minus, CSet.inter, Ops.varPre, Ops.evalEuSat] at hcl hrt ⊢
        have hst' : E.G.step (p.setS s).c j (p.setS s).s = some t := hst
        rw [hst'] at hcl
        simp only [setS_setS] at hcl
        rw [haq, hrt] at hcl
        simpa using hcl
    have := key p.s heu (by rw [hE.pts_eq] at hp; exact s_lt hp)
    simpa using this

end eu
end Hctl
