/-
  LEXICAL SPECIFICATION of the tokenizer (`Sp`, `Seg`) and the proof that the tokenizer meets it in both directions:
  `tokenize K ext cs = .ok toks ↔ Sp K ext cs toks`.  White-space and spelling invariances are read off the rules.
-/
import HctlProofs.Lemmas.LexValid
namespace Hctl
namespace Lex

/-- white space only -/
def AllWs (K : CharClass) (w : List Char) : Prop := ∀ c ∈ w, K.isWs c = true

/-- SPECIFICATION of the segment after a hybrid operator: `{var}`, optionally `in %domain%` (only when domains are
parsed), then `:` — with optional white space at the four places the tokenizer skips it -/
inductive Seg (K : CharClass) : Bool → List Char → Name → Option Name → Prop
  | plain (pd : Bool) (w1 w2 : List Char) (v : Name) : AllWs K w1 → AllWs K w2 → ValidId K v →
      Seg K pd (w1 ++ '{' :: (v ++ '}' :: (w2 ++ [':']))) v none
  | dom (w1 w2 w3 w4 : List Char) (v dn : Name) : AllWs K w1 → AllWs K w2 → AllWs K w3 → AllWs K w4 →
      ValidId K v → ValidId K dn →
      Seg K true (w1 ++ '{' :: (v ++ '}' :: (w2 ++ 'i' :: 'n' :: (w3 ++ '%' :: (dn ++ '%' :: (w4 ++ [':'])))))) v (some dn)

variable {K : CharClass}

theorem skipWs_app (w rest : List Char) (hw : AllWs K w) (hr : ∀ c, rest.head? = some c → K.isWs c = false) :
    skipWs K (w ++ rest) = rest := by
  induction w with
  | nil =>
    cases rest with
    | nil => rfl
    | cons c cs => simp [skipWs, hr c rfl]
  | cons c w ih =>
    simp only [List.cons_append, skipWs, hw c (by simp), if_true]
    exact ih (fun x hx => hw x (by simp [hx]))

/-- decomposition of `skip_whitespaces` -/
theorem skipWs_split (cs : List Char) : ∃ w, AllWs K w ∧ cs = w ++ skipWs K cs ∧
    ∀ c, (skipWs K cs).head? = some c → K.isWs c = false := by
  induction cs with
  | nil => exact ⟨[], by intro c hc; simp at hc, rfl, by intro c hc; simp [skipWs] at hc⟩
  | cons c cs ih =>
    by_cases hc : K.isWs c = true
    · obtain ⟨w, hw, he, hh⟩ := ih
      refine ⟨c :: w, ?_, ?_, ?_⟩
      · intro x hx
        simp only [List.mem_cons] at hx
        rcases hx with rfl | hx
        · exact hc
        · exact hw x hx
      · simp only [skipWs, hc, if_true, List.cons_append]
        rw [← he]
      · simpa [skipWs, hc] using hh
    · refine ⟨[], by intro x hx; simp at hx, by simp [skipWs, hc], ?_⟩
      intro x hx
      simp only [skipWs, hc, if_false, Bool.false_eq_true, List.head?_cons, Option.some.injEq] at hx
      subst hx
      simpa using hc

theorem collectName_split (K : CharClass) (cs : List Char) :
    cs = (collectName K cs).1 ++ (collectName K cs).2 ∧ (∀ c ∈ (collectName K cs).1, isName K c = true) ∧
      Sep K (collectName K cs).2 := by
  induction cs with
  | nil => exact ⟨rfl, by simp [collectName], sep_nil⟩
  | cons c cs ih =>
    by_cases hc : isName K c = true
    · simp only [collectName, hc, if_true]
      refine ⟨by simp; exact ih.1, ?_, ih.2.2⟩
      intro x hx
      simp only [List.mem_cons] at hx
      rcases hx with rfl | hx
      · exact hc
      · exact ih.2.1 x hx
    · simp only [collectName, hc, if_false, Bool.false_eq_true]
      refine ⟨rfl, by simp, ?_⟩
      intro x hx
      simp only [List.head?_cons, Option.some.injEq] at hx
      subst hx
      simpa using hc

theorem expect_some {ch : Char} {cs r : List Char} (h : expect ch cs = some r) : cs = ch :: r := by
  cases cs with
  | nil => simp [expect] at h
  | cons c cs =>
    simp only [expect] at h
    split at h
    · rename_i hc; cases h; rw [hc]
    · cases h

variable (hK : CharsOK K)
include hK

theorem special_head_not_ws {c : Char} (hc : c ∈ specials) (hne : c ≠ ' ') (cs : List Char) :
    ∀ x, (c :: cs).head? = some x → K.isWs x = false := by
  intro x hx
  simp only [List.head?_cons, Option.some.injEq] at hx
  subst hx
  exact hK.special_not_ws _ hc hne

/-- the segment parser accepts every segment of the specification … -/
theorem cvd_complete {pd : Bool} {seg : List Char} {v : Name} {d : Option Name} (h : Seg K pd seg v d) (rest : List Char) :
    collectVarDom K pd (seg ++ rest) = some (v, d, rest) := by
  have hi : K.isWs 'i' = false := name_not_ws hK (letter_name hK (by simp))
  cases h with
  | plain pd w1 w2 v hw1 hw2 hv =>
    have e1 : skipWs K (w1 ++ '{' :: (v ++ '}' :: (w2 ++ [':'])) ++ rest) = '{' :: (v ++ '}' :: (w2 ++ ':' :: rest)) := by
      have := skipWs_app w1 ('{' :: (v ++ '}' :: (w2 ++ ':' :: rest))) hw1 (special_head_not_ws hK (by simp [specials]) (by decide) _)
      simpa using this
    have e2 := collectName_app v ('}' :: (w2 ++ ':' :: rest)) hv.2 (sep_special hK (by simp [specials]) _)
    have e3 : skipWs K (w2 ++ ':' :: rest) = ':' :: rest :=
      skipWs_app w2 (':' :: rest) hw2 (special_head_not_ws hK (by simp [specials]) (by decide) _)
    have h3 : v.isEmpty = false := by cases v with | nil => exact absurd rfl hv.1 | cons _ _ => rfl
    unfold collectVarDom
    rw [e1]
    cases pd <;> simp [expect, e2, h3, e3, domPart]
  | dom w1 w2 w3 w4 v dn hw1 hw2 hw3 hw4 hv hd =>
    have e1 : skipWs K (w1 ++ '{' :: (v ++ '}' :: (w2 ++ 'i' :: 'n' :: (w3 ++ '%' :: (dn ++ '%' :: (w4 ++ [':']))))) ++ rest)
        = '{' :: (v ++ '}' :: (w2 ++ 'i' :: 'n' :: (w3 ++ '%' :: (dn ++ '%' :: (w4 ++ ':' :: rest))))) := by
      have := skipWs_app w1 ('{' :: (v ++ '}' :: (w2 ++ 'i' :: 'n' :: (w3 ++ '%' :: (dn ++ '%' :: (w4 ++ ':' :: rest))))))
        hw1 (special_head_not_ws hK (by simp [specials]) (by decide) _)
      simpa using this
    have e2 := collectName_app v ('}' :: (w2 ++ 'i' :: 'n' :: (w3 ++ '%' :: (dn ++ '%' :: (w4 ++ ':' :: rest))))) hv.2
      (sep_special hK (by simp [specials]) _)
    have e3 : skipWs K (w2 ++ 'i' :: 'n' :: (w3 ++ '%' :: (dn ++ '%' :: (w4 ++ ':' :: rest))))
        = 'i' :: 'n' :: (w3 ++ '%' :: (dn ++ '%' :: (w4 ++ ':' :: rest))) :=
      skipWs_app w2 _ hw2 (by intro x hx; simp at hx; subst hx; exact hi)
    have e4 : skipWs K (w3 ++ '%' :: (dn ++ '%' :: (w4 ++ ':' :: rest))) = '%' :: (dn ++ '%' :: (w4 ++ ':' :: rest)) :=
      skipWs_app w3 _ hw3 (special_head_not_ws hK (by simp [specials]) (by decide) _)
    have e5 := collectName_app dn ('%' :: (w4 ++ ':' :: rest)) hd.2 (sep_special hK (by simp [specials]) _)
    have e6 : skipWs K (w4 ++ ':' :: rest) = ':' :: rest :=
      skipWs_app w4 _ hw4 (special_head_not_ws hK (by simp [specials]) (by decide) _)
    have h3 : v.isEmpty = false := by cases v with | nil => exact absurd rfl hv.1 | cons _ _ => rfl
    have h3' : dn.isEmpty = false := by cases dn with | nil => exact absurd rfl hd.1 | cons _ _ => rfl
    unfold collectVarDom
    rw [e1]
    simp [expect, e2, h3, e3, domPart, e4, e5, h3', e6]

omit hK in
theorem domPart_sound {cs4 : List Char} {dom : Option Name} {cs10 : List Char} (h : domPart K cs4 = some (dom, cs10)) :
    (dom = none ∧ cs10 = cs4) ∨
    (∃ w3 dn w4, dom = some dn ∧ cs4 = 'i' :: 'n' :: (w3 ++ '%' :: (dn ++ '%' :: (w4 ++ cs10))) ∧
      AllWs K w3 ∧ AllWs K w4 ∧ ValidId K dn) := by
  unfold domPart at h
  split at h
  · rename_i cs5
    right
    cases h1 : expect 'n' cs5 with
    | none => simp [h1] at h
    | some cs6 =>
      simp only [h1] at h
      cases h2 : expect '%' (skipWs K cs6) with
      | none => simp [h2] at h
      | some cs7 =>
        simp only [h2] at h
        have s7 := collectName_split K cs7
        cases hcn : collectName K cs7 with
        | mk dn sn =>
        rw [hcn] at s7 h
        simp only at s7 h
        by_cases hde : dn.isEmpty = true
        · simp [hde] at h
        · simp only [hde] at h
          cases h3 : expect '%' sn with
          | none => simp [h3] at h
          | some cs9 =>
            simp [h3] at h
            obtain ⟨hd, hc⟩ := h
            obtain ⟨w3, hw3, e3, _⟩ := skipWs_split (K := K) cs6
            obtain ⟨w4, hw4, e4, _⟩ := skipWs_split (K := K) cs9
            refine ⟨w3, dn, w4, hd.symm, ?_, hw3, hw4, ⟨by simpa using hde, s7.2.1⟩⟩
            rw [expect_some h1, e3, expect_some h2, s7.1, expect_some h3, e4, hc]
  · left
    simp at h
    exact ⟨h.1.symm, h.2.symm⟩

omit hK in
/-- … and only those -/
theorem cvd_sound {pd : Bool} {cs : List Char} {v : Name} {d : Option Name} {rest : List Char}
    (h : collectVarDom K pd cs = some (v, d, rest)) : ∃ seg, cs = seg ++ rest ∧ Seg K pd seg v d := by
  unfold collectVarDom at h
  obtain ⟨w1, hw1, e1, _⟩ := skipWs_split (K := K) cs
  cases h1 : expect '{' (skipWs K cs) with
  | none => simp [h1] at h
  | some cs1 =>
    simp only [h1] at h
    have s1 := collectName_split K cs1
    by_cases hne : (collectName K cs1).fst.isEmpty = true
    · simp [hne] at h
    · simp only [hne] at h
      cases h3 : expect '}' (collectName K cs1).snd with
      | none => simp [h3] at h
      | some cs3 =>
        simp only [h3, Bool.false_eq_true, if_false] at h
        obtain ⟨w2, hw2, e2, _⟩ := skipWs_split (K := K) cs3
        have hv : ValidId K (collectName K cs1).fst := ⟨by simpa using hne, s1.2.1⟩
        cases hdp : (if pd = true then domPart K (skipWs K cs3) else some (none, skipWs K cs3)) with
        | none => simp [hdp] at h
        | some p =>
          obtain ⟨dom, cs10⟩ := p
          simp only [hdp] at h
          cases h4 : expect ':' cs10 with
          | none => simp [h4] at h
          | some cs11 =>
            simp only [h4, Option.some.injEq, Prod.mk.injEq] at h
            obtain ⟨rfl, rfl, rfl⟩ := h
            have hcs : cs = w1 ++ '{' :: ((collectName K cs1).fst ++ '}' :: (w2 ++ skipWs K cs3)) := by
              rw [e1, expect_some h1]
              conv => lhs; rw [s1.1, expect_some h3, e2]
            have hplain : dom = none → cs10 = skipWs K cs3 →
                ∃ seg, cs = seg ++ cs11 ∧ Seg K pd seg (collectName K cs1).fst dom := by
              intro hd hc
              subst hd
              refine ⟨_, ?_, Seg.plain pd w1 w2 _ hw1 hw2 hv⟩
              rw [hcs, ← hc, expect_some h4]
              simp
            cases pd with
            | false =>
              simp only [Bool.false_eq_true, if_false, Option.some.injEq, Prod.mk.injEq] at hdp
              exact hplain hdp.1.symm hdp.2.symm
            | true =>
              simp only [if_true] at hdp
              rcases domPart_sound hdp with ⟨hd, hc⟩ | ⟨w3, dn, w4, hd, hc4, hw3, hw4, hdn⟩
              · exact hplain hd hc
              · subst hd
                refine ⟨_, ?_, Seg.dom w1 w2 w3 w4 _ dn hw1 hw2 hw3 hw4 hv hdn⟩
                rw [hcs, hc4, expect_some h4]
                simp

omit hK in
theorem sep_append {cs rest : List Char} (h1 : Sep K cs) (h2 : Sep K rest) : Sep K (cs ++ rest) := by
  cases cs with
  | nil => simpa using h2
  | cons c cs => intro x hx; exact h1 x (by simpa using hx)

omit hK in
theorem nextIsName_false_iff (cs : List Char) : nextIsName K cs = false ↔ Sep K cs := by
  cases cs with
  | nil => simp [nextIsName, Sep]
  | cons c cs => simp [nextIsName, Sep]

theorem seg_sep {pd : Bool} {seg : List Char} {v : Name} {d : Option Name} (h : Seg K pd seg v d) (rest : List Char) :
    Sep K (seg ++ rest) := by
  have key : ∀ (w1 tail : List Char), AllWs K w1 → Sep K (w1 ++ '{' :: tail) := by
    intro w1 tail hw
    cases w1 with
    | nil => exact sep_special hK (by simp [specials]) _
    | cons c w => intro x hx; simp at hx; subst hx; exact hK.ws_not_name _ (hw _ (by simp))
  cases h with
  | plain pd w1 w2 v hw1 _ _ => simpa using key w1 _ hw1
  | dom w1 w2 w3 w4 v dn hw1 _ _ _ _ _ => simpa using key w1 _ hw1

/-- SPECIFICATION OF THE TOKENIZER: which texts spell which token lists (one group level; `(`…`)` nests).  White
space may precede every token; hybrid operators have a short and a long spelling; names are maximal runs of name
characters that are not spelled like an operator. -/
inductive Sp (K : CharClass) (ext : Bool) : List Char → List Tok → Prop
  | nil : Sp K ext [] []
  | ws (c : Char) (cs : List Char) (ts : List Tok) : K.isWs c = true → Sp K ext cs ts → Sp K ext (c :: cs) ts
  | not (cs : List Char) (ts : List Tok) : Sp K ext cs ts → Sp K ext ('~' :: cs) (.un .not :: ts)
  | binsym (o : BinOp) (cs : List Char) (ts : List Tok) : (o = .and ∨ o = .or ∨ o = .xor ∨ o = .imp ∨ o = .iff) →
      Sp K ext cs ts → Sp K ext (o.str ++ cs) (.bin o :: ts)
  | temp (a b : Char) (t : Tok) (cs : List Char) (ts : List Tok) : tempUn a b = some t → Sep K cs →
      Sp K ext cs ts → Sp K ext (a :: b :: cs) (t :: ts)
  | hybShort (o : HybOp) (seg : List Char) (v : Name) (d : Option Name) (cs : List Char) (ts : List Tok) :
      Seg K (if o = .jump then false else ext) seg v d → Sp K ext cs ts →
      Sp K ext (o.str ++ (seg ++ cs)) (.hyb o v d :: ts)
  | hybLong (o : HybOp) (nm seg : List Char) (v : Name) (d : Option Name) (cs : List Char) (ts : List Tok) :
      hybOfLong nm = some o → Seg K (if o = .jump then false else ext) seg v d → Sp K ext cs ts →
      Sp K ext ('\\' :: (nm ++ (seg ++ cs))) (.hyb o v d :: ts)
  | group (inner : List Char) (tsi : List Tok) (cs : List Char) (ts : List Tok) : Sp K ext inner tsi → Sp K ext cs ts →
      Sp K ext ('(' :: (inner ++ ')' :: cs)) (.group tsi :: ts)
  | var (v : Name) (cs : List Char) (ts : List Tok) : ValidId K v → Sp K ext cs ts →
      Sp K ext ('{' :: (v ++ '}' :: cs)) (.atom (.var v) :: ts)
  | wild (v : Name) (cs : List Char) (ts : List Tok) : ext = true → ValidId K v → Sp K ext cs ts →
      Sp K ext ('%' :: (v ++ '%' :: cs)) (.atom (.wild v) :: ts)
  | name (n : Name) (cs : List Char) (ts : List Tok) : ValidName K n → Sep K cs → Sp K ext cs ts →
      Sp K ext (n ++ cs) (.atom (.prop n) :: ts)

omit hK in
theorem lex_wsc (ext : Bool) (c : Char) (hc : K.isWs c = true) (n : Nat) (top : Bool) (cs : List Char) :
    lexRec K ext (n + 1) top (c :: cs) = lexRec K ext n top cs := by
  simp [lexRec, hc]

theorem lex_temp' (ext : Bool) (a b : Char) (t : Tok) (ht : tempUn a b = some t) (cs : List Char) (hs : Sep K cs)
    (n : Nat) (top : Bool) : lexRec K ext (n + 1) top (a :: b :: cs) = cons t (lexRec K ext n top cs) := by
  cases cs with
  | cons c3 cs => exact lex_temp hK ext a b c3 t ht (hs c3 rfl) n top cs
  | nil =>
    have hE : K.isWs 'E' = false := name_not_ws hK (letter_name hK (by simp))
    have hA : K.isWs 'A' = false := name_not_ws hK (letter_name hK (by simp))
    unfold tempUn at ht
    split at ht <;> first
      | (cases ht; simp [lexRec, hE, hA, isTempOp, tempUn])
      | cases ht

/-- the segment of a hybrid operator, generally -/
theorem lex_hybShort (ext : Bool) (o : HybOp) (seg : List Char) (v : Name) (d : Option Name)
    (hs : Seg K (if o = .jump then false else ext) seg v d) (n : Nat) (top : Bool) (rest : List Char) :
    lexRec K ext (n + 1) top (o.str ++ (seg ++ rest)) = cons (.hyb o v d) (lexRec K ext n top rest) := by
  have h1 : K.isWs '!' = false := hK.special_not_ws _ (by simp [specials]) (by decide)
  have h2 : K.isWs '@' = false := hK.special_not_ws _ (by simp [specials]) (by decide)
  have h3 : K.isWs '3' = false := name_not_ws hK (letter_name hK (by simp))
  have h4 : K.isWs 'V' = false := name_not_ws hK (letter_name hK (by simp))
  have hn : nextIsName K (seg ++ rest) = false := (nextIsName_false_iff _).mpr (seg_sep hK hs rest)
  have hc := cvd_complete hK hs rest
  cases o <;> simp at hc <;> simp [HybOp.str, lexRec, h1, h2, h3, h4, isTempOp, hn, hc]

omit hK in
theorem hybOfLong_cases {nm : Name} {o : HybOp} (h : hybOfLong nm = some o) :
    nm = ['e','x','i','s','t','s'] ∨ nm = ['f','o','r','a','l','l'] ∨ nm = ['b','i','n','d'] ∨ nm = ['j','u','m','p'] := by
  unfold hybOfLong at h
  split at h
  · rename_i h1; left; simpa using h1
  · split at h
    · rename_i h1; right; left; simpa using h1
    · split at h
      · rename_i h1; right; right; left; simpa using h1
      · split at h
        · rename_i h1; right; right; right; simpa using h1
        · cases h

theorem lex_hybLong (ext : Bool) (o : HybOp) (nm seg : List Char) (v : Name) (d : Option Name)
    (ho : hybOfLong nm = some o) (hs : Seg K (if o = .jump then false else ext) seg v d) (n : Nat) (top : Bool)
    (rest : List Char) :
    lexRec K ext (n + 1) top ('\\' :: (nm ++ (seg ++ rest))) = cons (.hyb o v d) (lexRec K ext n top rest) := by
  have h1 : K.isWs '\\' = false := hK.special_not_ws _ (by simp [specials]) (by decide)
  have hnm : ∀ c ∈ nm, isName K c = true := by
    intro c hc
    apply letter_name hK
    rcases hybOfLong_cases ho with rfl | rfl | rfl | rfl <;> (simp at hc ⊢; rcases hc with rfl | rfl | rfl | rfl | rfl | rfl <;> simp)
  have hcn := collectName_app nm (seg ++ rest) hnm (seg_sep hK hs rest)
  have hc := cvd_complete hK hs rest
  cases o <;> simp at hc <;> simp [lexRec, h1, isTempOp, hcn, ho, hc]

/-- COMPLETENESS: the tokenizer accepts every spelling of the specification, with exactly the specified tokens -/
theorem lex_complete_rec (ext : Bool) : ∀ (text : List Char) (toks : List Tok), Sp K ext text toks →
    ∀ (n N : Nat) (top : Bool) (rest rem : List Char) (ts : List Tok), Sep K rest →
      lexRec K ext n top rest = .ok (ts, rem) → n + text.length ≤ N →
      lexRec K ext N top (text ++ rest) = .ok (toks ++ ts, rem) := by
  intro text toks h
  induction h with
  | nil =>
    intro n N top rest rem ts _ h hN
    simpa using lexRec_mono_le ext (by simpa using hN) h
  | ws c cs ts' hc _ ih =>
    intro n N top rest rem ts hs h hN
    obtain ⟨M, rfl⟩ : ∃ M, N = M + 1 := ⟨N - 1, by simp at hN; omega⟩
    simp only [List.cons_append]
    rw [lex_wsc ext c hc]
    exact ih n M top rest rem ts hs h (by simp at hN; omega)
  | not cs ts' _ ih =>
    intro n N top rest rem ts hs h hN
    obtain ⟨M, rfl⟩ : ∃ M, N = M + 1 := ⟨N - 1, by simp at hN; omega⟩
    simp only [List.cons_append]
    rw [lex_not hK ext, ih n M top rest rem ts hs h (by simp at hN; omega)]
    rfl
  | binsym o cs ts' ho _ ih =>
    intro n N top rest rem ts hs h hN
    have hl : 1 ≤ o.str.length := by rcases ho with rfl | rfl | rfl | rfl | rfl <;> simp [BinOp.str]
    obtain ⟨M, rfl⟩ : ∃ M, N = M + 1 := ⟨N - 1, by simp at hN; omega⟩
    rw [List.append_assoc, lex_binsym hK ext o ho, ih n M top rest rem ts hs h (by simp at hN; omega)]
    rfl
  | temp a b t cs ts' ht hsep _ ih =>
    intro n N top rest rem ts hs h hN
    obtain ⟨M, rfl⟩ : ∃ M, N = M + 1 := ⟨N - 1, by simp at hN; omega⟩
    simp only [List.cons_append]
    rw [lex_temp' hK ext a b t ht (cs ++ rest) (sep_append hsep hs), ih n M top rest rem ts hs h (by simp at hN; omega)]
    rfl
  | hybShort o seg v d cs ts' hseg _ ih =>
    intro n N top rest rem ts hs h hN
    have hl : o.str.length = 1 := by cases o <;> rfl
    obtain ⟨M, rfl⟩ : ∃ M, N = M + 1 := ⟨N - 1, by simp at hN; omega⟩
    have : o.str ++ (seg ++ cs) ++ rest = o.str ++ (seg ++ (cs ++ rest)) := by simp
    rw [this, lex_hybShort hK ext o seg v d hseg, ih n M top rest rem ts hs h (by simp at hN; omega)]
    rfl
  | hybLong o nm seg v d cs ts' ho hseg _ ih =>
    intro n N top rest rem ts hs h hN
    obtain ⟨M, rfl⟩ : ∃ M, N = M + 1 := ⟨N - 1, by simp at hN; omega⟩
    have : '\\' :: (nm ++ (seg ++ cs)) ++ rest = '\\' :: (nm ++ (seg ++ (cs ++ rest))) := by simp
    rw [this, lex_hybLong hK ext o nm seg v d ho hseg, ih n M top rest rem ts hs h (by simp at hN; omega)]
    rfl
  | group inner tsi cs ts' _ _ ihi ihc =>
    intro n N top rest rem ts hs h hN
    have e0 : lexRec K ext 1 false (')' :: (cs ++ rest)) = .ok ([], cs ++ rest) := lex_close hK ext 0 _
    have e1 := ihi 1 (1 + inner.length) false (')' :: (cs ++ rest)) (cs ++ rest) [] (sep_special hK (by simp [specials]) _) e0
      (Nat.le_refl _)
    have e2 := ihc n (n + cs.length) top rest rem ts hs h (Nat.le_refl _)
    simp only [List.append_nil] at e1
    have : '(' :: (inner ++ ')' :: cs) ++ rest = '(' :: (inner ++ ')' :: (cs ++ rest)) := by simp
    rw [this]
    exact lex_group hK ext (n + cs.length) N top _ (cs ++ rest) rem tsi (ts' ++ ts) _ e1 e2 (by simp at hN; omega) (by simp at hN; omega)
  | var v cs ts' hv _ ih =>
    intro n N top rest rem ts hs h hN
    obtain ⟨M, rfl⟩ : ∃ M, N = M + 1 := ⟨N - 1, by simp at hN; omega⟩
    have : '{' :: (v ++ '}' :: cs) ++ rest = '{' :: (v ++ '}' :: (cs ++ rest)) := by simp
    rw [this, lex_var hK ext v hv, ih n M top rest rem ts hs h (by simp at hN; omega)]
    rfl
  | wild v cs ts' he hv _ ih =>
    intro n N top rest rem ts hs h hN
    subst he
    obtain ⟨M, rfl⟩ : ∃ M, N = M + 1 := ⟨N - 1, by simp at hN; omega⟩
    have : '%' :: (v ++ '%' :: cs) ++ rest = '%' :: (v ++ '%' :: (cs ++ rest)) := by simp
    rw [this, lex_wild hK v hv, ih n M top rest rem ts hs h (by simp at hN; omega)]
    rfl
  | name nm cs ts' hv hsep _ ih =>
    intro n N top rest rem ts hs h hN
    have hl : 1 ≤ nm.length := by
      cases nm with
      | nil => exact absurd rfl hv.1.1
      | cons _ _ => simp
    obtain ⟨M, rfl⟩ : ∃ M, N = M + 1 := ⟨N - 1, by simp at hN; omega⟩
    rw [List.append_assoc, lex_name hK ext nm hv M top (cs ++ rest) (sep_append hsep hs),
      ih n M top rest rem ts hs h (by simp at hN; omega)]
    rfl

theorem lex_complete (ext : Bool) (cs : List Char) (toks : List Tok) (h : Sp K ext cs toks) :
    tokenize K ext cs = .ok toks := by
  have h0 : lexRec K ext 1 true [] = .ok ([], []) := by simp [lexRec]
  have := lex_complete_rec hK ext cs toks h 1 (cs.length + 1) true [] [] [] sep_nil h0 (by omega)
  simp only [List.append_nil] at this
  simp [tokenize, this]

/-- what follows the text of a group: nothing at top level, the closing parenthesis and the rest otherwise -/
def tailOf (top : Bool) (rest : List Char) : List Char := if top then [] else ')' :: rest

omit hK in
theorem sep_left {a b : List Char} (h : Sep K (a ++ b)) : Sep K a := by
  cases a with
  | nil => exact sep_nil
  | cons c a => intro x hx; exact h x (by simpa using hx)

/-- SOUNDNESS: whatever the tokenizer accepts is a spelling of the specification -/
theorem lex_sound_rec (ext : Bool) : ∀ (n : Nat) (top : Bool) (cs : List Char) (ts : List Tok) (rest : List Char),
    lexRec K ext n top cs = .ok (ts, rest) →
    ∃ text, Sp K ext text ts ∧ cs = text ++ tailOf top rest ∧ (top = true → rest = []) := by
  intro n
  induction n with
  | zero => intro top cs ts rest h; simp [lexRec] at h
  | succ n ih =>
    intro top cs ts rest h
    cases cs with
    | nil =>
      simp only [lexRec] at h
      split at h
      · rename_i ht
        cases h
        exact ⟨[], Sp.nil, by simp [tailOf, ht], fun _ => rfl⟩
      · cases h
    | cons c cs =>
      have key : ∀ (pre : List Char) (t : Tok) (cs' : List Char), c :: cs = pre ++ cs' →
          cons t (lexRec K ext n top cs') = .ok (ts, rest) →
          (∀ text' ts', cs' = text' ++ tailOf top rest → Sp K ext text' ts' → Sp K ext (pre ++ text') (t :: ts')) →
          ∃ text, Sp K ext text ts ∧ c :: cs = text ++ tailOf top rest ∧ (top = true → rest = []) := by
        intro pre t cs' hpre hc hrule
        obtain ⟨ts', rest', hx, heq⟩ := cons_ok hc
        simp only [Prod.mk.injEq] at heq
        obtain ⟨hts, hrest⟩ := heq
        subst hts
        subst hrest
        obtain ⟨text', hsp, hcs', hr⟩ := ih top cs' ts' rest hx
        exact ⟨pre ++ text', hrule text' ts' hcs' hsp, by rw [hpre, hcs']; simp, hr⟩
      have hyb : ∀ (o : HybOp) (pd : Bool) (pre0 : List Char) (cs0 : List Char), c :: cs = pre0 ++ cs0 →
          pd = (if o = .jump then false else ext) →
          (∀ seg v d text' ts', Seg K pd seg v d → Sp K ext text' ts' → Sp K ext (pre0 ++ (seg ++ text')) (.hyb o v d :: ts')) →
          (match collectVarDom K pd cs0 with
            | some (v, d, rest') => cons (Tok.hyb o v d) (lexRec K ext n top rest')
            | none => Except.error LErr.lex) = .ok (ts, rest) →
          ∃ text, Sp K ext text ts ∧ c :: cs = text ++ tailOf top rest ∧ (top = true → rest = []) := by
        intro o pd pre0 cs0 hpre hpd hrule hm
        cases hc : collectVarDom K pd cs0 with
        | none => simp [hc] at hm
        | some p =>
          obtain ⟨v, d, rest'⟩ := p
          simp only [hc] at hm
          obtain ⟨seg, hseg, hS⟩ := cvd_sound hc
          refine key (pre0 ++ seg) _ rest' (by rw [hpre, hseg]; simp) hm ?_
          intro text' ts' _ hsp
          simpa using hrule seg v d text' ts' hS hsp
      simp only [lexRec] at h
      by_cases h1 : K.isWs c = true
      · rw [if_pos h1] at h
        obtain ⟨text', hsp, hcs', hr⟩ := ih top cs ts rest h
        exact ⟨c :: text', Sp.ws c text' ts h1 hsp, by rw [hcs']; simp, hr⟩
      rw [if_neg h1] at h
      by_cases h2 : c = '~'
      · rw [if_pos h2] at h; subst h2
        exact key ['~'] _ cs rfl h (fun text' ts' _ hs => Sp.not text' ts' hs)
      rw [if_neg h2] at h
      by_cases h3 : c = '&'
      · rw [if_pos h3] at h; subst h3
        exact key ['&'] _ cs rfl h (fun text' ts' _ hs => Sp.binsym .and text' ts' (Or.inl rfl) hs)
      rw [if_neg h3] at h
      by_cases h4 : c = '|'
      · rw [if_pos h4] at h; subst h4
        exact key ['|'] _ cs rfl h (fun text' ts' _ hs => Sp.binsym .or text' ts' (Or.inr (Or.inl rfl)) hs)
      rw [if_neg h4] at h
      by_cases h5 : c = '^'
      · rw [if_pos h5] at h; subst h5
        exact key ['^'] _ cs rfl h (fun text' ts' _ hs => Sp.binsym .xor text' ts' (Or.inr (Or.inr (Or.inl rfl))) hs)
      rw [if_neg h5] at h
      by_cases h6 : c = '='
      · rw [if_pos h6] at h; subst h6
        split at h
        · rename_i cs''
          exact key ['=', '>'] _ cs'' rfl h
            (fun text' ts' _ hs => Sp.binsym .imp text' ts' (Or.inr (Or.inr (Or.inr (Or.inl rfl)))) hs)
        · simp at h
      rw [if_neg h6] at h
      by_cases h7 : c = '<'
      · rw [if_pos h7] at h; subst h7
        split at h
        · rename_i cs''
          exact key ['<', '=', '>'] _ cs'' rfl h
            (fun text' ts' _ hs => Sp.binsym .iff text' ts' (Or.inr (Or.inr (Or.inr (Or.inr rfl)))) hs)
        · simp at h
      rw [if_neg h7] at h
      by_cases h8 : c = '>'
      · rw [if_pos h8] at h; simp at h
      rw [if_neg h8] at h
      by_cases h9 : ((decide (c = 'E') || decide (c = 'A')) && isTempOp cs.head?) = true
      · rw [if_pos h9] at h
        cases cs with
        | nil => simp at h
        | cons c2 cs' =>
          cases cs' with
          | nil =>
            simp only at h
            split at h
            · rename_i t ht
              refine key [c, c2] t [] rfl h ?_
              intro text' ts' he hs
              have : text' = [] := by
                cases text' with
                | nil => rfl
                | cons _ _ => simp at he
              subst this
              exact Sp.temp c c2 t [] ts' ht sep_nil hs
            · simp at h
          | cons c3 tl =>
            simp only at h
            by_cases hn : isName K c3 = true
            · rw [if_pos hn] at h
              have hsplit := collectName_split K (c3 :: tl)
              refine key ([c, c2] ++ (collectName K (c3 :: tl)).fst) _ (collectName K (c3 :: tl)).snd ?_ h ?_
              · simp only [List.cons_append, List.nil_append, List.cons.injEq, true_and]
                exact hsplit.1
              · intro text' ts' he hs
                exact Sp.name _ text' ts' (validName_long hK h9 hn) (sep_left (by rw [← he]; exact hsplit.2.2)) hs
            rw [if_neg hn] at h
            split at h
            · rename_i t ht
              refine key [c, c2] t (c3 :: tl) rfl h ?_
              intro text' ts' he hs
              have hsep : Sep K (c3 :: tl) := by
                intro x hx; simp at hx; subst hx; simpa using hn
              exact Sp.temp c c2 t text' ts' ht (sep_left (by rw [← he]; exact hsep)) hs
            · simp at h
      rw [if_neg h9] at h
      by_cases h10 : c = '!'
      · rw [if_pos h10] at h; subst h10
        exact hyb .bind ext ['!'] cs rfl (by simp) (fun seg v d text' ts' hS hs => by
          have := Sp.hybShort (K := K) (ext := ext) .bind seg v d text' ts' (by simpa using hS) hs
          simpa [HybOp.str] using this) h
      rw [if_neg h10] at h
      by_cases h11 : (decide (c = '3') && !nextIsName K cs) = true
      · rw [if_pos h11] at h
        have hc : c = '3' := by simp at h11; exact h11.1
        subst hc
        exact hyb .ex ext ['3'] cs rfl (by simp) (fun seg v d text' ts' hS hs => by
          have := Sp.hybShort (K := K) (ext := ext) .ex seg v d text' ts' (by simpa using hS) hs
          simpa [HybOp.str] using this) h
      rw [if_neg h11] at h
      by_cases h12 : (decide (c = 'V') && !nextIsName K cs) = true
      · rw [if_pos h12] at h
        have hc : c = 'V' := by simp at h12; exact h12.1
        subst hc
        exact hyb .all ext ['V'] cs rfl (by simp) (fun seg v d text' ts' hS hs => by
          have := Sp.hybShort (K := K) (ext := ext) .all seg v d text' ts' (by simpa using hS) hs
          simpa [HybOp.str] using this) h
      rw [if_neg h12] at h
      by_cases h13 : c = '@'
      · rw [if_pos h13] at h; subst h13
        exact hyb .jump false ['@'] cs rfl (by simp) (fun seg v d text' ts' hS hs => by
          have := Sp.hybShort (K := K) (ext := ext) .jump seg v d text' ts' (by simpa using hS) hs
          simpa [HybOp.str] using this) h
      rw [if_neg h13] at h
      by_cases h14 : c = '\\'
      · rw [if_pos h14] at h; subst h14
        have hsplit := collectName_split K cs
        cases ho : hybOfLong (collectName K cs).fst with
        | none => simp [ho] at h
        | some o =>
          have hpre : '\\' :: cs = ('\\' :: (collectName K cs).fst) ++ (collectName K cs).snd := by
            simp only [List.cons_append, List.cons.injEq, true_and]; exact hsplit.1
          have hrule : ∀ seg v d text' ts', Seg K (if o = .jump then false else ext) seg v d → Sp K ext text' ts' →
              Sp K ext (('\\' :: (collectName K cs).fst) ++ (seg ++ text')) (.hyb o v d :: ts') := by
            intro seg v d text' ts' hS hs
            have := Sp.hybLong (K := K) (ext := ext) o _ seg v d text' ts' ho hS hs
            simpa using this
          cases o with
          | jump => simp only [ho] at h; exact hyb .jump false _ _ hpre (by simp) (by simpa using hrule) h
          | bind => simp only [ho] at h; exact hyb .bind ext _ _ hpre (by simp) (by simpa using hrule) h
          | ex => simp only [ho] at h; exact hyb .ex ext _ _ hpre (by simp) (by simpa using hrule) h
          | all => simp only [ho] at h; exact hyb .all ext _ _ hpre (by simp) (by simpa using hrule) h
      rw [if_neg h14] at h
      by_cases h15 : c = ')'
      · rw [if_pos h15] at h; subst h15
        split at h
        · rename_i ht
          simp only [Except.ok.injEq, Prod.mk.injEq] at h
          obtain ⟨rfl, rfl⟩ := h
          have : top = false := by simpa using ht
          subst this
          exact ⟨[], Sp.nil, by simp [tailOf], fun hh => by cases hh⟩
        · cases h
      rw [if_neg h15] at h
      by_cases h16 : c = '('
      · rw [if_pos h16] at h; subst h16
        cases hg : lexRec K ext n false cs with
        | error e => simp [hg] at h
        | ok p =>
          obtain ⟨grp, rest1⟩ := p
          simp only [hg] at h
          obtain ⟨inner, hspi, hcsi, _⟩ := ih false cs grp rest1 hg
          simp only [tailOf, Bool.false_eq_true, if_false] at hcsi
          refine key ('(' :: (inner ++ [')'])) _ rest1 (by rw [hcsi]; simp) h ?_
          intro text' ts' _ hs
          have := Sp.group (K := K) (ext := ext) inner grp text' ts' hspi hs
          simpa using this
      rw [if_neg h16] at h
      by_cases h17 : c = '{'
      · rw [if_pos h17] at h; subst h17
        by_cases he : (collectName K cs).fst.isEmpty = true
        · rw [if_pos he] at h; simp at h
        rw [if_neg he] at h
        have hsplit := collectName_split K cs
        cases hx : expect '}' (collectName K cs).snd with
        | none => simp [hx] at h
        | some rest' =>
          simp only [hx] at h
          refine key ('{' :: ((collectName K cs).fst ++ ['}'])) _ rest' ?_ h ?_
          · simp only [List.cons_append, List.append_assoc, List.cons.injEq, true_and, List.nil_append]
            conv => lhs; rw [hsplit.1, expect_some hx]
          · intro text' ts' _ hs
            have := Sp.var (K := K) (ext := ext) (collectName K cs).fst text' ts' ⟨by simpa using he, hsplit.2.1⟩ hs
            simpa using this
      rw [if_neg h17] at h
      by_cases h18 : (decide (c = '%') && ext) = true
      · rw [if_pos h18] at h
        have hc : c = '%' ∧ ext = true := by simpa using h18
        obtain ⟨rfl, hext⟩ := hc
        by_cases he : (collectName K cs).fst.isEmpty = true
        · rw [if_pos he] at h; simp at h
        rw [if_neg he] at h
        have hsplit := collectName_split K cs
        cases hx : expect '%' (collectName K cs).snd with
        | none => simp [hx] at h
        | some rest' =>
          simp only [hx] at h
          refine key ('%' :: ((collectName K cs).fst ++ ['%'])) _ rest' ?_ h ?_
          · simp only [List.cons_append, List.append_assoc, List.cons.injEq, true_and, List.nil_append]
            conv => lhs; rw [hsplit.1, expect_some hx]
          · intro text' ts' _ hs
            have := Sp.wild (K := K) (ext := ext) (collectName K cs).fst text' ts' hext ⟨by simpa using he, hsplit.2.1⟩ hs
            simpa using this
      rw [if_neg h18] at h
      by_cases h19 : isName K c = true
      · rw [if_pos h19] at h
        have hsplit := collectName_split K cs
        refine key ([c] ++ (collectName K cs).fst) _ (collectName K cs).snd ?_ h ?_
        · simp only [List.cons_append, List.nil_append, List.cons.injEq, true_and]; exact hsplit.1
        · intro text' ts' he hs
          exact Sp.name _ text' ts' (validName_short hK h9 h11 h12 h19) (sep_left (by rw [← he]; exact hsplit.2.2)) hs
      rw [if_neg h19] at h; simp at h

/-- THE TOKENIZER MEETS ITS SPECIFICATION: a text is tokenized to `toks` exactly when it spells `toks` -/
theorem tokenize_iff_spells (ext : Bool) (cs : List Char) (toks : List Tok) :
    tokenize K ext cs = .ok toks ↔ Sp K ext cs toks := by
  constructor
  · intro h
    unfold tokenize at h
    cases hl : lexRec K ext (cs.length + 1) true cs with
    | error e => simp [hl] at h
    | ok r =>
      obtain ⟨ts, rest⟩ := r
      simp only [hl] at h
      cases h
      obtain ⟨text, hsp, hcs, _⟩ := lex_sound_rec hK ext _ _ _ _ _ hl
      simp only [tailOf, if_true, List.append_nil] at hcs
      rw [hcs]; exact hsp
  · exact lex_complete hK ext cs toks

end Lex
end Hctl

namespace Hctl
namespace Lex
variable {K : CharClass}

theorem allWs_sp (ext : Bool) (w : List Char) (hw : AllWs K w) {b : List Char} {ts : List Tok} (h : Sp K ext b ts) :
    Sp K ext (w ++ b) ts := by
  induction w with
  | nil => simpa using h
  | cons c w ih => exact Sp.ws c (w ++ b) ts (hw c (by simp)) (ih (fun x hx => hw x (by simp [hx])))

/-- concatenation of two spellings at a token boundary -/
theorem Sp.append {ext : Bool} {a b : List Char} {t1 t2 : List Tok} (ha : Sp K ext a t1) (hb : Sp K ext b t2)
    (hs : Sep K b) : Sp K ext (a ++ b) (t1 ++ t2) := by
  induction ha with
  | nil => simpa using hb
  | ws c cs ts hc _ ih => exact Sp.ws c _ _ hc ih
  | not cs ts _ ih => exact Sp.not _ _ ih
  | binsym o cs ts ho _ ih => rw [List.append_assoc]; exact Sp.binsym o _ _ ho ih
  | temp x y t cs ts ht hsep _ ih => exact Sp.temp x y t _ _ ht (sep_append hsep hs) ih
  | hybShort o seg v d cs ts hseg _ ih =>
    have : o.str ++ (seg ++ cs) ++ b = o.str ++ (seg ++ (cs ++ b)) := by simp
    rw [this]; exact Sp.hybShort o seg v d _ _ hseg ih
  | hybLong o nm seg v d cs ts ho hseg _ ih =>
    have : '\\' :: (nm ++ (seg ++ cs)) ++ b = '\\' :: (nm ++ (seg ++ (cs ++ b))) := by simp
    rw [this]; exact Sp.hybLong o nm seg v d _ _ ho hseg ih
  | group inner tsi cs ts hi _ _ ih =>
    have : '(' :: (inner ++ ')' :: cs) ++ b = '(' :: (inner ++ ')' :: (cs ++ b)) := by simp
    rw [this]; exact Sp.group inner tsi _ _ hi ih
  | var v cs ts hv _ ih =>
    have : '{' :: (v ++ '}' :: cs) ++ b = '{' :: (v ++ '}' :: (cs ++ b)) := by simp
    rw [this]; exact Sp.var v _ _ hv ih
  | wild v cs ts he hv _ ih =>
    have : '%' :: (v ++ '%' :: cs) ++ b = '%' :: (v ++ '%' :: (cs ++ b)) := by simp
    rw [this]; exact Sp.wild v _ _ he hv ih
  | name n cs ts hv hsep _ ih => rw [List.append_assoc]; exact Sp.name n _ _ hv (sep_append hsep hs) ih

/-- EXTRA WHITE SPACE BETWEEN TOKENS: any amount of white space between two token texts leaves the tokens unchanged
(at least one white-space character is needed only where two names would otherwise merge) -/
theorem ws_between (hK : CharsOK K) {ext : Bool} {a b w : List Char} {t1 t2 : List Tok} (ha : Sp K ext a t1)
    (hb : Sp K ext b t2) (hw : AllWs K w) (hne : w ≠ [] ∨ Sep K b) : Sp K ext (a ++ (w ++ b)) (t1 ++ t2) := by
  apply Sp.append ha (allWs_sp ext w hw hb)
  cases w with
  | nil => rcases hne with h | h; exact absurd rfl h; simpa using h
  | cons c w => intro x hx; simp at hx; subst hx; exact hK.ws_not_name _ (hw _ (by simp))

end Lex
end Hctl
