/-
  C03 / C17: the numbers the tool reports for a formula never exceed those of the graph's unit set.
-/
import HctlProofs.Lemmas.CliModel
namespace Hctl.C17
open Hctl Kripke Cli

theorem length_filter_mono_mem {α : Type} (p q : α → Bool) :
    ∀ l : List α, (∀ a ∈ l, p a = true → q a = true) → (l.filter p).length ≤ (l.filter q).length := by
  intro l
  induction l with
  | nil => simp
  | cons a l ih =>
    intro h
    have ih' := ih (fun b hb => h b (List.mem_cons_of_mem _ hb))
    simp only [List.filter_cons]
    by_cases hp : p a = true
    · rw [if_pos hp, if_pos (h a (by simp) hp)]; simp only [List.length_cons]; omega
    · rw [if_neg hp]
      by_cases hq : q a = true
      · rw [if_pos hq]; simp only [List.length_cons]; omega
      · rw [if_neg hq]; exact ih'

theorem mem_allPairs (G : Graph) (sc : Nat × Nat) : sc ∈ allPairs G ↔ sc.1 < G.nS ∧ sc.2 < G.nC := by
  obtain ⟨s, c⟩ := sc
  simp [allPairs]

theorem zeros_mem_vals (G : Graph) (h : 0 < G.nS) : ∀ n, List.replicate n 0 ∈ G.vals n := by
  intro n
  rw [mem_vals]
  refine ⟨by simp, ?_⟩
  intro x hx
  rw [List.mem_replicate] at hx
  omega

theorem zeroPt_mem_points (G : Graph) (s c : Nat) (hs : s < G.nS) (hc : c < G.nC) : zeroPt G s c ∈ G.points := by
  simp only [Graph.points, List.mem_flatMap, List.mem_range, List.mem_map]
  exact ⟨s, hs, c, hc, List.replicate G.k 0, zeros_mem_vals G (by omega) _, rfl⟩

/-- counts are monotone for sets compared on the points of the graph only -/
theorem counts_mono_on (G : Graph) (r U : CSet) (h : ∀ p ∈ G.points, r p = true → U p = true) :
    (counts G r).1 ≤ (counts G U).1 ∧ (counts G r).2.1 ≤ (counts G U).2.1 ∧ (counts G r).2.2 ≤ (counts G U).2.2 := by
  refine ⟨?_, ?_, ?_⟩
  · refine length_filter_mono_mem _ _ _ (fun sc hsc hr => ?_)
    obtain ⟨h1, h2⟩ := (mem_allPairs G sc).mp hsc
    exact h _ (zeroPt_mem_points G _ _ h1 h2) hr
  · refine length_filter_mono_mem _ _ _ (fun c hc hr => ?_)
    simp only [List.any_eq_true, List.mem_range] at hr hc ⊢
    obtain ⟨s, hs, hr⟩ := hr
    exact ⟨s, hs, h _ (zeroPt_mem_points G _ _ hs hc) hr⟩
  · refine length_filter_mono_mem _ _ _ (fun s hs hr => ?_)
    simp only [List.any_eq_true, List.mem_range] at hr hs ⊢
    obtain ⟨c, hc, hr⟩ := hr
    exact ⟨c, hc, h _ (zeroPt_mem_points G _ _ hs hc) hr⟩

variable {net : Nat → Env} (hN : NetFamily net) {C : CharClass} (hC : Lex.CharsOK C)
  (hE : ∀ k, EnvOK (net k)) (hG : ∀ k, GraphWF (net k).G) (hA : ∀ k, C12.GraphAsync (net k).G)
include hN hC hE hG hA

/-- C03 for the tool: whatever the formula file and the context archive contain, the three numbers printed for every
formula are bounded by those of the unit set of the graph the tool built -/
theorem reported_counts_le (ext : Bool) (ctxSets : List (Name × CSet)) (hctx : ∀ e ∈ ctxSets, SetSC e.2) (text : List Char)
    (k : Nat) (trees : List Tree) (rs : List CSet) (h : analyse net C ext ctxSets text = .results k trees rs) :
    ∀ r ∈ rs, (counts (net k).G r).1 ≤ (counts (net k).G (net k).G.unit0).1 ∧
      (counts (net k).G r).2.1 ≤ (counts (net k).G (net k).G.unit0).2.1 ∧
      (counts (net k).G r).2.2 ≤ (counts (net k).G (net k).G.unit0).2.2 := by
  intro r hr
  rcases analyse_correct hN hC hE hG hA ext ctxSets hctx text with ⟨e, he⟩ | ⟨trees', rs', ps, ds, h1, _, _, hlen, hall⟩
  · rw [h] at he; cases he
  · rw [h] at h1
    simp only [Out.results.injEq] at h1
    obtain ⟨rfl, rfl, rfl⟩ := h1
    obtain ⟨i, hi, rfl⟩ := List.getElem_of_mem hr
    refine counts_mono_on _ _ _ (fun p hp hrp => ?_)
    have hp' : p ∈ (net (kOf trees)).pts := by rw [(hE _).pts_eq]; exact hp
    exact ((hall i (by omega) hi p hp').mp hrp).1

end Hctl.C17
