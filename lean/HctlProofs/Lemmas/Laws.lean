/-
  Logical laws of the (co)inductive characterisations: unfolding, monotonicity, reachability.
-/
import HctlProofs.Lemmas.Corollaries
namespace Hctl
open Kripke

variable {α : Type} {R : α → α → Prop}

theorem EUi_unfold (φ ψ : α → Prop) (s : α) :
    EUi R φ ψ s ↔ ψ s ∨ (φ s ∧ ∃ t, R s t ∧ EUi R φ ψ t) := by
  constructor
  · intro h
    cases h with
    | here h => exact Or.inl h
    | step hφ hR h => exact Or.inr ⟨hφ, _, hR, h⟩
  · rintro (h | ⟨hφ, t, hR, h⟩)
    · exact EUi.here h
    · exact EUi.step hφ hR h

theorem AUi_unfold (φ ψ : α → Prop) (s : α) :
    AUi R φ ψ s ↔ ψ s ∨ (φ s ∧ ∀ t, R s t → AUi R φ ψ t) := by
  constructor
  · intro h
    cases h with
    | here h => exact Or.inl h
    | step hφ h => exact Or.inr ⟨hφ, h⟩
  · rintro (h | ⟨hφ, h⟩)
    · exact AUi.here h
    · exact AUi.step hφ h

theorem EGc_unfold (φ : α → Prop) (s : α) :
    EGc R φ s ↔ φ s ∧ ∃ t, R s t ∧ EGc R φ t := by
  constructor
  · rintro ⟨X, hs, hX⟩
    obtain ⟨hφ, t, hR, ht⟩ := hX s hs
    exact ⟨hφ, t, hR, X, ht, hX⟩
  · rintro ⟨hφ, t, hR, X, ht, hX⟩
    refine ⟨fun x => x = s ∨ X x, Or.inl rfl, ?_⟩
    rintro x (rfl | hx)
    · exact ⟨hφ, t, hR, Or.inr ht⟩
    · obtain ⟨h1, y, h2, h3⟩ := hX x hx
      exact ⟨h1, y, h2, Or.inr h3⟩

theorem EUi.mono {φ φ' ψ ψ' : α → Prop} (hφ : ∀ x, φ x → φ' x) (hψ : ∀ x, ψ x → ψ' x) {s : α}
    (h : EUi R φ ψ s) : EUi R φ' ψ' s := by
  induction h with
  | here h => exact EUi.here (hψ _ h)
  | step h1 hR _ ih => exact EUi.step (hφ _ h1) hR ih

theorem AUi.mono {φ φ' ψ ψ' : α → Prop} (hφ : ∀ x, φ x → φ' x) (hψ : ∀ x, ψ x → ψ' x) {s : α}
    (h : AUi R φ ψ s) : AUi R φ' ψ' s := by
  induction h with
  | here h => exact AUi.here (hψ _ h)
  | step h1 _ ih => exact AUi.step (hφ _ h1) ih

theorem EGc.mono {φ φ' : α → Prop} (hφ : ∀ x, φ x → φ' x) {s : α} (h : EGc R φ s) : EGc R φ' s := by
  obtain ⟨X, hs, hX⟩ := h
  exact ⟨X, hs, fun x hx => ⟨hφ x (hX x hx).1, (hX x hx).2⟩⟩

/-- reflexive-transitive closure, staying inside φ before the last state -/
inductive StarIn (R : α → α → Prop) (φ : α → Prop) : α → α → Prop
  | refl (s) : StarIn R φ s s
  | step {s t u} : φ s → R s t → StarIn R φ t u → StarIn R φ s u

theorem EUi_iff_starIn (φ ψ : α → Prop) (s : α) :
    EUi R φ ψ s ↔ ∃ u, StarIn R φ s u ∧ ψ u := by
  constructor
  · intro h
    induction h with
    | @here s h => exact ⟨s, StarIn.refl s, h⟩
    | step hφ hR _ ih =>
      obtain ⟨u, hs, hu⟩ := ih
      exact ⟨u, StarIn.step hφ hR hs, hu⟩
  · rintro ⟨u, hs, hu⟩
    induction hs with
    | refl s => exact EUi.here hu
    | step hφ hR _ ih => exact EUi.step hφ hR (ih hu)

/-- until on a single path: `φ U ψ ≡ ¬(¬ψ U (¬φ ∧ ¬ψ)) ∧ ¬G¬ψ` -/
theorem until_dual (φ ψ : Nat → Prop) (π : Nat → Nat) :
    untilOn φ ψ π ↔ (¬ untilOn (fun t => ¬ ψ t) (fun t => ¬ φ t ∧ ¬ ψ t) π ∧ ¬ ∀ i, ¬ ψ (π i)) := by
  constructor
  · intro h
    refine ⟨(wuntil_dual φ ψ π).mp (Or.inl h), ?_⟩
    obtain ⟨i, hi, _⟩ := h
    exact fun hall => hall i hi
  · rintro ⟨h1, h2⟩
    cases (wuntil_dual φ ψ π).mpr h1 with
    | inl h => exact h
    | inr hG =>
      have hex : ∃ i, ψ (π i) := by
        apply Classical.byContradiction
        intro hne
        exact h2 (fun i hi => hne ⟨i, hi⟩)
      obtain ⟨i, hi, _⟩ := exists_least hex
      exact ⟨i, hi, fun j _ => hG j⟩

end Hctl
