/-
  Corollaries of `evalPure_correct` used by several property files.
-/
import HctlProofs.Lemmas.SatCongr
namespace Hctl
open Kripke

/-- the initial unit set (valid colours) is an admissible unit at depth 0 -/
theorem steadyOK_steadyOf (E : Env) (U0 : CSet) : SteadyOK E U0 (Ops.steadyOf E U0) := by
  intro p _
  simp only [Ops.steadyOf, Bool.and_eq_true, all_range_iff, Graph.isSteady, Option.isNone_iff_eq_none]

theorem unitOK_unit0 (E : Env) : UnitOK E E.G.unit0 (Ops.steadyOf E E.G.unit0) E.G.unit0 0 :=
  ⟨steadyOK_steadyOf E _, fun _ _ _ _ => rfl, fun _ _ _ _ _ _ => rfl, fun _ _ h => h⟩

/-- no wild-card propositions and no domains -/
def Plain : Tree → Prop
  | .atom (.wild _) => False
  | .atom _ => True
  | .un _ c => Plain c
  | .bin _ l r => Plain l ∧ Plain r
  | .hyb _ _ d c => d = none ∧ Plain c

theorem Plain.domsIn (K : SemCtx) : ∀ {t}, Plain t → DomsIn K t := by
  intro t
  induction t with
  | atom a => intro _; simp [DomsIn]
  | un o c ih => intro h; exact ih h
  | bin o l r ihl ihr => intro h; exact ⟨ihl h.1, ihr h.2⟩
  | hyb o x d c ih =>
    intro h
    obtain ⟨rfl, hc⟩ := h
    exact ih hc

/-- the empty evaluation context -/
abbrev noCtx : SemCtx := noCtx'

theorem ctxOK_noCtx (E : Env) : CtxOK E noCtx := ⟨fun _ _ h => by simp [noCtx, noCtx'] at h⟩
theorem ctxSC_noCtx : CtxSC noCtx := ⟨fun _ _ h => by simp [noCtx, noCtx'] at h, fun _ _ h => by simp [noCtx, noCtx'] at h⟩

/-- the top-level evaluation of a formula: what the entry points compute when nothing is shared -/
def evalTop (E : Env) (K : SemCtx) (t : Tree) : CSet :=
  Eval.evalPure E (Ops.steadyOf E E.G.unit0) K.wild K.dom t E.G.unit0

theorem evalTop_correct {E : Env} (hE : EnvOK E) (hG : GraphWF E.G) (K : SemCtx) (hK : CtxOK E K)
    (t : Tree) (hw : WellNamed E.G.k 0 t) (hd : DomsIn K t) :
    ∀ p ∈ E.pts, (evalTop E K t p = true ↔ (E.G.valid p.c = true ∧ sat E.G K t p)) :=
  evalPure_correct hE hG K hK E.G.unit0 _ t 0 E.G.unit0 hw hd (unitOK_unit0 E)

end Hctl
