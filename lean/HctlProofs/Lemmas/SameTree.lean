/-
  C08, the closing step: the string entry points depend on the input strings only through the preprocessed trees.
  Together with the invariance theorems of `Props/C08.lean` (renaming, white space, parentheses, long/short spellings,
  constant spellings all leave the preprocessed tree unchanged) this gives invariance of the RESULTS.
-/
import HctlProofs.Lemmas.EntryPoints
import HctlProofs.Props.C08
namespace Hctl.C08
open Hctl

variable (E : Env) (K : CharClass)

theorem parseAll_congr (ext : Bool) (ctxSets : List (Name × CSet)) : ∀ (fs gs : List (List Char)),
    fs.map (Api.parseOne E K ext) = gs.map (Api.parseOne E K ext) →
    Api.parseAll E K ext ctxSets fs = Api.parseAll E K ext ctxSets gs := by
  intro fs
  induction fs with
  | nil =>
    intro gs h
    cases gs with
    | nil => rfl
    | cons g gs => simp at h
  | cons f fs ih =>
    intro gs h
    cases gs with
    | nil => simp at h
    | cons g gs =>
      simp only [List.map_cons, List.cons.injEq] at h
      simp only [Api.parseAll, h.1, ih gs h.2]

/-- two lists of strings whose members preprocess to the same trees (or fail alike), position by position, get
identical outcomes from `model_check_multiple_formulae_dirty` … -/
theorem formulaeDirty_congr (U : CSet) (fs gs : List (List Char))
    (h : fs.map (Api.parseOne E K false) = gs.map (Api.parseOne E K false)) :
    Api.formulaeDirty E K U fs = Api.formulaeDirty E K U gs := by
  unfold Api.formulaeDirty
  rw [parseAll_congr E K false [] fs gs h]

/-- … and from `model_check_multiple_extended_formulae_dirty`, for any context -/
theorem extendedDirty_congr (U : CSet) (ctxSets : List (Name × CSet)) (fs gs : List (List Char))
    (h : fs.map (Api.parseOne E K true) = gs.map (Api.parseOne E K true)) :
    Api.extendedDirty E K U ctxSets fs = Api.extendedDirty E K U ctxSets gs := by
  unfold Api.extendedDirty
  rw [parseAll_congr E K true ctxSets fs gs h]

theorem parseOne_of_tokens (ext : Bool) (a b : List Char) (h : Lex.tokenize K ext a = Lex.tokenize K ext b) :
    Api.parseOne E K ext a = Api.parseOne E K ext b := by
  unfold Api.parseOne; rw [h]

theorem parseOne_map_of_tokens (ext : Bool) : ∀ (fs gs : List (List Char)),
    fs.map (Lex.tokenize K ext) = gs.map (Lex.tokenize K ext) →
    fs.map (Api.parseOne E K ext) = gs.map (Api.parseOne E K ext) := by
  intro fs
  induction fs with
  | nil => intro gs h; cases gs with
    | nil => rfl
    | cons g gs => simp at h
  | cons f fs ih =>
    intro gs h
    cases gs with
    | nil => simp at h
    | cons g gs =>
      simp only [List.map_cons, List.cons.injEq] at h ⊢
      exact ⟨parseOne_of_tokens E K ext f g h.1, ih gs h.2⟩

/-- RESULTS are invariant under every rewriting of the input strings that preserves the token lists (extra white space,
long/short operator spellings, white space inside hybrid segments: `ws_between_tokens`, `long_short_invariant`,
`hybrid_segment_ws`, `leading_ws_invariant` of `Props/C08.lean`) -/
theorem results_of_same_tokens (U : CSet) (fs gs : List (List Char))
    (h : fs.map (Lex.tokenize K false) = gs.map (Lex.tokenize K false)) :
    Api.formulaeDirty E K U fs = Api.formulaeDirty E K U gs :=
  formulaeDirty_congr E K U fs gs (parseOne_map_of_tokens E K false fs gs h)

theorem results_of_same_tokens_ext (U : CSet) (ctxSets : List (Name × CSet)) (fs gs : List (List Char))
    (h : fs.map (Lex.tokenize K true) = gs.map (Lex.tokenize K true)) :
    Api.extendedDirty E K U ctxSets fs = Api.extendedDirty E K U ctxSets gs :=
  extendedDirty_congr E K U ctxSets fs gs (parseOne_map_of_tokens E K true fs gs h)

/-- consistent renaming of state variables: two accepted strings whose trees are alpha-equivalent preprocess to the same
tree, hence (with `formulaeDirty_congr` / `extendedDirty_congr`) get the same results wherever they stand -/
theorem parseOne_of_alpha (ext : Bool) (a b : List Char) (k1 k2 : List Tok) (t1 t2 r1 r2 : Tree)
    (ha : Lex.tokenize K ext a = .ok k1) (hb : Lex.tokenize K ext b = .ok k2)
    (hp1 : parseToks k1 = .ok t1) (hp2 : parseToks k2 = .ok t2)
    (hr1 : rename (fun n => (E.G.label n).isSome) t1 = .ok r1) (hr2 : rename (fun n => (E.G.label n).isSome) t2 = .ok r2)
    (hα : toDB [] t1 = toDB [] t2) : Api.parseOne E K ext a = Api.parseOne E K ext b := by
  have := alpha_invariant _ t1 t2 r1 r2 hr1 hr2 hα
  subst this
  simp only [Api.parseOne, ha, hb, hp1, hp2, hr1, hr2]

/-- redundant parentheses around a whole formula -/
theorem parseOne_of_parens (ext : Bool) (a b : List Char) (ts : List Tok) (t : Tree)
    (ha : Lex.tokenize K ext a = .ok ts) (hb : Lex.tokenize K ext b = .ok [.group ts]) (hp : parseToks ts = .ok t) :
    Api.parseOne E K ext a = Api.parseOne E K ext b := by
  simp only [Api.parseOne, ha, hb, hp, paren_invariant ts t hp]

/-- instance: white space in front of a formula changes no result -/
theorem leading_ws_results (U : CSet) (c : Char) (hc : K.isWs c = true) (cs : List Char) (rest : List (List Char)) :
    Api.formulaeDirty E K U ((c :: cs) :: rest) = Api.formulaeDirty E K U (cs :: rest) := by
  apply formulaeDirty_congr
  simp only [List.map_cons, List.cons.injEq, and_true]
  exact parseOne_of_tokens E K false _ _ (leading_ws_invariant K false c hc cs)

end Hctl.C08
