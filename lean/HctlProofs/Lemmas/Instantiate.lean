/-
  C20: the instantiated network as an object of the model — the graph with the single colour `c` of a family — and the
  statement of the property for it (the premise `AgreeCol` is a theorem for this graph; that the network produced by the
  graph library's `pick_witness` has this transition table is decided on every instance by the oracle O20).
-/
import HctlProofs.Props.C20
namespace Hctl.C20
open Hctl Kripke

/-- the fully specified network obtained by fixing the unknown functions as colour `c` does: one colour, its transitions -/
def instantiate (G : Graph) (c : Nat) : Graph :=
  { G with nC := 1, valid := fun _ => G.valid c, step := fun _ j s => G.step c j s }

theorem agree_instantiate (G : Graph) (c : Nat) : AgreeCol G (instantiate G c) c 0 := ⟨rfl, rfl, fun _ _ => rfl, rfl⟩

theorem graphWF_instantiate {G : Graph} (h : GraphWF G) (c : Nat) : GraphWF (instantiate G c) :=
  ⟨fun _ j s t hst hs => h.step_lt c j s t hst hs⟩

theorem graphAsync_instantiate {G : Graph} (h : C12.GraphAsync G) (c : Nat) : C12.GraphAsync (instantiate G c) :=
  ⟨fun _ j s t hst => h.step_ne c j s t hst⟩

/-- C20 for exact results: the slice of colour `c` of a result on the family equals the result on the instantiated
network (its only colour), state by state and for every valuation of the variable slots -/
theorem slice_eq_instantiated {E : Env} {c : Nat} (hv : E.G.valid c = true) (t : Tree) (r r' : CSet)
    (hr : Sem E r E.G.unit0 (sat E.G noCtx t))
    (hr' : Sem (Env.pure (instantiate E.G c)) r' (instantiate E.G c).unit0 (sat (instantiate E.G c) noCtx t))
    (s : Nat) (v : List Nat) (hmem : (⟨s, c, v⟩ : Point) ∈ E.pts)
    (hmem' : (⟨s, 0, v⟩ : Point) ∈ (Env.pure (instantiate E.G c)).pts) :
    r ⟨s, c, v⟩ = r' ⟨s, 0, v⟩ :=
  colour_slice_sem (E' := Env.pure (instantiate E.G c)) (agree_instantiate E.G c) hv hv t r r' hr hr' s v hmem hmem'

end Hctl.C20
