/-
  Per-node semantic lemmas: what `evalUn`, `evalBin`, `hybridQuantifier`, `evalJump` compute from
  semantically characterised arguments.  (The case analysis of `evalPure_correct`, made reusable for the
  cached evaluator.)
-/
import HctlProofs.Lemmas.Laws
namespace Hctl
open Kripke

section
variable {E : Env} (hE : EnvOK E) (hG : GraphWF E.G) (K : SemCtx)
include hE hG

theorem sem_evalUn {U0 st U c : CSet} {d : Nat} (hU : UnitOK E U0 st U d) (o : UnOp) (tc : Tree)
    (hc : Sem E c U (sat E.G K tc)) : Sem E (Eval.evalUn E U st o c) U (sat E.G K (.un o tc)) := by
  cases o with
  | not => exact (sem_neg hc).iff (fun p _ _ => by simp only [sat])
  | ex => exact (sem_ex hE hG hU hc).iff (fun p _ _ => by simp only [sat])
  | ax => exact (sem_ax hE hG hU hc).iff (fun p _ _ => by simp only [sat])
  | ef => exact (sem_ef hE hG hU hc).iff (fun p _ _ => by simp only [sat])
  | af => exact (sem_af hE hG hU hc).iff (fun p _ _ => by simp only [sat])
  | eg => exact (sem_eg' hE hG hU hc).iff (fun p _ _ => by simp only [sat])
  | ag => exact (sem_ag hE hG hU hc).iff (fun p _ _ => by simp only [sat])

theorem sem_evalBin {U0 st U l r : CSet} {d : Nat} (hU : UnitOK E U0 st U d) (o : BinOp) (tl tr : Tree)
    (hl : Sem E l U (sat E.G K tl)) (hr : Sem E r U (sat E.G K tr)) :
    Sem E (Eval.evalBin E U st o l r) U (sat E.G K (.bin o tl tr)) := by
  cases o with
  | and => exact (sem_and hl hr).iff (fun p _ _ => by simp only [sat])
  | or => exact (sem_or hl hr).iff (fun p _ _ => by simp only [sat])
  | xor => exact (sem_xor hl hr).iff (fun p _ _ => by simp only [sat])
  | imp => exact (sem_imp hl hr).iff (fun p _ _ => by simp only [sat])
  | iff => exact (sem_equiv hl hr).iff (fun p _ _ => by simp only [sat])
  | eu => exact (sem_eu' hE hG hU hl hr).iff (fun p _ _ => by simp only [sat])
  | au => exact (sem_au' hE hG hU hl hr).iff (fun p _ _ => by simp only [sat])
  | ew => exact (sem_ew hE hG hU hl hr).iff (fun p _ _ => by simp only [sat])
  | aw => exact (sem_aw hE hG hU hl hr).iff (fun p _ _ => by simp only [sat])

theorem sem_jumpNode {U0 st U c : CSet} {d : Nat} (hU : UnitOK E U0 st U d) (v : Name) (dom : Option Name)
    (tc : Tree) (hc : Sem E c U (sat E.G K tc)) :
    Sem E (Ops.evalJump E U c (varId v)) U (sat E.G K (.hyb .jump v dom tc)) :=
  (sem_jump hE hG hU hc (varId v)).iff (fun p _ _ => by simp only [sat])

/-- quantifier without a domain: the child was evaluated in the same universe -/
theorem sem_quantNoDom {U0 st U c : CSet} {d : Nat} (hU : UnitOK E U0 st U d) (op : HybOp) (hj : op ≠ .jump)
    (v : Name) (hvd : varId v = d) (hdk : d < E.G.k) (tc : Tree) (hc : Sem E c U (sat E.G K tc)) :
    Sem E (Eval.hybridQuantifier E U U op (varId v) c) U (sat E.G K (.hyb op v none tc)) := by
  have hU' : ∀ q ∈ E.pts, (U q = true ↔ (U q = true ∧ True)) := fun q _ => by simp
  rw [hvd]
  cases op with
  | jump => exact absurd rfl hj
  | bind =>
    exact (sem_bind_gen hE hG hdk hU hU' hc).iff
      (fun p _ _ => by simp only [sat, inDom, hvd, true_and])
  | ex =>
    exact (sem_exists_gen hE hG hU hU' hc).iff
      (fun p _ _ => by simp only [sat, inDom, hvd, true_and])
  | all =>
    exact (sem_forall_gen hE hG hU hU' hc).iff
      (fun p _ _ => by simp only [sat, inDom, hvd, true_implies])

/-- quantifier with a domain: the child was evaluated in the universe restricted by the domain -/
theorem sem_quantDom {U0 st U U' c ds : CSet} {d : Nat} (hK : CtxOK E K) (hU : UnitOK E U0 st U d) (op : HybOp)
    (hj : op ≠ .jump) (v l : Name) (hl : K.dom l = some ds) (hvd : varId v = d) (hdk : d < E.G.k) (tc : Tree)
    (hmem : ∀ q ∈ E.pts, (U' q = true ↔ (U q = true ∧ ds (q.setS (q.getV d)) = true)))
    (hc : Sem E c U' (sat E.G K tc)) :
    Sem E (Eval.hybridQuantifier E U U' op (varId v) c) U (sat E.G K (.hyb op v (some l) tc)) := by
  rw [hvd]
  have hin : ∀ q : Point, inDom K (some l) q ↔ ds q = true := by
    intro q
    simp only [inDom, hl]
    constructor
    · rintro ⟨a, ha, h⟩; cases ha; exact h
    · intro h; exact ⟨ds, rfl, h⟩
  cases op with
  | jump => exact absurd rfl hj
  | bind =>
    refine (sem_bind_gen hE hG hdk hU hmem hc).iff (fun p hp _ => ?_)
    simp only [sat, hvd, hin]
    have := dom_at_setV hE hG K hK hl hp hdk (s_lt' hE hG hp)
    simp only [setS_self] at this
    rw [this]
  | ex =>
    refine (sem_exists_gen hE hG hU hmem hc).iff (fun p hp _ => ?_)
    simp only [sat, hvd, hin]
    constructor
    · rintro ⟨t, ht, h1, h2⟩
      rw [dom_at_setV hE hG K hK hl hp hdk ht] at h1
      exact ⟨t, ht, h1, h2⟩
    · rintro ⟨t, ht, h1, h2⟩
      rw [← dom_at_setV hE hG K hK hl hp hdk ht] at h1
      exact ⟨t, ht, h1, h2⟩
  | all =>
    refine (sem_forall_gen hE hG hU hmem hc).iff (fun p hp _ => ?_)
    simp only [sat, hvd, hin]
    constructor
    · intro h t ht h1
      rw [← dom_at_setV hE hG K hK hl hp hdk ht] at h1
      exact h t ht h1
    · intro h t ht h1
      rw [dom_at_setV hE hG K hK hl hp hdk ht] at h1
      exact h t ht h1

/-- the empty-domain shortcut: if the restricted universe has no point, bind/exists are empty, forall is the unit -/
theorem sem_emptyDom {U0 st U U' ds : CSet} {d : Nat} (hK : CtxOK E K) (hU : UnitOK E U0 st U d) (op : HybOp)
    (hj : op ≠ .jump) (v l : Name) (hl : K.dom l = some ds) (hvd : varId v = d) (hdk : d < E.G.k) (tc : Tree)
    (hmem : ∀ q ∈ E.pts, (U' q = true ↔ (U q = true ∧ ds (q.setS (q.getV d)) = true)))
    (hempty : ∀ q ∈ E.pts, U' q = false) :
    Sem E (match op with | .all => U | _ => CSet.empty) U (sat E.G K (.hyb op v (some l) tc)) := by
  -- an arbitrary child evaluation in the empty universe: the empty set
  have hc : Sem E CSet.empty U' (sat E.G K tc) := by
    intro q hq
    simp [CSet.empty, hempty q hq]
  have hq := sem_quantDom hE hG K hK hU op hj v l hl hvd hdk tc hmem hc
  intro p hp
  rw [← hq p hp]
  have hlen : d < p.v.length := by rw [len_v hE hG hp]; exact hdk
  cases op with
  | jump => exact absurd rfl hj
  | bind =>
    simp only [Eval.hybridQuantifier, Ops.evalBind]
    rw [mem_projectOutVar hE hG]
    simp [CSet.empty, CSet.inter]
  | ex =>
    simp only [Eval.hybridQuantifier, Ops.evalExists]
    rw [mem_projectOutVar hE hG]
    simp [CSet.empty]
  | all =>
    simp only [Eval.hybridQuantifier, Ops.evalNeg, CSet.minus, Ops.evalExists, Bool.and_eq_true, Bool.not_eq_true']
    constructor
    · intro hu
      refine ⟨hu, ?_⟩
      apply Bool.eq_false_iff.mpr
      intro hex
      obtain ⟨t, ht, hx⟩ := (mem_projectOutVar hE hG).mp hex
      simp only [CSet.empty, Bool.not_false, Bool.and_true] at hx
      rw [hvd] at hx
      rw [hempty _ (setV_mem' hE hG hp ht)] at hx
      cases hx
    · intro h; exact h.1

end
end Hctl
