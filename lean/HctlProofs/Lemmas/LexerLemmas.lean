/-
  Lexer lemmas: the extended tokenizer agrees with the plain one wherever the plain one succeeds, and
  the plain tokenizer never emits a wild-card proposition or a domain.
-/
import HctlModel.Lexer
import HctlProofs.Spec.Grammar
import HctlProofs.Lemmas.Corollaries
namespace Hctl
open Lex

/-- a leaf without wild-card and without domain -/
def PlainLeaf : Leaf → Prop
  | .hyb _ _ d => d = none
  | .atom (.wild _) => False
  | _ => True

/-- the tokens (groups opened) carry no wild-card and no domain -/
def PlainToks (ts : List Tok) : Prop := ∀ l ∈ Tok.flatList ts, PlainLeaf l
def PlainTok (t : Tok) : Prop := ∀ l ∈ t.flat, PlainLeaf l

theorem plainToks_nil : PlainToks [] := by intro l hl; simp [Tok.flatList] at hl

theorem plainToks_cons {t : Tok} {ts : List Tok} (ht : PlainTok t) (hts : PlainToks ts) : PlainToks (t :: ts) := by
  intro l hl
  simp only [Tok.flatList, List.mem_append] at hl
  cases hl with
  | inl h => exact ht l h
  | inr h => exact hts l h

theorem plainTok_group {ts : List Tok} (h : PlainToks ts) : PlainTok (.group ts) := by
  intro l hl; simp only [Tok.flat] at hl; exact h l hl

theorem plainTok_prop (n : Name) : PlainTok (.atom (.prop n)) := by
  intro l hl
  simp only [Tok.flat, List.mem_singleton] at hl
  subst hl
  simp only [atomOfTok]
  unfold constOrProp
  by_cases h1 : n = "true".toList ∨ n = "True".toList ∨ n = "1".toList
  · rw [if_pos h1]; simp only [PlainLeaf]
  rw [if_neg h1]
  by_cases h2 : n = "false".toList ∨ n = "False".toList ∨ n = "0".toList
  · rw [if_pos h2]; simp only [PlainLeaf]
  rw [if_neg h2]; simp only [PlainLeaf]

macro "plain_tok" : tactic =>
  `(tactic| first
    | exact plainTok_prop _
    | exact plainTok_group (by assumption)
    | (intro l hl; simp only [Tok.flat, List.mem_singleton] at hl; subst hl; simp [PlainLeaf, atomOfTok]))

namespace Lex

theorem cvd_ext (K : CharClass) (cs : List Char) (v : Name) (d : Option Name) (rest : List Char)
    (h : collectVarDom K false cs = some (v, d, rest)) : d = none ∧ collectVarDom K true cs = some (v, none, rest) := by
  unfold collectVarDom at h ⊢
  cases h1 : expect '{' (skipWs K cs) with
  | none => simp [h1] at h
  | some cs1 =>
    simp only [h1] at h ⊢
    cases h2 : collectName K cs1 with
    | mk name cs2 =>
      simp only [h2] at h ⊢
      by_cases hne : name.isEmpty = true
      · simp [hne] at h
      · simp only [hne] at h ⊢
        cases h3 : expect '}' cs2 with
        | none => simp [h3] at h
        | some cs3 =>
          simp only [h3] at h ⊢
          simp only [Bool.false_eq_true, if_false] at h
          cases h4 : expect ':' (skipWs K cs3) with
          | none => simp [h4] at h
          | some cs11 =>
            simp [h4] at h
            obtain ⟨rfl, rfl, rfl⟩ := h
            refine ⟨rfl, ?_⟩
            -- the next character is ':' so the `in` clause is not taken
            cases h5 : skipWs K cs3 with
            | nil => simp [h5, expect] at h4
            | cons c cs' =>
              simp only [h5, expect] at h4
              split at h4
              · rename_i hc
                subst hc
                simp at h4
                subst h4
                simp [expect, domPart]
              · simp at h4

theorem tempUn_plain {c c2 : Char} {t : Tok} (h : tempUn c c2 = some t) : PlainTok t := by
  unfold tempUn at h
  split at h <;> first
    | (cases h; intro l hl; simp only [Tok.flat, List.mem_singleton] at hl; subst hl; simp [PlainLeaf])
    | cases h

theorem cons_ok {t : Tok} {x : Except LErr (List Tok × List Char)} {r : List Tok × List Char}
    (h : cons t x = .ok r) : ∃ ts rest, x = .ok (ts, rest) ∧ r = (t :: ts, rest) := by
  cases x with
  | error e => simp [cons] at h
  | ok p => obtain ⟨ts, rest⟩ := p; simp [cons] at h; exact ⟨ts, rest, rfl, h.symm⟩

theorem cons_both {t : Tok} {x y : Except LErr (List Tok × List Char)} {r : List Tok × List Char}
    (ht : PlainTok t) (hxy : ∀ r, x = .ok r → y = .ok r ∧ PlainToks r.1) (h : cons t x = .ok r) :
    cons t y = .ok r ∧ PlainToks r.1 := by
  obtain ⟨ts, rest, hx, rfl⟩ := cons_ok h
  obtain ⟨h1, h2⟩ := hxy _ hx
  rw [h1]
  exact ⟨rfl, plainToks_cons ht h2⟩

theorem hyb_both {K : CharClass} {o : HybOp} {cs : List Char} {f g : List Char → Except LErr (List Tok × List Char)}
    {r : List Tok × List Char} (hfg : ∀ cs r, f cs = .ok r → g cs = .ok r ∧ PlainToks r.1)
    (h : (match collectVarDom K false cs with
          | some (v, d, rest') => cons (Tok.hyb o v d) (f rest')
          | none => Except.error LErr.lex) = .ok r) :
    (match collectVarDom K true cs with
          | some (v, d, rest') => cons (Tok.hyb o v d) (g rest')
          | none => Except.error LErr.lex) = .ok r ∧ PlainToks r.1 := by
  cases hc : collectVarDom K false cs with
  | none => simp [hc] at h
  | some p =>
    obtain ⟨v, d, rest⟩ := p
    obtain ⟨rfl, h2⟩ := cvd_ext K cs v d rest hc
    simp only [hc] at h
    simp only [h2]
    exact cons_both (by plain_tok) (hfg _) h

theorem lex_plain_rec (K : CharClass) (hK : K.isAlnum '%' = false) :
    ∀ n top cs r, lexRec K false n top cs = .ok r → lexRec K true n top cs = .ok r ∧ PlainToks r.1 := by
  intro n
  induction n with
  | zero => intro top cs r h; simp [lexRec] at h
  | succ n ih =>
    intro top cs r h
    cases cs with
    | nil =>
      simp only [lexRec] at h ⊢
      refine ⟨h, ?_⟩
      split at h
      · cases h; exact plainToks_nil
      · cases h
    | cons c cs =>
      simp only [lexRec] at h ⊢
      by_cases h1 : K.isWs c = true
      · rw [if_pos h1] at h ⊢; exact ih _ _ _ h
      rw [if_neg h1] at h ⊢
      by_cases h2 : c = '~'
      · rw [if_pos h2] at h ⊢; exact cons_both (by plain_tok) (ih _ _) h
      rw [if_neg h2] at h ⊢
      by_cases h3 : c = '&'
      · rw [if_pos h3] at h ⊢; exact cons_both (by plain_tok) (ih _ _) h
      rw [if_neg h3] at h ⊢
      by_cases h4 : c = '|'
      · rw [if_pos h4] at h ⊢; exact cons_both (by plain_tok) (ih _ _) h
      rw [if_neg h4] at h ⊢
      by_cases h5 : c = '^'
      · rw [if_pos h5] at h ⊢; exact cons_both (by plain_tok) (ih _ _) h
      rw [if_neg h5] at h ⊢
      by_cases h6 : c = '='
      · rw [if_pos h6] at h ⊢
        split at h
        · exact cons_both (by plain_tok) (ih _ _) h
        · simp at h
      rw [if_neg h6] at h ⊢
      by_cases h7 : c = '<'
      · rw [if_pos h7] at h ⊢
        split at h
        · exact cons_both (by plain_tok) (ih _ _) h
        · simp at h
      rw [if_neg h7] at h ⊢
      by_cases h8 : c = '>'
      · rw [if_pos h8] at h; simp at h
      rw [if_neg h8] at h ⊢
      by_cases h9 : ((decide (c = 'E') || decide (c = 'A')) && isTempOp cs.head?) = true
      · rw [if_pos h9] at h ⊢
        cases cs with
        | nil => simp at h
        | cons c2 cs' =>
          cases cs' with
          | nil =>
            simp only at h ⊢
            split at h
            · rename_i t ht; exact cons_both (tempUn_plain ht) (ih _ _) h
            · simp at h
          | cons c3 tl =>
            simp only at h ⊢
            by_cases hn : isName K c3 = true
            · rw [if_pos hn] at h ⊢; exact cons_both (by plain_tok) (ih _ _) h
            rw [if_neg hn] at h ⊢
            split at h
            · rename_i t ht; exact cons_both (tempUn_plain ht) (ih _ _) h
            · simp at h
      rw [if_neg h9] at h ⊢
      by_cases h10 : c = '!'
      · rw [if_pos h10] at h ⊢; exact hyb_both (ih _) h
      rw [if_neg h10] at h ⊢
      generalize nextIsName K cs = b at h ⊢
      by_cases h11 : (decide (c = '3') && !b) = true
      · rw [if_pos h11] at h ⊢; exact hyb_both (ih _) h
      rw [if_neg h11] at h ⊢
      by_cases h12 : (decide (c = 'V') && !b) = true
      · rw [if_pos h12] at h ⊢; exact hyb_both (ih _) h
      rw [if_neg h12] at h ⊢
      by_cases h13 : c = '@'
      · rw [if_pos h13] at h ⊢
        cases hc : collectVarDom K false cs with
        | none => simp [hc] at h
        | some p =>
          obtain ⟨v, d, rest⟩ := p
          obtain ⟨rfl, _⟩ := cvd_ext K _ v d rest hc
          simp only [hc] at h ⊢; exact cons_both (by plain_tok) (ih _ _) h
      rw [if_neg h13] at h ⊢
      by_cases h14 : c = '\\'
      · rw [if_pos h14] at h ⊢
        cases ho : hybOfLong (collectName K cs).fst with
        | none => simp [ho] at h
        | some o =>
          cases o with
          | jump =>
            simp only [ho] at h ⊢
            cases hc : collectVarDom K false (collectName K cs).snd with
            | none => simp [hc] at h
            | some p =>
          obtain ⟨v, d, rest⟩ := p
          obtain ⟨rfl, _⟩ := cvd_ext K _ v d rest hc
          simp only [hc] at h ⊢; exact cons_both (by plain_tok) (ih _ _) h
          | bind => simp only [ho] at h ⊢; exact hyb_both (ih _) h
          | ex => simp only [ho] at h ⊢; exact hyb_both (ih _) h
          | all => simp only [ho] at h ⊢; exact hyb_both (ih _) h
      rw [if_neg h14] at h ⊢
      by_cases h15 : c = ')'
      · rw [if_pos h15] at h ⊢
        refine ⟨h, ?_⟩
        split at h
        · cases h; exact plainToks_nil
        · cases h
      rw [if_neg h15] at h ⊢
      by_cases h16 : c = '('
      · rw [if_pos h16] at h ⊢
        cases hg : lexRec K false n false cs with
        | error e => simp [hg] at h
        | ok p =>
          obtain ⟨grp, rest⟩ := p
          simp only [hg] at h
          rw [(ih _ _ _ hg).1]
          exact cons_both (ih _ _ _ hg).2 (ih _ _) h
      rw [if_neg h16] at h ⊢
      by_cases h17 : c = '{'
      · rw [if_pos h17] at h ⊢
        by_cases he : (collectName K cs).fst.isEmpty = true
        · rw [if_pos he] at h; simp at h
        rw [if_neg he] at h ⊢
        cases hx : expect '}' (collectName K cs).snd with
        | none => simp [hx] at h
        | some rest' => simp only [hx] at h ⊢; exact cons_both (by plain_tok) (ih _ _) h
      rw [if_neg h17] at h ⊢
      have hf : ¬ (decide (c = '%') && false) = true := by simp
      rw [if_neg hf] at h
      by_cases h18 : isName K c = true
      · rw [if_pos h18] at h
        have hp : ¬ (decide (c = '%') && true) = true := by
          simp only [Bool.and_true, decide_eq_true_eq]
          intro hcp
          subst hcp
          simp [isName, hK] at h18
        rw [if_neg hp, if_pos h18]
        exact cons_both (by plain_tok) (ih _ _) h
      rw [if_neg h18] at h; simp at h

theorem cons_mono {t : Tok} {x y : Except LErr (List Tok × List Char)} {r : List Tok × List Char}
    (hxy : ∀ r, x = .ok r → y = .ok r) (h : cons t x = .ok r) : cons t y = .ok r := by
  obtain ⟨ts, rest, hx, rfl⟩ := cons_ok h
  rw [hxy _ hx]; rfl

theorem hyb_mono {K : CharClass} {o : HybOp} {pd : Bool} {cs : List Char}
    {f g : List Char → Except LErr (List Tok × List Char)}
    {r : List Tok × List Char} (hfg : ∀ cs r, f cs = .ok r → g cs = .ok r)
    (h : (match collectVarDom K pd cs with
          | some (v, d, rest') => cons (Tok.hyb o v d) (f rest')
          | none => Except.error LErr.lex) = .ok r) :
    (match collectVarDom K pd cs with
          | some (v, d, rest') => cons (Tok.hyb o v d) (g rest')
          | none => Except.error LErr.lex) = .ok r := by
  cases hc : collectVarDom K pd cs with
  | none => simp [hc] at h
  | some p =>
    obtain ⟨v, d, rest⟩ := p
    simp only [hc] at h ⊢
    exact cons_mono (hfg _) h

/-- more fuel never changes a successful result -/
theorem lexRec_mono1 (K : CharClass) (ext : Bool) :
    ∀ n top cs r, lexRec K ext n top cs = .ok r → lexRec K ext (n + 1) top cs = .ok r := by
  intro n
  induction n with
  | zero => intro top cs r h; simp [lexRec] at h
  | succ n ih =>
    intro top cs r h
    cases cs with
    | nil => simpa [lexRec] using h
    | cons c cs =>
      simp only [lexRec] at h ⊢
      by_cases h1 : K.isWs c = true
      · rw [if_pos h1] at h ⊢; exact ih _ _ _ h
      rw [if_neg h1] at h ⊢
      by_cases h2 : c = '~'
      · rw [if_pos h2] at h ⊢; exact cons_mono (ih _ _) h
      rw [if_neg h2] at h ⊢
      by_cases h3 : c = '&'
      · rw [if_pos h3] at h ⊢; exact cons_mono (ih _ _) h
      rw [if_neg h3] at h ⊢
      by_cases h4 : c = '|'
      · rw [if_pos h4] at h ⊢; exact cons_mono (ih _ _) h
      rw [if_neg h4] at h ⊢
      by_cases h5 : c = '^'
      · rw [if_pos h5] at h ⊢; exact cons_mono (ih _ _) h
      rw [if_neg h5] at h ⊢
      by_cases h6 : c = '='
      · rw [if_pos h6] at h ⊢
        split at h
        · exact cons_mono (ih _ _) h
        · simp at h
      rw [if_neg h6] at h ⊢
      by_cases h7 : c = '<'
      · rw [if_pos h7] at h ⊢
        split at h
        · exact cons_mono (ih _ _) h
        · simp at h
      rw [if_neg h7] at h ⊢
      by_cases h8 : c = '>'
      · rw [if_pos h8] at h; simp at h
      rw [if_neg h8] at h ⊢
      by_cases h9 : ((decide (c = 'E') || decide (c = 'A')) && isTempOp cs.head?) = true
      · rw [if_pos h9] at h ⊢
        cases cs with
        | nil => simp at h
        | cons c2 cs' =>
          cases cs' with
          | nil =>
            simp only at h ⊢
            split at h
            · exact cons_mono (ih _ _) h
            · simp at h
          | cons c3 tl =>
            simp only at h ⊢
            by_cases hn : isName K c3 = true
            · rw [if_pos hn] at h ⊢; exact cons_mono (ih _ _) h
            rw [if_neg hn] at h ⊢
            split at h
            · exact cons_mono (ih _ _) h
            · simp at h
      rw [if_neg h9] at h ⊢
      by_cases h10 : c = '!'
      · rw [if_pos h10] at h ⊢; exact hyb_mono (ih _) h
      rw [if_neg h10] at h ⊢
      generalize nextIsName K cs = b at h ⊢
      by_cases h11 : (decide (c = '3') && !b) = true
      · rw [if_pos h11] at h ⊢; exact hyb_mono (ih _) h
      rw [if_neg h11] at h ⊢
      by_cases h12 : (decide (c = 'V') && !b) = true
      · rw [if_pos h12] at h ⊢; exact hyb_mono (ih _) h
      rw [if_neg h12] at h ⊢
      by_cases h13 : c = '@'
      · rw [if_pos h13] at h ⊢
        cases hc : collectVarDom K false cs with
        | none => simp [hc] at h
        | some p =>
          obtain ⟨v, d, rest⟩ := p
          simp only [hc] at h ⊢; exact cons_mono (ih _ _) h
      rw [if_neg h13] at h ⊢
      by_cases h14 : c = '\\'
      · rw [if_pos h14] at h ⊢
        cases ho : hybOfLong (collectName K cs).fst with
        | none => simp [ho] at h
        | some o =>
          cases o with
          | jump =>
            simp only [ho] at h ⊢
            cases hc : collectVarDom K false (collectName K cs).snd with
            | none => simp [hc] at h
            | some p =>
          obtain ⟨v, d, rest⟩ := p
          simp only [hc] at h ⊢; exact cons_mono (ih _ _) h
          | bind => simp only [ho] at h ⊢; exact hyb_mono (ih _) h
          | ex => simp only [ho] at h ⊢; exact hyb_mono (ih _) h
          | all => simp only [ho] at h ⊢; exact hyb_mono (ih _) h
      rw [if_neg h14] at h ⊢
      by_cases h15 : c = ')'
      · rw [if_pos h15] at h ⊢
        exact h
      rw [if_neg h15] at h ⊢
      by_cases h16 : c = '('
      · rw [if_pos h16] at h ⊢
        cases hg : lexRec K ext n false cs with
        | error e => simp [hg] at h
        | ok p =>
          obtain ⟨grp, rest⟩ := p
          simp only [hg] at h
          rw [ih _ _ _ hg]
          exact cons_mono (ih _ _) h
      rw [if_neg h16] at h ⊢
      by_cases h17 : c = '{'
      · rw [if_pos h17] at h ⊢
        by_cases he : (collectName K cs).fst.isEmpty = true
        · rw [if_pos he] at h; simp at h
        rw [if_neg he] at h ⊢
        cases hx : expect '}' (collectName K cs).snd with
        | none => simp [hx] at h
        | some rest' => simp only [hx] at h ⊢; exact cons_mono (ih _ _) h
      rw [if_neg h17] at h ⊢
      by_cases h18 : (decide (c = '%') && ext) = true
      · rw [if_pos h18] at h ⊢
        by_cases he : (collectName K cs).fst.isEmpty = true
        · rw [if_pos he] at h; simp at h
        rw [if_neg he] at h ⊢
        cases hx : expect '%' (collectName K cs).snd with
        | none => simp [hx] at h
        | some rest' => simp only [hx] at h ⊢; exact cons_mono (ih _ _) h
      rw [if_neg h18] at h ⊢
      by_cases h19 : isName K c = true
      · rw [if_pos h19] at h ⊢; exact cons_mono (ih _ _) h
      rw [if_neg h19] at h; simp at h

/-- character-class facts about Rust's `char::is_alphanumeric` the lexer theorems rely on
(the correspondence harness sends the class of these characters with every run) -/
structure CharOK (K : CharClass) : Prop where
  pct : K.isAlnum '%' = false

theorem tokenize_ext_of_plain (K : CharClass) (hK : CharOK K) (cs : List Char) (ts : List Tok)
    (h : tokenize K false cs = .ok ts) : tokenize K true cs = .ok ts ∧ PlainToks ts := by
  unfold tokenize at h ⊢
  cases hl : lexRec K false (cs.length + 1) true cs with
  | error e => simp [hl] at h
  | ok r =>
    obtain ⟨ts', rest⟩ := r
    simp only [hl] at h
    cases h
    obtain ⟨h1, h2⟩ := lex_plain_rec K hK.pct _ _ _ _ hl
    rw [h1]
    exact ⟨rfl, h2⟩

end Lex

theorem plain_of_frontier : ∀ (t : Tree), (∀ l ∈ t.frontier, PlainLeaf l) → Plain t := by
  intro t
  induction t with
  | atom a =>
    intro h
    have := h (.atom a) (by simp [Tree.frontier])
    cases a <;> simp_all [Plain, PlainLeaf]
  | un o c ih =>
    intro h
    simp only [Plain]
    exact ih (fun l hl => h l (by simp [Tree.frontier, hl]))
  | bin o l r ihl ihr =>
    intro h
    simp only [Plain]
    exact ⟨ihl (fun x hx => h x (by simp [Tree.frontier, hx])), ihr (fun x hx => h x (by simp [Tree.frontier, hx]))⟩
  | hyb o v d c ih =>
    intro h
    simp only [Plain]
    refine ⟨?_, ih (fun l hl => h l (by simp [Tree.frontier, hl]))⟩
    have := h (.hyb o v d) (by simp [Tree.frontier])
    simpa [PlainLeaf] using this

end Hctl
