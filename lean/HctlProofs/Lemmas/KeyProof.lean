/-
  The two facts about canonical keys that the cache theorem used as hypotheses (`KeySem`, `KeyWild`) are derived
  here from the canoniser model: equal keys ⇒ equal canonical trees ⇒ (for keys with at most one variable) the
  second formula is the first with its variable renamed, whose satisfaction set is the first one's set read at the
  other variable slot — which is what `renameBack` computes.
-/
import HctlProofs.Lemmas.CacheDefs
import HctlProofs.Lemmas.VarRename
import HctlProofs.Props.C06
namespace Hctl
open Kripke Lex C09

section syntactic
variable {C : CharClass} (hC : CharsOK C)
include hC

/-- the key of a valid tree, in terms of the tree-level canonical form -/
theorem keyOf_eq (t : Tree) (ht : TreeOK C t) (doms : DomMap) :
    keyOf t doms = (((canonTree t).1.render, canonDoms (canonTree t).2 doms), (canonTree t).2) := by
  simp [keyOf, canonChars_render hC t ht]

theorem canonTree_valid (t : Tree) (ht : TreeOK C t ∧ PropNamesOK t) :
    TreeOK C (canonTree t).1 ∧ PropNamesOK (canonTree t).1 := by
  have := canonTreeAux_treeOK hC t {} CanonInv.init ht
  simpa [canonTree] using this

/-- equal keys of valid trees: equal canonical trees and equal canonical domains -/
theorem canon_eq_of_key_eq (t1 t2 : Tree) (h1 : TreeOK C t1 ∧ PropNamesOK t1) (h2 : TreeOK C t2 ∧ PropNamesOK t2)
    (d1 d2 : DomMap) (key : Key) (ren1 ren2 : List (Name × Name))
    (hk1 : keyOf t1 d1 = (key, ren1)) (hk2 : keyOf t2 d2 = (key, ren2)) :
    (canonTree t1).1 = (canonTree t2).1 ∧ ren1 = (canonTree t1).2 ∧ ren2 = (canonTree t2).2 ∧
      canonDoms ren1 d1 = canonDoms ren2 d2 := by
  rw [keyOf_eq hC t1 h1.1] at hk1
  rw [keyOf_eq hC t2 h2.1] at hk2
  simp only [Prod.mk.injEq] at hk1 hk2
  obtain ⟨hkey1, hr1⟩ := hk1
  obtain ⟨hkey2, hr2⟩ := hk2
  subst hr1 hr2
  rw [← hkey2] at hkey1
  simp only [Prod.mk.injEq] at hkey1
  have v1 := canonTree_valid hC t1 h1
  have v2 := canonTree_valid hC t2 h2
  exact ⟨C06.render_injective C hC _ _ v1.1 v2.1 v1.2 v2.2 hkey1.1, rfl, rfl, hkey1.2⟩

end syntactic

theorem canonDoms_nil (doms : DomMap) : canonDoms [] doms = [] := by
  unfold canonDoms
  induction doms with
  | nil => rfl
  | cons e doms ih => simpa [List.foldl_cons, List.lookup] using ih

/-- a rendering that begins with `%` is the rendering of a wild-card proposition -/
theorem render_wild {C : CharClass} (hC : CharsOK C) (T : Tree) (hT : TreeOK C T) (w : Name)
    (h : T.render = '%' :: w ++ ['%']) : T = .atom (.wild w) := by
  cases T with
  | atom a =>
    cases a with
    | wild w' =>
      simp only [Tree.render, Atom.str, List.cons_append, List.cons.injEq, true_and] at h
      have := List.append_cancel_right h
      rw [this]
    | prop n =>
      exfalso
      simp only [Tree.render, Atom.str] at h
      have hv : ValidName C n := hT
      rw [h] at hv
      have := hv.1.2 '%' (by simp)
      rw [hC.special_not_name _ (by simp [specials])] at this
      cases this
    | tt => simp [Tree.render, Atom.str] at h
    | ff => simp [Tree.render, Atom.str] at h
    | var x => simp [Tree.render, Atom.str] at h
  | un o c => cases o <;> simp [Tree.render] at h
  | bin o l r => simp [Tree.render] at h
  | hyb o x d c => simp [Tree.render] at h

theorem mapVars_eq_wild (t : Tree) (w : Name) (f : Name → Name) (h : t.mapVars f = .atom (.wild w)) :
    t = .atom (.wild w) := by
  cases t with
  | atom a => cases a <;> simp_all [Tree.mapVars]
  | un o c => simp [Tree.mapVars] at h
  | bin o l r => simp [Tree.mapVars] at h
  | hyb o x d c => simp [Tree.mapVars] at h

/-- `KeyWild`, derived -/
theorem keyWild_holds {C : CharClass} (hC : CharsOK C) (E : Env) (K : SemCtx) (U0 : CSet) : KeyWild C E K U0 := by
  constructor
  · intro w ds hw
    rw [keyOf_eq hC _ (by simpa [TreeOK] using hw)]
    simp [canonTree, canonTreeAux, Tree.render, Atom.str, wkey, canonDoms_nil]
  · intro t U ds w ren hq hk
    rw [keyOf_eq hC t hq.valid.1] at hk
    simp only [Prod.mk.injEq, wkey] at hk
    have hT := canonTree_valid hC t hq.valid
    have := render_wild hC _ hT.1 w hk.1.1
    have hs := canonTreeAux_shape [] t {}
    simp only [canonTree] at this
    rw [this] at hs
    simp only [Tree.mapVars] at hs
    exact mapVars_eq_wild t w _ hs.symm

/-! ### canonisation commutes with an injective renaming of the variable names -/

def mapKeys (f : Name → Name) (m : List (Name × Name)) : List (Name × Name) := m.map (fun e => (f e.1, e.2))

section mapkeys
variable (f : Name → Name) (P : Name → Prop) (hinj : ∀ x y, P x → P y → f x = f y → x = y)
include hinj

theorem lookup_mapKeys (m : List (Name × Name)) (hm : ∀ e ∈ m, P e.1) (x : Name) (hx : P x) :
    (mapKeys f m).lookup (f x) = m.lookup x := by
  induction m with
  | nil => rfl
  | cons e m ih =>
    obtain ⟨k, c⟩ := e
    have hk : P k := hm (k, c) (by simp)
    simp only [mapKeys, List.map_cons, List.lookup]
    by_cases hxk : x = k
    · subst hxk; simp
    · have h1 : (x == k) = false := beq_eq_false_iff_ne.mpr hxk
      have h2 : (f x == f k) = false := beq_eq_false_iff_ne.mpr (fun h => hxk (hinj x k hx hk h))
      simp only [h1, h2]
      exact ih (fun e he => hm e (by simp [he]))

theorem mapInsert_mapKeys (m : List (Name × Name)) (hm : ∀ e ∈ m, P e.1) (v c : Name) (hv : P v) :
    mapKeys f (mapInsert v c m) = mapInsert (f v) c (mapKeys f m) := by
  simp only [mapInsert, mapKeys, List.map_cons, List.cons.injEq, true_and]
  induction m with
  | nil => rfl
  | cons e m ih =>
    obtain ⟨k, c'⟩ := e
    have hk : P k := hm (k, c') (by simp)
    have ih' := ih (fun e he => hm e (by simp [he]))
    simp only [List.filter_cons, List.map_cons]
    by_cases hkv : k = v
    · subst hkv; simpa using ih'
    · have h1 : (k != v) = true := by simpa using hkv
      have h2 : (f k != f v) = true := by simpa using (fun h => hkv (hinj k v hk hv h))
      simp only [h1, h2, if_true, List.map_cons, ih']

theorem mem_mapInsert_key (m : List (Name × Name)) (hm : ∀ e ∈ m, P e.1) (v c : Name) (hv : P v) :
    ∀ e ∈ mapInsert v c m, P e.1 := by
  intro e he
  simp only [mapInsert, List.mem_cons, List.mem_filter] at he
  rcases he with rfl | ⟨he, _⟩
  · exact hv
  · exact hm e he

theorem canonVar_mapKeys (v : Name) (st : CanonT) (hm : ∀ e ∈ st.map, P e.1) (hv : P v) :
    canonVar (f v) ⟨mapKeys f st.map, st.stack⟩ =
      ((canonVar v st).1, ⟨mapKeys f (canonVar v st).2.map, (canonVar v st).2.stack⟩) ∧
    (∀ e ∈ (canonVar v st).2.map, P e.1) := by
  unfold canonVar
  rw [lookup_mapKeys f P hinj st.map hm v hv]
  cases h : st.map.lookup v with
  | some cn => exact ⟨rfl, hm⟩
  | none =>
    simp only [mapInsert_mapKeys f P hinj st.map hm v _ hv]
    exact ⟨trivial, mem_mapInsert_key f P hinj st.map hm v _ hv⟩

theorem canonTreeAux_mapKeys : ∀ (t : Tree) (st : CanonT), (∀ e ∈ st.map, P e.1) → (∀ x ∈ varNames t, P x) →
    canonTreeAux (t.mapVars f) ⟨mapKeys f st.map, st.stack⟩ =
      ((canonTreeAux t st).1, ⟨mapKeys f (canonTreeAux t st).2.map, (canonTreeAux t st).2.stack⟩) ∧
    (∀ e ∈ (canonTreeAux t st).2.map, P e.1) := by
  intro t
  induction t with
  | atom a =>
    intro st hm hx
    cases a with
    | var x =>
      have := canonVar_mapKeys f P hinj x st hm (hx x (by simp [varNames]))
      simp only [Tree.mapVars, canonTreeAux]
      rw [this.1]
      exact ⟨rfl, this.2⟩
    | prop n => exact ⟨by simp [Tree.mapVars, canonTreeAux], by simpa [canonTreeAux] using hm⟩
    | tt => exact ⟨by simp [Tree.mapVars, canonTreeAux], by simpa [canonTreeAux] using hm⟩
    | ff => exact ⟨by simp [Tree.mapVars, canonTreeAux], by simpa [canonTreeAux] using hm⟩
    | wild w => exact ⟨by simp [Tree.mapVars, canonTreeAux], by simpa [canonTreeAux] using hm⟩
  | un o c ih =>
    intro st hm hx
    have := ih st hm (by simpa [varNames] using hx)
    simp only [Tree.mapVars, canonTreeAux]
    rw [this.1]
    exact ⟨rfl, this.2⟩
  | bin o l r ihl ihr =>
    intro st hm hx
    simp only [varNames, List.mem_append] at hx
    have a := ihl st hm (fun x h => hx x (Or.inl h))
    have b := ihr (canonTreeAux l st).2 a.2 (fun x h => hx x (Or.inr h))
    simp only [Tree.mapVars, canonTreeAux]
    rw [a.1]
    simp only
    rw [b.1]
    exact ⟨rfl, b.2⟩
  | hyb o v d c ih =>
    intro st hm hx
    simp only [varNames, List.mem_cons] at hx
    have hv : P v := hx v (Or.inl rfl)
    by_cases hj : o = .jump
    · subst hj
      have a := canonVar_mapKeys f P hinj v st hm hv
      have b := ih (canonVar v st).2 a.2 (fun x h => hx x (Or.inr h))
      simp only [Tree.mapVars, canonTreeAux, if_true]
      rw [a.1]
      simp only
      rw [b.1]
      exact ⟨rfl, b.2⟩
    · have hm' := mem_mapInsert_key f P hinj st.map hm v (canonName st.stack) hv
      have b := ih ⟨mapInsert v (canonName st.stack) st.map, st.stack + 1⟩ hm' (fun x h => hx x (Or.inr h))
      simp only [Tree.mapVars, canonTreeAux, hj, if_false]
      rw [← mapInsert_mapKeys f P hinj st.map hm v _ hv]
      rw [b.1]
      exact ⟨rfl, b.2⟩

end mapkeys

/-- the keys of the renaming are variable names of the tree -/
theorem canonTreeAux_keys : ∀ (t : Tree) (st : CanonT) (x c : Name), (x, c) ∈ (canonTreeAux t st).2.map →
    (∃ c', (x, c') ∈ st.map) ∨ x ∈ varNames t := by
  have hins : ∀ (m : List (Name × Name)) (v cn x c : Name), (x, c) ∈ mapInsert v cn m → (∃ c', (x, c') ∈ m) ∨ x = v := by
    intro m v cn x c h
    rcases mem_mapInsert.mp h with ⟨rfl, _⟩ | ⟨_, h⟩
    · exact Or.inr rfl
    · exact Or.inl ⟨c, h⟩
  have hvar : ∀ (v : Name) (st : CanonT) (x c : Name), (x, c) ∈ (canonVar v st).2.map → (∃ c', (x, c') ∈ st.map) ∨ x = v := by
    intro v st x c h
    unfold canonVar at h
    cases hl : st.map.lookup v with
    | some cn => simp only [hl] at h; exact Or.inl ⟨c, h⟩
    | none => simp only [hl] at h; exact hins _ _ _ _ _ h
  intro t
  induction t with
  | atom a =>
    intro st x c h
    cases a with
    | var v =>
      simp only [canonTreeAux] at h
      rcases hvar v st x c h with h | rfl
      · exact Or.inl h
      · exact Or.inr (by simp [varNames])
    | prop n => exact Or.inl ⟨c, by simpa [canonTreeAux] using h⟩
    | tt => exact Or.inl ⟨c, by simpa [canonTreeAux] using h⟩
    | ff => exact Or.inl ⟨c, by simpa [canonTreeAux] using h⟩
    | wild w => exact Or.inl ⟨c, by simpa [canonTreeAux] using h⟩
  | un o c ih => intro st x cc h; simpa [varNames, canonTreeAux] using ih st x cc (by simpa [canonTreeAux] using h)
  | bin o l r ihl ihr =>
    intro st x c h
    simp only [canonTreeAux] at h
    simp only [varNames, List.mem_append]
    rcases ihr _ x c h with ⟨c', h'⟩ | h'
    · rcases ihl st x c' h' with h'' | h''
      · exact Or.inl h''
      · exact Or.inr (Or.inl h'')
    · exact Or.inr (Or.inr h')
  | hyb o v d c ih =>
    intro st x cc h
    simp only [varNames, List.mem_cons]
    by_cases hj : o = .jump
    · subst hj
      simp only [canonTreeAux, if_true] at h
      rcases ih _ x cc h with ⟨c', h'⟩ | h'
      · rcases hvar v st x c' h' with h'' | rfl
        · exact Or.inl h''
        · exact Or.inr (Or.inl rfl)
      · exact Or.inr (Or.inr h')
    · simp only [canonTreeAux, hj, if_false] at h
      rcases ih _ x cc h with ⟨c', h'⟩ | h'
      · rcases hins _ _ _ _ _ h' with h'' | rfl
        · exact Or.inl h''
        · exact Or.inr (Or.inl rfl)
      · exact Or.inr (Or.inr h')

theorem depthNamed_names : ∀ (t : Tree) (d : Nat), DepthNamed d t → ∀ x ∈ varNames t, ∃ i, x = xs (i + 1) := by
  intro t
  induction t with
  | atom a =>
    intro d h x hx
    cases a with
    | var v =>
      simp only [varNames, List.mem_singleton] at hx
      subst hx
      obtain ⟨i, _, hi⟩ := h
      exact ⟨i, hi⟩
    | _ => simp [varNames] at hx
  | un o c ih => intro d h x hx; exact ih d h x hx
  | bin o l r ihl ihr =>
    intro d h x hx
    simp only [varNames, List.mem_append] at hx
    rcases hx with hx | hx
    · exact ihl d h.1 x hx
    · exact ihr d h.2 x hx
  | hyb o v dom c ih =>
    intro d h x hx
    simp only [varNames, List.mem_cons] at hx
    by_cases hj : o = .jump
    · simp only [DepthNamed, hj, if_true] at h
      rcases hx with rfl | hx
      · obtain ⟨i, _, hi⟩ := h.1; exact ⟨i, hi⟩
      · exact ih d h.2 x hx
    · simp only [DepthNamed, hj, if_false] at h
      rcases hx with rfl | hx
      · exact ⟨d, h.1⟩
      · exact ih (d + 1) h.2 x hx

theorem wellScoped_varId : ∀ (t : Tree) (k d : Nat), WellScoped k d t → d ≤ k → ∀ x ∈ varNames t, varId x < k := by
  intro t
  induction t with
  | atom a =>
    intro k d h hd x hx
    cases a with
    | var v =>
      simp only [varNames, List.mem_singleton] at hx
      subst hx
      simp only [WellScoped] at h
      omega
    | _ => simp [varNames] at hx
  | un o c ih => intro k d h hd x hx; exact ih k d h hd x hx
  | bin o l r ihl ihr =>
    intro k d h hd x hx
    simp only [varNames, List.mem_append] at hx
    rcases hx with hx | hx
    · exact ihl k d h.1 hd x hx
    · exact ihr k d h.2 hd x hx
  | hyb o v dom c ih =>
    intro k d h hd x hx
    simp only [varNames, List.mem_cons] at hx
    by_cases hj : o = .jump
    · simp only [WellScoped, hj, if_true] at h
      rcases hx with rfl | hx
      · omega
      · exact ih k d h.2 hd x hx
    · simp only [WellScoped, hj, if_false] at h
      rcases hx with rfl | hx
      · omega
      · exact ih k (d + 1) h.2.2 (by omega) x hx

def cdStep (ren : List (Name × Name)) (acc : DomMap) (e : Name × Option Name) : DomMap :=
  match ren.lookup e.1 with
  | some cn => domInsert cn e.2 acc
  | none => acc

theorem canonDoms_eq_foldl (ren : List (Name × Name)) (doms : DomMap) : canonDoms ren doms = doms.foldl (cdStep ren) [] := rfl

theorem cdStep_single (v c x : Name) (o : Option Name) (acc : DomMap) :
    cdStep [(v, c)] acc (x, o) = if x = v then domInsert c o acc else acc := by
  simp only [cdStep, List.lookup]
  by_cases h : x = v
  · subst h; simp
  · have : (x == v) = false := beq_eq_false_iff_ne.mpr h
    simp [this, h]

/-- canonical domains for a one-variable renaming, against the domains of the open quantifiers -/
theorem canonDoms_single_from (i : Nat) (c : Name) : ∀ (ds : List (Option Name)) (k : Nat) (acc : DomMap),
    (fvdFrom k ds).foldl (cdStep [(xs (i + 1), c)]) acc =
    (if h : k ≤ i ∧ i - k < ds.length then domInsert c (ds[i - k]'h.2) acc else acc) := by
  intro ds
  induction ds with
  | nil => intro k acc; simp [fvdFrom]
  | cons o ds ih =>
    intro k acc
    simp only [fvdFrom, List.foldl_cons, cdStep_single]
    by_cases hik : i = k
    · subst hik
      simp only [if_true]
      rw [ih (i + 1)]
      have h1 : ¬ (i + 1 ≤ i ∧ i - (i + 1) < ds.length) := by omega
      have h2 : i ≤ i ∧ i - i < (o :: ds).length := by simp
      rw [dif_neg h1, dif_pos h2]
      simp
    · have : ¬ xs (k + 1) = xs (i + 1) := fun h => hik (by have := xs_inj h; omega)
      simp only [this, if_false]
      rw [ih (k + 1)]
      by_cases hlt : k + 1 ≤ i ∧ i - (k + 1) < ds.length
      · have h2 : k ≤ i ∧ i - k < (o :: ds).length := ⟨by omega, by simp; omega⟩
        simp only [hlt, h2, and_self, dite_true]
        have : i - k = (i - (k + 1)) + 1 := by omega
        simp [this]
      · have h2 : ¬ (k ≤ i ∧ i - k < (o :: ds).length) := by
          intro h; apply hlt; simp at h; constructor <;> omega
        have h3 : ¬ (k ≤ i ∧ i - k < ds.length + 1) := by simpa using h2
        rw [dif_neg hlt]
        simp only [List.length_cons]
        rw [dif_neg h3]

theorem canonDoms_single (i : Nat) (c : Name) (ds : List (Option Name)) :
    canonDoms [(xs (i + 1), c)] (fvdOf ds) = (match ds[i]? with | some o => [(c, o)] | none => []) := by
  have := canonDoms_single_from i c ds 0 []
  rw [canonDoms_eq_foldl, fvdOf, this]
  by_cases h : i < ds.length
  · simp [h, domInsert]
  · simp [h, List.getElem?_eq_none (Nat.le_of_not_lt h)]

theorem sortRen_single (v c : Name) : sortRen [(v, c)] = [(v, c)] := by
  simp [sortRen, sortRen.ins]

section sem
variable {C : CharClass} (hC : CharsOK C) {E : Env} (hE : EnvOK E) (hG : GraphWF E.G)
include hE hG

/-- `substitute_hctl_var` for two different variable slots: read the set at slot `i` := value of slot `j` -/
theorem mem_substituteVar {U a : CSet} {i j : Nat} (hij : i ≠ j) (hi : i < E.G.k) {p : Point} (hp : p ∈ E.pts) :
    Ops.substituteVar E U a i j p = true ↔ (a (p.setV i (p.getV j)) = true ∧ U p = true) := by
  have hlen : i < p.v.length := by rw [len_v hE hG hp]; exact hi
  simp only [Ops.substituteVar, CSet.inter, Bool.and_eq_true]
  rw [mem_projectOutVar hE hG]
  constructor
  · rintro ⟨⟨t, ht, h⟩, hu⟩
    simp only [CSet.inter, Ops.comparatorTwoVars, Bool.and_eq_true, beq_iff_eq] at h
    rw [setV_getV_same p i t hlen, setV_getV_ne p i j t hij] at h
    rw [← h.2]
    exact ⟨h.1, hu⟩
  · rintro ⟨h, hu⟩
    refine ⟨⟨p.getV j, getV_lt' hE hG j hp, ?_⟩, hu⟩
    simp only [CSet.inter, Ops.comparatorTwoVars, Bool.and_eq_true, beq_iff_eq]
    rw [setV_getV_same p i _ hlen, setV_getV_ne p i j _ hij]
    exact ⟨h, rfl⟩

omit hE hG in
theorem mapKeys_nil (f : Name → Name) : mapKeys f [] = [] := rfl

include hC in
/-- `KeySem`, derived: the content of C09 the cache relies on.  Context sets must not depend on the variable slots
(`CtxSC`), and the top-level unit must not constrain them (`hU0`). -/
theorem keySem_holds {K : SemCtx} (hK : CtxOK E K) (hSC : CtxSC K) {U0 : CSet}
    (hU0 : ∀ p ∈ E.pts, ∀ i t, t < E.G.nS → U0 (p.setV i t) = U0 p) : KeySem C E K U0 := by
  intro t1 U1 ds1 t2 U2 ds2 key ren1 ren2 R hq1 hq2 hk1 hk2 hlen1 hlen2 hnf hnw hs
  obtain ⟨hT, hr1, hr2, hcd⟩ := canon_eq_of_key_eq hC t1 t2 hq1.valid hq2.valid _ _ key ren1 ren2 hk1 hk2
  simp only [canonTree] at hT hr1 hr2
  have hnames1 : ∀ x ∈ varNames t1, ∃ c, (x, c) ∈ ren1 := by rw [hr1]; exact fun x hx => renaming_total t1 {} x hx
  have hnames2 : ∀ x ∈ varNames t2, ∃ c, (x, c) ∈ ren2 := by rw [hr2]; exact fun x hx => renaming_total t2 {} x hx
  have hlenV := varNames_length_of_canon_eq t1 t2 {} {} hT
  have hsub2 : ∀ p ∈ E.pts, U2 p = true → U0 p = true := fun p hp h => ((hq2.desc p hp).mp h).1
  cases ren1 with
  | nil =>
    have hv1 : varNames t1 = [] := by
      apply List.eq_nil_iff_forall_not_mem.mpr
      intro x hx
      obtain ⟨c, hc⟩ := hnames1 x hx
      simp at hc
    have hv2 : varNames t2 = [] := by
      apply List.eq_nil_of_length_eq_zero
      rw [← hlenV, hv1]; rfl
    have ht : t2 = t1 := by
      have := eq_mapVars_of_canon_eq t1 t2 {} {} [] hT (by simp [hv2])
      rw [this]; exact mapVars_id_on _ t1 (by simp [hv1])
    refine ⟨R, by simp [sortRen, Eval.renameBack], ?_⟩
    intro p hp
    simp only [CSet.inter, Bool.and_eq_true]
    rw [hs p hp, ht]
    have hU : U2 p = true → U1 p = true := by
      intro h2
      rw [hq1.desc p hp]
      refine ⟨hsub2 p hp h2, ?_⟩
      intro i l a hil _
      have := hnf i l hil
      simp at this
    constructor
    · rintro ⟨⟨_, h⟩, h2⟩; exact ⟨h2, h⟩
    · rintro ⟨h2, h⟩; exact ⟨⟨hU h2, h⟩, h2⟩
  | cons e1 tl1 =>
    obtain ⟨v1, c1⟩ := e1
    have htl1 : tl1 = [] := by
      cases tl1 with
      | nil => rfl
      | cons _ _ => simp at hlen1
    subst htl1
    have hall1 : ∀ x ∈ varNames t1, x = v1 := by
      intro x hx
      obtain ⟨c, hc⟩ := hnames1 x hx
      simp at hc
      exact hc.1
    have hv1mem : v1 ∈ varNames t1 := by
      have hm : (v1, c1) ∈ (canonTreeAux t1 {}).2.map := by rw [← hr1]; simp
      rcases canonTreeAux_keys t1 {} v1 c1 hm with ⟨c', hc'⟩ | h
      · simp at hc'
      · exact h
    cases ren2 with
    | nil =>
      exfalso
      have hv2 : varNames t2 = [] := by
        apply List.eq_nil_iff_forall_not_mem.mpr
        intro x hx
        obtain ⟨c, hc⟩ := hnames2 x hx
        simp at hc
      rw [hv2] at hlenV
      have := List.eq_nil_of_length_eq_zero hlenV
      rw [this] at hv1mem
      simp at hv1mem
    | cons e2 tl2 =>
      obtain ⟨v2, c2⟩ := e2
      have htl2 : tl2 = [] := by
        cases tl2 with
        | nil => rfl
        | cons _ _ => simp at hlen2
      subst htl2
      have hall2 : ∀ x ∈ varNames t2, x = v2 := by
        intro x hx
        obtain ⟨c, hc⟩ := hnames2 x hx
        simp at hc
        exact hc.1
      have ht2 : t2 = t1.mapVars (fun _ => v2) := eq_mapVars_of_canon_eq t1 t2 {} {} v2 hT hall2
      -- the canonical name is the same
      have hcc : c2 = c1 := by
        have := (canonTreeAux_mapKeys (fun _ => v2) (fun x => x = v1) (by intro x y hx hy _; rw [hx, hy]) t1 {}
          (by simp) hall1).1
        rw [← ht2] at this
        simp only [mapKeys_nil] at this
        have hm := congrArg (fun r => r.2.map) this
        simp only at hm
        have e0 : (({} : CanonT).map = []) := rfl
        have e1 : ({ map := [], stack := ({} : CanonT).stack } : CanonT) = {} := rfl
        rw [e1, ← hr2, ← hr1] at hm
        simp [mapKeys] at hm
        exact hm
      subst hcc
      -- indices
      obtain ⟨i, hi⟩ := depthNamed_names t1 _ hq1.named v1 hv1mem
      have hv2mem : v2 ∈ varNames t2 := by
        rw [ht2, varNames_mapVars]
        exact List.mem_map.mpr ⟨v1, hv1mem, rfl⟩
      obtain ⟨j, hj⟩ := depthNamed_names t2 _ hq2.named v2 hv2mem
      have hik : varId v1 < E.G.k := wellScoped_varId t1 _ _ hq1.wscoped hq1.dk v1 hv1mem
      have hjk : varId v2 < E.G.k := wellScoped_varId t2 _ _ hq2.wscoped hq2.dk v2 hv2mem
      subst hi hj
      rw [varId_xs] at hik hjk
      -- the domains of the two variables carry the same label
      rw [canonDoms_single, canonDoms_single] at hcd
      have hdom : ∀ l, ds1[i]? = some (some l) → ds2[j]? = some (some l) := by
        intro l hl
        rw [hl] at hcd
        cases h2 : ds2[j]? with
        | none => rw [h2] at hcd; simp at hcd
        | some o => rw [h2] at hcd; simp at hcd; rw [← hcd]
      -- the unit of the first occurrence, at the renamed point
      have hforeign : ∀ i' l, ds1[i']? = some (some l) → i' = i := by
        intro i' l hl
        have := hnf i' l hl
        simp only [List.lookup] at this
        by_cases hx : xs (i' + 1) = xs (i + 1)
        · have := xs_inj hx; omega
        · have hb : (xs (i' + 1) == xs (i + 1)) = false := beq_eq_false_iff_ne.mpr hx
          simp [hb] at this
      by_cases hvv : xs (i + 1) = xs (j + 1)
      · -- same name: no renaming
        have hij : i = j := by have := xs_inj hvv; omega
        subst hij
        have ht : t2 = t1 := by rw [ht2]; exact mapVars_id_on _ t1 (fun x hx => (hall1 x hx).symm)
        refine ⟨R, by simp [sortRen_single, Eval.renameBack], ?_⟩
        intro p hp
        simp only [CSet.inter, Bool.and_eq_true]
        rw [hs p hp, ht]
        have hU : U2 p = true → U1 p = true := by
          intro h2
          rw [hq1.desc p hp]
          refine ⟨hsub2 p hp h2, ?_⟩
          intro i' l a hil ha
          have := hforeign i' l hil
          subst this
          exact ((hq2.desc p hp).mp h2).2 i' l a (hdom l hil) ha
        constructor
        · rintro ⟨⟨_, h⟩, h2⟩; exact ⟨h2, h⟩
        · rintro ⟨h2, h⟩; exact ⟨⟨hU h2, h⟩, h2⟩
      · have hij : i ≠ j := fun h => hvv (by rw [h])
        refine ⟨E.tab (Ops.substituteVar E U2 R i j), ?_, ?_⟩
        · simp only [sortRen_single, Eval.renameBack, List.find?, beq_self_eq_true, hvv, if_false, varId_xs]
          have : ¬ (i ≥ E.G.k ∨ j ≥ E.G.k) := by omega
          simp [this]
        · intro p hp
          simp only [CSet.inter, Bool.and_eq_true]
          rw [hE.tab_ok _ p hp, mem_substituteVar hE hG hij hik hp]
          have hjn : p.getV j < E.G.nS := getV_lt' hE hG j hp
          have hq : p.setV i (p.getV j) ∈ E.pts := setV_mem' hE hG hp hjn
          have hlen : i < p.v.length := by rw [len_v hE hG hp]; exact hik
          have hlen' : j < p.v.length := by rw [len_v hE hG hp]; exact hjk
          rw [hs _ hq]
          -- satisfaction transfers along the renaming
          have hsat : sat E.G K t1 (p.setV i (p.getV j)) ↔ sat E.G K t2 p := by
            rw [ht2]
            have := sat_renameVar E.G K hSC (xs (i + 1)) (xs (j + 1)) t1 p.s p.c (p.v.set i (p.getV j)) p.v hall1
              (by rw [varId_xs]; simpa using hlen) (by rw [varId_xs]; exact hlen')
              (by
                rw [varId_xs, varId_xs]
                exact setV_getV_same p i _ hlen)
            exact this
          have hU : U2 p = true → U1 (p.setV i (p.getV j)) = true := by
            intro h2
            rw [hq1.desc _ hq]
            refine ⟨by rw [hU0 p hp i _ hjn]; exact hsub2 p hp h2, ?_⟩
            intro i' l a hil ha
            have := hforeign i' l hil
            subst this
            have h3 := ((hq2.desc p hp).mp h2).2 j l a (hdom l hil) ha
            rw [setV_getV_same p i' _ hlen, setV_setS]
            rw [hK.domIndep l a ha _ (setS_mem' hE hG hp hjn) i' _ hjn]
            exact h3
          constructor
          · rintro ⟨⟨⟨_, h⟩, _⟩, h2⟩; exact ⟨h2, hsat.mp h⟩
          · rintro ⟨h2, h⟩; exact ⟨⟨⟨hU h2, hsat.mpr h⟩, h2⟩, h2⟩

end sem
end Hctl
