/-
  C14, second half, for BOTH string entry points: the exact classes of inputs on which an error value is returned
  (the first half — never a panic — is `formulaeDirty_correct` / `extendedDirty_correct`).
-/
import HctlProofs.Lemmas.EntryPoints
namespace Hctl.C14
open Hctl Kripke

theorem lookupAll_none_iff (ctxSets : List (Name × CSet)) : ∀ (ns : List Name),
    Api.lookupAll ctxSets ns = none ↔ ∃ n ∈ ns, ctxSets.lookup n = none := by
  intro ns
  induction ns with
  | nil => simp [Api.lookupAll]
  | cons m ns ih =>
    simp only [Api.lookupAll, List.mem_cons, exists_eq_or_imp]
    cases hm : ctxSets.lookup m with
    | none => simp
    | some s =>
      cases hr : Api.lookupAll ctxSets ns with
      | none => simp only [reduceCtorEq, false_or, true_iff]; exact ih.mp hr
      | some rest =>
        simp only [reduceCtorEq, false_or, false_iff]
        intro h; rw [ih.mpr h] at hr; cases hr

/-- the labels a formula needs from the context -/
def missing (ctxSets : List (Name × CSet)) (t : Tree) : Prop :=
  ∃ l, (l ∈ wildLabels t ∨ l ∈ domLabels t) ∧ ctxSets.lookup l = none

variable (E : Env) (K : CharClass)

/-- `parse_and_validate(_extended)` on a LIST of strings fails exactly when some string fails on its own
(tokenizer, parser, preprocessing, support check) or — extended entry points only — needs a context label
that has no set. -/
theorem parseAll_error_iff (ext : Bool) (ctxSets : List (Name × CSet)) : ∀ (fs : List (List Char)),
    (∃ e, Api.parseAll E K ext ctxSets fs = .error e) ↔
      ∃ f ∈ fs, (∃ e, Api.parseOne E K ext f = .error e) ∨
        (ext = true ∧ ∃ t, Api.parseOne E K ext f = .ok t ∧ missing ctxSets t) := by
  intro fs
  induction fs with
  | nil => simp [Api.parseAll]
  | cons f fs ih =>
    simp only [Api.parseAll, List.mem_cons, exists_eq_or_imp]
    cases hp : Api.parseOne E K ext f with
    | error e =>
      simp
    | ok t =>
      have hm := mem_wildCards t ([], [])
      simp only [reduceCtorEq, exists_false, false_or, Except.ok.injEq, exists_eq_left']
      cases ext with
      | false =>
        simp only [Bool.false_eq_true, if_false, false_and, false_or, or_false] at ih ⊢
        rw [← ih]
        cases hr : Api.parseAll E K false ctxSets fs with
        | error e => simp
        | ok r => obtain ⟨a, b, c⟩ := r; simp
      | true =>
        simp only [if_true, true_and] at ih ⊢
        cases hlp : Api.lookupAll ctxSets (t.wildCards ([], [])).1 with
        | none =>
          obtain ⟨n, hn, hl⟩ := (lookupAll_none_iff ctxSets _).mp hlp
          have : n ∈ wildLabels t := by simpa using (hm.1 n).mp hn
          refine ⟨fun _ => Or.inl ⟨n, Or.inl this, hl⟩, fun _ => ⟨_, rfl⟩⟩
        | some p =>
          cases hld : Api.lookupAll ctxSets (t.wildCards ([], [])).2 with
          | none =>
            obtain ⟨n, hn, hl⟩ := (lookupAll_none_iff ctxSets _).mp hld
            have : n ∈ domLabels t := by simpa using (hm.2 n).mp hn
            refine ⟨fun _ => Or.inl ⟨n, Or.inr this, hl⟩, fun _ => ⟨_, rfl⟩⟩
          | some d =>
            have hno : ¬ missing ctxSets t := by
              rintro ⟨l, hl | hl, hnone⟩
              · have : l ∈ (t.wildCards ([], [])).1 := (hm.1 l).mpr (Or.inr hl)
                have h2 : ¬ Api.lookupAll ctxSets (t.wildCards ([], [])).1 = none := by rw [hlp]; simp
                exact h2 ((lookupAll_none_iff ctxSets _).mpr ⟨l, this, hnone⟩)
              · have : l ∈ (t.wildCards ([], [])).2 := (hm.2 l).mpr (Or.inr hl)
                have h2 : ¬ Api.lookupAll ctxSets (t.wildCards ([], [])).2 = none := by rw [hld]; simp
                exact h2 ((lookupAll_none_iff ctxSets _).mpr ⟨l, this, hnone⟩)
            simp only [hno, false_or]
            rw [← ih]
            cases hr : Api.parseAll E K true ctxSets fs with
            | error e => simp
            | ok r => obtain ⟨a, b, c⟩ := r; simp

/-- error classes of ONE string that tokenizes and parses, extended or plain: ill-scoped (free or re-quantified
variable, unknown proposition), too few variable sets — nothing else for `parseOne` -/
theorem error_iff (ext : Bool) (cs : List Char) (toks : List Tok) (t : Tree)
    (h1 : Lex.tokenize K ext cs = .ok toks) (h2 : parseToks toks = .ok t) :
    (∃ e, Api.parseOne E K ext cs = .error e) ↔
      (¬ Scoped (fun n => (E.G.label n).isSome) [] t ∨
        ∃ t', rename (fun n => (E.G.label n).isSome) t = .ok t' ∧ E.G.k < t'.numQuantVars) := by
  simp only [Api.parseOne, h1, h2]
  rw [← C07.rename_ok_iff]
  cases hr : rename (fun n => (E.G.label n).isSome) t with
  | error e => cases e <;> simp
  | ok t' =>
    simp only
    by_cases hk : t'.numQuantVars > E.G.k
    · simp [hk]
    · simp [hk]

variable {C : CharClass} {E} (hC : Lex.CharsOK C) (hE : EnvOK E) (hG : GraphWF E.G) (hA : C12.GraphAsync E.G)
include hC hE hG hA

/-- `model_check_multiple_extended_formulae_dirty`, every list of strings, every context of variable-independent
sets: an error value exactly in the listed cases, a result otherwise — and never a panic. -/
theorem extended_outcome (ctxSets : List (Name × CSet)) (hctx : ∀ e ∈ ctxSets, SetSC e.2) (fs : List (List Char)) :
    ((∃ e, Api.extendedDirty E C E.G.unit0 ctxSets fs = .userError e) ↔
      ∃ f ∈ fs, (∃ e, Api.parseOne E C true f = .error e) ∨
        (∃ t, Api.parseOne E C true f = .ok t ∧ missing ctxSets t)) ∧
    ((∃ rs, Api.extendedDirty E C E.G.unit0 ctxSets fs = .ok rs) ∨
      (∃ e, Api.extendedDirty E C E.G.unit0 ctxSets fs = .userError e)) := by
  have hpe := parseAll_error_iff E C true ctxSets fs
  simp only [true_and] at hpe
  rcases extendedDirty_correct hC hE hG hA ctxSets hctx fs with ⟨e, h1, h2⟩ | ⟨trees, ps, ds, rs, h1, h2, _⟩
  · refine ⟨⟨fun _ => hpe.mp ⟨e, h1⟩, fun _ => ⟨e, h2⟩⟩, Or.inr ⟨e, h2⟩⟩
  · refine ⟨⟨fun hx => ?_, fun h => ?_⟩, Or.inl ⟨rs, h2⟩⟩
    · obtain ⟨e, he⟩ := hx; rw [h2] at he; cases he
    obtain ⟨e, he⟩ := hpe.mpr h
    rw [h1] at he; cases he

/-- the same for `model_check_multiple_formulae_dirty` -/
theorem plain_outcome (fs : List (List Char)) :
    ((∃ e, Api.formulaeDirty E C E.G.unit0 fs = .userError e) ↔
      ∃ f ∈ fs, ∃ e, Api.parseOne E C false f = .error e) ∧
    ((∃ rs, Api.formulaeDirty E C E.G.unit0 fs = .ok rs) ∨
      (∃ e, Api.formulaeDirty E C E.G.unit0 fs = .userError e)) := by
  have hpe := parseAll_error_iff E C false [] fs
  simp only [Bool.false_eq_true, false_and, or_false] at hpe
  rcases formulaeDirty_correct hC hE hG hA fs with ⟨e, h1, h2⟩ | ⟨trees, ps, ds, rs, h1, h2, _⟩
  · refine ⟨⟨fun _ => hpe.mp ⟨e, h1⟩, fun _ => ⟨e, h2⟩⟩, Or.inr ⟨e, h2⟩⟩
  · refine ⟨⟨fun hx => ?_, fun h => ?_⟩, Or.inl ⟨rs, h2⟩⟩
    · obtain ⟨e, he⟩ := hx; rw [h2] at he; cases he
    obtain ⟨e, he⟩ := hpe.mpr h
    rw [h1] at he; cases he

end Hctl.C14
