/-
  The lexing half of the print/parse round trip: the tokenizer maps the canonical rendering of a tree back to the
  canonical token list of the tree (for every tree over valid identifiers).
-/
import HctlProofs.Lemmas.LexerLemmas
namespace Hctl

/-- identifiers for which printing is unambiguous: a proposition must not be spelled like a constant -/
def PropNamesOK : Tree → Prop
  | .atom (.prop n) => constOrProp n = .atom (.prop n)
  | .atom _ => True
  | .un _ c => PropNamesOK c
  | .bin _ l r => PropNamesOK l ∧ PropNamesOK r
  | .hyb _ _ _ c => PropNamesOK c

/-- the tokens of the canonical fully parenthesised rendering -/
def canonToks : Tree → List Tok
  | .atom .tt => [.atom (.prop ['T','r','u','e'])]
  | .atom .ff => [.atom (.prop ['F','a','l','s','e'])]
  | .atom a => [.atom a]
  | .un o c => [.group (.un o :: canonToks c)]
  | .bin o l r => [.group (canonToks l ++ .bin o :: canonToks r)]
  | .hyb o v d c => [.group (.hyb o v d :: canonToks c)]

namespace Lex

def specials : List Char := ['~','&','|','^','=','<','>','!','@','\\','(',')','{','}','%',':',' ']

structure CharsOK (K : CharClass) : Prop where
  ws_not_name : ∀ c, K.isWs c = true → isName K c = false
  special_not_name : ∀ c ∈ specials, isName K c = false
  special_not_ws : ∀ c ∈ specials, c ≠ ' ' → K.isWs c = false
  space_ws : K.isWs ' ' = true
  letters : ∀ c ∈ ['T','r','u','e','F','a','l','s','X','G','U','W','E','A','i','n','V','3','x','v','t','f','o','b','d','j','m','p'], K.isAlnum c = true
  digits : ∀ c : Char, c.isDigit = true → K.isAlnum c = true

variable {K : CharClass} (hK : CharsOK K) (ext : Bool)
include hK

theorem lex_ws (n : Nat) (top : Bool) (cs : List Char) :
    lexRec K ext (n + 1) top (' ' :: cs) = lexRec K ext n top cs := by
  simp [lexRec, hK.space_ws]

theorem lex_not (n : Nat) (top : Bool) (cs : List Char) :
    lexRec K ext (n + 1) top ('~' :: cs) = cons (.un .not) (lexRec K ext n top cs) := by
  have h1 : K.isWs '~' = false := hK.special_not_ws _ (by simp [specials]) (by decide)
  simp [lexRec, h1]

theorem lex_close (n : Nat) (cs : List Char) :
    lexRec K ext (n + 1) false (')' :: cs) = .ok ([], cs) := by
  have h1 : K.isWs ')' = false := hK.special_not_ws _ (by simp [specials]) (by decide)
  simp [lexRec, h1, isTempOp]

theorem lex_open (n : Nat) (top : Bool) (cs : List Char) (grp : List Tok) (rest : List Char)
    (hg : lexRec K ext n false cs = .ok (grp, rest)) :
    lexRec K ext (n + 1) top ('(' :: cs) = cons (.group grp) (lexRec K ext n top rest) := by
  have h1 : K.isWs '(' = false := hK.special_not_ws _ (by simp [specials]) (by decide)
  simp [lexRec, h1, isTempOp, hg]

/-- symbolic binary operators -/
theorem lex_binsym (o : BinOp) (ho : o = .and ∨ o = .or ∨ o = .xor ∨ o = .imp ∨ o = .iff) (n : Nat) (top : Bool) (cs : List Char) :
    lexRec K ext (n + 1) top (o.str ++ cs) = cons (.bin o) (lexRec K ext n top cs) := by
  have h1 : K.isWs '&' = false := hK.special_not_ws _ (by simp [specials]) (by decide)
  have h2 : K.isWs '|' = false := hK.special_not_ws _ (by simp [specials]) (by decide)
  have h3 : K.isWs '^' = false := hK.special_not_ws _ (by simp [specials]) (by decide)
  have h4 : K.isWs '=' = false := hK.special_not_ws _ (by simp [specials]) (by decide)
  have h5 : K.isWs '<' = false := hK.special_not_ws _ (by simp [specials]) (by decide)
  rcases ho with rfl | rfl | rfl | rfl | rfl <;> simp [lexRec, BinOp.str, h1, h2, h3, h4, h5]

omit hK in
theorem isName_under : isName K '_' = true := by simp [isName]

theorem name_not_ws {c : Char} (hc : isName K c = true) : K.isWs c = false := by
  cases h : K.isWs c with
  | false => rfl
  | true => rw [hK.ws_not_name c h] at hc; cases hc

theorem letter_name {c : Char} (h : c ∈ ['T','r','u','e','F','a','l','s','X','G','U','W','E','A','i','n','V','3','x','v','t','f','o','b','d','j','m','p']) :
    isName K c = true := by
  simp [isName, hK.letters c h]

/-- what follows a name in a rendering: the end of the text or a character that cannot continue a name -/
def Sep (K : CharClass) (rest : List Char) : Prop := ∀ c, rest.head? = some c → isName K c = false

omit hK in
theorem collectName_app (n rest : List Char) (hn : ∀ c ∈ n, isName K c = true) (hs : Sep K rest) :
    collectName K (n ++ rest) = (n, rest) := by
  induction n with
  | nil =>
    cases rest with
    | nil => rfl
    | cons c cs =>
      have := hs c rfl
      simp [collectName, this]
  | cons c n ih =>
    have hc := hn c (by simp)
    simp only [List.cons_append, collectName, hc, if_true]
    rw [ih (fun x hx => hn x (by simp [hx]))]

theorem sep_special {c : Char} (hc : c ∈ specials) (cs : List Char) : Sep K (c :: cs) := by
  intro x hx
  simp only [List.head?_cons, Option.some.injEq] at hx
  subst hx
  exact hK.special_not_name _ hc

omit hK in
theorem sep_nil : Sep K [] := by intro x hx; simp at hx

/-- temporal operators (two letters) followed by a non-name character -/
theorem lex_temp (c c2 c3 : Char) (t : Tok) (ht : tempUn c c2 = some t) (h3 : isName K c3 = false)
    (n : Nat) (top : Bool) (cs : List Char) :
    lexRec K ext (n + 1) top (c :: c2 :: c3 :: cs) = cons t (lexRec K ext n top (c3 :: cs)) := by
  have hE : K.isWs 'E' = false := name_not_ws hK (letter_name hK (by simp))
  have hA : K.isWs 'A' = false := name_not_ws hK (letter_name hK (by simp))
  unfold tempUn at ht
  split at ht <;> first
    | (cases ht; simp [lexRec, hE, hA, isTempOp, h3, tempUn])
    | cases ht

/-- identifiers inside braces / percent signs: non-empty, name characters only -/
def ValidId (K : CharClass) (n : Name) : Prop := n ≠ [] ∧ ∀ c ∈ n, isName K c = true

/-- proposition names the tokenizer can produce: additionally not spelled like an operator -/
def ValidName (K : CharClass) (n : Name) : Prop :=
  ValidId K n ∧ n ≠ ['3'] ∧ n ≠ ['V'] ∧ ∀ c c2, n = [c, c2] → tempUn c c2 = none

theorem lex_var (v : Name) (hv : ValidId K v) (n : Nat) (top : Bool) (rest : List Char) :
    lexRec K ext (n + 1) top ('{' :: (v ++ '}' :: rest)) = cons (.atom (.var v)) (lexRec K ext n top rest) := by
  have h1 : K.isWs '{' = false := hK.special_not_ws _ (by simp [specials]) (by decide)
  have h2 := collectName_app v ('}' :: rest) hv.2 (sep_special hK (by simp [specials]) rest)
  have h3 : v.isEmpty = false := by cases v with | nil => exact absurd rfl hv.1 | cons _ _ => rfl
  simp [lexRec, h1, isTempOp, h2, h3, expect]

theorem lex_wild (v : Name) (hv : ValidId K v) (n : Nat) (top : Bool) (rest : List Char) :
    lexRec K true (n + 1) top ('%' :: (v ++ '%' :: rest)) = cons (.atom (.wild v)) (lexRec K true n top rest) := by
  have h1 : K.isWs '%' = false := hK.special_not_ws _ (by simp [specials]) (by decide)
  have h2 := collectName_app v ('%' :: rest) hv.2 (sep_special hK (by simp [specials]) rest)
  have h3 : v.isEmpty = false := by cases v with | nil => exact absurd rfl hv.1 | cons _ _ => rfl
  simp [lexRec, h1, isTempOp, h2, h3, expect]

theorem name_ne_special {c : Char} (hc : isName K c = true) : ∀ s ∈ specials, c ≠ s := by
  intro s hs h
  subst h
  rw [hK.special_not_name _ hs] at hc
  cases hc

omit hK in
theorem tempUn_some_of {c c2 : Char} (h1 : (decide (c = 'E') || decide (c = 'A')) = true) (h2 : isTempOp (some c2) = true) :
    ∃ t, tempUn c c2 = some t := by
  simp only [Bool.or_eq_true, decide_eq_true_eq] at h1
  simp only [isTempOp, Bool.or_eq_true, beq_iff_eq] at h2
  rcases h1 with rfl | rfl <;> rcases h2 with (((rfl | rfl) | rfl) | rfl) | rfl <;> exact ⟨_, rfl⟩

theorem lex_name (nm : Name) (hv : ValidName K nm) (n : Nat) (top : Bool) (rest : List Char) (hs : Sep K rest) :
    lexRec K ext (n + 1) top (nm ++ rest) = cons (.atom (.prop nm)) (lexRec K ext n top rest) := by
  obtain ⟨⟨hne, hall⟩, h3, hV, hkw⟩ := hv
  cases nm with
  | nil => exact absurd rfl hne
  | cons c n' =>
    have hc : isName K c = true := hall c (by simp)
    have hws := name_not_ws hK hc
    have hsp := name_ne_special hK hc
    have e1 := hsp '~' (by simp [specials])
    have e2 := hsp '&' (by simp [specials])
    have e3 := hsp '|' (by simp [specials])
    have e4 := hsp '^' (by simp [specials])
    have e5 := hsp '=' (by simp [specials])
    have e6 := hsp '<' (by simp [specials])
    have e7 := hsp '>' (by simp [specials])
    have e8 := hsp '!' (by simp [specials])
    have e9 := hsp '@' (by simp [specials])
    have e10 := hsp '\\' (by simp [specials])
    have e11 := hsp '(' (by simp [specials])
    have e12 := hsp ')' (by simp [specials])
    have e13 := hsp '{' (by simp [specials])
    have e14 := hsp '%' (by simp [specials])
    have hn' : ∀ x ∈ n', isName K x = true := fun x hx => hall x (by simp [hx])
    simp only [List.cons_append, lexRec, hws, Bool.false_eq_true, if_false, e1, e2, e3, e4, e5, e6, e7, e8, e9, e10, e11, e12, e13,
      e14, decide_false, Bool.false_and]
    by_cases hEA : ((decide (c = 'E') || decide (c = 'A')) && isTempOp (n' ++ rest).head?) = true
    · rw [if_pos hEA]
      simp only [Bool.and_eq_true] at hEA
      cases n' with
      | nil =>
        exfalso
        cases rest with
        | nil => simp [isTempOp] at hEA
        | cons r rs =>
          have hr := hs r rfl
          have : isTempOp (some r) = true := by simpa using hEA.2
          simp only [isTempOp, Bool.or_eq_true, beq_iff_eq] at this
          rcases this with (((rfl | rfl) | rfl) | rfl) | rfl <;>
            (rw [letter_name hK (by simp)] at hr; cases hr)
      | cons c2 n'' =>
        have h2 : isTempOp (some c2) = true := by simpa using hEA.2
        cases n'' with
        | nil =>
          exfalso
          obtain ⟨t, ht⟩ := tempUn_some_of hEA.1 h2
          rw [hkw c c2 rfl] at ht
          cases ht
        | cons c3 n3 =>
          have hc3 : isName K c3 = true := hall c3 (by simp)
          have := collectName_app (c3 :: n3) rest (fun x hx => hn' x (List.mem_cons_of_mem _ hx)) hs
          simp only [List.cons_append] at this
          simp [hc3, this]
    · rw [if_neg hEA]
      have hnext : ∀ d, c = d → (d = '3' ∨ d = 'V') → nextIsName K (n' ++ rest) = true := by
        intro d hd hd'
        cases n' with
        | nil => exfalso; subst hd; rcases hd' with rfl | rfl <;> simp_all
        | cons c2 _ => simp [nextIsName, hall c2 (by simp)]
      have c3 : ¬ (decide (c = '3') && !nextIsName K (n' ++ rest)) = true := by
        intro h
        simp only [Bool.and_eq_true, decide_eq_true_eq, Bool.not_eq_true'] at h
        rw [hnext '3' h.1 (Or.inl rfl)] at h
        cases h.2
      have cV : ¬ (decide (c = 'V') && !nextIsName K (n' ++ rest)) = true := by
        intro h
        simp only [Bool.and_eq_true, decide_eq_true_eq, Bool.not_eq_true'] at h
        rw [hnext 'V' h.1 (Or.inr rfl)] at h
        cases h.2
      rw [if_neg c3, if_neg cV]
      simp [hc, collectName_app n' rest hn' hs]

omit hK in
theorem skipWs_nonws {c : Char} (cs : List Char) (h : K.isWs c = false) : skipWs K (c :: cs) = c :: cs := by
  simp [skipWs, h]

theorem cvd_render_none (pd : Bool) (v : Name) (hv : ValidId K v) (rest : List Char) :
    collectVarDom K pd ('{' :: (v ++ '}' :: ':' :: rest)) = some (v, none, rest) := by
  have h1 : K.isWs '{' = false := hK.special_not_ws _ (by simp [specials]) (by decide)
  have h1' : K.isWs ':' = false := hK.special_not_ws _ (by simp [specials]) (by decide)
  have h2 := collectName_app v ('}' :: ':' :: rest) hv.2 (sep_special hK (by simp [specials]) _)
  have h3 : v.isEmpty = false := by cases v with | nil => exact absurd rfl hv.1 | cons _ _ => rfl
  cases pd <;> simp [collectVarDom, domPart, skipWs, h1, h1', expect, h2, h3]

theorem cvd_render_some (v dn : Name) (hv : ValidId K v) (hd : ValidId K dn) (rest : List Char) :
    collectVarDom K true ('{' :: (v ++ '}' :: ' ' :: 'i' :: 'n' :: ' ' :: '%' :: (dn ++ '%' :: ':' :: rest)))
      = some (v, some dn, rest) := by
  have h1 : K.isWs '{' = false := hK.special_not_ws _ (by simp [specials]) (by decide)
  have h1' : K.isWs ':' = false := hK.special_not_ws _ (by simp [specials]) (by decide)
  have h1'' : K.isWs '%' = false := hK.special_not_ws _ (by simp [specials]) (by decide)
  have h2 := collectName_app v ('}' :: ' ' :: 'i' :: 'n' :: ' ' :: '%' :: (dn ++ '%' :: ':' :: rest)) hv.2
    (sep_special hK (by simp [specials]) _)
  have h2' := collectName_app dn ('%' :: ':' :: rest) hd.2 (sep_special hK (by simp [specials]) _)
  have h3 : v.isEmpty = false := by cases v with | nil => exact absurd rfl hv.1 | cons _ _ => rfl
  have h3' : dn.isEmpty = false := by cases dn with | nil => exact absurd rfl hd.1 | cons _ _ => rfl
  have hi : K.isWs 'i' = false := name_not_ws hK (letter_name hK (by simp))
  simp [collectVarDom, domPart, skipWs, h1, h1', h1'', hi, hK.space_ws, expect, h2, h2', h3, h3']

theorem lex_hyb_none (o : HybOp) (v : Name) (hv : ValidId K v) (n : Nat) (top : Bool) (rest : List Char) :
    lexRec K ext (n + 1) top (o.str ++ '{' :: (v ++ '}' :: ':' :: rest)) = cons (.hyb o v none) (lexRec K ext n top rest) := by
  have h1 : K.isWs '!' = false := hK.special_not_ws _ (by simp [specials]) (by decide)
  have h2 : K.isWs '@' = false := hK.special_not_ws _ (by simp [specials]) (by decide)
  have h3 : K.isWs '3' = false := name_not_ws hK (letter_name hK (by simp))
  have h4 : K.isWs 'V' = false := name_not_ws hK (letter_name hK (by simp))
  have hb : isName K '{' = false := hK.special_not_name _ (by simp [specials])
  have hc := fun pd => cvd_render_none hK pd v hv rest
  cases o <;> simp [HybOp.str, lexRec, h1, h2, h3, h4, isTempOp, nextIsName, hb, hc]

theorem lex_hyb_some (o : HybOp) (ho : o ≠ .jump) (v dn : Name) (hv : ValidId K v) (hd : ValidId K dn) (n : Nat) (top : Bool)
    (rest : List Char) :
    lexRec K true (n + 1) top (o.str ++ '{' :: (v ++ '}' :: ' ' :: 'i' :: 'n' :: ' ' :: '%' :: (dn ++ '%' :: ':' :: rest)))
      = cons (.hyb o v (some dn)) (lexRec K true n top rest) := by
  have h1 : K.isWs '!' = false := hK.special_not_ws _ (by simp [specials]) (by decide)
  have h3 : K.isWs '3' = false := name_not_ws hK (letter_name hK (by simp))
  have h4 : K.isWs 'V' = false := name_not_ws hK (letter_name hK (by simp))
  have hb : isName K '{' = false := hK.special_not_name _ (by simp [specials])
  have hc := cvd_render_some hK v dn hv hd rest
  cases o with
  | jump => exact absurd rfl ho
  | bind => simp [HybOp.str, lexRec, h1, isTempOp, hc]
  | ex => simp [HybOp.str, lexRec, h3, isTempOp, nextIsName, hb, hc]
  | all => simp [HybOp.str, lexRec, h4, isTempOp, nextIsName, hb, hc]

omit hK in
theorem lexRec_mono_le {n m : Nat} {top : Bool} {cs : List Char} {r : List Tok × List Char} (hnm : n ≤ m)
    (h : lexRec K ext n top cs = .ok r) : lexRec K ext m top cs = .ok r := by
  induction hnm with
  | refl => exact h
  | step _ ih => exact lexRec_mono1 K ext _ _ _ _ ih

/-- trees whose identifiers the tokenizer can produce (what "valid identifiers" means for the constructors) -/
def TreeOK (K : CharClass) : Tree → Prop
  | .atom (.prop n) => ValidName K n
  | .atom (.var v) => ValidId K v
  | .atom (.wild v) => ValidId K v
  | .atom _ => True
  | .un _ c => TreeOK K c
  | .bin _ l r => TreeOK K l ∧ TreeOK K r
  | .hyb o v d c => ValidId K v ∧ (match d with | none => True | some dn => o ≠ .jump ∧ ValidId K dn) ∧ TreeOK K c

theorem validName_true : ValidName K ['T','r','u','e'] := by
  refine ⟨⟨by simp, ?_⟩, by simp, by simp, by simp⟩
  intro c hc
  exact letter_name hK (by simp at hc ⊢; rcases hc with rfl | rfl | rfl | rfl <;> simp)

theorem validName_false : ValidName K ['F','a','l','s','e'] := by
  refine ⟨⟨by simp, ?_⟩, by simp, by simp, by simp⟩
  intro c hc
  exact letter_name hK (by simp at hc ⊢; rcases hc with rfl | rfl | rfl | rfl | rfl <;> simp)

omit hK in
theorem unop_str (o : UnOp) (ho : o ≠ .not) : ∃ a b, o.str = [a, b] ∧ tempUn a b = some (.un o) := by
  cases o <;> first | exact absurd rfl ho | exact ⟨_, _, rfl, rfl⟩

omit hK in
theorem binop_str (o : BinOp) : (o = .and ∨ o = .or ∨ o = .xor ∨ o = .imp ∨ o = .iff) ∨
    ∃ a b, o.str = [a, b] ∧ tempUn a b = some (.bin o) := by
  cases o
  · exact Or.inl (Or.inl rfl)
  · exact Or.inl (Or.inr (Or.inl rfl))
  · exact Or.inl (Or.inr (Or.inr (Or.inl rfl)))
  · exact Or.inl (Or.inr (Or.inr (Or.inr (Or.inl rfl))))
  · exact Or.inl (Or.inr (Or.inr (Or.inr (Or.inr rfl))))
  all_goals exact Or.inr ⟨_, _, rfl, rfl⟩

/-- lexing a group: the text of the group's content, then `)` -/
theorem lex_group (n N : Nat) (top : Bool) (body rest rem : List Char) (grp ts : List Tok) (k : Nat)
    (hbody : lexRec K ext k false body = .ok (grp, rest))
    (hrest : lexRec K ext n top rest = .ok (ts, rem)) (hN : n + 1 ≤ N) (hk : k + 1 ≤ N) :
    lexRec K ext N top ('(' :: body) = .ok (.group grp :: ts, rem) := by
  obtain ⟨M, rfl⟩ : ∃ M, N = M + 1 := ⟨N - 1, by omega⟩
  rw [lex_open hK ext M top body grp rest (lexRec_mono_le ext (by omega) hbody),
    lexRec_mono_le ext (by omega) hrest]
  rfl

theorem lex_render : ∀ (t : Tree), TreeOK K t → (ext = true ∨ Plain t) → ∀ (n N : Nat) (top : Bool) (rest rem : List Char) (ts : List Tok),
    Sep K rest → lexRec K ext n top rest = .ok (ts, rem) → n + t.render.length ≤ N →
    lexRec K ext N top (t.render ++ rest) = .ok (canonToks t ++ ts, rem) := by
  intro t
  induction t with
  | atom a =>
    intro ht hx n N top rest rem ts hs h hN
    have name_case : ∀ nm, ValidName K nm → n + nm.length ≤ N →
        lexRec K ext N top (nm ++ rest) = .ok (.atom (.prop nm) :: ts, rem) := by
      intro nm hv hN
      have : nm.length ≠ 0 := by
        intro h0; exact hv.1.1 (List.eq_nil_of_length_eq_zero h0)
      obtain ⟨M, rfl⟩ : ∃ M, N = M + 1 := ⟨N - 1, by omega⟩
      rw [lex_name hK ext nm hv M top rest hs, lexRec_mono_le ext (by omega) h]
      rfl
    cases a with
    | prop nm => exact name_case nm ht (by simpa [Tree.render, Atom.str] using hN)
    | tt => exact name_case _ (validName_true hK) (by simpa [Tree.render, Atom.str] using hN)
    | ff => exact name_case _ (validName_false hK) (by simpa [Tree.render, Atom.str] using hN)
    | var v =>
      simp only [Tree.render, Atom.str, List.length_cons, List.length_append, List.length_nil] at hN
      obtain ⟨M, rfl⟩ : ∃ M, N = M + 1 := ⟨N - 1, by omega⟩
      simp only [Tree.render, Atom.str, List.cons_append, List.append_assoc, List.nil_append]
      rw [lex_var hK ext v ht M top rest, lexRec_mono_le ext (by omega) h]
      rfl
    | wild v =>
      simp only [Tree.render, Atom.str, List.length_cons, List.length_append, List.length_nil] at hN
      obtain ⟨M, rfl⟩ : ∃ M, N = M + 1 := ⟨N - 1, by omega⟩
      simp only [Tree.render, Atom.str, List.cons_append, List.append_assoc, List.nil_append]
      have hext : ext = true := by
        rcases hx with h | h
        · exact h
        · simp [Plain] at h
      subst hext
      rw [lex_wild hK v ht M top rest, lexRec_mono_le true (by omega) h]
      rfl
  | un o c ih =>
    intro ht hx n N top rest rem ts hs h hN
    have e0 : lexRec K ext 1 false (')' :: rest) = .ok ([], rest) := lex_close hK ext 0 rest
    have e1 := ih ht (hx.imp id (fun h => by simpa [Plain] using h)) 1 (1 + c.render.length) false (')' :: rest) rest [] (sep_special hK (by simp [specials]) rest) e0
      (Nat.le_refl _)
    by_cases ho : o = .not
    · subst ho
      simp only [Tree.render, List.length_cons, List.length_append, List.length_nil] at hN
      simp only [Tree.render, List.cons_append, List.append_assoc, List.nil_append, canonToks]
      have e2 : lexRec K ext (1 + c.render.length + 1) false ('~' :: (c.render ++ ')' :: rest))
          = .ok (.un .not :: canonToks c, rest) := by
        rw [lex_not hK ext, e1]; simp [cons]
      exact lex_group hK ext n N top _ rest rem _ ts _ e2 h (by omega) (by omega)
    · obtain ⟨a, b, hab, htab⟩ := unop_str o ho
      have hrender : (Tree.un o c).render = '(' :: a :: b :: ' ' :: (c.render ++ [')']) := by
        cases o <;> first | exact absurd rfl ho | (simp [UnOp.str] at hab; obtain ⟨rfl, rfl⟩ := hab; simp [Tree.render, UnOp.str])
      rw [hrender] at hN ⊢
      simp only [List.length_cons, List.length_append, List.length_nil] at hN
      simp only [List.cons_append, List.append_assoc, List.nil_append, canonToks]
      have e2 : lexRec K ext (1 + c.render.length + 1 + 1) false (a :: b :: ' ' :: (c.render ++ ')' :: rest))
          = .ok (.un o :: canonToks c, rest) := by
        rw [lex_temp hK ext a b ' ' _ htab (hK.special_not_name _ (by simp [specials])), lex_ws hK ext, e1]
        simp [cons]
      exact lex_group hK ext n N top _ rest rem _ ts _ e2 h (by omega) (by omega)
  | bin o l r ihl ihr =>
    intro ht hx n N top rest rem ts hs h hN
    have e0 : lexRec K ext 1 false (')' :: rest) = .ok ([], rest) := lex_close hK ext 0 rest
    have e1 := ihr ht.2 (hx.imp id (fun h => by simp only [Plain] at h; exact h.2)) 1 (1 + r.render.length) false (')' :: rest) rest [] (sep_special hK (by simp [specials]) rest) e0
      (Nat.le_refl _)
    simp only [List.append_nil] at e1
    simp only [Tree.render, List.length_cons, List.length_append, List.length_nil] at hN
    simp only [Tree.render, List.cons_append, List.append_assoc, List.nil_append, canonToks]
    -- the operator and the right operand
    have e2 : lexRec K ext (1 + r.render.length + 1 + o.str.length + 1) false
        (' ' :: (o.str ++ ' ' :: (r.render ++ ')' :: rest))) = .ok (.bin o :: canonToks r, rest) := by
      rcases binop_str o with hsym | ⟨a, b, hab, htab⟩
      · rw [lex_ws hK ext]
        have : 1 + r.render.length + 1 + o.str.length = (1 + r.render.length + 1 + (o.str.length - 1)) + 1 := by
          rcases hsym with rfl | rfl | rfl | rfl | rfl <;> simp [BinOp.str]
        rw [this, lex_binsym hK ext o hsym]
        rw [lexRec_mono_le ext (by omega) (show lexRec K ext (1 + r.render.length + 1) false (' ' :: (r.render ++ ')' :: rest)) = _ from by
          rw [lex_ws hK ext, e1])]
        rfl
      · rw [lex_ws hK ext, hab]
        simp only [List.length_cons, List.length_nil, List.cons_append, List.nil_append]
        rw [lex_temp hK ext a b ' ' _ htab (hK.special_not_name _ (by simp [specials]))]
        rw [lexRec_mono_le ext (by omega) (show lexRec K ext (1 + r.render.length + 1) false (' ' :: (r.render ++ ')' :: rest)) = _ from by
          rw [lex_ws hK ext, e1])]
        rfl
    have e3 := ihl ht.1 (hx.imp id (fun h => by simp only [Plain] at h; exact h.1)) _ (1 + r.render.length + 1 + o.str.length + 1 + l.render.length) false _ rest (.bin o :: canonToks r)
      (sep_special hK (by simp [specials]) _) e2 (Nat.le_refl _)
    exact lex_group hK ext n N top _ rest rem _ ts _ e3 h (by omega) (by omega)
  | hyb o v d c ih =>
    intro ht hx n N top rest rem ts hs h hN
    obtain ⟨hv, hd, hc⟩ := ht
    have e0 : lexRec K ext 1 false (')' :: rest) = .ok ([], rest) := lex_close hK ext 0 rest
    have e1 := ih hc (hx.imp id (fun h => by simp only [Plain] at h; exact h.2)) 1 (1 + c.render.length) false (')' :: rest) rest [] (sep_special hK (by simp [specials]) rest) e0
      (Nat.le_refl _)
    simp only [List.append_nil] at e1
    have hol : o.str.length = 1 := by cases o <;> rfl
    cases d with
    | none =>
      simp only [Tree.render, domStr, List.length_cons, List.length_append, List.length_nil] at hN
      simp only [Tree.render, domStr, List.cons_append, List.append_assoc, List.nil_append, canonToks]
      have e2 : lexRec K ext (1 + c.render.length + 1 + 1) false
          (o.str ++ '{' :: (v ++ '}' :: ':' :: ' ' :: (c.render ++ ')' :: rest))) = .ok (.hyb o v none :: canonToks c, rest) := by
        rw [lex_hyb_none hK ext o v hv, lex_ws hK ext, e1]; rfl
      exact lex_group hK ext n N top _ rest rem _ ts _ e2 h (by omega) (by omega)
    | some dn =>
      simp only [Tree.render, domStr, List.length_cons, List.length_append, List.length_nil] at hN
      simp only [Tree.render, domStr, List.cons_append, List.append_assoc, List.nil_append, canonToks]
      have e2 : lexRec K ext (1 + c.render.length + 1 + 1) false
          (o.str ++ '{' :: (v ++ '}' :: ' ' :: 'i' :: 'n' :: ' ' :: '%' :: (dn ++ '%' :: ':' :: ' ' :: (c.render ++ ')' :: rest))))
            = .ok (.hyb o v (some dn) :: canonToks c, rest) := by
        have hext : ext = true := by
          rcases hx with h | h
          · exact h
          · simp [Plain] at h
        subst hext
        rw [lex_hyb_some hK o hd.1 v dn hv hd.2, lex_ws hK true, e1]; rfl
      exact lex_group hK ext n N top _ rest rem _ ts _ e2 h (by simp at hN ⊢; omega) (by simp at hN ⊢; omega)

/-- MAIN: the tokenizer turns the canonical rendering of a tree back into the tree's canonical tokens — for every
tree over valid identifiers, of any size; the plain tokenizer does so for every tree without wild-cards and domains. -/
theorem tokenize_render (t : Tree) (ht : TreeOK K t) (hx : ext = true ∨ Plain t) :
    tokenize K ext t.render = .ok (canonToks t) := by
  have h0 : lexRec K ext 1 true [] = .ok ([], []) := by simp [lexRec]
  have := lex_render hK ext t ht hx 1 (t.render.length + 1) true [] [] [] sep_nil h0 (by omega)
  simp only [List.append_nil] at this
  simp [tokenize, this]

end Lex
end Hctl
