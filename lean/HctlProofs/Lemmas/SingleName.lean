/-
  Trees with a single variable name.  If a depth-named, well-scoped tree all of whose variable positions carry one
  name has the same canonical form as another depth-named, well-scoped tree, then the other tree has a single
  variable name too.  (This is what makes "keys with at most one variable" a property of the KEY.)
-/
import HctlProofs.Lemmas.KeyProof
namespace Hctl
open C09

def OnlyVar (v : Name) (t : Tree) : Prop := ∀ x ∈ varNames t, x = v

/-- no quantifier inside -/
def NoBind : Tree → Prop
  | .atom _ => True
  | .un _ c => NoBind c
  | .bin _ l r => NoBind l ∧ NoBind r
  | .hyb o _ _ c => o = .jump ∧ NoBind c

/-- closed, flat, single-named: every variable occurrence lies in the body of a quantifier for `v`, quantifiers are
not nested -/
def Flat (v : Name) : Tree → Prop
  | .atom (.var _) => False
  | .atom _ => True
  | .un _ c => Flat v c
  | .bin _ l r => Flat v l ∧ Flat v r
  | .hyb o x _ c => o ≠ .jump ∧ x = v ∧ NoBind c ∧ OnlyVar v c

theorem Flat.onlyVar {v : Name} : ∀ {t : Tree}, Flat v t → OnlyVar v t := by
  intro t
  induction t with
  | atom a => intro h; cases a <;> simp_all [Flat, OnlyVar, varNames]
  | un o c ih => intro h; exact ih h
  | bin o l r ihl ihr =>
    intro h x hx
    simp only [varNames, List.mem_append] at hx
    rcases hx with hx | hx
    · exact ihl h.1 x hx
    · exact ihr h.2 x hx
  | hyb o y d c ih =>
    intro h x hx
    simp only [varNames, List.mem_cons] at hx
    rcases hx with rfl | hx
    · exact h.2.1
    · exact h.2.2.2 x hx

theorem mem_lookup {st : CanonT} (h : CanonInv st) {x c : Name} (hm : (x, c) ∈ st.map) : st.map.lookup x = some c := by
  cases hl : st.map.lookup x with
  | none =>
    exfalso
    have : ∀ m : List (Name × Name), (x, c) ∈ m → m.lookup x ≠ none := by
      intro m
      induction m with
      | nil => intro h; simp at h
      | cons e m ih =>
        intro hm
        obtain ⟨k, v⟩ := e
        simp only [List.lookup]
        by_cases hk : x = k
        · subst hk; simp
        · have hb : (x == k) = false := beq_eq_false_iff_ne.mpr hk
          simp only [hb]
          simp only [List.mem_cons, Prod.mk.injEq] at hm
          rcases hm with ⟨h1, _⟩ | hm
          · exact absurd h1 hk
          · exact ih hm
    exact this _ hm hl
  | some c' => rw [h.keys x c c' hm (lookup_mem' _ hl)]

/-! ### binder-free trees -/

/-- all occurrences already mapped to `cn`: nothing changes, the canonical form carries `cn` everywhere -/
theorem nb_fwd (y cn : Name) : ∀ (b : Tree) (st : CanonT), NoBind b → OnlyVar y b → st.map.lookup y = some cn →
    canonTreeAux b st = (b.mapVars (fun _ => cn), st) := by
  intro b
  induction b with
  | atom a =>
    intro st _ ho hl
    cases a with
    | var z =>
      have : z = y := ho z (by simp [varNames])
      subst this
      simp [canonTreeAux, canonVar, hl, Tree.mapVars]
    | _ => simp [canonTreeAux, Tree.mapVars]
  | un o c ih =>
    intro st hn ho hl
    simp [canonTreeAux, Tree.mapVars, ih st hn ho hl]
  | bin o l r ihl ihr =>
    intro st hn ho hl
    have hol : OnlyVar y l := fun x hx => ho x (by simp [varNames, hx])
    have hor : OnlyVar y r := fun x hx => ho x (by simp [varNames, hx])
    simp [canonTreeAux, Tree.mapVars, ihl st hn.1 hol hl, ihr st hn.2 hor hl]
  | hyb o z d c ih =>
    intro st hn ho hl
    obtain ⟨hj, hnc⟩ := hn
    subst hj
    have hz : z = y := ho z (by simp [varNames])
    subst hz
    have hoc : OnlyVar z c := fun x hx => ho x (by simp [varNames, hx])
    simp [canonTreeAux, canonVar, hl, Tree.mapVars, ih st hnc hoc hl]

/-- conversely: if `y` is mapped to `cn` and every variable position of the canonical form is `cn`, then every
variable position of the tree is `y` -/
theorem nb_bwd (y cn : Name) : ∀ (b : Tree) (st : CanonT), NoBind b → CanonInv st → st.map.lookup y = some cn →
    (∀ x ∈ varNames (canonTreeAux b st).1, x = cn) → OnlyVar y b := by
  have hvar : ∀ (z : Name) (st : CanonT), CanonInv st → st.map.lookup y = some cn → (canonVar z st).1 = cn → z = y := by
    intro z st hst hl hc
    unfold canonVar at hc
    cases hz : st.map.lookup z with
    | some c' =>
      simp only [hz] at hc
      subst hc
      exact hst.inj z y _ (lookup_mem' _ hz) (lookup_mem' _ hl)
    | none =>
      simp only [hz] at hc
      exfalso
      obtain ⟨j, hj, hcj⟩ := hst.bound y cn (lookup_mem' _ hl)
      rw [hcj] at hc
      have := canonName_inj hc
      omega
  intro b
  induction b with
  | atom a =>
    intro st _ hst hl hT
    cases a with
    | var z =>
      intro x hx
      simp only [varNames, List.mem_singleton] at hx
      subst hx
      exact hvar x st hst hl (hT _ (by simp [canonTreeAux, varNames]))
    | _ => intro x hx; simp [varNames] at hx
  | un o c ih =>
    intro st hn hst hl hT
    exact ih st hn hst hl (by simpa [canonTreeAux, varNames] using hT)
  | bin o l r ihl ihr =>
    intro st hn hst hl hT
    simp only [canonTreeAux, varNames, List.mem_append] at hT
    have hol := ihl st hn.1 hst hl (fun x hx => hT x (Or.inl hx))
    have e := nb_fwd y cn l st hn.1 hol hl
    have hor := ihr st hn.2 hst hl (by
      intro x hx
      apply hT x
      right
      rw [e]
      exact hx)
    intro x hx
    simp only [varNames, List.mem_append] at hx
    rcases hx with hx | hx
    · exact hol x hx
    · exact hor x hx
  | hyb o z d c ih =>
    intro st hn hst hl hT
    obtain ⟨hj, hnc⟩ := hn
    subst hj
    simp only [canonTreeAux, if_true, varNames, List.mem_cons] at hT
    have hz : z = y := hvar z st hst hl (hT _ (Or.inl rfl))
    subst hz
    have hst' : (canonVar z st).2 = st := by simp [canonVar, hl]
    have hoc := ih st hnc hst hl (by
      intro x hx
      apply hT x
      right
      rw [hst']
      exact hx)
    intro x hx
    simp only [varNames, List.mem_cons] at hx
    rcases hx with rfl | hx
    · rfl
    · exact hoc x hx

/-- the canonical name `y` has, or will get at its next occurrence -/
def cur (y : Name) (st : CanonT) : Name :=
  match st.map.lookup y with
  | some c => c
  | none => canonName st.stack

theorem canonVar_self (y : Name) (st : CanonT) :
    (canonVar y st).1 = cur y st ∧ (canonVar y st).2.map.lookup y = some (cur y st) := by
  unfold canonVar cur
  cases h : st.map.lookup y with
  | some c => simp [h]
  | none => simp [mapInsert, List.lookup]

/-- binder-free, single-named: the canonical form carries `cur y st` everywhere; afterwards `y` is mapped to it (or
nothing happened) -/
theorem nb_fwd_gen (y : Name) : ∀ (b : Tree) (st : CanonT), NoBind b → OnlyVar y b →
    (canonTreeAux b st).1 = b.mapVars (fun _ => cur y st) ∧
    ((varNames b = [] ∧ (canonTreeAux b st).2 = st) ∨
     (varNames b ≠ [] ∧ (canonTreeAux b st).2.map.lookup y = some (cur y st))) := by
  intro b
  induction b with
  | atom a =>
    intro st _ ho
    cases a with
    | var z =>
      have : z = y := ho z (by simp [varNames])
      subst this
      have := canonVar_self z st
      exact ⟨by simp [canonTreeAux, Tree.mapVars, this.1], Or.inr ⟨by simp [varNames], by simpa [canonTreeAux] using this.2⟩⟩
    | _ => exact ⟨by simp [canonTreeAux, Tree.mapVars], Or.inl ⟨by simp [varNames], by simp [canonTreeAux]⟩⟩
  | un o c ih =>
    intro st hn ho
    have := ih st hn ho
    exact ⟨by simp [canonTreeAux, Tree.mapVars, this.1], by simpa [canonTreeAux, varNames] using this.2⟩
  | bin o l r ihl ihr =>
    intro st hn ho
    have hol : OnlyVar y l := fun x hx => ho x (by simp [varNames, hx])
    have hor : OnlyVar y r := fun x hx => ho x (by simp [varNames, hx])
    have a := ihl st hn.1 hol
    have b := ihr (canonTreeAux l st).2 hn.2 hor
    have hcur : cur y (canonTreeAux l st).2 = cur y st := by
      rcases a.2 with ⟨_, h⟩ | ⟨_, h⟩
      · rw [h]
      · simp [cur, h]
    rw [hcur] at b
    refine ⟨by simp [canonTreeAux, Tree.mapVars, a.1, b.1], ?_⟩
    simp only [canonTreeAux, varNames]
    rcases b.2 with ⟨h1, h2⟩ | ⟨h1, h2⟩
    · rcases a.2 with ⟨h3, h4⟩ | ⟨h3, h4⟩
      · left; exact ⟨by simp [h1, h3], by rw [h2, h4]⟩
      · right; exact ⟨by simp [h3], by rw [h2]; exact h4⟩
    · right; exact ⟨by simp [h1], h2⟩
  | hyb o z d c ih =>
    intro st hn ho
    obtain ⟨hj, hnc⟩ := hn
    subst hj
    have hz : z = y := ho z (by simp [varNames])
    subst hz
    have hoc : OnlyVar z c := fun x hx => ho x (by simp [varNames, hx])
    have hv := canonVar_self z st
    have b := ih (canonVar z st).2 hnc hoc
    have hcur : cur z (canonVar z st).2 = cur z st := by simp [cur, hv.2]
    rw [hcur] at b
    refine ⟨by simp [canonTreeAux, Tree.mapVars, hv.1, b.1], Or.inr ⟨by simp [varNames], ?_⟩⟩
    simp only [canonTreeAux, if_true]
    rcases b.2 with ⟨_, h2⟩ | ⟨_, h2⟩
    · rw [h2]; exact hv.2
    · exact h2

/-- binder-free: if every variable position of the canonical form is `cur y st` and `y` — when not yet mapped — is
the first variable of the tree, then every variable position of the tree is `y` -/
theorem nb_bwd_gen (y : Name) : ∀ (b : Tree) (st : CanonT), NoBind b → CanonInv st →
    (st.map.lookup y = none → ∀ z, (varNames b).head? = some z → z = y) →
    (∀ x ∈ varNames (canonTreeAux b st).1, x = cur y st) → OnlyVar y b := by
  have hvar : ∀ (z : Name) (st : CanonT), CanonInv st → (st.map.lookup y = none → z = y) →
      (canonVar z st).1 = cur y st → z = y := by
    intro z st hst hfirst hc
    cases hl : st.map.lookup y with
    | none => exact hfirst hl
    | some cn =>
      unfold canonVar cur at hc
      simp only [hl] at hc
      cases hz : st.map.lookup z with
      | some c' =>
        simp only [hz] at hc
        subst hc
        exact hst.inj z y _ (lookup_mem' _ hz) (lookup_mem' _ hl)
      | none =>
        simp only [hz] at hc
        exfalso
        obtain ⟨j, hj, hcj⟩ := hst.bound y cn (lookup_mem' _ hl)
        rw [hcj] at hc
        have := canonName_inj hc
        omega
  intro b
  induction b with
  | atom a =>
    intro st _ hst hfirst hT
    cases a with
    | var z =>
      intro x hx
      simp only [varNames, List.mem_singleton] at hx
      subst hx
      exact hvar x st hst (fun h => hfirst h x (by simp [varNames])) (hT _ (by simp [canonTreeAux, varNames]))
    | _ => intro x hx; simp [varNames] at hx
  | un o c ih =>
    intro st hn hst hfirst hT
    exact ih st hn hst (by simpa [varNames] using hfirst) (by simpa [canonTreeAux, varNames] using hT)
  | bin o l r ihl ihr =>
    intro st hn hst hfirst hT
    simp only [canonTreeAux, varNames, List.mem_append] at hT
    have hol := ihl st hn.1 hst (by
      intro h z hz
      apply hfirst h z
      simp only [varNames]
      cases hv : varNames l with
      | nil => simp [hv] at hz
      | cons a as => simp [hv] at hz ⊢; exact hz) (fun x hx => hT x (Or.inl hx))
    have e := nb_fwd_gen y l st hn.1 hol
    have hcur : cur y (canonTreeAux l st).2 = cur y st := by
      rcases e.2 with ⟨_, h⟩ | ⟨_, h⟩
      · rw [h]
      · simp [cur, h]
    have hor := ihr (canonTreeAux l st).2 hn.2 (canonTreeAux_inv l st hst) (by
      intro h z hz
      rcases e.2 with ⟨h1, h2⟩ | ⟨_, h2⟩
      · rw [h2] at h
        apply hfirst h z
        simp [varNames, h1, hz]
      · rw [h2] at h; cases h) (by
      intro x hx
      rw [hcur]
      exact hT x (Or.inr hx))
    intro x hx
    simp only [varNames, List.mem_append] at hx
    rcases hx with hx | hx
    · exact hol x hx
    · exact hor x hx
  | hyb o z d c ih =>
    intro st hn hst hfirst hT
    obtain ⟨hj, hnc⟩ := hn
    subst hj
    simp only [canonTreeAux, if_true, varNames, List.mem_cons] at hT
    have hz : z = y := hvar z st hst (fun h => hfirst h z (by simp [varNames])) (hT _ (Or.inl rfl))
    subst hz
    have hv := canonVar_self z st
    have hcur : cur z (canonVar z st).2 = cur z st := by simp [cur, hv.2]
    have hoc := ih (canonVar z st).2 hnc (canonVar_inv hst z) (by intro h; rw [hv.2] at h; cases h) (by
      intro x hx
      rw [hcur]
      exact hT x (Or.inr hx))
    intro x hx
    simp only [varNames, List.mem_cons] at hx
    rcases hx with rfl | hx
    · rfl
    · exact hoc x hx

/-! ### trees of the same shape -/

theorem shape_noBind (z : Name) : ∀ (t1 t2 : Tree), t1.mapVars (fun _ => z) = t2.mapVars (fun _ => z) → NoBind t1 → NoBind t2 := by
  intro t1
  induction t1 with
  | atom a =>
    intro t2 h _
    cases t2 <;> first | trivial | (cases a <;> simp [Tree.mapVars] at h)
  | un o c ih =>
    intro t2 h hn
    cases t2 with
    | un o' c' => simp only [Tree.mapVars, Tree.un.injEq] at h; exact ih c' h.2 hn
    | atom a => cases a <;> simp [Tree.mapVars] at h
    | bin _ _ _ => simp [Tree.mapVars] at h
    | hyb _ _ _ _ => simp [Tree.mapVars] at h
  | bin o l r ihl ihr =>
    intro t2 h hn
    cases t2 with
    | bin o' l' r' => simp only [Tree.mapVars, Tree.bin.injEq] at h; exact ⟨ihl l' h.2.1 hn.1, ihr r' h.2.2 hn.2⟩
    | atom a => cases a <;> simp [Tree.mapVars] at h
    | un _ _ => simp [Tree.mapVars] at h
    | hyb _ _ _ _ => simp [Tree.mapVars] at h
  | hyb o x d c ih =>
    intro t2 h hn
    cases t2 with
    | hyb o' x' d' c' =>
      simp only [Tree.mapVars, Tree.hyb.injEq] at h
      exact ⟨h.1 ▸ hn.1, ih c' h.2.2.2 hn.2⟩
    | atom a => cases a <;> simp [Tree.mapVars] at h
    | un _ _ => simp [Tree.mapVars] at h
    | bin _ _ _ => simp [Tree.mapVars] at h

/-- flat trees: transfer along equal canonical forms -/
theorem flat_transfer (z v1 : Name) (d2 : Nat) : ∀ (t1 t2 : Tree) (st1 st2 : CanonT),
    Flat v1 t1 → t1.mapVars (fun _ => z) = t2.mapVars (fun _ => z) →
    (canonTreeAux t1 st1).1 = (canonTreeAux t2 st2).1 → st1.stack = st2.stack → CanonInv st1 → CanonInv st2 →
    DepthNamed d2 t2 →
    Flat (xs (d2 + 1)) t2 ∧ (canonTreeAux t1 st1).2.stack = (canonTreeAux t2 st2).2.stack := by
  intro t1
  induction t1 with
  | atom a =>
    intro t2 st1 st2 hf hs hT hst _ _ _
    have key : ∀ a' : Atom, (∀ x, a' ≠ .var x) → Tree.atom a' = t2.mapVars (fun _ => z) →
        Flat (xs (d2 + 1)) t2 ∧ (canonTreeAux (Tree.atom a') st1).2.stack = (canonTreeAux t2 st2).2.stack := by
      intro a' hnv h
      have : t2 = .atom a' := by
        cases t2 with
        | atom b =>
          cases b with
          | var y => simp only [Tree.mapVars, Tree.atom.injEq] at h; exact absurd h (hnv z)
          | _ => simpa [Tree.mapVars] using h.symm
        | un _ _ => simp [Tree.mapVars] at h
        | bin _ _ _ => simp [Tree.mapVars] at h
        | hyb _ _ _ _ => simp [Tree.mapVars] at h
      subst this
      cases a' with
      | var x => exact absurd rfl (hnv x)
      | _ => simp [Flat, canonTreeAux, hst]
    cases a with
    | var x => exact absurd hf (by simp [Flat])
    | prop n => exact key _ (by intro x; simp) (by simpa [Tree.mapVars] using hs)
    | tt => exact key _ (by intro x; simp) (by simpa [Tree.mapVars] using hs)
    | ff => exact key _ (by intro x; simp) (by simpa [Tree.mapVars] using hs)
    | wild w => exact key _ (by intro x; simp) (by simpa [Tree.mapVars] using hs)
  | un o c ih =>
    intro t2 st1 st2 hf hs hT hst h1 h2 hd
    cases t2 with
    | un o' c' =>
      simp only [Tree.mapVars, Tree.un.injEq] at hs
      simp only [canonTreeAux, Tree.un.injEq] at hT
      have := ih c' st1 st2 hf hs.2 hT.2 hst h1 h2 hd
      simpa [Flat, canonTreeAux] using this
    | atom a => cases a <;> simp [Tree.mapVars] at hs
    | bin _ _ _ => simp [Tree.mapVars] at hs
    | hyb _ _ _ _ => simp [Tree.mapVars] at hs
  | bin o l r ihl ihr =>
    intro t2 st1 st2 hf hs hT hst h1 h2 hd
    cases t2 with
    | bin o' l' r' =>
      simp only [Tree.mapVars, Tree.bin.injEq] at hs
      simp only [canonTreeAux, Tree.bin.injEq] at hT
      have a := ihl l' st1 st2 hf.1 hs.2.1 hT.2.1 hst h1 h2 hd.1
      have b := ihr r' _ _ hf.2 hs.2.2 hT.2.2 a.2 (canonTreeAux_inv l st1 h1) (canonTreeAux_inv l' st2 h2) hd.2
      exact ⟨⟨a.1, b.1⟩, by simpa [canonTreeAux] using b.2⟩
    | atom a => cases a <;> simp [Tree.mapVars] at hs
    | un _ _ => simp [Tree.mapVars] at hs
    | hyb _ _ _ _ => simp [Tree.mapVars] at hs
  | hyb o x d c ih =>
    intro t2 st1 st2 hf hs hT hst h1 h2 hd
    obtain ⟨hj, hx, hnc, hoc⟩ := hf
    cases t2 with
    | hyb o' y d' c' =>
      simp only [Tree.mapVars, Tree.hyb.injEq] at hs
      obtain ⟨ho, _, _, hsc⟩ := hs
      subst ho
      simp only [DepthNamed, hj, if_false] at hd
      obtain ⟨hy, _⟩ := hd
      simp only [canonTreeAux, hj, if_false, Tree.hyb.injEq, true_and] at hT
      obtain ⟨_, _, hTc⟩ := hT
      -- the bodies: binder-free, all occurrences are the bound variable
      have hnc' : NoBind c' := shape_noBind z c c' hsc hnc
      subst hx
      have l1 : ({ map := mapInsert x (canonName st1.stack) st1.map, stack := st1.stack + 1 } : CanonT).map.lookup x
          = some (canonName st1.stack) := by simp [mapInsert, List.lookup]
      have l2 : ({ map := mapInsert y (canonName st2.stack) st2.map, stack := st2.stack + 1 } : CanonT).map.lookup y
          = some (canonName st2.stack) := by simp [mapInsert, List.lookup]
      have e1 := nb_fwd x (canonName st1.stack) c _ hnc hoc l1
      rw [e1] at hTc
      have hoc' : OnlyVar y c' := by
        apply nb_bwd y (canonName st2.stack) c' _ hnc' (h2.insert y) l2
        intro w hw
        rw [← hTc, varNames_mapVars] at hw
        obtain ⟨_, _, rfl⟩ := List.mem_map.mp hw
        rw [hst]
      have e2 := nb_fwd y (canonName st2.stack) c' _ hnc' hoc' l2
      refine ⟨⟨hj, hy, hnc', by rw [← hy]; exact hoc'⟩, ?_⟩
      simp only [canonTreeAux, hj, if_false]
      rw [e1, e2]
      simp [hst]
    | atom a => cases a <;> simp [Tree.mapVars] at hs
    | un _ _ => simp [Tree.mapVars] at hs
    | bin _ _ _ => simp [Tree.mapVars] at hs

/-! ### a single-named, depth-named, well-scoped tree is binder-free or flat -/

theorem outer_binder_name (v : Name) : ∀ (t : Tree) (d : Nat), OnlyVar v t → DepthNamed d t → ¬ NoBind t → v = xs (d + 1) := by
  intro t
  induction t with
  | atom a => intro d _ _ h; exact absurd trivial h
  | un o c ih => intro d ho hd h; exact ih d ho hd h
  | bin o l r ihl ihr =>
    intro d ho hd h
    have hol : OnlyVar v l := fun x hx => ho x (by simp [varNames, hx])
    have hor : OnlyVar v r := fun x hx => ho x (by simp [varNames, hx])
    by_cases hl : NoBind l
    · exact ihr d hor hd.2 (fun hr => h ⟨hl, hr⟩)
    · exact ihl d hol hd.1 hl
  | hyb o x dom c ih =>
    intro d ho hd h
    by_cases hj : o = .jump
    · simp only [DepthNamed, hj, if_true] at hd
      exact ih d (fun y hy => ho y (by simp [varNames, hy])) hd.2 (fun hc => h ⟨hj, hc⟩)
    · simp only [DepthNamed, hj, if_false] at hd
      rw [← ho x (by simp [varNames])]
      exact hd.1

theorem flat_of_single (v : Name) (k : Nat) : ∀ (t : Tree) (d : Nat), OnlyVar v t → DepthNamed d t → WellScoped k d t →
    v = xs (d + 1) → Flat v t := by
  intro t
  induction t with
  | atom a =>
    intro d ho _ hw hv
    cases a with
    | var x =>
      exfalso
      have : x = v := ho x (by simp [varNames])
      subst this
      simp only [WellScoped] at hw
      rw [hv, varId_xs] at hw
      omega
    | _ => trivial
  | un o c ih => intro d ho hd hw hv; exact ih d ho hd hw hv
  | bin o l r ihl ihr =>
    intro d ho hd hw hv
    exact ⟨ihl d (fun x hx => ho x (by simp [varNames, hx])) hd.1 hw.1 hv,
      ihr d (fun x hx => ho x (by simp [varNames, hx])) hd.2 hw.2 hv⟩
  | hyb o x dom c ih =>
    intro d ho hd hw hv
    have hx : x = v := ho x (by simp [varNames])
    have hoc : OnlyVar v c := fun y hy => ho y (by simp [varNames, hy])
    by_cases hj : o = .jump
    · exfalso
      simp only [WellScoped, hj, if_true] at hw
      rw [hx, hv, varId_xs] at hw
      omega
    · simp only [DepthNamed, hj, if_false] at hd
      refine ⟨hj, hx, ?_, hoc⟩
      -- a quantifier inside the body would be named xs (d + 2) ≠ v
      apply Classical.byContradiction
      intro hnb
      have := outer_binder_name v c (d + 1) hoc hd.2 hnb
      rw [hv] at this
      have := xs_inj this
      omega

/-- MAIN: equal canonical forms transfer "at most one variable name" between depth-named, well-scoped trees -/
theorem single_name_transfer (k : Nat) (t1 t2 : Tree) (d1 d2 : Nat) (v1 : Name)
    (hT : (canonTreeAux t1 {}).1 = (canonTreeAux t2 {}).1) (ho : OnlyVar v1 t1)
    (hd1 : DepthNamed d1 t1) (hw1 : WellScoped k d1 t1) (hd2 : DepthNamed d2 t2) :
    ∃ v2, OnlyVar v2 t2 := by
  have hshape : t1.mapVars (fun _ => ([] : Name)) = t2.mapVars (fun _ => ([] : Name)) := by
    have a := canonTreeAux_shape [] t1 {}
    have b := canonTreeAux_shape [] t2 {}
    rw [hT, b] at a
    exact a.symm
  by_cases hnb : NoBind t1
  · -- no quantifier: the canonical form carries `var0` everywhere
    have hnb2 := shape_noBind [] t1 t2 hshape hnb
    have e1 := (nb_fwd_gen v1 t1 {} hnb ho).1
    cases hv : varNames t2 with
    | nil => exact ⟨[], by intro x hx; rw [hv] at hx; simp at hx⟩
    | cons y rest =>
      refine ⟨y, nb_bwd_gen y t2 {} hnb2 CanonInv.init (fun _ z hz => by rw [hv] at hz; simpa using hz.symm) ?_⟩
      intro x hx
      rw [← hT, e1, varNames_mapVars] at hx
      obtain ⟨_, _, rfl⟩ := List.mem_map.mp hx
      rfl
  · have hv1 := outer_binder_name v1 t1 d1 ho hd1 hnb
    have hf := flat_of_single v1 k t1 d1 ho hd1 hw1 hv1
    exact ⟨_, (flat_transfer [] v1 d2 t1 t2 {} {} hf hshape hT rfl CanonInv.init CanonInv.init hd2).1.onlyVar⟩

/-! ### the renaming has one entry per variable name -/

theorem mapInsert_keys_nodup (v c : Name) (m : List (Name × Name)) (h : (m.map Prod.fst).Nodup) :
    ((mapInsert v c m).map Prod.fst).Nodup := by
  simp only [mapInsert, List.map_cons, List.nodup_cons]
  constructor
  · intro hm
    obtain ⟨e, he, hev⟩ := List.mem_map.mp hm
    simp only [List.mem_filter, bne_iff_ne, ne_eq] at he
    exact he.2 hev
  · have : ((m.filter (fun e => e.1 != v)).map Prod.fst) = (m.map Prod.fst).filter (fun k => k != v) := by
      rw [List.filter_map]; rfl
    rw [this]
    exact h.filter _

theorem canonVar_keys_nodup (v : Name) (st : CanonT) (h : (st.map.map Prod.fst).Nodup) :
    ((canonVar v st).2.map.map Prod.fst).Nodup := by
  unfold canonVar
  cases st.map.lookup v with
  | some _ => exact h
  | none => exact mapInsert_keys_nodup _ _ _ h

theorem canonTreeAux_keys_nodup : ∀ (t : Tree) (st : CanonT), (st.map.map Prod.fst).Nodup →
    ((canonTreeAux t st).2.map.map Prod.fst).Nodup := by
  intro t
  induction t with
  | atom a =>
    intro st h
    cases a with
    | var v => simpa [canonTreeAux] using canonVar_keys_nodup v st h
    | _ => simpa [canonTreeAux] using h
  | un o c ih => intro st h; simpa [canonTreeAux] using ih st h
  | bin o l r ihl ihr => intro st h; simpa [canonTreeAux] using ihr _ (ihl st h)
  | hyb o v d c ih =>
    intro st h
    by_cases hj : o = .jump
    · simpa [canonTreeAux, hj] using ih _ (canonVar_keys_nodup v st h)
    · simpa [canonTreeAux, hj] using ih _ (mapInsert_keys_nodup v _ st.map h)

theorem length_le_one_of_keys {m : List (Name × Name)} {v : Name} (hn : (m.map Prod.fst).Nodup)
    (hv : ∀ e ∈ m, e.1 = v) : m.length ≤ 1 := by
  cases m with
  | nil => simp
  | cons a m =>
    cases m with
    | nil => simp
    | cons b m =>
      exfalso
      simp only [List.map_cons, List.nodup_cons, List.mem_cons] at hn
      have ha := hv a (by simp)
      have hb := hv b (by simp)
      exact hn.1 (Or.inl (ha.trans hb.symm))

/-- "AT MOST ONE VARIABLE" IS A PROPERTY OF THE KEY: if some depth-named, well-scoped tree with at most one variable
has the key, every legitimate sub-formula with that key has at most one variable. -/
theorem dups_le_one {C : CharClass} (hC : Lex.CharsOK C) {E : Env} {K : SemCtx} {U0 : CSet} {key : Key}
    (hw : KeyWitness C E key)
    {t : Tree} {U : CSet} {ds : List (Option Name)} {ren : List (Name × Name)} (hq : GoodQ C E K U0 t U ds)
    (hkey : keyOf t (fvdOf ds) = (key, ren)) : ren.length ≤ 1 := by
  obtain ⟨t0, d0, doms0, ren0, hk0, hlen0, hd0, hw0, hv0, hp0⟩ := hw
  obtain ⟨hT, hr0, hr, _⟩ := canon_eq_of_key_eq hC t0 t ⟨hv0, hp0⟩ hq.valid _ _ key ren0 ren hk0 hkey
  simp only [canonTree] at hT hr0 hr
  have hnodup : (ren.map Prod.fst).Nodup := by rw [hr]; exact canonTreeAux_keys_nodup t {} (by simp)
  have hkeys : ∀ e ∈ ren, e.1 ∈ varNames t := by
    intro e he
    rw [hr] at he
    rcases canonTreeAux_keys t {} e.1 e.2 he with ⟨c', hc'⟩ | h
    · simp at hc'
    · exact h
  have hnames0 : ∀ x ∈ varNames t0, ∃ c, (x, c) ∈ ren0 := by rw [hr0]; exact fun x hx => renaming_total t0 {} x hx
  cases ren0 with
  | nil =>
    have hv : varNames t0 = [] := by
      apply List.eq_nil_iff_forall_not_mem.mpr
      intro x hx
      obtain ⟨c, hc⟩ := hnames0 x hx
      simp at hc
    have hlen := varNames_length_of_canon_eq t0 t {} {} hT
    rw [hv] at hlen
    have hvt : varNames t = [] := List.eq_nil_of_length_eq_zero hlen.symm
    cases ren with
    | nil => simp
    | cons e _ => have := hkeys e (by simp); rw [hvt] at this; simp at this
  | cons e0 tl0 =>
    obtain ⟨v0, c0⟩ := e0
    have htl : tl0 = [] := by
      cases tl0 with
      | nil => rfl
      | cons _ _ => simp at hlen0
    subst htl
    have ho0 : OnlyVar v0 t0 := by
      intro x hx
      obtain ⟨c, hc⟩ := hnames0 x hx
      simp at hc
      exact hc.1
    obtain ⟨v, hov⟩ := single_name_transfer E.G.k t0 t d0 ds.length v0 hT ho0 hd0 hw0 hq.named
    exact length_le_one_of_keys hnodup (fun e he => hov e.1 (hkeys e he))

end Hctl
