/-
  Every token the tokenizer emits carries valid identifiers: trees produced by the parsers satisfy `TreeOK` and
  `PropNamesOK`, the premises of the print/parse round trip.
-/
import HctlProofs.Lemmas.LexRender
import HctlProofs.Lemmas.ParserCorrect
import HctlModel.Rename
namespace Hctl
open Lex

/-- identifiers of a leaf are valid -/
def LeafOK (K : CharClass) : Leaf → Prop
  | .hyb o v d => ValidId K v ∧ ∀ dn, d = some dn → o ≠ .jump ∧ ValidId K dn
  | .atom (.prop n) => ValidName K n ∧ constOrProp n = .atom (.prop n)
  | .atom (.var v) => ValidId K v
  | .atom (.wild v) => ValidId K v
  | _ => True

def ToksOK (K : CharClass) (ts : List Tok) : Prop := ∀ l ∈ Tok.flatList ts, LeafOK K l
def TokOK (K : CharClass) (t : Tok) : Prop := ∀ l ∈ t.flat, LeafOK K l

theorem toksOK_nil {K : CharClass} : ToksOK K [] := by intro l hl; simp [Tok.flatList] at hl

theorem toksOK_cons {K : CharClass} {t : Tok} {ts : List Tok} (ht : TokOK K t) (hts : ToksOK K ts) : ToksOK K (t :: ts) := by
  intro l hl
  simp only [Tok.flatList, List.mem_append] at hl
  cases hl with
  | inl h => exact ht l h
  | inr h => exact hts l h

theorem tokOK_group {K : CharClass} {ts : List Tok} (h : ToksOK K ts) : TokOK K (.group ts) := by
  intro l hl; simp only [Tok.flat] at hl; exact h l hl

theorem tokOK_prop {K : CharClass} {n : Name} (h : ValidName K n) : TokOK K (.atom (.prop n)) := by
  intro l hl
  simp only [Tok.flat, List.mem_singleton] at hl
  subst hl
  simp only [atomOfTok]
  unfold constOrProp
  by_cases h1 : n = "true".toList ∨ n = "True".toList ∨ n = "1".toList
  · rw [if_pos h1]; simp only [LeafOK]
  rw [if_neg h1]
  by_cases h2 : n = "false".toList ∨ n = "False".toList ∨ n = "0".toList
  · rw [if_pos h2]; simp only [LeafOK]
  rw [if_neg h2]
  simp only [LeafOK]
  refine ⟨h, ?_⟩
  unfold constOrProp
  rw [if_neg h1, if_neg h2]

theorem tokOK_var {K : CharClass} {v : Name} (h : ValidId K v) : TokOK K (.atom (.var v)) := by
  intro l hl
  simp only [Tok.flat, List.mem_singleton] at hl
  subst hl
  simpa [atomOfTok, LeafOK] using h

theorem tokOK_wild {K : CharClass} {v : Name} (h : ValidId K v) : TokOK K (.atom (.wild v)) := by
  intro l hl
  simp only [Tok.flat, List.mem_singleton] at hl
  subst hl
  simpa [atomOfTok, LeafOK] using h

theorem tokOK_hyb {K : CharClass} {o : HybOp} {v : Name} {d : Option Name} (hv : ValidId K v)
    (hd : ∀ dn, d = some dn → o ≠ .jump ∧ ValidId K dn) : TokOK K (.hyb o v d) := by
  intro l hl
  simp only [Tok.flat, List.mem_singleton] at hl
  subst hl
  exact ⟨hv, hd⟩

macro "tok_ok" : tactic =>
  `(tactic| (intro l hl; simp only [Tok.flat, List.mem_singleton] at hl; subst hl; simp [LeafOK]))

namespace Lex
variable {K : CharClass}

theorem tempUn_tokOK {c c2 : Char} {t : Tok} (h : tempUn c c2 = some t) : TokOK K t := by
  unfold tempUn at h
  split at h <;> first
    | (cases h; intro l hl; simp only [Tok.flat, List.mem_singleton] at hl; subst hl; simp [LeafOK])
    | cases h

theorem collectName_fst_name (K : CharClass) (cs : List Char) : ∀ c ∈ (collectName K cs).fst, isName K c = true := by
  induction cs with
  | nil => simp [collectName]
  | cons c cs ih =>
    simp only [collectName]
    by_cases hc : isName K c = true
    · simp only [hc, if_true]
      intro x hx
      simp only [List.mem_cons] at hx
      rcases hx with rfl | hx
      · exact hc
      · exact ih x hx
    · simp [hc]

theorem collectName_fst_nil (K : CharClass) (cs : List Char) (h : nextIsName K cs = true) :
    (collectName K cs).fst ≠ [] := by
  cases cs with
  | nil => simp [nextIsName] at h
  | cons c cs =>
    simp only [nextIsName, List.head?_cons] at h
    simp [collectName, h]

theorem cons_toks {t : Tok} {x : Except LErr (List Tok × List Char)} {r : List Tok × List Char}
    (ht : TokOK K t) (hx : ∀ r, x = .ok r → ToksOK K r.1) (h : cons t x = .ok r) : ToksOK K r.1 := by
  obtain ⟨ts, rest, hx', rfl⟩ := cons_ok h
  exact toksOK_cons ht (hx _ hx')

theorem domPart_valid (K : CharClass) {cs4 : List Char} {dn : Name} {r : List Char}
    (h : domPart K cs4 = some (some dn, r)) : ValidId K dn := by
  unfold domPart at h
  split at h
  · rename_i cs5
    cases h1 : expect 'n' cs5 with
    | none => simp [h1] at h
    | some cs6 =>
      simp only [h1] at h
      cases h2 : expect '%' (skipWs K cs6) with
      | none => simp [h2] at h
      | some cs7 =>
        simp only [h2] at h
        by_cases hde : (collectName K cs7).fst.isEmpty = true
        · simp [hde] at h
        · simp only [hde] at h
          cases h3 : expect '%' (collectName K cs7).snd with
          | none => simp [h3] at h
          | some cs9 =>
            simp [h3] at h
            rw [← h.1]
            exact ⟨by simpa using hde, collectName_fst_name K cs7⟩
  · simp at h

/-- `collect_var_and_dom_from_operator` returns valid identifiers -/
theorem cvd_valid_full (K : CharClass) {pd : Bool} {cs : List Char} {v : Name} {d : Option Name} {rest : List Char}
    (h : collectVarDom K pd cs = some (v, d, rest)) : ValidId K v ∧ ∀ dn, d = some dn → ValidId K dn := by
  unfold collectVarDom at h
  cases h1 : expect '{' (skipWs K cs) with
  | none => simp [h1] at h
  | some cs1 =>
    simp only [h1] at h
    by_cases hne : (collectName K cs1).fst.isEmpty = true
    · simp [hne] at h
    · simp only [hne] at h
      cases h3 : expect '}' (collectName K cs1).snd with
      | none => simp [h3] at h
      | some cs3 =>
        simp only [h3, Bool.false_eq_true, if_false] at h
        have hv : ValidId K (collectName K cs1).fst := ⟨by simpa using hne, collectName_fst_name K cs1⟩
        cases hdp : (if pd = true then domPart K (skipWs K cs3) else some (none, skipWs K cs3)) with
        | none => simp [hdp] at h
        | some p =>
          obtain ⟨dom, cs10⟩ := p
          simp only [hdp] at h
          cases h4 : expect ':' cs10 with
          | none => simp [h4] at h
          | some cs11 =>
            simp only [h4, Option.some.injEq, Prod.mk.injEq] at h
            obtain ⟨rfl, rfl, rfl⟩ := h
            refine ⟨hv, ?_⟩
            intro dn hdn
            subst hdn
            cases pd with
            | false => simp at hdp
            | true =>
              simp only [if_true] at hdp
              exact domPart_valid K hdp

theorem cvd_valid (hK : CharsOK K) {pd : Bool} {cs : List Char} {v : Name} {d : Option Name} {rest : List Char}
    (h : collectVarDom K pd cs = some (v, d, rest)) : ValidId K v := (cvd_valid_full K h).1

theorem hyb_toks (hK : CharsOK K) {o : HybOp} {pd : Bool} {cs : List Char} {f : List Char → Except LErr (List Tok × List Char)}
    {r : List Tok × List Char} (ho : o ≠ .jump) (hf : ∀ cs r, f cs = .ok r → ToksOK K r.1)
    (h : (match collectVarDom K pd cs with
          | some (v, d, rest') => cons (Tok.hyb o v d) (f rest')
          | none => Except.error LErr.lex) = .ok r) : ToksOK K r.1 := by
  cases hc : collectVarDom K pd cs with
  | none => simp [hc] at h
  | some p =>
    obtain ⟨v, d, rest⟩ := p
    simp only [hc] at h
    have := cvd_valid_full K hc
    exact cons_toks (tokOK_hyb this.1 (fun dn hd => ⟨ho, this.2 dn hd⟩)) (hf _) h

/-- a name starting with a temporal-operator spelling and continuing with a name character -/
theorem validName_long (hK : CharsOK K) {c c2 c3 : Char} {tl : List Char}
    (h9 : ((decide (c = 'E') || decide (c = 'A')) && isTempOp (c2 :: c3 :: tl).head?) = true) (hn : isName K c3 = true) :
    ValidName K ([c, c2] ++ (collectName K (c3 :: tl)).fst) := by
  have hfst : (collectName K (c3 :: tl)).fst = c3 :: (collectName K tl).fst := by simp [collectName, hn]
  simp only [Bool.and_eq_true, Bool.or_eq_true, decide_eq_true_eq, List.head?_cons, isTempOp, beq_iff_eq] at h9
  have hc : isName K c = true := by
    rcases h9.1 with rfl | rfl <;> exact letter_name hK (by simp)
  have hc2 : isName K c2 = true := by
    rcases h9.2 with (((rfl | rfl) | rfl) | rfl) | rfl <;> exact letter_name hK (by simp)
  rw [hfst]
  refine ⟨⟨by simp, ?_⟩, by simp, by simp, by simp⟩
  intro x hx
  simp only [List.cons_append, List.nil_append, List.mem_cons] at hx
  rcases hx with rfl | rfl | rfl | hx
  · exact hc
  · exact hc2
  · exact hn
  · exact collectName_fst_name K tl x hx

/-- a name reached at the end of the chain of alternatives -/
theorem validName_short (hK : CharsOK K) {c : Char} {cs : List Char}
    (h9 : ¬ ((decide (c = 'E') || decide (c = 'A')) && isTempOp cs.head?) = true)
    (h11 : ¬ (decide (c = '3') && !nextIsName K cs) = true) (h12 : ¬ (decide (c = 'V') && !nextIsName K cs) = true)
    (hc : isName K c = true) : ValidName K ([c] ++ (collectName K cs).fst) := by
  refine ⟨⟨by simp, ?_⟩, ?_, ?_, ?_⟩
  · intro x hx
    simp only [List.cons_append, List.nil_append, List.mem_cons] at hx
    rcases hx with rfl | hx
    · exact hc
    · exact collectName_fst_name K cs x hx
  · intro h
    simp only [List.cons_append, List.nil_append, List.cons.injEq] at h
    obtain ⟨rfl, hnil⟩ := h
    apply h11
    simp only [decide_true, Bool.true_and, Bool.not_eq_true']
    cases hb : nextIsName K cs with
    | false => rfl
    | true => exact absurd hnil (collectName_fst_nil K cs hb)
  · intro h
    simp only [List.cons_append, List.nil_append, List.cons.injEq] at h
    obtain ⟨rfl, hnil⟩ := h
    apply h12
    simp only [decide_true, Bool.true_and, Bool.not_eq_true']
    cases hb : nextIsName K cs with
    | false => rfl
    | true => exact absurd hnil (collectName_fst_nil K cs hb)
  · intro a b hab
    simp only [List.cons_append, List.nil_append, List.cons.injEq] at hab
    obtain ⟨rfl, hfst⟩ := hab
    -- the second character is the head of the rest; if `a b` spelled an operator the earlier branch was taken
    cases hcs : cs with
    | nil => simp [hcs, collectName] at hfst
    | cons c2 tl =>
      rw [hcs] at hfst h9
      have hc2 : isName K c2 = true := by
        cases hn : isName K c2 with
        | true => rfl
        | false => simp [collectName, hn] at hfst
      simp only [collectName, hc2, if_true, List.cons.injEq] at hfst
      obtain ⟨rfl, _⟩ := hfst
      cases ht : tempUn c c2 with
      | none => rfl
      | some t =>
        exfalso
        apply h9
        unfold tempUn at ht
        split at ht
        all_goals first | (cases ht; done) | simp [isTempOp]

variable (hK : CharsOK K)
include hK

theorem lex_toksOK (ext : Bool) :
    ∀ n top cs r, lexRec K ext n top cs = .ok r → ToksOK K r.1 := by
  intro n
  induction n with
  | zero => intro top cs r h; simp [lexRec] at h
  | succ n ih =>
    intro top cs r h
    cases cs with
    | nil =>
      simp only [lexRec] at h
      split at h
      · cases h; exact toksOK_nil
      · cases h
    | cons c cs =>
      simp only [lexRec] at h
      by_cases h1 : K.isWs c = true
      · rw [if_pos h1] at h; exact ih _ _ _ h
      rw [if_neg h1] at h
      by_cases h2 : c = '~'
      · rw [if_pos h2] at h; exact cons_toks (by tok_ok) (ih _ _) h
      rw [if_neg h2] at h
      by_cases h3 : c = '&'
      · rw [if_pos h3] at h; exact cons_toks (by tok_ok) (ih _ _) h
      rw [if_neg h3] at h
      by_cases h4 : c = '|'
      · rw [if_pos h4] at h; exact cons_toks (by tok_ok) (ih _ _) h
      rw [if_neg h4] at h
      by_cases h5 : c = '^'
      · rw [if_pos h5] at h; exact cons_toks (by tok_ok) (ih _ _) h
      rw [if_neg h5] at h
      by_cases h6 : c = '='
      · rw [if_pos h6] at h
        split at h
        · exact cons_toks (by tok_ok) (ih _ _) h
        · simp at h
      rw [if_neg h6] at h
      by_cases h7 : c = '<'
      · rw [if_pos h7] at h
        split at h
        · exact cons_toks (by tok_ok) (ih _ _) h
        · simp at h
      rw [if_neg h7] at h
      by_cases h8 : c = '>'
      · rw [if_pos h8] at h; simp at h
      rw [if_neg h8] at h
      by_cases h9 : ((decide (c = 'E') || decide (c = 'A')) && isTempOp cs.head?) = true
      · rw [if_pos h9] at h
        cases cs with
        | nil => simp at h
        | cons c2 cs' =>
          cases cs' with
          | nil =>
            simp only at h
            split at h
            · rename_i t ht; exact cons_toks (tempUn_tokOK ht) (ih _ _) h
            · simp at h
          | cons c3 tl =>
            simp only at h
            by_cases hn : isName K c3 = true
            · rw [if_pos hn] at h
              refine cons_toks (tokOK_prop (validName_long hK h9 hn)) (ih _ _) h
            rw [if_neg hn] at h
            split at h
            · rename_i t ht; exact cons_toks (tempUn_tokOK ht) (ih _ _) h
            · simp at h
      rw [if_neg h9] at h
      by_cases h10 : c = '!'
      · rw [if_pos h10] at h; exact hyb_toks hK (by simp) (ih _) h
      rw [if_neg h10] at h
      by_cases h11 : (decide (c = '3') && !nextIsName K cs) = true
      · rw [if_pos h11] at h; exact hyb_toks hK (by simp) (ih _) h
      rw [if_neg h11] at h
      by_cases h12 : (decide (c = 'V') && !nextIsName K cs) = true
      · rw [if_pos h12] at h; exact hyb_toks hK (by simp) (ih _) h
      rw [if_neg h12] at h
      by_cases h13 : c = '@'
      · rw [if_pos h13] at h
        cases hc : collectVarDom K false cs with
        | none => simp [hc] at h
        | some p =>
          obtain ⟨v, d, rest⟩ := p
          simp only [hc] at h
          exact cons_toks (tokOK_hyb (cvd_valid hK hc) (fun dn hd => by have := (cvd_ext K _ v d rest hc).1; simp [this] at hd)) (ih _ _) h
      rw [if_neg h13] at h
      by_cases h14 : c = '\\'
      · rw [if_pos h14] at h
        cases ho : hybOfLong (collectName K cs).fst with
        | none => simp [ho] at h
        | some o =>
          cases o with
          | jump =>
            simp only [ho] at h
            cases hc : collectVarDom K false (collectName K cs).snd with
            | none => simp [hc] at h
            | some p =>
          obtain ⟨v, d, rest⟩ := p
          simp only [hc] at h
          exact cons_toks (tokOK_hyb (cvd_valid hK hc) (fun dn hd => by have := (cvd_ext K _ v d rest hc).1; simp [this] at hd)) (ih _ _) h
          | bind => simp only [ho] at h; exact hyb_toks hK (by simp) (ih _) h
          | ex => simp only [ho] at h; exact hyb_toks hK (by simp) (ih _) h
          | all => simp only [ho] at h; exact hyb_toks hK (by simp) (ih _) h
      rw [if_neg h14] at h
      by_cases h15 : c = ')'
      · rw [if_pos h15] at h
        split at h
        · cases h; exact toksOK_nil
        · cases h
      rw [if_neg h15] at h
      by_cases h16 : c = '('
      · rw [if_pos h16] at h
        cases hg : lexRec K ext n false cs with
        | error e => simp [hg] at h
        | ok p =>
          obtain ⟨grp, rest⟩ := p
          simp only [hg] at h
          exact cons_toks (tokOK_group (ih _ _ _ hg)) (ih _ _) h
      rw [if_neg h16] at h
      by_cases h17 : c = '{'
      · rw [if_pos h17] at h
        by_cases he : (collectName K cs).fst.isEmpty = true
        · rw [if_pos he] at h; simp at h
        rw [if_neg he] at h
        cases hx : expect '}' (collectName K cs).snd with
        | none => simp [hx] at h
        | some rest' => simp only [hx] at h; exact cons_toks (tokOK_var ⟨by simpa using he, collectName_fst_name K cs⟩) (ih _ _) h
      rw [if_neg h17] at h
      by_cases h18 : (decide (c = '%') && ext) = true
      · rw [if_pos h18] at h
        by_cases he : (collectName K cs).fst.isEmpty = true
        · rw [if_pos he] at h; simp at h
        rw [if_neg he] at h
        cases hx : expect '%' (collectName K cs).snd with
        | none => simp [hx] at h
        | some rest' => simp only [hx] at h; exact cons_toks (tokOK_wild ⟨by simpa using he, collectName_fst_name K cs⟩) (ih _ _) h
      rw [if_neg h18] at h
      by_cases h19 : isName K c = true
      · rw [if_pos h19] at h; exact cons_toks (tokOK_prop (validName_short hK h9 h11 h12 h19)) (ih _ _) h
      rw [if_neg h19] at h; simp at h


theorem tokenize_toksOK (ext : Bool) (cs : List Char) (ts : List Tok) (h : tokenize K ext cs = .ok ts) : ToksOK K ts := by
  unfold tokenize at h
  cases hl : lexRec K ext (cs.length + 1) true cs with
  | error e => simp [hl] at h
  | ok r =>
    obtain ⟨ts', rest⟩ := r
    simp only [hl] at h
    cases h
    exact lex_toksOK hK ext _ _ _ _ hl

end Lex

theorem treeOK_of_frontier (K : CharClass) : ∀ (t : Tree), (∀ l ∈ t.frontier, LeafOK K l) → TreeOK K t ∧ PropNamesOK t := by
  intro t
  induction t with
  | atom a =>
    intro h
    have := h (.atom a) (by simp [Tree.frontier])
    cases a <;> simp_all [TreeOK, PropNamesOK, LeafOK]
  | un o c ih =>
    intro h
    simp only [TreeOK, PropNamesOK]
    exact ih (fun l hl => h l (by simp [Tree.frontier, hl]))
  | bin o l r ihl ihr =>
    intro h
    simp only [TreeOK, PropNamesOK]
    have a := ihl (fun x hx => h x (by simp [Tree.frontier, hx]))
    have b := ihr (fun x hx => h x (by simp [Tree.frontier, hx]))
    exact ⟨⟨a.1, b.1⟩, a.2, b.2⟩
  | hyb o v d c ih =>
    intro h
    simp only [TreeOK, PropNamesOK]
    have hc := ih (fun l hl => h l (by simp [Tree.frontier, hl]))
    have := h (.hyb o v d) (by simp [Tree.frontier])
    simp only [LeafOK] at this
    refine ⟨⟨this.1, ?_, hc.1⟩, hc.2⟩
    cases d with
    | none => trivial
    | some dn => exact this.2 dn rfl

/-- every tree produced by tokenizer + parser satisfies the premises of the round trip -/
theorem parsed_treeOK {K : CharClass} (hK : Lex.CharsOK K) (ext : Bool) (cs : List Char) (ts : List Tok) (t : Tree)
    (hl : Lex.tokenize K ext cs = .ok ts) (hp : parseToks ts = .ok t) : Lex.TreeOK K t ∧ PropNamesOK t := by
  apply treeOK_of_frontier
  have hd : Derives ts t := by
    have := (parse_sound _).1 ts t hp
    exact this
  rw [← hd.frontier_eq]
  exact Lex.tokenize_toksOK hK ext cs ts hl

theorem lookup_mem' {n r : Name} : ∀ (m : RenMap), m.lookup n = some r → (n, r) ∈ m := by
  intro m
  induction m with
  | nil => intro h; simp at h
  | cons e m ih =>
    intro hlk
    obtain ⟨a, b⟩ := e
    simp only [List.lookup] at hlk
    by_cases hab : n = a
    · subst hab; simp at hlk; subst hlk; simp
    · have : (n == a) = false := beq_eq_false_iff_ne.mpr hab
      simp only [this] at hlk
      exact List.mem_cons_of_mem _ (ih hlk)

/-- preprocessing (renaming of the variables to `x`, `xx`, …) keeps the identifiers valid -/
theorem renameRec_treeOK {K : CharClass} (hK : Lex.CharsOK K) (f : Name → Bool) :
    ∀ (t : Tree) (m : RenMap) (last : Name) (t' : Tree), Lex.TreeOK K t ∧ PropNamesOK t →
      (∀ e ∈ m, Lex.ValidId K e.2) → (∀ c ∈ last, c = 'x') → renameRec f t m last = .ok t' →
      Lex.TreeOK K t' ∧ PropNamesOK t' := by
  intro t
  induction t with
  | atom a =>
    intro m last t' ht hm hl h
    cases a with
    | var n =>
      simp only [renameRec] at h
      cases hlk : m.lookup n with
      | none => simp [hlk] at h
      | some r =>
        simp only [hlk] at h
        cases h
        refine ⟨?_, by simp [PropNamesOK]⟩
        simp only [Lex.TreeOK]
        have : (n, r) ∈ m := lookup_mem' m hlk
        exact hm _ this
    | prop n =>
      simp only [renameRec] at h
      split at h
      · cases h; exact ht
      · cases h
    | tt => simp only [renameRec] at h; cases h; exact ht
    | ff => simp only [renameRec] at h; cases h; exact ht
    | wild n => simp only [renameRec] at h; cases h; exact ht
  | un o c ih =>
    intro m last t' ht hm hl h
    simp only [renameRec] at h
    cases hc : renameRec f c m last with
    | error e => simp [hc] at h
    | ok c' =>
      simp only [hc] at h
      cases h
      have := ih m last c' (by simpa [Lex.TreeOK, PropNamesOK] using ht) hm hl hc
      simpa [Lex.TreeOK, PropNamesOK] using this
  | bin o l r ihl ihr =>
    intro m last t' ht hm hl h
    simp only [renameRec] at h
    simp only [Lex.TreeOK, PropNamesOK] at ht
    cases hcl : renameRec f l m last with
    | error e => simp [hcl] at h
    | ok l' =>
      simp only [hcl] at h
      cases hcr : renameRec f r m last with
      | error e => simp [hcr] at h
      | ok r' =>
        simp only [hcr] at h
        cases h
        have a := ihl m last l' ⟨ht.1.1, ht.2.1⟩ hm hl hcl
        have b := ihr m last r' ⟨ht.1.2, ht.2.2⟩ hm hl hcr
        exact ⟨⟨a.1, b.1⟩, a.2, b.2⟩
  | hyb o v d c ih =>
    intro m last t' ht hm hl h
    simp only [renameRec] at h
    simp only [Lex.TreeOK, PropNamesOK] at ht
    obtain ⟨⟨hv, hd, hc⟩, hp⟩ := ht
    by_cases hj : o = .jump
    · subst hj
      simp only [if_true] at h
      cases hcc : renameRec f c m last with
      | error e => simp [hcc] at h
      | ok c' =>
        simp only [hcc] at h
        cases hlk : m.lookup v with
        | none => simp [hlk] at h
        | some r =>
          simp only [hlk] at h
          cases h
          have a := ih m last c' ⟨hc, hp⟩ hm hl hcc
          have hr : Lex.ValidId K r := by
            have : (v, r) ∈ m := lookup_mem' m hlk
            exact hm _ this
          exact ⟨⟨hr, hd, a.1⟩, a.2⟩
    · simp only [hj, if_false] at h
      split at h
      · cases h
      · have hlast : Lex.ValidId K (last ++ ['x']) := by
          refine ⟨by simp, ?_⟩
          intro x hx
          simp only [List.mem_append, List.mem_singleton] at hx
          have : x = 'x' := by rcases hx with h1 | h1; exact hl x h1; exact h1
          subst this
          exact Lex.letter_name hK (by simp)
        cases hcc : renameRec f c ((v, last ++ ['x']) :: m) (last ++ ['x']) with
        | error e => simp [hcc] at h
        | ok c' =>
          simp only [hcc] at h
          cases h
          have a := ih _ _ c' ⟨hc, hp⟩
            (by intro e he; simp only [List.mem_cons] at he; rcases he with rfl | he; exact hlast; exact hm e he)
            (by intro x hx; simp only [List.mem_append, List.mem_singleton] at hx; rcases hx with h1 | h1; exact hl x h1; exact h1)
            hcc
          exact ⟨⟨hlast, hd, a.1⟩, a.2⟩

theorem rename_treeOK {K : CharClass} (hK : Lex.CharsOK K) (f : Name → Bool) (t t' : Tree)
    (ht : Lex.TreeOK K t ∧ PropNamesOK t) (h : rename f t = .ok t') : Lex.TreeOK K t' ∧ PropNamesOK t' :=
  renameRec_treeOK hK f t [] [] t' ht (by simp) (by simp) h

end Hctl
