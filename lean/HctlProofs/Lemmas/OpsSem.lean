/-
  Semantics of the set operators of Ops.lean, stated with `Sem a U φ`:
  on the universe, `a` holds exactly at the points of the unit `U` where `φ` holds.
-/
import HctlProofs.Lemmas.Points
import HctlProofs.Spec.Semantics
namespace Hctl
open Kripke

def Sem (E : Env) (a U : CSet) (φ : Point → Prop) : Prop :=
  ∀ p ∈ E.pts, (a p = true ↔ (U p = true ∧ φ p))

/-- `st` is the set of steady points of the top-level unit `U0` -/
def SteadyOK (E : Env) (U0 st : CSet) : Prop :=
  ∀ p ∈ E.pts, (st p = true ↔ (U0 p = true ∧ E.G.isSteady p.c p.s))

/-- what is needed of a unit set at quantifier nesting depth `d`: it constrains colours and the
variables of the enclosing quantifiers only -/
structure UnitOK (E : Env) (U0 st U : CSet) (d : Nat) : Prop where
  steady : SteadyOK E U0 st
  stateIndep : ∀ p ∈ E.pts, ∀ t, t < E.G.nS → U (p.setS t) = U p
  indepFrom : ∀ p ∈ E.pts, ∀ i t, d ≤ i → t < E.G.nS → U (p.setV i t) = U p
  sub0 : ∀ p ∈ E.pts, U p = true → U0 p = true

theorem Sem.sub {E : Env} {a U : CSet} {φ} (h : Sem E a U φ) : SubOn E.pts a U :=
  fun p hp ha => ((h p hp).mp ha).1

theorem Sem.congr {E : Env} {a b U : CSet} {φ} (h : Sem E a U φ) (hab : EqOn E.pts b a) : Sem E b U φ :=
  fun p hp => by rw [hab p hp]; exact h p hp

theorem Sem.tab {E : Env} (hE : EnvOK E) {a U : CSet} {φ} (h : Sem E a U φ) : Sem E (E.tab a) U φ :=
  h.congr (hE.tab_eq a)

theorem Sem.iff {E : Env} {a U : CSet} {φ ψ : Point → Prop} (h : Sem E a U φ)
    (hφ : ∀ p ∈ E.pts, U p = true → (φ p ↔ ψ p)) : Sem E a U ψ := by
  intro p hp
  rw [h p hp]
  constructor
  · rintro ⟨hu, hf⟩; exact ⟨hu, (hφ p hp hu).mp hf⟩
  · rintro ⟨hu, hf⟩; exact ⟨hu, (hφ p hp hu).mpr hf⟩

section bool
variable {E : Env} {U a b : CSet} {φ ψ : Point → Prop}

theorem sem_unit : Sem E U U (fun _ => True) := fun p _ => by simp
theorem sem_empty : Sem E CSet.empty U (fun _ => False) := fun p _ => by simp [CSet.empty]

theorem sem_neg (ha : Sem E a U φ) : Sem E (Ops.evalNeg U a) U (fun p => ¬ φ p) := by
  intro p hp
  have := ha p hp
  simp only [Ops.evalNeg, CSet.minus]
  cases hU : U p <;> cases haa : a p <;> simp_all

theorem sem_and (ha : Sem E a U φ) (hb : Sem E b U ψ) : Sem E (a.inter b) U (fun p => φ p ∧ ψ p) := by
  intro p hp
  have h1 := ha p hp
  have h2 := hb p hp
  simp only [CSet.inter]
  cases hU : U p <;> cases haa : a p <;> cases hbb : b p <;> simp_all

theorem sem_or (ha : Sem E a U φ) (hb : Sem E b U ψ) : Sem E (a.union b) U (fun p => φ p ∨ ψ p) := by
  intro p hp
  have h1 := ha p hp
  have h2 := hb p hp
  simp only [CSet.union]
  cases hU : U p <;> cases haa : a p <;> cases hbb : b p <;> simp_all

theorem sem_imp (ha : Sem E a U φ) (hb : Sem E b U ψ) : Sem E (Ops.evalImp U a b) U (fun p => φ p → ψ p) := by
  intro p hp
  have h1 := ha p hp
  have h2 := hb p hp
  simp only [Ops.evalImp, Ops.evalNeg, CSet.union, CSet.minus]
  cases hU : U p <;> cases haa : a p <;> cases hbb : b p <;> simp_all

theorem sem_equiv (ha : Sem E a U φ) (hb : Sem E b U ψ) :
    Sem E (Ops.evalEquiv U a b) U (fun p => (φ p ↔ ψ p)) := by
  intro p hp
  have h1 := ha p hp
  have h2 := hb p hp
  simp only [Ops.evalEquiv, Ops.evalNeg, CSet.union, CSet.minus, CSet.inter]
  cases hU : U p <;> cases haa : a p <;> cases hbb : b p <;> simp_all

theorem sem_xor (ha : Sem E a U φ) (hb : Sem E b U ψ) :
    Sem E (Ops.evalXor U a b) U (fun p => ¬ (φ p ↔ ψ p)) :=
  sem_neg (sem_equiv ha hb)

end bool

/-! ### one step: EX, AX -/

section step
variable {E : Env} (hE : EnvOK E) (hG : GraphWF E.G)
include hE hG

theorem R_lt {p : Point} (hp : p ∈ E.pts) {t : Nat} (hR : E.G.R p.c p.s t) : t < E.G.nS := by
  rw [hE.pts_eq] at hp
  cases hR with
  | inl h => obtain ⟨j, _, hj⟩ := h; exact hG.step_lt _ _ _ _ hj (s_lt hp)
  | inr h => rw [h.2]; exact s_lt hp

theorem setS_mem' {p : Point} (hp : p ∈ E.pts) {t : Nat} (ht : t < E.G.nS) : p.setS t ∈ E.pts := by
  rw [hE.pts_eq] at hp ⊢; exact setS_mem hp ht

theorem setV_mem' {p : Point} (hp : p ∈ E.pts) {i t : Nat} (ht : t < E.G.nS) : p.setV i t ∈ E.pts := by
  rw [hE.pts_eq] at hp ⊢; exact setV_mem hp ht

theorem mem_pre {a : CSet} {p : Point} :
    Ops.pre E a p = true ↔ ∃ t, E.G.stepRel p.c p.s t ∧ a (p.setS t) = true := by
  simp only [Ops.pre, any_range_iff, Ops.varPre, Graph.stepRel]
  constructor
  · rintro ⟨j, hj, h⟩
    cases hs : E.G.step p.c j p.s with
    | none => simp [hs] at h
    | some t => simp [hs] at h; exact ⟨t, ⟨j, hj, hs⟩, h⟩
  · rintro ⟨t, ⟨j, hj, hs⟩, h⟩
    exact ⟨j, hj, by simp [hs, h]⟩

theorem mem_steady {U0 : CSet} {p : Point} :
    Ops.steadyOf E U0 p = true ↔ U0 p = true ∧ E.G.isSteady p.c p.s := by
  simp only [Ops.steadyOf, Bool.and_eq_true, all_range_iff, Graph.isSteady, Option.isNone_iff_eq_none]

/-- `eval_ex` = one step of the relation with self-loops, for sets inside the unit -/
theorem mem_evalEx {U0 st a : CSet} (hst : SteadyOK E U0 st)
    (ha0 : ∀ p ∈ E.pts, a p = true → U0 p = true) {p : Point} (hp : p ∈ E.pts) :
    Ops.evalEx E a st p = true ↔ ∃ t, E.G.R p.c p.s t ∧ a (p.setS t) = true := by
  simp only [Ops.evalEx, CSet.union, CSet.inter, Bool.or_eq_true, Bool.and_eq_true]
  rw [mem_pre hE hG, hst p hp]
  constructor
  · rintro (⟨t, hs, ht⟩ | ⟨hap, _, hst⟩)
    · exact ⟨t, Or.inl hs, ht⟩
    · exact ⟨p.s, Or.inr ⟨hst, rfl⟩, by simpa using hap⟩
  · rintro ⟨t, (hs | ⟨hst, rfl⟩), ht⟩
    · exact Or.inl ⟨t, hs, ht⟩
    · exact Or.inr ⟨by simpa using ht, ha0 p hp (by simpa using ht), hst⟩

theorem sem_ex {U0 st U a : CSet} {d : Nat} {φ : Point → Prop} (hU : UnitOK E U0 st U d) (ha : Sem E a U φ) :
    Sem E (Ops.evalEx E a st) U (fun p => ∃ t, E.G.R p.c p.s t ∧ φ (p.setS t)) := by
  intro p hp
  rw [mem_evalEx hE hG hU.steady (fun q hq h => hU.sub0 q hq (ha.sub q hq h)) hp]
  constructor
  · rintro ⟨t, hR, hat⟩
    have hq := setS_mem' hE hG hp (R_lt hE hG hp hR)
    have := (ha _ hq).mp hat
    exact ⟨by rw [← hU.stateIndep p hp t (R_lt hE hG hp hR)]; exact this.1, t, hR, this.2⟩
  · rintro ⟨hu, t, hR, hφ⟩
    have hq := setS_mem' hE hG hp (R_lt hE hG hp hR)
    exact ⟨t, hR, (ha _ hq).mpr ⟨by rw [hU.stateIndep p hp t (R_lt hE hG hp hR)]; exact hu, hφ⟩⟩

theorem sem_ax {U0 st U a : CSet} {d : Nat} {φ : Point → Prop} (hU : UnitOK E U0 st U d) (ha : Sem E a U φ) :
    Sem E (Ops.evalAx E U a st) U (fun p => ∀ t, E.G.R p.c p.s t → φ (p.setS t)) := by
  have h := sem_neg (sem_ex hE hG hU (sem_neg ha))
  refine h.iff (fun p _ _ => ?_)
  constructor
  · intro hn t hR
    apply Classical.byContradiction
    intro hc
    exact hn ⟨t, hR, hc⟩
  · rintro hall ⟨t, hR, hn⟩
    exact hn (hall t hR)

end step

end Hctl
