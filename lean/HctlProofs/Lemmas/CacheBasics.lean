/-
  Basic facts about the data structures of `EvalContext` in the model: the cache and duplicate maps
  (association lists with HashMap semantics) and `free_var_domains` for depth-named scopes.
-/
import HctlProofs.Lemmas.NodeSem
import HctlProofs.Lemmas.RenameLemmas
namespace Hctl

/-! ### cache / duplicate maps -/

abbrev Cache := List (Key × (CSet × List (Name × Name)))

theorem cacheGet_cons (k k' : Key) (v : CSet × List (Name × Name)) (c : Cache) :
    cacheGet k ((k', v) :: c) = if k' = k then some v else cacheGet k c := by
  unfold cacheGet
  simp only [List.find?_cons]
  by_cases h : k' = k
  · simp [h]
  · have : (k' == k) = false := beq_eq_false_iff_ne.mpr h
    simp [this, h]

theorem cacheGet_filter_ne (k k0 : Key) (c : Cache) (h : k ≠ k0) :
    cacheGet k (c.filter (fun e => e.1 != k0)) = cacheGet k c := by
  induction c with
  | nil => rfl
  | cons e c ih =>
    obtain ⟨k', v⟩ := e
    simp only [List.filter_cons]
    by_cases hk : k' = k0
    · subst hk
      have : ((k', v).1 != k') = false := by simp
      simp only [this, Bool.false_eq_true, if_false]
      rw [ih, cacheGet_cons, if_neg (Ne.symm h)]
    · have : ((k', v).1 != k0) = true := by simpa using hk
      simp only [this, if_true]
      rw [cacheGet_cons, cacheGet_cons, ih]

theorem cacheGet_filter_eq (k : Key) (c : Cache) : cacheGet k (c.filter (fun e => e.1 != k)) = none := by
  induction c with
  | nil => rfl
  | cons e c ih =>
    obtain ⟨k', v⟩ := e
    simp only [List.filter_cons]
    by_cases hk : k' = k
    · subst hk
      have : ((k', v).1 != k') = false := by simp
      simp only [this, Bool.false_eq_true, if_false]
      exact ih
    · have : ((k', v).1 != k) = true := by simpa using hk
      simp only [this, if_true]
      rw [cacheGet_cons, if_neg hk, ih]

theorem cacheGet_insert_same (k : Key) (v : CSet × List (Name × Name)) (c : Cache) :
    cacheGet k (cacheInsert k v c) = some v := by
  simp [cacheInsert, cacheGet_cons]

theorem cacheGet_insert_ne (k k0 : Key) (v : CSet × List (Name × Name)) (c : Cache) (h : k ≠ k0) :
    cacheGet k (cacheInsert k0 v c) = cacheGet k c := by
  simp only [cacheInsert, cacheGet_cons, if_neg (Ne.symm h)]
  exact cacheGet_filter_ne k k0 c h

theorem cacheGet_remove_ne (k k0 : Key) (c : Cache) (h : k ≠ k0) : cacheGet k (cacheRemove k0 c) = cacheGet k c :=
  cacheGet_filter_ne k k0 c h

theorem cacheGet_remove_sub (k k0 : Key) (c : Cache) (v) (h : cacheGet k (cacheRemove k0 c) = some v) :
    cacheGet k c = some v := by
  by_cases hk : k = k0
  · subst hk; simp [cacheRemove, cacheGet_filter_eq] at h
  · rwa [cacheGet_remove_ne k k0 c hk] at h

theorem dupGet_cons (k k' : Key) (n : Int) (m : DupMap) :
    dupGet k ((k', n) :: m) = if k = k' then some n else dupGet k m := by
  unfold dupGet
  simp only [List.lookup]
  by_cases h : k = k'
  · simp [h]
  · have : (k == k') = false := beq_eq_false_iff_ne.mpr h
    simp [this, h]

theorem dupGet_set_same (k : Key) (n : Int) (m : DupMap) : dupGet k (dupSet k n m) = some n := by
  induction m with
  | nil => simp [dupSet, dupGet_cons]
  | cons e m ih =>
    obtain ⟨k', n'⟩ := e
    simp only [dupSet]
    by_cases h : k = k'
    · simp [h, dupGet_cons]
    · simp [h, dupGet_cons, ih]

theorem dupGet_set_ne (k k0 : Key) (n : Int) (m : DupMap) (h : k ≠ k0) : dupGet k (dupSet k0 n m) = dupGet k m := by
  induction m with
  | nil => simp [dupSet, dupGet_cons, h, dupGet]
  | cons e m ih =>
    obtain ⟨k', n'⟩ := e
    simp only [dupSet]
    by_cases h0 : k0 = k'
    · subst h0; simp [dupGet_cons, h]
    · simp only [h0, if_false, dupGet_cons, ih]

theorem dupGet_set_isSome (k k0 : Key) (n : Int) (m : DupMap) (h : (dupGet k m).isSome = true) :
    (dupGet k (dupSet k0 n m)).isSome = true := by
  by_cases hk : k = k0
  · subst hk; simp [dupGet_set_same]
  · rwa [dupGet_set_ne k k0 n m hk]

theorem dupGet_remove_ne (k k0 : Key) (m : DupMap) (h : k ≠ k0) : dupGet k (dupRemove k0 m) = dupGet k m := by
  induction m with
  | nil => rfl
  | cons e m ih =>
    obtain ⟨k', n'⟩ := e
    simp only [dupRemove, List.filter_cons]
    by_cases hk : k' = k0
    · subst hk
      have : ((k', n').1 != k') = false := by simp
      simp only [this, Bool.false_eq_true, if_false]
      rw [dupGet_cons, if_neg h]
      exact ih
    · have : ((k', n').1 != k0) = true := by simpa using hk
      simp only [this, if_true]
      rw [dupGet_cons, dupGet_cons]
      have := ih
      simp only [dupRemove] at this
      rw [this]

theorem dupGet_remove_sub (k k0 : Key) (m : DupMap) (n : Int) (h : dupGet k (dupRemove k0 m) = some n) :
    dupGet k m = some n := by
  by_cases hk : k = k0
  · subst hk
    exfalso
    induction m with
    | nil => simp [dupRemove, dupGet] at h
    | cons e m ih =>
      obtain ⟨k', n'⟩ := e
      simp only [dupRemove, List.filter_cons] at h
      by_cases hkk : k' = k
      · subst hkk
        have : ((k', n').1 != k') = false := by simp
        simp only [this, Bool.false_eq_true, if_false] at h
        exact ih h
      · have : ((k', n').1 != k) = true := by simpa using hkk
        simp only [this, if_true] at h
        rw [dupGet_cons, if_neg (Ne.symm hkk)] at h
        exact ih h
  · rwa [dupGet_remove_ne k k0 m hk] at h

/-! ### `free_var_domains` of depth-named scopes -/

def fvdFrom : Nat → List (Option Name) → DomMap
  | _, [] => []
  | i, o :: os => (xs (i + 1), o) :: fvdFrom (i + 1) os

/-- `free_var_domains` while the quantifiers `x, xx, …` with the given domain labels are open -/
def fvdOf (ds : List (Option Name)) : DomMap := fvdFrom 0 ds

theorem nameLt_xs (a b : Nat) : nameLt (xs a) (xs b) = decide (a < b) := by
  induction a generalizing b with
  | zero => cases b <;> simp [xs, nameLt, List.replicate]
  | succ a ih =>
    cases b with
    | zero => simp [xs, nameLt, List.replicate]
    | succ b =>
      have := ih b
      simp only [xs, List.replicate_succ, nameLt] at this ⊢
      simp [this]

theorem fvdFrom_append (i : Nat) (ds : List (Option Name)) (o : Option Name) :
    fvdFrom i (ds ++ [o]) = fvdFrom i ds ++ [(xs (i + ds.length + 1), o)] := by
  induction ds generalizing i with
  | nil => simp [fvdFrom]
  | cons d ds ih =>
    simp only [List.cons_append, fvdFrom, List.length_cons, ih (i + 1)]
    have : i + 1 + ds.length + 1 = i + (ds.length + 1) + 1 := by omega
    rw [this]

theorem fvdFrom_keys (i : Nat) (ds : List (Option Name)) (e : Name × Option Name) (h : e ∈ fvdFrom i ds) :
    ∃ j, i ≤ j ∧ j < i + ds.length ∧ e.1 = xs (j + 1) := by
  induction ds generalizing i with
  | nil => simp [fvdFrom] at h
  | cons d ds ih =>
    simp only [fvdFrom, List.mem_cons] at h
    cases h with
    | inl h => subst h; exact ⟨i, Nat.le_refl i, by simp, rfl⟩
    | inr h =>
      obtain ⟨j, h1, h2, h3⟩ := ih (i + 1) h
      exact ⟨j, by omega, by simp; omega, h3⟩

theorem domInsert_fvdFrom (i : Nat) (ds : List (Option Name)) (o : Option Name) :
    domInsert (xs (i + ds.length + 1)) o (fvdFrom i ds) = fvdFrom i (ds ++ [o]) := by
  induction ds generalizing i with
  | nil => simp [fvdFrom, domInsert]
  | cons d ds ih =>
    simp only [fvdFrom, domInsert, List.cons_append, List.length_cons]
    have hne : xs (i + (ds.length + 1) + 1) ≠ xs (i + 1) := fun h => by have := xs_inj h; omega
    have hlt : nameLt (xs (i + (ds.length + 1) + 1)) (xs (i + 1)) = false := by
      rw [nameLt_xs]; simp
    simp only [hne, hlt, if_false, Bool.false_eq_true]
    have := ih (i + 1)
    rw [show i + 1 + ds.length + 1 = i + (ds.length + 1) + 1 by omega] at this
    rw [this]

theorem domInsert_fvdOf (ds : List (Option Name)) (o : Option Name) :
    domInsert (xs (ds.length + 1)) o (fvdOf ds) = fvdOf (ds ++ [o]) := by
  have := domInsert_fvdFrom 0 ds o
  simpa [fvdOf] using this

theorem domRemove_fvdOf (ds : List (Option Name)) (o : Option Name) :
    domRemove (xs (ds.length + 1)) (fvdOf (ds ++ [o])) = fvdOf ds := by
  simp only [fvdOf, fvdFrom_append, domRemove, List.filter_append, Nat.zero_add]
  have h1 : (fvdFrom 0 ds).filter (fun e => e.1 != xs (ds.length + 1)) = fvdFrom 0 ds := by
    apply List.filter_eq_self.mpr
    intro e he
    obtain ⟨j, _, hj, hej⟩ := fvdFrom_keys 0 ds e he
    simp only [bne_iff_ne, ne_eq, hej]
    intro hh
    have := xs_inj hh
    omega
  rw [h1]
  simp

theorem fvdOf_get (ds : List (Option Name)) (i : Nat) (o : Option Name) :
    (xs (i + 1), o) ∈ fvdOf ds ↔ ds[i]? = some o := by
  have key : ∀ (k : Nat) (ds : List (Option Name)), (xs (k + i + 1), o) ∈ fvdFrom k ds ↔ ds[i]? = some o := by
    intro k ds
    induction ds generalizing k i with
    | nil => simp [fvdFrom]
    | cons d ds ih =>
      simp only [fvdFrom, List.mem_cons, Prod.mk.injEq]
      cases i with
      | zero =>
        simp only [Nat.add_zero, true_and, List.getElem?_cons_zero, Option.some.injEq]
        constructor
        · rintro (h | h)
          · exact h.symm
          · obtain ⟨j, h1, _, h3⟩ := fvdFrom_keys (k + 1) ds _ h
            have := xs_inj h3
            omega
        · intro h; exact Or.inl h.symm
      | succ i =>
        simp only [List.getElem?_cons_succ]
        have := ih (i := i) (k + 1)
        rw [show k + 1 + i + 1 = k + (i + 1) + 1 by omega] at this
        rw [← this]
        constructor
        · rintro (⟨h, _⟩ | h)
          · have := xs_inj h; omega
          · exact h
        · intro h; exact Or.inr h
  have := key 0 ds
  simpa [fvdOf] using this

end Hctl
