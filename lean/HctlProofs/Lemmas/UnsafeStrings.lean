/-
  C18 at the string entry point: `model_check_formula_unsafe_ex(f)` returns exactly what
  `model_check_multiple_formulae_dirty([f])` returns, for every text whose preprocessed tree contains none of
  EX, AX, AF, EG, AU, EW.
-/
import HctlProofs.Props.C18
import HctlModel.Api
namespace Hctl.C18
open Hctl

variable (E : Env) (K : CharClass)

theorem unsafeEx_eq_standard (U : CSet) (f : List Char) (t : Tree)
    (hp : Api.parseOne E K false f = .ok t) (hn : NoLoopOps t) :
    Api.unsafeEx E K U f =
      match Api.formulaeDirty E K U [f] with
      | .ok [r] => .ok r
      | .ok _ => .panic "index"
      | .userError e => .userError e
      | .panic s => .panic s := by
  unfold Api.unsafeEx Api.formulaeDirty Api.treesDirty
  simp only [Api.parseAll, hp, Bool.false_eq_true, if_false]
  simp only [Api.evalAll]
  rw [unsafe_ex_eq E CSet.empty (Ops.steadyOf E U) t U _ hn]
  cases Eval.evalNode E (Ops.steadyOf E U) t U { dups := markDups [t] } with
  | error e => cases e; rfl
  | ok r => obtain ⟨r, c⟩ := r; rfl

end Hctl.C18
