/-
  `mark_duplicates`: every key the duplicate map ends up with is the key of a sub-formula of the analysed formulae
  that is depth-named, well-scoped, valid and has at most one variable (`KeyWitness`) — the fact the cache invariant
  needs about the initial duplicate map.
-/
import HctlProofs.Lemmas.SingleName
namespace Hctl
open C09

section
variable (C : CharClass) (E : Env)

/-- a pending node of the traversal: a sub-formula together with the domains of the quantifiers open above it -/
def Legit (e : Tree × DomMap) : Prop :=
  ∃ ds : List (Option Name), e.2 = fvdOf ds ∧ DepthNamed ds.length e.1 ∧ WellScoped E.G.k ds.length e.1 ∧
    Lex.TreeOK C e.1 ∧ PropNamesOK e.1

def DW (dups : DupMap) : Prop := ∀ key n, dupGet key dups = some n → KeyWitness C E key

variable {C E}

theorem dupGet_dupIncr (k k' : Key) (d : DupMap) (n : Int) (h : dupGet k' (dupIncr k d) = some n) :
    k' = k ∨ ∃ m, dupGet k' d = some m := by
  induction d with
  | nil =>
    simp only [dupIncr, dupGet_cons] at h
    by_cases hk : k' = k
    · exact Or.inl hk
    · simp [hk, dupGet] at h
  | cons e d ih =>
    obtain ⟨k0, m0⟩ := e
    simp only [dupIncr] at h
    by_cases hk : k = k0
    · subst hk
      simp only [if_true, dupGet_cons] at h
      by_cases hk' : k' = k
      · exact Or.inl hk'
      · right
        simp only [hk', if_false] at h
        exact ⟨n, by rw [dupGet_cons, if_neg hk']; exact h⟩
    · simp only [hk, if_false, dupGet_cons] at h
      by_cases hk' : k' = k0
      · right; exact ⟨m0, by rw [dupGet_cons, if_pos hk']⟩
      · simp only [hk', if_false] at h
        rcases ih h with h1 | ⟨m, h1⟩
        · exact Or.inl h1
        · right; exact ⟨m, by rw [dupGet_cons, if_neg hk']; exact h1⟩

theorem legit_children (t : Tree) (doms : DomMap) (h : Legit C E (t, doms)) :
    ∀ e ∈ childrenWithDoms t doms, Legit C E e := by
  obtain ⟨ds, hd, hn, hw, hv, hp⟩ := h
  simp only at hd hn hw hv hp
  intro e he
  cases t with
  | atom a => simp [childrenWithDoms] at he
  | un o c =>
    simp only [childrenWithDoms, List.mem_singleton] at he
    subst he
    exact ⟨ds, hd, hn, hw, by simpa [Lex.TreeOK] using hv, by simpa [PropNamesOK] using hp⟩
  | bin o l r =>
    simp only [childrenWithDoms, List.mem_cons, List.not_mem_nil, or_false] at he
    simp only [Lex.TreeOK, PropNamesOK] at hv hp
    rcases he with rfl | rfl
    · exact ⟨ds, hd, hn.1, hw.1, hv.1, hp.1⟩
    · exact ⟨ds, hd, hn.2, hw.2, hv.2, hp.2⟩
  | hyb o v dom c =>
    simp only [Lex.TreeOK, PropNamesOK] at hv hp
    by_cases hj : o = .jump
    · simp only [childrenWithDoms, hj, if_true, List.mem_singleton] at he
      subst he
      simp only [DepthNamed, WellScoped, hj, if_true] at hn hw
      exact ⟨ds, hd, hn.2, hw.2, hv.2.2, hp⟩
    · simp only [childrenWithDoms, hj, if_false, List.mem_singleton] at he
      subst he
      simp only [DepthNamed, WellScoped, hj, if_false] at hn hw
      refine ⟨ds ++ [dom], ?_, by simpa using hn.2, by simpa using hw.2.2, hv.2.2, hp⟩
      simp only
      rw [hd, hn.1]
      exact domInsert_fvdOf ds dom

theorem processLevel_inv : ∀ (cur : List (Tree × DomMap)) (seen : List Key) (dups : DupMap) (kids : List (Tree × DomMap)),
    (∀ e ∈ cur, Legit C E e) → DW C E dups → (∀ e ∈ kids, Legit C E e) →
    DW C E (processLevel cur seen dups kids).1 ∧ ∀ e ∈ (processLevel cur seen dups kids).2, Legit C E e := by
  intro cur
  induction cur with
  | nil => intro seen dups kids _ hd hk; exact ⟨hd, hk⟩
  | cons e cur ih =>
    intro seen dups kids hc hd hk
    obtain ⟨t, doms⟩ := e
    have hl : Legit C E (t, doms) := hc _ (by simp)
    have hc' : ∀ e ∈ cur, Legit C E e := fun e he => hc e (by simp [he])
    simp only [processLevel]
    by_cases hterm : (t.isTerminal && !t.isWild) = true
    · simp only [hterm, if_true]
      exact ih seen dups kids hc' hd hk
    · simp only [hterm, if_false, Bool.false_eq_true]
      cases hkey : keyOf t doms with
      | mk key ren =>
        simp only
        by_cases hdup : (decide (ren.length ≤ 1) && seen.contains key) = true
        · simp only [hdup, if_true]
          apply ih seen _ kids hc' _ hk
          intro k' n' hg
          rcases dupGet_dupIncr key k' dups n' hg with rfl | ⟨m, hm⟩
          · obtain ⟨ds, hd1, hn, hw, hv, hp⟩ := hl
            simp only [Bool.and_eq_true, decide_eq_true_eq] at hdup
            exact ⟨t, ds.length, doms, ren, hkey, hdup.1, hn, hw, hv, hp⟩
          · exact hd k' m hm
        · simp only [hdup, if_false, Bool.false_eq_true]
          apply ih _ dups _ hc' hd
          intro e he
          simp only [List.mem_append] at he
          rcases he with he | he
          · exact hk e he
          · exact legit_children t doms hl e he

theorem markLoop_inv : ∀ (n : Nat) (pending : List (Tree × DomMap)) (dups : DupMap),
    (∀ e ∈ pending, Legit C E e) → DW C E dups → DW C E (markLoop n pending dups) := by
  intro n
  induction n with
  | zero => intro pending dups _ hd; exact hd
  | succ n ih =>
    intro pending dups hp hd
    simp only [markLoop]
    by_cases he : pending.isEmpty = true
    · simp only [he, if_true]; exact hd
    · simp only [he, if_false, Bool.false_eq_true]
      have hcur : ∀ e ∈ pending.filter (fun e => e.1.height == maxHeight pending), Legit C E e :=
        fun e he => hp e (List.mem_filter.mp he).1
      have hrest : ∀ e ∈ pending.filter (fun e => e.1.height != maxHeight pending), Legit C E e :=
        fun e he => hp e (List.mem_filter.mp he).1
      have := processLevel_inv (pending.filter (fun e => e.1.height == maxHeight pending)) [] dups [] hcur hd
        (by intro e he; simp at he)
      apply ih _ _ _ this.1
      intro e he
      simp only [List.mem_append] at he
      rcases he with he | he
      · exact hrest e he
      · exact this.2 e he

/-- MAIN: the duplicate map computed by `mark_duplicates` for preprocessed, valid formulae satisfies the clause of the
cache invariant about duplicate keys. -/
theorem markDups_witness (roots : List Tree)
    (hr : ∀ t ∈ roots, DepthNamed 0 t ∧ WellScoped E.G.k 0 t ∧ Lex.TreeOK C t ∧ PropNamesOK t) :
    ∀ key n, dupGet key (markDups roots) = some n → KeyWitness C E key := by
  unfold markDups
  apply markLoop_inv
  · intro e he
    obtain ⟨t, ht, rfl⟩ := List.mem_map.mp he
    obtain ⟨h1, h2, h3, h4⟩ := hr t ht
    exact ⟨[], rfl, h1, h2, h3, h4⟩
  · intro key n h
    simp [dupGet] at h

end
/-! ### idempotence of canonisation -/

/-- relation between the state while canonising `t` and the state while canonising its canonical form -/
structure IdemInv (st st2 : CanonT) : Prop where
  stack : st2.stack = st.stack
  fwd : ∀ x c, (x, c) ∈ st.map → st2.map.lookup c = some c
  diag : ∀ k v, (k, v) ∈ st2.map → k = v ∧ ∃ j, j < st.stack ∧ k = canonName j

theorem lookup_mapInsert_self (k v : Name) (m : List (Name × Name)) : (mapInsert k v m).lookup k = some v := by
  simp [mapInsert, List.lookup]

theorem lookup_mapInsert_ne (k v x : Name) (m : List (Name × Name)) (h : x ≠ k) :
    (mapInsert k v m).lookup x = m.lookup x := by
  have hb : (x == k) = false := beq_eq_false_iff_ne.mpr h
  simp only [mapInsert, List.lookup, hb]
  induction m with
  | nil => rfl
  | cons e m ih =>
    obtain ⟨a, b⟩ := e
    simp only [List.filter_cons]
    by_cases ha : a = k
    · have h1 : ((a, b).1 != k) = false := by simp [ha]
      have h2 : (x == a) = false := beq_eq_false_iff_ne.mpr (by rw [ha]; exact h)
      simp only [h1, Bool.false_eq_true, if_false, List.lookup, h2]
      exact ih
    · have h1 : ((a, b).1 != k) = true := by simpa using ha
      simp only [h1, if_true, List.lookup]
      rw [ih]

theorem IdemInv.insert {st st2 : CanonT} (h : IdemInv st st2) (hst : CanonInv st) (v : Name) :
    IdemInv ⟨mapInsert v (canonName st.stack) st.map, st.stack + 1⟩
      ⟨mapInsert (canonName st2.stack) (canonName st2.stack) st2.map, st2.stack + 1⟩ := by
  rw [h.stack]
  refine ⟨rfl, ?_, ?_⟩
  · intro x c hm
    rcases mem_mapInsert.mp hm with ⟨_, rfl⟩ | ⟨_, hm'⟩
    · exact lookup_mapInsert_self _ _ _
    · obtain ⟨j, hj, rfl⟩ := hst.bound x c hm'
      have hne : canonName j ≠ canonName st.stack := fun hh => by have := canonName_inj hh; omega
      rw [lookup_mapInsert_ne _ _ _ _ hne]
      exact h.fwd x _ hm'
  · intro k v' hm
    rcases mem_mapInsert.mp hm with ⟨rfl, rfl⟩ | ⟨_, hm'⟩
    · exact ⟨rfl, st.stack, by simp, rfl⟩
    · obtain ⟨h1, j, hj, h2⟩ := h.diag k v' hm'
      exact ⟨h1, j, by simp; omega, h2⟩

/-- the canonical name of a variable occurrence is a fixed point of canonisation in the related state -/
theorem canonVar_idem {st st2 : CanonT} (h : IdemInv st st2) (hst : CanonInv st) (v : Name) :
    (canonVar (canonVar v st).1 st2).1 = (canonVar v st).1 ∧ IdemInv (canonVar v st).2 (canonVar (canonVar v st).1 st2).2 := by
  unfold canonVar
  cases hl : st.map.lookup v with
  | some cn =>
    simp only
    rw [h.fwd v cn (lookup_mem' _ hl)]
    exact ⟨rfl, h⟩
  | none =>
    simp only
    have hnew : st2.map.lookup (canonName st.stack) = none := by
      cases hl2 : st2.map.lookup (canonName st.stack) with
      | none => rfl
      | some c =>
        exfalso
        obtain ⟨_, j, hj, hk⟩ := h.diag _ c (lookup_mem' _ hl2)
        have := canonName_inj hk
        omega
    rw [hnew]
    simp only
    rw [h.stack]
    exact ⟨rfl, by have := h.insert hst v; rw [h.stack] at this; exact this⟩

/-- IDEMPOTENCE: canonising a canonical form changes nothing -/
theorem canonTreeAux_idem : ∀ (t : Tree) (st st2 : CanonT), CanonInv st → IdemInv st st2 →
    (canonTreeAux (canonTreeAux t st).1 st2).1 = (canonTreeAux t st).1 ∧
    IdemInv (canonTreeAux t st).2 (canonTreeAux (canonTreeAux t st).1 st2).2 := by
  intro t
  induction t with
  | atom a =>
    intro st st2 hst h
    cases a with
    | var v =>
      have := canonVar_idem h hst v
      simp only [canonTreeAux]
      exact ⟨by rw [this.1], this.2⟩
    | _ => exact ⟨by simp [canonTreeAux], by simpa [canonTreeAux] using h⟩
  | un o c ih =>
    intro st st2 hst h
    have := ih st st2 hst h
    simp only [canonTreeAux]
    exact ⟨by rw [this.1], this.2⟩
  | bin o l r ihl ihr =>
    intro st st2 hst h
    have a := ihl st st2 hst h
    have b := ihr _ _ (canonTreeAux_inv l st hst) a.2
    simp only [canonTreeAux]
    exact ⟨by rw [a.1, b.1], b.2⟩
  | hyb o v d c ih =>
    intro st st2 hst h
    by_cases hj : o = .jump
    · subst hj
      have a := canonVar_idem h hst v
      have b := ih _ _ (canonVar_inv hst v) a.2
      simp only [canonTreeAux, if_true]
      exact ⟨by rw [a.1, b.1], b.2⟩
    · have hi := h.insert hst v
      have b := ih _ _ (hst.insert v) hi
      simp only [canonTreeAux, hj, if_false]
      rw [h.stack] at b ⊢
      exact ⟨by rw [b.1], b.2⟩

theorem canonTree_idempotent (t : Tree) : (canonTree (canonTree t).1).1 = (canonTree t).1 := by
  have := canonTreeAux_idem t {} {} CanonInv.init ⟨rfl, fun _ _ h => by simp at h, fun _ _ h => by simp at h⟩
  simpa [canonTree] using this.1


/-- character level: canonising the canonical text of a formula over valid identifiers changes nothing -/
theorem canonChars_idempotent {C : CharClass} (hC : Lex.CharsOK C) (t : Tree) (ht : Lex.TreeOK C t ∧ PropNamesOK t) :
    (canonChars (canonChars t.render).1).1 = (canonChars t.render).1 := by
  rw [canonChars_render hC t ht.1]
  simp only
  rw [canonChars_render hC _ (canonTree_valid hC t ht).1, canonTree_idempotent]

/-- COMPLETENESS of canonical forms: a consistent (injective) renaming of the variable names does not change the
canonical form; the renaming map is renamed accordingly -/
theorem canon_invariant_under_renaming (f : Name → Name) (t : Tree)
    (hinj : ∀ x y, x ∈ varNames t → y ∈ varNames t → f x = f y → x = y) :
    (canonTree (t.mapVars f)).1 = (canonTree t).1 ∧ (canonTree (t.mapVars f)).2 = mapKeys f (canonTree t).2 := by
  have := (canonTreeAux_mapKeys f (fun x => x ∈ varNames t) hinj t {} (by simp) (fun x hx => hx)).1
  simp only [mapKeys_nil] at this
  have e1 : ({ map := [], stack := ({} : CanonT).stack } : CanonT) = {} := rfl
  rw [e1] at this
  simp only [canonTree]
  rw [this]
  exact ⟨rfl, rfl⟩

/-- SOUNDNESS of canonical forms for the keys the cache uses: if a depth-named, well-scoped tree with a single variable
name has the same canonical form as another depth-named tree, the other one is the first with its variable renamed -/
theorem canon_eq_imp_renaming_single (k : Nat) (t1 t2 : Tree) (d1 d2 : Nat) (v1 : Name)
    (hT : (canonTree t1).1 = (canonTree t2).1) (ho : OnlyVar v1 t1) (hd1 : DepthNamed d1 t1) (hw1 : WellScoped k d1 t1)
    (hd2 : DepthNamed d2 t2) : ∃ v2, t2 = t1.mapVars (fun _ => v2) := by
  simp only [canonTree] at hT
  obtain ⟨v2, h2⟩ := single_name_transfer k t1 t2 d1 d2 v1 hT ho hd1 hw1 hd2
  exact ⟨v2, eq_mapVars_of_canon_eq t1 t2 {} {} v2 hT h2⟩

/-! ### the duplicate counters are bounded by the number of occurrences -/

/-- all occurrences of sub-formulae below (and including) a node, each with the domains of the quantifiers open above
it — exactly the nodes `mark_duplicates` may visit -/
def occs : Tree → DomMap → List (Tree × DomMap)
  | .atom a, d => [(.atom a, d)]
  | .un o c, d => (.un o c, d) :: occs c d
  | .bin o l r, d => (.bin o l r, d) :: (occs l d ++ occs r d)
  | .hyb o v dom c, d => (.hyb o v dom c, d) :: occs c (if o = .jump then d else domInsert v dom d)

def occAll (l : List (Tree × DomMap)) : List (Tree × DomMap) := l.flatMap (fun e => occs e.1 e.2)

/-- number of occurrences carrying the key -/
def cnt (key : Key) (l : List (Tree × DomMap)) : Int := (l.countP (fun e => (keyOf e.1 e.2).1 == key) : Nat)

def dupVal (dups : DupMap) (key : Key) : Int := (dupGet key dups).getD 0

theorem occs_eq (t : Tree) (d : DomMap) : occs t d = (t, d) :: occAll (childrenWithDoms t d) := by
  cases t with
  | atom a => simp [occs, childrenWithDoms, occAll]
  | un o c => simp [occs, childrenWithDoms, occAll]
  | bin o l r => simp [occs, childrenWithDoms, occAll]
  | hyb o v dom c =>
    by_cases hj : o = .jump <;> simp [occs, childrenWithDoms, occAll, hj]

theorem cnt_append (key : Key) (a b : List (Tree × DomMap)) : cnt key (a ++ b) = cnt key a + cnt key b := by
  simp [cnt, List.countP_append]

theorem occAll_append (a b : List (Tree × DomMap)) : occAll (a ++ b) = occAll a ++ occAll b := by
  simp [occAll, List.flatMap_append]

theorem occAll_cons (e : Tree × DomMap) (l : List (Tree × DomMap)) : occAll (e :: l) = occs e.1 e.2 ++ occAll l := by
  simp [occAll]

theorem cnt_nonneg (key : Key) (l : List (Tree × DomMap)) : 0 ≤ cnt key l := by simp [cnt]

theorem cnt_cons (key : Key) (e : Tree × DomMap) (l : List (Tree × DomMap)) :
    cnt key (e :: l) = (if (keyOf e.1 e.2).1 = key then 1 else 0) + cnt key l := by
  simp only [cnt, List.countP_cons]
  by_cases h : (keyOf e.1 e.2).1 = key
  · simp [h]; omega
  · have : ((keyOf e.1 e.2).1 == key) = false := beq_eq_false_iff_ne.mpr h
    simp [h, this]

/-- the occurrences of a list split by a predicate -/
theorem cnt_occAll_filter (key : Key) (p : Tree × DomMap → Bool) (l : List (Tree × DomMap)) :
    cnt key (occAll l) = cnt key (occAll (l.filter p)) + cnt key (occAll (l.filter (fun e => !p e))) := by
  induction l with
  | nil => simp [occAll, cnt]
  | cons e l ih =>
    simp only [List.filter_cons]
    by_cases hp : p e = true
    · simp only [hp, if_true, Bool.not_true, Bool.false_eq_true, if_false, occAll_cons, cnt_append, ih]; omega
    · have hpf : p e = false := by simpa using hp
      simp only [hpf, Bool.false_eq_true, if_false, Bool.not_false, if_true, occAll_cons, cnt_append, ih]; omega

theorem dupGet_nil (k : Key) : dupGet k [] = none := rfl

theorem dupVal_cons (k k0 : Key) (m : Int) (d : DupMap) :
    dupVal ((k0, m) :: d) k = if k = k0 then m else dupVal d k := by
  unfold dupVal
  rw [dupGet_cons]
  split <;> simp

theorem dupVal_dupIncr (k k' : Key) : ∀ (d : DupMap), dupVal (dupIncr k d) k' = dupVal d k' + (if k' = k then 1 else 0) := by
  intro d
  induction d with
  | nil =>
    simp only [dupIncr, dupVal_cons]
    by_cases h : k' = k
    · simp [h, dupVal, dupGet_nil]
    · simp [h, dupVal, dupGet_nil]
  | cons e d ih =>
    obtain ⟨k0, m0⟩ := e
    simp only [dupIncr]
    by_cases hk : k = k0
    · subst hk
      simp only [if_true, dupVal_cons]
      by_cases hk' : k' = k <;> simp [hk']
    · simp only [hk, if_false, dupVal_cons]
      by_cases hk' : k' = k0
      · subst hk'
        have : ¬ k' = k := fun h => hk h.symm
        simp [this]
      · simp only [hk', if_false]
        exact ih

def ind (seen : List Key) (dups : DupMap) (key : Key) : Int := if key ∈ seen ∨ 0 < dupVal dups key then 1 else 0

theorem cnt_occs_self (key : Key) (t : Tree) (doms : DomMap) :
    cnt key (occs t doms) = (if (keyOf t doms).1 = key then 1 else 0) + cnt key (occAll (childrenWithDoms t doms)) := by
  rw [occs_eq, cnt_cons]

theorem processLevel_cnt (key : Key) (T restOcc : Int) : ∀ (cur : List (Tree × DomMap)) (seen : List Key) (dups : DupMap)
    (kids : List (Tree × DomMap)),
    dupVal dups key + cnt key (occAll cur) + cnt key (occAll kids) + restOcc + ind seen dups key ≤ T →
    dupVal (processLevel cur seen dups kids).1 key + cnt key (occAll (processLevel cur seen dups kids).2) + restOcc +
      (if 0 < dupVal (processLevel cur seen dups kids).1 key then 1 else 0) ≤ T := by
  intro cur
  induction cur with
  | nil =>
    intro seen dups kids h
    simp only [processLevel]
    have h0 : cnt key (occAll []) = 0 := by simp [occAll, cnt]
    have : (if 0 < dupVal dups key then (1 : Int) else 0) ≤ ind seen dups key := by
      unfold ind
      by_cases hd : 0 < dupVal dups key
      · simp [hd]
      · simp only [hd, if_false]; split <;> omega
    omega
  | cons e cur ih =>
    intro seen dups kids h
    obtain ⟨t, doms⟩ := e
    rw [occAll_cons, cnt_append, cnt_occs_self] at h
    dsimp only at h
    have hc := cnt_nonneg key (occAll (childrenWithDoms t doms))
    simp only [processLevel]
    by_cases hterm : (t.isTerminal && !t.isWild) = true
    · simp only [hterm, if_true]
      apply ih
      split at h <;> omega
    · simp only [hterm, if_false, Bool.false_eq_true]
      cases hkey : keyOf t doms with
      | mk key0 ren =>
        simp only [hkey] at h ⊢
        by_cases hdup : (decide (ren.length ≤ 1) && seen.contains key0) = true
        · simp only [hdup, if_true]
          apply ih
          have hs : key0 ∈ seen := by simp at hdup; exact hdup.2
          rw [dupVal_dupIncr]
          have hind : ind seen (dupIncr key0 dups) key = ind seen dups key := by
            unfold ind
            rw [dupVal_dupIncr]
            by_cases hk : key = key0
            · subst hk; simp [hs]
            · simp [hk]
          rw [hind]
          by_cases hk : key = key0
          · subst hk; simp only [if_true] at h ⊢; omega
          · have hk' : ¬ key0 = key := fun hh => hk hh.symm
            simp only [hk, hk', if_false] at h ⊢; omega
        · simp only [hdup, if_false, Bool.false_eq_true]
          apply ih
          rw [occAll_append, cnt_append]
          have hind : ind (key0 :: seen) dups key ≤ ind seen dups key + (if key0 = key then 1 else 0) := by
            unfold ind
            by_cases hk : key0 = key
            · subst hk; simp; split <;> omega
            · have hk' : ¬ key = key0 := fun hh => hk hh.symm
              simp [hk, hk']
          omega

theorem bne_eq_not_beq (a b : Nat) : (a != b) = !(a == b) := rfl

theorem markLoop_cnt (key : Key) (T : Int) : ∀ (n : Nat) (pending : List (Tree × DomMap)) (dups : DupMap),
    dupVal dups key + cnt key (occAll pending) + (if 0 < dupVal dups key then 1 else 0) ≤ T →
    dupVal (markLoop n pending dups) key + (if 0 < dupVal (markLoop n pending dups) key then 1 else 0) ≤ T := by
  intro n
  induction n with
  | zero =>
    intro pending dups h
    have := cnt_nonneg key (occAll pending)
    simp only [markLoop]; omega
  | succ n ih =>
    intro pending dups h
    simp only [markLoop]
    by_cases he : pending.isEmpty = true
    · simp only [he, if_true]
      have := cnt_nonneg key (occAll pending)
      omega
    · simp only [he, if_false, Bool.false_eq_true]
      have hsplit := cnt_occAll_filter key (fun e => e.1.height == maxHeight pending) pending
      have hfil : pending.filter (fun e => !(e.1.height == maxHeight pending)) =
          pending.filter (fun e => e.1.height != maxHeight pending) := rfl
      rw [hfil] at hsplit
      have hp := processLevel_cnt key T (cnt key (occAll (pending.filter (fun e => e.1.height != maxHeight pending))))
        (pending.filter (fun e => e.1.height == maxHeight pending)) [] dups [] (by
          have h0 : cnt key (occAll []) = 0 := by simp [occAll, cnt]
          have hi : ind [] dups key = (if 0 < dupVal dups key then 1 else 0) := by simp [ind]
          rw [h0, hi]; omega)
      apply ih
      rw [occAll_append, cnt_append]
      omega

/-- stored counters are positive -/
def AllPos (d : DupMap) : Prop := ∀ e ∈ d, 1 ≤ e.2

theorem dupIncr_allPos (k : Key) : ∀ (d : DupMap), AllPos d → AllPos (dupIncr k d) := by
  intro d
  induction d with
  | nil => intro _ e he; simp [dupIncr] at he; subst he; simp
  | cons x d ih =>
    intro h e he
    obtain ⟨k0, m0⟩ := x
    simp only [dupIncr] at he
    by_cases hk : k = k0
    · simp only [hk, if_true, List.mem_cons] at he
      rcases he with rfl | he
      · have := h (k0, m0) (by simp); simp at this ⊢; omega
      · exact h e (by simp [he])
    · simp only [hk, if_false, List.mem_cons] at he
      rcases he with rfl | he
      · exact h _ (by simp)
      · exact ih (fun e he => h e (by simp [he])) e he

theorem dupGet_mem {k : Key} {v : Int} : ∀ (d : DupMap), dupGet k d = some v → (k, v) ∈ d := by
  intro d
  induction d with
  | nil => intro h; simp [dupGet_nil] at h
  | cons x d ih =>
    intro h
    obtain ⟨k0, m0⟩ := x
    rw [dupGet_cons] at h
    split at h
    · rename_i hk; cases h; simp [hk]
    · exact List.mem_cons_of_mem _ (ih h)

theorem processLevel_allPos : ∀ (cur : List (Tree × DomMap)) (seen : List Key) (dups : DupMap) (kids : List (Tree × DomMap)),
    AllPos dups → AllPos (processLevel cur seen dups kids).1 := by
  intro cur
  induction cur with
  | nil => intro _ _ _ h; exact h
  | cons e cur ih =>
    intro seen dups kids h
    obtain ⟨t, doms⟩ := e
    simp only [processLevel]
    split
    · exact ih _ _ _ h
    · cases hkey : keyOf t doms with
      | mk key0 ren =>
        simp only
        split
        · exact ih _ _ _ (dupIncr_allPos key0 dups h)
        · exact ih _ _ _ h

theorem markLoop_allPos : ∀ (n : Nat) (pending : List (Tree × DomMap)) (dups : DupMap), AllPos dups →
    AllPos (markLoop n pending dups) := by
  intro n
  induction n with
  | zero => intro _ _ h; exact h
  | succ n ih =>
    intro pending dups h
    simp only [markLoop]
    split
    · exact h
    · exact ih _ _ (processLevel_allPos _ _ _ _ h)

/-- MAIN (C09, counters): a key reported by `mark_duplicates` with counter `n` has `n ≥ 1` and is the key of at least
`n + 1` sub-formula occurrences (same canonical text and same canonical domains) of the analysed formulae. -/
theorem markDups_count (roots : List Tree) (key : Key) (n : Int) (h : dupGet key (markDups roots) = some n) :
    1 ≤ n ∧ n + 1 ≤ cnt key (occAll (roots.map (fun t => (t, ([] : DomMap))))) := by
  have hpos : 1 ≤ n := by
    have := markLoop_allPos (maxHeight (roots.map (fun t => (t, ([] : DomMap)))) + 2) (roots.map (fun t => (t, ([] : DomMap)))) []
      (by intro e he; simp at he)
    exact this (key, n) (dupGet_mem _ h)
  refine ⟨hpos, ?_⟩
  have hc := markLoop_cnt key (cnt key (occAll (roots.map (fun t => (t, ([] : DomMap))))))
    (maxHeight (roots.map (fun t => (t, ([] : DomMap)))) + 2) (roots.map (fun t => (t, ([] : DomMap)))) []
    (by simp [dupVal, dupGet_nil])
  have hv : dupVal (markDups roots) key = n := by simp [dupVal, h]
  unfold markDups at hv
  rw [hv] at hc
  have : (0 : Int) < n := by omega
  simp only [this, if_true] at hc
  exact hc

end Hctl
