/-
  `mark_duplicates`: every key the duplicate map ends up with is the key of a sub-formula of the analysed formulae
  that is depth-named, well-scoped, valid and has at most one variable (`KeyWitness`) — the fact the cache invariant
  needs about the initial duplicate map.
-/
import HctlProofs.Lemmas.SingleName
namespace Hctl
open C09

section
variable (C : CharClass) (E : Env)

/-- a pending node of the traversal: a sub-formula together with the domains of the quantifiers open above it -/
def Legit (e : Tree × DomMap) : Prop :=
  ∃ ds : List (Option Name), e.2 = fvdOf ds ∧ DepthNamed ds.length e.1 ∧ WellScoped E.G.k ds.length e.1 ∧
    Lex.TreeOK C e.1 ∧ PropNamesOK e.1

def DW (dups : DupMap) : Prop := ∀ key n, dupGet key dups = some n → KeyWitness C E key

variable {C E}

theorem dupGet_dupIncr (k k' : Key) (d : DupMap) (n : Int) (h : dupGet k' (dupIncr k d) = some n) :
    k' = k ∨ ∃ m, dupGet k' d = some m := by
  induction d with
  | nil =>
    simp only [dupIncr, dupGet_cons] at h
    by_cases hk : k' = k
    · exact Or.inl hk
    · simp [hk, dupGet] at h
  | cons e d ih =>
    obtain ⟨k0, m0⟩ := e
    simp only [dupIncr] at h
    by_cases hk : k = k0
    · subst hk
      simp only [if_true, dupGet_cons] at h
      by_cases hk' : k' = k
      · exact Or.inl hk'
      · right
        simp only [hk', if_false] at h
        exact ⟨n, by rw [dupGet_cons, if_neg hk']; exact h⟩
    · simp only [hk, if_false, dupGet_cons] at h
      by_cases hk' : k' = k0
      · right; exact ⟨m0, by rw [dupGet_cons, if_pos hk']⟩
      · simp only [hk', if_false] at h
        rcases ih h with h1 | ⟨m, h1⟩
        · exact Or.inl h1
        · right; exact ⟨m, by rw [dupGet_cons, if_neg hk']; exact h1⟩

theorem legit_children (t : Tree) (doms : DomMap) (h : Legit C E (t, doms)) :
    ∀ e ∈ childrenWithDoms t doms, Legit C E e := by
  obtain ⟨ds, hd, hn, hw, hv, hp⟩ := h
  simp only at hd hn hw hv hp
  intro e he
  cases t with
  | atom a => simp [childrenWithDoms] at he
  | un o c =>
    simp only [childrenWithDoms, List.mem_singleton] at he
    subst he
    exact ⟨ds, hd, hn, hw, by simpa [Lex.TreeOK] using hv, by simpa [PropNamesOK] using hp⟩
  | bin o l r =>
    simp only [childrenWithDoms, List.mem_cons, List.not_mem_nil, or_false] at he
    simp only [Lex.TreeOK, PropNamesOK] at hv hp
    rcases he with rfl | rfl
    · exact ⟨ds, hd, hn.1, hw.1, hv.1, hp.1⟩
    · exact ⟨ds, hd, hn.2, hw.2, hv.2, hp.2⟩
  | hyb o v dom c =>
    simp only [Lex.TreeOK, PropNamesOK] at hv hp
    by_cases hj : o = .jump
    · simp only [childrenWithDoms, hj, if_true, List.mem_singleton] at he
      subst he
      simp only [DepthNamed, WellScoped, hj, if_true] at hn hw
      exact ⟨ds, hd, hn.2, hw.2, hv.2.2, hp⟩
    · simp only [childrenWithDoms, hj, if_false, List.mem_singleton] at he
      subst he
      simp only [DepthNamed, WellScoped, hj, if_false] at hn hw
      refine ⟨ds ++ [dom], ?_, by simpa using hn.2, by simpa using hw.2.2, hv.2.2, hp⟩
      simp only
      rw [hd, hn.1]
      exact domInsert_fvdOf ds dom

theorem processLevel_inv : ∀ (cur : List (Tree × DomMap)) (seen : List Key) (dups : DupMap) (kids : List (Tree × DomMap)),
    (∀ e ∈ cur, Legit C E e) → DW C E dups → (∀ e ∈ kids, Legit C E e) →
    DW C E (processLevel cur seen dups kids).1 ∧ ∀ e ∈ (processLevel cur seen dups kids).2, Legit C E e := by
  intro cur
  induction cur with
  | nil => intro seen dups kids _ hd hk; exact ⟨hd, hk⟩
  | cons e cur ih =>
    intro seen dups kids hc hd hk
    obtain ⟨t, doms⟩ := e
    have hl : Legit C E (t, doms) := hc _ (by simp)
    have hc' : ∀ e ∈ cur, Legit C E e := fun e he => hc e (by simp [he])
    simp only [processLevel]
    by_cases hterm : (t.isTerminal && !t.isWild) = true
    · simp only [hterm, if_true]
      exact ih seen dups kids hc' hd hk
    · simp only [hterm, if_false, Bool.false_eq_true]
      cases hkey : keyOf t doms with
      | mk key ren =>
        simp only
        by_cases hdup : (decide (ren.length ≤ 1) && seen.contains key) = true
        · simp only [hdup, if_true]
          apply ih seen _ kids hc' _ hk
          intro k' n' hg
          rcases dupGet_dupIncr key k' dups n' hg with rfl | ⟨m, hm⟩
          · obtain ⟨ds, hd1, hn, hw, hv, hp⟩ := hl
            simp only [Bool.and_eq_true, decide_eq_true_eq] at hdup
            exact ⟨t, ds.length, doms, ren, hkey, hdup.1, hn, hw, hv, hp⟩
          · exact hd k' m hm
        · simp only [hdup, if_false, Bool.false_eq_true]
          apply ih _ dups _ hc' hd
          intro e he
          simp only [List.mem_append] at he
          rcases he with he | he
          · exact hk e he
          · exact legit_children t doms hl e he

theorem markLoop_inv : ∀ (n : Nat) (pending : List (Tree × DomMap)) (dups : DupMap),
    (∀ e ∈ pending, Legit C E e) → DW C E dups → DW C E (markLoop n pending dups) := by
  intro n
  induction n with
  | zero => intro pending dups _ hd; exact hd
  | succ n ih =>
    intro pending dups hp hd
    simp only [markLoop]
    by_cases he : pending.isEmpty = true
    · simp only [he, if_true]; exact hd
    · simp only [he, if_false, Bool.false_eq_true]
      have hcur : ∀ e ∈ pending.filter (fun e => e.1.height == maxHeight pending), Legit C E e :=
        fun e he => hp e (List.mem_filter.mp he).1
      have hrest : ∀ e ∈ pending.filter (fun e => e.1.height != maxHeight pending), Legit C E e :=
        fun e he => hp e (List.mem_filter.mp he).1
      have := processLevel_inv (pending.filter (fun e => e.1.height == maxHeight pending)) [] dups [] hcur hd
        (by intro e he; simp at he)
      apply ih _ _ _ this.1
      intro e he
      simp only [List.mem_append] at he
      rcases he with he | he
      · exact hrest e he
      · exact this.2 e he

/-- MAIN: the duplicate map computed by `mark_duplicates` for preprocessed, valid formulae satisfies the clause of the
cache invariant about duplicate keys. -/
theorem markDups_witness (roots : List Tree)
    (hr : ∀ t ∈ roots, DepthNamed 0 t ∧ WellScoped E.G.k 0 t ∧ Lex.TreeOK C t ∧ PropNamesOK t) :
    ∀ key n, dupGet key (markDups roots) = some n → KeyWitness C E key := by
  unfold markDups
  apply markLoop_inv
  · intro e he
    obtain ⟨t, ht, rfl⟩ := List.mem_map.mp he
    obtain ⟨h1, h2, h3, h4⟩ := hr t ht
    exact ⟨[], rfl, h1, h2, h3, h4⟩
  · intro key n h
    simp [dupGet] at h

end
end Hctl
