/-
  `mark_duplicates`: every key the duplicate map ends up with is the key of a sub-formula of the analysed formulae
  that is depth-named, well-scoped, valid and has at most one variable (`KeyWitness`) — the fact the cache invariant
  needs about the initial duplicate map.
-/
import HctlProofs.Lemmas.SingleName
namespace Hctl
open C09

section
variable (C : CharClass) (E : Env)

/-- a pending node of the traversal: a sub-formula together with the domains of the quantifiers open above it -/
def Legit (e : Tree × DomMap) : Prop :=
  ∃ ds : List (Option Name), e.2 = fvdOf ds ∧ DepthNamed ds.length e.1 ∧ WellScoped E.G.k ds.length e.1 ∧
    Lex.TreeOK C e.1 ∧ PropNamesOK e.1

def DW (dups : DupMap) : Prop := ∀ key n, dupGet key dups = some n → KeyWitness C E key

variable {C E}

theorem dupGet_dupIncr (k k' : Key) (d : DupMap) (n : Int) (h : dupGet k' (dupIncr k d) = some n) :
    k' = k ∨ ∃ m, dupGet k' d = some m := by
  induction d with
  | nil =>
    simp only [dupIncr, dupGet_cons] at h
    by_cases hk : k' = k
    · exact Or.inl hk
    · simp [hk, dupGet] at h
  | cons e d ih =>
    obtain ⟨k0, m0⟩ := e
    simp only [dupIncr] at h
    by_cases hk : k = k0
    · subst hk
      simp only [if_true, dupGet_cons] at h
      by_cases hk' : k' = k
      · exact Or.inl hk'
      · right
        simp only [hk', if_false] at h
        exact ⟨n, by rw [dupGet_cons, if_neg hk']; exact h⟩
    · simp only [hk, if_false, dupGet_cons] at h
      by_cases hk' : k' = k0
      · right; exact ⟨m0, by rw [dupGet_cons, if_pos hk']⟩
      · simp only [hk', if_false] at h
        rcases ih h with h1 | ⟨m, h1⟩
        · exact Or.inl h1
        · right; exact ⟨m, by rw [dupGet_cons, if_neg hk']; exact h1⟩

theorem legit_children (t : Tree) (doms : DomMap) (h : Legit C E (t, doms)) :
    ∀ e ∈ childrenWithDoms t doms, Legit C E e := by
  obtain ⟨ds, hd, hn, hw, hv, hp⟩ := h
  simp only at hd hn hw hv hp
  intro e he
  cases t with
  | atom a => simp [childrenWithDoms] at he
  | un o c =>
    simp only [childrenWithDoms, List.mem_singleton] at he
    subst he
    exact ⟨ds, hd, hn, hw, by simpa [Lex.TreeOK] using hv, by simpa [PropNamesOK] using hp⟩
  | bin o l r =>
    simp only [childrenWithDoms, List.mem_cons, List.not_mem_nil, or_false] at he
    simp only [Lex.TreeOK, PropNamesOK] at hv hp
    rcases he with rfl | rfl
    · exact ⟨ds, hd, hn.1, hw.1, hv.1, hp.1⟩
    · exact ⟨ds, hd, hn.2, hw.2, hv.2, hp.2⟩
  | hyb o v dom c =>
    simp only [Lex.TreeOK, PropNamesOK] at hv hp
    by_cases hj : o = .jump
    · simp only [childrenWithDoms, hj, if_true, List.mem_singleton] at he
      subst he
      simp only [DepthNamed, WellScoped, hj, if_true] at hn hw
      exact ⟨ds, hd, hn.2, hw.2, hv.2.2, hp⟩
    · simp only [childrenWithDoms, hj, if_false, List.mem_singleton] at he
      subst he
      simp only [DepthNamed, WellScoped, hj, if_false] at hn hw
      refine ⟨ds ++ [dom], ?_, by simpa using hn.2, by simpa using hw.2.2, hv.2.2, hp⟩
      simp only
      rw [hd, hn.1]
      exact domInsert_fvdOf ds dom

theorem processLevel_inv : ∀ (cur : List (Tree × DomMap)) (seen : List Key) (dups : DupMap) (kids : List (Tree × DomMap)),
    (∀ e ∈ cur, Legit C E e) → DW C E dups → (∀ e ∈ kids, Legit C E e) →
    DW C E (processLevel cur seen dups kids).1 ∧ ∀ e ∈ (processLevel cur seen dups kids).2, Legit C E e := by
  intro cur
  induction cur with
  | nil => intro seen dups kids _ hd hk; exact ⟨hd, hk⟩
  | cons e cur ih =>
    intro seen dups kids hc hd hk
    obtain ⟨t, doms⟩ := e
    have hl : Legit C E (t, doms) := hc _ (by simp)
    have hc' : ∀ e ∈ cur, Legit C E e := fun e he => hc e (by simp [he])
    simp only [processLevel]
    by_cases hterm : (t.isTerminal && !t.isWild) = true
    · simp only [hterm, if_true]
      exact ih seen dups kids hc' hd hk
    · simp only [hterm, if_false, Bool.false_eq_true]
      cases hkey : keyOf t doms with
      | mk key ren =>
        simp only
        by_cases hdup : (decide (ren.length ≤ 1) && seen.contains key) = true
        · simp only [hdup, if_true]
          apply ih seen _ kids hc' _ hk
          intro k' n' hg
          rcases dupGet_dupIncr key k' dups n' hg with rfl | ⟨m, hm⟩
          · obtain ⟨ds, hd1, hn, hw, hv, hp⟩ := hl
            simp only [Bool.and_eq_true, decide_eq_true_eq] at hdup
            exact ⟨t, ds.length, doms, ren, hkey, hdup.1, hn, hw, hv, hp⟩
          · exact hd k' m hm
        · simp only [hdup, if_false, Bool.false_eq_true]
          apply ih _ dups _ hc' hd
          intro e he
          simp only [List.mem_append] at he
          rcases he with he | he
          · exact hk e he
          · exact legit_children t doms hl e he

theorem markLoop_inv : ∀ (n : Nat) (pending : List (Tree × DomMap)) (dups : DupMap),
    (∀ e ∈ pending, Legit C E e) → DW C E dups → DW C E (markLoop n pending dups) := by
  intro n
  induction n with
  | zero => intro pending dups _ hd; exact hd
  | succ n ih =>
    intro pending dups hp hd
    simp only [markLoop]
    by_cases he : pending.isEmpty = true
    · simp only [he, if_true]; exact hd
    · simp only [he, if_false, Bool.false_eq_true]
      have hcur : ∀ e ∈ pending.filter (fun e => e.1.height == maxHeight pending), Legit C E e :=
        fun e he => hp e (List.mem_filter.mp he).1
      have hrest : ∀ e ∈ pending.filter (fun e => e.1.height != maxHeight pending), Legit C E e :=
        fun e he => hp e (List.mem_filter.mp he).1
      have := processLevel_inv (pending.filter (fun e => e.1.height == maxHeight pending)) [] dups [] hcur hd
        (by intro e he; simp at he)
      apply ih _ _ _ this.1
      intro e he
      simp only [List.mem_append] at he
      rcases he with he | he
      · exact hrest e he
      · exact this.2 e he

/-- MAIN: the duplicate map computed by `mark_duplicates` for preprocessed, valid formulae satisfies the clause of the
cache invariant about duplicate keys. -/
theorem markDups_witness (roots : List Tree)
    (hr : ∀ t ∈ roots, DepthNamed 0 t ∧ WellScoped E.G.k 0 t ∧ Lex.TreeOK C t ∧ PropNamesOK t) :
    ∀ key n, dupGet key (markDups roots) = some n → KeyWitness C E key := by
  unfold markDups
  apply markLoop_inv
  · intro e he
    obtain ⟨t, ht, rfl⟩ := List.mem_map.mp he
    obtain ⟨h1, h2, h3, h4⟩ := hr t ht
    exact ⟨[], rfl, h1, h2, h3, h4⟩
  · intro key n h
    simp [dupGet] at h

end
/-! ### idempotence of canonisation -/

/-- relation between the state while canonising `t` and the state while canonising its canonical form -/
structure IdemInv (st st2 : CanonT) : Prop where
  stack : st2.stack = st.stack
  fwd : ∀ x c, (x, c) ∈ st.map → st2.map.lookup c = some c
  diag : ∀ k v, (k, v) ∈ st2.map → k = v ∧ ∃ j, j < st.stack ∧ k = canonName j

theorem lookup_mapInsert_self (k v : Name) (m : List (Name × Name)) : (mapInsert k v m).lookup k = some v := by
  simp [mapInsert, List.lookup]

theorem lookup_mapInsert_ne (k v x : Name) (m : List (Name × Name)) (h : x ≠ k) :
    (mapInsert k v m).lookup x = m.lookup x := by
  have hb : (x == k) = false := beq_eq_false_iff_ne.mpr h
  simp only [mapInsert, List.lookup, hb]
  induction m with
  | nil => rfl
  | cons e m ih =>
    obtain ⟨a, b⟩ := e
    simp only [List.filter_cons]
    by_cases ha : a = k
    · have h1 : ((a, b).1 != k) = false := by simp [ha]
      have h2 : (x == a) = false := beq_eq_false_iff_ne.mpr (by rw [ha]; exact h)
      simp only [h1, Bool.false_eq_true, if_false, List.lookup, h2]
      exact ih
    · have h1 : ((a, b).1 != k) = true := by simpa using ha
      simp only [h1, if_true, List.lookup]
      rw [ih]

theorem IdemInv.insert {st st2 : CanonT} (h : IdemInv st st2) (hst : CanonInv st) (v : Name) :
    IdemInv ⟨mapInsert v (canonName st.stack) st.map, st.stack + 1⟩
      ⟨mapInsert (canonName st2.stack) (canonName st2.stack) st2.map, st2.stack + 1⟩ := by
  rw [h.stack]
  refine ⟨rfl, ?_, ?_⟩
  · intro x c hm
    rcases mem_mapInsert.mp hm with ⟨_, rfl⟩ | ⟨_, hm'⟩
    · exact lookup_mapInsert_self _ _ _
    · obtain ⟨j, hj, rfl⟩ := hst.bound x c hm'
      have hne : canonName j ≠ canonName st.stack := fun hh => by have := canonName_inj hh; omega
      rw [lookup_mapInsert_ne _ _ _ _ hne]
      exact h.fwd x _ hm'
  · intro k v' hm
    rcases mem_mapInsert.mp hm with ⟨rfl, rfl⟩ | ⟨_, hm'⟩
    · exact ⟨rfl, st.stack, by simp, rfl⟩
    · obtain ⟨h1, j, hj, h2⟩ := h.diag k v' hm'
      exact ⟨h1, j, by simp; omega, h2⟩

/-- the canonical name of a variable occurrence is a fixed point of canonisation in the related state -/
theorem canonVar_idem {st st2 : CanonT} (h : IdemInv st st2) (hst : CanonInv st) (v : Name) :
    (canonVar (canonVar v st).1 st2).1 = (canonVar v st).1 ∧ IdemInv (canonVar v st).2 (canonVar (canonVar v st).1 st2).2 := by
  unfold canonVar
  cases hl : st.map.lookup v with
  | some cn =>
    simp only
    rw [h.fwd v cn (lookup_mem' _ hl)]
    exact ⟨rfl, h⟩
  | none =>
    simp only
    have hnew : st2.map.lookup (canonName st.stack) = none := by
      cases hl2 : st2.map.lookup (canonName st.stack) with
      | none => rfl
      | some c =>
        exfalso
        obtain ⟨_, j, hj, hk⟩ := h.diag _ c (lookup_mem' _ hl2)
        have := canonName_inj hk
        omega
    rw [hnew]
    simp only
    rw [h.stack]
    exact ⟨rfl, by have := h.insert hst v; rw [h.stack] at this; exact this⟩

/-- IDEMPOTENCE: canonising a canonical form changes nothing -/
theorem canonTreeAux_idem : ∀ (t : Tree) (st st2 : CanonT), CanonInv st → IdemInv st st2 →
    (canonTreeAux (canonTreeAux t st).1 st2).1 = (canonTreeAux t st).1 ∧
    IdemInv (canonTreeAux t st).2 (canonTreeAux (canonTreeAux t st).1 st2).2 := by
  intro t
  induction t with
  | atom a =>
    intro st st2 hst h
    cases a with
    | var v =>
      have := canonVar_idem h hst v
      simp only [canonTreeAux]
      exact ⟨by rw [this.1], this.2⟩
    | _ => exact ⟨by simp [canonTreeAux], by simpa [canonTreeAux] using h⟩
  | un o c ih =>
    intro st st2 hst h
    have := ih st st2 hst h
    simp only [canonTreeAux]
    exact ⟨by rw [this.1], this.2⟩
  | bin o l r ihl ihr =>
    intro st st2 hst h
    have a := ihl st st2 hst h
    have b := ihr _ _ (canonTreeAux_inv l st hst) a.2
    simp only [canonTreeAux]
    exact ⟨by rw [a.1, b.1], b.2⟩
  | hyb o v d c ih =>
    intro st st2 hst h
    by_cases hj : o = .jump
    · subst hj
      have a := canonVar_idem h hst v
      have b := ih _ _ (canonVar_inv hst v) a.2
      simp only [canonTreeAux, if_true]
      exact ⟨by rw [a.1, b.1], b.2⟩
    · have hi := h.insert hst v
      have b := ih _ _ (hst.insert v) hi
      simp only [canonTreeAux, hj, if_false]
      rw [h.stack] at b ⊢
      exact ⟨by rw [b.1], b.2⟩

theorem canonTree_idempotent (t : Tree) : (canonTree (canonTree t).1).1 = (canonTree t).1 := by
  have := canonTreeAux_idem t {} {} CanonInv.init ⟨rfl, fun _ _ h => by simp at h, fun _ _ h => by simp at h⟩
  simpa [canonTree] using this.1


/-- character level: canonising the canonical text of a formula over valid identifiers changes nothing -/
theorem canonChars_idempotent {C : CharClass} (hC : Lex.CharsOK C) (t : Tree) (ht : Lex.TreeOK C t ∧ PropNamesOK t) :
    (canonChars (canonChars t.render).1).1 = (canonChars t.render).1 := by
  rw [canonChars_render hC t ht.1]
  simp only
  rw [canonChars_render hC _ (canonTree_valid hC t ht).1, canonTree_idempotent]

/-- COMPLETENESS of canonical forms: a consistent (injective) renaming of the variable names does not change the
canonical form; the renaming map is renamed accordingly -/
theorem canon_invariant_under_renaming (f : Name → Name) (t : Tree)
    (hinj : ∀ x y, x ∈ varNames t → y ∈ varNames t → f x = f y → x = y) :
    (canonTree (t.mapVars f)).1 = (canonTree t).1 ∧ (canonTree (t.mapVars f)).2 = mapKeys f (canonTree t).2 := by
  have := (canonTreeAux_mapKeys f (fun x => x ∈ varNames t) hinj t {} (by simp) (fun x hx => hx)).1
  simp only [mapKeys_nil] at this
  have e1 : ({ map := [], stack := ({} : CanonT).stack } : CanonT) = {} := rfl
  rw [e1] at this
  simp only [canonTree]
  rw [this]
  exact ⟨rfl, rfl⟩

/-- SOUNDNESS of canonical forms for the keys the cache uses: if a depth-named, well-scoped tree with a single variable
name has the same canonical form as another depth-named tree, the other one is the first with its variable renamed -/
theorem canon_eq_imp_renaming_single (k : Nat) (t1 t2 : Tree) (d1 d2 : Nat) (v1 : Name)
    (hT : (canonTree t1).1 = (canonTree t2).1) (ho : OnlyVar v1 t1) (hd1 : DepthNamed d1 t1) (hw1 : WellScoped k d1 t1)
    (hd2 : DepthNamed d2 t2) : ∃ v2, t2 = t1.mapVars (fun _ => v2) := by
  simp only [canonTree] at hT
  obtain ⟨v2, h2⟩ := single_name_transfer k t1 t2 d1 d2 v1 hT ho hd1 hw1 hd2
  exact ⟨v2, eq_mapVars_of_canon_eq t1 t2 {} {} v2 hT h2⟩

end Hctl
