/-
  DEFINITIONS for the theorem about the cached evaluator `Eval.evalNode` (duplicate counters, cache with renaming, foreign-restriction flag,
  free_var_domains, pattern shortcuts, empty-domain shortcut) returns — for EVERY state of the cache that
  satisfies the invariant `CacheOK`, hence for every evaluation history — a set that is semantically exact,
  and re-establishes the invariant.

  Two facts about canonical keys are HYPOTHESES of the theorem (`KeySem`, `KeyWild`): that equal keys imply
  that the cached set, renamed back, denotes the other sub-formula.  They are the semantic content of C09
  and are checked by the correspondences K5/K6/K7, not proved here.
-/
import HctlProofs.Lemmas.CacheBasics
import HctlProofs.Props.C12
import HctlProofs.Props.C07
import HctlProofs.Lemmas.CanonRender
namespace Hctl
open Kripke

/-- every wild-card proposition of the formula has a context set -/
def WildsIn (K : SemCtx) : Tree → Prop
  | .atom (.wild w) => ∃ a, K.wild w = some a
  | .atom _ => True
  | .un _ c => WildsIn K c
  | .bin _ l r => WildsIn K l ∧ WildsIn K r
  | .hyb _ _ _ c => WildsIn K c

/-- the unit set is the top-level unit restricted by the domains of the open quantifiers -/
def UnitDesc (E : Env) (K : SemCtx) (U0 U : CSet) (ds : List (Option Name)) : Prop :=
  ∀ p ∈ E.pts, (U p = true ↔ (U0 p = true ∧
    ∀ i l a, ds[i]? = some (some l) → K.dom l = some a → a (p.setS (p.getV i)) = true))

/-- a legitimate call of `eval_node`: preprocessed sub-formula `t` at quantifier depth `ds.length`, in the
unit set `U` described by the open domains `ds` -/
structure GoodQ (C : CharClass) (E : Env) (K : SemCtx) (U0 : CSet) (t : Tree) (U : CSet) (ds : List (Option Name)) : Prop where
  wscoped : WellScoped E.G.k ds.length t
  named : DepthNamed ds.length t
  dk : ds.length ≤ E.G.k
  domsIn : DomsIn K t
  domsDs : ∀ (i : Nat) l, ds[i]? = some (some l) → ∃ a, K.dom l = some a
  wildsIn : WildsIn K t
  labelled : C07.PropsOK (fun n => (E.G.label n).isSome) t
  unit : UnitOK E U0 (Ops.steadyOf E U0) U ds.length
  desc : UnitDesc E K U0 U ds
  valid : Lex.TreeOK C t ∧ PropNamesOK t

/-- no quantifier with a restricted domain is open whose variable does not occur in the sub-formula -/
def NoForeign (ren : List (Name × Name)) (ds : List (Option Name)) : Prop :=
  ∀ i l, ds[i]? = some (some l) → (ren.lookup (xs (i + 1))).isSome = true

/-- key of a wild-card proposition -/
def wkey (w : Name) : Key := ('%' :: w ++ ['%'], [])

/-- HYPOTHESIS (semantic key soundness, the content of C09): if two legitimate sub-formula occurrences have the
same key (canonical text + canonical domains), at most one variable, and the first was evaluated without
foreign restriction, then renaming the first one's set back along the renamings and intersecting with the
second one's unit yields exactly the second one's satisfaction set — and the renaming does not fault. -/
def KeySem (C : CharClass) (E : Env) (K : SemCtx) (U0 : CSet) : Prop :=
  ∀ t1 U1 ds1 t2 U2 ds2 key ren1 ren2 R,
    GoodQ C E K U0 t1 U1 ds1 → GoodQ C E K U0 t2 U2 ds2 →
    keyOf t1 (fvdOf ds1) = (key, ren1) → keyOf t2 (fvdOf ds2) = (key, ren2) →
    ren1.length ≤ 1 → ren2.length ≤ 1 → NoForeign ren1 ds1 → t1.isWild = false →
    Sem E R U1 (sat E.G K t1) →
    ∃ r', Eval.renameBack E U2 ren2 (sortRen ren1) R = .ok r' ∧ Sem E (r'.inter U2) U2 (sat E.G K t2)

/-- HYPOTHESIS (keys of wild-card propositions): the key of `%w%` is `("%w%", ∅)`, and only `%w%` has it -/
structure KeyWild (C : CharClass) (E : Env) (K : SemCtx) (U0 : CSet) : Prop where
  wild_key : ∀ w ds, Lex.ValidId C w → keyOf (.atom (.wild w)) (fvdOf ds) = (wkey w, [])
  key_wild : ∀ t U ds w ren, GoodQ C E K U0 t U ds → keyOf t (fvdOf ds) = (wkey w, ren) → t = .atom (.wild w)

/-- some depth-named, well-scoped, valid tree with at most one variable has this key -/
def KeyWitness (C : CharClass) (E : Env) (key : Key) : Prop :=
  ∃ t0 d0 doms0 ren0, keyOf t0 doms0 = (key, ren0) ∧ ren0.length ≤ 1 ∧ DepthNamed d0 t0 ∧ WellScoped E.G.k d0 t0 ∧
    Lex.TreeOK C t0 ∧ PropNamesOK t0

/-- the invariant of the evaluation context -/
structure CacheOK (C : CharClass) (E : Env) (K : SemCtx) (U0 : CSet) (ctx : ECtx) : Prop where
  entries : ∀ key R rren, cacheGet key ctx.cache = some (R, rren) →
    (∃ w a, key = wkey w ∧ K.wild w = some a ∧ R = a ∧ rren = []) ∨
    (∃ t1 U1 ds1, GoodQ C E K U0 t1 U1 ds1 ∧ keyOf t1 (fvdOf ds1) = (key, rren) ∧ rren.length ≤ 1 ∧
      NoForeign rren ds1 ∧ t1.isWild = false ∧ Sem E R U1 (sat E.G K t1))
  wilds : ∀ w a, K.wild w = some a →
    cacheGet (wkey w) ctx.cache = some (a, []) ∧ (dupGet (wkey w) ctx.dups).isSome = true
  domRaw : ∀ l a, K.dom l = some a → ctx.domRaw.lookup l = some a
  /-- every key of the duplicate map is the key of some depth-named, well-scoped, valid tree with at most one
  variable (what `mark_duplicates` guarantees; `dups_le_one` turns it into a property of the key) -/
  dupsOK : ∀ key n, dupGet key ctx.dups = some n → KeyWitness C E key

end Hctl
