/-
  parser ↔ grammar: soundness, completeness (with sufficient fuel), fuel never runs out.
-/
import HctlProofs.Lemmas.Parser
namespace Hctl

/-- soundness of one boolean/temporal binary level -/
theorem bin_level_sound {k : Lvl} {o : BinOp} (hop : k.hasOp o = true) (hk : k ≠ .term)
    {ts pre post : List Tok} {x : Tok} {t : Tree}
    {pl pr : Except PErr Tree}
    (hs : ts = pre ++ x :: post) (hx : x = .bin o)
    (h : bin? o pl pr = .ok t)
    (ihl : ∀ a, pl = .ok a → D k.next pre a) (ihr : ∀ b, pr = .ok b → D k post b) :
    D k ts t := by
  obtain ⟨a, b, ha, hb, rfl⟩ := bin?_ok h
  subst hs hx
  exact D.bin hop (ihl a ha) (ihr b hb)

theorem isBinTemporal_eq {x : Tok} (h : x.isBinTemporal = true) : ∃ o, x = .bin o ∧ o.isTemporal = true := by
  cases x <;> simp_all [Tok.isBinTemporal]

theorem isUnary_eq {x : Tok} (h : x.isUnary = true) : ∃ o, x = .un o := by
  cases x <;> simp_all [Tok.isUnary]

theorem isHybrid_eq {x : Tok} (h : x.isHybrid = true) : ∃ o v d, x = .hyb o v d := by
  cases x <;> simp_all [Tok.isHybrid]

/-- generic step for the five boolean levels -/
theorem bool_level_sound {k : Lvl} {o : BinOp} (hop : k.hasOp o = true) (hk : k ≠ .term)
    (hpred : k.splitPred = Tok.isBin o)
    {ts : List Tok} {t : Tree} {pnext pself : List Tok → Except PErr Tree}
    (h : (match splitFirst (Tok.isBin o) ts with
          | some (pre, _, post) => bin? o (pnext pre) (pself post)
          | none => pnext ts) = .ok t)
    (ihn : ∀ ts t, pnext ts = .ok t → D k.next ts t) (ihs : ∀ ts t, pself ts = .ok t → D k ts t) :
    D k ts t := by
  cases hs : splitFirst (Tok.isBin o) ts with
  | none =>
    rw [hs] at h
    exact D.up hk (ihn _ _ h)
  | some r =>
    obtain ⟨pre, x, post⟩ := r
    rw [hs] at h
    obtain ⟨h1, h2, _⟩ := splitFirst_some hs
    exact bin_level_sound hop hk h1 (isBin_eq h2) h (fun a ha => ihn _ _ ha) (fun b hb => ihs _ _ hb)

theorem parse_sound : ∀ n,
    (∀ ts t, parse1 n ts = .ok t → D .hyb ts t) ∧
    (∀ ts t, parse2 n ts = .ok t → D .iff ts t) ∧
    (∀ ts t, parse3 n ts = .ok t → D .imp ts t) ∧
    (∀ ts t, parse4 n ts = .ok t → D .or ts t) ∧
    (∀ ts t, parse5 n ts = .ok t → D .xor ts t) ∧
    (∀ ts t, parse6 n ts = .ok t → D .and ts t) ∧
    (∀ ts t, parse7 n ts = .ok t → D .bt ts t) ∧
    (∀ ts t, parse8 n ts = .ok t → D .un ts t) ∧
    (∀ ts t, parse9 n ts = .ok t → D .term ts t) := by
  intro n
  induction n with
  | zero => simp [parse1, parse2, parse3, parse4, parse5, parse6, parse7, parse8, parse9]
  | succ n ih =>
    obtain ⟨ih1, ih2, ih3, ih4, ih5, ih6, ih7, ih8, ih9⟩ := ih
    refine ⟨?_, ?_, ?_, ?_, ?_, ?_, ?_, ?_, ?_⟩
    · -- parse1
      intro ts t h
      simp only [parse1] at h
      cases hs : splitFirst Tok.isHybrid ts with
      | none =>
        rw [hs] at h
        exact D.up (by decide) (ih2 _ _ h)
      | some r =>
        obtain ⟨pre, x, post⟩ := r
        rw [hs] at h
        obtain ⟨h1, h2, h3⟩ := splitFirst_some hs
        obtain ⟨o, v, d, rfl⟩ := isHybrid_eq h2
        simp only at h
        split at h
        · exact absurd h (by simp)
        · rename_i hcond
          cases hp : parse1 n post with
          | error e => simp [hp] at h
          | ok c =>
            simp [hp] at h
            subst h
            -- pre must be empty: its last element would be a hybrid token before the first one
            have hpre : pre = [] := by
              cases hne : pre.isEmpty with
              | true => simpa using hne
              | false =>
                exfalso
                simp [hne, lastIsHybrid] at hcond
                cases hl : pre.getLast? with
                | none =>
                  have := List.getLast?_eq_none_iff.mp hl
                  simp [this] at hne
                | some z =>
                  simp [hl] at hcond
                  have hz : z ∈ pre := List.mem_of_getLast? hl
                  have := h3 z hz
                  simp [hcond] at this
            subst hpre
            simp at h1
            subst h1
            exact D.hyb (ih1 _ _ hp)
    · intro ts t h
      simp only [parse2] at h
      exact bool_level_sound (k := .iff) rfl (by decide) rfl h ih3 ih2
    · intro ts t h
      simp only [parse3] at h
      exact bool_level_sound (k := .imp) rfl (by decide) rfl h ih4 ih3
    · intro ts t h
      simp only [parse4] at h
      exact bool_level_sound (k := .or) rfl (by decide) rfl h ih5 ih4
    · intro ts t h
      simp only [parse5] at h
      exact bool_level_sound (k := .xor) rfl (by decide) rfl h ih6 ih5
    · intro ts t h
      simp only [parse6] at h
      exact bool_level_sound (k := .and) rfl (by decide) rfl h ih7 ih6
    · -- parse7
      intro ts t h
      simp only [parse7] at h
      cases hs : splitFirst Tok.isBinTemporal ts with
      | none =>
        rw [hs] at h
        exact D.up (by decide) (ih8 _ _ h)
      | some r =>
        obtain ⟨pre, x, post⟩ := r
        rw [hs] at h
        obtain ⟨h1, h2, _⟩ := splitFirst_some hs
        obtain ⟨o, rfl, ho⟩ := isBinTemporal_eq h2
        simp only at h
        exact bin_level_sound (k := .bt) (by simpa [Lvl.hasOp] using ho) (by decide) h1 rfl h
          (fun a ha => ih8 _ _ ha) (fun b hb => ih7 _ _ hb)
    · -- parse8
      intro ts t h
      simp only [parse8] at h
      cases hs : splitFirst Tok.isUnary ts with
      | none =>
        rw [hs] at h
        exact D.up (by decide) (ih9 _ _ h)
      | some r =>
        obtain ⟨pre, x, post⟩ := r
        rw [hs] at h
        obtain ⟨h1, h2, _⟩ := splitFirst_some hs
        obtain ⟨o, rfl⟩ := isUnary_eq h2
        simp only at h
        split at h
        · exact absurd h (by simp)
        · rename_i hcond
          cases hp : parse8 n post with
          | error e => simp [hp] at h
          | ok c =>
            simp [hp] at h
            subst h
            have hpre : pre = [] := by simpa using hcond
            subst hpre
            simp at h1
            subst h1
            exact D.un (ih8 _ _ hp)
    · -- parse9
      intro ts t h
      simp only [parse9] at h
      match ts, h with
      | [.atom (.prop name)], h => simp [classify9] at h; subst h; exact D.prop
      | [.atom (.var name)], h => simp [classify9] at h; subst h; exact D.var
      | [.atom (.wild name)], h => simp [classify9] at h; subst h; exact D.wild
      | [.group inner], h => simp [classify9] at h; exact D.group (ih1 _ _ h)
      | [], h => simp [classify9] at h
      | [.atom .tt], h => simp [classify9] at h
      | [.atom .ff], h => simp [classify9] at h
      | [.un _], h => simp [classify9] at h
      | [.bin _], h => simp [classify9] at h
      | [.hyb ..], h => simp [classify9] at h
      | _ :: _ :: _, h => simp [classify9] at h

end Hctl

namespace Hctl

/-- the parser function of a level -/
def parseAt : Lvl → Nat → List Tok → Except PErr Tree
  | .hyb => parse1 | .iff => parse2 | .imp => parse3 | .or => parse4 | .xor => parse5
  | .and => parse6 | .bt => parse7 | .un => parse8 | .term => parse9

/-- fuel needed at a level -/
def need (k : Lvl) (ts : List Tok) : Nat := (10 - k.rank) + 10 * Tok.weightList ts

theorem hasOp_splitPred {k : Lvl} {o : BinOp} (h : k.hasOp o = true) : k.splitPred (.bin o) = true := by
  cases k <;> cases o <;> simp_all [Lvl.hasOp, Lvl.splitPred, Tok.isBin, Tok.isBinTemporal, BinOp.isTemporal]

theorem hasOp_ne_term {k : Lvl} {o : BinOp} (h : k.hasOp o = true) : k ≠ .term := by
  cases k <;> simp_all [Lvl.hasOp]

theorem split_bin {k : Lvl} {o : BinOp} {l r : List Tok} {a : Tree} (hop : k.hasOp o = true)
    (hl : D k.next l a) : splitFirst k.splitPred (l ++ .bin o :: r) = some (l, .bin o, r) :=
  splitFirst_append (D.no_split (hasOp_ne_term hop) hl) (hasOp_splitPred hop)

theorem split_up {k : Lvl} {ts : List Tok} {t : Tree} (hk : k ≠ .term) (h : D k.next ts t) :
    splitFirst k.splitPred ts = none :=
  splitFirst_none.mpr (D.no_split hk h)

theorem parse_complete {k ts t} (h : D k ts t) : ∀ n, need k ts ≤ n → parseAt k n ts = .ok t := by
  induction h with
  | @hyb o v d r c _ ih =>
    intro n hn
    cases n with
    | zero => simp [need, Lvl.rank] at hn
    | succ m =>
      have hr : need .hyb r ≤ m := by
        simp [need, Lvl.rank, Tok.weightList, Tok.weight] at hn ⊢; omega
      have := ih m hr
      simp only [parseAt] at this ⊢
      simp [parse1, splitFirst, Tok.isHybrid, this]
  | @bin k o l r a b hop hl hr ihl ihr =>
    intro n hn
    have hw : Tok.weightList (l ++ .bin o :: r) = Tok.weightList l + 1 + Tok.weightList r := by
      rw [weightList_append]; simp [Tok.weightList, Tok.weight]; omega
    have hsp := split_bin (r := r) hop hl
    cases n with
    | zero => cases k <;> simp [need, Lvl.rank] at hn
    | succ m =>
      have hnl : need k.next l ≤ m := by
        have := Lvl.rank_next_ge k
        simp [need, hw] at hn ⊢; omega
      have hnr : need k r ≤ m := by
        simp [need, hw] at hn ⊢; omega
      have h1 := ihl m hnl
      have h2 := ihr m hnr
      cases k
      case hyb => simp [Lvl.hasOp] at hop
      case un => simp [Lvl.hasOp] at hop
      case term => simp [Lvl.hasOp] at hop
      case iff =>
        have ho : o = .iff := by cases o <;> simp_all [Lvl.hasOp]
        subst ho
        simp only [parseAt, Lvl.next, Lvl.splitPred] at h1 h2 hsp ⊢
        simp [parse2, hsp, h1, h2, bin?]
      case imp =>
        have ho : o = .imp := by cases o <;> simp_all [Lvl.hasOp]
        subst ho
        simp only [parseAt, Lvl.next, Lvl.splitPred] at h1 h2 hsp ⊢
        simp [parse3, hsp, h1, h2, bin?]
      case or =>
        have ho : o = .or := by cases o <;> simp_all [Lvl.hasOp]
        subst ho
        simp only [parseAt, Lvl.next, Lvl.splitPred] at h1 h2 hsp ⊢
        simp [parse4, hsp, h1, h2, bin?]
      case xor =>
        have ho : o = .xor := by cases o <;> simp_all [Lvl.hasOp]
        subst ho
        simp only [parseAt, Lvl.next, Lvl.splitPred] at h1 h2 hsp ⊢
        simp [parse5, hsp, h1, h2, bin?]
      case and =>
        have ho : o = .and := by cases o <;> simp_all [Lvl.hasOp]
        subst ho
        simp only [parseAt, Lvl.next, Lvl.splitPred] at h1 h2 hsp ⊢
        simp [parse6, hsp, h1, h2, bin?]
      case bt =>
        simp only [parseAt, Lvl.next, Lvl.splitPred] at h1 h2 hsp ⊢
        simp [parse7, hsp, h1, h2, bin?]
  | @un o r c _ ih =>
    intro n hn
    cases n with
    | zero => simp [need, Lvl.rank] at hn
    | succ m =>
      have hr : need .un r ≤ m := by
        simp [need, Lvl.rank, Tok.weightList, Tok.weight] at hn ⊢; omega
      have := ih m hr
      simp only [parseAt] at this ⊢
      simp [parse8, splitFirst, Tok.isUnary, this]
  | @up k ts t hk hd ih =>
    intro n hn
    have hsp := split_up hk hd
    cases n with
    | zero => cases k <;> simp [need, Lvl.rank] at hn
    | succ m =>
      have hnn : need k.next ts ≤ m := by
        have := Lvl.rank_next_gt hk
        have hle : k.next.rank ≤ 9 := by cases k <;> simp [Lvl.next, Lvl.rank]
        simp [need] at hn ⊢; omega
      have h1 := ih m hnn
      cases k <;> simp only [parseAt, Lvl.next, Lvl.splitPred] at h1 hsp ⊢
      · simp [parse1, hsp, h1]
      · simp [parse2, hsp, h1]
      · simp [parse3, hsp, h1]
      · simp [parse4, hsp, h1]
      · simp [parse5, hsp, h1]
      · simp [parse6, hsp, h1]
      · simp [parse7, hsp, h1]
      · simp [parse8, hsp, h1]
      · exact absurd rfl hk
  | prop =>
    intro n hn
    cases n with
    | zero => simp [need, Lvl.rank] at hn
    | succ m => simp [parseAt, parse9, classify9]
  | var =>
    intro n hn
    cases n with
    | zero => simp [need, Lvl.rank] at hn
    | succ m => simp [parseAt, parse9, classify9]
  | wild =>
    intro n hn
    cases n with
    | zero => simp [need, Lvl.rank] at hn
    | succ m => simp [parseAt, parse9, classify9]
  | @group ts t _ ih =>
    intro n hn
    cases n with
    | zero => simp [need, Lvl.rank] at hn
    | succ m =>
      have hr : need .hyb ts ≤ m := by
        simp [need, Lvl.rank, Tok.weightList, Tok.weight] at hn ⊢; omega
      have := ih m hr
      simp only [parseAt] at this ⊢
      simp [parse9, classify9, this]

end Hctl

namespace Hctl

theorem split_weight {p : Tok → Bool} {ts pre post : List Tok} {x : Tok}
    (hs : splitFirst p ts = some (pre, x, post)) :
    Tok.weightList pre + 1 + Tok.weightList post ≤ Tok.weightList ts := by
  obtain ⟨h1, _, _⟩ := splitFirst_some hs
  subst h1
  rw [weightList_append, weightList_cons]
  have := weight_pos x
  omega

theorem bool_level_no_fuel {o : BinOp} {ts : List Tok} {pnext pself : List Tok → Except PErr Tree} {w : Nat}
    (hw : Tok.weightList ts ≤ w)
    (ihn : ∀ ts, Tok.weightList ts ≤ w → pnext ts ≠ .error .fuel)
    (ihs : ∀ ts, Tok.weightList ts + 1 ≤ w → pself ts ≠ .error .fuel) :
    (match splitFirst (Tok.isBin o) ts with
          | some (pre, _, post) => bin? o (pnext pre) (pself post)
          | none => pnext ts) ≠ .error .fuel := by
  cases hs : splitFirst (Tok.isBin o) ts with
  | none => simpa using ihn ts hw
  | some r =>
    obtain ⟨pre, x, post⟩ := r
    have := split_weight hs
    simp only
    intro h
    cases bin?_fuel h with
    | inl h => exact ihn pre (by omega) h
    | inr h => exact ihs post (by omega) h

/-- with `need k ts` fuel the parser never reports fuel exhaustion -/
theorem parse_no_fuel : ∀ n,
    (∀ ts, need .hyb ts ≤ n → parse1 n ts ≠ .error .fuel) ∧
    (∀ ts, need .iff ts ≤ n → parse2 n ts ≠ .error .fuel) ∧
    (∀ ts, need .imp ts ≤ n → parse3 n ts ≠ .error .fuel) ∧
    (∀ ts, need .or ts ≤ n → parse4 n ts ≠ .error .fuel) ∧
    (∀ ts, need .xor ts ≤ n → parse5 n ts ≠ .error .fuel) ∧
    (∀ ts, need .and ts ≤ n → parse6 n ts ≠ .error .fuel) ∧
    (∀ ts, need .bt ts ≤ n → parse7 n ts ≠ .error .fuel) ∧
    (∀ ts, need .un ts ≤ n → parse8 n ts ≠ .error .fuel) ∧
    (∀ ts, need .term ts ≤ n → parse9 n ts ≠ .error .fuel) := by
  intro n
  induction n with
  | zero =>
    refine ⟨?_, ?_, ?_, ?_, ?_, ?_, ?_, ?_, ?_⟩ <;> intro ts h <;> simp [need, Lvl.rank] at h
  | succ n ih =>
    obtain ⟨ih1, ih2, ih3, ih4, ih5, ih6, ih7, ih8, ih9⟩ := ih
    refine ⟨?_, ?_, ?_, ?_, ?_, ?_, ?_, ?_, ?_⟩
    · intro ts hn
      simp only [parse1]
      cases hs : splitFirst Tok.isHybrid ts with
      | none =>
        simp only
        exact ih2 ts (by simp [need, Lvl.rank] at hn ⊢; omega)
      | some r =>
        obtain ⟨pre, x, post⟩ := r
        have hw := split_weight hs
        cases x <;> simp only <;> try simp
        rename_i o v d
        split
        · simp
        · have := ih1 post (by simp [need, Lvl.rank] at hn ⊢; omega)
          cases hp : parse1 n post with
          | ok c => simp
          | error e => simp; intro he; subst he; exact this hp
    · intro ts hn
      simp only [parse2]
      exact bool_level_no_fuel (w := (n - 7) / 10) (by simp [need, Lvl.rank] at hn; omega)
        (fun ts h => ih3 ts (by simp [need, Lvl.rank] at hn ⊢; omega))
        (fun ts h => ih2 ts (by simp [need, Lvl.rank] at hn ⊢; omega))
    · intro ts hn
      simp only [parse3]
      exact bool_level_no_fuel (w := (n - 6) / 10) (by simp [need, Lvl.rank] at hn; omega)
        (fun ts h => ih4 ts (by simp [need, Lvl.rank] at hn ⊢; omega))
        (fun ts h => ih3 ts (by simp [need, Lvl.rank] at hn ⊢; omega))
    · intro ts hn
      simp only [parse4]
      exact bool_level_no_fuel (w := (n - 5) / 10) (by simp [need, Lvl.rank] at hn; omega)
        (fun ts h => ih5 ts (by simp [need, Lvl.rank] at hn ⊢; omega))
        (fun ts h => ih4 ts (by simp [need, Lvl.rank] at hn ⊢; omega))
    · intro ts hn
      simp only [parse5]
      exact bool_level_no_fuel (w := (n - 4) / 10) (by simp [need, Lvl.rank] at hn; omega)
        (fun ts h => ih6 ts (by simp [need, Lvl.rank] at hn ⊢; omega))
        (fun ts h => ih5 ts (by simp [need, Lvl.rank] at hn ⊢; omega))
    · intro ts hn
      simp only [parse6]
      exact bool_level_no_fuel (w := (n - 3) / 10) (by simp [need, Lvl.rank] at hn; omega)
        (fun ts h => ih7 ts (by simp [need, Lvl.rank] at hn ⊢; omega))
        (fun ts h => ih6 ts (by simp [need, Lvl.rank] at hn ⊢; omega))
    · intro ts hn
      simp only [parse7]
      cases hs : splitFirst Tok.isBinTemporal ts with
      | none =>
        simp only
        exact ih8 ts (by simp [need, Lvl.rank] at hn ⊢; omega)
      | some r =>
        obtain ⟨pre, x, post⟩ := r
        have hw := split_weight hs
        cases x <;> simp only <;> try simp
        rename_i o
        intro h
        cases bin?_fuel h with
        | inl h => exact ih8 pre (by simp [need, Lvl.rank] at hn ⊢; omega) h
        | inr h => exact ih7 post (by simp [need, Lvl.rank] at hn ⊢; omega) h
    · intro ts hn
      simp only [parse8]
      cases hs : splitFirst Tok.isUnary ts with
      | none =>
        simp only
        exact ih9 ts (by simp [need, Lvl.rank] at hn ⊢; omega)
      | some r =>
        obtain ⟨pre, x, post⟩ := r
        have hw := split_weight hs
        cases x <;> simp only <;> try simp
        rename_i o
        split
        · have := ih8 post (by simp [need, Lvl.rank] at hn ⊢; omega)
          cases hp : parse8 n post with
          | ok c => simp
          | error e => simp; intro he; subst he; exact this hp
        · simp
    · intro ts hn
      simp only [parse9]
      cases hc : classify9 ts with
      | done r =>
        simp only
        unfold classify9 at hc
        split at hc <;> simp at hc <;> subst hc <;> simp
      | inner i =>
        simp only
        have : ts = [.group i] := by
          unfold classify9 at hc
          split at hc <;> simp at hc
          subst hc; rfl
        subst this
        exact ih1 i (by simp [need, Lvl.rank, Tok.weightList, Tok.weight] at hn ⊢; omega)

theorem flatList_append (a b : List Tok) : Tok.flatList (a ++ b) = Tok.flatList a ++ Tok.flatList b := by
  induction a with
  | nil => simp [Tok.flatList]
  | cons t a ih => simp [Tok.flatList, ih]

theorem constOrProp_atom (n : Name) : constOrProp n = .atom (atomOfTok (.prop n)) := by
  unfold atomOfTok constOrProp
  split <;> (try split) <;> simp_all

/-- every token of a derivable list is a node of the tree: the flattened input is the frontier -/
theorem D.frontier_eq {k ts t} (h : D k ts t) : Tok.flatList ts = t.frontier := by
  induction h with
  | hyb _ ih => simp [Tok.flatList, Tok.flat, Tree.frontier, ih]
  | bin _ _ _ ihl ihr => simp [flatList_append, Tok.flatList, Tok.flat, Tree.frontier, ihl, ihr]
  | un _ ih => simp [Tok.flatList, Tok.flat, Tree.frontier, ih]
  | up _ _ ih => exact ih
  | @prop n => rw [constOrProp_atom]; simp [Tok.flatList, Tok.flat, Tree.frontier]
  | var => simp [Tok.flatList, Tok.flat, Tree.frontier, atomOfTok]
  | wild => simp [Tok.flatList, Tok.flat, Tree.frontier, atomOfTok]
  | group _ ih => simp [Tok.flatList, Tok.flat, ih]

end Hctl
