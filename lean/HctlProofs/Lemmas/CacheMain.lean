/-
  `evalNode_sound`: the cached evaluator is semantically exact from every invariant-satisfying context.
-/
import HctlProofs.Lemmas.CacheSound
namespace Hctl
open Kripke

section
variable {C : CharClass} (hC : Lex.CharsOK C) {E : Env} (hE : EnvOK E) (hG : GraphWF E.G) {K : SemCtx} (hK : CtxOK E K) {U0 : CSet}
  (hKS : KeySem C E K U0) (hKW : KeyWild C E K U0) (hA : C12.GraphAsync E.G)
include hC hE hG hK hKS hKW hA

theorem evalNode_sound :
    ∀ t U ds ctx, GoodQ C E K U0 t U ds → ctx.fvd = fvdOf ds → CacheOK C E K U0 ctx →
      ∃ r ctx', Eval.evalNode E (Ops.steadyOf E U0) t U ctx = .ok (r, ctx') ∧
        Sem E r U (sat E.G K t) ∧ CacheOK C E K U0 ctx' ∧ ctx'.fvd = ctx.fvd := by
  intro t
  induction t with
  | atom a =>
    intro U ds ctx hq hfvd hc
    rcases lookup_spec hC hE hG hK hKS hKW hq hfvd hc with ⟨r, ctx', hl, hs, hc', hf⟩ | ⟨save, key, ren, hl, hkey, hnw, hsave⟩
    · exact ⟨r, ctx', by unfold Eval.evalNode; rw [hl], hs, hc', hf⟩
    · unfold Eval.evalNode
      rw [hl]
      cases a with
      | tt =>
        have hs : Sem E U U (sat E.G K (.atom .tt)) := fun p _ => by simp [sat]
        have := store_ok hC hE hG hK hKS hKW hq hkey hnw hsave hs hc
        exact ⟨U, _, by simp [isAttractorPattern, isFixedPointPattern], hs, this.1, this.2⟩
      | ff =>
        have hs : Sem E CSet.empty U (sat E.G K (.atom .ff)) := fun p _ => by simp [sat, CSet.empty]
        have := store_ok hC hE hG hK hKS hKW hq hkey hnw hsave hs hc
        exact ⟨CSet.empty, _, by simp [isAttractorPattern, isFixedPointPattern], hs, this.1, this.2⟩
      | var n =>
        have hn : varId n < ds.length := hq.wscoped
        have hk : ¬ (varId n ≥ E.G.k) := by have := hq.dk; omega
        have hs : Sem E (E.tab (Ops.comparatorVarState U (varId n))) U (sat E.G K (.atom (.var n))) := by
          apply Sem.tab hE
          intro p _
          simp only [sat, Ops.comparatorVarState, Bool.and_eq_true, beq_iff_eq]
        have := store_ok hC hE hG hK hKS hKW hq hkey hnw hsave hs hc
        exact ⟨_, _, by simp [isAttractorPattern, isFixedPointPattern, hk], hs, this.1, this.2⟩
      | prop n =>
        have hlab : (E.G.label n).isSome = true := hq.labelled
        cases hl' : E.G.label n with
        | none => simp [hl'] at hlab
        | some f =>
          have hs : Sem E (E.tab (Ops.evalProp U f)) U (sat E.G K (.atom (.prop n))) := by
            apply Sem.tab hE
            intro p _
            simp only [sat, Ops.evalProp, Bool.and_eq_true, hl']
            constructor
            · rintro ⟨h1, h2⟩; exact ⟨h2, f, rfl, h1⟩
            · rintro ⟨h2, f', hf', h1⟩; cases hf'; exact ⟨h1, h2⟩
          have := store_ok hC hE hG hK hKS hKW hq hkey hnw hsave hs hc
          exact ⟨_, _, by simp [isAttractorPattern, isFixedPointPattern, hl'], hs, this.1, this.2⟩
      | wild w => simp [Tree.isWild] at hnw
  | un o c ih =>
    intro U ds ctx hq hfvd hc
    rcases lookup_spec hC hE hG hK hKS hKW hq hfvd hc with ⟨r, ctx', hl, hs, hc', hf⟩ | ⟨save, key, ren, hl, hkey, hnw, hsave⟩
    · exact ⟨r, ctx', by unfold Eval.evalNode; rw [hl], hs, hc', hf⟩
    · have hqc : GoodQ C E K U0 c U ds :=
        ⟨hq.wscoped, hq.named, hq.dk, hq.domsIn, hq.domsDs, hq.wildsIn, hq.labelled, hq.unit, hq.desc,
          by have := hq.valid; simpa [Lex.TreeOK, PropNamesOK] using this⟩
      obtain ⟨cr, ctx1, hev, hsc, hc1, hf1⟩ := ih U ds ctx hqc hfvd hc
      have hs : Sem E (E.tab (Eval.evalUn E U (Ops.steadyOf E U0) o cr)) U (sat E.G K (.un o c)) :=
        Sem.tab hE (sem_evalUn hE hG K hq.unit o c hsc)
      have := store_ok hC hE hG hK hKS hKW hq hkey hnw hsave hs hc1
      refine ⟨_, _, ?_, hs, this.1, this.2.trans hf1⟩
      unfold Eval.evalNode
      rw [hl]
      simp [isAttractorPattern, isFixedPointPattern, hev]
  | bin o l r ihl ihr =>
    intro U ds ctx hq hfvd hc
    rcases lookup_spec hC hE hG hK hKS hKW hq hfvd hc with ⟨r', ctx', hl, hs, hc', hf⟩ | ⟨save, key, ren, hl, hkey, hnw, hsave⟩
    · exact ⟨r', ctx', by unfold Eval.evalNode; rw [hl], hs, hc', hf⟩
    · have hql : GoodQ C E K U0 l U ds :=
        ⟨hq.wscoped.1, hq.named.1, hq.dk, hq.domsIn.1, hq.domsDs, hq.wildsIn.1, hq.labelled.1, hq.unit, hq.desc,
          by have := hq.valid; simp only [Lex.TreeOK, PropNamesOK] at this; exact ⟨this.1.1, this.2.1⟩⟩
      have hqr : GoodQ C E K U0 r U ds :=
        ⟨hq.wscoped.2, hq.named.2, hq.dk, hq.domsIn.2, hq.domsDs, hq.wildsIn.2, hq.labelled.2, hq.unit, hq.desc,
          by have := hq.valid; simp only [Lex.TreeOK, PropNamesOK] at this; exact ⟨this.1.2, this.2.2⟩⟩
      obtain ⟨lr, ctx1, hev1, hsl, hc1, hf1⟩ := ihl U ds ctx hql hfvd hc
      obtain ⟨rr, ctx2, hev2, hsr, hc2, hf2⟩ := ihr U ds ctx1 hqr (hf1.trans hfvd) hc1
      have hs : Sem E (E.tab (Eval.evalBin E U (Ops.steadyOf E U0) o lr rr)) U (sat E.G K (.bin o l r)) :=
        Sem.tab hE (sem_evalBin hE hG K hq.unit o l r hsl hsr)
      have := store_ok hC hE hG hK hKS hKW hq hkey hnw hsave hs hc2
      refine ⟨_, _, ?_, hs, this.1, this.2.trans (hf2.trans hf1)⟩
      unfold Eval.evalNode
      rw [hl]
      simp [isAttractorPattern, isFixedPointPattern, hev1, hev2]
  | hyb op v dom c ih =>
    intro U ds ctx hq hfvd hc
    rcases lookup_spec hC hE hG hK hKS hKW hq hfvd hc with ⟨r', ctx', hl, hs, hc', hf⟩ | ⟨save, key, ren, hl, hkey, hnw, hsave⟩
    · exact ⟨r', ctx', by unfold Eval.evalNode; rw [hl], hs, hc', hf⟩
    · by_cases hpa : isAttractorPattern (.hyb op v dom c) = true
      · -- the attractor shortcut
        obtain ⟨x, hx⟩ := (C12.attractor_pattern_exact _).mp hpa
        have hw := hq.wscoped
        rw [hx] at hw
        simp only [WellScoped] at hw
        have hvd : varId x = ds.length := hw.1
        have hdk : ds.length < E.G.k := hw.2.1
        have hs : Sem E (E.tab (Ops.attractorsOf E U)) U (sat E.G K (.hyb op v dom c)) := by
          rw [hx]
          exact Sem.tab hE (C12.attractor_shortcut_correct hE hG hq.unit x hvd hdk K _ (attrSpec hE hG U))
        have := store_ok hC hE hG hK hKS hKW hq hkey hnw hsave hs hc
        refine ⟨_, _, ?_, hs, this.1, this.2⟩
        unfold Eval.evalNode
        rw [hl]
        simp [hpa]
      · by_cases hpf : isFixedPointPattern (.hyb op v dom c) = true
        · -- the steady-state shortcut (not stored)
          obtain ⟨x, hx⟩ := (C12.fixedPoint_pattern_exact _).mp hpf
          have hw := hq.wscoped
          rw [hx] at hw
          simp only [WellScoped] at hw
          have hvd : varId x = ds.length := hw.1
          have hdk : ds.length < E.G.k := hw.2.1
          have hs : Sem E (E.tab ((Ops.steadyOf E U0).inter U)) U (sat E.G K (.hyb op v dom c)) := by
            rw [hx]
            exact Sem.tab hE (C12.steady_shortcut_correct hE hG hA hq.unit x hvd hdk K)
          refine ⟨_, ctx, ?_, hs, hc, rfl⟩
          unfold Eval.evalNode
          rw [hl]
          simp [hpa, hpf]
        · by_cases hj : op = .jump
          · -- jump
            subst hj
            have hw := hq.wscoped
            simp only [WellScoped, if_true] at hw
            have hn := hq.named
            simp only [DepthNamed, if_true] at hn
            have hdi : DomsIn K c := by
              have := hq.domsIn
              cases dom <;> simp only [DomsIn] at this
              · exact this
              · exact this.2
            have hqc : GoodQ C E K U0 c U ds :=
              ⟨hw.2, hn.2, hq.dk, hdi, hq.domsDs, hq.wildsIn, hq.labelled, hq.unit, hq.desc,
                by have := hq.valid; simp only [Lex.TreeOK, PropNamesOK] at this; exact ⟨this.1.2.2, this.2⟩⟩
            obtain ⟨cr, ctx1, hev, hsc, hc1, hf1⟩ := ih U ds ctx hqc hfvd hc
            have hk : ¬ (varId v ≥ E.G.k) := by have := hq.dk; have := hw.1; omega
            have hs : Sem E (E.tab (Ops.evalJump E U cr (varId v))) U (sat E.G K (.hyb .jump v dom c)) :=
              Sem.tab hE (sem_jumpNode hE hG K hq.unit v dom c hsc)
            have := store_ok hC hE hG hK hKS hKW hq hkey hnw hsave hs hc1
            refine ⟨_, _, ?_, hs, this.1, this.2.trans hf1⟩
            unfold Eval.evalNode
            rw [hl]
            simp [hpa, hpf, hev, hk]
          · -- quantifiers
            have hw := hq.wscoped
            simp only [WellScoped, hj, if_false] at hw
            obtain ⟨hvd, hdk, hwc⟩ := hw
            have hn := hq.named
            simp only [DepthNamed, hj, if_false] at hn
            obtain ⟨hvx, hnc⟩ := hn
            have hk : ¬ (varId v ≥ E.G.k) := by omega
            have hins : domInsert v dom ctx.fvd = fvdOf (ds ++ [dom]) := by
              rw [hfvd, hvx]; exact domInsert_fvdOf ds dom
            have hrem : domRemove v (fvdOf (ds ++ [dom])) = ctx.fvd := by
              rw [hfvd, hvx]; exact domRemove_fvdOf ds dom
            cases dom with
            | none =>
              have hdi : DomsIn K c := by have := hq.domsIn; simpa [DomsIn] using this
              have hqc : GoodQ C E K U0 c U (ds ++ [none]) := by
                refine ⟨by simpa using hwc, by simpa using hnc, by simp; omega, hdi, ?_, hq.wildsIn, hq.labelled,
                  by simpa using hq.unit.weaken, unitDesc_snoc_none hq.desc,
                  by have := hq.valid; simp only [Lex.TreeOK, PropNamesOK] at this; exact ⟨this.1.2.2, this.2⟩⟩
                intro i l hil
                by_cases hi : i < ds.length
                · rw [getElem?_snoc_lt ds none i hi] at hil; exact hq.domsDs i l hil
                · have : i = ds.length ∨ ds.length < i := by omega
                  rcases this with rfl | hgt
                  · simp at hil
                  · rw [List.getElem?_eq_none (by simp; omega)] at hil; cases hil
              obtain ⟨cr, ctx1, hev, hsc, hc1, hf1⟩ :=
                ih U (ds ++ [none]) { ctx with fvd := domInsert v none ctx.fvd } hqc hins (hc.fvd_irrel _)
              have hs : Sem E (E.tab (Eval.hybridQuantifier E U U op (varId v) cr)) U (sat E.G K (.hyb op v none c)) :=
                Sem.tab hE (sem_quantNoDom hE hG K hq.unit op hj v hvd hdk c hsc)
              have hc2 : CacheOK C E K U0 { ctx1 with fvd := domRemove v ctx1.fvd } := hc1.fvd_irrel _
              have := store_ok hC hE hG hK hKS hKW hq hkey hnw hsave hs hc2
              refine ⟨_, _, ?_, hs, this.1, ?_⟩
              · unfold Eval.evalNode
                rw [hl]
                simp [hpa, hpf, hj, hev, hk]
              · rw [this.2]
                show domRemove v ctx1.fvd = ctx.fvd
                rw [hf1]
                show domRemove v (domInsert v none ctx.fvd) = ctx.fvd
                rw [hins]; exact hrem
            | some l =>
              have hdi := hq.domsIn
              simp only [DomsIn] at hdi
              obtain ⟨⟨dsl, hl'⟩, hdic⟩ := hdi
              have hraw : ctx.domRaw.lookup l = some dsl := hc.domRaw l dsl hl'
              -- the restricted unit
              have hmem : ∀ q ∈ E.pts, ((E.tab (U.inter (E.tab (Ops.validDomain E U dsl (varId v))))) q = true ↔
                  (U q = true ∧ dsl (q.setS (q.getV ds.length)) = true)) := by
                intro q hq'
                rw [hE.tab_ok _ q hq']
                simp only [CSet.inter, Bool.and_eq_true]
                rw [hE.tab_ok _ q hq', mem_validDomain hE hG hq.unit hq', hvd]
                constructor
                · rintro ⟨_, h⟩; exact h
                · intro h; exact ⟨h.1, h⟩
              by_cases hemp : isEmptyOn E.pts (E.tab (U.inter (E.tab (Ops.validDomain E U dsl (varId v))))) = true
              · -- the empty-domain shortcut
                have hempty := isEmptyOn_iff.mp hemp
                have hs := sem_emptyDom hE hG K hK hq.unit op hj v l hl' hvd hdk c hmem hempty
                refine ⟨_, { ctx with fvd := domRemove v (domInsert v (some l) ctx.fvd) }, ?_, hs, hc.fvd_irrel _, ?_⟩
                · unfold Eval.evalNode
                  rw [hl]
                  simp only [hpa, hpf, hj, if_false, Bool.false_eq_true, hraw, hk, hemp, if_true]
                  cases op <;> first | rfl | exact absurd rfl hj
                · show domRemove v (domInsert v (some l) ctx.fvd) = ctx.fvd
                  rw [hins]; exact hrem
              · have hqc : GoodQ C E K U0 c (E.tab (U.inter (E.tab (Ops.validDomain E U dsl (varId v))))) (ds ++ [some l]) := by
                  refine ⟨by simpa using hwc, by simpa using hnc, by simp; omega, hdic, ?_, hq.wildsIn, hq.labelled,
                    by simpa using unitOK_restricted hC hE hG hK hKS hKW hl' hq.unit hmem, unitDesc_snoc_some hE hl' hq.desc hmem,
                    by have := hq.valid; simp only [Lex.TreeOK, PropNamesOK] at this; exact ⟨this.1.2.2, this.2⟩⟩
                  intro i l2 hil
                  by_cases hi : i < ds.length
                  · rw [getElem?_snoc_lt ds _ i hi] at hil; exact hq.domsDs i l2 hil
                  · have : i = ds.length ∨ ds.length < i := by omega
                    rcases this with rfl | hgt
                    · simp at hil; subst hil; exact ⟨dsl, hl'⟩
                    · rw [List.getElem?_eq_none (by simp; omega)] at hil; cases hil
                obtain ⟨cr, ctx1, hev, hsc, hc1, hf1⟩ :=
                  ih _ (ds ++ [some l]) { ctx with fvd := domInsert v (some l) ctx.fvd } hqc hins (hc.fvd_irrel _)
                have hs : Sem E (E.tab (Eval.hybridQuantifier E U
                    (E.tab (U.inter (E.tab (Ops.validDomain E U dsl (varId v))))) op (varId v) cr)) U
                    (sat E.G K (.hyb op v (some l) c)) :=
                  Sem.tab hE (sem_quantDom hE hG K hK hq.unit op hj v l hl' hvd hdk c hmem hsc)
                have hc2 : CacheOK C E K U0 { ctx1 with fvd := domRemove v ctx1.fvd } := hc1.fvd_irrel _
                have := store_ok hC hE hG hK hKS hKW hq hkey hnw hsave hs hc2
                refine ⟨_, _, ?_, hs, this.1, ?_⟩
                · unfold Eval.evalNode
                  rw [hl]
                  simp [hpa, hpf, hj, hraw, hk, hemp, hev]
                · rw [this.2]
                  show domRemove v ctx1.fvd = ctx.fvd
                  rw [hf1]
                  show domRemove v (domInsert v (some l) ctx.fvd) = ctx.fvd
                  rw [hins]; exact hrem

end
end Hctl
