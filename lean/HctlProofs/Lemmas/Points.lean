/-
  The universe of points: membership, closure under updates, well-formed graphs.
-/
import HctlProofs.Lemmas.Fixpoint
namespace Hctl

/-- the library's transition structure stays inside the state space -/
structure GraphWF (G : Graph) : Prop where
  step_lt : ∀ c j s t, G.step c j s = some t → s < G.nS → t < G.nS

theorem mem_vals (G : Graph) (n : Nat) (v : List Nat) :
    v ∈ G.vals n ↔ v.length = n ∧ ∀ x ∈ v, x < G.nS := by
  induction n generalizing v with
  | zero =>
    simp only [Graph.vals, List.mem_singleton]
    constructor
    · rintro rfl; simp
    · rintro ⟨h, _⟩; exact List.eq_nil_of_length_eq_zero h
  | succ n ih =>
    simp only [Graph.vals, List.mem_flatMap, List.mem_range, List.mem_map]
    constructor
    · rintro ⟨t, ht, w, hw, rfl⟩
      obtain ⟨h1, h2⟩ := (ih w).mp hw
      refine ⟨by simp [h1], ?_⟩
      intro x hx
      cases hx with
      | head => exact ht
      | tail _ hx => exact h2 x hx
    · rintro ⟨hl, hx⟩
      cases v with
      | nil => simp at hl
      | cons t w =>
        refine ⟨t, hx t (by simp), w, (ih w).mpr ⟨by simpa using hl, fun x hx' => hx x (by simp [hx'])⟩, rfl⟩

theorem mem_points (G : Graph) (p : Point) :
    p ∈ G.points ↔ p.s < G.nS ∧ p.c < G.nC ∧ p.v.length = G.k ∧ ∀ x ∈ p.v, x < G.nS := by
  simp only [Graph.points, List.mem_flatMap, List.mem_range, List.mem_map]
  constructor
  · rintro ⟨s, hs, c, hc, v, hv, rfl⟩
    obtain ⟨h1, h2⟩ := (mem_vals G G.k v).mp hv
    exact ⟨hs, hc, h1, h2⟩
  · rintro ⟨hs, hc, hl, hx⟩
    exact ⟨p.s, hs, p.c, hc, p.v, (mem_vals G G.k p.v).mpr ⟨hl, hx⟩, rfl⟩

theorem setS_mem {G : Graph} {p : Point} {t : Nat} (hp : p ∈ G.points) (ht : t < G.nS) :
    p.setS t ∈ G.points := by
  rw [mem_points] at hp ⊢
  exact ⟨ht, hp.2.1, hp.2.2.1, hp.2.2.2⟩

theorem setV_mem {G : Graph} {p : Point} {i t : Nat} (hp : p ∈ G.points) (ht : t < G.nS) :
    p.setV i t ∈ G.points := by
  rw [mem_points] at hp ⊢
  refine ⟨hp.1, hp.2.1, by simp [Point.setV, hp.2.2.1], ?_⟩
  intro x hx
  simp only [Point.setV] at hx
  cases List.mem_or_eq_of_mem_set hx with
  | inl h => exact hp.2.2.2 x h
  | inr h => rw [h]; exact ht

theorem getV_lt {G : Graph} {p : Point} (i : Nat) (hp : p ∈ G.points) : p.getV i < G.nS := by
  rw [mem_points] at hp
  simp only [Point.getV, List.getD]
  cases h : p.v[i]? with
  | none => simp; omega
  | some x =>
    simp
    exact hp.2.2.2 x (List.mem_of_getElem? h)

theorem s_lt {G : Graph} {p : Point} (hp : p ∈ G.points) : p.s < G.nS := ((mem_points G p).mp hp).1

@[simp] theorem setS_s (p : Point) (t : Nat) : (p.setS t).s = t := rfl
@[simp] theorem setS_c (p : Point) (t : Nat) : (p.setS t).c = p.c := rfl
@[simp] theorem setS_v (p : Point) (t : Nat) : (p.setS t).v = p.v := rfl
@[simp] theorem setV_s (p : Point) (i t : Nat) : (p.setV i t).s = p.s := rfl
@[simp] theorem setV_c (p : Point) (i t : Nat) : (p.setV i t).c = p.c := rfl
@[simp] theorem setS_getV (p : Point) (t i : Nat) : (p.setS t).getV i = p.getV i := rfl
@[simp] theorem setS_setS (p : Point) (t u : Nat) : (p.setS t).setS u = p.setS u := rfl
@[simp] theorem setS_self (p : Point) : p.setS p.s = p := rfl

theorem setV_setS (p : Point) (i t u : Nat) : (p.setV i t).setS u = (p.setS u).setV i t := rfl

theorem setV_getV_same (p : Point) (i t : Nat) (hi : i < p.v.length) : (p.setV i t).getV i = t := by
  simp [Point.setV, Point.getV, List.getD, hi]

theorem setV_getV_ne (p : Point) (i j t : Nat) (h : i ≠ j) : (p.setV i t).getV j = p.getV j := by
  simp [Point.setV, Point.getV, List.getD, List.getElem?_set_ne h]

theorem setV_setV_same (p : Point) (i t u : Nat) : (p.setV i t).setV i u = p.setV i u := by
  simp [Point.setV, List.set_set]

theorem setV_self (p : Point) (i : Nat) (hi : i < p.v.length) : p.setV i (p.getV i) = p := by
  cases p with
  | mk s c v =>
    simp only [Point.setV, Point.getV, Point.mk.injEq, true_and]
    simp at hi
    apply List.ext_getElem?
    intro j
    by_cases hj : i = j
    · subst hj; simp [List.getD, hi]
    · simp [List.getElem?_set_ne hj]

theorem any_range_iff {n : Nat} {f : Nat → Bool} : (List.range n).any f = true ↔ ∃ t, t < n ∧ f t = true := by
  simp [List.any_eq_true, List.mem_range]

theorem all_range_iff {n : Nat} {f : Nat → Bool} : (List.range n).all f = true ↔ ∀ t, t < n → f t = true := by
  simp [List.all_eq_true, List.mem_range]

end Hctl
