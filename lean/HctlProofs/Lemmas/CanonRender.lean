/-
  C09, character level = tree level: the canoniser of the code works on the formula TEXT; on canonical renderings it
  computes exactly the rendering of the tree-level canonical form (`canonTree`) and the same renaming map.
-/
import HctlProofs.Lemmas.LexValid
import HctlProofs.Lemmas.CanonLemmas
namespace Hctl
open Lex

namespace CanonProof

/-- running the canoniser loop over `text` (followed by `rest`) from state `st` arrives at `rest` in state `st'`,
whatever (sufficient) fuel is supplied -/
def RunsD (depth depth' : Nat) (text rest : List Char) (st st' : CanonSt) : Prop :=
  ∀ n, n > (text ++ rest).length → ∃ n', n' > rest.length ∧ canonLoop n depth (text ++ rest) st = canonLoop n' depth' rest st'

abbrev Runs (depth : Nat) (text rest : List Char) (st st' : CanonSt) : Prop := RunsD depth depth text rest st st'

theorem RunsD.nil (depth : Nat) (rest : List Char) (st : CanonSt) : RunsD depth depth [] rest st st := by
  intro n hn; exact ⟨n, by simpa using hn, rfl⟩

theorem RunsD.trans {d0 d1 d2 : Nat} {a b rest : List Char} {st st1 st2 : CanonSt}
    (h1 : RunsD d0 d1 a (b ++ rest) st st1) (h2 : RunsD d1 d2 b rest st1 st2) : RunsD d0 d2 (a ++ b) rest st st2 := by
  intro n hn
  rw [List.append_assoc] at hn ⊢
  obtain ⟨n1, hn1, e1⟩ := h1 n hn
  obtain ⟨n2, hn2, e2⟩ := h2 n1 hn1
  exact ⟨n2, hn2, e1.trans e2⟩

theorem RunsD.trans' {d0 d1 d2 : Nat} {a b r1 rest : List Char} {st st1 st2 : CanonSt}
    (h1 : RunsD d0 d1 a r1 st st1) (h2 : RunsD d1 d2 b rest st1 st2) (hr : r1 = b ++ rest) :
    RunsD d0 d2 (a ++ b) rest st st2 := by
  subst hr; exact h1.trans h2

/-- characters the loop copies unchanged -/
def Inert (c : Char) : Prop := c ≠ '(' ∧ c ≠ ')' ∧ c ≠ '{' ∧ c ≠ '!'

theorem runs_word (depth : Nat) (w rest : List Char) (st : CanonSt) (hw : ∀ c ∈ w, Inert c)
    (hr : rest.head? = some '{' → ∀ c, w.getLast? = some c → c ≠ '3' ∧ c ≠ 'V') :
    Runs depth w rest st { st with out := st.out ++ w } := by
  induction w generalizing st with
  | nil => simpa using RunsD.nil depth rest st
  | cons c w ih =>
    intro n hn
    obtain ⟨hc1, hc2, hc3, hc4⟩ := hw c (by simp)
    obtain ⟨m, rfl⟩ : ∃ m, n = m + 1 := ⟨n - 1, by simp at hn; omega⟩
    have hnext : (w ++ rest).head? = some '{' → c ≠ '3' ∧ c ≠ 'V' := by
      cases w with
      | nil => intro h; exact hr (by simpa using h) c (by simp)
      | cons c2 w' =>
        intro h
        have := (hw c2 (by simp)).2.2.1
        simp at h
        exact absurd h this
    obtain ⟨n', hn', e⟩ := ih { st with out := st.out ++ [c] } (fun x hx => hw x (by simp [hx]))
      (by
        intro h x hx
        cases w with
        | nil => simp at hx
        | cons c2 w' => exact hr h x (by simpa [List.getLast?_cons_cons] using hx))
      m (by simp at hn ⊢; omega)
    refine ⟨n', hn', ?_⟩
    simp only [List.append_assoc, List.singleton_append] at e
    rw [← e]
    simp only [List.cons_append, canonLoop, hc1, hc2, hc3, if_false]
    rw [if_neg (by
      simp only [Bool.and_eq_true, Bool.or_eq_true, decide_eq_true_eq, beq_iff_eq]
      rintro ⟨h1, h2⟩
      have := hnext h2
      rcases h1 with (h1 | h1) | h1
      · exact hc4 h1
      · exact this.1 h1
      · exact this.2 h1)]

theorem runs_open (depth : Nat) (rest : List Char) (st : CanonSt) :
    RunsD depth (depth + 1) ['('] rest st { st with out := st.out ++ ['('] } := by
  intro n hn
  obtain ⟨m, rfl⟩ : ∃ m, n = m + 1 := ⟨n - 1, by simp at hn; omega⟩
  exact ⟨m, by simp at hn; omega, by simp [canonLoop]⟩

theorem runs_close (depth : Nat) (rest : List Char) (st : CanonSt) :
    RunsD (depth + 1) depth [')'] rest st { st with out := st.out ++ [')'] } := by
  intro n hn
  obtain ⟨m, rfl⟩ : ∃ m, n = m + 1 := ⟨n - 1, by simp at hn; omega⟩
  exact ⟨m, by simp at hn; omega, by simp [canonLoop]⟩

theorem readVar_app (v rest : List Char) (hv : ∀ c ∈ v, c ≠ '}') : readVar (v ++ '}' :: rest) = (v, rest) := by
  induction v with
  | nil => simp [readVar]
  | cons c v ih =>
    have hc := hv c (by simp)
    simp only [List.cons_append, readVar, hc, if_false]
    rw [ih (fun x hx => hv x (by simp [hx]))]

/-- a variable occurrence `{v}` -/
theorem runs_var (depth : Nat) (v rest : List Char) (st : CanonSt) (hv : ∀ c ∈ v, c ≠ '}') :
    Runs depth ('{' :: (v ++ ['}'])) rest st
      { map := (canonVar v ⟨st.map, st.stack⟩).2.map, out := st.out ++ '{' :: ((canonVar v ⟨st.map, st.stack⟩).1 ++ ['}']),
        stack := (canonVar v ⟨st.map, st.stack⟩).2.stack } := by
  intro n hn
  obtain ⟨m, rfl⟩ : ∃ m, n = m + 1 := ⟨n - 1, by simp at hn; omega⟩
  refine ⟨m, by simp at hn; omega, ?_⟩
  have hr := readVar_app v rest hv
  simp only [List.cons_append, List.append_assoc, List.nil_append, canonLoop]
  simp only [show ('{' : Char) ≠ '(' by decide, show ('{' : Char) ≠ ')' by decide, if_false, Bool.false_eq_true,
    show (('{' : Char) = '!') = False by decide, show (('{' : Char) = '3') = False by decide,
    show (('{' : Char) = 'V') = False by decide, decide_false, Bool.or_false, Bool.false_and, if_true, hr]
  unfold canonVar
  cases hl : st.map.lookup v with
  | some cn => simp
  | none => simp

/-- a quantifier binder `Q{v}` (Q one of `!`, `3`, `V`) -/
theorem runs_binder (depth : Nat) (q : Char) (hq : q = '!' ∨ q = '3' ∨ q = 'V') (v rest : List Char) (st : CanonSt)
    (hv : ∀ c ∈ v, c ≠ '}') :
    Runs depth (q :: '{' :: (v ++ ['}'])) rest st
      { map := mapInsert v (canonName st.stack) st.map, out := st.out ++ q :: '{' :: (canonName st.stack ++ ['}']),
        stack := st.stack + 1 } := by
  intro n hn
  obtain ⟨m, rfl⟩ : ∃ m, n = m + 1 := ⟨n - 1, by simp at hn; omega⟩
  refine ⟨m, by simp at hn; omega, ?_⟩
  have hr := readVar_app v rest hv
  have h1 : q ≠ '(' := by rcases hq with rfl | rfl | rfl <;> decide
  have h2 : q ≠ ')' := by rcases hq with rfl | rfl | rfl <;> decide
  have h3 : (decide (q = '!') || decide (q = '3') || decide (q = 'V')) = true := by
    rcases hq with rfl | rfl | rfl <;> decide
  simp only [List.cons_append, List.append_assoc, List.nil_append, canonLoop, h1, h2, if_false, h3, List.head?_cons,
    Bool.true_and, List.drop_succ_cons, List.drop_zero, hr]
  simp

theorem RunsD.cast {d d' : Nat} {text text' rest : List Char} {st st' st'' : CanonSt}
    (h : RunsD d d' text rest st st') (ht : text = text') (hs : st' = st'') : RunsD d d' text' rest st st'' := by
  subst ht; subst hs; exact h

theorem inert_of_name {K : CharClass} (hK : CharsOK K) {c : Char} (hc : isName K c = true) : Inert c := by
  have := name_ne_special hK hc
  exact ⟨this _ (by simp [specials]), this _ (by simp [specials]), this _ (by simp [specials]), this _ (by simp [specials])⟩

theorem name_ne_close {K : CharClass} (hK : CharsOK K) {v : Name} (hv : ValidId K v) : ∀ c ∈ v, c ≠ '}' :=
  fun c hc => name_ne_special hK (hv.2 c hc) _ (by simp [specials])

/-- the state of the character-level loop after a text, in terms of the tree-level pass -/
def after (t : Tree) (st : CanonSt) : CanonSt :=
  { map := (canonTreeAux t ⟨st.map, st.stack⟩).2.map,
    out := st.out ++ (canonTreeAux t ⟨st.map, st.stack⟩).1.render,
    stack := (canonTreeAux t ⟨st.map, st.stack⟩).2.stack }

theorem inert_lit : Inert ' ' ∧ Inert ':' ∧ Inert '%' ∧ Inert 'i' ∧ Inert 'n' ∧ Inert '@' ∧ Inert '~' := by
  refine ⟨?_, ?_, ?_, ?_, ?_, ?_, ?_⟩ <;> (unfold Inert; decide)

theorem runs_render {K : CharClass} (hK : CharsOK K) : ∀ (t : Tree), TreeOK K t → ∀ (depth : Nat) (rest : List Char)
    (st : CanonSt), rest.head? ≠ some '{' → Runs depth t.render rest st (after t st) := by
  intro t
  induction t with
  | atom a =>
    intro ht depth rest st hr
    cases a with
    | prop n =>
      refine (runs_word depth n rest st (fun c hc => inert_of_name hK (ht.1.2 c hc)) (fun h => absurd h hr)).cast
        (by simp [Tree.render, Atom.str]) (by simp [after, canonTreeAux, Tree.render, Atom.str])
    | tt =>
      refine (runs_word depth ['T','r','u','e'] rest st (by intro c hc; simp at hc; rcases hc with rfl | rfl | rfl | rfl <;> (unfold Inert; decide))
        (fun h => absurd h hr)).cast (by simp [Tree.render, Atom.str]) (by simp [after, canonTreeAux, Tree.render, Atom.str])
    | ff =>
      refine (runs_word depth ['F','a','l','s','e'] rest st (by intro c hc; simp at hc; rcases hc with rfl | rfl | rfl | rfl | rfl <;> (unfold Inert; decide))
        (fun h => absurd h hr)).cast (by simp [Tree.render, Atom.str]) (by simp [after, canonTreeAux, Tree.render, Atom.str])
    | wild w =>
      refine (runs_word depth ('%' :: (w ++ ['%'])) rest st (by
          intro c hc
          simp only [List.mem_cons, List.mem_append, List.mem_singleton, List.not_mem_nil, or_false] at hc
          rcases hc with rfl | hc | rfl
          · exact inert_lit.2.2.1
          · exact inert_of_name hK (ht.2 c hc)
          · exact inert_lit.2.2.1)
        (fun h => absurd h hr)).cast (by simp [Tree.render, Atom.str]) (by simp [after, canonTreeAux, Tree.render, Atom.str])
    | var v =>
      refine (runs_var depth v rest st (name_ne_close hK ht)).cast (by simp [Tree.render, Atom.str]) ?_
      simp only [after, canonTreeAux, Tree.render, Atom.str]
      simp
  | un o c ih =>
    intro ht depth rest st hr
    have hc := ih ht (depth + 1) (')' :: rest) { st with out := st.out ++ '(' :: (if o = .not then ['~'] else o.str ++ [' ']) } (by simp)
    have hword : Runs (depth + 1) (if o = .not then ['~'] else o.str ++ [' ']) (c.render ++ ')' :: rest)
        { st with out := st.out ++ ['('] } { st with out := st.out ++ '(' :: (if o = .not then ['~'] else o.str ++ [' ']) } := by
      refine (runs_word (depth + 1) _ _ _ ?_ ?_).cast rfl (by simp)
      · intro x hx
        cases o <;> simp [UnOp.str] at hx <;> (rcases hx with rfl | rfl | rfl) <;> (unfold Inert; decide)
      · intro _ x hx
        cases o <;> simp [UnOp.str] at hx <;> subst hx <;> decide
    have h := (runs_open depth _ st).trans' (hword.trans' (hc.trans' (runs_close depth rest _) (by simp)) (by simp)) rfl
    refine h.cast ?_ ?_
    · cases o <;> simp [Tree.render, UnOp.str]
    · cases o <;> simp [after, canonTreeAux, Tree.render, UnOp.str]
  | bin o l r ihl ihr =>
    intro ht depth rest st hr
    have hl := ihl ht.1 (depth + 1) (' ' :: (o.str ++ ' ' :: (r.render ++ ')' :: rest))) { st with out := st.out ++ ['('] } (by simp)
    have hword : Runs (depth + 1) (' ' :: (o.str ++ [' '])) (r.render ++ ')' :: rest)
        (after l { st with out := st.out ++ ['('] })
        { after l { st with out := st.out ++ ['('] } with
          out := (after l { st with out := st.out ++ ['('] }).out ++ ' ' :: (o.str ++ [' ']) } := by
      refine runs_word (depth + 1) _ _ _ ?_ ?_
      · intro x hx
        cases o <;> simp [BinOp.str] at hx <;> (rcases hx with rfl | rfl | rfl | rfl | rfl) <;> (unfold Inert; decide)
      · intro _ x hx
        cases o <;> simp [BinOp.str] at hx <;> subst hx <;> decide
    have hr' := ihr ht.2 (depth + 1) (')' :: rest)
      { after l { st with out := st.out ++ ['('] } with
          out := (after l { st with out := st.out ++ ['('] }).out ++ ' ' :: (o.str ++ [' ']) } (by simp)
    have h := (runs_open depth _ st).trans' (hl.trans' (hword.trans' (hr'.trans' (runs_close depth rest _) (by simp)) (by simp)) (by simp)) rfl
    refine h.cast ?_ ?_
    · simp [Tree.render]
    · simp [after, canonTreeAux, Tree.render]
  | hyb o v d c ih =>
    intro ht depth rest st hr
    obtain ⟨hv, hd, hc⟩ := ht
    -- the text between the variable and the body: the optional domain, then ": "
    have hmid : ∀ (st0 : CanonSt) (rest0 : List Char),
        Runs (depth + 1) (domStr d ++ [':', ' ']) rest0 st0 { st0 with out := st0.out ++ (domStr d ++ [':', ' ']) } := by
      intro st0 rest0
      refine runs_word (depth + 1) _ _ _ ?_ ?_
      · intro x hx
        cases d with
        | none => simp [domStr] at hx; rcases hx with rfl | rfl <;> (unfold Inert; decide)
        | some dn =>
          simp only [domStr, List.mem_append, List.mem_cons, List.not_mem_nil, or_false] at hx
          rcases hx with ((hx | hx) | rfl) | rfl | rfl
          · simp at hx; rcases hx with rfl | rfl | rfl | rfl | rfl <;> (unfold Inert; decide)
          · exact inert_of_name hK (hd.2.2 x hx)
          · unfold Inert; decide
          · unfold Inert; decide
          · unfold Inert; decide
      · intro _ x hx
        have : (domStr d ++ [':', ' ']).getLast? = some ' ' := by simp [List.getLast?_append]
        rw [this] at hx
        cases hx
        decide
    by_cases hj : o = .jump
    · subst hj
      have h1 : Runs (depth + 1) ['@'] ('{' :: (v ++ ['}']) ++ (domStr d ++ [':', ' '] ++ (c.render ++ ')' :: rest)))
          { st with out := st.out ++ ['('] } { st with out := st.out ++ ['(', '@'] } := by
        refine (runs_word (depth + 1) ['@'] _ _ (by intro x hx; simp at hx; subst hx; unfold Inert; decide)
          (by intro _ x hx; simp at hx; subst hx; decide)).cast rfl (by simp)
      let s1 : CanonSt := { st with out := st.out ++ ['(', '@'] }
      let s2 : CanonSt := { map := (canonVar v ⟨s1.map, s1.stack⟩).2.map,
                            out := s1.out ++ '{' :: ((canonVar v ⟨s1.map, s1.stack⟩).1 ++ ['}']),
                            stack := (canonVar v ⟨s1.map, s1.stack⟩).2.stack }
      let s3 : CanonSt := { s2 with out := s2.out ++ (domStr d ++ [':', ' ']) }
      have h2 : Runs (depth + 1) ('{' :: (v ++ ['}'])) (domStr d ++ [':', ' '] ++ (c.render ++ ')' :: rest)) s1 s2 :=
        runs_var (depth + 1) v _ s1 (name_ne_close hK hv)
      have h3 : Runs (depth + 1) (domStr d ++ [':', ' ']) (c.render ++ ')' :: rest) s2 s3 := hmid s2 _
      have h4 := ih hc (depth + 1) (')' :: rest) s3 (by simp)
      have h := (runs_open depth _ st).trans' (h1.trans' (h2.trans' (h3.trans' (h4.trans' (runs_close depth rest _) (by simp)) (by simp)) (by simp)) (by simp)) rfl
      refine h.cast ?_ ?_
      · simp [Tree.render, HybOp.str]
      · simp [after, canonTreeAux, Tree.render, HybOp.str, s1, s2, s3]
    · have hq : ∃ q, o.str = [q] ∧ (q = '!' ∨ q = '3' ∨ q = 'V') := by
        cases o
        · exact ⟨'!', rfl, Or.inl rfl⟩
        · exact absurd rfl hj
        · exact ⟨'3', rfl, Or.inr (Or.inl rfl)⟩
        · exact ⟨'V', rfl, Or.inr (Or.inr rfl)⟩
      obtain ⟨q, hqs, hq⟩ := hq
      let s1 : CanonSt := { st with out := st.out ++ ['('] }
      let s2 : CanonSt := { map := mapInsert v (canonName s1.stack) s1.map, out := s1.out ++ q :: '{' :: (canonName s1.stack ++ ['}']),
                            stack := s1.stack + 1 }
      let s3 : CanonSt := { s2 with out := s2.out ++ (domStr d ++ [':', ' ']) }
      have h2 : Runs (depth + 1) (q :: '{' :: (v ++ ['}'])) (domStr d ++ [':', ' '] ++ (c.render ++ ')' :: rest)) s1 s2 :=
        runs_binder (depth + 1) q hq v _ s1 (name_ne_close hK hv)
      have h3 : Runs (depth + 1) (domStr d ++ [':', ' ']) (c.render ++ ')' :: rest) s2 s3 := hmid s2 _
      have h4 := ih hc (depth + 1) (')' :: rest) s3 (by simp)
      have h := (runs_open depth _ st).trans' (h2.trans' (h3.trans' (h4.trans' (runs_close depth rest _) (by simp)) (by simp)) (by simp)) rfl
      refine h.cast ?_ ?_
      · simp [Tree.render, hqs]
      · simp [after, canonTreeAux, Tree.render, hqs, hj, s1, s2, s3]

end CanonProof

/-- MAIN (C09, character level = tree level): on the canonical rendering of any tree over valid identifiers the
character-level canoniser of the code yields exactly the rendering of the tree-level canonical form, with the
same renaming map. -/
theorem canonChars_render {K : CharClass} (hK : CharsOK K) (t : Tree) (ht : TreeOK K t) :
    canonChars t.render = ((canonTree t).1.render, (canonTree t).2) := by
  have h := CanonProof.runs_render hK t ht 0 [] {} (by simp)
  obtain ⟨n', hn', e⟩ := h (t.render.length + 1) (by simp)
  obtain ⟨m, rfl⟩ : ∃ m, n' = m + 1 := ⟨n' - 1, by simp at hn'; omega⟩
  simp only [List.append_nil] at e
  simp only [canonChars, e, canonLoop, CanonProof.after, canonTree]
  simp

theorem repr_digits (n : Nat) : ∀ c ∈ (Nat.repr n).toList, c.isDigit = true := by
  intro c hc
  have : (Nat.repr n).toList = Nat.toDigits 10 n := by simp [Nat.repr]
  rw [this] at hc
  exact Nat.isDigit_of_mem_toDigits (by decide) (by decide) hc

/-- canonical names `var<n>` are valid identifiers -/
theorem canonName_valid {K : CharClass} (hK : CharsOK K) (n : Nat) : ValidId K (canonName n) := by
  refine ⟨by simp [canonName], ?_⟩
  intro c hc
  simp only [canonName, List.mem_append] at hc
  rcases hc with hc | hc
  · have : c ∈ ['v', 'a', 'r'] := by simpa using hc
    exact letter_name hK (by simp at this ⊢; rcases this with rfl | rfl | rfl <;> simp)
  · simp [isName, hK.digits c (repr_digits n c hc)]

theorem canonVar_valid {K : CharClass} (hK : CharsOK K) (v : Name) (st : CanonT) (hst : CanonInv st) :
    ValidId K (canonVar v st).1 := by
  unfold canonVar
  cases h : st.map.lookup v with
  | some cn =>
    obtain ⟨j, _, rfl⟩ := hst.bound v cn (lookup_mem' _ h)
    exact canonName_valid hK j
  | none => exact canonName_valid hK _

/-- the canonical form of a tree over valid identifiers is a tree over valid identifiers -/
theorem canonTreeAux_treeOK {K : CharClass} (hK : CharsOK K) : ∀ (t : Tree) (st : CanonT), CanonInv st →
    TreeOK K t ∧ PropNamesOK t → TreeOK K (canonTreeAux t st).1 ∧ PropNamesOK (canonTreeAux t st).1 := by
  intro t
  induction t with
  | atom a =>
    intro st hst h
    cases a with
    | var v => simpa [canonTreeAux, TreeOK, PropNamesOK] using canonVar_valid hK v st hst
    | prop n => simpa [canonTreeAux] using h
    | tt => simp [canonTreeAux, TreeOK, PropNamesOK]
    | ff => simp [canonTreeAux, TreeOK, PropNamesOK]
    | wild w => simpa [canonTreeAux] using h
  | un o c ih =>
    intro st hst h
    simpa [canonTreeAux, TreeOK, PropNamesOK] using ih st hst (by simpa [TreeOK, PropNamesOK] using h)
  | bin o l r ihl ihr =>
    intro st hst h
    simp only [TreeOK, PropNamesOK] at h
    have a := ihl st hst ⟨h.1.1, h.2.1⟩
    have b := ihr _ (canonTreeAux_inv l st hst) ⟨h.1.2, h.2.2⟩
    simp only [canonTreeAux, TreeOK, PropNamesOK]
    exact ⟨⟨a.1, b.1⟩, a.2, b.2⟩
  | hyb o v d c ih =>
    intro st hst h
    simp only [TreeOK, PropNamesOK] at h
    obtain ⟨⟨hv, hd, hc⟩, hp⟩ := h
    by_cases hj : o = .jump
    · subst hj
      have a := ih _ (canonVar_inv hst v) ⟨hc, hp⟩
      simp only [canonTreeAux, if_true, TreeOK, PropNamesOK]
      exact ⟨⟨canonVar_valid hK v st hst, hd, a.1⟩, a.2⟩
    · have a := ih _ (hst.insert v) ⟨hc, hp⟩
      simp only [canonTreeAux, hj, if_false, TreeOK, PropNamesOK]
      exact ⟨⟨canonName_valid hK _, hd, a.1⟩, a.2⟩

/-- identifiers are valid for some character class satisfying the assumed facts (true of every tree the parsers,
preprocessing or the constructors with valid identifiers produce) -/
def TreeValid (t : Tree) : Prop := ∃ C : CharClass, CharsOK C ∧ TreeOK C t ∧ PropNamesOK t

theorem TreeValid.un {o : UnOp} {c : Tree} (h : TreeValid (.un o c)) : TreeValid c := by
  obtain ⟨C, h1, h2, h3⟩ := h; exact ⟨C, h1, by simpa [TreeOK] using h2, by simpa [PropNamesOK] using h3⟩

theorem TreeValid.binl {o : BinOp} {l r : Tree} (h : TreeValid (.bin o l r)) : TreeValid l := by
  obtain ⟨C, h1, h2, h3⟩ := h
  simp only [TreeOK, PropNamesOK] at h2 h3
  exact ⟨C, h1, h2.1, h3.1⟩

theorem TreeValid.binr {o : BinOp} {l r : Tree} (h : TreeValid (.bin o l r)) : TreeValid r := by
  obtain ⟨C, h1, h2, h3⟩ := h
  simp only [TreeOK, PropNamesOK] at h2 h3
  exact ⟨C, h1, h2.2, h3.2⟩

theorem TreeValid.hyb {o : HybOp} {v : Name} {d : Option Name} {c : Tree} (h : TreeValid (.hyb o v d c)) : TreeValid c := by
  obtain ⟨C, h1, h2, h3⟩ := h
  simp only [TreeOK, PropNamesOK] at h2 h3
  exact ⟨C, h1, h2.2.2, h3⟩

end Hctl
