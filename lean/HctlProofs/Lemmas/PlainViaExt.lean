/-
  C10, second sentence, end to end: a list of plain formulae evaluated through the extended entry point with an EMPTY
  context gives exactly the outcome of the plain entry point.
-/
import HctlProofs.Lemmas.EntryPoints
import HctlProofs.Props.C10
namespace Hctl.C10
open Hctl

theorem wildCards_plain : ∀ (t : Tree) (acc : List Name × List Name), Plain t → t.wildCards acc = acc := by
  intro t
  induction t with
  | atom a => intro acc h; cases a <;> simp_all [Tree.wildCards, Plain]
  | un o c ih => intro acc h; simpa [Tree.wildCards] using ih acc h
  | bin o l r ihl ihr =>
    intro acc h
    simp only [Tree.wildCards, ihl acc h.1, ihr acc h.2]
  | hyb o x d c ih =>
    intro acc h
    obtain ⟨h1, h2⟩ := h
    subst h1
    simp only [Tree.wildCards, ih acc h2]

variable (E : Env) (K : CharClass) (hK : Lex.CharOK K)
include hK

/-- on a text the plain tokenizer accepts, both entry points preprocess alike, and an accepted tree is plain -/
theorem parseOne_plain_ext (cs : List Char) (ts : List Tok) (hl : Lex.tokenize K false cs = .ok ts) :
    Api.parseOne E K true cs = Api.parseOne E K false cs ∧ ∀ t, Api.parseOne E K false cs = .ok t → Plain t := by
  obtain ⟨h1, h2⟩ := Lex.tokenize_ext_of_plain K hK cs ts hl
  refine ⟨by unfold Api.parseOne; rw [h1, hl], ?_⟩
  intro t h
  unfold Api.parseOne at h
  rw [hl] at h
  simp only at h
  cases hp : parseToks ts with
  | error e => simp [hp] at h
  | ok t0 =>
    simp only [hp] at h
    have hp0 : Plain t0 := by
      apply plain_of_frontier
      rw [← C05.accepted_frontier ts t0 hp]
      exact h2
    cases hr : rename (fun n => (E.G.label n).isSome) t0 with
    | error e => cases e <;> simp [hr] at h
    | ok t' =>
      simp only [hr] at h
      have hpl := C14.renameRec_plain _ t0 [] [] t' hr hp0
      split at h
      · cases h
      · simp only [Except.ok.injEq] at h; subst h; exact hpl

theorem parseAll_plain_ext : ∀ (fs : List (List Char)), (∀ f ∈ fs, ∃ ts, Lex.tokenize K false f = .ok ts) →
    Api.parseAll E K true [] fs = Api.parseAll E K false [] fs ∧
    ∀ trees ps ds, Api.parseAll E K false [] fs = .ok (trees, ps, ds) → ps = [] ∧ ds = [] := by
  intro fs
  induction fs with
  | nil => intro _; simp [Api.parseAll]
  | cons f fs ih =>
    intro h
    obtain ⟨ts, hts⟩ := h f (by simp)
    obtain ⟨e1, e2⟩ := parseOne_plain_ext E K hK f ts hts
    obtain ⟨i1, i2⟩ := ih (fun g hg => h g (by simp [hg]))
    simp only [Api.parseAll, e1, i1]
    cases hp : Api.parseOne E K false f with
    | error e => simp
    | ok t =>
      have hw := wildCards_plain t ([], []) (e2 t hp)
      simp only [hw, Api.lookupAll, if_true, Bool.false_eq_true, if_false]
      cases hr : Api.parseAll E K false [] fs with
      | error e => simp
      | ok r =>
        obtain ⟨trees, ps, ds⟩ := r
        obtain ⟨rfl, rfl⟩ := i2 trees ps ds hr
        simp

/-- `model_check_multiple_extended_formulae_dirty(fs, graph, {})` = `model_check_multiple_formulae_dirty(fs, graph)` for every
list of plain formulae (texts the plain tokenizer accepts), whatever happens afterwards (result or error value) -/
theorem plain_through_extended (U : CSet) (fs : List (List Char)) (h : ∀ f ∈ fs, ∃ ts, Lex.tokenize K false f = .ok ts) :
    Api.extendedDirty E K U [] fs = Api.formulaeDirty E K U fs := by
  obtain ⟨h1, h2⟩ := parseAll_plain_ext E K hK fs h
  unfold Api.extendedDirty Api.formulaeDirty Api.treesDirty
  rw [h1]
  cases hp : Api.parseAll E K false [] fs with
  | error e => rfl
  | ok r =>
    obtain ⟨trees, ps, ds⟩ := r
    obtain ⟨rfl, rfl⟩ := h2 trees ps ds hp
    simp only
    have : Api.dedupNames ([] : List (Name × CSet)) = [] := rfl
    rw [this, ext_empty_ctx]

end Hctl.C10
