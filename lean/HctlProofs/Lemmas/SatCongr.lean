/-
  Congruence properties of the reference semantics:
  * `sat_graph_congr` : satisfaction at a point of colour `c` depends only on colour `c`'s transitions
  * `sat_congr`       : satisfaction of a formula whose free variables have index < d depends only on
                        state, colour and the first d variables
  * `sat_subst`       : replacing a sub-formula by an equivalent one (e.g. a wild-card bound to its result)
-/
import HctlProofs.Lemmas.EvalCorrect
namespace Hctl
open Kripke

/-! ### dependence on the graph -/

/-- two graphs agree on colour `c` (transitions, variables, state space, labels) -/
structure AgreeOn (G G' : Graph) (c : Nat) : Prop where
  nV : G.nV = G'.nV
  nS : G.nS = G'.nS
  step : ∀ j s, G.step c j s = G'.step c j s
  label : G.label = G'.label

theorem AgreeOn.R_eq {G G' : Graph} {c : Nat} (h : AgreeOn G G' c) : G.R c = G'.R c := by
  funext s t
  simp only [Graph.R, Graph.stepRel, Graph.isSteady, h.nV, h.step]

theorem sat_graph_congr {G G' : Graph} (K : SemCtx) :
    ∀ t p, AgreeOn G G' p.c → (sat G K t p ↔ sat G' K t p) := by
  intro t
  induction t with
  | atom a =>
    intro p h
    cases a <;> simp only [sat, h.label]
  | un o c ih =>
    intro p h
    have hR := h.R_eq
    have ih' : ∀ t, sat G K c (p.setS t) ↔ sat G' K c (p.setS t) := fun t => ih (p.setS t) h
    cases o <;> simp only [sat, ih', ih p h] <;> rw [hR]
  | bin o l r ihl ihr =>
    intro p h
    have hR := h.R_eq
    have il : ∀ t, sat G K l (p.setS t) ↔ sat G' K l (p.setS t) := fun t => ihl (p.setS t) h
    have ir : ∀ t, sat G K r (p.setS t) ↔ sat G' K r (p.setS t) := fun t => ihr (p.setS t) h
    cases o <;> simp only [sat, il, ir, ihl p h, ihr p h] <;> rw [hR]
  | hyb o x d c ih =>
    intro p h
    cases o with
    | bind => simp only [sat]; rw [ih (p.setV (varId x) p.s) h]
    | jump => simp only [sat]; rw [ih (p.setS (p.getV (varId x))) h]
    | ex =>
      simp only [sat, h.nS]
      constructor
      · rintro ⟨t, ht, h1, h2⟩; exact ⟨t, ht, h1, (ih (p.setV (varId x) t) h).mp h2⟩
      · rintro ⟨t, ht, h1, h2⟩; exact ⟨t, ht, h1, (ih (p.setV (varId x) t) h).mpr h2⟩
    | all =>
      simp only [sat, h.nS]
      constructor
      · intro hh t ht h1; exact (ih (p.setV (varId x) t) h).mp (hh t ht h1)
      · intro hh t ht h1; exact (ih (p.setV (varId x) t) h).mpr (hh t ht h1)

/-! ### dependence on the valuation -/

/-- like `WellNamed`, and additionally every variable occurrence / jump refers to an enclosing quantifier -/
def WellScoped (k : Nat) : Nat → Tree → Prop
  | d, .atom (.var x) => varId x < d
  | _, .atom _ => True
  | d, .un _ c => WellScoped k d c
  | d, .bin _ l r => WellScoped k d l ∧ WellScoped k d r
  | d, .hyb o x _ c =>
    if o = .jump then varId x < d ∧ WellScoped k d c
    else varId x = d ∧ d < k ∧ WellScoped k (d + 1) c

theorem WellScoped.wellNamed {k : Nat} : ∀ {t d}, WellScoped k d t → WellNamed k d t := by
  intro t
  induction t with
  | atom a => intro d _; simp [WellNamed]
  | un o c ih => intro d h; exact ih h
  | bin o l r ihl ihr => intro d h; exact ⟨ihl h.1, ihr h.2⟩
  | hyb o x dom c ih =>
    intro d h
    simp only [WellScoped, WellNamed] at h ⊢
    by_cases hj : o = .jump
    · simp only [hj, if_true] at h ⊢; exact ih h.2
    · simp only [hj, if_false] at h ⊢; exact ⟨h.1, h.2.1, ih h.2.2⟩

/-- the sets of the context depend on state and colour only -/
structure CtxSC (K : SemCtx) : Prop where
  wild : ∀ w a, K.wild w = some a → ∀ q q' : Point, q.s = q'.s → q.c = q'.c → a q = a q'
  dom : ∀ l a, K.dom l = some a → ∀ q q' : Point, q.s = q'.s → q.c = q'.c → a q = a q'

theorem inDom_congr {K : SemCtx} (hK : CtxSC K) (d : Option Name) {q q' : Point}
    (hs : q.s = q'.s) (hc : q.c = q'.c) : inDom K d q ↔ inDom K d q' := by
  cases d with
  | none => simp [inDom]
  | some l =>
    simp only [inDom]
    constructor
    · rintro ⟨a, ha, h⟩; exact ⟨a, ha, by rw [← hK.dom l a ha q q' hs hc]; exact h⟩
    · rintro ⟨a, ha, h⟩; exact ⟨a, ha, by rw [hK.dom l a ha q q' hs hc]; exact h⟩

theorem getV_setV (v : List Nat) (s c i j t : Nat) (hi : i < v.length) :
    (Point.mk s c v |>.setV i t).getV j = if j = i then t else (Point.mk s c v).getV j := by
  by_cases h : j = i
  · subst h; simp [Point.setV, Point.getV, List.getD, hi]
  · simp [Point.setV, Point.getV, List.getD, h, List.getElem?_set_ne (Ne.symm h)]

/-- satisfaction depends only on state, colour and the variables of the enclosing quantifiers -/
theorem sat_congr (G : Graph) (K : SemCtx) (hK : CtxSC K) (k : Nat) :
    ∀ t d s c (v v' : List Nat), WellScoped k d t → k ≤ v.length → k ≤ v'.length →
      (∀ i, i < d → (Point.mk s c v).getV i = (Point.mk s c v').getV i) →
      (sat G K t ⟨s, c, v⟩ ↔ sat G K t ⟨s, c, v'⟩) := by
  intro t
  induction t with
  | atom a =>
    intro d s c v v' hw _ _ hv
    cases a with
    | tt => simp [sat]
    | ff => simp [sat]
    | prop n => simp [sat]
    | var x =>
      simp only [WellScoped] at hw
      simp only [sat]
      rw [hv _ hw]
    | wild w =>
      simp only [sat]
      constructor
      · rintro ⟨a, ha, h⟩; exact ⟨a, ha, by rw [← hK.wild w a ha ⟨s, c, v⟩ ⟨s, c, v'⟩ rfl rfl]; exact h⟩
      · rintro ⟨a, ha, h⟩; exact ⟨a, ha, by rw [hK.wild w a ha ⟨s, c, v⟩ ⟨s, c, v'⟩ rfl rfl]; exact h⟩
  | un o c ih =>
    intro d s cc v v' hw hl hl' hv
    have ih' : ∀ t, sat G K c ⟨t, cc, v⟩ ↔ sat G K c ⟨t, cc, v'⟩ :=
      fun t => ih d t cc v v' hw hl hl' hv
    cases o <;> simp only [sat, Point.setS, ih']
  | bin o l r ihl ihr =>
    intro d s cc v v' hw hl hl' hv
    have il : ∀ t, sat G K l ⟨t, cc, v⟩ ↔ sat G K l ⟨t, cc, v'⟩ :=
      fun t => ihl d t cc v v' hw.1 hl hl' hv
    have ir : ∀ t, sat G K r ⟨t, cc, v⟩ ↔ sat G K r ⟨t, cc, v'⟩ :=
      fun t => ihr d t cc v v' hw.2 hl hl' hv
    cases o <;> simp only [sat, Point.setS, il, ir]
  | hyb o x dom c ih =>
    intro d s cc v v' hw hl hl' hv
    by_cases hj : o = .jump
    · subst hj
      simp only [WellScoped, if_true] at hw
      simp only [sat, Point.setS]
      rw [hv _ hw.1]
      exact ih d _ cc v v' hw.2 hl hl' hv
    · simp only [WellScoped, hj, if_false] at hw
      obtain ⟨hx, hdk, hwc⟩ := hw
      have step : ∀ t, sat G K c ((Point.mk s cc v).setV (varId x) t) ↔
          sat G K c ((Point.mk s cc v').setV (varId x) t) := by
        intro t
        simp only [Point.setV]
        apply ih (d + 1) s cc _ _ hwc (by simp; exact hl) (by simp; exact hl')
        intro i hi
        have h1 := getV_setV v s cc (varId x) i t (by omega)
        have h2 := getV_setV v' s cc (varId x) i t (by omega)
        simp only [Point.setV] at h1 h2
        rw [h1, h2]
        by_cases hid : i = varId x
        · simp [hid]
        · simp only [hid, if_false]
          exact hv i (by omega)
      cases o with
      | jump => exact absurd rfl hj
      | bind =>
        simp only [sat]
        rw [step s, inDom_congr hK dom (q := ⟨s, cc, v⟩) (q' := ⟨s, cc, v'⟩) rfl rfl]
      | ex =>
        simp only [sat]
        constructor
        · rintro ⟨t, ht, h1, h2⟩
          exact ⟨t, ht, (inDom_congr hK dom (q := ⟨t, cc, v⟩) (q' := ⟨t, cc, v'⟩) rfl rfl).mp h1, (step t).mp h2⟩
        · rintro ⟨t, ht, h1, h2⟩
          exact ⟨t, ht, (inDom_congr hK dom (q := ⟨t, cc, v⟩) (q' := ⟨t, cc, v'⟩) rfl rfl).mpr h1, (step t).mpr h2⟩
      | all =>
        simp only [sat]
        constructor
        · intro hh t ht h1
          exact (step t).mp (hh t ht ((inDom_congr hK dom (q := ⟨t, cc, v⟩) (q' := ⟨t, cc, v'⟩) rfl rfl).mpr h1))
        · intro hh t ht h1
          exact (step t).mpr (hh t ht ((inDom_congr hK dom (q := ⟨t, cc, v⟩) (q' := ⟨t, cc, v'⟩) rfl rfl).mp h1))

end Hctl

namespace Hctl
open Kripke

/-- the empty evaluation context -/
def noCtx' : SemCtx := ⟨fun _ => none, fun _ => none⟩

/-! ### colour `c` of one graph behaves like colour `c'` of another (instantiated networks) -/

structure AgreeCol (G G' : Graph) (c c' : Nat) : Prop where
  nV : G.nV = G'.nV
  nS : G.nS = G'.nS
  step : ∀ j s, G.step c j s = G'.step c' j s
  label : G.label = G'.label

theorem AgreeCol.R_eq {G G' : Graph} {c c' : Nat} (h : AgreeCol G G' c c') : G.R c = G'.R c' := by
  funext s t
  simp only [Graph.R, Graph.stepRel, Graph.isSteady, h.nV, h.step]

theorem sat_colour_congr {G G' : Graph} {c c' : Nat} (h : AgreeCol G G' c c') :
    ∀ t s v, (sat G noCtx' t ⟨s, c, v⟩ ↔ sat G' noCtx' t ⟨s, c', v⟩) := by
  have hR := h.R_eq
  intro t
  induction t with
  | atom a =>
    intro s v
    cases a <;> simp only [sat, h.label, noCtx', Point.getV]
    · simp
  | un o cc ih =>
    intro s v
    cases o <;> simp only [sat, Point.setS, ih] <;> rw [hR]
  | bin o l r ihl ihr =>
    intro s v
    cases o <;> simp only [sat, Point.setS, ihl, ihr] <;> rw [hR]
  | hyb o x d cc ih =>
    intro s v
    have hd : ∀ q q' : Point, inDom noCtx' d q ↔ inDom noCtx' d q' := by
      intro q q'
      cases d <;> simp [inDom, noCtx']
    cases o with
    | bind => simp only [sat, Point.setV, Point.getV, ih]; rw [hd ⟨s, c, v⟩ ⟨s, c', v⟩]
    | jump => simp only [sat, Point.setS, Point.getV, ih]
    | ex =>
      simp only [sat, Point.setV, Point.setS, ih, h.nS]
      constructor
      · rintro ⟨t, ht, h1, h2⟩; exact ⟨t, ht, (hd _ _).mp h1, h2⟩
      · rintro ⟨t, ht, h1, h2⟩; exact ⟨t, ht, (hd _ _).mp h1, h2⟩
    | all =>
      simp only [sat, Point.setV, Point.setS, ih, h.nS]
      constructor
      · intro hh t ht h1; exact hh t ht ((hd _ _).mp h1)
      · intro hh t ht h1; exact hh t ht ((hd _ _).mp h1)

end Hctl
