/-
  Preprocessing (`validate_and_rename_recursive`): scope rules, naming by depth, idempotence.
-/
import HctlProofs.Lemmas.SatCongr
import HctlModel.Rename
namespace Hctl

/-- `x…x` of length n -/
def xs (n : Nat) : Name := List.replicate n 'x'

@[simp] theorem xs_length (n : Nat) : (xs n).length = n := by simp [xs]
theorem xs_succ (n : Nat) : xs n ++ ['x'] = xs (n + 1) := by
  simp [xs, List.replicate_succ']
theorem varId_xs (n : Nat) : varId (xs (n + 1)) = n := by simp [varId]
theorem xs_inj {a b : Nat} (h : xs a = xs b) : a = b := by
  have := congrArg List.length h
  simpa using this

/-- the scope rules: every variable / jump target lies in the scope of a quantifier for it, no variable is
re-quantified inside its own scope, every proposition names a network variable -/
def Scoped (isNetVar : Name → Bool) : List Name → Tree → Prop
  | sc, .atom (.var x) => x ∈ sc
  | _, .atom (.prop n) => isNetVar n = true
  | _, .atom _ => True
  | sc, .un _ c => Scoped isNetVar sc c
  | sc, .bin _ l r => Scoped isNetVar sc l ∧ Scoped isNetVar sc r
  | sc, .hyb o x _ c =>
    if o = .jump then x ∈ sc ∧ Scoped isNetVar sc c
    else x ∉ sc ∧ Scoped isNetVar (x :: sc) c

theorem lookup_isSome_iff (m : RenMap) (x : Name) : (m.lookup x).isSome = true ↔ x ∈ m.map Prod.fst := by
  induction m with
  | nil => simp [List.lookup]
  | cons e m ih =>
    obtain ⟨k, v⟩ := e
    simp only [List.lookup, List.map_cons, List.mem_cons]
    by_cases h : x == k
    · simp [h]; left; exact (beq_iff_eq.mp h)
    · simp only [h]
      have : x ≠ k := fun hh => h (beq_iff_eq.mpr hh)
      simp [this, ih]

theorem lookup_none_iff (m : RenMap) (x : Name) : m.lookup x = none ↔ x ∉ m.map Prod.fst := by
  rw [← lookup_isSome_iff]
  cases m.lookup x <;> simp

/-- Preprocessing accepts exactly the well-scoped formulae over the network's propositions. -/
theorem rename_ok_iff_aux (isNetVar : Name → Bool) :
    ∀ t m last, (∃ t', renameRec isNetVar t m last = .ok t') ↔ Scoped isNetVar (m.map Prod.fst) t := by
  intro t
  induction t with
  | atom a =>
    intro m last
    cases a with
    | var x =>
      simp only [renameRec, Scoped]
      rw [← lookup_isSome_iff]
      cases m.lookup x <;> simp
    | prop n =>
      simp only [renameRec, Scoped]
      cases isNetVar n <;> simp
    | tt => simp [renameRec, Scoped]
    | ff => simp [renameRec, Scoped]
    | wild w => simp [renameRec, Scoped]
  | un o c ih =>
    intro m last
    simp only [renameRec, Scoped]
    rw [← ih m last]
    cases renameRec isNetVar c m last <;> simp
  | bin o l r ihl ihr =>
    intro m last
    simp only [renameRec, Scoped]
    rw [← ihl m last, ← ihr m last]
    cases renameRec isNetVar l m last <;> cases renameRec isNetVar r m last <;> simp
  | hyb o x d c ih =>
    intro m last
    simp only [renameRec, Scoped]
    by_cases hj : o = .jump
    · simp only [hj, if_true]
      rw [← ih m last, ← lookup_isSome_iff]
      cases renameRec isNetVar c m last <;> cases m.lookup x <;> simp
    · simp only [hj, if_false]
      rw [← lookup_none_iff]
      cases hl : m.lookup x with
      | some r => simp
      | none =>
        simp only [Option.isSome_none, Bool.false_eq_true, if_false, true_and]
        have := ih ((x, last ++ ['x']) :: m) (last ++ ['x'])
        simp only [List.map_cons] at this
        rw [← this]
        cases renameRec isNetVar c ((x, last ++ ['x']) :: m) (last ++ ['x']) <;> simp

/-- names by depth: variables are `x…x`, the quantifier at depth `d` binds `x^(d+1)` -/
def DepthNamed : Nat → Tree → Prop
  | d, .atom (.var x) => ∃ i, i < d ∧ x = xs (i + 1)
  | _, .atom _ => True
  | d, .un _ c => DepthNamed d c
  | d, .bin _ l r => DepthNamed d l ∧ DepthNamed d r
  | d, .hyb o x _ c =>
    if o = .jump then (∃ i, i < d ∧ x = xs (i + 1)) ∧ DepthNamed d c
    else x = xs (d + 1) ∧ DepthNamed (d + 1) c

theorem WellScoped.mono {k k' : Nat} (hk : k ≤ k') : ∀ {t d}, WellScoped k d t → WellScoped k' d t := by
  intro t
  induction t with
  | atom a => intro d h; cases a <;> simpa [WellScoped] using h
  | un o c ih => intro d h; exact ih h
  | bin o l r ihl ihr => intro d h; exact ⟨ihl h.1, ihr h.2⟩
  | hyb o x dom c ih =>
    intro d h
    simp only [WellScoped] at h ⊢
    by_cases hj : o = .jump
    · simp only [hj, if_true] at h ⊢; exact ⟨h.1, ih h.2⟩
    · simp only [hj, if_false] at h ⊢; exact ⟨h.1, Nat.lt_of_lt_of_le h.2.1 hk, ih h.2.2⟩

/-- depth-named trees are well scoped for any graph with at least `d + depth` spare variable sets -/
theorem DepthNamed.wellScoped : ∀ {t d}, DepthNamed d t → WellScoped (d + t.depth) d t := by
  intro t
  induction t with
  | atom a =>
    intro d h
    cases a with
    | var x =>
      obtain ⟨i, hi, rfl⟩ := h
      simp only [WellScoped, varId_xs]; exact hi
    | _ => simp [WellScoped]
  | un o c ih => intro d h; exact ih h
  | bin o l r ihl ihr =>
    intro d h
    simp only [Tree.depth]
    exact ⟨(ihl h.1).mono (by omega), (ihr h.2).mono (by omega)⟩
  | hyb o x dom c ih =>
    intro d h
    simp only [DepthNamed, WellScoped, Tree.depth] at h ⊢
    by_cases hj : o = .jump
    · simp only [hj, if_true] at h ⊢
      obtain ⟨⟨i, hi, rfl⟩, hc⟩ := h
      exact ⟨by rw [varId_xs]; exact hi, ih hc⟩
    · simp only [hj, if_false] at h ⊢
      obtain ⟨rfl, hc⟩ := h
      refine ⟨varId_xs d, by omega, ?_⟩
      have := ih hc
      rwa [show d + 1 + c.depth = d + (c.depth + 1) by omega] at this

/-- the renaming map while `d` quantifiers are open: every new name is `x^(i+1)` with `i < d` -/
def MapNamed (m : RenMap) (d : Nat) : Prop := ∀ x r, m.lookup x = some r → ∃ i, i < d ∧ r = xs (i + 1)

/-- The accepted result names the variable of every quantifier by its nesting depth. -/
theorem rename_depthNamed (isNetVar : Name → Bool) :
    ∀ t m d t', renameRec isNetVar t m (xs d) = .ok t' → MapNamed m d → DepthNamed d t' := by
  intro t
  induction t with
  | atom a =>
    intro m d t' h hm
    cases a with
    | var x =>
      simp only [renameRec] at h
      cases hl : m.lookup x with
      | none => simp [hl] at h
      | some r =>
        simp [hl] at h
        subst h
        exact hm x r hl
    | prop n =>
      simp only [renameRec] at h
      split at h <;> simp at h
      subst h; simp [DepthNamed]
    | tt => simp [renameRec] at h; subst h; simp [DepthNamed]
    | ff => simp [renameRec] at h; subst h; simp [DepthNamed]
    | wild w => simp [renameRec] at h; subst h; simp [DepthNamed]
  | un o c ih =>
    intro m d t' h hm
    simp only [renameRec] at h
    cases hc : renameRec isNetVar c m (xs d) with
    | error e => simp [hc] at h
    | ok c' =>
      simp [hc] at h
      subst h
      exact ih m d c' hc hm
  | bin o l r ihl ihr =>
    intro m d t' h hm
    simp only [renameRec] at h
    cases hl : renameRec isNetVar l m (xs d) with
    | error e => simp [hl] at h
    | ok l' =>
      cases hr : renameRec isNetVar r m (xs d) with
      | error e => simp [hl, hr] at h
      | ok r' =>
        simp [hl, hr] at h
        subst h
        exact ⟨ihl m d l' hl hm, ihr m d r' hr hm⟩
  | hyb o x dom c ih =>
    intro m d t' h hm
    simp only [renameRec] at h
    by_cases hj : o = .jump
    · simp only [hj, if_true] at h
      cases hc : renameRec isNetVar c m (xs d) with
      | error e => simp [hc] at h
      | ok c' =>
        cases hl : m.lookup x with
        | none => simp [hc, hl] at h
        | some r =>
          simp [hc, hl] at h
          subst h
          simp only [DepthNamed, if_true]
          exact ⟨hm x r hl, ih m d c' hc hm⟩
    · simp only [hj, if_false] at h
      cases hl : m.lookup x with
      | some r => simp [hl] at h
      | none =>
        simp only [hl, Option.isSome_none, Bool.false_eq_true, if_false, xs_succ] at h
        cases hc : renameRec isNetVar c ((x, xs (d + 1)) :: m) (xs (d + 1)) with
        | error e => simp [hc] at h
        | ok c' =>
          simp [hc] at h
          subst h
          simp only [DepthNamed, hj, if_false, true_and]
          apply ih _ (d + 1) c' hc
          intro y r hy
          simp only [List.lookup] at hy
          split at hy
          · cases hy; exact ⟨d, Nat.lt_succ_self d, rfl⟩
          · obtain ⟨i, hi, hr⟩ := hm y r hy
            exact ⟨i, Nat.lt_succ_of_lt hi, hr⟩

/-- the identity renaming on the names of `d` open quantifiers -/
def idMap : Nat → RenMap
  | 0 => []
  | d + 1 => (xs (d + 1), xs (d + 1)) :: idMap d

theorem idMap_lookup (d i : Nat) (hi : i < d) : (idMap d).lookup (xs (i + 1)) = some (xs (i + 1)) := by
  induction d with
  | zero => omega
  | succ d ih =>
    simp only [idMap, List.lookup]
    by_cases h : i = d
    · subst h; simp
    · have : (xs (i + 1) == xs (d + 1)) = false := by
        apply beq_eq_false_iff_ne.mpr
        intro hh
        have := xs_inj hh
        omega
      simp only [this]
      exact ih (by omega)

theorem idMap_lookup_none (d n : Nat) (hn : d < n) : (idMap d).lookup (xs n) = none := by
  induction d with
  | zero => simp [idMap, List.lookup]
  | succ d ih =>
    simp only [idMap, List.lookup]
    have : (xs n == xs (d + 1)) = false := by
      apply beq_eq_false_iff_ne.mpr
      intro hh
      have := xs_inj hh
      omega
    simp only [this]
    exact ih (by omega)

/-- Preprocessing an already preprocessed tree changes nothing. -/
theorem rename_idem_aux (isNetVar : Name → Bool) :
    ∀ t d, DepthNamed d t → Scoped isNetVar ((idMap d).map Prod.fst) t →
      renameRec isNetVar t (idMap d) (xs d) = .ok t := by
  intro t
  induction t with
  | atom a =>
    intro d hn hs
    cases a with
    | var x =>
      obtain ⟨i, hi, rfl⟩ := hn
      simp [renameRec, idMap_lookup d i hi]
    | prop n =>
      simp only [Scoped] at hs
      simp [renameRec, hs]
    | tt => simp [renameRec]
    | ff => simp [renameRec]
    | wild w => simp [renameRec]
  | un o c ih =>
    intro d hn hs
    simp [renameRec, ih d hn hs]
  | bin o l r ihl ihr =>
    intro d hn hs
    simp [renameRec, ihl d hn.1 hs.1, ihr d hn.2 hs.2]
  | hyb o x dom c ih =>
    intro d hn hs
    simp only [DepthNamed, Scoped] at hn hs
    by_cases hj : o = .jump
    · simp only [hj, if_true] at hn hs
      obtain ⟨⟨i, hi, rfl⟩, hc⟩ := hn
      subst hj
      simp [renameRec, ih d hc hs.2, idMap_lookup d i hi]
    · simp only [hj, if_false] at hn hs
      obtain ⟨rfl, hc⟩ := hn
      have hnone := idMap_lookup_none d (d + 1) (Nat.lt_succ_self d)
      have := ih (d + 1) hc (by simpa [idMap] using hs.2)
      simp only [idMap] at this
      simp [renameRec, hj, hnone, xs_succ, this]

end Hctl

namespace Hctl

/-! ### alpha-equivalence: de Bruijn erasure -/

inductive DVar
  | bound (i : Nat)
  | free (x : Name)
  deriving DecidableEq, Repr

/-- formulae with variable names erased: bound variables by distance to their binder -/
inductive DBT
  | atom (a : Atom)
  | var (v : DVar)
  | un (o : UnOp) (c : DBT)
  | bin (o : BinOp) (l r : DBT)
  | jump (v : DVar) (d : Option Name) (c : DBT)
  | quant (o : HybOp) (d : Option Name) (c : DBT)
  deriving DecidableEq, Repr

def idxIn (x : Name) : List Name → Option Nat
  | [] => none
  | y :: ys => if x = y then some 0 else (idxIn x ys).map (· + 1)

def dvar (scope : List Name) (x : Name) : DVar :=
  match idxIn x scope with
  | some i => .bound i
  | none => .free x

/-- the independent normaliser: erase names, innermost binder first -/
def toDB : List Name → Tree → DBT
  | sc, .atom (.var x) => .var (dvar sc x)
  | _, .atom a => .atom a
  | sc, .un o c => .un o (toDB sc c)
  | sc, .bin o l r => .bin o (toDB sc l) (toDB sc r)
  | sc, .hyb o x d c => if o = .jump then .jump (dvar sc x) d (toDB sc c) else .quant o d (toDB (x :: sc) c)

theorem lookup_idx (m : RenMap) (x r : Name) (h : m.lookup x = some r) (hnd : (m.map Prod.snd).Nodup) :
    ∃ i, idxIn x (m.map Prod.fst) = some i ∧ idxIn r (m.map Prod.snd) = some i := by
  induction m with
  | nil => simp [List.lookup] at h
  | cons e m ih =>
    obtain ⟨k, v⟩ := e
    simp only [List.lookup] at h
    simp only [List.map_cons, List.nodup_cons] at hnd
    by_cases hk : x == k
    · simp only [hk] at h
      cases h
      have : x = k := beq_iff_eq.mp hk
      subst this
      exact ⟨0, by simp [idxIn], by simp [idxIn]⟩
    · simp only [hk] at h
      have hne : x ≠ k := fun hh => hk (beq_iff_eq.mpr hh)
      obtain ⟨i, h1, h2⟩ := ih h hnd.2
      have hrv : r ≠ v := by
        intro hh
        subst hh
        -- r is a value of m (it was found by lookup), contradiction with v ∉ values
        have : r ∈ m.map Prod.snd := by
          clear ih h1 h2 hnd
          induction m with
          | nil => simp [List.lookup] at h
          | cons e' m' ih' =>
            obtain ⟨k', v'⟩ := e'
            simp only [List.lookup] at h
            by_cases hk' : x == k'
            · simp only [hk'] at h; cases h; simp
            · simp only [hk'] at h; simp [ih' h]
        exact hnd.1 this
      exact ⟨i + 1, by simp [idxIn, hne, h1], by simp [idxIn, hrv, h2]⟩

theorem lookup_none_idx (m : RenMap) (x : Name) (h : m.lookup x = none) : idxIn x (m.map Prod.fst) = none := by
  induction m with
  | nil => simp [idxIn]
  | cons e m ih =>
    obtain ⟨k, v⟩ := e
    simp only [List.lookup] at h
    by_cases hk : x == k
    · simp [hk] at h
    · simp only [hk] at h
      have hne : x ≠ k := fun hh => hk (beq_iff_eq.mpr hh)
      simp [idxIn, hne, ih h]

theorem lookup_mem_vals (m : RenMap) (x r : Name) (h : m.lookup x = some r) : r ∈ m.map Prod.snd := by
  induction m with
  | nil => simp [List.lookup] at h
  | cons e m ih =>
    obtain ⟨k, v⟩ := e
    simp only [List.lookup] at h
    by_cases hk : x == k
    · simp only [hk] at h; cases h; simp
    · simp only [hk] at h; simp [ih h]

/-- every new name in the map is `x^(i+1)` with `i < d` -/
def MapVals (m : RenMap) (d : Nat) : Prop := ∀ r, r ∈ m.map Prod.snd → ∃ i, i < d ∧ r = xs (i + 1)

theorem MapVals.named {m : RenMap} {d : Nat} (h : MapVals m d) : MapNamed m d :=
  fun x r hl => h r (lookup_mem_vals m x r hl)

theorem MapVals.cons {m : RenMap} {d : Nat} (h : MapVals m d) (x : Name) : MapVals ((x, xs (d + 1)) :: m) (d + 1) := by
  intro r hr
  simp only [List.map_cons, List.mem_cons] at hr
  cases hr with
  | inl h' => exact ⟨d, Nat.lt_succ_self d, h'⟩
  | inr h' =>
    obtain ⟨i, hi, hr⟩ := h r h'
    exact ⟨i, Nat.lt_succ_of_lt hi, hr⟩

theorem MapVals.nodup_cons {m : RenMap} {d : Nat} (h : MapVals m d) (hnd : (m.map Prod.snd).Nodup) (x : Name) :
    (((x, xs (d + 1)) :: m).map Prod.snd).Nodup := by
  simp only [List.map_cons, List.nodup_cons]
  refine ⟨?_, hnd⟩
  intro hmem
  obtain ⟨i, hi, hr⟩ := h _ hmem
  have := xs_inj hr
  omega

/-- The accepted result is alpha-equivalent to the input (equal after erasing names). -/
theorem rename_alpha_aux (isNetVar : Name → Bool) :
    ∀ t m d t', renameRec isNetVar t m (xs d) = .ok t' → MapVals m d → (m.map Prod.snd).Nodup →
      toDB (m.map Prod.fst) t = toDB (m.map Prod.snd) t' := by
  intro t
  induction t with
  | atom a =>
    intro m d t' h hm hnd
    cases a with
    | var x =>
      simp only [renameRec] at h
      cases hl : m.lookup x with
      | none => simp [hl] at h
      | some r =>
        simp [hl] at h
        subst h
        obtain ⟨i, h1, h2⟩ := lookup_idx m x r hl hnd
        simp [toDB, dvar, h1, h2]
    | prop n =>
      simp only [renameRec] at h
      split at h <;> simp at h
      subst h; simp [toDB]
    | tt => simp [renameRec] at h; subst h; simp [toDB]
    | ff => simp [renameRec] at h; subst h; simp [toDB]
    | wild w => simp [renameRec] at h; subst h; simp [toDB]
  | un o c ih =>
    intro m d t' h hm hnd
    simp only [renameRec] at h
    cases hc : renameRec isNetVar c m (xs d) with
    | error e => simp [hc] at h
    | ok c' =>
      simp [hc] at h
      subst h
      simp [toDB, ih m d c' hc hm hnd]
  | bin o l r ihl ihr =>
    intro m d t' h hm hnd
    simp only [renameRec] at h
    cases hl : renameRec isNetVar l m (xs d) with
    | error e => simp [hl] at h
    | ok l' =>
      cases hr : renameRec isNetVar r m (xs d) with
      | error e => simp [hl, hr] at h
      | ok r' =>
        simp [hl, hr] at h
        subst h
        simp [toDB, ihl m d l' hl hm hnd, ihr m d r' hr hm hnd]
  | hyb o x dom c ih =>
    intro m d t' h hm hnd
    simp only [renameRec] at h
    by_cases hj : o = .jump
    · simp only [hj, if_true] at h
      cases hc : renameRec isNetVar c m (xs d) with
      | error e => simp [hc] at h
      | ok c' =>
        cases hl : m.lookup x with
        | none => simp [hc, hl] at h
        | some r =>
          simp [hc, hl] at h
          subst h
          obtain ⟨i, h1, h2⟩ := lookup_idx m x r hl hnd
          simp [toDB, hj, dvar, h1, h2, ih m d c' hc hm hnd]
    · simp only [hj, if_false] at h
      cases hl : m.lookup x with
      | some r => simp [hl] at h
      | none =>
        simp only [hl, Option.isSome_none, Bool.false_eq_true, if_false, xs_succ] at h
        cases hc : renameRec isNetVar c ((x, xs (d + 1)) :: m) (xs (d + 1)) with
        | error e => simp [hc] at h
        | ok c' =>
          simp [hc] at h
          subst h
          have := ih _ (d + 1) c' hc (hm.cons x) (hm.nodup_cons hnd x)
          simp only [List.map_cons] at this
          simp [toDB, hj, this]

/-! ### the number of distinct variable names equals the nesting depth -/

/-- `acc` lists exactly the names `x^1 … x^n` -/
def NamesUpTo (acc : List Name) (n : Nat) : Prop :=
  acc.length = n ∧ ∀ y, y ∈ acc ↔ ∃ i, i < n ∧ y = xs (i + 1)

theorem quantVars_count : ∀ t d acc n, DepthNamed d t → NamesUpTo acc n → d ≤ n →
    NamesUpTo (t.quantVars acc) (max n (d + t.depth)) := by
  intro t
  induction t with
  | atom a => intro d acc n _ h hd; simpa [Tree.quantVars, Tree.depth, Nat.max_eq_left hd] using h
  | un o c ih => intro d acc n h1 h2 hd; exact ih d acc n h1 h2 hd
  | bin o l r ihl ihr =>
    intro d acc n h1 h2 hd
    simp only [Tree.quantVars, Tree.depth]
    have hl := ihl d acc n h1.1 h2 hd
    have hr := ihr d _ _ h1.2 hl (by omega)
    have : max (max n (d + l.depth)) (d + r.depth) = max n (d + max l.depth r.depth) := by omega
    rwa [this] at hr
  | hyb o x dom c ih =>
    intro d acc n h1 h2 hd
    simp only [DepthNamed, Tree.quantVars, Tree.depth] at h1 ⊢
    by_cases hj : o = .jump
    · simp only [hj, if_true] at h1 ⊢
      exact ih d acc n h1.2 h2 hd
    · simp only [hj, if_false] at h1 ⊢
      obtain ⟨rfl, hc⟩ := h1
      by_cases hn : d < n
      · -- the name is already present
        have hmem : xs (d + 1) ∈ acc := (h2.2 _).mpr ⟨d, hn, rfl⟩
        have : insertUniq (xs (d + 1)) acc = acc := by simp [insertUniq, hmem]
        rw [this]
        have := ih (d + 1) acc n hc h2 (by omega)
        rwa [show d + 1 + c.depth = d + (c.depth + 1) by omega] at this
      · have hnd : n = d := by omega
        subst hnd
        have hnot : xs (n + 1) ∉ acc := by
          intro hmem
          obtain ⟨i, hi, hxi⟩ := (h2.2 _).mp hmem
          have := xs_inj hxi
          omega
        have hins : insertUniq (xs (n + 1)) acc = acc ++ [xs (n + 1)] := by simp [insertUniq, hnot]
        rw [hins]
        have h3 : NamesUpTo (acc ++ [xs (n + 1)]) (n + 1) := by
          refine ⟨by simp [h2.1], ?_⟩
          intro y
          simp only [List.mem_append, List.mem_singleton, h2.2]
          constructor
          · rintro (⟨i, hi, rfl⟩ | rfl)
            · exact ⟨i, Nat.lt_succ_of_lt hi, rfl⟩
            · exact ⟨n, Nat.lt_succ_self n, rfl⟩
          · rintro ⟨i, hi, rfl⟩
            by_cases hin : i < n
            · exact Or.inl ⟨i, hin, rfl⟩
            · have : i = n := by omega
              subst this; exact Or.inr rfl
        have := ih (n + 1) _ (n + 1) hc h3 (Nat.le_refl _)
        have e : max (n + 1) (n + 1 + c.depth) = max n (n + (c.depth + 1)) := by omega
        rwa [e] at this

theorem numQuantVars_eq_depth (t : Tree) (h : DepthNamed 0 t) : t.numQuantVars = t.depth := by
  have := quantVars_count t 0 [] 0 h ⟨rfl, fun y => by simp⟩ (Nat.le_refl 0)
  simp only [Tree.numQuantVars]
  rw [this.1]
  omega

end Hctl

namespace Hctl

/-! ### a depth-named tree is determined by its de Bruijn form -/

theorem idx_in_keys (d i : Nat) (hi : i < d) : idxIn (xs (i + 1)) ((idMap d).map Prod.fst) = some (d - 1 - i) := by
  induction d with
  | zero => omega
  | succ d ih =>
    simp only [idMap, List.map_cons, idxIn]
    by_cases h : i = d
    · subst h; simp
    · have hne : xs (i + 1) ≠ xs (d + 1) := fun hh => h (by have := xs_inj hh; omega)
      simp only [hne, if_false, ih (by omega)]
      simp
      omega

theorem depthNamed_db_inj : ∀ a b d, DepthNamed d a → DepthNamed d b →
    toDB ((idMap d).map Prod.fst) a = toDB ((idMap d).map Prod.fst) b → a = b := by
  intro a
  induction a with
  | atom x =>
    intro b d ha hb h
    cases x with
    | var n =>
      obtain ⟨i, hi, rfl⟩ := ha
      cases b with
      | atom y =>
        cases y with
        | var n2 =>
          obtain ⟨j, hj, rfl⟩ := hb
          simp only [toDB, dvar, idx_in_keys d i hi, idx_in_keys d j hj, DBT.var.injEq, DVar.bound.injEq] at h
          have : i = j := by omega
          subst this; rfl
        | _ => simp [toDB] at h
      | un _ _ => simp [toDB] at h
      | bin _ _ _ => simp [toDB] at h
      | hyb o _ _ _ => simp only [toDB] at h; split at h <;> cases h
    | prop n =>
      cases b with
      | atom y => cases y <;> simp [toDB] at h; subst h; rfl
      | un _ _ => simp [toDB] at h
      | bin _ _ _ => simp [toDB] at h
      | hyb o _ _ _ => simp only [toDB] at h; split at h <;> cases h
    | tt =>
      cases b with
      | atom y => cases y <;> simp [toDB] at h; rfl
      | un _ _ => simp [toDB] at h
      | bin _ _ _ => simp [toDB] at h
      | hyb o _ _ _ => simp only [toDB] at h; split at h <;> cases h
    | ff =>
      cases b with
      | atom y => cases y <;> simp [toDB] at h; rfl
      | un _ _ => simp [toDB] at h
      | bin _ _ _ => simp [toDB] at h
      | hyb o _ _ _ => simp only [toDB] at h; split at h <;> cases h
    | wild w =>
      cases b with
      | atom y => cases y <;> simp [toDB] at h; subst h; rfl
      | un _ _ => simp [toDB] at h
      | bin _ _ _ => simp [toDB] at h
      | hyb o _ _ _ => simp only [toDB] at h; split at h <;> cases h
  | un o c ih =>
    intro b d ha hb h
    cases b with
    | atom y => cases y <;> simp [toDB] at h
    | un o2 c2 =>
      simp only [toDB, DBT.un.injEq] at h
      obtain ⟨rfl, hc⟩ := h
      rw [ih c2 d ha hb hc]
    | bin _ _ _ => simp [toDB] at h
    | hyb o2 _ _ _ => simp only [toDB] at h; split at h <;> cases h
  | bin o l r ihl ihr =>
    intro b d ha hb h
    cases b with
    | atom y => cases y <;> simp [toDB] at h
    | un _ _ => simp [toDB] at h
    | bin o2 l2 r2 =>
      simp only [toDB, DBT.bin.injEq] at h
      obtain ⟨rfl, hl, hr⟩ := h
      rw [ihl l2 d ha.1 hb.1 hl, ihr r2 d ha.2 hb.2 hr]
    | hyb o2 _ _ _ => simp only [toDB] at h; split at h <;> cases h
  | hyb o x dom c ih =>
    intro b d ha hb h
    cases b with
    | atom y => simp only [toDB] at h; split at h <;> cases y <;> simp [toDB] at h
    | un _ _ => simp only [toDB] at h; split at h <;> cases h
    | bin _ _ _ => simp only [toDB] at h; split at h <;> cases h
    | hyb o2 x2 d2 c2 =>
      simp only [toDB] at h
      simp only [DepthNamed] at ha hb
      by_cases hj : o = .jump
      · by_cases hj2 : o2 = .jump
        · subst hj hj2
          simp only [if_true] at ha hb h
          obtain ⟨⟨i, hi, rfl⟩, hca⟩ := ha
          obtain ⟨⟨j, hjj, rfl⟩, hcb⟩ := hb
          simp only [DBT.jump.injEq, dvar, idx_in_keys d i hi, idx_in_keys d j hjj, DVar.bound.injEq] at h
          obtain ⟨hx, rfl, hc⟩ := h
          have : i = j := by omega
          subst this
          rw [ih c2 d hca hcb hc]
        · simp [hj, hj2] at h
      · by_cases hj2 : o2 = .jump
        · simp [hj, hj2] at h
        · simp only [hj, hj2, if_false] at ha hb h
          obtain ⟨rfl, hca⟩ := ha
          obtain ⟨rfl, hcb⟩ := hb
          simp only [DBT.quant.injEq] at h
          obtain ⟨rfl, rfl, hc⟩ := h
          have hc' : toDB ((idMap (d + 1)).map Prod.fst) c = toDB ((idMap (d + 1)).map Prod.fst) c2 := by
            simpa [idMap] using hc
          rw [ih c2 (d + 1) hca hcb hc']

end Hctl
