/-
  C09, soundness of canonical forms for any number of variables: depth-named trees with the same canonical form are
  equal up to an injective renaming (quantifier names are shifted between the two depths, free names correspond).
-/
import HctlProofs.Lemmas.MarkDups
namespace Hctl
open C09

namespace Conv

/-- the renaming between two depth-named trees with the same canonical form: free names (index below `d1`) by `φ`,
quantifier names shifted from depth `d1` to depth `d2` -/
def F (d1 d2 : Nat) (φ : Name → Name) (x : Name) : Name :=
  if varId x < d1 then φ x else xs (varId x - d1 + d2 + 1)

theorem F_free {d1 d2 : Nat} {φ : Name → Name} {x : Name} (h : varId x < d1) : F d1 d2 φ x = φ x := by simp [F, h]

theorem F_bound {d1 d2 : Nat} {φ : Name → Name} (j : Nat) : F d1 d2 φ (xs (d1 + j + 1)) = xs (d2 + j + 1) := by
  unfold F
  rw [varId_xs]
  have : ¬ d1 + j < d1 := by omega
  rw [if_neg this]
  congr 1; omega

/-- the invariant relating the two canonisation states -/
structure Inv (d1 d2 : Nat) (φ : Name → Name) (r : Nat) (st1 st2 : CanonT) : Prop where
  stack : st1.stack = st2.stack
  inv1 : CanonInv st1
  inv2 : CanonInv st2
  fwd : ∀ x c, (x, c) ∈ st1.map → (F d1 d2 φ x, c) ∈ st2.map
  bwd : ∀ x' c, (x', c) ∈ st2.map → ∃ x, F d1 d2 φ x = x' ∧ (x, c) ∈ st1.map
  names : ∀ x c, (x, c) ∈ st1.map → ∃ i, x = xs (i + 1)
  low : ∀ x c, (x, c) ∈ st1.map → varId x < d1 → varId (F d1 d2 φ x) < d2
  bound1 : ∀ j, j < r → ∃ c, (xs (d1 + j + 1), c) ∈ st1.map
  bound2 : ∀ j, j < r → ∃ c, (xs (d2 + j + 1), c) ∈ st2.map

theorem lookup_ne_none_of_mem {x c : Name} : ∀ (m : List (Name × Name)), (x, c) ∈ m → m.lookup x ≠ none := by
  intro m
  induction m with
  | nil => intro h; simp at h
  | cons e m ih =>
    intro hm
    obtain ⟨k, v⟩ := e
    simp only [List.lookup]
    by_cases hk : x = k
    · subst hk; simp
    · have hb : (x == k) = false := beq_eq_false_iff_ne.mpr hk
      simp only [hb]
      simp only [List.mem_cons, Prod.mk.injEq] at hm
      rcases hm with ⟨h1, _⟩ | hm
      · exact absurd h1 hk
      · exact ih hm

theorem canonVar_keeps (z : Name) (st : CanonT) {y c : Name} (h : (y, c) ∈ st.map) : (y, c) ∈ (canonVar z st).2.map := by
  unfold canonVar
  cases hl : st.map.lookup z with
  | some _ => exact h
  | none =>
    simp only
    apply mem_mapInsert.mpr
    right
    refine ⟨?_, h⟩
    intro hyz
    subst hyz
    exact lookup_ne_none_of_mem _ h hl

/-- entries for free names are never overwritten while a depth-named tree is canonised -/
theorem persist (d0 : Nat) {y c : Name} (hy : varId y < d0) : ∀ (t : Tree) (dd : Nat) (st : CanonT), d0 ≤ dd →
    DepthNamed dd t → (y, c) ∈ st.map → (y, c) ∈ (canonTreeAux t st).2.map := by
  intro t
  induction t with
  | atom a =>
    intro dd st _ _ h
    cases a with
    | var z => simpa [canonTreeAux] using canonVar_keeps z st h
    | _ => simpa [canonTreeAux] using h
  | un o c ih => intro dd st hd hn h; simpa [canonTreeAux] using ih dd st hd hn h
  | bin o l r ihl ihr =>
    intro dd st hd hn h
    simpa [canonTreeAux] using ihr dd _ hd hn.2 (ihl dd st hd hn.1 h)
  | hyb o v dom c ih =>
    intro dd st hd hn h
    by_cases hj : o = .jump
    · simp only [DepthNamed, hj, if_true] at hn
      simpa [canonTreeAux, hj] using ih dd _ hd hn.2 (canonVar_keeps v st h)
    · simp only [DepthNamed, hj, if_false] at hn
      simp only [canonTreeAux, hj, if_false]
      apply ih (dd + 1) _ (by omega) hn.2
      apply mem_mapInsert.mpr
      right
      refine ⟨?_, h⟩
      intro hyv
      rw [hyv, hn.1, varId_xs] at hy
      omega

theorem shape_atom (z : Name) (a : Atom) (hnv : ∀ x, a ≠ .var x) (t2 : Tree)
    (h : Tree.atom a = t2.mapVars (fun _ => z)) : t2 = .atom a := by
  cases t2 with
  | atom b =>
    cases b with
    | var y => simp only [Tree.mapVars, Tree.atom.injEq] at h; exact absurd h (hnv z)
    | _ => simpa [Tree.mapVars] using h.symm
  | un _ _ => simp [Tree.mapVars] at h
  | bin _ _ _ => simp [Tree.mapVars] at h
  | hyb _ _ _ _ => simp [Tree.mapVars] at h

section step
variable {d1 d2 : Nat} {φ : Name → Name}

/-- a variable occurrence (or jump target) -/
theorem var_step {r : Nat} {st1 st2 : CanonT} (h : Inv d1 d2 φ r st1 st2) (y1 y2 : Name)
    (hy1 : ∃ i, i < d1 + r ∧ y1 = xs (i + 1)) (hy2 : ∃ i, i < d2 + r ∧ y2 = xs (i + 1))
    (hT : (canonVar y1 st1).1 = (canonVar y2 st2).1)
    (hnew : st1.map.lookup y1 = none → st2.map.lookup y2 = none → varId y1 < d1 → varId y2 < d2 → y2 = φ y1) :
    y2 = F d1 d2 φ y1 ∧ Inv d1 d2 φ r (canonVar y1 st1).2 (canonVar y2 st2).2 := by
  obtain ⟨i1, hi1, rfl⟩ := hy1
  obtain ⟨i2, hi2, rfl⟩ := hy2
  unfold canonVar at hT ⊢
  cases hl1 : st1.map.lookup (xs (i1 + 1)) with
  | some c =>
    simp only [hl1] at hT ⊢
    have hm1 := lookup_mem' _ hl1
    cases hl2 : st2.map.lookup (xs (i2 + 1)) with
    | some c2 =>
      simp only [hl2] at hT ⊢
      subst hT
      obtain ⟨x, hx, hxm⟩ := h.bwd _ _ (lookup_mem' _ hl2)
      have := h.inv1.inj x (xs (i1 + 1)) _ hxm hm1
      subst this
      exact ⟨hx.symm, h⟩
    | none =>
      simp only [hl2] at hT
      exfalso
      obtain ⟨j, hj, hc⟩ := h.inv1.bound _ _ hm1
      rw [hc] at hT
      have := canonName_inj hT
      have := h.stack
      omega
  | none =>
    simp only [hl1] at hT ⊢
    cases hl2 : st2.map.lookup (xs (i2 + 1)) with
    | some c2 =>
      simp only [hl2] at hT
      exfalso
      obtain ⟨j, hj, hc⟩ := h.inv2.bound _ _ (lookup_mem' _ hl2)
      rw [hc] at hT
      have := canonName_inj hT
      have := h.stack
      omega
    | none =>
      simp only [hl2]
      -- both names are new: they are free names
      have hf1 : i1 < d1 := by
        apply Classical.byContradiction
        intro hge
        obtain ⟨c, hc⟩ := h.bound1 (i1 - d1) (by omega)
        have : d1 + (i1 - d1) + 1 = i1 + 1 := by omega
        rw [this] at hc
        exact lookup_ne_none_of_mem _ hc hl1
      have hf2 : i2 < d2 := by
        apply Classical.byContradiction
        intro hge
        obtain ⟨c, hc⟩ := h.bound2 (i2 - d2) (by omega)
        have : d2 + (i2 - d2) + 1 = i2 + 1 := by omega
        rw [this] at hc
        exact lookup_ne_none_of_mem _ hc hl2
      have hφ := hnew hl1 hl2 (by rw [varId_xs]; exact hf1) (by rw [varId_xs]; exact hf2)
      have hF : F d1 d2 φ (xs (i1 + 1)) = xs (i2 + 1) := by rw [F_free (by rw [varId_xs]; exact hf1)]; exact hφ.symm
      refine ⟨hF.symm, ?_⟩
      have hnot1 : ∀ c, (xs (i1 + 1), c) ∉ st1.map := fun c hc => lookup_ne_none_of_mem _ hc hl1
      have hnot2 : ∀ c, (xs (i2 + 1), c) ∉ st2.map := fun c hc => lookup_ne_none_of_mem _ hc hl2
      refine ⟨by simp [h.stack], h.inv1.insert _, h.inv2.insert _, ?_, ?_, ?_, ?_, ?_, ?_⟩
      · intro x c hm
        rcases mem_mapInsert.mp hm with ⟨rfl, rfl⟩ | ⟨hne, hm'⟩
        · rw [hF, h.stack]; exact mem_mapInsert.mpr (Or.inl ⟨rfl, rfl⟩)
        · apply mem_mapInsert.mpr
          right
          refine ⟨?_, h.fwd x c hm'⟩
          intro hFx
          exact hnot2 c (hFx ▸ h.fwd x c hm')
      · intro x' c hm
        rcases mem_mapInsert.mp hm with ⟨rfl, rfl⟩ | ⟨hne, hm'⟩
        · exact ⟨xs (i1 + 1), hF, by rw [← h.stack]; exact mem_mapInsert.mpr (Or.inl ⟨rfl, rfl⟩)⟩
        · obtain ⟨x, hx, hxm⟩ := h.bwd x' c hm'
          refine ⟨x, hx, mem_mapInsert.mpr (Or.inr ⟨?_, hxm⟩)⟩
          intro hxe
          subst hxe
          exact hnot1 c hxm
      · intro x c hm
        rcases mem_mapInsert.mp hm with ⟨rfl, _⟩ | ⟨_, hm'⟩
        · exact ⟨i1, rfl⟩
        · exact h.names x c hm'
      · intro x c hm hlow
        rcases mem_mapInsert.mp hm with ⟨rfl, _⟩ | ⟨_, hm'⟩
        · rw [hF, varId_xs]; exact hf2
        · exact h.low x c hm' hlow
      · intro j hj
        obtain ⟨c, hc⟩ := h.bound1 j hj
        exact ⟨c, mem_mapInsert.mpr (Or.inr ⟨fun he => hnot1 c (he ▸ hc), hc⟩)⟩
      · intro j hj
        obtain ⟨c, hc⟩ := h.bound2 j hj
        exact ⟨c, mem_mapInsert.mpr (Or.inr ⟨fun he => hnot2 c (he ▸ hc), hc⟩)⟩

/-- a quantifier: both trees bind the name of the current depth and hand out the same fresh canonical name -/
theorem binder_step {r : Nat} {st1 st2 : CanonT} (h : Inv d1 d2 φ r st1 st2) :
    Inv d1 d2 φ (r + 1) ⟨mapInsert (xs (d1 + r + 1)) (canonName st1.stack) st1.map, st1.stack + 1⟩
      ⟨mapInsert (xs (d2 + r + 1)) (canonName st2.stack) st2.map, st2.stack + 1⟩ := by
  have hF : F d1 d2 φ (xs (d1 + r + 1)) = xs (d2 + r + 1) := F_bound r
  -- F is injective towards the bound name
  have hinj : ∀ x c, (x, c) ∈ st1.map → x ≠ xs (d1 + r + 1) → F d1 d2 φ x ≠ xs (d2 + r + 1) := by
    intro x c hm hne hFx
    obtain ⟨i, rfl⟩ := h.names x c hm
    by_cases hlow : i < d1
    · have := h.low _ c hm (by rw [varId_xs]; exact hlow)
      rw [hFx, varId_xs] at this
      omega
    · have hi : i = d1 + (i - d1) := by omega
      rw [hi, F_bound] at hFx
      have := xs_inj hFx
      apply hne
      congr 1; omega
  refine ⟨by simp [h.stack], h.inv1.insert _, h.inv2.insert _, ?_, ?_, ?_, ?_, ?_, ?_⟩
  · intro x c hm
    rcases mem_mapInsert.mp hm with ⟨rfl, rfl⟩ | ⟨hne, hm'⟩
    · rw [hF, h.stack]; exact mem_mapInsert.mpr (Or.inl ⟨rfl, rfl⟩)
    · exact mem_mapInsert.mpr (Or.inr ⟨hinj x c hm' hne, h.fwd x c hm'⟩)
  · intro x' c hm
    rcases mem_mapInsert.mp hm with ⟨rfl, rfl⟩ | ⟨hne, hm'⟩
    · exact ⟨_, hF, by rw [← h.stack]; exact mem_mapInsert.mpr (Or.inl ⟨rfl, rfl⟩)⟩
    · obtain ⟨x, hx, hxm⟩ := h.bwd x' c hm'
      refine ⟨x, hx, mem_mapInsert.mpr (Or.inr ⟨?_, hxm⟩)⟩
      intro hxe
      subst hxe
      exact hne (hx.symm.trans hF)
  · intro x c hm
    rcases mem_mapInsert.mp hm with ⟨rfl, _⟩ | ⟨_, hm'⟩
    · exact ⟨d1 + r, rfl⟩
    · exact h.names x c hm'
  · intro x c hm hlow
    rcases mem_mapInsert.mp hm with ⟨rfl, _⟩ | ⟨_, hm'⟩
    · rw [varId_xs] at hlow; omega
    · exact h.low x c hm' hlow
  · intro j hj
    by_cases hjr : j = r
    · subst hjr; exact ⟨_, mem_mapInsert.mpr (Or.inl ⟨rfl, rfl⟩)⟩
    · obtain ⟨c, hc⟩ := h.bound1 j (by omega)
      exact ⟨c, mem_mapInsert.mpr (Or.inr ⟨fun he => hjr (by have := xs_inj he; omega), hc⟩)⟩
  · intro j hj
    by_cases hjr : j = r
    · subst hjr; exact ⟨_, mem_mapInsert.mpr (Or.inl ⟨rfl, rfl⟩)⟩
    · obtain ⟨c, hc⟩ := h.bound2 j (by omega)
      exact ⟨c, mem_mapInsert.mpr (Or.inr ⟨fun he => hjr (by have := xs_inj he; omega), hc⟩)⟩

theorem Inv.weaken {r : Nat} {st1 st2 : CanonT} (h : Inv d1 d2 φ (r + 1) st1 st2) : Inv d1 d2 φ r st1 st2 :=
  ⟨h.stack, h.inv1, h.inv2, h.fwd, h.bwd, h.names, h.low, fun j hj => h.bound1 j (by omega), fun j hj => h.bound2 j (by omega)⟩

/-- MAIN INDUCTION: two depth-named trees of the same shape with the same canonical form, canonised from related states -/
theorem conv_aux (z : Name) (fin1 fin2 : List (Name × Name))
    (hφ : ∀ y1 y2 c, varId y1 < d1 → varId y2 < d2 → (y1, c) ∈ fin1 → (y2, c) ∈ fin2 → y2 = φ y1) :
    ∀ (t1 t2 : Tree) (r : Nat) (st1 st2 : CanonT), Inv d1 d2 φ r st1 st2 →
      t1.mapVars (fun _ => z) = t2.mapVars (fun _ => z) → DepthNamed (d1 + r) t1 → DepthNamed (d2 + r) t2 →
      (canonTreeAux t1 st1).1 = (canonTreeAux t2 st2).1 →
      (∀ y c, varId y < d1 → (y, c) ∈ (canonTreeAux t1 st1).2.map → (y, c) ∈ fin1) →
      (∀ y c, varId y < d2 → (y, c) ∈ (canonTreeAux t2 st2).2.map → (y, c) ∈ fin2) →
      t2 = t1.mapVars (F d1 d2 φ) ∧ Inv d1 d2 φ r (canonTreeAux t1 st1).2 (canonTreeAux t2 st2).2 := by
  intro t1
  induction t1 with
  | atom a =>
    intro t2 r st1 st2 h hs hn1 hn2 hT hf1 hf2
    cases a with
    | var y1 =>
      cases t2 with
      | atom b =>
        cases b with
        | var y2 =>
          simp only [canonTreeAux, Tree.atom.injEq, Atom.var.injEq] at hT
          have := var_step h y1 y2 hn1 hn2 hT (by
            intro l1 l2 v1 v2
            apply hφ y1 y2 (canonName st1.stack) v1 v2
            · apply hf1 y1 _ v1
              simp [canonTreeAux, canonVar, l1, mapInsert]
            · apply hf2 y2 _ v2
              rw [h.stack]
              simp [canonTreeAux, canonVar, l2, mapInsert])
          exact ⟨by simp [Tree.mapVars, this.1], by simpa [canonTreeAux] using this.2⟩
        | _ => simp [Tree.mapVars] at hs
      | un _ _ => simp [Tree.mapVars] at hs
      | bin _ _ _ => simp [Tree.mapVars] at hs
      | hyb _ _ _ _ => simp [Tree.mapVars] at hs
    | prop n =>
      have := shape_atom z (.prop n) (by intro x; simp) t2 (by simpa [Tree.mapVars] using hs)
      subst this
      exact ⟨by simp [Tree.mapVars], by simpa [canonTreeAux] using h⟩
    | tt =>
      have := shape_atom z .tt (by intro x; simp) t2 (by simpa [Tree.mapVars] using hs)
      subst this
      exact ⟨by simp [Tree.mapVars], by simpa [canonTreeAux] using h⟩
    | ff =>
      have := shape_atom z .ff (by intro x; simp) t2 (by simpa [Tree.mapVars] using hs)
      subst this
      exact ⟨by simp [Tree.mapVars], by simpa [canonTreeAux] using h⟩
    | wild w =>
      have := shape_atom z (.wild w) (by intro x; simp) t2 (by simpa [Tree.mapVars] using hs)
      subst this
      exact ⟨by simp [Tree.mapVars], by simpa [canonTreeAux] using h⟩
  | un o c ih =>
    intro t2 r st1 st2 h hs hn1 hn2 hT hf1 hf2
    cases t2 with
    | un o' c' =>
      simp only [Tree.mapVars, Tree.un.injEq] at hs
      simp only [canonTreeAux, Tree.un.injEq] at hT
      obtain ⟨rfl, hsc⟩ := hs
      have := ih c' r st1 st2 h hsc hn1 hn2 hT.2 (by simpa [canonTreeAux] using hf1) (by simpa [canonTreeAux] using hf2)
      exact ⟨by simp [Tree.mapVars, this.1], by simpa [canonTreeAux] using this.2⟩
    | atom a => cases a <;> simp [Tree.mapVars] at hs
    | bin _ _ _ => simp [Tree.mapVars] at hs
    | hyb _ _ _ _ => simp [Tree.mapVars] at hs
  | bin o l r' ihl ihr =>
    intro t2 r st1 st2 h hs hn1 hn2 hT hf1 hf2
    cases t2 with
    | bin o' l' r2 =>
      simp only [Tree.mapVars, Tree.bin.injEq] at hs
      simp only [canonTreeAux, Tree.bin.injEq] at hT
      obtain ⟨rfl, hsl, hsr⟩ := hs
      simp only [canonTreeAux] at hf1 hf2
      have a := ihl l' r st1 st2 h hsl hn1.1 hn2.1 hT.2.1
        (fun y c hy hm => hf1 y c hy (persist d1 hy r' (d1 + r) _ (by omega) hn1.2 hm))
        (fun y c hy hm => hf2 y c hy (persist d2 hy r2 (d2 + r) _ (by omega) hn2.2 hm))
      have b := ihr r2 r _ _ a.2 hsr hn1.2 hn2.2 hT.2.2 hf1 hf2
      exact ⟨by simp [Tree.mapVars, a.1, b.1], by simpa [canonTreeAux] using b.2⟩
    | atom a => cases a <;> simp [Tree.mapVars] at hs
    | un _ _ => simp [Tree.mapVars] at hs
    | hyb _ _ _ _ => simp [Tree.mapVars] at hs
  | hyb o v dom c ih =>
    intro t2 r st1 st2 h hs hn1 hn2 hT hf1 hf2
    cases t2 with
    | hyb o' v' dom' c' =>
      simp only [Tree.mapVars, Tree.hyb.injEq] at hs
      obtain ⟨rfl, _, rfl, hsc⟩ := hs
      by_cases hj : o = .jump
      · subst hj
        simp only [DepthNamed, if_true] at hn1 hn2
        simp only [canonTreeAux, if_true, Tree.hyb.injEq, true_and] at hT hf1 hf2
        have hv := var_step h v v' hn1.1 hn2.1 hT.1 (by
          intro l1 l2 v1 v2
          apply hφ v v' (canonName st1.stack) v1 v2
          · apply hf1 v _ v1
            apply persist d1 v1 c (d1 + r) _ (by omega) hn1.2
            simp [canonVar, l1, mapInsert]
          · apply hf2 v' _ v2
            apply persist d2 v2 c' (d2 + r) _ (by omega) hn2.2
            rw [h.stack]
            simp [canonVar, l2, mapInsert])
        have b := ih c' r _ _ hv.2 hsc hn1.2 hn2.2 hT.2 hf1 hf2
        exact ⟨by simp [Tree.mapVars, hv.1, b.1], by simpa [canonTreeAux] using b.2⟩
      · simp only [DepthNamed, hj, if_false] at hn1 hn2
        simp only [canonTreeAux, hj, if_false, Tree.hyb.injEq, true_and] at hT hf1 hf2
        obtain ⟨rfl, hnc1⟩ := hn1
        obtain ⟨rfl, hnc2⟩ := hn2
        have hb := binder_step (φ := φ) h
        have b := ih c' (r + 1) _ _ hb hsc (by simpa [Nat.add_assoc] using hnc1) (by simpa [Nat.add_assoc] using hnc2) hT.2 hf1 hf2
        refine ⟨?_, ?_⟩
        · simp only [Tree.mapVars, b.1, F_bound]
        · simpa [canonTreeAux, hj] using b.2.weaken
    | atom a => cases a <;> simp [Tree.mapVars] at hs
    | un _ _ => simp [Tree.mapVars] at hs
    | bin _ _ _ => simp [Tree.mapVars] at hs

end step
end Conv

/-- SOUNDNESS of canonical forms, any number of variables: two depth-named sub-formulae (as preprocessing produces them,
at any two quantifier depths) with the same canonical form are equal up to a consistent — injective — renaming of their
variables. Together with `canon_invariant_under_renaming` (the converse): canonical forms identify EXACTLY the
sub-formulae equal up to renaming. -/
theorem canon_eq_imp_renaming (t1 t2 : Tree) (d1 d2 : Nat) (hT : (canonTree t1).1 = (canonTree t2).1)
    (hn1 : DepthNamed d1 t1) (hn2 : DepthNamed d2 t2) :
    ∃ f : Name → Name, t2 = t1.mapVars f ∧ ∀ x y, x ∈ varNames t1 → y ∈ varNames t1 → f x = f y → x = y := by
  simp only [canonTree] at hT
  have i1 := canonTreeAux_inv t1 {} CanonInv.init
  have i2 := canonTreeAux_inv t2 {} CanonInv.init
  let fin1 := (canonTreeAux t1 {}).2.map
  let fin2 := (canonTreeAux t2 {}).2.map
  let φ : Name → Name := fun y =>
    match fin1.lookup y with
    | some c => ((fin2.find? (fun e => e.2 == c)).map (·.1)).getD []
    | none => []
  have hφ : ∀ y1 y2 c, varId y1 < d1 → varId y2 < d2 → (y1, c) ∈ fin1 → (y2, c) ∈ fin2 → y2 = φ y1 := by
    intro y1 y2 c _ _ h1 h2
    have hl : fin1.lookup y1 = some c := mem_lookup i1 h1
    simp only [φ, hl]
    cases hf : fin2.find? (fun e => e.2 == c) with
    | none =>
      exfalso
      have := List.find?_eq_none.mp hf (y2, c) h2
      simp at this
    | some e =>
      have hm := List.mem_of_find?_eq_some hf
      have hc : e.2 = c := by simpa using List.find?_some hf
      simp only [Option.map_some, Option.getD_some]
      obtain ⟨a, b⟩ := e
      simp only at hc
      subst hc
      exact i2.inj y2 a _ h2 hm
  have hshape : t1.mapVars (fun _ => ([] : Name)) = t2.mapVars (fun _ => ([] : Name)) := by
    have a := canonTreeAux_shape [] t1 {}
    have b := canonTreeAux_shape [] t2 {}
    rw [hT, b] at a
    exact a.symm
  have h0 : Conv.Inv d1 d2 φ 0 {} {} :=
    ⟨rfl, CanonInv.init, CanonInv.init, fun _ _ h => by simp at h, fun _ _ h => by simp at h, fun _ _ h => by simp at h,
      fun _ _ h => by simp at h, fun j hj => by omega, fun j hj => by omega⟩
  obtain ⟨heq, hinv⟩ := Conv.conv_aux [] fin1 fin2 hφ t1 t2 0 {} {} h0 hshape (by simpa using hn1) (by simpa using hn2) hT
    (fun y c _ h => h) (fun y c _ h => h)
  refine ⟨Conv.F d1 d2 φ, heq, ?_⟩
  intro x y hx hy hxy
  obtain ⟨c, hc⟩ := C09.renaming_total t1 {} x hx
  obtain ⟨c', hc'⟩ := C09.renaming_total t1 {} y hy
  have a := hinv.fwd x c hc
  have b := hinv.fwd y c' hc'
  rw [hxy] at a
  have := hinv.inv2.keys _ _ _ a b
  subst this
  exact hinv.inv1.inj x y _ hc hc'

end Hctl
